/-
C13: `formatDuration` on a negative duration prints `-` followed by the text of the absolute value.
-/
import Kap.Proofs.C13Decode
namespace Kap.C13
open Kap.C13.Gen

theorem toString_neg_pos (m : Int) (h : 0 < m) : (toString (-m)).toList = '-' :: (toString m).toList := by
  obtain ⟨k, rfl⟩ : ∃ k : Nat, m = ((k + 1 : Nat) : Int) := ⟨(m - 1).toNat, by omega⟩
  have hn : -((k + 1 : Nat) : Int) = Int.negSucc k := rfl
  rw [hn, decToString_negSucc, decToString_ofNat, String.toList_append]
  rfl

theorem neg_unit (x : Int) (h : 0 < x) (u : String) :
    (toString (-x) ++ u).toList = '-' :: (toString x ++ u).toList := by
  rw [String.toList_append, String.toList_append, toString_neg_pos x h]
  rfl

theorem formatDuration_neg_aux (e : Int) (h : 0 < e) :
    (formatDuration (-e)).toList = '-' :: (formatDuration e).toList := by
  have h0 : 0 ≤ e := by omega
  unfold formatDuration
  simp only [Int.neg_tmod, Int.neg_tdiv, Int.neg_eq_zero, Int.tdiv_eq_ediv_of_nonneg h0,
    Int.tmod_eq_emod_of_nonneg h0]
  split
  · omega
  split
  · exact neg_unit _ (by omega) _
  split
  · exact neg_unit _ (by omega) _
  split
  · exact neg_unit _ (by omega) _
  split
  · exact neg_unit _ (by omega) _
  split
  · exact neg_unit _ (by omega) _
  split
  · exact neg_unit _ (by omega) _
  split
  · exact neg_unit _ (by omega) _
  exact neg_unit _ h _

/-- a negative duration is printed as `-` followed by the text of its absolute value -/
theorem formatDuration_neg (d : Int) (h : d < 0) :
    (formatDuration d).toList = '-' :: (formatDuration (-d)).toList := by
  have := formatDuration_neg_aux (-d) (by omega)
  rwa [Int.neg_neg] at this

end Kap.C13
