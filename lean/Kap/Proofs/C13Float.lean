/-
C13, float literals of every magnitude: the binary64 model `F64` of Kap/Model/C13.lean.
  * `fmt_parses_back`     whatever `F64.fmt` prints, `F64.parse` reads back as the SAME binary64 value
  * `canonFloat_idem`     the canonical text of a float literal is its own canonical text (Format ∘ newNumber is
                          idempotent on floats)
  * `fmt_shape`           the printed text is `digits . digits`, both sides non-empty (`fltTextOK`): one number token
  * `newNumber_float_ok`  hence every float `newNumber` can return passes the per-token checks `atomLexOK` and
                          `atomDecOK` of the character-level theorems, whatever its magnitude
-/
import Kap.Proofs.C13DecodeTree

namespace Kap.C13
open Kap.C13.Gen

namespace F64

/-! ### the printed text parses back -/

theorem choose_parses_back (v : Val) (tlo thi : List Char) (up : Bool) (t : List Char)
    (h : choose v tlo thi up = some t) : parse t = some v := by
  unfold choose at h
  by_cases h1 : (parse tlo == some v) = true
  · by_cases h2 : (parse thi == some v) = true
    · simp only [h1, h2, if_true, Option.some.injEq] at h
      cases up
      · simp only [Bool.false_eq_true, if_false] at h
        rw [← h]; exact beq_iff_eq.mp h1
      · simp only [if_true] at h
        rw [← h]; exact beq_iff_eq.mp h2
    · simp only [h1, h2, if_true, Bool.false_eq_true, if_false, Option.some.injEq] at h
      rw [← h]; exact beq_iff_eq.mp h1
  · by_cases h2 : (parse thi == some v) = true
    · simp only [h1, h2, if_true, Bool.false_eq_true, if_false, Option.some.injEq] at h
      rw [← h]; exact beq_iff_eq.mp h2
    · simp [h1, h2] at h

theorem choose_mem (v : Val) (tlo thi : List Char) (up : Bool) (t : List Char)
    (h : choose v tlo thi up = some t) : t = tlo ∨ t = thi := by
  unfold choose at h
  by_cases h1 : (parse tlo == some v) = true
  · by_cases h2 : (parse thi == some v) = true
    · simp only [h1, h2, if_true, Option.some.injEq] at h
      cases up
      · simp only [Bool.false_eq_true, if_false] at h; exact Or.inl h.symm
      · simp only [if_true] at h; exact Or.inr h.symm
    · simp only [h1, h2, if_true, Bool.false_eq_true, if_false, Option.some.injEq] at h
      exact Or.inl h.symm
  · by_cases h2 : (parse thi == some v) = true
    · simp only [h1, h2, if_true, Bool.false_eq_true, if_false, Option.some.injEq] at h
      exact Or.inr h.symm
    · simp [h1, h2] at h

theorem shortest_parses_back (v : Val) (n d : Nat) (p : Int) :
    ∀ (fuel k : Nat) (t : List Char), shortest v n d p fuel k = some t → parse t = some v
  | 0, _, _, h => by simp [shortest] at h
  | fuel + 1, k, t, h => by
    unfold shortest at h
    split at h
    · rename_i t' hc
      simp only [Option.some.injEq] at h
      rw [← h]; exact choose_parses_back _ _ _ _ _ hc
    · exact shortest_parses_back v n d p fuel (k + 1) t h

/-- `F64.fmt` only answers with a text that `F64.parse` reads back as the same value -/
theorem fmt_parses_back (v : Val) (t : List Char) (h : fmt v = some t) : parse t = some v := by
  unfold fmt at h
  split at h
  · split at h
    · rename_i hz
      simp only [beq_iff_eq] at hz
      simp only [Option.some.injEq] at h
      rw [← h]; exact hz
    · simp at h
  · exact shortest_parses_back _ _ _ _ _ _ _ h

/-! ### the printed text is `digits . digits` -/

theorem isDigit_zero : isDigit '0' = true := by decide
theorem dot_not_digit : isDigit '.' = false := by decide

theorem stripTrailingZeros_digits (cs : List Char) (h : ∀ c ∈ cs, isDigit c = true) :
    ∀ c ∈ stripTrailingZeros cs, isDigit c = true := by
  intro c hc
  unfold stripTrailingZeros at hc
  rw [List.mem_reverse] at hc
  have := (List.dropWhile_sublist (fun x => decide (x = '0')) (l := cs.reverse)).subset hc
  exact h c (List.mem_reverse.mp this)

theorem padLeft_digits (k : Nat) (cs : List Char) (h : ∀ c ∈ cs, isDigit c = true) :
    ∀ c ∈ padLeft k cs, isDigit c = true := by
  intro c hc
  unfold padLeft at hc
  rw [List.mem_append] at hc
  rcases hc with hc | hc
  · rw [List.mem_replicate] at hc
    rw [hc.2]; exact isDigit_zero
  · exact h c hc

/-- `ip ++ '.' :: fp` with both sides non-empty digit strings is what `fltTextOK` accepts -/
theorem fltTextOK_of_parts (ip fp : List Char) (hi : digitsOK ip) (hf : digitsOK fp) :
    fltTextOK (ip ++ '.' :: fp) = true := by
  have hdw : (ip ++ '.' :: fp).dropWhile isDigit = '.' :: fp := by
    rw [List.dropWhile_append_of_pos hi.2]
    rw [List.dropWhile_cons_of_neg (by simp [dot_not_digit])]
  have htw : (ip ++ '.' :: fp).takeWhile isDigit = ip := by
    rw [List.takeWhile_append_of_pos hi.2]
    rw [List.takeWhile_cons_of_neg (by simp [dot_not_digit])]
    simp
  unfold fltTextOK
  rw [hdw, htw]
  have h1 : ip.isEmpty = false := by
    cases ip with
    | nil => exact absurd rfl hi.1
    | cons _ _ => rfl
  have h2 : fp.isEmpty = false := by
    cases fp with
    | nil => exact absurd rfl hf.1
    | cons _ _ => rfl
  simp only [h1, h2, Bool.not_false, Bool.true_and]
  exact List.all_eq_true.mpr hf.2

theorem decText_shape (D : Nat) (s : Int) : fltTextOK (decText D s) = true := by
  unfold decText
  split
  · exact fltTextOK_of_parts _ ['0'] (toDigits_digits 10 (Or.inr rfl) _)
      ⟨by simp, by intro c hc; simp at hc; rw [hc]; exact isDigit_zero⟩
  · simp only
    refine fltTextOK_of_parts _ _ (toDigits_digits 10 (Or.inr rfl) _) ?_
    split
    · exact ⟨by simp, by intro c hc; simp at hc; rw [hc]; exact isDigit_zero⟩
    · rename_i hne
      refine ⟨?_, ?_⟩
      · intro hnil; rw [hnil] at hne; simp at hne
      · exact stripTrailingZeros_digits _ (padLeft_digits _ _ (toDigits_digits 10 (Or.inr rfl) _).2)

theorem cands_shape (n d : Nat) (p : Int) (k : Nat) :
    fltTextOK (cands n d p k).1 = true ∧ fltTextOK (cands n d p k).2.1 = true := by
  unfold cands
  exact ⟨decText_shape _ _, decText_shape _ _⟩

theorem shortest_shape (v : Val) (n d : Nat) (p : Int) :
    ∀ (fuel k : Nat) (t : List Char), shortest v n d p fuel k = some t → fltTextOK t = true
  | 0, _, _, h => by simp [shortest] at h
  | fuel + 1, k, t, h => by
    unfold shortest at h
    split at h
    · rename_i t' hc
      simp only [Option.some.injEq] at h
      rw [← h]
      rcases choose_mem _ _ _ _ _ hc with e | e <;> rw [e]
      · exact (cands_shape n d p k).1
      · exact (cands_shape n d p k).2
    · exact shortest_shape v n d p fuel (k + 1) t h

/-- the printed text of every float is `digits . digits` -/
theorem fmt_shape (v : Val) (t : List Char) (h : fmt v = some t) : fltTextOK t = true := by
  unfold fmt at h
  split at h
  · split at h
    · simp only [Option.some.injEq] at h
      rw [← h]; decide
    · simp at h
  · exact shortest_shape _ _ _ _ _ _ _ h

end F64

/-! ### consequences for `newNumber` / Format -/

theorem canonFloat_ok_iff (cs : List Char) (c : String) (h : canonFloat cs = .ok c) :
    ∃ v t, F64.parse cs = some v ∧ F64.fmt v = some t ∧ c = String.ofList t := by
  unfold canonFloat at h
  split at h
  · simp at h
  · rename_i v hv
    split at h
    · rename_i t ht
      simp only [Res.ok.injEq] at h
      exact ⟨v, t, hv, ht, h.symm⟩
    · simp at h

/-- Format ∘ newNumber is idempotent on float literals: the canonical text is its own canonical text -/
theorem canonFloat_idem (cs : List Char) (c : String) (h : canonFloat cs = .ok c) :
    canonFloat c.toList = .ok c := by
  obtain ⟨v, t, _, ht, hc⟩ := canonFloat_ok_iff cs c h
  have hp := F64.fmt_parses_back v t ht
  rw [hc, String.toList_ofList]
  unfold canonFloat
  rw [hp]
  simp only
  rw [ht]

theorem fltTextOK_contains_dot (t : List Char) (h : fltTextOK t = true) : t.contains '.' = true := by
  obtain ⟨ip, fp, hs, _, _⟩ := fltTextOK_split h
  rw [hs]; simp

theorem fltTextOK_not_neg (t : List Char) (h : fltTextOK t = true) : fltNegText t = none := by
  obtain ⟨ip, fp, hs, hi, _⟩ := fltTextOK_split h
  obtain ⟨d, r, hdr, hd⟩ := digitsOK_head hi
  have hne : d ≠ '-' := digit_ne d '-' hd (by decide)
  rw [hs, hdr]
  unfold fltNegText
  split
  · rename_i t' heq
    simp only [List.cons_append, List.cons.injEq] at heq
    exact absurd heq.1.symm (by simpa using hne.symm)
  · rfl

/-- every float `newNumber` can return – any number of digits, any magnitude up to the largest finite binary64 –
is printed as a text the lexer reads as ONE number token (`atomLexOK`, both lexer states) that `newNumber` decodes
to the same float (`atomDecOK`): the two per-atom hypotheses of `lexer_reads_formatted_all` /
`lexer_decodes_formatted` hold for the whole image of the float branch of `newNumber`. -/
theorem newNumber_float_ok (text : String) (c : String) (h : newNumber text = .ok (.flt c)) (b : Bool) :
    atomLexOK b (.num (.flt c)) = true ∧ atomDecOK (.num (.flt c)) = true := by
  have hc : canonFloat text.toList = .ok c := by
    unfold newNumber at h
    simp only at h
    split at h
    · simp at h
    · split at h
      · cases hcf : canonFloat text.toList with
        | ok c' =>
          rw [hcf] at h
          simp only [Res.bind, Res.ok.injEq, Num.flt.injEq] at h
          rw [h]
        | err => rw [hcf] at h; simp [Res.bind] at h
        | na w => rw [hcf] at h; simp [Res.bind] at h
      · split at h <;> simp at h
  obtain ⟨v, t, _, ht, hct⟩ := canonFloat_ok_iff _ c hc
  have hshape : fltTextOK c.toList = true := by
    rw [hct, String.toList_ofList]; exact F64.fmt_shape v t ht
  have hidem := canonFloat_idem _ c hc
  refine ⟨by simp [atomLexOK, hshape], ?_⟩
  simp only [atomDecOK, fltTextOK_not_neg _ hshape, Option.getD_none, fltDecOK, Bool.and_eq_true,
    decide_eq_true_eq]
  refine ⟨fltTextOK_contains_dot _ hshape, ?_⟩
  rw [hidem]
  simp

end Kap.C13
