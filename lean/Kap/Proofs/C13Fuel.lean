/-
C13: the fuel `2·|tokens| + 4` of `parseTokens` always suffices: the parser never answers "out of fuel".
Two inductions on the fuel: (1) every sub-parser returns a suffix no longer than its input (primary: strictly
shorter; the outer loop: strictly shorter when it starts at an operator it accepts), (2) with fuel
2·|ts|+1 (primary, outer), 2·|ts|+2 (inner, params) no `na` can come out.
-/
import Kap.Proofs.C13Image

namespace Kap.C13
open Kap.C13.Gen

def LenP (f : Nat) : Prop := ∀ ts e rest, primary f ts = .ok (e, rest) → rest.length < ts.length
def LenO (f : Nat) : Prop := ∀ lhs minP ts e rest, outer f lhs minP ts = .ok (e, rest) →
  rest.length ≤ ts.length ∧ (∀ o ts1, ts = .op o :: ts1 → minP ≤ prec o → rest.length ≤ ts1.length)
def LenI (f : Nat) : Prop := ∀ rhs p ts e rest, inner f rhs p ts = .ok (e, rest) → rest.length ≤ ts.length
def LenA (f : Nat) : Prop := ∀ ts args rest, params f ts = .ok (args, rest) → rest.length ≤ ts.length

theorem len_specs : ∀ f, LenP f ∧ LenO f ∧ LenI f ∧ LenA f
  | 0 => by
    refine ⟨?_, ?_, ?_, ?_⟩
    · intro ts e rest h; simp [primary] at h
    · intro lhs minP ts e rest h; simp [outer] at h
    · intro rhs p ts e rest h; simp [inner] at h
    · intro ts args rest h; simp [params] at h
  | f + 1 => by
    obtain ⟨ihP, ihO, ihI, ihA⟩ := len_specs f
    have hP : LenP (f + 1) := by
      intro ts e rest h
      match ts, h with
      | .lp :: ts, h =>
        simp only [primary] at h
        obtain ⟨x, hx, h⟩ := Res.bind_eq_ok h
        obtain ⟨y, hy, h⟩ := Res.bind_eq_ok h
        obtain ⟨_, hr⟩ := expectRp_ok h
        have l1 := ihP _ _ _ (by rw [hx])
        have l2 := (ihO _ _ _ _ _ (by rw [hy])).1
        rw [hr] at l2
        simp at l2 ⊢; omega
      | .lit a :: ts, h => simp [primary] at h; obtain ⟨_, rfl⟩ := h; simp
      | .id s :: .lp :: ts, h =>
        simp only [primary] at h
        obtain ⟨x, hx, h⟩ := Res.bind_eq_ok h
        obtain ⟨_, hr⟩ := expectRp_ok h
        have l1 := ihA _ _ _ (by rw [hx])
        rw [hr] at l1
        simp at l1 ⊢; omega
      | [.id s], h => simp [primary] at h; obtain ⟨_, rfl⟩ := h; simp
      | .id s :: .lit _ :: ts, h => simp [primary] at h; obtain ⟨_, rfl⟩ := h; simp
      | .id s :: .id _ :: ts, h => simp [primary] at h; obtain ⟨_, rfl⟩ := h; simp
      | .id s :: .rp :: ts, h => simp [primary] at h; obtain ⟨_, rfl⟩ := h; simp
      | .id s :: .comma :: ts, h => simp [primary] at h; obtain ⟨_, rfl⟩ := h; simp
      | .id s :: .not :: ts, h => simp [primary] at h; obtain ⟨_, rfl⟩ := h; simp
      | .id s :: .op _ :: ts, h => simp [primary] at h; obtain ⟨_, rfl⟩ := h; simp
      | .id s :: .sym _ :: ts, h => simp [primary] at h; obtain ⟨_, rfl⟩ := h; simp
      | .op o :: ts, h =>
        cases o <;> simp only [primary] at h <;> try (simp at h)
        obtain ⟨x, hx, h⟩ := Res.bind_eq_ok h
        simp at h
        obtain ⟨_, rfl⟩ := h
        have := ihP _ _ _ (by rw [hx])
        simp; omega
      | .not :: ts, h =>
        simp only [primary] at h
        obtain ⟨x, hx, h⟩ := Res.bind_eq_ok h
        simp at h
        obtain ⟨_, rfl⟩ := h
        have := ihP _ _ _ (by rw [hx])
        simp; omega
      | [], h => simp [primary] at h
      | .rp :: ts, h => simp [primary] at h
      | .comma :: ts, h => simp [primary] at h
      | .sym _ :: ts, h => simp [primary] at h
    have hO : LenO (f + 1) := by
      intro lhs minP ts e rest h
      cases ts with
      | nil => simp [outer] at h; simp [h.2]
      | cons t ts1 =>
        cases t with
        | op o =>
          by_cases hp : prec o ≥ minP
          · simp only [outer, hp, if_true] at h
            obtain ⟨x, hx, h⟩ := Res.bind_eq_ok h
            obtain ⟨y, hy, h⟩ := Res.bind_eq_ok h
            have l1 := ihP _ _ _ (by rw [hx])
            have l2 := ihI _ _ _ _ _ (by rw [hy])
            have l3 := (ihO _ _ _ _ _ h).1
            refine ⟨by simp; omega, ?_⟩
            intro o' ts1' heq _
            simp at heq; obtain ⟨_, rfl⟩ := heq
            omega
          · simp only [outer, hp, if_false] at h
            simp at h
            refine ⟨by simp [← h.2], ?_⟩
            intro o' ts1' heq hge
            simp at heq; obtain ⟨rfl, _⟩ := heq
            omega
        | lit a => simp [outer] at h; exact ⟨by simp [← h.2], fun _ _ heq => by simp at heq⟩
        | id a => simp [outer] at h; exact ⟨by simp [← h.2], fun _ _ heq => by simp at heq⟩
        | lp => simp [outer] at h; exact ⟨by simp [← h.2], fun _ _ heq => by simp at heq⟩
        | rp => simp [outer] at h; exact ⟨by simp [← h.2], fun _ _ heq => by simp at heq⟩
        | comma => simp [outer] at h; exact ⟨by simp [← h.2], fun _ _ heq => by simp at heq⟩
        | not => simp [outer] at h; exact ⟨by simp [← h.2], fun _ _ heq => by simp at heq⟩
        | sym a => simp [outer] at h; exact ⟨by simp [← h.2], fun _ _ heq => by simp at heq⟩
    have hI : LenI (f + 1) := by
      intro rhs p ts e rest h
      cases ts with
      | nil => simp [inner] at h; simp [h.2]
      | cons t ts1 =>
        cases t with
        | op o =>
          by_cases hp : prec o > p
          · simp only [inner, hp, if_true] at h
            obtain ⟨x, hx, h⟩ := Res.bind_eq_ok h
            have l1 := (ihO _ _ _ _ _ (by rw [hx])).1
            have l2 := ihI _ _ _ _ _ h
            omega
          · simp only [inner, hp, if_false] at h
            simp at h
            simp [← h.2]
        | lit a => simp [inner] at h; simp [← h.2]
        | id a => simp [inner] at h; simp [← h.2]
        | lp => simp [inner] at h; simp [← h.2]
        | rp => simp [inner] at h; simp [← h.2]
        | comma => simp [inner] at h; simp [← h.2]
        | not => simp [inner] at h; simp [← h.2]
        | sym a => simp [inner] at h; simp [← h.2]
    have hA : LenA (f + 1) := by
      intro ts args rest h
      simp only [params] at h
      by_cases hs : startsRp ts = true
      · simp [hs] at h; simp [← h.2]
      · simp only [hs, Bool.false_eq_true, if_false] at h
        obtain ⟨x, hx, h⟩ := Res.bind_eq_ok h
        obtain ⟨y, hy, h⟩ := Res.bind_eq_ok h
        have l1 := ihP _ _ _ (by rw [hx])
        have l2 := (ihO _ _ _ _ _ (by rw [hy])).1
        split at h
        · rename_i ts2 heq
          obtain ⟨z, hz, h⟩ := Res.bind_eq_ok h
          simp at h
          obtain ⟨_, rfl⟩ := h
          have l3 := ihA _ _ _ (by rw [hz])
          rw [heq] at l2; simp at l2
          omega
        · simp at h
          obtain ⟨_, rfl⟩ := h
          omega
    exact ⟨hP, hO, hI, hA⟩

theorem Res.bind_ne_na {α β} {r : Res α} {g : α → Res β}
    (h1 : ∀ w, r ≠ .na w) (h2 : ∀ x, r = .ok x → ∀ w, g x ≠ .na w) : ∀ w, r.bind g ≠ .na w := by
  intro w
  cases r with
  | ok a => exact h2 a rfl w
  | err => simp
  | na v => exact absurd rfl (h1 v)

theorem expectRp_ne_na {α} (k : α → Expr) (x : α × List Tok) : ∀ w, expectRp k x ≠ .na w := by
  intro w
  obtain ⟨a, ts⟩ := x
  cases ts with
  | nil => simp [expectRp]
  | cons t ts => cases t <;> simp [expectRp]

def NaP (f : Nat) : Prop := ∀ ts, 2 * ts.length + 1 ≤ f → ∀ w, primary f ts ≠ .na w
def NaO (f : Nat) : Prop := ∀ lhs minP ts, 2 * ts.length + 1 ≤ f → ∀ w, outer f lhs minP ts ≠ .na w
def NaI (f : Nat) : Prop := ∀ rhs p ts, 2 * ts.length + 2 ≤ f → ∀ w, inner f rhs p ts ≠ .na w
def NaA (f : Nat) : Prop := ∀ ts, 2 * ts.length + 2 ≤ f → ∀ w, params f ts ≠ .na w

theorem na_specs : ∀ f, NaP f ∧ NaO f ∧ NaI f ∧ NaA f
  | 0 => by
    refine ⟨?_, ?_, ?_, ?_⟩
    · intro ts h; omega
    · intro lhs minP ts h; omega
    · intro rhs p ts h; omega
    · intro ts h; omega
  | f + 1 => by
    obtain ⟨ihP, ihO, ihI, ihA⟩ := na_specs f
    obtain ⟨lP, lO, lI, lA⟩ := len_specs f
    have hP : NaP (f + 1) := by
      intro ts hf
      match ts, hf with
      | .lp :: ts, hf =>
        simp only [primary]
        simp at hf
        refine Res.bind_ne_na (ihP ts (by omega)) ?_
        intro x hx
        have l1 := lP _ _ _ (by rw [hx])
        refine Res.bind_ne_na (ihO _ _ _ (by omega)) ?_
        intro y _
        exact expectRp_ne_na _ _
      | .lit a :: ts, _ => intro w; simp [primary]
      | .id s :: .lp :: ts, hf =>
        simp only [primary]
        simp at hf
        refine Res.bind_ne_na (ihA ts (by omega)) ?_
        intro x _
        exact expectRp_ne_na _ _
      | [.id s], _ => intro w; simp [primary]
      | .id s :: .lit _ :: ts, _ => intro w; simp [primary]
      | .id s :: .id _ :: ts, _ => intro w; simp [primary]
      | .id s :: .rp :: ts, _ => intro w; simp [primary]
      | .id s :: .comma :: ts, _ => intro w; simp [primary]
      | .id s :: .not :: ts, _ => intro w; simp [primary]
      | .id s :: .op _ :: ts, _ => intro w; simp [primary]
      | .id s :: .sym _ :: ts, _ => intro w; simp [primary]
      | .op o :: ts, hf =>
        simp at hf
        intro w
        cases o <;> simp only [primary] <;> try (simp; done)
        exact Res.bind_ne_na (ihP ts (by omega)) (fun x _ w => by simp) w
      | .not :: ts, hf =>
        simp only [primary]
        simp at hf
        refine Res.bind_ne_na (ihP ts (by omega)) ?_
        intro x _ w; simp
      | [], _ => intro w; simp [primary]
      | .rp :: ts, _ => intro w; simp [primary]
      | .comma :: ts, _ => intro w; simp [primary]
      | .sym _ :: ts, _ => intro w; simp [primary]
    have hO : NaO (f + 1) := by
      intro lhs minP ts hf
      cases ts with
      | nil => intro w; simp [outer]
      | cons t ts1 =>
        cases t with
        | op o =>
          simp at hf
          by_cases hp : prec o ≥ minP
          · simp only [outer, hp, if_true]
            refine Res.bind_ne_na (ihP ts1 (by omega)) ?_
            intro x hx
            have l1 := lP _ _ _ (by rw [hx])
            refine Res.bind_ne_na (ihI _ _ _ (by omega)) ?_
            intro y hy
            have l2 := lI _ _ _ _ _ (by rw [hy])
            exact ihO _ _ _ (by omega)
          · intro w; simp [outer, hp]
        | lit a => intro w; simp [outer]
        | id a => intro w; simp [outer]
        | lp => intro w; simp [outer]
        | rp => intro w; simp [outer]
        | comma => intro w; simp [outer]
        | not => intro w; simp [outer]
        | sym a => intro w; simp [outer]
    have hI : NaI (f + 1) := by
      intro rhs p ts hf
      cases ts with
      | nil => intro w; simp [inner]
      | cons t ts1 =>
        cases t with
        | op o =>
          simp at hf
          by_cases hp : prec o > p
          · simp only [inner, hp, if_true]
            refine Res.bind_ne_na (ihO _ _ _ (by simp; omega)) ?_
            intro x hx
            have l1 := (lO _ _ _ _ _ (by rw [hx])).2 o ts1 rfl (Nat.le_refl _)
            exact ihI _ _ _ (by omega)
          · intro w; simp [inner, hp]
        | lit a => intro w; simp [inner]
        | id a => intro w; simp [inner]
        | lp => intro w; simp [inner]
        | rp => intro w; simp [inner]
        | comma => intro w; simp [inner]
        | not => intro w; simp [inner]
        | sym a => intro w; simp [inner]
    have hA : NaA (f + 1) := by
      intro ts hf
      simp only [params]
      by_cases hs : startsRp ts = true
      · intro w; simp [hs]
      · simp only [hs, Bool.false_eq_true, if_false]
        refine Res.bind_ne_na (ihP ts (by omega)) ?_
        intro x hx
        have l1 := lP _ _ _ (by rw [hx])
        refine Res.bind_ne_na (ihO _ _ _ (by omega)) ?_
        intro y hy
        have l2 := (lO _ _ _ _ _ (by rw [hy])).1
        split
        · rename_i ts2 heq
          rw [heq] at l2; simp at l2
          refine Res.bind_ne_na (ihA ts2 (by omega)) ?_
          intro z _ w; simp
        · intro w; simp
    exact ⟨hP, hO, hI, hA⟩

theorem primaryExpr_ne_na (ts : List Tok) : ∀ w, primaryExpr (2 * ts.length + 4) ts ≠ .na w := by
  obtain ⟨hP, hO, _, _⟩ := na_specs (2 * ts.length + 4)
  obtain ⟨lP, _, _, _⟩ := len_specs (2 * ts.length + 4)
  unfold primaryExpr
  refine Res.bind_ne_na (hP ts (by omega)) ?_
  intro x hx
  have l1 := lP _ _ _ (by rw [hx])
  exact hO _ _ _ (by omega)

/-- `parseTokens` (fuel 2·|ts| + 4) never runs out of fuel -/
theorem parseTokens_ne_na (ts : List Tok) : ∀ w, parseTokens ts ≠ .na w := by
  intro w
  have h1 := primaryExpr_ne_na ts
  unfold parseTokens parseTokensF
  split <;> simp_all

end Kap.C13
