/-
C13: everything the parser returns is canonical (so the round-trip theorem applies to every accepted input).
Invariants of the two loops of `precedence`, by induction on the fuel.
-/
import Kap.Proofs.C13Canon

namespace Kap.C13
open Kap.C13.Gen

theorem Res.bind_eq_ok {α β} {r : Res α} {g : α → Res β} {y : β} (h : r.bind g = .ok y) :
    ∃ x, r = .ok x ∧ g x = .ok y := by
  cases r with
  | ok a => exact ⟨a, rfl, h⟩
  | err => simp at h
  | na w => simp at h

theorem okQ_of_not_bare {e : Expr} (h : isBare e = false) (q : Nat) : okQ q e = true := by
  cases e with
  | bin o l r p => cases p <;> simp_all [isBare, okQ]
  | _ => simp [okQ]

theorem canon_setParens (e : Expr) : canon (setParens e) = canon e := by
  cases e <;> simp [setParens, canon]

theorem isBare_setParens (e : Expr) : isBare (setParens e) = false := by
  cases e <;> simp [setParens, isBare]

def PrimarySpec (f : Nat) : Prop :=
  ∀ ts e rest, primary f ts = .ok (e, rest) → canon e = true ∧ isBare e = false

def OuterSpec (f : Nat) : Prop :=
  ∀ lhs minP ts e rest, outer f lhs minP ts = .ok (e, rest) → canon lhs = true →
    (∀ o tl, ts = .op o :: tl → okQ (prec o) lhs = true) →
    canon e = true ∧ (∀ q, q ≤ minP → okQ q lhs = true → okQ q e = true) ∧
    (∀ o tl, rest = .op o :: tl → prec o < minP ∧ okQ (prec o) e = true)

def InnerSpec (f : Nat) : Prop :=
  ∀ rhs p ts e rest, inner f rhs p ts = .ok (e, rest) → canon rhs = true → okQ (p + 1) rhs = true →
    (∀ o tl, ts = .op o :: tl → okQ (prec o) rhs = true) →
    canon e = true ∧ okQ (p + 1) e = true ∧ (∀ o tl, rest = .op o :: tl → prec o ≤ p ∧ okQ (prec o) e = true)

def ParamsSpec (f : Nat) : Prop :=
  ∀ ts args rest, params f ts = .ok (args, rest) → canonAll args = true

theorem expectRp_ok {α} {k : α → Expr} {x : α × List Tok} {e : Expr} {rest : List Tok}
    (h : expectRp k x = .ok (e, rest)) : e = k x.1 ∧ x.2 = .rp :: rest := by
  obtain ⟨a, ts⟩ := x
  cases ts with
  | nil => simp [expectRp] at h
  | cons t ts =>
    cases t <;> simp [expectRp] at h
    exact ⟨h.1.symm, by simp [h.2]⟩

theorem image_specs : ∀ f, PrimarySpec f ∧ OuterSpec f ∧ InnerSpec f ∧ ParamsSpec f
  | 0 => by
    refine ⟨?_, ?_, ?_, ?_⟩
    · intro ts e rest h; simp [primary] at h
    · intro lhs minP ts e rest h; simp [outer] at h
    · intro rhs p ts e rest h; simp [inner] at h
    · intro ts args rest h; simp [params] at h
  | f + 1 => by
    obtain ⟨ihP, ihO, ihI, ihA⟩ := image_specs f
    have hP : PrimarySpec (f + 1) := by
      intro ts e rest h
      match ts, h with
      | .lp :: ts, h =>
        simp only [primary] at h
        obtain ⟨x, hx, h⟩ := Res.bind_eq_ok h
        obtain ⟨y, hy, h⟩ := Res.bind_eq_ok h
        obtain ⟨he, _⟩ := expectRp_ok h
        obtain ⟨cx, bx⟩ := ihP _ _ _ (by rw [hx])
        obtain ⟨cy, _, _⟩ := ihO _ _ _ _ _ (by rw [hy]) cx (fun o tl _ => okQ_of_not_bare bx _)
        subst he
        exact ⟨by rw [canon_setParens]; exact cy, isBare_setParens _⟩
      | .lit a :: ts, h => simp [primary] at h; obtain ⟨rfl, _⟩ := h; simp [canon, isBare]
      | .id s :: .lp :: ts, h =>
        simp only [primary] at h
        obtain ⟨x, hx, h⟩ := Res.bind_eq_ok h
        obtain ⟨he, _⟩ := expectRp_ok h
        subst he
        have := ihA _ _ _ (by rw [hx])
        exact ⟨by simpa [canon] using this, by simp [isBare]⟩
      | [.id s], h => simp [primary] at h; obtain ⟨rfl, _⟩ := h; simp [canon, isBare]
      | .id s :: .lit _ :: ts, h => simp [primary] at h; obtain ⟨rfl, _⟩ := h; simp [canon, isBare]
      | .id s :: .id _ :: ts, h => simp [primary] at h; obtain ⟨rfl, _⟩ := h; simp [canon, isBare]
      | .id s :: .rp :: ts, h => simp [primary] at h; obtain ⟨rfl, _⟩ := h; simp [canon, isBare]
      | .id s :: .comma :: ts, h => simp [primary] at h; obtain ⟨rfl, _⟩ := h; simp [canon, isBare]
      | .id s :: .not :: ts, h => simp [primary] at h; obtain ⟨rfl, _⟩ := h; simp [canon, isBare]
      | .id s :: .op _ :: ts, h => simp [primary] at h; obtain ⟨rfl, _⟩ := h; simp [canon, isBare]
      | .id s :: .sym _ :: ts, h => simp [primary] at h; obtain ⟨rfl, _⟩ := h; simp [canon, isBare]
      | .op o :: ts, h =>
        cases o <;> simp only [primary] at h <;> try (simp at h)
        obtain ⟨x, hx, h⟩ := Res.bind_eq_ok h
        simp at h
        obtain ⟨rfl, _⟩ := h
        obtain ⟨cx, bx⟩ := ihP _ _ _ (by rw [hx])
        exact ⟨by simp [canon, cx, bx], rfl⟩
      | .not :: ts, h =>
        simp only [primary] at h
        obtain ⟨x, hx, h⟩ := Res.bind_eq_ok h
        simp at h
        obtain ⟨rfl, _⟩ := h
        obtain ⟨cx, bx⟩ := ihP _ _ _ (by rw [hx])
        exact ⟨by simp [canon, cx, bx], rfl⟩
      | [], h => simp [primary] at h
      | .rp :: ts, h => simp [primary] at h
      | .comma :: ts, h => simp [primary] at h
      | .sym _ :: ts, h => simp [primary] at h
    have hO : OuterSpec (f + 1) := by
      intro lhs minP ts e rest h cl hhead
      have stay : ∀ ts', (∀ o tl, ts' = .op o :: tl → prec o < minP) → e = lhs → rest = ts' → ts' = ts →
          canon e = true ∧ (∀ q, q ≤ minP → okQ q lhs = true → okQ q e = true) ∧
          (∀ o tl, rest = .op o :: tl → prec o < minP ∧ okQ (prec o) e = true) := by
        intro ts' hlt he hr hts
        subst he hr hts
        exact ⟨cl, fun q _ h => h, fun o tl heq => ⟨hlt o tl heq, hhead o tl heq⟩⟩
      cases ts with
      | nil =>
        simp [outer] at h
        exact stay [] (fun _ _ heq => by simp at heq) h.1.symm h.2 rfl
      | cons t ts1 =>
        cases t with
        | op o =>
          by_cases hp : prec o ≥ minP
          · simp only [outer, hp, if_true] at h
            obtain ⟨x, hx, h⟩ := Res.bind_eq_ok h
            obtain ⟨y, hy, h⟩ := Res.bind_eq_ok h
            obtain ⟨cx, bx⟩ := ihP _ _ _ (by rw [hx])
            obtain ⟨cy, oy, hy3⟩ := ihI _ _ _ _ _ (by rw [hy]) cx (okQ_of_not_bare bx _) (fun _ _ _ => okQ_of_not_bare bx _)
            have cl' : canon (.bin o lhs y.1 false) = true := by
              simp [canon, cl, cy, oy, hhead o ts1 rfl]
            obtain ⟨ce, oe, he3⟩ := ihO _ _ _ _ _ h cl' (fun o' tl heq => by
              have := (hy3 o' tl heq).1
              simpa [okQ] using this)
            refine ⟨ce, ?_, he3⟩
            intro q hq _
            exact oe q hq (by simp [okQ]; omega)
          · simp only [outer, hp, if_false] at h
            simp at h
            exact stay (.op o :: ts1) (fun o' tl heq => by simp at heq; obtain ⟨rfl, _⟩ := heq; omega) h.1.symm h.2.symm rfl
        | lit a => simp [outer] at h; exact stay _ (fun _ _ heq => by simp at heq) h.1.symm h.2.symm rfl
        | id a => simp [outer] at h; exact stay _ (fun _ _ heq => by simp at heq) h.1.symm h.2.symm rfl
        | lp => simp [outer] at h; exact stay _ (fun _ _ heq => by simp at heq) h.1.symm h.2.symm rfl
        | rp => simp [outer] at h; exact stay _ (fun _ _ heq => by simp at heq) h.1.symm h.2.symm rfl
        | comma => simp [outer] at h; exact stay _ (fun _ _ heq => by simp at heq) h.1.symm h.2.symm rfl
        | not => simp [outer] at h; exact stay _ (fun _ _ heq => by simp at heq) h.1.symm h.2.symm rfl
        | sym a => simp [outer] at h; exact stay _ (fun _ _ heq => by simp at heq) h.1.symm h.2.symm rfl
    have hI : InnerSpec (f + 1) := by
      intro rhs p ts e rest h cr oq hhead
      have stay : ∀ ts', (∀ o tl, ts' = .op o :: tl → prec o ≤ p) → e = rhs → rest = ts' → ts' = ts →
          canon e = true ∧ okQ (p + 1) e = true ∧
          (∀ o tl, rest = .op o :: tl → prec o ≤ p ∧ okQ (prec o) e = true) := by
        intro ts' hle he hr hts
        subst he hr hts
        exact ⟨cr, oq, fun o tl heq => ⟨hle o tl heq, hhead o tl heq⟩⟩
      cases ts with
      | nil =>
        simp [inner] at h
        exact stay [] (fun _ _ heq => by simp at heq) h.1.symm h.2 rfl
      | cons t ts1 =>
        cases t with
        | op o =>
          by_cases hp : prec o > p
          · simp only [inner, hp, if_true] at h
            obtain ⟨x, hx, h⟩ := Res.bind_eq_ok h
            obtain ⟨cx, ox, hx3⟩ := ihO _ _ _ _ _ (by rw [hx]) cr hhead
            exact ihI _ _ _ _ _ h cx (ox (p + 1) (by omega) oq) (fun o' tl heq => (hx3 o' tl heq).2)
          · simp only [inner, hp, if_false] at h
            simp at h
            exact stay (.op o :: ts1) (fun o' tl heq => by simp at heq; obtain ⟨rfl, _⟩ := heq; omega) h.1.symm h.2.symm rfl
        | lit a => simp [inner] at h; exact stay _ (fun _ _ heq => by simp at heq) h.1.symm h.2.symm rfl
        | id a => simp [inner] at h; exact stay _ (fun _ _ heq => by simp at heq) h.1.symm h.2.symm rfl
        | lp => simp [inner] at h; exact stay _ (fun _ _ heq => by simp at heq) h.1.symm h.2.symm rfl
        | rp => simp [inner] at h; exact stay _ (fun _ _ heq => by simp at heq) h.1.symm h.2.symm rfl
        | comma => simp [inner] at h; exact stay _ (fun _ _ heq => by simp at heq) h.1.symm h.2.symm rfl
        | not => simp [inner] at h; exact stay _ (fun _ _ heq => by simp at heq) h.1.symm h.2.symm rfl
        | sym a => simp [inner] at h; exact stay _ (fun _ _ heq => by simp at heq) h.1.symm h.2.symm rfl
    have hA : ParamsSpec (f + 1) := by
      intro ts args rest h
      simp only [params] at h
      by_cases hs : startsRp ts = true
      · simp [hs] at h; obtain ⟨rfl, _⟩ := h; rfl
      · simp only [hs, Bool.false_eq_true, if_false] at h
        obtain ⟨x, hx, h⟩ := Res.bind_eq_ok h
        obtain ⟨y, hy, h⟩ := Res.bind_eq_ok h
        obtain ⟨cx, bx⟩ := ihP _ _ _ (by rw [hx])
        obtain ⟨cy, _, _⟩ := ihO _ _ _ _ _ (by rw [hy]) cx (fun _ _ _ => okQ_of_not_bare bx _)
        split at h
        · obtain ⟨z, hz, h⟩ := Res.bind_eq_ok h
          simp at h
          obtain ⟨rfl, _⟩ := h
          have := ihA _ _ _ (by rw [hz])
          simp [canonAll, cy, this]
        · simp at h
          obtain ⟨rfl, _⟩ := h
          simp [canonAll, cy]
    exact ⟨hP, hO, hI, hA⟩

end Kap.C13
