/-
C13, character level: the lexer reads the text `Node.Format` prints back as the raw token sequence of the tree
(`lex (fmtChars e) = ok (rawToks e)`), for every tree whose operand tokens lex as themselves (`AtomLex`,
discharged below for identifiers, booleans, references and single-quoted strings; numbers, durations and
triple-quoted strings enter as the same per-token hypothesis; regex and star operands are excluded: they are
lexed differently depending on what precedes them).
-/
import Kap.Model.C13

namespace Kap.C13
open Kap.C13.Gen

/-! ### raw tokens of a tree -/

def atomRaw : Atom → RTok
  | .num n => .number (String.ofList (atomText (.num n)))
  | .dur ns l => .duration (String.ofList (atomText (.dur ns l)))
  | .bool true => .tTrue
  | .bool false => .tFalse
  | .str l t => .string (String.ofList (atomText (.str l t)))
  | .rx re l => .regex (String.ofList (atomText (.rx re l)))
  | .ref s => .reference (String.ofList (atomText (.ref s)))
  | .star => .star

mutual
def rawToksP : Expr → Bool → List RTok
  | .lit a, _ => [atomRaw a]
  | .id s, _ => [.ident (String.ofList s.toList)]
  | .un .neg e, _ => .op .TokenMinus :: rawToksP e true
  | .un .not e, _ => .not :: rawToksP e true
  | .bin o l r p, extra =>
    (if p || extra then [.lp] else []) ++ rawToksP l (needsParens l o false) ++ .op o ::
      rawToksP r (needsParens r o true) ++ (if p || extra then [.rp] else [])
  | .call f args, _ => .ident (String.ofList f.toList) :: .lp :: rawArgToks args ++ [.rp]
def rawArgToks : List Expr → List RTok
  | [] => []
  | [a] => rawToksP a false
  | a :: rest => rawToksP a false ++ .comma :: rawArgToks rest
end

/-! ### what may follow / start an operand -/

/-- after an operand the formatter writes a space (before an operator), `)`, `,` or nothing -/
def nextOK : List Char → Prop
  | [] => True
  | c :: _ => c = ' ' ∨ c = ')' ∨ c = ','

/-- first character of an operand that the state `tryLexBinaryOperator` hands over unchanged to `lexToken` -/
def headFalls (c : Char) : Prop :=
  isSpace c = false ∧ c ≠ '+' ∧ c ≠ '-' ∧ c ≠ '*' ∧ c ≠ '%' ∧ c ≠ '/' ∧ c ≠ '!' ∧ c ≠ '>' ∧ c ≠ '<' ∧ c ≠ '='

/-- `txt` lexes as the tokens `ts` in either state, ends in the state "after an operand", costs at most two
units of fuel per character -/
def Lexes (txt : List Char) (ts : List RTok) : Prop :=
  ∀ b, ∃ k, k ≤ 2 * txt.length ∧ ∀ f rest acc, nextOK rest →
    lexLoop (f + k) b (txt ++ rest) acc = lexLoop f true rest (ts.reverse ++ acc)

/-- first character: not a space, not `=`, `~`, `/` (so `!x` is not `!=`, and `=~ x` does not start a regex) -/
def HeadOK (txt : List Char) : Prop :=
  ∃ c t, txt = c :: t ∧ isSpace c = false ∧ c ≠ '=' ∧ c ≠ '~' ∧ c ≠ '/'

theorem dropSpace_of_head {c : Char} {t : List Char} (h : isSpace c = false) : dropSpace (c :: t) = c :: t := by
  simp [dropSpace, h]

/-- in the state after an operand, a character that starts no operator is handed to `lexToken` -/
theorem bop_falls (f : Nat) (c : Char) (t : List Char) (acc : List RTok) (h : headFalls c) :
    lexLoop (f + 1) true (c :: t) acc = lexLoop f false (c :: t) acc := by
  obtain ⟨h0, h1, h2, h3, h4, h5, h6, h7, h8, h9⟩ := h
  rw [lexLoop.eq_def]
  simp only [if_true, dropSpace_of_head h0]
  split <;> simp_all

/-- from "lexes in the state lexToken" to "lexes in both states" for an operand whose first character falls through -/
theorem lexes_of_false {txt : List Char} {ts : List RTok} (c : Char) (t : List Char) (hc : txt = c :: t)
    (hf : headFalls c) (k : Nat) (hk : k + 1 ≤ 2 * txt.length)
    (h : ∀ f rest acc, nextOK rest → lexLoop (f + k) false (txt ++ rest) acc = lexLoop f true rest (ts.reverse ++ acc)) :
    Lexes txt ts := by
  intro b
  cases b with
  | false => exact ⟨k, by omega, h⟩
  | true =>
    refine ⟨k + 1, hk, ?_⟩
    intro f rest acc hr
    subst hc
    rw [← Nat.add_assoc, List.cons_append, bop_falls _ _ _ _ hf, ← List.cons_append]
    exact h f rest acc hr

/-! ### pieces -/

theorem lex_rp (f : Nat) (R : List Char) (acc : List RTok) :
    lexLoop (f + 2) true (')' :: R) acc = lexLoop f true R (.rp :: acc) := by
  simp [lexLoop, dropSpace, isSpace, isDigit, isLetter]

theorem lex_comma (f : Nat) (R : List Char) (acc : List RTok) :
    lexLoop (f + 3) true (',' :: ' ' :: R) acc = lexLoop f false R (.comma :: acc) := by
  simp [lexLoop, dropSpace, isSpace, isDigit, isLetter]

theorem lex_lp (f : Nat) (R : List Char) (acc : List RTok) : ∀ b,
    ∃ k, k ≤ 2 ∧ lexLoop (f + k) b ('(' :: R) acc = lexLoop f false R (.lp :: acc)
  | false => ⟨1, by omega, by simp [lexLoop, isSpace, isDigit, isLetter]⟩
  | true => ⟨2, by omega, by simp [lexLoop, dropSpace, isSpace, isDigit, isLetter]⟩

theorem lex_minus (f : Nat) (R : List Char) (acc : List RTok) : ∀ b,
    lexLoop (f + 1) b ('-' :: R) acc = lexLoop f false R (.op .TokenMinus :: acc)
  | false => by simp [lexLoop]
  | true => by simp [lexLoop, dropSpace, isSpace]

theorem lex_not (f : Nat) (R : List Char) (acc : List RTok) (h : HeadOK R) : ∀ b,
    lexLoop (f + 1) b ('!' :: R) acc = lexLoop f false R (.not :: acc)
  | false => by simp [lexLoop]
  | true => by
    obtain ⟨c, t, rfl, _, h1, h2, _⟩ := h
    rw [lexLoop.eq_def]
    simp only [if_true]
    have : dropSpace ('!' :: c :: t) = '!' :: c :: t := by simp [dropSpace, isSpace]
    rw [this]
    split <;> simp_all

theorem bop_skip_space (g : Nat) (X : List Char) (acc : List RTok) (h : HeadOK X) :
    lexLoop g true (' ' :: X) acc = lexLoop g true X acc := by
  obtain ⟨c, t, rfl, h0, _⟩ := h
  cases g with
  | zero => simp [lexLoop]
  | succ g =>
    rw [lexLoop.eq_def, lexLoop.eq_def (g + 1)]
    simp only [if_true]
    have : dropSpace (' ' :: c :: t) = dropSpace (c :: t) := by simp [dropSpace, isSpace]
    rw [this]

theorem false_skip_space (f : Nat) (X : List Char) (acc : List RTok) :
    lexLoop (f + 1) false (' ' :: X) acc = lexLoop f false X acc := by
  simp [lexLoop, isSpace, isDigit, isLetter]

theorem kw_and : keywordTok "AND" = some "TokenAnd" := by decide
theorem kw_or : keywordTok "OR" = some "TokenOr" := by decide

theorem dropSpace_sp_head {c : Char} {t : List Char} (h : isSpace c = false) :
    dropSpace (' ' :: c :: t) = c :: t := by
  rw [dropSpace]
  simp only [show isSpace ' ' = true from by decide, if_true]
  exact dropSpace_of_head h

/-- ` op ` after an operand: the operator token, then the right operand is lexed in some state -/
theorem lex_op (o : BinOp) : ∃ k b', k ≤ 2 * (opChars o).length + 2 ∧ ∀ f X acc, HeadOK X →
    lexLoop (f + k) true (' ' :: opChars o ++ ' ' :: X) acc = lexLoop f b' X (.op o :: acc) := by
  have hc : ∀ {X : List Char}, HeadOK X → ∃ c t, X = c :: t ∧ isSpace c = false ∧ c ≠ '/' := by
    intro X h; obtain ⟨c, t, rfl, h0, _, _, h3⟩ := h; exact ⟨c, t, rfl, h0, h3⟩
  cases o
  case TokenAnd =>
    refine ⟨2, true, by decide, ?_⟩
    intro f X acc hX
    have : opChars .TokenAnd = ['A', 'N', 'D'] := by decide
    rw [this, ← bop_skip_space f X _ hX]
    simp [lexLoop, dropSpace, isSpace, isDigit, isLetter, isIdentCh, List.takeWhile, List.dropWhile, kw_and]
  case TokenOr =>
    refine ⟨2, true, by decide, ?_⟩
    intro f X acc hX
    have : opChars .TokenOr = ['O', 'R'] := by decide
    rw [this, ← bop_skip_space f X _ hX]
    simp [lexLoop, dropSpace, isSpace, isDigit, isLetter, isIdentCh, List.takeWhile, List.dropWhile, kw_or]
  case TokenRegexEqual =>
    refine ⟨1, false, by decide, ?_⟩
    intro f X acc hX
    obtain ⟨c, t, rfl, h0, h3⟩ := hc hX
    have : opChars .TokenRegexEqual = ['=', '~'] := by decide
    rw [this]
    simp only [List.cons_append, List.nil_append]
    have hd0 : dropSpace (' ' :: '=' :: '~' :: ' ' :: c :: t) = '=' :: '~' :: ' ' :: c :: t := by
      simp [dropSpace, isSpace]
    rw [lexLoop.eq_def]
    simp only [if_true, hd0, dropSpace_sp_head h0]
    split
    · rename_i heq; simp at heq; exact absurd heq.1 h3
    · rfl
  case TokenRegexNotEqual =>
    refine ⟨1, false, by decide, ?_⟩
    intro f X acc hX
    obtain ⟨c, t, rfl, h0, h3⟩ := hc hX
    have : opChars .TokenRegexNotEqual = ['!', '~'] := by decide
    rw [this]
    simp only [List.cons_append, List.nil_append]
    have hd0 : dropSpace (' ' :: '!' :: '~' :: ' ' :: c :: t) = '!' :: '~' :: ' ' :: c :: t := by
      simp [dropSpace, isSpace]
    rw [lexLoop.eq_def]
    simp only [if_true, hd0, dropSpace_sp_head h0]
    split
    · rename_i heq; simp at heq; exact absurd heq.1 h3
    · rfl
  all_goals
    refine ⟨2, false, by decide, ?_⟩
    intro f X acc _
    first
      | (have h : opChars .TokenPlus = ['+'] := by decide
         rw [h]; simp [lexLoop, dropSpace, isSpace, isDigit, isLetter])
      | (have h : opChars .TokenMinus = ['-'] := by decide
         rw [h]; simp [lexLoop, dropSpace, isSpace, isDigit, isLetter])
      | (have h : opChars .TokenMult = ['*'] := by decide
         rw [h]; simp [lexLoop, dropSpace, isSpace, isDigit, isLetter])
      | (have h : opChars .TokenDiv = ['/'] := by decide
         rw [h]; simp [lexLoop, dropSpace, isSpace, isDigit, isLetter])
      | (have h : opChars .TokenMod = ['%'] := by decide
         rw [h]; simp [lexLoop, dropSpace, isSpace, isDigit, isLetter])
      | (have h : opChars .TokenEqual = ['=', '='] := by decide
         rw [h]; simp [lexLoop, dropSpace, isSpace, isDigit, isLetter])
      | (have h : opChars .TokenNotEqual = ['!', '='] := by decide
         rw [h]; simp [lexLoop, dropSpace, isSpace, isDigit, isLetter])
      | (have h : opChars .TokenLess = ['<'] := by decide
         rw [h]; simp [lexLoop, dropSpace, isSpace, isDigit, isLetter])
      | (have h : opChars .TokenGreater = ['>'] := by decide
         rw [h]; simp [lexLoop, dropSpace, isSpace, isDigit, isLetter])
      | (have h : opChars .TokenLessEqual = ['<', '='] := by decide
         rw [h]; simp [lexLoop, dropSpace, isSpace, isDigit, isLetter])
      | (have h : opChars .TokenGreaterEqual = ['>', '='] := by decide
         rw [h]; simp [lexLoop, dropSpace, isSpace, isDigit, isLetter])

end Kap.C13
