/-
C13, character level: the top-level statement (`lex` with its fixed fuel) and the operand classes for which the
per-token hypothesis `AtomLex` / `IdentLex` is discharged.
-/
import Kap.Proofs.C13LexExpr

namespace Kap.C13
open Kap.C13.Gen

theorem lex_end (g : Nat) (acc : List RTok) : lexLoop (g + 2) true [] acc = .ok acc.reverse := by
  simp [lexLoop, dropSpace]

/-- the lexer, with its own fixed fuel, reads the printed text of a tree back as the raw tokens of the tree -/
theorem lex_fmtChars (e : Expr) (h : LexWF e) : lex (fmtChars e) = .ok (rawToksP e false) := by
  obtain ⟨hl, _⟩ := lex_expr e h false
  obtain ⟨k, hk, hk2⟩ := hl false
  have := hk2 (2 * (fmtChars e).length + 2 - k) [] [] trivial
  unfold lex
  unfold fmtChars at *
  have e1 : 2 * (fmtCharsP e false).length + 2 - k + k = 2 * (fmtCharsP e false).length + 2 := by omega
  rw [e1, List.append_nil] at this
  rw [this]
  obtain ⟨g, hg⟩ : ∃ g, 2 * (fmtCharsP e false).length + 2 - k = g + 2 := ⟨2 * (fmtCharsP e false).length - k, by omega⟩
  rw [hg, lex_end]
  simp

/-! ### operand classes -/

/-- what follows an operand is not an identifier character and is ASCII -/
theorem nextOK_cases {rest : List Char} (h : nextOK rest) :
    rest = [] ∨ ∃ c t, rest = c :: t ∧ (c = ' ' ∨ c = ')' ∨ c = ',') := by
  cases rest with
  | nil => exact Or.inl rfl
  | cons c t => exact Or.inr ⟨c, t, rfl, h⟩

theorem kw_true : keywordTok "TRUE" = some "TokenTrue" := by decide
theorem kw_false : keywordTok "FALSE" = some "TokenFalse" := by decide

theorem atomLex_bool (b : Bool) : AtomLex (.bool b) := by
  cases b with
  | true =>
    have ht : atomText (.bool true) = ['T', 'R', 'U', 'E'] := by decide
    refine ⟨?_, ⟨'T', ['R', 'U', 'E'], ht, by decide, by decide, by decide, by decide⟩⟩
    refine lexes_of_false 'T' ['R', 'U', 'E'] ht (by unfold headFalls; decide) 1 (by rw [ht]; decide) ?_
    intro f rest acc hr
    rw [ht]
    rcases nextOK_cases hr with rfl | ⟨c, t, rfl, hc | hc | hc⟩ <;> try subst hc
    all_goals
      simp [lexLoop, isDigit, isLetter, isIdentCh, List.takeWhile, List.dropWhile, kw_true, atomRaw]
  | false =>
    have ht : atomText (.bool false) = ['F', 'A', 'L', 'S', 'E'] := by decide
    refine ⟨?_, ⟨'F', ['A', 'L', 'S', 'E'], ht, by decide, by decide, by decide, by decide⟩⟩
    refine lexes_of_false 'F' ['A', 'L', 'S', 'E'] ht (by unfold headFalls; decide) 1 (by rw [ht]; decide) ?_
    intro f rest acc hr
    rw [ht]
    rcases nextOK_cases hr with rfl | ⟨c, t, rfl, hc | hc | hc⟩ <;> try subst hc
    all_goals
      simp [lexLoop, isDigit, isLetter, isIdentCh, List.takeWhile, List.dropWhile, kw_false, atomRaw]

theorem letter_not_digit (c : Char) (h : isLetter c = true) : isDigit c = false := by
  simp only [isLetter, isDigit, Bool.and_eq_true, Bool.or_eq_true, decide_eq_true_eq, Char.le_def,
    UInt32.le_iff_toNat_le] at *
  have e1 : ('a' : Char).val.toNat = 97 := rfl
  have e2 : ('z' : Char).val.toNat = 122 := rfl
  have e3 : ('A' : Char).val.toNat = 65 := rfl
  have e4 : ('Z' : Char).val.toNat = 90 := rfl
  have e5 : ('0' : Char).val.toNat = 48 := rfl
  have e6 : ('9' : Char).val.toNat = 57 := rfl
  rw [e1, e2, e3, e4] at h
  simp only [Bool.and_eq_false_iff, decide_eq_false_iff_not, e5, e6]
  omega

theorem letter_ne (c d : Char) (h : isLetter c = true) (hd : isLetter d = false) : c ≠ d := by
  intro e; subst e; rw [h] at hd; exact absurd hd (by simp)

theorem letter_not_space (c : Char) (h : isLetter c = true) : isSpace c = false := by
  have h1 := letter_ne c ' ' h (by decide)
  have h2 := letter_ne c '\t' h (by decide)
  have h3 := letter_ne c '\n' h (by decide)
  have h4 := letter_ne c '\r' h (by decide)
  have h5 := letter_ne c '\x0b' h (by decide)
  have h6 := letter_ne c '\x0c' h (by decide)
  simp [isSpace, h1, h2, h3, h4, h5, h6]

theorem takeWhile_append_stop {p : Char → Bool} : ∀ (w rest : List Char), (∀ x ∈ w, p x = true) →
    (rest = [] ∨ ∃ c t, rest = c :: t ∧ p c = false) →
    (w ++ rest).takeWhile p = w ∧ (w ++ rest).dropWhile p = rest
  | [], rest, _, hr => by
    rcases hr with rfl | ⟨c, t, rfl, hc⟩
    · simp
    · simp [hc]
  | x :: w, rest, hw, hr => by
    have hx : p x = true := hw x (by simp)
    obtain ⟨i1, i2⟩ := takeWhile_append_stop w rest (fun y hy => hw y (by simp [hy])) hr
    simp [hx, i1, i2]

/-- an identifier: a letter, then letters, digits, `_`; not a keyword -/
def identOK (s : String) : Prop :=
  ∃ c cs, s.toList = c :: cs ∧ isLetter c = true ∧ (∀ x ∈ cs, isIdentCh x = true) ∧
    keywordTok (String.ofList s.toList) = none

/-- the identifier scanner on `s` followed by a character that is ASCII and no identifier character -/
theorem lex_ident_core (s : String) (h : identOK s) (f : Nat) (rest : List Char) (acc : List RTok)
    (hrest : rest = [] ∨ ∃ c t, rest = c :: t ∧ isIdentCh c = false ∧ isAscii c = true) :
    lexLoop (f + 1) false (s.toList ++ rest) acc = lexLoop f true rest (.ident (String.ofList s.toList) :: acc) := by
  obtain ⟨c, cs, hs, hc, hcs, hkw⟩ := h
  have hall : ∀ x ∈ c :: cs, isIdentCh x = true := by
    intro x hx
    simp at hx
    rcases hx with rfl | hx
    · simp [isIdentCh, hc]
    · exact hcs x hx
  have hstop : rest = [] ∨ ∃ c t, rest = c :: t ∧ isIdentCh c = false := by
    rcases hrest with h | ⟨d, t, h, h1, _⟩
    · exact Or.inl h
    · exact Or.inr ⟨d, t, h, h1⟩
  obtain ⟨t1, t2⟩ := takeWhile_append_stop (c :: cs) rest hall hstop
  rw [hs] at hkw ⊢
  have n1 := letter_ne c '-' hc (by decide)
  have n2 := letter_ne c '!' hc (by decide)
  have n3 := letter_ne c '.' hc (by decide)
  have n4 := letter_not_digit c hc
  have hasc : (rest.head?.map isAscii).getD true = true := by
    rcases hrest with rfl | ⟨d, t, rfl, _, h2⟩
    · rfl
    · simp [h2]
  rw [List.cons_append, lexLoop.eq_def]
  simp only [Bool.false_eq_true, if_false, n1, n2, n3, n4, hc, Bool.or_self, if_true, decide_false]
  rw [← List.cons_append, t1, t2, hkw]
  simp [hasc]

theorem identLex_of_ok (s : String) (h : identOK s) : IdentLex s := by
  obtain ⟨c, cs, hs, hc, hcs, hkw⟩ := h
  have hsp := letter_not_space c hc
  have hfalls : headFalls c := by
    refine ⟨hsp, ?_, ?_, ?_, ?_, ?_, ?_, ?_, ?_, ?_⟩ <;> exact letter_ne c _ hc (by decide)
  refine ⟨?_, ⟨c, cs, hs, hsp, letter_ne c _ hc (by decide), letter_ne c _ hc (by decide), letter_ne c _ hc (by decide)⟩⟩
  refine lexes_of_false c cs hs hfalls 1 (by rw [hs]; simp; omega) ?_
  intro f rest acc hr
  have := lex_ident_core s ⟨c, cs, hs, hc, hcs, hkw⟩ f rest acc (by
    rcases nextOK_cases hr with h | ⟨d, t, h, hd | hd | hd⟩
    · exact Or.inl h
    all_goals (subst hd; exact Or.inr ⟨_, t, h, by decide, by decide⟩))
  simpa using this

theorem identLexCall_of_ok (s : String) (h : identOK s) : IdentLexCall s := by
  obtain ⟨c, cs, hs, hc, hcs, hkw⟩ := h
  have hsp := letter_not_space c hc
  have hfalls : headFalls c := by
    refine ⟨hsp, ?_, ?_, ?_, ?_, ?_, ?_, ?_, ?_, ?_⟩ <;> exact letter_ne c _ hc (by decide)
  refine ⟨?_, ⟨c, cs, hs, hsp, letter_ne c _ hc (by decide), letter_ne c _ hc (by decide), letter_ne c _ hc (by decide)⟩⟩
  have core := fun f R acc => lex_ident_core s ⟨c, cs, hs, hc, hcs, hkw⟩ f ('(' :: R) acc
    (Or.inr ⟨'(', R, rfl, by decide, by decide⟩)
  intro b
  cases b with
  | false => exact ⟨1, by rw [hs]; simp; omega, fun f R acc => core f R acc⟩
  | true =>
    refine ⟨2, by rw [hs]; simp; omega, ?_⟩
    intro f R acc
    have := core f R acc
    rw [hs] at this ⊢
    rw [show f + 2 = (f + 1) + 1 from rfl, List.cons_append, bop_falls _ _ _ _ hfalls, ← List.cons_append]
    exact this

end Kap.C13
