/-
C13, character level: the per-token hypothesis `AtomLexIn` discharged for EVERY atom kind the formatter prints
(numbers: decimal, negative decimal as two tokens, octal, float; durations printed from the value and with a
kept literal, every unit; single- and triple-quoted strings; references; booleans; regexes in state false), and
a decidable checker `lexOK` for the state-threaded condition `LexWFs` of a whole tree.
-/
import Kap.Proofs.C13LexState
import Kap.Proofs.C13Decode
import Kap.Proofs.C13DurNeg

namespace Kap.C13
open Kap.C13.Gen

/-! ### atoms that lex the same in both states -/

theorem atomLexIn_of_atomLex {a : Atom} (h : AtomLex a) (hr : atomRaws a = [atomRaw a]) (b : Bool) :
    AtomLexIn b a := by
  refine ⟨?_, (headOK2_of_headOK h.2).1⟩
  rw [hr]
  exact h.1 b

theorem atomLexIn_bool (v b : Bool) : AtomLexIn b (.bool v) :=
  atomLexIn_of_atomLex (atomLex_bool v) rfl b

theorem atomLexIn_ref (s : String) (h : endsWithBackslash s.toList = false) (b : Bool) : AtomLexIn b (.ref s) :=
  atomLexIn_of_atomLex (atomLex_ref s h) rfl b

theorem atomLexIn_str_single (l : String) (h : endsWithBackslash l.toList = false) (b : Bool) :
    AtomLexIn b (.str l false) :=
  atomLexIn_of_atomLex (atomLex_str l h) rfl b

theorem atomText_str_triple (l : String) (t : Bool) (h : useTriple l.toList t = true) :
    atomText (.str l t) = '\'' :: '\'' :: '\'' :: (l.toList ++ ['\'', '\'', '\'']) := by
  simp [atomText, fmtAtom, fmtString, h]

/-- triple-quoted strings (the TripleQuotes flag, or a content ending in a backslash): the quote counter of the
scanner, run over the content, must not close the string early (`tripleSafe`) -/
theorem atomLexIn_str_triple (l : String) (t : Bool) (h : useTriple l.toList t = true)
    (hs : tripleSafe 3 l.toList = true) (b : Bool) : AtomLexIn b (.str l t) := by
  have ht := atomText_str_triple l t h
  obtain ⟨h1, h2⟩ := lexes_triple l.toList hs
  refine ⟨?_, ?_⟩
  · rw [ht]
    have : atomRaws (.str l t) = [.string (String.ofList ('\'' :: '\'' :: '\'' :: (l.toList ++ ['\'', '\'', '\''])))] := by
      simp [atomRaws, atomRaw, ht]
    rw [this]
    exact h1 b
  · rw [ht]; exact (headOK2_of_headOK h2).1

/-! ### numbers -/

theorem digitsOK_toDigits (b : Nat) (hb : b = 8 ∨ b = 10) (n : Nat) : digitsOK (Nat.toDigits b n) :=
  toDigits_digits b hb n

theorem atomRaws_num_of_digit (n : Num) (c : Char) (t : List Char) (ht : atomText (.num n) = c :: t)
    (hc : isDigit c = true) : atomRaws (.num n) = [.number (String.ofList (c :: t))] := by
  have hne : c ≠ '-' := digit_ne c '-' hc (by decide)
  simp only [atomRaws, ht]
  exact splitMinus_other _ c t hne

/-- a number whose printed text is all digits, or digits `.` digits -/
theorem atomLexIn_num_of_text (n : Num) (txt : List Char) (ht : atomText (.num n) = txt)
    (hl : Lexes txt [.number (String.ofList txt)] ∧ HeadOK txt) (c : Char) (t : List Char) (hct : txt = c :: t)
    (hc : isDigit c = true) (b : Bool) : AtomLexIn b (.num n) := by
  refine ⟨?_, ?_⟩
  · rw [atomRaws_num_of_digit n c t (by rw [ht, hct]) hc, ht, ← hct]
    exact hl.1 b
  · rw [ht]; exact (headOK2_of_headOK hl.2).1

theorem digitsOK_head {ds : List Char} (h : digitsOK ds) : ∃ c t, ds = c :: t ∧ isDigit c = true := by
  obtain ⟨hne, hall⟩ := h
  cases ds with
  | nil => exact absurd rfl hne
  | cons c t => exact ⟨c, t, rfl, hall c (by simp)⟩

/-- decimal integers ≥ 0 -/
theorem atomLexIn_int10_nat (n : Nat) (b : Bool) : AtomLexIn b (.num (.int 10 (n : Int))) := by
  have hd := digitsOK_toDigits 10 (Or.inr rfl) n
  obtain ⟨c, t, hct, hc⟩ := digitsOK_head hd
  exact atomLexIn_num_of_text _ _ (atomText_int10_nat n) (lexes_int _ hd) c t hct hc b

/-- octal integers (printed with a leading 0) -/
theorem atomLexIn_oct (n : Nat) (b : Bool) : AtomLexIn b (.num (.int 8 (n : Int))) := by
  have hd := digitsOK_toDigits 8 (Or.inl rfl) n
  have hd' : digitsOK ('0' :: Nat.toDigits 8 n) :=
    ⟨by simp, fun c hc => by
      simp at hc
      rcases hc with rfl | hc
      · decide
      · exact hd.2 c hc⟩
  exact atomLexIn_num_of_text _ _ (atomText_oct n) (lexes_int _ hd') '0' _ rfl (by decide) b

/-- negative decimal integers (built in code): TWO tokens, unary minus and the number, in both states -/
theorem atomLexIn_int10_neg (n : Nat) (b : Bool) : AtomLexIn b (.num (.int 10 (Int.negSucc n))) := by
  have ht := atomText_int10_neg n
  have hd := digitsOK_toDigits 10 (Or.inr rfl) (n + 1)
  obtain ⟨hl, _⟩ := lexes_int _ hd
  refine ⟨?_, ⟨'-', _, ht, by decide, by decide, by decide⟩⟩
  have hr : atomRaws (.num (.int 10 (Int.negSucc n))) =
      [.op .TokenMinus, .number (String.ofList (Nat.toDigits 10 (n + 1)))] := by
    simp only [atomRaws, ht, splitMinus_minus]
  rw [hr, ht]
  obtain ⟨k, hk, hk2⟩ := hl false
  refine ⟨k + 1, by simp; omega, ?_⟩
  intro f rest acc hrest
  have := hk2 f rest (.op .TokenMinus :: acc) hrest
  rw [← Nat.add_assoc, List.cons_append, lex_minus, this]
  simp

theorem mem_takeWhile_true {p : Char → Bool} : ∀ {l : List Char} {c : Char}, c ∈ l.takeWhile p → p c = true
  | [], _, h => by simp at h
  | x :: l, c, h => by
    by_cases hx : p x = true
    · simp only [List.takeWhile_cons, hx, if_true, List.mem_cons] at h
      rcases h with rfl | h
      · exact hx
      · exact mem_takeWhile_true h
    · simp [hx] at h

/-- digits `.` digits -/
def fltTextOK (cs : List Char) : Bool :=
  match cs.dropWhile isDigit with
  | '.' :: fp => !(cs.takeWhile isDigit).isEmpty && !fp.isEmpty && fp.all isDigit
  | _ => false

theorem fltTextOK_split {cs : List Char} (h : fltTextOK cs = true) :
    ∃ ip fp, cs = ip ++ '.' :: fp ∧ digitsOK ip ∧ digitsOK fp := by
  unfold fltTextOK at h
  split at h
  · rename_i fp heq
    simp only [Bool.and_eq_true, Bool.not_eq_true', List.all_eq_true] at h
    refine ⟨cs.takeWhile isDigit, fp, ?_, ⟨?_, ?_⟩, ⟨?_, h.2⟩⟩
    · rw [← heq, List.takeWhile_append_dropWhile]
    · intro hn; rw [hn] at h; simp at h
    · intro c hc; exact mem_takeWhile_true hc
    · intro hn; rw [hn] at h; simp at h
  · simp at h

theorem atomLexIn_flt (c : String) (h : fltTextOK c.toList = true) (b : Bool) : AtomLexIn b (.num (.flt c)) := by
  obtain ⟨ip, fp, hs, hi, hf⟩ := fltTextOK_split h
  obtain ⟨d, t, hdt, hd⟩ := digitsOK_head hi
  have hl := lexes_float ip fp hi hf
  rw [← hs] at hl
  exact atomLexIn_num_of_text _ _ (atomText_flt c) hl d (t ++ '.' :: fp) (by rw [hs, hdt]; simp) hd b

/-- the text of a float is `-` and then what `t` says (a negative float built in code) -/
def fltNegText : List Char → Option (List Char)
  | '-' :: t => some t
  | _ => none

/-- negative floats (built in code): two tokens, like negative integers -/
theorem atomLexIn_flt_neg (c : String) (t : List Char) (hc : fltNegText c.toList = some t)
    (h : fltTextOK t = true) (b : Bool) : AtomLexIn b (.num (.flt c)) := by
  have hct : c.toList = '-' :: t := by
    unfold fltNegText at hc
    split at hc
    · rename_i t' heq; simp at hc; rw [heq, hc]
    · simp at hc
  have ht : atomText (.num (.flt c)) = '-' :: t := by rw [atomText_flt, hct]
  obtain ⟨ip, fp, hs, hi, hf⟩ := fltTextOK_split h
  obtain ⟨hl, _⟩ := lexes_float ip fp hi hf
  rw [← hs] at hl
  refine ⟨?_, ⟨'-', _, ht, by decide, by decide, by decide⟩⟩
  have hr : atomRaws (.num (.flt c)) = [.op .TokenMinus, .number (String.ofList t)] := by
    simp only [atomRaws, ht, splitMinus_minus]
  rw [hr, ht]
  obtain ⟨k, hk, hk2⟩ := hl false
  refine ⟨k + 1, by simp; omega, ?_⟩
  intro f rest acc hrest
  have := hk2 f rest (.op .TokenMinus :: acc) hrest
  rw [← Nat.add_assoc, List.cons_append, lex_minus, this]
  simp

/-! ### durations -/

/-- digits and one of the units the lexer knows -/
def durTextOK (cs : List Char) : Bool :=
  !(cs.takeWhile isDigit).isEmpty &&
    [['u'], ['µ'], ['m', 's'], ['s'], ['m'], ['h'], ['d'], ['w']].contains (cs.dropWhile isDigit)

theorem durTextOK_split {cs : List Char} (h : durTextOK cs = true) :
    ∃ ds u, cs = ds ++ u ∧ digitsOK ds ∧ durUnitOK u := by
  unfold durTextOK at h
  simp only [Bool.and_eq_true, Bool.not_eq_true'] at h
  refine ⟨cs.takeWhile isDigit, cs.dropWhile isDigit, (List.takeWhile_append_dropWhile).symm, ⟨?_, ?_⟩, ?_⟩
  · intro hn; rw [hn] at h; simp at h
  · intro c hc; exact mem_takeWhile_true hc
  · have := h.2
    simp only [List.contains_eq_mem, List.mem_cons, List.not_mem_nil, or_false, decide_eq_true_eq] at this
    exact this

theorem atomLexIn_dur_of_text (ns : Int) (lit : String) (ds u : List Char) (ht : atomText (.dur ns lit) = ds ++ u)
    (hd : digitsOK ds) (hu : durUnitOK u) (b : Bool) : AtomLexIn b (.dur ns lit) := by
  obtain ⟨h1, h2⟩ := lexes_dur ds u hd hu
  refine ⟨?_, ?_⟩
  · obtain ⟨c, t, hct, hc⟩ := digitsOK_head hd
    have : atomRaws (.dur ns lit) = [.duration (String.ofList (ds ++ u))] := by
      simp only [atomRaws, ht, hct, List.cons_append]
      exact splitMinus_other _ c _ (digit_ne c '-' hc (by decide))
    rw [this, ht]
    exact h1 b
  · rw [ht]; exact (headOK2_of_headOK h2).1

/-- a duration printed from its value (no literal kept): every unit from `w` down to `u` -/
theorem atomLexIn_dur_value (ns : Int) (lit : String) (hl : lit.isEmpty = true) (h0 : 0 ≤ ns) (hu : ns % 1000 = 0)
    (b : Bool) : AtomLexIn b (.dur ns lit) := by
  obtain ⟨n, u, k, hform, _, _, hunit⟩ := formatDuration_form ns h0 hu
  have ht : atomText (.dur ns lit) = Nat.toDigits 10 n ++ u := by
    simp [atomText, fmtAtom, hl, hform]
  refine atomLexIn_dur_of_text ns lit _ u ht (digitsOK_toDigits 10 (Or.inr rfl) n) ?_ b
  unfold durUnitOK
  rcases hunit with h | h | h | h | h | h | h <;> simp [h]

/-- a negative duration printed from its value (built in code): two tokens, unary minus and the duration -/
theorem atomLexIn_dur_neg (ns : Int) (lit : String) (hl : lit.isEmpty = true) (h0 : ns < 0) (hu : ns % 1000 = 0)
    (b : Bool) : AtomLexIn b (.dur ns lit) := by
  obtain ⟨n, u, k, hform, _, _, hunit⟩ := formatDuration_form (-ns) (by omega) (by omega)
  have ht : atomText (.dur ns lit) = '-' :: (Nat.toDigits 10 n ++ u) := by
    simp [atomText, fmtAtom, hl, formatDuration_neg ns h0, hform]
  have hd := digitsOK_toDigits 10 (Or.inr rfl) n
  have hu' : durUnitOK u := by
    unfold durUnitOK
    rcases hunit with h | h | h | h | h | h | h <;> simp [h]
  obtain ⟨hlx, _⟩ := lexes_dur _ u hd hu'
  refine ⟨?_, ⟨'-', _, ht, by decide, by decide, by decide⟩⟩
  have hr : atomRaws (.dur ns lit) = [.op .TokenMinus, .duration (String.ofList (Nat.toDigits 10 n ++ u))] := by
    simp only [atomRaws, ht, splitMinus_minus]
  rw [hr, ht]
  obtain ⟨k', hk, hk2⟩ := hlx false
  refine ⟨k' + 1, by simp only [List.length_cons]; omega, ?_⟩
  intro f rest acc hrest
  have := hk2 f rest (.op .TokenMinus :: acc) hrest
  rw [← Nat.add_assoc, List.cons_append, lex_minus, this]
  simp

/-- a duration with its literal kept (parser output): digits and any unit the lexer knows, incl. `µ` and `ms` -/
theorem atomLexIn_dur_lit (ns : Int) (lit : String) (hl : lit.isEmpty = false) (h : durTextOK lit.toList = true)
    (b : Bool) : AtomLexIn b (.dur ns lit) := by
  obtain ⟨ds, u, hs, hd, hu⟩ := durTextOK_split h
  have ht : atomText (.dur ns lit) = ds ++ u := by
    simp [atomText, fmtAtom, hl, hs]
  exact atomLexIn_dur_of_text ns lit ds u ht hd hu b

/-! ### regex, state false -/

def rxHeadOK : List Char → Bool
  | d :: _ => d != '/' && isAscii d
  | [] => false

theorem atomText_rx (re lit : String) :
    atomText (.rx re lit) = '/' :: ((regexLiteral re lit).toList ++ ['/']) := by
  simp [atomText, fmtAtom, fmtRegex]

/-- a regex operand read where an operand is expected (state false) is one token -/
theorem atomLexIn_rx (re lit : String) (hh : rxHeadOK (regexLiteral re lit).toList = true)
    (hs : rxScanOK (regexLiteral re lit).toList = true) : AtomLexIn false (.rx re lit) := by
  have ht := atomText_rx re lit
  refine ⟨?_, ⟨'/', _, ht, by decide, by decide, by decide⟩⟩
  have hr : atomRaws (.rx re lit) = [.regex (String.ofList ('/' :: ((regexLiteral re lit).toList ++ ['/'])))] := by
    simp [atomRaws, atomRaw, ht]
  rw [hr, ht]
  generalize (regexLiteral re lit).toList = L at *
  cases L with
  | nil => simp [rxHeadOK] at hh
  | cons d L' =>
    simp only [rxHeadOK, Bool.and_eq_true, bne_iff_ne, ne_eq] at hh
    refine ⟨1, by simp; omega, ?_⟩
    intro f rest acc _
    have := lex_regex_false d L' hh.1 hh.2 hs f rest acc
    simpa [List.append_assoc] using this

/-! ### the decidable checker -/

/-- `identOK` as a boolean -/
def identOKb (s : String) : Bool :=
  match s.toList with
  | c :: cs => isLetter c && cs.all isIdentCh && (keywordTok (String.ofList s.toList)).isNone
  | [] => false

theorem identOK_of_b (s : String) (h : identOKb s = true) : identOK s := by
  unfold identOKb at h
  split at h
  · rename_i c cs heq
    simp only [Bool.and_eq_true, List.all_eq_true, Option.isNone_iff_eq_none] at h
    exact ⟨c, cs, heq, h.1.1, h.1.2, h.2⟩
  · simp at h

theorem kw_lambda : keywordTok "lambda" = some "TokenLambda" := by decide

/-- `lambda` not followed by `:` is an ordinary identifier for the lexer -/
theorem identLex_lambda : IdentLex "lambda" := by
  have ht : ("lambda" : String).toList = ['l', 'a', 'm', 'b', 'd', 'a'] := by decide
  refine ⟨?_, ⟨'l', ['a', 'm', 'b', 'd', 'a'], ht, by decide, by decide, by decide, by decide⟩⟩
  refine lexes_of_false 'l' _ ht (by unfold headFalls; decide) 1 (by rw [ht]; decide) ?_
  intro f rest acc hr
  rw [ht]
  rcases nextOK_cases hr with rfl | ⟨c, t, rfl, hc | hc | hc⟩ <;> try subst hc
  all_goals
    simp [lexLoop, isDigit, isLetter, isIdentCh, List.takeWhile, List.dropWhile, kw_lambda, isAscii]

theorem identLexCall_lambda : IdentLexCall "lambda" := by
  have ht : ("lambda" : String).toList = ['l', 'a', 'm', 'b', 'd', 'a'] := by decide
  refine ⟨?_, ⟨'l', ['a', 'm', 'b', 'd', 'a'], ht, by decide, by decide, by decide, by decide⟩⟩
  intro b
  cases b with
  | false =>
    refine ⟨1, by rw [ht]; decide, ?_⟩
    intro f R acc
    rw [ht]
    simp [lexLoop, isDigit, isLetter, isIdentCh, List.takeWhile, List.dropWhile, kw_lambda, isAscii]
  | true =>
    refine ⟨2, by rw [ht]; decide, ?_⟩
    intro f R acc
    rw [ht]
    simp [lexLoop, dropSpace, isSpace, isDigit, isLetter, isIdentCh, List.takeWhile, List.dropWhile, kw_lambda,
      isAscii]

/-- identifiers the lexer reads back: `identOK`, or the keyword `lambda` (an identifier unless `:` follows) -/
def identOKb' (s : String) : Bool := s == "lambda" || identOKb s

theorem identLex_of_b' (s : String) (h : identOKb' s = true) : IdentLex s ∧ IdentLexCall s := by
  simp only [identOKb', Bool.or_eq_true, beq_iff_eq] at h
  rcases h with rfl | h
  · exact ⟨identLex_lambda, identLexCall_lambda⟩
  · exact ⟨identLex_of_ok s (identOK_of_b s h), identLexCall_of_ok s (identOK_of_b s h)⟩

/-- the per-token condition of an operand read in state `b`, decidable -/
def atomLexOK (b : Bool) : Atom → Bool
  | .bool _ => true
  | .ref s => !endsWithBackslash s.toList
  | .str l t => if useTriple l.toList t then tripleSafe 3 l.toList else !endsWithBackslash l.toList
  | .num (.int base v) => decide (base = 10) || (decide (base = 8) && decide (0 ≤ v))
  | .num (.flt c) => fltTextOK c.toList || ((fltNegText c.toList).map fltTextOK).getD false
  | .dur ns lit => if lit.isEmpty then decide (ns % 1000 = 0) else durTextOK lit.toList
  | .rx re lit => !b && rxHeadOK (regexLiteral re lit).toList && rxScanOK (regexLiteral re lit).toList
  | .star => false

theorem atomLexOK_sound (b : Bool) (a : Atom) (h : atomLexOK b a = true) : AtomLexIn b a := by
  cases a with
  | bool v => exact atomLexIn_bool v b
  | ref s => exact atomLexIn_ref s (by simpa [atomLexOK] using h) b
  | str l t =>
    simp only [atomLexOK] at h
    split at h
    · rename_i hu; exact atomLexIn_str_triple l t hu h b
    · rename_i hu
      have ht : t = false := by
        cases t with
        | false => rfl
        | true => simp [useTriple] at hu
      subst ht
      exact atomLexIn_str_single l (by simpa using h) b
  | num n =>
    cases n with
    | int base v =>
      simp only [atomLexOK, Bool.or_eq_true, Bool.and_eq_true, decide_eq_true_eq] at h
      rcases h with rfl | ⟨rfl, hv⟩
      · cases v with
        | ofNat n => exact atomLexIn_int10_nat n b
        | negSucc n => exact atomLexIn_int10_neg n b
      · cases v with
        | ofNat n => exact atomLexIn_oct n b
        | negSucc n => exact absurd hv (by simp)
    | flt c =>
      simp only [atomLexOK, Bool.or_eq_true] at h
      rcases h with h | h
      · exact atomLexIn_flt c h b
      · cases hn : fltNegText c.toList with
        | none => rw [hn] at h; simp at h
        | some t => rw [hn] at h; exact atomLexIn_flt_neg c t hn (by simpa using h) b
  | dur ns lit =>
    simp only [atomLexOK] at h
    split at h
    · rename_i hl
      simp only [decide_eq_true_eq] at h
      by_cases h0 : 0 ≤ ns
      · exact atomLexIn_dur_value ns lit hl h0 h b
      · exact atomLexIn_dur_neg ns lit hl (by omega) h b
    · rename_i hl
      exact atomLexIn_dur_lit ns lit (by simpa using hl) h b
  | rx re lit =>
    simp only [atomLexOK, Bool.and_eq_true, Bool.not_eq_true'] at h
    obtain ⟨⟨hb, hh⟩, hs⟩ := h
    subst hb
    exact atomLexIn_rx re lit hh hs
  | star => simp [atomLexOK] at h

def noSlashB : List Char → Bool
  | '/' :: _ => false
  | _ => true

theorem noSlash_of_b {t : List Char} (h : noSlashB t = true) : NoSlash t := by
  intro t' heq; subst heq; simp [noSlashB] at h

mutual
/-- `LexWFs`, decidable: every operand token of the tree, read in the state the lexer is in when it gets there,
lexes as itself -/
def lexOK : Expr → Bool → Bool → Bool
  | .lit a, _, b => atomLexOK b a
  | .id s, _, _ => identOKb' s
  | .un _ e, _, _ => lexOK e true false
  | .bin o l r p, extra, b =>
    lexOK l (needsParens l o false) (if p || extra then false else b) &&
    (if isRxOp o && (rxLitOf r).isSome then rxScanOK ((rxLitOf r).getD [])
     else lexOK r (needsParens r o true) (opState o) &&
       (!isRxOp o || noSlashB (fmtCharsP r (needsParens r o true))))
  | .call f args, _, _ => identOKb' f && lexOKArgs args
def lexOKArgs : List Expr → Bool
  | [] => true
  | a :: rest => (isStar a || lexOK a false false) && lexOKArgs rest
end

mutual
theorem lexOK_sound : (e : Expr) → ∀ extra b, lexOK e extra b = true → LexWFs e extra b
  | .lit a, _, b, h => by
    simp only [LexWFs]
    exact atomLexOK_sound b a (by simpa [lexOK] using h)
  | .id s, _, _, h => by
    simp only [LexWFs]
    exact (identLex_of_b' s (by simpa [lexOK] using h)).1
  | .un _ e, _, _, h => by
    simp only [LexWFs]
    exact lexOK_sound e true false (by simpa [lexOK] using h)
  | .bin o l r p, extra, b, h => by
    simp only [lexOK, Bool.and_eq_true] at h
    obtain ⟨hl, hr⟩ := h
    simp only [LexWFs]
    refine ⟨lexOK_sound l _ _ hl, ?_⟩
    split at hr
    · rename_i hc
      simp only [Option.isSome_iff_exists] at hc
      obtain ⟨ho, L, hL⟩ := hc
      left
      exact ⟨ho, L, hL, by simpa [hL] using hr⟩
    · simp only [Bool.and_eq_true, Bool.or_eq_true, Bool.not_eq_true'] at hr
      right
      refine ⟨lexOK_sound r _ _ hr.1, fun ho => ?_⟩
      rcases hr.2 with h' | h'
      · rw [ho] at h'; exact absurd h' (by simp)
      · exact noSlash_of_b h'
  | .call f args, _, _, h => by
    simp only [lexOK, Bool.and_eq_true] at h
    simp only [LexWFs]
    exact ⟨(identLex_of_b' f h.1).2, lexOKArgs_sound args h.2⟩
theorem lexOKArgs_sound : (args : List Expr) → lexOKArgs args = true → LexWFArgs args
  | [], _ => by simp [LexWFArgs]
  | a :: rest, h => by
    simp only [lexOKArgs, Bool.and_eq_true, Bool.or_eq_true] at h
    simp only [LexWFArgs]
    refine ⟨?_, lexOKArgs_sound rest h.2⟩
    rcases h.1 with hs | ha
    · exact Or.inl hs
    · exact Or.inr (lexOK_sound a false false ha)
end

end Kap.C13
