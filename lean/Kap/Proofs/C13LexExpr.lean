/-
C13, character level, structural part: by recursion over the tree, the lexer reads `fmtCharsP e extra` as
`rawToksP e extra` in either lexer state.
-/
import Kap.Proofs.C13Lex

namespace Kap.C13
open Kap.C13.Gen

/-- an operand token lexes as itself (both states), and starts with a character that cannot be glued to what
precedes it -/
def AtomLex (a : Atom) : Prop := Lexes (atomText a) [atomRaw a] ∧ HeadOK (atomText a)

def IdentLex (s : String) : Prop :=
  Lexes s.toList [.ident (String.ofList s.toList)] ∧ HeadOK s.toList

/-- a function name directly followed by `(` -/
def IdentLexCall (s : String) : Prop :=
  (∀ b, ∃ k, k ≤ 2 * s.toList.length ∧ ∀ f R acc,
    lexLoop (f + k) b (s.toList ++ '(' :: R) acc = lexLoop f true ('(' :: R) (.ident (String.ofList s.toList) :: acc)) ∧
  HeadOK s.toList

mutual
def LexWF : Expr → Prop
  | .lit a => AtomLex a
  | .id s => IdentLex s
  | .un _ e => LexWF e
  | .bin _ l r _ => LexWF l ∧ LexWF r
  | .call f args => IdentLexCall f ∧ LexWFAll args
def LexWFAll : List Expr → Prop
  | [] => True
  | a :: rest => LexWF a ∧ LexWFAll rest
end

theorem HeadOK_append {t : List Char} (h : HeadOK t) (r : List Char) : HeadOK (t ++ r) := by
  obtain ⟨c, t', rfl, h'⟩ := h
  exact ⟨c, t' ++ r, rfl, h'⟩

theorem nextOK_space (r : List Char) : nextOK (' ' :: r) := Or.inl rfl
theorem nextOK_rp (r : List Char) : nextOK (')' :: r) := Or.inr (Or.inl rfl)
theorem nextOK_comma (r : List Char) : nextOK (',' :: r) := Or.inr (Or.inr rfl)

theorem unChars_neg : unChars .neg = ['-'] := by decide
theorem unChars_not : unChars .not = ['!'] := by decide

mutual
theorem lex_expr : (e : Expr) → LexWF e → ∀ extra,
    Lexes (fmtCharsP e extra) (rawToksP e extra) ∧ HeadOK (fmtCharsP e extra)
  | .lit a, h, _ => by
    simp only [LexWF] at h
    simp only [fmtCharsP, rawToksP]
    exact h
  | .id s, h, _ => by
    simp only [LexWF] at h
    simp only [fmtCharsP, rawToksP]
    exact h
  | .un .neg e, h, _ => by
    obtain ⟨ih, _⟩ := lex_expr e (by simpa [LexWF] using h) true
    refine ⟨?_, ⟨'-', fmtCharsP e true, by simp [fmtCharsP, unChars_neg], by decide, by decide, by decide, by decide⟩⟩
    intro b
    obtain ⟨k, hk, hl⟩ := ih false
    refine ⟨k + 1, by simp [fmtCharsP, unChars_neg]; omega, ?_⟩
    intro f rest acc hr
    have := hl f rest (.op .TokenMinus :: acc) hr
    simp only [fmtCharsP, unChars_neg, rawToksP, List.cons_append, List.nil_append, List.reverse_cons,
      List.append_assoc] at this ⊢
    rw [← Nat.add_assoc, lex_minus, this]
  | .un .not e, h, _ => by
    obtain ⟨ih, hh⟩ := lex_expr e (by simpa [LexWF] using h) true
    refine ⟨?_, ⟨'!', fmtCharsP e true, by simp [fmtCharsP, unChars_not], by decide, by decide, by decide, by decide⟩⟩
    intro b
    obtain ⟨k, hk, hl⟩ := ih false
    refine ⟨k + 1, by simp [fmtCharsP, unChars_not]; omega, ?_⟩
    intro f rest acc hr
    have := hl f rest (.not :: acc) hr
    simp only [fmtCharsP, unChars_not, rawToksP, List.cons_append, List.nil_append, List.reverse_cons,
      List.append_assoc] at this ⊢
    rw [← Nat.add_assoc, lex_not _ _ _ (HeadOK_append hh rest), this]
  | .bin o l r p, h, extra => by
    obtain ⟨hl, hr⟩ : LexWF l ∧ LexWF r := by simpa [LexWF] using h
    obtain ⟨ihl, hhl⟩ := lex_expr l hl (needsParens l o false)
    obtain ⟨ihr, hhr⟩ := lex_expr r hr (needsParens r o true)
    obtain ⟨ko, bo, hko, hop⟩ := lex_op o
    generalize hL : fmtCharsP l (needsParens l o false) = L at *
    generalize hR : fmtCharsP r (needsParens r o true) = R at *
    generalize hTL : rawToksP l (needsParens l o false) = TL at *
    generalize hTR : rawToksP r (needsParens r o true) = TR at *
    cases hP : (p || extra) with
    | false =>
      refine ⟨?_, ?_⟩
      · intro b
        obtain ⟨kl, hkl, hll⟩ := ihl b
        obtain ⟨kr, hkr, hrr⟩ := ihr bo
        refine ⟨kr + ko + kl, by simp [fmtCharsP, hP, hL, hR]; omega, ?_⟩
        intro f rest acc hrest
        simp only [fmtCharsP, rawToksP, hP, hL, hR, hTL, hTR, List.nil_append, List.append_nil, Bool.false_eq_true,
          if_false, List.append_assoc, List.cons_append]
        have e1 := hll (f + kr + ko) (' ' :: (opChars o ++ ' ' :: (R ++ rest))) acc (nextOK_space _)
        have e2 := hop (f + kr) (R ++ rest) (TL.reverse ++ acc) (HeadOK_append hhr rest)
        have e3 := hrr f rest (.op o :: (TL.reverse ++ acc)) hrest
        have ef : f + (kr + ko + kl) = f + kr + ko + kl := by omega
        rw [ef, e1, List.cons_append] at *
        rw [e2, e3]
        simp [List.reverse_append, List.append_assoc]
      · obtain ⟨c, t, hc, h'⟩ := hhl
        exact ⟨c, t ++ (' ' :: opChars o ++ ' ' :: R), by simp [fmtCharsP, hP, hL, hR, hc], h'⟩
    | true =>
      refine ⟨?_, ⟨'(', L ++ (' ' :: opChars o ++ ' ' :: R ++ [')']), by simp [fmtCharsP, hP, hL, hR], by decide, by decide, by decide, by decide⟩⟩
      intro b
      obtain ⟨kl, hkl, hll⟩ := ihl false
      obtain ⟨kr, hkr, hrr⟩ := ihr bo
      refine ⟨(if b then 2 else 1) + (2 + kr + ko + kl), by simp [fmtCharsP, hP, hL, hR]; split <;> omega, ?_⟩
      intro f rest acc hrest
      simp only [fmtCharsP, rawToksP, hP, hL, hR, hTL, hTR, if_true, List.append_assoc, List.cons_append,
        List.nil_append]
      have e0 : lexLoop (f + ((if b then 2 else 1) + (2 + kr + ko + kl))) b
          ('(' :: (L ++ ' ' :: (opChars o ++ ' ' :: (R ++ ')' :: rest)))) acc =
          lexLoop (f + 2 + kr + ko + kl) false (L ++ ' ' :: (opChars o ++ ' ' :: (R ++ ')' :: rest))) (.lp :: acc) := by
        cases b with
        | false =>
          have : f + ((if false then 2 else 1) + (2 + kr + ko + kl)) = (f + 2 + kr + ko + kl) + 1 := by simp; omega
          rw [this]; simp [lexLoop, isSpace, isDigit, isLetter]
        | true =>
          have : f + ((if true then 2 else 1) + (2 + kr + ko + kl)) = (f + 2 + kr + ko + kl) + 2 := by simp; omega
          rw [this]; simp [lexLoop, dropSpace, isSpace, isDigit, isLetter]
      have e1 := hll (f + 2 + kr + ko) (' ' :: (opChars o ++ ' ' :: (R ++ ')' :: rest))) (.lp :: acc) (nextOK_space _)
      have e2 := hop (f + 2 + kr) (R ++ ')' :: rest) (TL.reverse ++ .lp :: acc) (HeadOK_append hhr _)
      have e3 := hrr (f + 2) (')' :: rest) (.op o :: (TL.reverse ++ .lp :: acc)) (nextOK_rp _)
      rw [e0, e1]
      rw [List.cons_append] at e2
      rw [e2, e3, lex_rp]
      simp [List.reverse_append, List.append_assoc]
  | .call fn args, h, _ => by
    obtain ⟨⟨hf, hh⟩, ha⟩ : IdentLexCall fn ∧ LexWFAll args := by simpa [LexWF] using h
    obtain ⟨ka, hka, haa⟩ := lex_args args ha
    refine ⟨?_, ?_⟩
    · intro b
      obtain ⟨kf, hkf, hff⟩ := hf b
      refine ⟨ka + 2 + kf, by simp [fmtCharsP]; omega, ?_⟩
      intro f rest acc _
      simp only [fmtCharsP, rawToksP, List.append_assoc, List.cons_append, List.nil_append]
      have ef : f + (ka + 2 + kf) = f + ka + 2 + kf := by omega
      rw [ef, hff]
      have : lexLoop (f + ka + 2) true ('(' :: (fmtArgChars args ++ ')' :: rest)) (.ident (String.ofList fn.toList) :: acc) =
          lexLoop (f + ka) false (fmtArgChars args ++ ')' :: rest) (.lp :: .ident (String.ofList fn.toList) :: acc) := by
        simp [lexLoop, dropSpace, isSpace, isDigit, isLetter]
      rw [this, haa]
      simp [List.reverse_append, List.append_assoc]
    · obtain ⟨c, t, hc, h'⟩ := hh
      exact ⟨c, t ++ ('(' :: fmtArgChars args ++ [')']), by simp [fmtCharsP, hc], h'⟩
/-- the argument list up to and including the closing `)` -/
theorem lex_args : (args : List Expr) → LexWFAll args →
    ∃ k, k ≤ 2 * (fmtArgChars args).length + 2 ∧ ∀ f R acc,
      lexLoop (f + k) false (fmtArgChars args ++ ')' :: R) acc =
        lexLoop f true R (.rp :: ((rawArgToks args).reverse ++ acc))
  | [], _ => by
    refine ⟨1, by simp [fmtArgChars], ?_⟩
    intro f R acc
    simp [fmtArgChars, rawArgToks, lexLoop, isSpace, isDigit, isLetter]
  | [a], h => by
    obtain ⟨ih, _⟩ := lex_expr a (by simpa [LexWFAll] using h) false
    obtain ⟨k, hk, hl⟩ := ih false
    refine ⟨2 + k, by simp [fmtArgChars]; omega, ?_⟩
    intro f R acc
    simp only [fmtArgChars, rawArgToks]
    rw [← Nat.add_assoc, hl _ _ _ (nextOK_rp _), lex_rp]
  | a :: b :: tl, h => by
    obtain ⟨ha, hb⟩ : LexWF a ∧ LexWFAll (b :: tl) := by simpa [LexWFAll] using h
    obtain ⟨ih, _⟩ := lex_expr a ha false
    obtain ⟨k, hk, hl⟩ := ih false
    obtain ⟨k2, hk2, hl2⟩ := lex_args (b :: tl) hb
    refine ⟨k2 + 3 + k, by simp [fmtArgChars]; omega, ?_⟩
    intro f R acc
    simp only [fmtArgChars, rawArgToks, List.append_assoc, List.cons_append]
    have ef : f + (k2 + 3 + k) = f + k2 + 3 + k := by omega
    rw [ef, hl _ _ _ (nextOK_comma _), lex_comma, hl2]
    simp [List.reverse_append, List.append_assoc]
end

end Kap.C13
