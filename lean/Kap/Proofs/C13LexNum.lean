/-
C13, character level: the lexer reads number, duration and triple-quoted string texts, followed by what the
formatter may write after an operand (`nextOK`), as ONE token, in both lexer states.
-/
import Kap.Proofs.C13LexAtoms

namespace Kap.C13
open Kap.C13.Gen

/-! ### digits -/

theorem digit_ne (c d : Char) (h : isDigit c = true) (hd : isDigit d = false) : c ≠ d := by
  intro e; subst e; rw [h] at hd; exact absurd hd (by simp)

theorem digit_not_space (c : Char) (h : isDigit c = true) : isSpace c = false := by
  have h1 := digit_ne c ' ' h (by decide)
  have h2 := digit_ne c '\t' h (by decide)
  have h3 := digit_ne c '\n' h (by decide)
  have h4 := digit_ne c '\r' h (by decide)
  have h5 := digit_ne c '\x0b' h (by decide)
  have h6 := digit_ne c '\x0c' h (by decide)
  simp [isSpace, h1, h2, h3, h4, h5, h6]

theorem digit_not_letter (c : Char) (h : isDigit c = true) : isLetter c = false := by
  simp only [isLetter, isDigit, Bool.and_eq_true, decide_eq_true_eq, Char.le_def,
    UInt32.le_iff_toNat_le] at *
  have e1 : ('a' : Char).val.toNat = 97 := rfl
  have e2 : ('z' : Char).val.toNat = 122 := rfl
  have e3 : ('A' : Char).val.toNat = 65 := rfl
  have e4 : ('Z' : Char).val.toNat = 90 := rfl
  have e5 : ('0' : Char).val.toNat = 48 := rfl
  have e6 : ('9' : Char).val.toNat = 57 := rfl
  rw [e5, e6] at h
  simp only [Bool.or_eq_false_iff, Bool.and_eq_false_iff, decide_eq_false_iff_not, e1, e2, e3, e4]
  omega

theorem digit_headFalls (c : Char) (h : isDigit c = true) : headFalls c := by
  refine ⟨digit_not_space c h, ?_, ?_, ?_, ?_, ?_, ?_, ?_, ?_, ?_⟩ <;> exact digit_ne c _ h (by decide)

theorem digit_headOK (c : Char) (t : List Char) (h : isDigit c = true) : HeadOK (c :: t) :=
  ⟨c, t, rfl, digit_not_space c h, digit_ne c _ h (by decide), digit_ne c _ h (by decide),
    digit_ne c _ h (by decide)⟩

/-- non-empty, all decimal digits -/
def digitsOK (ds : List Char) : Prop := ds ≠ [] ∧ ∀ c ∈ ds, isDigit c = true

/-! ### the number scanner -/

theorem durUnit_sp : isDurUnit ' ' = false := by decide
theorem durUnit_rp : isDurUnit ')' = false := by decide
theorem durUnit_comma : isDurUnit ',' = false := by decide
theorem durUnit_u : isDurUnit 'u' = true := by decide
theorem durUnit_mu : isDurUnit 'µ' = true := by decide
theorem durUnit_s : isDurUnit 's' = true := by decide
theorem durUnit_m : isDurUnit 'm' = true := by decide
theorem durUnit_h : isDurUnit 'h' = true := by decide
theorem durUnit_d : isDurUnit 'd' = true := by decide
theorem durUnit_w : isDurUnit 'w' = true := by decide

/-- the digit loop -/
theorem scanNumber_digits (fd : Bool) : ∀ (ds acc R : List Char), (∀ c ∈ ds, isDigit c = true) →
    scanNumber fd false acc (ds ++ R) = scanNumber fd false (ds.reverse ++ acc) R
  | [], acc, R, _ => by simp
  | c :: ds, acc, R, h => by
    have hc : isDigit c = true := h c (by simp)
    have hne : c ≠ '.' := digit_ne c '.' hc (by decide)
    have ih := scanNumber_digits fd ds (c :: acc) R (fun y hy => h y (by simp [hy]))
    rw [List.cons_append, scanNumber.eq_def]
    simp only [hne, if_false, hc, if_true]
    rw [ih]
    simp

/-- the first character is a digit: `first` plays no role -/
theorem scanNumber_first (c : Char) (hc : isDigit c = true) (R : List Char) :
    scanNumber false true [] (c :: R) = scanNumber false false [c] R := by
  have hne : c ≠ '.' := digit_ne c '.' hc (by decide)
  rw [scanNumber.eq_def]
  simp only [hne, if_false, hc, if_true]

/-- the decimal point after the integer part -/
theorem scanNumber_dot (acc R : List Char) :
    scanNumber false false acc ('.' :: R) = scanNumber true false ('.' :: acc) R := by
  rw [scanNumber.eq_def]
  simp

/-- the scanner stops at what follows an operand -/
theorem scanNumber_stop (fd : Bool) (acc R : List Char) (hr : nextOK R) :
    scanNumber fd false acc R = .number acc.reverse R := by
  rcases nextOK_cases hr with rfl | ⟨c, t, rfl, hc | hc | hc⟩ <;> try subst hc
  all_goals simp [scanNumber, isDigit, durUnit_sp, durUnit_rp, durUnit_comma]

/-- the unit spellings the lexer accepts -/
def durUnitOK (u : List Char) : Prop :=
  u = ['u'] ∨ u = ['µ'] ∨ u = ['m', 's'] ∨ u = ['s'] ∨ u = ['m'] ∨ u = ['h'] ∨ u = ['d'] ∨ u = ['w']

/-- the unit after the digits ends a duration -/
theorem scanNumber_unit (u : List Char) (hu : durUnitOK u) (acc R : List Char) (hr : nextOK R) :
    scanNumber false false acc (u ++ R) = .duration (acc.reverse ++ u) R := by
  rcases hu with rfl | rfl | rfl | rfl | rfl | rfl | rfl | rfl
  · simp [scanNumber, isDigit, durUnit_u]
  · simp [scanNumber, isDigit, durUnit_mu]
  · simp [scanNumber, isDigit, durUnit_m]
  · simp [scanNumber, isDigit, durUnit_s]
  · rcases nextOK_cases hr with rfl | ⟨c, t, rfl, hc | hc | hc⟩ <;> try subst hc
    all_goals simp [scanNumber, isDigit, durUnit_m]
  · simp [scanNumber, isDigit, durUnit_h]
  · simp [scanNumber, isDigit, durUnit_d]
  · simp [scanNumber, isDigit, durUnit_w]

/-! ### one step of the token loop at a digit -/

theorem lex_number_of_scan (c : Char) (hc : isDigit c = true) (R t r' : List Char) (f : Nat) (acc : List RTok)
    (hs : scanNumber false false [c] R = .number t r') :
    lexLoop (f + 1) false (c :: R) acc = lexLoop f true r' (.number (String.ofList t) :: acc) := by
  have n1 := digit_ne c '-' hc (by decide)
  have n2 := digit_ne c '!' hc (by decide)
  have hfirst : scanNumber false true [] (c :: R) = .number t r' := by
    rw [scanNumber_first c hc R]; exact hs
  rw [lexLoop.eq_def]
  simp only [Bool.false_eq_true, if_false, n1, n2, hc, Bool.true_or, if_true, hfirst]

theorem lex_duration_of_scan (c : Char) (hc : isDigit c = true) (R t r' : List Char) (f : Nat) (acc : List RTok)
    (hs : scanNumber false false [c] R = .duration t r') :
    lexLoop (f + 1) false (c :: R) acc = lexLoop f true r' (.duration (String.ofList t) :: acc) := by
  have n1 := digit_ne c '-' hc (by decide)
  have n2 := digit_ne c '!' hc (by decide)
  have hfirst : scanNumber false true [] (c :: R) = .duration t r' := by
    rw [scanNumber_first c hc R]; exact hs
  rw [lexLoop.eq_def]
  simp only [Bool.false_eq_true, if_false, n1, n2, hc, Bool.true_or, if_true, hfirst]

theorem lexes_number_of_scan (c : Char) (tl : List Char) (hc : isDigit c = true)
    (hs : ∀ rest, nextOK rest → scanNumber false false [c] (tl ++ rest) = .number (c :: tl) rest) :
    Lexes (c :: tl) [.number (String.ofList (c :: tl))] ∧ HeadOK (c :: tl) := by
  refine ⟨?_, digit_headOK c tl hc⟩
  refine lexes_of_false c tl rfl (digit_headFalls c hc) 1 (by simp; omega) ?_
  intro f rest acc hr
  rw [List.cons_append, lex_number_of_scan c hc _ _ _ f acc (hs rest hr)]
  rfl

theorem lexes_duration_of_scan (c : Char) (tl : List Char) (hc : isDigit c = true)
    (hs : ∀ rest, nextOK rest → scanNumber false false [c] (tl ++ rest) = .duration (c :: tl) rest) :
    Lexes (c :: tl) [.duration (String.ofList (c :: tl))] ∧ HeadOK (c :: tl) := by
  refine ⟨?_, digit_headOK c tl hc⟩
  refine lexes_of_false c tl rfl (digit_headFalls c hc) 1 (by simp; omega) ?_
  intro f rest acc hr
  rw [List.cons_append, lex_duration_of_scan c hc _ _ _ f acc (hs rest hr)]
  rfl

/-! ### integers, floats, durations -/

theorem lexes_int (ds : List Char) (h : digitsOK ds) :
    Lexes ds [.number (String.ofList ds)] ∧ HeadOK ds := by
  obtain ⟨hne, hall⟩ := h
  cases ds with
  | nil => exact absurd rfl hne
  | cons c ds' =>
    have hc : isDigit c = true := hall c (by simp)
    refine lexes_number_of_scan c ds' hc ?_
    intro rest hr
    rw [scanNumber_digits false ds' [c] rest (fun y hy => hall y (by simp [hy])), scanNumber_stop _ _ _ hr]
    simp

theorem lexes_float (ip fp : List Char) (hi : digitsOK ip) (hf : digitsOK fp) :
    Lexes (ip ++ '.' :: fp) [.number (String.ofList (ip ++ '.' :: fp))] ∧ HeadOK (ip ++ '.' :: fp) := by
  obtain ⟨hne, hall⟩ := hi
  obtain ⟨_, hfall⟩ := hf
  cases ip with
  | nil => exact absurd rfl hne
  | cons c ip' =>
    have hc : isDigit c = true := hall c (by simp)
    refine lexes_number_of_scan c (ip' ++ '.' :: fp) hc ?_
    intro rest hr
    rw [List.append_assoc, List.cons_append,
      scanNumber_digits false ip' [c] _ (fun y hy => hall y (by simp [hy])), scanNumber_dot,
      scanNumber_digits true fp _ rest hfall, scanNumber_stop _ _ _ hr]
    simp

theorem lexes_dur (ds u : List Char) (h : digitsOK ds) (hu : durUnitOK u) :
    Lexes (ds ++ u) [.duration (String.ofList (ds ++ u))] ∧ HeadOK (ds ++ u) := by
  obtain ⟨hne, hall⟩ := h
  cases ds with
  | nil => exact absurd rfl hne
  | cons c ds' =>
    have hc : isDigit c = true := hall c (by simp)
    refine lexes_duration_of_scan c (ds' ++ u) hc ?_
    intro rest hr
    rw [List.append_assoc, scanNumber_digits false ds' [c] _ (fun y hy => hall y (by simp [hy])),
      scanNumber_unit u hu _ rest hr]
    simp

/-! ### triple-quoted strings -/

/-- run the quote counter of `scanTriple` over the content: it must never close the string or take the
backslash branch inside the content, and must be back at 3 (no pending quotes) at the end -/
def tripleSafe : Nat → List Char → Bool
  | c, [] => c == 3
  | c, x :: r =>
    if x = '\'' then (c != 1 && tripleSafe (c - 1) r)
    else if x = '\\' && c == 1 then false
    else tripleSafe 3 r

/-- the triple-quote scanner stops exactly at the closing `'''` (any start value of the counter) -/
theorem scanTriple_safe_any : ∀ (lit : List Char) (c : Nat) (rest : List Char), tripleSafe c lit = true →
    scanTriple c (lit ++ '\'' :: '\'' :: '\'' :: rest) = some (lit ++ ['\'', '\'', '\''], rest)
  | [], c, rest, h => by
    have hc : c = 3 := by simpa [tripleSafe] using h
    subst hc
    simp [scanTriple]
  | x :: r, c, rest, h => by
    rw [List.cons_append, scanTriple]
    by_cases hx : x = '\''
    · subst hx
      simp only [tripleSafe, if_true, Bool.and_eq_true, bne_iff_ne, ne_eq] at h
      obtain ⟨h1, h2⟩ := h
      have ih := scanTriple_safe_any r (c - 1) rest h2
      simp [h1, ih]
    · simp only [tripleSafe, hx, if_false] at h
      by_cases hb : x = '\\' ∧ c = 1
      · simp [hb.1, hb.2] at h
      · have h3 : tripleSafe 3 r = true := by
          rw [if_neg (by simpa using hb)] at h; exact h
        have ih := scanTriple_safe_any r 3 rest h3
        have hb' : (decide (x = '\\') && decide (c = 1)) = false := by simpa using hb
        simp [hx, hb', ih]

theorem scanTriple_safe : ∀ (lit : List Char) (c : Nat) (rest : List Char), tripleSafe c lit = true →
    (c = 3 ∨ c = 2 ∨ c = 1) →
    scanTriple c (lit ++ '\'' :: '\'' :: '\'' :: rest) = some (lit ++ ['\'', '\'', '\''], rest) :=
  fun lit c rest h _ => scanTriple_safe_any lit c rest h

theorem lexes_triple (lit : List Char) (h : tripleSafe 3 lit = true) :
    Lexes ('\'' :: '\'' :: '\'' :: (lit ++ ['\'', '\'', '\'']))
      [.string (String.ofList ('\'' :: '\'' :: '\'' :: (lit ++ ['\'', '\'', '\''])))] ∧
    HeadOK ('\'' :: '\'' :: '\'' :: (lit ++ ['\'', '\'', '\''])) := by
  refine ⟨?_, ⟨'\'', _, rfl, by decide, by decide, by decide, by decide⟩⟩
  refine lexes_of_false '\'' _ rfl (by unfold headFalls; decide) 1 (by simp; omega) ?_
  intro f rest acc _
  have hs := scanTriple_safe_any lit 3 rest h
  have hscan : scanString ('\'' :: '\'' :: '\'' :: (lit ++ '\'' :: '\'' :: '\'' :: rest)) =
      some ('\'' :: '\'' :: '\'' :: (lit ++ ['\'', '\'', '\'']), rest) := by
    simp [scanString, hs]
  simp only [List.cons_append, List.append_assoc, List.nil_append]
  rw [lexLoop.eq_def]
  simp [hscan, isDigit, isLetter]

end Kap.C13
