/-
C13, character level, STATE-DEPENDENT part. The lexer has two states: `lexToken` (model: `bop = false`, expecting
an operand) and `tryLexBinaryOperator` (`bop = true`, after an operand). Most operand texts lex to the same token
in both states; three do not:
  * `/re/`  is a regex in state false, but in state true `/` is the division operator – unless the regex stands
            directly after `=~` / `!~`, where the operator branch itself peeks for a `/` and scans the regex;
  * `*`     is the star operand in state false (and leaves the lexer in state FALSE), the multiplication
            operator in state true;
  * `-5`    (a negative number built in code) is two tokens in both states: unary minus and a number.
This file formulates the state-dependent judgment `LexesIn b txt ts`, proves the atom lemmas for regex and star in
both states, and redoes the structural induction over the tree with the state threaded through
(`lex_exprS`), so that regex operands (wherever the grammar allows them), star arguments and negative numbers are
covered by the character-level theorem.
-/
import Kap.Proofs.C13LexStr
import Kap.Proofs.C13LexNum

namespace Kap.C13
open Kap.C13.Gen

/-! ### the judgment -/

/-- `txt`, read in state `b`, lexes as `ts` and leaves the lexer in the state "after an operand" -/
def LexesIn (b : Bool) (txt : List Char) (ts : List RTok) : Prop :=
  ∃ k, k ≤ 2 * txt.length ∧ ∀ f rest acc, nextOK rest →
    lexLoop (f + k) b (txt ++ rest) acc = lexLoop f true rest (ts.reverse ++ acc)

theorem lexesIn_of_lexes {txt : List Char} {ts : List RTok} (h : Lexes txt ts) (b : Bool) : LexesIn b txt ts := h b

/-- first character: not a space, not `=` or `~` (so `!x` is not `!=` / `!~`) -/
def HeadOK2 (txt : List Char) : Prop :=
  ∃ c t, txt = c :: t ∧ isSpace c = false ∧ c ≠ '=' ∧ c ≠ '~'

/-- … and not `/` (after `=~` / `!~` a `/` starts a regex) -/
def NoSlash (txt : List Char) : Prop := ∀ t, txt ≠ '/' :: t

theorem headOK2_of_headOK {txt : List Char} (h : HeadOK txt) : HeadOK2 txt ∧ NoSlash txt := by
  obtain ⟨c, t, rfl, h0, h1, h2, h3⟩ := h
  exact ⟨⟨c, t, rfl, h0, h1, h2⟩, fun t' heq => by simp at heq; exact h3 heq.1⟩

theorem HeadOK2_append {t : List Char} (h : HeadOK2 t) (r : List Char) : HeadOK2 (t ++ r) := by
  obtain ⟨c, t', rfl, h'⟩ := h
  exact ⟨c, t' ++ r, rfl, h'⟩

theorem NoSlash_append {t : List Char} (h : NoSlash t) (hne : t ≠ []) (r : List Char) : NoSlash (t ++ r) := by
  cases t with
  | nil => exact absurd rfl hne
  | cons c t' =>
    intro t'' heq
    simp at heq
    exact h t' (by rw [heq.1])

/-! ### operators and unary `!` with the weaker head condition -/

theorem bop_skip_space' (g : Nat) (X : List Char) (acc : List RTok) (h : HeadOK2 X) :
    lexLoop g true (' ' :: X) acc = lexLoop g true X acc := by
  obtain ⟨c, t, rfl, h0, _⟩ := h
  cases g with
  | zero => simp [lexLoop]
  | succ g =>
    rw [lexLoop.eq_def, lexLoop.eq_def (g + 1)]
    simp only [if_true]
    have : dropSpace (' ' :: c :: t) = dropSpace (c :: t) := by simp [dropSpace, isSpace]
    rw [this]

theorem lex_not' (f : Nat) (R : List Char) (acc : List RTok) (h : HeadOK2 R) : ∀ b,
    lexLoop (f + 1) b ('!' :: R) acc = lexLoop f false R (.not :: acc)
  | false => by simp [lexLoop]
  | true => by
    obtain ⟨c, t, rfl, _, h1, h2⟩ := h
    rw [lexLoop.eq_def]
    simp only [if_true]
    have : dropSpace ('!' :: c :: t) = '!' :: c :: t := by simp [dropSpace, isSpace]
    rw [this]
    split <;> simp_all

def isRxOp : BinOp → Bool
  | .TokenRegexEqual => true
  | .TokenRegexNotEqual => true
  | _ => false

/-- the state the lexer is in after a binary operator: the keyword operators are lexed as identifiers, which
leaves the state "after an operand" -/
def opState : BinOp → Bool
  | .TokenAnd => true
  | .TokenOr => true
  | _ => false

/-- ` op ` after an operand: the operator token; the right operand is then lexed in state `opState o` -/
theorem lex_op' (o : BinOp) : ∃ k, k ≤ 2 * (opChars o).length + 2 ∧ ∀ f X acc, HeadOK2 X →
    (isRxOp o = true → NoSlash X) →
    lexLoop (f + k) true (' ' :: opChars o ++ ' ' :: X) acc = lexLoop f (opState o) X (.op o :: acc) := by
  cases o
  case TokenAnd =>
    refine ⟨2, by decide, ?_⟩
    intro f X acc hX _
    have : opChars .TokenAnd = ['A', 'N', 'D'] := by decide
    rw [this, opState, ← bop_skip_space' f X _ hX]
    simp [lexLoop, dropSpace, isSpace, isDigit, isLetter, isIdentCh, List.takeWhile, List.dropWhile, kw_and]
  case TokenOr =>
    refine ⟨2, by decide, ?_⟩
    intro f X acc hX _
    have : opChars .TokenOr = ['O', 'R'] := by decide
    rw [this, opState, ← bop_skip_space' f X _ hX]
    simp [lexLoop, dropSpace, isSpace, isDigit, isLetter, isIdentCh, List.takeWhile, List.dropWhile, kw_or]
  case TokenRegexEqual =>
    refine ⟨1, by decide, ?_⟩
    intro f X acc hX hns
    obtain ⟨c, t, rfl, h0, _, _⟩ := hX
    have h3 : c ≠ '/' := fun hc => hns rfl t (by rw [hc])
    have : opChars .TokenRegexEqual = ['=', '~'] := by decide
    rw [this]
    simp only [List.cons_append, List.nil_append, opState]
    have hd0 : dropSpace (' ' :: '=' :: '~' :: ' ' :: c :: t) = '=' :: '~' :: ' ' :: c :: t := by
      simp [dropSpace, isSpace]
    rw [lexLoop.eq_def]
    simp only [if_true, hd0, dropSpace_sp_head h0]
    split
    · rename_i heq; simp at heq; exact absurd heq.1 h3
    · rfl
  case TokenRegexNotEqual =>
    refine ⟨1, by decide, ?_⟩
    intro f X acc hX hns
    obtain ⟨c, t, rfl, h0, _, _⟩ := hX
    have h3 : c ≠ '/' := fun hc => hns rfl t (by rw [hc])
    have : opChars .TokenRegexNotEqual = ['!', '~'] := by decide
    rw [this]
    simp only [List.cons_append, List.nil_append, opState]
    have hd0 : dropSpace (' ' :: '!' :: '~' :: ' ' :: c :: t) = '!' :: '~' :: ' ' :: c :: t := by
      simp [dropSpace, isSpace]
    rw [lexLoop.eq_def]
    simp only [if_true, hd0, dropSpace_sp_head h0]
    split
    · rename_i heq; simp at heq; exact absurd heq.1 h3
    · rfl
  all_goals
    refine ⟨2, by decide, ?_⟩
    intro f X acc _ _
    first
      | (have h : opChars .TokenPlus = ['+'] := by decide
         rw [h]; simp [lexLoop, dropSpace, isSpace, isDigit, isLetter, opState])
      | (have h : opChars .TokenMinus = ['-'] := by decide
         rw [h]; simp [lexLoop, dropSpace, isSpace, isDigit, isLetter, opState])
      | (have h : opChars .TokenMult = ['*'] := by decide
         rw [h]; simp [lexLoop, dropSpace, isSpace, isDigit, isLetter, opState])
      | (have h : opChars .TokenDiv = ['/'] := by decide
         rw [h]; simp [lexLoop, dropSpace, isSpace, isDigit, isLetter, opState])
      | (have h : opChars .TokenMod = ['%'] := by decide
         rw [h]; simp [lexLoop, dropSpace, isSpace, isDigit, isLetter, opState])
      | (have h : opChars .TokenEqual = ['=', '='] := by decide
         rw [h]; simp [lexLoop, dropSpace, isSpace, isDigit, isLetter, opState])
      | (have h : opChars .TokenNotEqual = ['!', '='] := by decide
         rw [h]; simp [lexLoop, dropSpace, isSpace, isDigit, isLetter, opState])
      | (have h : opChars .TokenLess = ['<'] := by decide
         rw [h]; simp [lexLoop, dropSpace, isSpace, isDigit, isLetter, opState])
      | (have h : opChars .TokenGreater = ['>'] := by decide
         rw [h]; simp [lexLoop, dropSpace, isSpace, isDigit, isLetter, opState])
      | (have h : opChars .TokenLessEqual = ['<', '='] := by decide
         rw [h]; simp [lexLoop, dropSpace, isSpace, isDigit, isLetter, opState])
      | (have h : opChars .TokenGreaterEqual = ['>', '='] := by decide
         rw [h]; simp [lexLoop, dropSpace, isSpace, isDigit, isLetter, opState])

/-! ### regex: the scanner, and the literal in the three contexts -/

/-- the literal between the slashes is one the regex scanner reads to its end: every `/` in it is escaped and it
does not end in a backslash (which would swallow the closing `/`) -/
def rxScanOK : List Char → Bool
  | [] => true
  | '\\' :: '/' :: r => rxScanOK r
  | ['\\'] => false
  | '/' :: _ => false
  | _ :: r => rxScanOK r

theorem scanRegex_lit : ∀ (L rest : List Char), rxScanOK L = true →
    scanRegex (L ++ '/' :: rest) = some (L ++ ['/'], rest) := by
  intro L
  induction L using rxScanOK.induct with
  | case1 => intro rest _; simp [scanRegex]
  | case2 r ih =>
    intro rest h
    simp only [rxScanOK] at h
    simp [scanRegex, ih rest h]
  | case3 => intro rest h; simp [rxScanOK] at h
  | case4 r => intro rest h; simp [rxScanOK] at h
  | case5 c r h1 h2 h3 ih =>
    intro rest h
    rw [rxScanOK.eq_5 c r h1 h2 h3] at h
    have H1 : ∀ rest_1, c = '\\' → r ++ '/' :: rest = '/' :: rest_1 → False := by
      intro t hc heq
      cases r with
      | nil => exact h2 hc rfl
      | cons d r' =>
        simp at heq
        exact h1 r' hc (by rw [heq.1])
    rw [List.cons_append, scanRegex.eq_4 c (r ++ '/' :: rest) H1 h3, ih rest h]
    simp

/-- state false (an operand is expected): `/L/` is ONE regex token -/
theorem lex_regex_false (d : Char) (L : List Char) (hd : d ≠ '/') (ha : isAscii d = true)
    (hs : rxScanOK (d :: L) = true) (f : Nat) (rest : List Char) (acc : List RTok) :
    lexLoop (f + 1) false ('/' :: (d :: L) ++ '/' :: rest) acc =
      lexLoop f true rest (.regex (String.ofList ('/' :: (d :: L) ++ ['/'])) :: acc) := by
  have hscan := scanRegex_lit (d :: L) rest hs
  simp only [List.cons_append] at hscan ⊢
  rw [lexLoop.eq_def]
  simp [isDigit, isLetter, isSpace, ha, hscan]

/-- state true (after an operand): the same text starts with the DIVISION operator -/
theorem lex_regex_true_is_div (d : Char) (R : List Char) (hd : d ≠ '/') (f : Nat) (acc : List RTok) :
    lexLoop (f + 1) true ('/' :: d :: R) acc = lexLoop f false (d :: R) (.op .TokenDiv :: acc) := by
  rw [lexLoop.eq_def]
  simp only [if_true]
  have : dropSpace ('/' :: d :: R) = '/' :: d :: R := by simp [dropSpace, isSpace]
  rw [this]
  split <;> simp_all

/-- … except directly after `=~` / `!~`: the operator branch peeks for `/` and scans the regex itself -/
theorem lex_rxop (o : BinOp) (ho : isRxOp o = true) (L : List Char) (hs : rxScanOK L = true)
    (f : Nat) (rest : List Char) (acc : List RTok) :
    lexLoop (f + 1) true (' ' :: opChars o ++ ' ' :: ('/' :: L ++ '/' :: rest)) acc =
      lexLoop f true rest (.regex (String.ofList ('/' :: L ++ ['/'])) :: .op o :: acc) := by
  have hscan := scanRegex_lit L rest hs
  cases o <;> simp [isRxOp] at ho
  · have : opChars .TokenRegexEqual = ['=', '~'] := by decide
    rw [this]
    simp only [List.cons_append, List.nil_append]
    rw [lexLoop.eq_def]
    simp [dropSpace, isSpace, hscan]
  · have : opChars .TokenRegexNotEqual = ['!', '~'] := by decide
    rw [this]
    simp only [List.cons_append, List.nil_append]
    rw [lexLoop.eq_def]
    simp [dropSpace, isSpace, hscan]

/-! ### star in both states -/

/-- state false: the star operand – and the lexer STAYS in state false -/
theorem lex_star_false (f : Nat) (R : List Char) (acc : List RTok) :
    lexLoop (f + 1) false ('*' :: R) acc = lexLoop f false R (.star :: acc) := by
  simp [lexLoop, isDigit, isLetter, isSpace]

/-- state true: the multiplication operator -/
theorem lex_star_true (f : Nat) (R : List Char) (acc : List RTok) :
    lexLoop (f + 1) true ('*' :: R) acc = lexLoop f false R (.op .TokenMult :: acc) := by
  simp [lexLoop, dropSpace, isSpace]

theorem lex_star_rp (f : Nat) (R : List Char) (acc : List RTok) :
    lexLoop (f + 2) false ('*' :: ')' :: R) acc = lexLoop f true R (.rp :: .star :: acc) := by
  simp [lexLoop, isDigit, isLetter, isSpace]

theorem lex_star_comma (f : Nat) (R : List Char) (acc : List RTok) :
    lexLoop (f + 3) false ('*' :: ',' :: ' ' :: R) acc = lexLoop f false R (.comma :: .star :: acc) := by
  simp [lexLoop, isDigit, isLetter, isSpace]

theorem lex_star_end (f : Nat) (acc : List RTok) :
    lexLoop (f + 2) false ['*'] acc = .ok (.star :: acc).reverse := by
  simp [lexLoop, isDigit, isLetter, isSpace]

/-! ### raw tokens of a tree, a negative number being two tokens -/

/-- a text with a leading `-` is two tokens: the minus operator and the rest -/
def splitMinus (mk : String → RTok) (txt : List Char) : List RTok :=
  match txt with
  | '-' :: t => [.op .TokenMinus, mk (String.ofList t)]
  | t => [mk (String.ofList t)]

theorem splitMinus_minus (mk : String → RTok) (t : List Char) :
    splitMinus mk ('-' :: t) = [.op .TokenMinus, mk (String.ofList t)] := rfl

theorem splitMinus_other (mk : String → RTok) (c : Char) (t : List Char) (hc : c ≠ '-') :
    splitMinus mk (c :: t) = [mk (String.ofList (c :: t))] := by
  unfold splitMinus
  split
  · rename_i heq; simp at heq; exact absurd heq.1 hc
  · rfl

def atomRaws (a : Atom) : List RTok :=
  match a with
  | .num n => splitMinus .number (atomText (.num n))
  | .dur ns lit => splitMinus .duration (atomText (.dur ns lit))
  | a => [atomRaw a]

mutual
def rawToksS : Expr → Bool → List RTok
  | .lit a, _ => atomRaws a
  | .id s, _ => [.ident (String.ofList s.toList)]
  | .un .neg e, _ => .op .TokenMinus :: rawToksS e true
  | .un .not e, _ => .not :: rawToksS e true
  | .bin o l r p, extra =>
    (if p || extra then [.lp] else []) ++ rawToksS l (needsParens l o false) ++ .op o ::
      rawToksS r (needsParens r o true) ++ (if p || extra then [.rp] else [])
  | .call f args, _ => .ident (String.ofList f.toList) :: .lp :: rawArgToksS args ++ [.rp]
def rawArgToksS : List Expr → List RTok
  | [] => []
  | [a] => rawToksS a false
  | a :: rest => rawToksS a false ++ .comma :: rawArgToksS rest
end

/-- an operand token read in state `b` -/
def AtomLexIn (b : Bool) (a : Atom) : Prop := LexesIn b (atomText a) (atomRaws a) ∧ HeadOK2 (atomText a)

/-- the literal between the slashes, when the tree is a regex operand -/
def rxLitOf : Expr → Option (List Char)
  | .lit (.rx re lit) => some (regexLiteral re lit).toList
  | _ => none

def isStar : Expr → Bool
  | .lit .star => true
  | _ => false

mutual
/-- the per-token conditions, with the lexer state in which each operand is read threaded through the tree:
the left operand of an unparenthesised binary node is read in the state the node is read in, after `(` and after
a unary operator the state is false, the right operand is read in `opState o`; a regex directly after `=~` / `!~`
is scanned by the operator branch. A star is accepted as a whole argument of a call (and as the whole
expression, see `lex_fmtCharsS`): it leaves the lexer in state false, so that no binary operator can follow. -/
def LexWFs : Expr → Bool → Bool → Prop
  | .lit a, _, b => AtomLexIn b a
  | .id s, _, _ => IdentLex s
  | .un _ e, _, _ => LexWFs e true false
  | .bin o l r p, extra, b =>
    LexWFs l (needsParens l o false) (if p || extra then false else b) ∧
    ((isRxOp o = true ∧ ∃ L, rxLitOf r = some L ∧ rxScanOK L = true) ∨
     (LexWFs r (needsParens r o true) (opState o) ∧
      (isRxOp o = true → NoSlash (fmtCharsP r (needsParens r o true)))))
  | .call f args, _, _ => IdentLexCall f ∧ LexWFArgs args
def LexWFArgs : List Expr → Prop
  | [] => True
  | a :: rest => (isStar a = true ∨ LexWFs a false false) ∧ LexWFArgs rest
end

theorem rx_forms (r : Expr) (L : List Char) (h : rxLitOf r = some L) (x : Bool) :
    fmtCharsP r x = '/' :: (L ++ ['/']) ∧ rawToksS r x = [.regex (String.ofList ('/' :: (L ++ ['/'])))] := by
  cases r with
  | lit a =>
    cases a with
    | rx re lit =>
      simp only [rxLitOf, Option.some.injEq] at h
      subst h
      simp [fmtCharsP, rawToksS, atomRaws, atomRaw, atomText, fmtAtom, fmtRegex]
    | _ => simp [rxLitOf] at h
  | _ => simp [rxLitOf] at h

theorem star_forms (a : Expr) (h : isStar a = true) (x : Bool) :
    fmtCharsP a x = ['*'] ∧ rawToksS a x = [.star] := by
  cases a with
  | lit a =>
    cases a with
    | star => exact ⟨by simp only [fmtCharsP]; decide, by simp [rawToksS, atomRaws, atomRaw]⟩
    | _ => simp [isStar] at h
  | _ => simp [isStar] at h

theorem fmtCharsP_ne_nil_of_head {t : List Char} (h : HeadOK2 t) : t ≠ [] := by
  obtain ⟨c, t', rfl, _⟩ := h; simp

mutual
theorem lex_exprS : (e : Expr) → ∀ extra b, LexWFs e extra b →
    LexesIn b (fmtCharsP e extra) (rawToksS e extra) ∧ HeadOK2 (fmtCharsP e extra)
  | .lit a, _, b, h => by
    simp only [LexWFs] at h
    simp only [fmtCharsP, rawToksS]
    exact h
  | .id s, _, b, h => by
    simp only [LexWFs] at h
    simp only [fmtCharsP, rawToksS]
    exact ⟨h.1 b, (headOK2_of_headOK h.2).1⟩
  | .un .neg e, _, b, h => by
    obtain ⟨ih, _⟩ := lex_exprS e true false (by simpa [LexWFs] using h)
    refine ⟨?_, ⟨'-', fmtCharsP e true, by simp [fmtCharsP, unChars_neg], by decide, by decide, by decide⟩⟩
    obtain ⟨k, hk, hl⟩ := ih
    refine ⟨k + 1, by simp [fmtCharsP, unChars_neg]; omega, ?_⟩
    intro f rest acc hr
    have := hl f rest (.op .TokenMinus :: acc) hr
    simp only [fmtCharsP, unChars_neg, rawToksS, List.cons_append, List.nil_append, List.reverse_cons,
      List.append_assoc] at this ⊢
    rw [← Nat.add_assoc, lex_minus, this]
  | .un .not e, _, b, h => by
    obtain ⟨ih, hh⟩ := lex_exprS e true false (by simpa [LexWFs] using h)
    refine ⟨?_, ⟨'!', fmtCharsP e true, by simp [fmtCharsP, unChars_not], by decide, by decide, by decide⟩⟩
    obtain ⟨k, hk, hl⟩ := ih
    refine ⟨k + 1, by simp [fmtCharsP, unChars_not]; omega, ?_⟩
    intro f rest acc hr
    have := hl f rest (.not :: acc) hr
    simp only [fmtCharsP, unChars_not, rawToksS, List.cons_append, List.nil_append, List.reverse_cons,
      List.append_assoc] at this ⊢
    rw [← Nat.add_assoc, lex_not' _ _ _ (HeadOK2_append hh rest), this]
  | .bin o l r p, extra, b, h => by
    obtain ⟨hl, hr⟩ := (by simpa only [LexWFs] using h :
      LexWFs l (needsParens l o false) (if p || extra then false else b) ∧
      ((isRxOp o = true ∧ ∃ L, rxLitOf r = some L ∧ rxScanOK L = true) ∨
       (LexWFs r (needsParens r o true) (opState o) ∧
        (isRxOp o = true → NoSlash (fmtCharsP r (needsParens r o true))))))
    obtain ⟨ihl, hhl⟩ := lex_exprS l (needsParens l o false) (if p || extra then false else b) hl
    -- the operator and the right operand, read after the left operand
    have hright : ∃ kr, kr ≤ 2 * ((opChars o).length + 2 + (fmtCharsP r (needsParens r o true)).length) ∧
        ∀ f rest acc, nextOK rest →
          lexLoop (f + kr) true (' ' :: (opChars o ++ ' ' :: (fmtCharsP r (needsParens r o true) ++ rest))) acc =
            lexLoop f true rest ((rawToksS r (needsParens r o true)).reverse ++ .op o :: acc) := by
      rcases hr with ⟨ho, L, hL, hs⟩ | ⟨hr, hns⟩
      · obtain ⟨e1, e2⟩ := rx_forms r L hL (needsParens r o true)
        refine ⟨1, by omega, ?_⟩
        intro f rest acc _
        rw [e1, e2]
        have := lex_rxop o ho L hs f rest acc
        simpa [List.append_assoc] using this
      · obtain ⟨ihr, hhr⟩ := lex_exprS r (needsParens r o true) (opState o) hr
        obtain ⟨ko, hko, hop⟩ := lex_op' o
        obtain ⟨kr, hkr, hrr⟩ := ihr
        refine ⟨kr + ko, by omega, ?_⟩
        intro f rest acc hrest
        have e2 := hop (f + kr) (fmtCharsP r (needsParens r o true) ++ rest) acc (HeadOK2_append hhr rest)
          (fun ho => NoSlash_append (hns ho) (fmtCharsP_ne_nil_of_head hhr) rest)
        have e3 := hrr f rest (.op o :: acc) hrest
        rw [← Nat.add_assoc]
        rw [List.cons_append] at e2
        rw [e2, e3]
    obtain ⟨kr, hkr, hrr⟩ := hright
    generalize hL : fmtCharsP l (needsParens l o false) = L at *
    generalize hR : fmtCharsP r (needsParens r o true) = R at *
    generalize hTL : rawToksS l (needsParens l o false) = TL at *
    generalize hTR : rawToksS r (needsParens r o true) = TR at *
    cases hP : (p || extra) with
    | false =>
      rw [hP] at ihl
      simp only [Bool.false_eq_true, if_false] at ihl
      refine ⟨?_, ?_⟩
      · obtain ⟨kl, hkl, hll⟩ := ihl
        refine ⟨kr + kl, by simp [fmtCharsP, hP, hL, hR]; omega, ?_⟩
        intro f rest acc hrest
        simp only [fmtCharsP, rawToksS, hP, hL, hR, hTL, hTR, List.nil_append, List.append_nil, Bool.false_eq_true,
          if_false, List.append_assoc, List.cons_append]
        have e1 := hll (f + kr) (' ' :: (opChars o ++ ' ' :: (R ++ rest))) acc (nextOK_space _)
        have e2 := hrr f rest (TL.reverse ++ acc) hrest
        rw [← Nat.add_assoc, e1, e2]
        simp [List.reverse_append, List.append_assoc]
      · obtain ⟨c, t, hc, h'⟩ := hhl
        exact ⟨c, t ++ (' ' :: opChars o ++ ' ' :: R), by simp [fmtCharsP, hP, hL, hR, hc], h'⟩
    | true =>
      rw [hP] at ihl
      simp only [if_true] at ihl
      refine ⟨?_, ⟨'(', L ++ (' ' :: opChars o ++ ' ' :: R ++ [')']), by simp [fmtCharsP, hP, hL, hR], by decide, by decide, by decide⟩⟩
      obtain ⟨kl, hkl, hll⟩ := ihl
      refine ⟨(if b then 2 else 1) + (2 + kr + kl), by simp [fmtCharsP, hP, hL, hR]; split <;> omega, ?_⟩
      intro f rest acc hrest
      simp only [fmtCharsP, rawToksS, hP, hL, hR, hTL, hTR, if_true, List.append_assoc, List.cons_append,
        List.nil_append]
      have e0 : lexLoop (f + ((if b then 2 else 1) + (2 + kr + kl))) b
          ('(' :: (L ++ ' ' :: (opChars o ++ ' ' :: (R ++ ')' :: rest)))) acc =
          lexLoop (f + 2 + kr + kl) false (L ++ ' ' :: (opChars o ++ ' ' :: (R ++ ')' :: rest))) (.lp :: acc) := by
        cases b with
        | false =>
          have : f + ((if false then 2 else 1) + (2 + kr + kl)) = (f + 2 + kr + kl) + 1 := by simp; omega
          rw [this]; simp [lexLoop, isSpace, isDigit, isLetter]
        | true =>
          have : f + ((if true then 2 else 1) + (2 + kr + kl)) = (f + 2 + kr + kl) + 2 := by simp; omega
          rw [this]; simp [lexLoop, dropSpace, isSpace, isDigit, isLetter]
      have e1 := hll (f + 2 + kr) (' ' :: (opChars o ++ ' ' :: (R ++ ')' :: rest))) (.lp :: acc) (nextOK_space _)
      have e2 := hrr (f + 2) (')' :: rest) (TL.reverse ++ .lp :: acc) (nextOK_rp _)
      rw [e0, e1, e2, lex_rp]
      simp [List.reverse_append, List.append_assoc]
  | .call fn args, _, b, h => by
    obtain ⟨⟨hf, hh⟩, ha⟩ : IdentLexCall fn ∧ LexWFArgs args := by simpa only [LexWFs] using h
    obtain ⟨ka, hka, haa⟩ := lex_argsS args ha
    refine ⟨?_, ?_⟩
    · obtain ⟨kf, hkf, hff⟩ := hf b
      refine ⟨ka + 2 + kf, by simp [fmtCharsP]; omega, ?_⟩
      intro f rest acc _
      simp only [fmtCharsP, rawToksS, List.append_assoc, List.cons_append, List.nil_append]
      have ef : f + (ka + 2 + kf) = f + ka + 2 + kf := by omega
      rw [ef, hff]
      have : lexLoop (f + ka + 2) true ('(' :: (fmtArgChars args ++ ')' :: rest)) (.ident (String.ofList fn.toList) :: acc) =
          lexLoop (f + ka) false (fmtArgChars args ++ ')' :: rest) (.lp :: .ident (String.ofList fn.toList) :: acc) := by
        simp [lexLoop, dropSpace, isSpace, isDigit, isLetter]
      rw [this, haa]
      simp [List.reverse_append, List.append_assoc]
    · obtain ⟨c, t, hc, h0, h1, h2, _⟩ := hh
      exact ⟨c, t ++ ('(' :: fmtArgChars args ++ [')']), by simp [fmtCharsP, hc], h0, h1, h2⟩
/-- the argument list up to and including the closing `)`; a star argument is read in state false and is
followed by `)` or `, `, both of which the state false accepts -/
theorem lex_argsS : (args : List Expr) → LexWFArgs args →
    ∃ k, k ≤ 2 * (fmtArgChars args).length + 2 ∧ ∀ f R acc,
      lexLoop (f + k) false (fmtArgChars args ++ ')' :: R) acc =
        lexLoop f true R (.rp :: ((rawArgToksS args).reverse ++ acc))
  | [], _ => by
    refine ⟨1, by simp [fmtArgChars], ?_⟩
    intro f R acc
    simp [fmtArgChars, rawArgToksS, lexLoop, isSpace, isDigit, isLetter]
  | [a], h => by
    obtain ⟨ha, _⟩ : (isStar a = true ∨ LexWFs a false false) ∧ True := by simpa only [LexWFArgs] using h
    rcases ha with hs | ha
    · obtain ⟨e1, e2⟩ := star_forms a hs false
      refine ⟨2, by simp [fmtArgChars, e1], ?_⟩
      intro f R acc
      simp only [fmtArgChars, rawArgToksS, e1, e2]
      exact lex_star_rp f R acc
    · obtain ⟨ih, _⟩ := lex_exprS a false false ha
      obtain ⟨k, hk, hl⟩ := ih
      refine ⟨2 + k, by simp [fmtArgChars]; omega, ?_⟩
      intro f R acc
      simp only [fmtArgChars, rawArgToksS]
      rw [← Nat.add_assoc, hl _ _ _ (nextOK_rp _), lex_rp]
  | a :: b :: tl, h => by
    obtain ⟨ha, hb⟩ : (isStar a = true ∨ LexWFs a false false) ∧ LexWFArgs (b :: tl) := by
      simpa only [LexWFArgs] using h
    obtain ⟨k2, hk2, hl2⟩ := lex_argsS (b :: tl) hb
    rcases ha with hs | ha
    · obtain ⟨e1, e2⟩ := star_forms a hs false
      refine ⟨k2 + 3, by simp [fmtArgChars, e1]; omega, ?_⟩
      intro f R acc
      simp only [fmtArgChars, rawArgToksS, e1, e2, List.cons_append, List.nil_append]
      rw [← Nat.add_assoc, lex_star_comma, hl2]
      simp [List.append_assoc]
    · obtain ⟨ih, _⟩ := lex_exprS a false false ha
      obtain ⟨k, hk, hl⟩ := ih
      refine ⟨k2 + 3 + k, by simp [fmtArgChars]; omega, ?_⟩
      intro f R acc
      simp only [fmtArgChars, rawArgToksS, List.append_assoc, List.cons_append]
      have ef : f + (k2 + 3 + k) = f + k2 + 3 + k := by omega
      rw [ef, hl _ _ _ (nextOK_comma _), lex_comma, hl2]
      simp [List.reverse_append, List.append_assoc]
end

/-- the lexer, with its own fixed fuel, reads the printed text of a tree back as its raw tokens: the tree is a
star, or satisfies the state-threaded per-token conditions read from the initial state (false) -/
theorem lex_fmtCharsS (e : Expr) (h : isStar e = true ∨ LexWFs e false false) :
    lex (fmtChars e) = .ok (rawToksS e false) := by
  rcases h with hs | h
  · obtain ⟨e1, e2⟩ := star_forms e hs false
    unfold lex fmtChars
    rw [e1, e2]
    exact lex_star_end 2 []
  · obtain ⟨hl, _⟩ := lex_exprS e false false h
    obtain ⟨k, hk, hk2⟩ := hl
    have := hk2 (2 * (fmtChars e).length + 2 - k) [] [] trivial
    unfold lex
    unfold fmtChars at *
    have e1 : 2 * (fmtCharsP e false).length + 2 - k + k = 2 * (fmtCharsP e false).length + 2 := by omega
    rw [e1, List.append_nil] at this
    rw [this]
    obtain ⟨g, hg⟩ : ∃ g, 2 * (fmtCharsP e false).length + 2 - k = g + 2 :=
      ⟨2 * (fmtCharsP e false).length - k, by omega⟩
    rw [hg, lex_end]
    simp

end Kap.C13
