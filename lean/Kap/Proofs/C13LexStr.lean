/-
C13, character level: the per-token hypothesis `AtomLex` discharged for references and single-quoted strings
(for every content that does not end in a backslash – exactly the contents these forms can hold).
-/
import Kap.Proofs.C13LexAtoms
import Kap.Proofs.C13Lit

namespace Kap.C13
open Kap.C13.Gen

/-- the reference scanner stops exactly at the closing quote Format wrote -/
theorem scanRef_escQ : ∀ (s rest : List Char), endsWithBackslash s = false →
    scanRef (escQ '"' s ++ '"' :: rest) = some (escQ '"' s ++ ['"'], rest)
  | [], rest, _ => by simp [escQ, scanRef]
  | c :: s, rest, h => by
    have hs : endsWithBackslash s = false ∨ s = [] := by
      cases s with
      | nil => exact Or.inr rfl
      | cons d t => left; simpa [endsWithBackslash, List.getLast?_cons_cons] using h
    by_cases hq : c = '"'
    · subst hq
      have hs' : endsWithBackslash s = false := by
        rcases hs with hs | rfl
        · exact hs
        · simp [endsWithBackslash]
      simp [escQ, scanRef, scanRef_escQ s rest hs']
    · simp only [escQ, hq, if_false, List.cons_append]
      by_cases hb : c = '\\'
      · subst hb
        cases s with
        | nil => simp [endsWithBackslash] at h
        | cons d t =>
          have hs' : endsWithBackslash (d :: t) = false := by
            rcases hs with hs | hs
            · exact hs
            · simp at hs
          have ih := scanRef_escQ (d :: t) rest hs'
          cases he : escQ '"' (d :: t) with
          | nil => simp [escQ] at he; split at he <;> simp at he
          | cons x y =>
            have hx : x ≠ '"' := by
              intro hx; subst hx; exact escQ_head '"' (by decide) (d :: t) y he
            rw [he] at ih
            simp only [List.cons_append] at ih ⊢
            rw [scanRef.eq_def]
            split
            · rename_i heq; simp at heq
            · rename_i heq; simp at heq; exact absurd heq.1 hx
            · rename_i heq; simp at heq
            · rename_i heq; simp at heq; obtain ⟨rfl, rfl⟩ := heq; simp [ih]
      · have hs' : endsWithBackslash s = false := by
          rcases hs with hs | rfl
          · exact hs
          · simp [endsWithBackslash]
        have ih := scanRef_escQ s rest hs'
        rw [scanRef.eq_def]
        split
        · rename_i heq; simp at heq
        · rename_i heq; simp at heq; exact absurd heq.1 hb
        · rename_i heq; simp at heq; exact absurd heq.1 hq
        · rename_i heq; simp at heq; obtain ⟨rfl, rfl⟩ := heq; simp [ih]

theorem atomText_ref (s : String) : atomText (.ref s) = '"' :: (escQ '"' s.toList ++ ['"']) := by
  simp [atomText, fmtAtom]

theorem atomText_str (l : String) (h : endsWithBackslash l.toList = false) :
    atomText (.str l false) = '\'' :: (escQ '\'' l.toList ++ ['\'']) := by
  simp [atomText, fmtAtom, fmtString, useTriple, h]

/-- every reference whose name does not end in a backslash lexes as itself -/
theorem atomLex_ref (s : String) (h : endsWithBackslash s.toList = false) : AtomLex (.ref s) := by
  have ht := atomText_ref s
  refine ⟨?_, ⟨'"', _, ht, by decide, by decide, by decide, by decide⟩⟩
  refine lexes_of_false '"' _ ht (by unfold headFalls; decide) 1 (by rw [ht]; simp; omega) ?_
  intro f rest acc _
  rw [ht]
  have hs := scanRef_escQ s.toList rest h
  simp only [List.cons_append, List.append_assoc]
  rw [lexLoop.eq_def]
  simp [hs, isDigit, isLetter, atomRaw, ht]

/-- every single-quoted string whose content does not end in a backslash lexes as itself -/
theorem atomLex_str (l : String) (h : endsWithBackslash l.toList = false) : AtomLex (.str l false) := by
  have ht := atomText_str l h
  refine ⟨?_, ⟨'\'', _, ht, by decide, by decide, by decide, by decide⟩⟩
  refine lexes_of_false '\'' _ ht (by unfold headFalls; decide) 1 (by rw [ht]; simp; omega) ?_
  intro f rest acc hr
  rw [ht]
  have hscan : scanString ('\'' :: (escQ '\'' l.toList ++ ['\'']) ++ rest) =
      some ('\'' :: (escQ '\'' l.toList ++ ['\'']), rest) := by
    cases hl : l.toList with
    | nil =>
      rcases nextOK_cases hr with rfl | ⟨c, t, rfl, hc | hc | hc⟩ <;> try subst hc
      all_goals simp [escQ, scanString]
    | cons d t =>
      have hs := scanSingle_escQ (d :: t) rest (by rw [← hl]; exact h)
      cases he : escQ '\'' (d :: t) with
      | nil => simp [escQ] at he; split at he <;> simp at he
      | cons x y =>
        have hx : x ≠ '\'' := by
          intro hx; subst hx; exact escQ_head '\'' (by decide) (d :: t) y he
        rw [he] at hs
        simp only [List.cons_append, List.append_assoc] at hs ⊢
        rw [scanString.eq_def]
        split
        · rename_i heq; simp at heq; exact absurd heq.1 hx
        · rename_i heq; simp at heq; exact absurd heq.1 hx
        · rename_i heq; simp at heq; subst heq; simp [hs]
        · rename_i heq; simp at heq
  rw [lexLoop.eq_def]
  have hscan' : scanString ('\'' :: (escQ '\'' l.toList ++ '\'' :: rest)) =
      some ('\'' :: (escQ '\'' l.toList ++ ['\'']), rest) := by
    simpa [List.append_assoc] using hscan
  simp [hscan', isDigit, isLetter, atomRaw, ht]

end Kap.C13
