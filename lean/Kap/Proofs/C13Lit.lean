/-
C13: literal codecs on character lists (the escape / unescape loops of StringNode, ReferenceNode, RegexNode
and the scanners of the lexer) and the JSON round trip of expression trees.
-/
import Kap.Proofs.C13Canon

namespace Kap.C13
open Kap.C13.Gen

/-- the escaped text never starts with a bare quote -/
theorem escQ_head (q : Char) (hq : q ≠ '\\') : ∀ (s rest : List Char), escQ q s ≠ q :: rest
  | [], _ => by simp [escQ]
  | c :: s, rest => by
    by_cases h : c = q
    · subst h; simp [escQ]; intro h; exact absurd h.symm hq
    · simp [escQ, h]

/-- newString / newReference / newRegex undo what Format escaped -/
theorem unescQ_escQ (q : Char) (hq : q ≠ '\\') : ∀ s : List Char, unescQ q (escQ q s) = s
  | [] => by simp [escQ, unescQ]
  | c :: s => by
    have ih := unescQ_escQ q hq s
    by_cases h : c = q
    · subst h
      simp [escQ, unescQ, ih]
    · simp only [escQ, h, if_false]
      by_cases hb : c = '\\'
      · subst hb
        cases hs : escQ q s with
        | nil => rw [hs] at ih; simp [unescQ, ← ih]
        | cons d t =>
          have hd : d ≠ q := by
            intro hd; subst hd; exact escQ_head d hq s t hs
          rw [hs] at ih
          simp [unescQ, hd, ih]
      · cases hs : escQ q s with
        | nil => rw [hs] at ih; simp [unescQ, ← ih]
        | cons d t =>
          rw [hs] at ih
          rw [unescQ.eq_def]
          split
          · rename_i heq; simp at heq; exact absurd heq.1 hb
          · rename_i heq; simp at heq; obtain ⟨rfl, rfl⟩ := heq; rw [ih]
          · rename_i heq; simp at heq

/-- the lexer's single-quote scanner stops exactly at the closing quote that Format wrote, provided the literal
does not end in a backslash (which would swallow that quote) -/
theorem scanSingle_escQ : ∀ (s rest : List Char), endsWithBackslash s = false →
    scanSingle (escQ '\'' s ++ '\'' :: rest) = some (escQ '\'' s ++ ['\''], rest)
  | [], rest, _ => by simp [escQ, scanSingle]
  | c :: s, rest, h => by
    have hs : endsWithBackslash s = false ∨ s = [] := by
      cases s with
      | nil => exact Or.inr rfl
      | cons d t => left; simpa [endsWithBackslash, List.getLast?_cons_cons] using h
    by_cases hq : c = '\''
    · subst hq
      have hs' : endsWithBackslash s = false := by
        rcases hs with hs | rfl
        · exact hs
        · simp [endsWithBackslash]
      simp [escQ, scanSingle, scanSingle_escQ s rest hs']
    · simp only [escQ, hq, if_false, List.cons_append]
      by_cases hb : c = '\\'
      · subst hb
        cases s with
        | nil => simp [endsWithBackslash] at h
        | cons d t =>
          have hs' : endsWithBackslash (d :: t) = false := by
            rcases hs with hs | hs
            · exact hs
            · simp at hs
          have ih := scanSingle_escQ (d :: t) rest hs'
          cases he : escQ '\'' (d :: t) with
          | nil => simp [escQ] at he; split at he <;> simp at he
          | cons x y =>
            have hx : x ≠ '\'' := by
              intro hx; subst hx; exact escQ_head '\'' (by decide) (d :: t) y he
            rw [he] at ih
            simp only [List.cons_append] at ih ⊢
            rw [scanSingle.eq_def]
            split
            · rename_i heq; simp at heq
            · rename_i heq; simp at heq; exact absurd heq.1 hx
            · rename_i heq; simp at heq
            · rename_i heq; simp at heq; obtain ⟨rfl, rfl⟩ := heq; simp [ih]
      · have hs' : endsWithBackslash s = false := by
          rcases hs with hs | rfl
          · exact hs
          · simp [endsWithBackslash]
        have ih := scanSingle_escQ s rest hs'
        rw [scanSingle.eq_def]
        split
        · rename_i heq; simp at heq
        · rename_i heq; simp at heq; exact absurd heq.1 hb
        · rename_i heq; simp at heq; exact absurd heq.1 hq
        · rename_i heq; simp at heq; obtain ⟨rfl, rfl⟩ := heq; simp [ih]

/-! ### JSON -/

def atomJsonSafe : Atom → Bool
  | .num (.int b _) => b != 0
  | _ => true

mutual
def jsonSafe : Expr → Bool
  | .lit a => atomJsonSafe a
  | .id _ => true
  | .un _ e => jsonSafe e
  | .bin _ l r _ => jsonSafe l && jsonSafe r
  | .call _ args => jsonSafeAll args
def jsonSafeAll : List Expr → Bool
  | [] => true
  | a :: rest => jsonSafe a && jsonSafeAll rest
end

/-- the value of an operand, without its spelling -/
def atomValue : Atom → Atom
  | .dur ns _ => .dur ns ""
  | .str l _ => .str l false
  | .rx re _ => .rx re ""
  | a => a

mutual
/-- the meaning of a tree: shape, operators, function names, literal values – no Parens flags, no spelling -/
def meaningOf : Expr → Expr
  | .lit a => .lit (atomValue a)
  | .id s => .id s
  | .un op e => .un op (meaningOf e)
  | .bin o l r _ => .bin o (meaningOf l) (meaningOf r) false
  | .call f args => .call f (meaningOfAll args)
def meaningOfAll : List Expr → List Expr
  | [] => []
  | a :: rest => meaningOf a :: meaningOfAll rest
end

theorem jsonAtom_safe (a : Atom) (h : atomJsonSafe a = true) : ∃ a', jsonAtom a = .ok a' ∧ atomValue a' = atomValue a := by
  cases a with
  | num n =>
    cases n with
    | int b v =>
      simp only [atomJsonSafe, bne_iff_ne, ne_eq] at h
      exact ⟨.num (.int b v), by simp [jsonAtom, h], rfl⟩
    | flt c => exact ⟨_, rfl, rfl⟩
  | dur ns l => exact ⟨_, rfl, rfl⟩
  | bool b => exact ⟨_, rfl, rfl⟩
  | str l t => exact ⟨_, rfl, rfl⟩
  | rx re l => exact ⟨_, rfl, rfl⟩
  | ref s => exact ⟨_, rfl, rfl⟩
  | star => exact ⟨_, rfl, rfl⟩

mutual
theorem jsonRT_meaning : (e : Expr) → jsonSafe e = true → ∃ e', jsonRT e = .ok e' ∧ meaningOf e' = meaningOf e
  | .lit a, h => by
    obtain ⟨a', h1, h2⟩ := jsonAtom_safe a (by simpa [jsonSafe] using h)
    exact ⟨.lit a', by simp [jsonRT, h1, Res.bind], by simp [meaningOf, h2]⟩
  | .id s, _ => ⟨.id s, rfl, rfl⟩
  | .un op e, h => by
    obtain ⟨e', h1, h2⟩ := jsonRT_meaning e (by simpa [jsonSafe] using h)
    exact ⟨.un op e', by simp [jsonRT, h1, Res.bind], by simp [meaningOf, h2]⟩
  | .bin o l r p, h => by
    simp only [jsonSafe, Bool.and_eq_true] at h
    obtain ⟨l', hl1, hl2⟩ := jsonRT_meaning l h.1
    obtain ⟨r', hr1, hr2⟩ := jsonRT_meaning r h.2
    exact ⟨.bin o l' r' false, by simp [jsonRT, hl1, hr1, Res.bind], by simp [meaningOf, hl2, hr2]⟩
  | .call f args, h => by
    obtain ⟨as, h1, h2⟩ := jsonRTs_meaning args (by simpa [jsonSafe] using h)
    exact ⟨.call f as, by simp [jsonRT, h1, Res.bind], by simp [meaningOf, h2]⟩
theorem jsonRTs_meaning : (args : List Expr) → jsonSafeAll args = true →
    ∃ as, jsonRTs args = .ok as ∧ meaningOfAll as = meaningOfAll args
  | [], _ => ⟨[], rfl, rfl⟩
  | a :: rest, h => by
    simp only [jsonSafeAll, Bool.and_eq_true] at h
    obtain ⟨a', ha1, ha2⟩ := jsonRT_meaning a h.1
    obtain ⟨r', hr1, hr2⟩ := jsonRTs_meaning rest h.2
    exact ⟨a' :: r', by simp [jsonRTs, ha1, hr1, Res.bind], by simp [meaningOfAll, ha2, hr2]⟩
end

theorem meaningOf_mark (b : Bool) (e : Expr) : meaningOf (mark b e) = meaningOf e := by
  cases e <;> simp [mark, meaningOf]

mutual
theorem meaningOf_canonize : (e : Expr) → meaningOf (canonize e) = meaningOf e
  | .lit _ => by simp [canonize]
  | .id _ => by simp [canonize]
  | .un _ e => by simp [canonize, meaningOf, meaningOf_mark, meaningOf_canonize e]
  | .bin _ l r _ => by simp [canonize, meaningOf, meaningOf_mark, meaningOf_canonize l, meaningOf_canonize r]
  | .call _ args => by simp [canonize, meaningOf, meaningOfAll_canonizeAll args]
theorem meaningOfAll_canonizeAll : (args : List Expr) → meaningOfAll (canonizeAll args) = meaningOfAll args
  | [] => by simp [canonizeAll]
  | a :: rest => by simp [canonizeAll, meaningOfAll, meaningOf_canonize a, meaningOfAll_canonizeAll rest]
end

/-! ### Boolean equality of trees (Expr is a nested inductive: no derived DecidableEq), for `decide` witnesses -/

mutual
def Expr.same : Expr → Expr → Bool
  | .lit a, .lit b => a == b
  | .id s, .id t => s == t
  | .un o e, .un o' e' => o == o' && Expr.same e e'
  | .bin o l r p, .bin o' l' r' p' => o == o' && p == p' && Expr.same l l' && Expr.same r r'
  | .call f as, .call g bs => f == g && Expr.sameAll as bs
  | _, _ => false
def Expr.sameAll : List Expr → List Expr → Bool
  | [], [] => true
  | a :: as, b :: bs => Expr.same a b && Expr.sameAll as bs
  | _, _ => false
end

/-- `r` is `ok` of exactly the tree `e` -/
def Res.isOkOf (r : Res Expr) (e : Expr) : Bool :=
  match r with
  | .ok x => Expr.same x e
  | _ => false

end Kap.C13
