/-
C13: more fuel never changes an answer that is not "out of fuel" (so the `∃ N, ∀ f ≥ N` round-trip theorems
hold for the fixed fuel of `parseTokens`).
-/
import Kap.Proofs.C13Fuel

namespace Kap.C13
open Kap.C13.Gen

theorem Res.bind_ne_na_inv {α β} {r : Res α} {g : α → Res β} (h : ∀ w, r.bind g ≠ .na w) :
    (∀ w, r ≠ .na w) ∧ (∀ x, r = .ok x → ∀ w, g x ≠ .na w) := by
  constructor
  · intro w hr; subst hr; exact h w rfl
  · intro x hx w; subst hx; exact h w

theorem Res.bind_congr' {α β} {r r' : Res α} {g g' : α → Res β} (h1 : r' = r)
    (h2 : ∀ x, r = .ok x → g' x = g x) : r'.bind g' = r.bind g := by
  subst h1
  cases r' with
  | ok a => exact h2 a rfl
  | err => rfl
  | na w => rfl

def MonoP (f : Nat) : Prop := ∀ ts, (∀ w, primary f ts ≠ .na w) → primary (f + 1) ts = primary f ts
def MonoO (f : Nat) : Prop := ∀ lhs minP ts, (∀ w, outer f lhs minP ts ≠ .na w) →
  outer (f + 1) lhs minP ts = outer f lhs minP ts
def MonoI (f : Nat) : Prop := ∀ rhs p ts, (∀ w, inner f rhs p ts ≠ .na w) →
  inner (f + 1) rhs p ts = inner f rhs p ts
def MonoA (f : Nat) : Prop := ∀ ts, (∀ w, params f ts ≠ .na w) → params (f + 1) ts = params f ts

theorem mono_specs : ∀ f, MonoP f ∧ MonoO f ∧ MonoI f ∧ MonoA f
  | 0 => by
    refine ⟨?_, ?_, ?_, ?_⟩
    · intro ts h; exact absurd (by simp [primary]) (h "fuel")
    · intro lhs minP ts h; exact absurd (by simp [outer]) (h "fuel")
    · intro rhs p ts h; exact absurd (by simp [inner]) (h "fuel")
    · intro ts h; exact absurd (by simp [params]) (h "fuel")
  | f + 1 => by
    obtain ⟨ihP, ihO, ihI, ihA⟩ := mono_specs f
    have hP : MonoP (f + 1) := by
      intro ts h
      match ts, h with
      | .lp :: ts, h =>
        simp only [primary] at h ⊢
        obtain ⟨h1, h2⟩ := Res.bind_ne_na_inv h
        refine Res.bind_congr' (ihP ts h1) ?_
        intro x hx
        obtain ⟨h3, _⟩ := Res.bind_ne_na_inv (h2 x hx)
        exact Res.bind_congr' (ihO _ _ _ h3) (fun _ _ => rfl)
      | .lit a :: ts, _ => simp [primary]
      | .id s :: .lp :: ts, h =>
        simp only [primary] at h ⊢
        obtain ⟨h1, _⟩ := Res.bind_ne_na_inv h
        exact Res.bind_congr' (ihA ts h1) (fun _ _ => rfl)
      | [.id s], _ => simp [primary]
      | .id s :: .lit _ :: ts, _ => simp [primary]
      | .id s :: .id _ :: ts, _ => simp [primary]
      | .id s :: .rp :: ts, _ => simp [primary]
      | .id s :: .comma :: ts, _ => simp [primary]
      | .id s :: .not :: ts, _ => simp [primary]
      | .id s :: .op _ :: ts, _ => simp [primary]
      | .id s :: .sym _ :: ts, _ => simp [primary]
      | .op o :: ts, h =>
        cases o <;> simp only [primary] at h ⊢
        obtain ⟨h1, _⟩ := Res.bind_ne_na_inv h
        exact Res.bind_congr' (ihP ts h1) (fun _ _ => rfl)
      | .not :: ts, h =>
        simp only [primary] at h ⊢
        obtain ⟨h1, _⟩ := Res.bind_ne_na_inv h
        exact Res.bind_congr' (ihP ts h1) (fun _ _ => rfl)
      | [], _ => simp [primary]
      | .rp :: ts, _ => simp [primary]
      | .comma :: ts, _ => simp [primary]
      | .sym _ :: ts, _ => simp [primary]
    have hO : MonoO (f + 1) := by
      intro lhs minP ts h
      cases ts with
      | nil => simp [outer]
      | cons t ts1 =>
        cases t with
        | op o =>
          by_cases hp : prec o ≥ minP
          · simp only [outer, hp, if_true] at h ⊢
            obtain ⟨h1, h2⟩ := Res.bind_ne_na_inv h
            refine Res.bind_congr' (ihP ts1 h1) ?_
            intro x hx
            obtain ⟨h3, h4⟩ := Res.bind_ne_na_inv (h2 x hx)
            refine Res.bind_congr' (ihI _ _ _ h3) ?_
            intro y hy
            exact ihO _ _ _ (h4 y hy)
          · simp [outer, hp]
        | lit a => simp [outer]
        | id a => simp [outer]
        | lp => simp [outer]
        | rp => simp [outer]
        | comma => simp [outer]
        | not => simp [outer]
        | sym a => simp [outer]
    have hI : MonoI (f + 1) := by
      intro rhs p ts h
      cases ts with
      | nil => simp [inner]
      | cons t ts1 =>
        cases t with
        | op o =>
          by_cases hp : prec o > p
          · simp only [inner, hp, if_true] at h ⊢
            obtain ⟨h1, h2⟩ := Res.bind_ne_na_inv h
            refine Res.bind_congr' (ihO _ _ _ h1) ?_
            intro x hx
            exact ihI _ _ _ (h2 x hx)
          · simp [inner, hp]
        | lit a => simp [inner]
        | id a => simp [inner]
        | lp => simp [inner]
        | rp => simp [inner]
        | comma => simp [inner]
        | not => simp [inner]
        | sym a => simp [inner]
    have hA : MonoA (f + 1) := by
      intro ts h
      simp only [params] at h ⊢
      by_cases hs : startsRp ts = true
      · simp [hs]
      · simp only [hs, Bool.false_eq_true, if_false] at h ⊢
        obtain ⟨h1, h2⟩ := Res.bind_ne_na_inv h
        refine Res.bind_congr' (ihP ts h1) ?_
        intro x hx
        obtain ⟨h3, h4⟩ := Res.bind_ne_na_inv (h2 x hx)
        refine Res.bind_congr' (ihO _ _ _ h3) ?_
        intro y hy
        have h5 := h4 y hy
        split
        · rename_i ts2 heq
          rw [heq] at h5
          simp only at h5
          obtain ⟨h6, _⟩ := Res.bind_ne_na_inv h5
          exact Res.bind_congr' (ihA ts2 h6) (fun _ _ => rfl)
        · rfl
    exact ⟨hP, hO, hI, hA⟩

theorem primaryExpr_mono (f : Nat) (ts : List Tok) (h : ∀ w, primaryExpr f ts ≠ .na w) :
    primaryExpr (f + 1) ts = primaryExpr f ts := by
  obtain ⟨hP, hO, _, _⟩ := mono_specs f
  unfold primaryExpr at h ⊢
  obtain ⟨h1, h2⟩ := Res.bind_ne_na_inv h
  exact Res.bind_congr' (hP ts h1) (fun x hx => hO _ _ _ (h2 x hx))

theorem primaryExpr_mono_le (f : Nat) (ts : List Tok) (h : ∀ w, primaryExpr f ts ≠ .na w) :
    ∀ k, primaryExpr (f + k) ts = primaryExpr f ts
  | 0 => rfl
  | k + 1 => by
    have ih := primaryExpr_mono_le f ts h k
    have : ∀ w, primaryExpr (f + k) ts ≠ .na w := by rw [ih]; exact h
    rw [← Nat.add_assoc, primaryExpr_mono (f + k) ts this, ih]

/-- an answer found with some sufficient fuel is the answer of `parseTokens` -/
theorem parseTokens_of_eventually (ts : List Tok) (e : Expr)
    (h : ∃ N, ∀ f, N ≤ f → parseTokensF f ts = .ok e) : parseTokens ts = .ok e := by
  obtain ⟨N, hN⟩ := h
  have h1 := primaryExpr_mono_le (2 * ts.length + 4) ts (primaryExpr_ne_na ts) N
  have h2 := hN (2 * ts.length + 4 + N) (by omega)
  unfold parseTokens
  unfold parseTokensF at h2 ⊢
  rw [h1] at h2
  exact h2

end Kap.C13
