/-
C13, statement level: `parseStmts` inverts `fmtProgram` on every well-formed program (canonical expressions,
chains with an identifier or call head, statements whose first token cannot continue the previous statement).
-/
import Kap.Proofs.C13Image
import Kap.Model.C13Prog

namespace Kap.C13
open Kap.C13.Gen

/-! ### first tokens -/

def isExprHead : Tok → Bool
  | .lit _ => true
  | .id _ => true
  | .lp => true
  | .op _ => true
  | .not => true
  | _ => false

theorem fmtToksOld_head_kind : (e : Expr) → ∀ rest, ∃ t r, fmtToksOld e ++ rest = t :: r ∧ isExprHead t = true
  | .lit a, rest => ⟨.lit a, rest, by simp [fmtToksOld], rfl⟩
  | .id s, rest => ⟨.id s, rest, by simp [fmtToksOld], rfl⟩
  | .un .neg e, rest => ⟨.op .TokenMinus, fmtToksOld e ++ rest, by simp [fmtToksOld], rfl⟩
  | .un .not e, rest => ⟨.not, fmtToksOld e ++ rest, by simp [fmtToksOld], rfl⟩
  | .call f args, rest => ⟨.id f, .lp :: (fmtArgToksOld args ++ [.rp] ++ rest), by simp [fmtToksOld], rfl⟩
  | .bin o l r true, rest => ⟨.lp, fmtToksOld l ++ [.op o] ++ fmtToksOld r ++ [.rp] ++ rest, by simp [fmtToksOld], rfl⟩
  | .bin o l r false, rest => by
    obtain ⟨t, r', h, ht⟩ := fmtToksOld_head_kind l ([Tok.op o] ++ fmtToksOld r ++ rest)
    exact ⟨t, r', by simpa [fmtToksOld, List.append_assoc] using h, ht⟩

theorem startsIdLink_expr : (e : Expr) → ∀ rest, isLinkTok rest = false → startsIdLink (fmtToksOld e ++ rest) = false
  | .lit a, rest, _ => by simp [fmtToksOld, startsIdLink]
  | .id s, rest, h => by simp [fmtToksOld, startsIdLink, h]
  | .un .neg e, rest, _ => by simp [fmtToksOld, startsIdLink]
  | .un .not e, rest, _ => by simp [fmtToksOld, startsIdLink]
  | .call f args, rest, _ => by simp [fmtToksOld, startsIdLink, isLinkTok]
  | .bin o l r true, rest, _ => by simp [fmtToksOld, startsIdLink]
  | .bin o l r false, rest, _ => by
    have := startsIdLink_expr l ([Tok.op o] ++ fmtToksOld r ++ rest) (by simp [isLinkTok])
    simpa [fmtToksOld, List.append_assoc] using this

/-- what may follow a statement-level expression: nothing that continues it -/
def Bnd (rest : List Tok) : Prop := stopsAt 0 rest = true ∧ isLinkTok rest = false

theorem fmtToks_of_canon (e : Expr) (h : canon e = true) : fmtToks e = fmtToksOld e := by
  have h1 := fmtToksP_eq e false
  have hm : mark false (canonize e) = canonize e := by cases canonize e <;> simp [mark]
  unfold fmtToks
  rw [h1, hm, canonize_of_canon e h]

/-! ### well-formed programs -/

def argWF : Arg → Bool
  | .expr e => canon e
  | .lambda e => canon e
  | .list _ => true

def argsWF : List Arg → Bool
  | [] => true
  | a :: rest => argWF a && argsWF rest

def linkWF (l : Link) : Bool :=
  match l.args with
  | none => l.op != .pipe
  | some as => argsWF as

def linksWF : List Link → Bool
  | [] => true
  | l :: rest => linkWF l && linksWF rest

def headWF : Expr → Bool
  | .id _ => true
  | .call _ args => canonAll args
  | _ => false

def rhsWF : Rhs → Bool
  | .arg a => argWF a
  | .chain h links => headWF h && !links.isEmpty && linksWF links

/-- a statement is well formed when its parts are and its first token cannot continue the statement before it -/
def stmtWF : Stmt → Bool
  | .decl _ rhs => rhsWF rhs
  | .typeDecl _ _ => true
  | .dbrp _ _ => true
  | .expr rhs => rhsWF rhs && stopsAt 0 (fmtRhs rhs) && !isLinkTok (fmtRhs rhs) && !startsVar (fmtRhs rhs) &&
      !startsDbrp (fmtRhs rhs)

def progWF : Program → Bool
  | [] => true
  | s :: rest => stmtWF s && progWF rest

/-! ### the pieces -/

theorem reads_items : ∀ (items : List Item) (rest : List Tok), ∃ N, ∀ f, N ≤ f →
    parseItems f (fmtItems items ++ .sym .rsb :: rest) = .ok (items, .sym .rsb :: rest)
  | [], rest => ⟨1, fun f hf => by
      obtain ⟨f, rfl⟩ : ∃ g, f = g + 1 := ⟨f - 1, by omega⟩
      simp [fmtItems, parseItems]⟩
  | [a], rest => ⟨1, fun f hf => by
      obtain ⟨f, rfl⟩ : ∃ g, f = g + 1 := ⟨f - 1, by omega⟩
      cases a <;> simp [fmtItems, fmtItem, parseItems]⟩
  | a :: b :: tl, rest => by
    obtain ⟨N, hN⟩ := reads_items (b :: tl) rest
    refine ⟨N + 1, fun f hf => ?_⟩
    obtain ⟨f, rfl⟩ : ∃ g, f = g + 1 := ⟨f - 1, by omega⟩
    have e1 := hN f (by omega)
    cases a <;> simp [fmtItems, fmtItem, parseItems, e1]

theorem starts_of_exprHead {ts : List Tok} (h : ∃ t r, ts = t :: r ∧ isExprHead t = true) :
    startsLambda ts = false ∧ startsLsb ts = false ∧ startsRp ts = false ∧ startsVar ts = false ∧
    startsDbrp ts = false ∧ isLinkTok ts = false := by
  obtain ⟨t, r, rfl, ht⟩ := h
  cases t <;> simp_all [isExprHead, startsLambda, startsLsb, startsRp, startsVar, startsDbrp, isLinkTok]

theorem reads_arg_expr (e : Expr) (hc : canon e = true) (rest : List Tok) (hb : Bnd rest) :
    ∃ N, ∀ f, N ≤ f → parseArg f (fmtToksOld e ++ rest) = .ok (.expr e, rest) := by
  obtain ⟨N, hN⟩ := (roundtrip_all (size e) e (Nat.le_refl _) hc).2.2 rest hb.1
  obtain ⟨s1, s2, _, _, _, _⟩ := starts_of_exprHead (fmtToksOld_head_kind e rest)
  have s3 := startsIdLink_expr e rest hb.2
  refine ⟨N, fun f hf => ?_⟩
  simp [parseArg, s1, s2, s3, hN f hf, hb.2]

theorem reads_arg (a : Arg) (h : argWF a = true) (rest : List Tok) (hb : Bnd rest) :
    ∃ N, ∀ f, N ≤ f → parseArg f (fmtArg a ++ rest) = .ok (a, rest) := by
  cases a with
  | expr e =>
    have hc : canon e = true := by simpa [argWF] using h
    simpa [fmtArg, fmtToks_of_canon e hc] using reads_arg_expr e hc rest hb
  | lambda e =>
    have hc : canon e = true := by simpa [argWF] using h
    obtain ⟨N, hN⟩ := (roundtrip_all (size e) e (Nat.le_refl _) hc).2.2 rest hb.1
    refine ⟨N, fun f hf => ?_⟩
    simp [fmtArg, fmtToks_of_canon e hc, parseArg, startsLambda, hN f hf]
  | list items =>
    obtain ⟨N, hN⟩ := reads_items items rest
    refine ⟨N, fun f hf => ?_⟩
    simp [fmtArg, parseArg, startsLambda, startsLsb, hN f hf]

theorem fmtArg_head (a : Arg) (h : argWF a = true) (rest : List Tok) : startsRp (fmtArg a ++ rest) = false := by
  cases a with
  | expr e =>
    have hc : canon e = true := by simpa [argWF] using h
    simpa [fmtArg, fmtToks_of_canon e hc] using (starts_of_exprHead (fmtToksOld_head_kind e rest)).2.2.1
  | lambda e => simp [fmtArg, startsRp]
  | list items => simp [fmtArg, startsRp]

theorem bnd_comma (r : List Tok) : Bnd (.comma :: r) := ⟨by simp [stopsAt], by simp [isLinkTok]⟩
theorem bnd_rp (r : List Tok) : Bnd (.rp :: r) := ⟨by simp [stopsAt], by simp [isLinkTok]⟩

theorem reads_arglist : ∀ (args : List Arg), argsWF args = true → ∀ rest, ∃ N, ∀ f, N ≤ f →
    parseArgs f (fmtArgList args ++ .rp :: rest) = .ok (args, .rp :: rest)
  | [], _, rest => ⟨1, fun f hf => by
      obtain ⟨f, rfl⟩ : ∃ g, f = g + 1 := ⟨f - 1, by omega⟩
      simp [fmtArgList, parseArgs, startsRp]⟩
  | [a], h, rest => by
    have ha : argWF a = true := by simpa [argsWF] using h
    obtain ⟨N, hN⟩ := reads_arg a ha (.rp :: rest) (bnd_rp rest)
    refine ⟨N + 1, fun f hf => ?_⟩
    obtain ⟨f, rfl⟩ : ∃ g, f = g + 1 := ⟨f - 1, by omega⟩
    simp [fmtArgList, parseArgs, fmtArg_head a ha, hN f (by omega)]
  | a :: b :: tl, h, rest => by
    simp only [argsWF, Bool.and_eq_true] at h
    obtain ⟨N1, h1⟩ := reads_arg a h.1 (.comma :: (fmtArgList (b :: tl) ++ .rp :: rest)) (bnd_comma _)
    obtain ⟨N2, h2⟩ := reads_arglist (b :: tl) (by simpa [argsWF] using h.2) rest
    refine ⟨max N1 N2 + 1, fun f hf => ?_⟩
    obtain ⟨f, rfl⟩ : ∃ g, f = g + 1 := ⟨f - 1, by omega⟩
    have e1 := h1 f (by omega)
    have e2 := h2 f (by omega)
    simp only [fmtArgList, List.append_assoc, List.cons_append, parseArgs, fmtArg_head a h.1, Bool.false_eq_true,
      if_false, e1, Res.bind_ok]
    simp [e2]

theorem linkOpOf_sym (op : LinkOp) : linkOpOf op.sym = some op := by cases op <;> rfl

theorem parseLinks_end (f : Nat) (rest : List Tok) (h : isLinkTok rest = false) :
    parseLinks (f + 1) rest = .ok ([], rest) := by
  cases rest with
  | nil => simp [parseLinks]
  | cons t r =>
    cases t with
    | sym s => cases s <;> simp_all [parseLinks, isLinkTok, linkOpOf]
    | _ => simp [parseLinks]

theorem reads_links : ∀ (links : List Link), linksWF links = true → ∀ rest, Bnd rest → ∃ N, ∀ f, N ≤ f →
    parseLinks f (fmtLinks links ++ rest) = .ok (links, rest)
  | [], _, rest, hb => ⟨1, fun f hf => by
      obtain ⟨f, rfl⟩ : ∃ g, f = g + 1 := ⟨f - 1, by omega⟩
      simpa [fmtLinks] using parseLinks_end f rest hb.2⟩
  | l :: tl, h, rest, hb => by
    simp only [linksWF, Bool.and_eq_true] at h
    obtain ⟨N2, h2⟩ := reads_links tl h.2 rest hb
    obtain ⟨op, name, args⟩ := l
    cases args with
    | none =>
      have hop : op ≠ .pipe := by simpa [linkWF] using h.1
      -- what follows the name is the next link or the boundary: never '('
      have hnl : startsLp (fmtLinks tl ++ rest) = false := by
        cases tl with
        | nil =>
          cases hr : rest with
          | nil => simp [fmtLinks, startsLp]
          | cons t r =>
            have := hb.1; rw [hr] at this
            cases t <;> simp_all [fmtLinks, startsLp, stopsAt]
        | cons l2 tl2 => simp [fmtLinks, fmtLink, startsLp]
      refine ⟨N2 + 1, fun f hf => ?_⟩
      obtain ⟨f, rfl⟩ : ∃ g, f = g + 1 := ⟨f - 1, by omega⟩
      have e2 := h2 f (by omega)
      simp [fmtLinks, fmtLink, parseLinks, linkOpOf_sym, hnl, hop, e2]
    | some as =>
      have has : argsWF as = true := by simpa [linkWF] using h.1
      obtain ⟨N1, h1⟩ := reads_arglist as has (fmtLinks tl ++ rest)
      refine ⟨max N1 N2 + 1, fun f hf => ?_⟩
      obtain ⟨f, rfl⟩ : ∃ g, f = g + 1 := ⟨f - 1, by omega⟩
      have e1 := h1 f (by omega)
      have e2 := h2 f (by omega)
      simp [fmtLinks, fmtLink, parseLinks, linkOpOf_sym, startsLp, List.append_assoc, e1, e2]

theorem outer_at_link (f : Nat) (lhs : Expr) (minP : Nat) (ts : List Tok) (h : isLinkTok ts = true) :
    outer (f + 1) lhs minP ts = .ok (lhs, ts) := by
  cases ts with
  | nil => simp [isLinkTok] at h
  | cons t r => cases t <;> simp_all [isLinkTok, outer]

theorem fmtLinks_isLink : ∀ (links : List Link) (rest : List Tok), links.isEmpty = false →
    isLinkTok (fmtLinks links ++ rest) = true
  | [], _, h => by simp at h
  | l :: tl, rest, _ => by
    obtain ⟨op, name, args⟩ := l
    cases op <;> simp [fmtLinks, fmtLink, LinkOp.sym, isLinkTok]

theorem reads_rhs (rhs : Rhs) (h : rhsWF rhs = true) (rest : List Tok) (hb : Bnd rest) :
    ∃ N, ∀ f, N ≤ f → parseRhs f (fmtRhs rhs ++ rest) = .ok (rhs, rest) := by
  cases rhs with
  | arg a =>
    have ha : argWF a = true := by simpa [rhsWF] using h
    cases a with
    | lambda e =>
      obtain ⟨N, hN⟩ := reads_arg (.lambda e) ha rest hb
      refine ⟨N, fun f hf => ?_⟩
      have := hN f hf
      simp only [fmtRhs]
      simp only [fmtArg, List.cons_append] at this ⊢
      simp [parseRhs, startsIdLink, startsCall, this]
    | list items =>
      obtain ⟨N, hN⟩ := reads_arg (.list items) ha rest hb
      refine ⟨N, fun f hf => ?_⟩
      have := hN f hf
      simp only [fmtRhs]
      simp only [fmtArg, List.cons_append, List.append_assoc, List.nil_append] at this ⊢
      simp [parseRhs, startsIdLink, startsCall, this]
    | expr e =>
      have hc : canon e = true := by simpa [argWF] using ha
      have s3 := startsIdLink_expr e rest hb.2
      simp only [fmtRhs, fmtArg, fmtToks_of_canon e hc]
      cases hsc : startsCall (fmtToksOld e ++ rest) with
      | false =>
        obtain ⟨N, hN⟩ := reads_arg_expr e hc rest hb
        refine ⟨N, fun f hf => ?_⟩
        simp [parseRhs, s3, hsc, hN f hf]
      | true =>
        obtain ⟨N, hN⟩ := (roundtrip_all (size e) e (Nat.le_refl _) hc).2.2 rest hb.1
        refine ⟨N + 2, fun f hf => ?_⟩
        have e1 := hN f (by omega)
        unfold primaryExpr at e1
        obtain ⟨x, hx, hy⟩ := Res.bind_eq_ok e1
        have hnl : isLinkTok x.2 = false := by
          cases hl : isLinkTok x.2 with
          | false => rfl
          | true =>
            obtain ⟨g, rfl⟩ : ∃ g, f = g + 1 := ⟨f - 1, by omega⟩
            rw [outer_at_link g x.1 0 x.2 hl] at hy
            simp at hy
            rw [hy.2] at hl
            rw [hb.2] at hl
            exact absurd hl (by simp)
        simp only [parseRhs, s3, hsc, Bool.false_eq_true, if_false, if_true]
        rw [hx]
        simp [hnl, hy]
  | chain hd links =>
    simp only [rhsWF, Bool.and_eq_true, Bool.not_eq_true'] at h
    obtain ⟨⟨hh, hne⟩, hl⟩ := h
    obtain ⟨N, hN⟩ := reads_links links hl rest hb
    have hlink := fmtLinks_isLink links rest hne
    cases hd with
    | id s =>
      refine ⟨N, fun f hf => ?_⟩
      have hft : fmtToks (.id s) = [.id s] := by simp [fmtToks, fmtToksP]
      simp [fmtRhs, hft, parseRhs, startsIdLink, hlink, hN f hf]
    | call s args =>
      have hc : canon (.call s args) = true := by simpa [headWF, canon] using hh
      have hnlp : ∀ tl, fmtLinks links ++ rest ≠ .lp :: tl := by
        intro tl heq
        rw [heq] at hlink
        simp [isLinkTok] at hlink
      obtain ⟨N1, h1⟩ := (roundtrip_all (size (.call s args)) _ (Nat.le_refl _) hc).1 rfl (fmtLinks links ++ rest) hnlp
      refine ⟨max N N1, fun f hf => ?_⟩
      have e1 := h1 f (by omega)
      have e2 := hN f (by omega)
      have hsc : startsCall (fmtToksOld (.call s args) ++ (fmtLinks links ++ rest)) = true := by
        simp [fmtToksOld, startsCall]
      have hsi : startsIdLink (fmtToksOld (.call s args) ++ (fmtLinks links ++ rest)) = false := by
        simp [fmtToksOld, startsIdLink, isLinkTok]
      simp only [fmtRhs, fmtToks_of_canon _ hc, List.append_assoc, parseRhs, hsi, hsc, Bool.false_eq_true, if_false,
        if_true, e1]
      simp [hlink, e2]
    | lit a => simp [headWF] at hh
    | un o e => simp [headWF] at hh
    | bin o l r p => simp [headWF] at hh

theorem head_append {a : List Tok} (b : List Tok) (h : a ≠ []) :
    stopsAt 0 (a ++ b) = stopsAt 0 a ∧ isLinkTok (a ++ b) = isLinkTok a ∧ startsVar (a ++ b) = startsVar a ∧
    startsDbrp (a ++ b) = startsDbrp a := by
  cases a with
  | nil => exact absurd rfl h
  | cons t r =>
    cases t with
    | sym s => cases s <;> simp [stopsAt, isLinkTok, startsVar, startsDbrp]
    | _ => simp [stopsAt, isLinkTok, startsVar, startsDbrp]

theorem fmtRhs_ne_nil (rhs : Rhs) (h : rhsWF rhs = true) : fmtRhs rhs ≠ [] := by
  cases rhs with
  | arg a =>
    cases a with
    | expr e =>
      have hc : canon e = true := by simpa [rhsWF, argWF] using h
      obtain ⟨t, r, he, _⟩ := fmtToksOld_head_kind e []
      simp only [fmtRhs, fmtArg, fmtToks_of_canon e hc]
      intro hn; rw [hn] at he; simp at he
    | lambda e => simp [fmtRhs, fmtArg]
    | list items => simp [fmtRhs, fmtArg]
  | chain hd links =>
    simp only [rhsWF, Bool.and_eq_true, Bool.not_eq_true'] at h
    have := fmtLinks_isLink links [] h.1.2
    intro hn
    simp only [fmtRhs, List.append_eq_nil_iff] at hn
    rw [List.append_nil, hn.2] at this
    simp [isLinkTok] at this

theorem reads_stmt (s : Stmt) (h : stmtWF s = true) (rest : List Tok) (hb : Bnd rest) :
    ∃ N, ∀ f, N ≤ f → parseStmt f (fmtStmt s ++ rest) = .ok (s, rest) := by
  cases s with
  | decl x rhs =>
    obtain ⟨N, hN⟩ := reads_rhs rhs (by simpa [stmtWF] using h) rest hb
    refine ⟨N, fun f hf => ?_⟩
    simp [fmtStmt, parseStmt, startsVar, hN f hf]
  | typeDecl x t => exact ⟨0, fun f _ => by simp [fmtStmt, parseStmt, startsVar]⟩
  | dbrp a b => exact ⟨0, fun f _ => by simp [fmtStmt, parseStmt, startsVar, startsDbrp]⟩
  | expr rhs =>
    simp only [stmtWF, Bool.and_eq_true, Bool.not_eq_true'] at h
    obtain ⟨⟨⟨⟨hr, _⟩, _⟩, hv⟩, hd⟩ := h
    obtain ⟨N, hN⟩ := reads_rhs rhs hr rest hb
    obtain ⟨_, _, a3, a4⟩ := head_append rest (fmtRhs_ne_nil rhs hr)
    refine ⟨N, fun f hf => ?_⟩
    simp [fmtStmt, parseStmt, a3, a4, hv, hd, hN f hf]

theorem fmtStmt_ne_nil (s : Stmt) (h : stmtWF s = true) : fmtStmt s ≠ [] := by
  cases s with
  | decl x rhs => simp [fmtStmt]
  | typeDecl x t => simp [fmtStmt]
  | dbrp a b => simp [fmtStmt]
  | expr rhs =>
    simp only [stmtWF, Bool.and_eq_true] at h
    simpa [fmtStmt] using fmtRhs_ne_nil rhs h.1.1.1.1

theorem bnd_program : ∀ (p : Program), progWF p = true → Bnd (fmtProgram p)
  | [], _ => ⟨rfl, rfl⟩
  | s :: rest, h => by
    simp only [progWF, Bool.and_eq_true] at h
    have hne := fmtStmt_ne_nil s h.1
    obtain ⟨a1, a2, _, _⟩ := head_append (fmtProgram rest) hne
    simp only [fmtProgram, Bnd, a1, a2]
    cases s with
    | decl x rhs => simp [fmtStmt, stopsAt, isLinkTok]
    | typeDecl x t => simp [fmtStmt, stopsAt, isLinkTok]
    | dbrp a b => simp [fmtStmt, stopsAt, isLinkTok]
    | expr rhs =>
      have := h.1
      simp only [stmtWF, Bool.and_eq_true, Bool.not_eq_true'] at this
      simp [fmtStmt, this.1.1.1.2, this.1.1.2]

/-- `program()` reads a formatted well-formed program back, statement by statement -/
theorem reads_program : ∀ (p : Program), progWF p = true → ∃ N, ∀ f, N ≤ f → parseStmts f (fmtProgram p) = .ok p
  | [], _ => ⟨1, fun f hf => by
      obtain ⟨f, rfl⟩ : ∃ g, f = g + 1 := ⟨f - 1, by omega⟩
      simp [fmtProgram, parseStmts]⟩
  | s :: rest, h => by
    have h' := h
    simp only [progWF, Bool.and_eq_true] at h'
    obtain ⟨N1, h1⟩ := reads_stmt s h'.1 (fmtProgram rest) (bnd_program rest h'.2)
    obtain ⟨N2, h2⟩ := reads_program rest h'.2
    have hne := fmtStmt_ne_nil s h'.1
    refine ⟨max N1 N2 + 1, fun f hf => ?_⟩
    obtain ⟨f, rfl⟩ : ∃ g, f = g + 1 := ⟨f - 1, by omega⟩
    have e1 := h1 f (by omega)
    have e2 := h2 f (by omega)
    have hemp : (fmtStmt s ++ fmtProgram rest).isEmpty = false := by
      cases hs : fmtStmt s with
      | nil => exact absurd hs hne
      | cons t r => simp
    simp [fmtProgram, parseStmts, hemp, e1, e2]

end Kap.C13
