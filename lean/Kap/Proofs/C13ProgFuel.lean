/-
C13, statement level: the fixed fuel `2·|ts| + 6` of `parseProgramToks` always suffices. Every parser of the
statement level returns a suffix of its input (strictly shorter where it must consume a token), and from a
fuel linear in the input length on, one more unit of fuel changes nothing (whatever the answer is: a value,
an error, or one of the genuine "not covered" answers). So an answer found with every sufficiently large
fuel is the answer of `parseProgramToks`.
-/
import Kap.Proofs.C13Mono
import Kap.Proofs.C13Prog

namespace Kap.C13
open Kap.C13.Gen

/-! ### one-step unfoldings of the recursive parsers -/

theorem parseItems_succ (f : Nat) (ts : List Tok) :
    parseItems (f + 1) ts =
      (match ts with
       | .sym .rsb :: _ => .ok ([], ts)
       | _ =>
         (match ts with
          | .id s :: r => (.ok (.id s, r) : Res (Item × List Tok))
          | .lit (.str l t) :: r => .ok (.str l t, r)
          | .lit .star :: r => .ok (.star, r)
          | _ => .err).bind (fun x =>
            match x.2 with
            | .comma :: r => (parseItems f r).bind (fun y => .ok (x.1 :: y.1, y.2))
            | r => .ok ([x.1], r))) := by
  rfl

theorem parseArgs_succ (f : Nat) (ts : List Tok) :
    parseArgs (f + 1) ts =
      if startsRp ts then .ok ([], ts) else
      (parseArg f ts).bind (fun x =>
        match x.2 with
        | .comma :: r => (parseArgs f r).bind (fun y => .ok (x.1 :: y.1, y.2))
        | r => .ok ([x.1], r)) := by
  rfl

theorem parseLinks_succ (f : Nat) (ts : List Tok) :
    parseLinks (f + 1) ts =
      (match ts with
       | .sym s :: r =>
         match linkOpOf s with
         | none => .ok ([], ts)
         | some op =>
           match r with
           | .id n :: r2 =>
             if startsLp r2 then
               (parseArgs f (r2.drop 1)).bind (fun x =>
                 match x.2 with
                 | .rp :: r' => (parseLinks f r').bind (fun y => .ok ({ op := op, name := n, args := some x.1 } :: y.1, y.2))
                 | _ => .err)
             else if op = .pipe then .err
             else (parseLinks f r2).bind (fun y => .ok ({ op := op, name := n, args := none } :: y.1, y.2))
           | _ => .err
       | _ => .ok ([], ts)) := by
  rfl

theorem parseStmts_succ (f : Nat) (ts : List Tok) :
    parseStmts (f + 1) ts =
      if ts.isEmpty then .ok [] else
      (parseStmt f ts).bind (fun x => (parseStmts f x.2).bind (fun y => .ok (x.1 :: y))) := by
  rfl

/-! ### expression level -/

theorem primaryExpr_len {f : Nat} {ts : List Tok} {e : Expr} {rest : List Tok}
    (h : primaryExpr f ts = .ok (e, rest)) : rest.length < ts.length := by
  obtain ⟨lP, lO, _, _⟩ := len_specs f
  unfold primaryExpr at h
  obtain ⟨x, hx, h⟩ := Res.bind_eq_ok h
  have l1 := lP _ _ _ (by rw [hx])
  have l2 := (lO _ _ _ _ _ h).1
  omega

theorem primary_stable (f : Nat) (ts : List Tok) (h : 2 * ts.length + 1 ≤ f) :
    primary (f + 1) ts = primary f ts :=
  (mono_specs f).1 ts ((na_specs f).1 ts h)

theorem outer_stable (f : Nat) (lhs : Expr) (minP : Nat) (ts : List Tok) (h : 2 * ts.length + 1 ≤ f) :
    outer (f + 1) lhs minP ts = outer f lhs minP ts :=
  (mono_specs f).2.1 lhs minP ts ((na_specs f).2.1 lhs minP ts h)

theorem primaryExpr_stable (f : Nat) (ts : List Tok) (h : 2 * ts.length + 1 ≤ f) :
    primaryExpr (f + 1) ts = primaryExpr f ts := by
  unfold primaryExpr
  refine Res.bind_congr' (primary_stable f ts h) ?_
  intro x hx
  have l1 := (len_specs f).1 _ _ _ (by rw [hx])
  exact outer_stable f _ _ _ (by omega)

/-! ### lengths, statement level -/

theorem parseItems_len : ∀ (f : Nat) (ts : List Tok) (x : List Item) (rest : List Tok),
    parseItems f ts = .ok (x, rest) → rest.length ≤ ts.length
  | 0, ts, x, rest, h => by simp [parseItems] at h
  | f + 1, ts, x, rest, h => by
    rw [parseItems_succ] at h
    split at h
    · simp at h; simp [← h.2]
    · obtain ⟨a, ha, h⟩ := Res.bind_eq_ok h
      have l1 : a.2.length < ts.length := by
        split at ha <;> simp at ha
        all_goals (subst ha; simp)
      split at h
      · rename_i r heq
        obtain ⟨y, hy, h⟩ := Res.bind_eq_ok h
        have l2 := parseItems_len f r y.1 y.2 (by rw [hy])
        simp at h
        rw [heq] at l1
        simp at l1
        rw [← h.2]
        omega
      · simp at h
        rw [← h.2]
        omega

theorem parseArg_len {f : Nat} {ts : List Tok} {a : Arg} {rest : List Tok}
    (h : parseArg f ts = .ok (a, rest)) : rest.length < ts.length := by
  unfold parseArg at h
  split at h
  · obtain ⟨x, hx, h⟩ := Res.bind_eq_ok h
    have l1 := primaryExpr_len (e := x.1) (rest := x.2) (by rw [hx])
    simp at h l1
    rw [← h.2]
    omega
  · split at h
    · obtain ⟨x, hx, h⟩ := Res.bind_eq_ok h
      have l1 := parseItems_len f _ x.1 x.2 (by rw [hx])
      simp at l1
      split at h
      · rename_i r' heq
        simp at h
        rw [heq] at l1
        simp at l1
        rw [← h.2]
        omega
      · simp at h
    · split at h
      · simp at h
      · split at h
        · rename_i e r heq
          have l1 := primaryExpr_len heq
          split at h
          · simp at h
          · simp at h
            rw [← h.2]
            exact l1
        · split at h <;> simp at h
        · simp at h

theorem parseArgs_len : ∀ (f : Nat) (ts : List Tok) (x : List Arg) (rest : List Tok),
    parseArgs f ts = .ok (x, rest) → rest.length ≤ ts.length
  | 0, ts, x, rest, h => by simp [parseArgs] at h
  | f + 1, ts, x, rest, h => by
    rw [parseArgs_succ] at h
    split at h
    · simp at h; simp [← h.2]
    · obtain ⟨a, ha, h⟩ := Res.bind_eq_ok h
      have l1 := parseArg_len (a := a.1) (rest := a.2) (by rw [ha])
      split at h
      · rename_i r heq
        obtain ⟨y, hy, h⟩ := Res.bind_eq_ok h
        have l2 := parseArgs_len f r y.1 y.2 (by rw [hy])
        simp at h
        rw [heq] at l1
        simp at l1
        rw [← h.2]
        omega
      · simp at h
        rw [← h.2]
        omega

theorem parseLinks_len : ∀ (f : Nat) (ts : List Tok) (x : List Link) (rest : List Tok),
    parseLinks f ts = .ok (x, rest) → rest.length ≤ ts.length
  | 0, ts, x, rest, h => by simp [parseLinks] at h
  | f + 1, ts, x, rest, h => by
    rw [parseLinks_succ] at h
    split at h
    · rename_i s r
      split at h
      · simp at h; simp [← h.2]
      · rename_i op hop
        split at h
        · rename_i n r2
          split at h
          · obtain ⟨a, ha, h⟩ := Res.bind_eq_ok h
            have l1 := parseArgs_len f _ a.1 a.2 (by rw [ha])
            simp at l1
            split at h
            · rename_i r' heq
              obtain ⟨y, hy, h⟩ := Res.bind_eq_ok h
              have l2 := parseLinks_len f r' y.1 y.2 (by rw [hy])
              simp at h
              rw [heq] at l1
              simp at l1
              rw [← h.2]
              simp
              omega
            · simp at h
          · split at h
            · simp at h
            · obtain ⟨y, hy, h⟩ := Res.bind_eq_ok h
              have l2 := parseLinks_len f r2 y.1 y.2 (by rw [hy])
              simp at h
              rw [← h.2]
              simp
              omega
        · simp at h
    · simp at h; simp [← h.2]

theorem parseRhs_len {f : Nat} {ts : List Tok} {a : Rhs} {rest : List Tok}
    (h : parseRhs f ts = .ok (a, rest)) : rest.length < ts.length := by
  unfold parseRhs at h
  split at h
  · split at h
    · rename_i s r _
      obtain ⟨y, hy, h⟩ := Res.bind_eq_ok h
      have l2 := parseLinks_len f r y.1 y.2 (by rw [hy])
      simp at h
      rw [← h.2]
      simp
      omega
    · simp at h
  · split at h
    · split at h
      · rename_i hd r heq
        have l1 := (len_specs f).1 _ _ _ heq
        split at h
        · obtain ⟨y, hy, h⟩ := Res.bind_eq_ok h
          have l2 := parseLinks_len f r y.1 y.2 (by rw [hy])
          simp at h
          rw [← h.2]
          omega
        · obtain ⟨y, hy, h⟩ := Res.bind_eq_ok h
          have l2 := ((len_specs f).2.1 _ _ _ y.1 y.2 (by rw [hy])).1
          simp at h
          rw [← h.2]
          omega
      · simp at h
      · simp at h
    · obtain ⟨y, hy, h⟩ := Res.bind_eq_ok h
      have l2 := parseArg_len (a := y.1) (rest := y.2) (by rw [hy])
      simp at h
      rw [← h.2]
      exact l2

theorem parseStmt_len {f : Nat} {ts : List Tok} {s : Stmt} {rest : List Tok}
    (h : parseStmt f ts = .ok (s, rest)) : rest.length < ts.length := by
  unfold parseStmt at h
  split at h
  · split at h
    · obtain ⟨y, hy, h⟩ := Res.bind_eq_ok h
      have l2 := parseRhs_len (a := y.1) (rest := y.2) (by rw [hy])
      simp at h
      rw [← h.2]
      simp only [List.length_cons]
      omega
    · simp at h
      obtain ⟨_, rfl⟩ := h
      simp only [List.length_cons]
      omega
    · simp at h
  · split at h
    · split at h
      · simp at h
        obtain ⟨_, rfl⟩ := h
        simp only [List.length_cons]
        omega
      · simp at h
    · obtain ⟨y, hy, h⟩ := Res.bind_eq_ok h
      have l2 := parseRhs_len (a := y.1) (rest := y.2) (by rw [hy])
      simp at h
      rw [← h.2]
      exact l2

/-! ### one more unit of fuel changes nothing, statement level -/

theorem parseItems_step : ∀ (f : Nat) (ts : List Tok), ts.length + 1 ≤ f →
    parseItems (f + 1) ts = parseItems f ts
  | 0, ts, h => by omega
  | g + 1, ts, h => by
    rw [parseItems_succ (g + 1), parseItems_succ g]
    split
    · rfl
    · refine Res.bind_congr' rfl ?_
      intro a ha
      have l1 : a.2.length < ts.length := by
        split at ha <;> simp at ha
        all_goals (subst ha; simp)
      split
      · rename_i r heq
        rw [heq] at l1
        simp at l1
        exact Res.bind_congr' (parseItems_step g r (by omega)) (fun _ _ => rfl)
      · rfl

theorem parseArg_step (f : Nat) (ts : List Tok) (h : 2 * ts.length + 1 ≤ f) :
    parseArg (f + 1) ts = parseArg f ts := by
  have e1 : primaryExpr (f + 1) (ts.drop 1) = primaryExpr f (ts.drop 1) :=
    primaryExpr_stable f _ (by simp; omega)
  have e2 : parseItems (f + 1) (ts.drop 1) = parseItems f (ts.drop 1) :=
    parseItems_step f _ (by simp; omega)
  have e3 := primaryExpr_stable f ts h
  unfold parseArg
  rw [e1, e2, e3]

theorem parseArgs_step : ∀ (f : Nat) (ts : List Tok), 2 * ts.length + 2 ≤ f →
    parseArgs (f + 1) ts = parseArgs f ts
  | 0, ts, h => by omega
  | g + 1, ts, h => by
    rw [parseArgs_succ (g + 1), parseArgs_succ g]
    split
    · rfl
    · refine Res.bind_congr' (parseArg_step g ts (by omega)) ?_
      intro a ha
      have l1 := parseArg_len (a := a.1) (rest := a.2) (by rw [ha])
      split
      · rename_i r heq
        rw [heq] at l1
        simp at l1
        exact Res.bind_congr' (parseArgs_step g r (by omega)) (fun _ _ => rfl)
      · rfl

theorem parseLinks_step : ∀ (f : Nat) (ts : List Tok), 2 * ts.length + 2 ≤ f →
    parseLinks (f + 1) ts = parseLinks f ts
  | 0, ts, h => by omega
  | g + 1, ts, h => by
    rw [parseLinks_succ (g + 1), parseLinks_succ g]
    split
    · split
      · rfl
      · split
        · rename_i n r2
          simp only [List.length_cons] at h
          split
          · refine Res.bind_congr' (parseArgs_step g _ (by simp; omega)) ?_
            intro a ha
            have l1 := parseArgs_len g _ a.1 a.2 (by rw [ha])
            simp at l1
            split
            · rename_i r' heq
              rw [heq] at l1
              simp at l1
              exact Res.bind_congr' (parseLinks_step g r' (by omega)) (fun _ _ => rfl)
            · rfl
          · split
            · rfl
            · exact Res.bind_congr' (parseLinks_step g r2 (by omega)) (fun _ _ => rfl)
        · rfl
    · rfl

theorem parseRhs_step (f : Nat) (ts : List Tok) (h : 2 * ts.length + 1 ≤ f) :
    parseRhs (f + 1) ts = parseRhs f ts := by
  unfold parseRhs
  rw [primary_stable f ts h, parseArg_step f ts h]
  split
  · split
    · rename_i s r _
      simp only [List.length_cons] at h
      rw [parseLinks_step f r (by omega)]
    · rfl
  · split
    · split
      · rename_i hd r heq
        have l1 := (len_specs f).1 _ _ _ heq
        rw [parseLinks_step f r (by omega), outer_stable f hd 0 r (by omega)]
      · rfl
      · rfl
    · rfl

theorem parseStmt_step (f : Nat) (ts : List Tok) (h : 2 * ts.length + 1 ≤ f) :
    parseStmt (f + 1) ts = parseStmt f ts := by
  unfold parseStmt
  rw [parseRhs_step f ts h]
  split
  · split
    · rename_i x r _
      simp only [List.length_cons] at h
      rw [parseRhs_step f r (by omega)]
    · rfl
    · rfl
  · rfl

theorem parseStmts_step : ∀ (f : Nat) (ts : List Tok), 2 * ts.length + 2 ≤ f →
    parseStmts (f + 1) ts = parseStmts f ts
  | 0, ts, h => by omega
  | g + 1, ts, h => by
    rw [parseStmts_succ (g + 1), parseStmts_succ g]
    split
    · rfl
    · refine Res.bind_congr' (parseStmt_step g ts (by omega)) ?_
      intro a ha
      have l1 := parseStmt_len (s := a.1) (rest := a.2) (by rw [ha])
      exact Res.bind_congr' (parseStmts_step g a.2 (by omega)) (fun _ _ => rfl)

/-! ### the fixed fuel of `parseProgramToks` -/

/-- more fuel than `2·|ts| + 6` never changes the answer of `parseStmts` (value, error or "not covered") -/
theorem parseStmts_stable (ts : List Tok) :
    ∀ k, parseStmts (2 * ts.length + 6 + k) ts = parseStmts (2 * ts.length + 6) ts
  | 0 => rfl
  | k + 1 => by
    rw [← Nat.add_assoc, parseStmts_step (2 * ts.length + 6 + k) ts (by omega)]
    exact parseStmts_stable ts k

/-- an answer found with every sufficiently large fuel is the answer of `parseProgramToks`
(fixed fuel 2·|ts| + 6) -/
theorem parseProgramToks_of_eventually (ts : List Tok) (p : Program)
    (h : ∃ N, ∀ f, N ≤ f → parseStmts f ts = .ok p) : parseProgramToks ts = .ok p := by
  obtain ⟨N, hN⟩ := h
  have h2 := hN (2 * ts.length + 6 + N) (by omega)
  rw [parseStmts_stable ts N] at h2
  exact h2

end Kap.C13
