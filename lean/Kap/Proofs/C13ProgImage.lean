/-
C13, statement level: the image of `parseStmts` (= program()). Everything the statement-level parser returns is
well formed in every respect that concerns ONE statement (canonical expressions, chain heads, non-empty chains,
`|` links with parentheses); the only part of `progWF` that is NOT an invariant of the parser is the separation
of an expression statement from the statement before it, because Format drops the parentheses around a
non-binary operand: `var x = (a)  (b + c)` is printed `var x = a (b + c)` = a call, `var x = 1  (-a)` is printed
`var x = 1 -a` = a subtraction. `sepOK` is that remaining condition, as a decidable predicate on the program.
-/
import Kap.Proofs.C13Prog

namespace Kap.C13
open Kap.C13.Gen

/-! ### expression level: what `primaryExpr` / `primary` return -/

theorem primaryExpr_canon (f : Nat) (ts : List Tok) (e : Expr) (rest : List Tok)
    (h : primaryExpr f ts = .ok (e, rest)) : canon e = true := by
  obtain ⟨hP, hO, _, _⟩ := image_specs f
  obtain ⟨x, hx, h⟩ := Res.bind_eq_ok h
  obtain ⟨cx, bx⟩ := hP _ _ _ (by rw [hx])
  exact (hO _ _ _ _ _ h cx (fun _ _ _ => okQ_of_not_bare bx _)).1

theorem outer_canon (f : Nat) (lhs : Expr) (ts : List Tok) (e : Expr) (rest : List Tok)
    (h : outer f lhs 0 ts = .ok (e, rest)) (hc : canon lhs = true) (hb : isBare lhs = false) : canon e = true := by
  obtain ⟨_, hO, _, _⟩ := image_specs f
  exact (hO _ _ _ _ _ h hc (fun _ _ _ => okQ_of_not_bare hb _)).1

/-- `primary` at `name (` returns a call -/
theorem primary_call (f : Nat) (ts : List Tok) (h : startsCall ts = true) (e : Expr) (rest : List Tok)
    (hp : primary f ts = .ok (e, rest)) : headWF e = true ∧ isBare e = false ∧ canon e = true := by
  obtain ⟨hP, _, _, _⟩ := image_specs f
  obtain ⟨ce, be⟩ := hP _ _ _ hp
  refine ⟨?_, be, ce⟩
  match ts, h with
  | .id s :: .lp :: ts', _ =>
    cases f with
    | zero => simp [primary] at hp
    | succ f =>
      simp only [primary] at hp
      obtain ⟨x, _, hp⟩ := Res.bind_eq_ok hp
      obtain ⟨he, _⟩ := expectRp_ok hp
      subst he
      simpa [headWF, canon] using ce

/-! ### statement level -/

def ArgSpec (f : Nat) : Prop := ∀ ts a rest, parseArg f ts = .ok (a, rest) → argWF a = true
def ArgsSpec (f : Nat) : Prop := ∀ ts as rest, parseArgs f ts = .ok (as, rest) → argsWF as = true
def LinksSpec (f : Nat) : Prop := ∀ ts ls rest, parseLinks f ts = .ok (ls, rest) →
  linksWF ls = true ∧ (isLinkTok ts = true → ls.isEmpty = false)

theorem argSpec (f : Nat) : ArgSpec f := by
  intro ts a rest h
  unfold parseArg at h
  split at h
  · obtain ⟨x, hx, h⟩ := Res.bind_eq_ok h
    simp at h
    obtain ⟨rfl, _⟩ := h
    simpa [argWF] using primaryExpr_canon f _ x.1 x.2 (by rw [hx])
  · split at h
    · obtain ⟨x, _, h⟩ := Res.bind_eq_ok h
      split at h
      · simp at h; obtain ⟨rfl, _⟩ := h; rfl
      · simp at h
    · split at h
      · simp at h
      · split at h
        · rename_i e r heq
          split at h
          · simp at h
          · simp at h
            obtain ⟨rfl, _⟩ := h
            simpa [argWF] using primaryExpr_canon f _ e r heq
        · split at h <;> simp at h
        · simp at h

theorem argsSpec : ∀ f, ArgsSpec f
  | 0 => by intro ts as rest h; simp [parseArgs] at h
  | f + 1 => by
    intro ts as rest h
    simp only [parseArgs] at h
    split at h
    · simp at h; obtain ⟨rfl, _⟩ := h; rfl
    · obtain ⟨x, hx, h⟩ := Res.bind_eq_ok h
      have ha := argSpec f _ _ _ (by rw [hx])
      split at h
      · obtain ⟨y, hy, h⟩ := Res.bind_eq_ok h
        simp at h
        obtain ⟨rfl, _⟩ := h
        have := argsSpec f _ _ _ (by rw [hy])
        simp [argsWF, ha, this]
      · simp at h
        obtain ⟨rfl, _⟩ := h
        simp [argsWF, ha]

theorem linksSpec : ∀ f, LinksSpec f
  | 0 => by intro ts ls rest h; simp [parseLinks] at h
  | f + 1 => by
    intro ts ls rest h
    have ihL := linksSpec f
    cases ts with
    | nil => simp [parseLinks] at h; obtain ⟨rfl, _⟩ := h; simp [linksWF, isLinkTok]
    | cons t r =>
      cases t with
      | sym s =>
        cases hop : linkOpOf s with
        | none =>
          simp [parseLinks, hop] at h
          obtain ⟨rfl, _⟩ := h
          refine ⟨rfl, ?_⟩
          cases s <;> simp_all [isLinkTok, linkOpOf]
        | some op =>
          cases r with
          | nil => simp [parseLinks, hop] at h
          | cons t2 r2 =>
            cases t2 with
            | id n =>
              simp only [parseLinks, hop] at h
              split at h
              · obtain ⟨x, hx, h⟩ := Res.bind_eq_ok h
                have hargs := argsSpec f _ _ _ (by rw [hx])
                split at h
                · obtain ⟨y, hy, h⟩ := Res.bind_eq_ok h
                  simp at h
                  obtain ⟨rfl, _⟩ := h
                  have := (ihL _ _ _ (by rw [hy])).1
                  exact ⟨by simp [linksWF, linkWF, hargs, this], fun _ => by simp⟩
                · simp at h
              · split at h
                · simp at h
                · rename_i hnp
                  obtain ⟨y, hy, h⟩ := Res.bind_eq_ok h
                  simp at h
                  obtain ⟨rfl, _⟩ := h
                  have := (ihL _ _ _ (by rw [hy])).1
                  exact ⟨by simp [linksWF, linkWF, hnp, this], fun _ => by simp⟩
            | _ => simp [parseLinks, hop] at h
      | _ => simp [parseLinks] at h; obtain ⟨rfl, _⟩ := h; simp [linksWF, isLinkTok]

theorem startsIdLink_inv {ts : List Tok} (h : startsIdLink ts = true) : ∃ s r, ts = .id s :: r ∧ isLinkTok r = true := by
  cases ts with
  | nil => simp [startsIdLink] at h
  | cons t r =>
    cases t with
    | id s => exact ⟨s, r, rfl, by simpa [startsIdLink] using h⟩
    | _ => simp [startsIdLink] at h

theorem rhsSpec (f : Nat) (ts : List Tok) (rhs : Rhs) (rest : List Tok)
    (h : parseRhs f ts = .ok (rhs, rest)) : rhsWF rhs = true := by
  unfold parseRhs at h
  split at h
  · rename_i hsl
    obtain ⟨s, r, rfl, hl⟩ := startsIdLink_inv hsl
    simp only at h
    obtain ⟨y, hy, h⟩ := Res.bind_eq_ok h
    simp at h
    obtain ⟨rfl, _⟩ := h
    obtain ⟨l1, l2⟩ := linksSpec f _ _ _ (by rw [hy])
    simp [rhsWF, headWF, l1, l2 hl]
  · split at h
    · rename_i hsc
      split at h
      · rename_i hd r hp
        obtain ⟨h1, h2, h3⟩ := primary_call f ts hsc hd r hp
        split at h
        · rename_i hl
          obtain ⟨y, hy, h⟩ := Res.bind_eq_ok h
          simp at h
          obtain ⟨rfl, _⟩ := h
          obtain ⟨l1, l2⟩ := linksSpec f _ _ _ (by rw [hy])
          simp [rhsWF, h1, l1, l2 hl]
        · obtain ⟨y, hy, h⟩ := Res.bind_eq_ok h
          simp at h
          obtain ⟨rfl, _⟩ := h
          have := outer_canon f hd r y.1 y.2 (by rw [hy]) h3 h2
          simpa [rhsWF, argWF] using this
      · simp at h
      · simp at h
    · obtain ⟨y, hy, h⟩ := Res.bind_eq_ok h
      simp at h
      obtain ⟨rfl, _⟩ := h
      simpa [rhsWF] using argSpec f _ _ _ (by rw [hy])

/-- the part of `stmtWF` that concerns the statement alone -/
def stmtCoreWF : Stmt → Bool
  | .decl _ rhs => rhsWF rhs
  | .expr rhs => rhsWF rhs
  | _ => true

def progCoreWF : Program → Bool
  | [] => true
  | s :: rest => stmtCoreWF s && progCoreWF rest

theorem stmtSpec (f : Nat) (ts : List Tok) (s : Stmt) (rest : List Tok)
    (h : parseStmt f ts = .ok (s, rest)) : stmtCoreWF s = true := by
  unfold parseStmt at h
  split at h
  · split at h
    · obtain ⟨y, hy, h⟩ := Res.bind_eq_ok h
      simp at h
      obtain ⟨rfl, _⟩ := h
      simpa [stmtCoreWF] using rhsSpec f _ _ _ (by rw [hy])
    · simp at h; obtain ⟨rfl, _⟩ := h; rfl
    · simp at h
  · split at h
    · split at h
      · simp at h; obtain ⟨rfl, _⟩ := h; rfl
      · simp at h
    · obtain ⟨y, hy, h⟩ := Res.bind_eq_ok h
      simp at h
      obtain ⟨rfl, _⟩ := h
      simpa [stmtCoreWF] using rhsSpec f _ _ _ (by rw [hy])

/-- everything `program()` returns is well formed statement by statement -/
theorem progSpec : ∀ (f : Nat) (ts : List Tok) (p : Program), parseStmts f ts = .ok p → progCoreWF p = true
  | 0, ts, p, h => by simp [parseStmts] at h
  | f + 1, ts, p, h => by
    simp only [parseStmts] at h
    split at h
    · simp at h; subst h; rfl
    · obtain ⟨x, hx, h⟩ := Res.bind_eq_ok h
      obtain ⟨y, hy, h⟩ := Res.bind_eq_ok h
      simp at h
      subst h
      have h1 := stmtSpec f _ _ _ (by rw [hx])
      have h2 := progSpec f _ _ hy
      simp [progCoreWF, h1, h2]

/-! ### the first token of a formatted right-hand side -/

theorem fmtRhs_head (rhs : Rhs) (h : rhsWF rhs = true) :
    isLinkTok (fmtRhs rhs) = false ∧ startsVar (fmtRhs rhs) = false ∧ startsDbrp (fmtRhs rhs) = false := by
  cases rhs with
  | arg a =>
    cases a with
    | expr e =>
      have hc : canon e = true := by simpa [rhsWF, argWF] using h
      obtain ⟨_, _, _, a4, a5, a6⟩ := starts_of_exprHead (fmtToksOld_head_kind e [])
      simp only [List.append_nil] at a4 a5 a6
      simp [fmtRhs, fmtArg, fmtToks_of_canon e hc, a4, a5, a6]
    | lambda e => simp [fmtRhs, fmtArg, isLinkTok, startsVar, startsDbrp]
    | list items => simp [fmtRhs, fmtArg, isLinkTok, startsVar, startsDbrp]
  | chain hd links =>
    simp only [rhsWF, Bool.and_eq_true] at h
    cases hd with
    | id s => simp [fmtRhs, fmtToks, fmtToksP, isLinkTok, startsVar, startsDbrp]
    | call s args => simp [fmtRhs, fmtToks, fmtToksP, isLinkTok, startsVar, startsDbrp]
    | lit a => simp [headWF] at h
    | un o e => simp [headWF] at h
    | bin o l r p => simp [headWF] at h

/-! ### separation -/

/-- the first token of an expression statement, as printed, is neither `(` nor an operator (`-`): it cannot be
glued to the statement before it. Declarations, typed vars and dbrp statements start with a keyword. -/
def stmtSep : Stmt → Bool
  | .expr rhs => stopsAt 0 (fmtRhs rhs)
  | _ => true

def sepOK : Program → Bool
  | [] => true
  | s :: rest => stmtSep s && sepOK rest

theorem progWF_of_core : ∀ (p : Program), progCoreWF p = true → sepOK p = true → progWF p = true
  | [], _, _ => rfl
  | s :: rest, hc, hs => by
    simp only [progCoreWF, sepOK, Bool.and_eq_true] at hc hs
    have ih := progWF_of_core rest hc.2 hs.2
    cases s with
    | decl x rhs => simpa [progWF, stmtWF, ih, stmtCoreWF] using hc.1
    | typeDecl x t => simp [progWF, stmtWF, ih]
    | dbrp a b => simp [progWF, stmtWF, ih]
    | expr rhs =>
      have hr : rhsWF rhs = true := by simpa [stmtCoreWF] using hc.1
      obtain ⟨a1, a2, a3⟩ := fmtRhs_head rhs hr
      have hsep : stopsAt 0 (fmtRhs rhs) = true := by simpa [stmtSep] using hs.1
      simp [progWF, stmtWF, ih, hr, a1, a2, a3, hsep]

theorem progWF_core_sep : ∀ (p : Program), progWF p = true → progCoreWF p = true ∧ sepOK p = true
  | [], _ => ⟨rfl, rfl⟩
  | s :: rest, h => by
    simp only [progWF, Bool.and_eq_true] at h
    obtain ⟨i1, i2⟩ := progWF_core_sep rest h.2
    cases s with
    | decl x rhs => exact ⟨by simpa [progCoreWF, stmtCoreWF, i1, stmtWF] using h.1, by simp [sepOK, stmtSep, i2]⟩
    | typeDecl x t => exact ⟨by simp [progCoreWF, stmtCoreWF, i1], by simp [sepOK, stmtSep, i2]⟩
    | dbrp a b => exact ⟨by simp [progCoreWF, stmtCoreWF, i1], by simp [sepOK, stmtSep, i2]⟩
    | expr rhs =>
      have := h.1
      simp only [stmtWF, Bool.and_eq_true] at this
      exact ⟨by simp [progCoreWF, stmtCoreWF, i1, this.1.1.1.1], by simp [sepOK, stmtSep, i2, this.1.1.1.2]⟩

/-- the image of the statement-level parser satisfies `progWF` as soon as its expression statements are
separated -/
theorem image_progWF (f : Nat) (ts : List Tok) (p : Program) (h : parseStmts f ts = .ok p) (hs : sepOK p = true) :
    progWF p = true :=
  progWF_of_core p (progSpec f ts p h) hs

end Kap.C13
