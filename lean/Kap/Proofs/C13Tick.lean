/-
C13, pipeline → TICKscript values: what print → lexer → decoder → parser does to a rendered chain link
(`normLink`: literal spelling, a negative number becomes unary minus; `canonLink`: the Parens flags the grammar
needs) and the lemmas behind `tick_render_roundtrip`.
-/
import Kap.Model.C13Tick
import Kap.Proofs.C13Prog
import Kap.Proofs.C13DecodeTree

namespace Kap.C13.Tick
open Kap.C13

/-! ## normalisation: the tree the parser builds from the printed text (lex_decode_fmt, per argument) -/

def normItem : Item → Item
  | .str l t => .str l (useTriple l.toList t)
  | i => i

def normArg : Arg → Arg
  | .expr e => .expr (norm e)
  | .lambda e => .lambda (norm e)
  | .list items => .list (items.map normItem)

def normLink (l : Link) : Link := { l with args := l.args.map (·.map normArg) }

/-! ## canonisation: the Parens flags come back as the grammar needs them (format_is_canonical_print) -/

def canonArg : Arg → Arg
  | .expr e => .expr (canonize e)
  | .lambda e => .lambda (canonize e)
  | .list items => .list items

def canonArgs : List Arg → List Arg
  | [] => []
  | a :: rest => canonArg a :: canonArgs rest

def canonLink (l : Link) : Link := { l with args := l.args.map canonArgs }

def canonLinks : List Link → List Link
  | [] => []
  | l :: rest => canonLink l :: canonLinks rest

theorem fmtToks_canonize (e : Expr) : fmtToks (canonize e) = fmtToks e := by
  have h1 := fmtToksP_eq e false
  have h2 := fmtToksP_eq (canonize e) false
  unfold fmtToks
  rw [h2, h1, canonize_of_canon _ (canon_canonize e)]

theorem fmtArg_canonArg (a : Arg) : fmtArg (canonArg a) = fmtArg a := by
  cases a <;> simp [canonArg, fmtArg, fmtToks_canonize]

theorem fmtArgList_canonArgs : (as : List Arg) → fmtArgList (canonArgs as) = fmtArgList as
  | [] => rfl
  | [a] => by simp [canonArgs, fmtArgList, fmtArg_canonArg]
  | a :: b :: tl => by
    have ih := fmtArgList_canonArgs (b :: tl)
    simp only [canonArgs] at ih ⊢
    simp only [fmtArgList, fmtArg_canonArg, ih]

theorem fmtLink_canonLink (l : Link) : fmtLink (canonLink l) = fmtLink l := by
  cases l with
  | mk op name args =>
    cases args with
    | none => rfl
    | some as => simp [canonLink, fmtLink, fmtArgList_canonArgs]

theorem fmtLinks_canonLinks : (ls : List Link) → fmtLinks (canonLinks ls) = fmtLinks ls
  | [] => rfl
  | l :: rest => by simp [canonLinks, fmtLinks, fmtLink_canonLink, fmtLinks_canonLinks rest]

theorem argWF_canonArg (a : Arg) : argWF (canonArg a) = true := by
  cases a <;> simp [canonArg, argWF, canon_canonize]

theorem argsWF_canonArgs : (as : List Arg) → argsWF (canonArgs as) = true
  | [] => rfl
  | a :: rest => by simp [canonArgs, argsWF, argWF_canonArg, argsWF_canonArgs rest]

/-- a rendered link always carries its parentheses (`mkLink`) -/
def hasParens (l : Link) : Bool := l.args.isSome

theorem linksWF_canonLinks : (ls : List Link) → ls.all hasParens = true → linksWF (canonLinks ls) = true
  | [], _ => rfl
  | l :: rest, h => by
    simp only [List.all_cons, Bool.and_eq_true] at h
    have ih := linksWF_canonLinks rest h.2
    cases l with
    | mk op name args =>
      cases args with
      | none => simp [hasParens] at h
      | some as => simp [canonLinks, canonLink, linksWF, linkWF, argsWF_canonArgs, ih]

/-- the parser reads the printed tokens of ANY rendered chain back as the links with the Parens flags the grammar
needs – no hypothesis on the lambdas / expressions inside -/
theorem reads_rendered_links (ls : List Link) (h : ls.all hasParens = true) (rest : List Tok) (hb : Bnd rest) :
    ∃ N, ∀ f, N ≤ f → parseLinks f (fmtLinks ls ++ rest) = .ok (canonLinks ls, rest) := by
  have := reads_links (canonLinks ls) (linksWF_canonLinks ls h) rest hb
  rwa [fmtLinks_canonLinks] at this

/-! ## applyCall only ever appends `mkLink`s -/

theorem applyCall_hasParens (m name : String) (vals : List Val) (ls ls' : List Link)
    (h0 : ls.all hasParens = true) (h : applyCall m name vals ls = some ls') : ls'.all hasParens = true := by
  have emitOK : ∀ (op : LinkOp) (r : Option (Option (List Arg))) (out : List Link),
      (match r with
        | none => none
        | some none => some ls
        | some (some as) => some (ls ++ [mkLink op name as])) = some out → out.all hasParens = true := by
    intro op r out hr
    match r, hr with
    | some none, hr => cases hr; exact h0
    | some (some as), hr => cases hr; simp [List.all_append, h0, hasParens, mkLink]
  have dotOK : ∀ (r : Option (Option (List Arg))) (out : List Link),
      (if ls.isEmpty then none else
        (match r with
        | none => none
        | some none => some ls
        | some (some as) => some (ls ++ [mkLink .dot name as]))) = some out → out.all hasParens = true := by
    intro r out hr
    split at hr
    · cases hr
    · exact emitOK .dot r out hr
  unfold applyCall at h
  simp only at h
  split at h
  · split at h
    · exact emitOK _ _ _ h
    · cases h
  · split at h
    · exact emitOK _ _ _ h
    · cases h
  · split at h
    · exact emitOK _ _ _ h
    · cases h
  · exact dotOK _ _ h
  · exact dotOK _ _ h
  · exact dotOK _ _ h
  · split at h
    · exact dotOK (some (some [])) _ h
    · cases h; exact h0
    · cases h
  · split at h
    · cases h; exact h0
    · exact dotOK _ _ h
    · cases h
  · split at h
    · cases h; exact h0
    · exact dotOK _ _ h
  · cases h

/-! ## values: evaluating the re-parsed literal gives the value that was rendered -/

/-- the value kinds a property holds directly -/
def scalar : Val → Bool
  | .str _ => true
  | .int _ => true
  | .flt _ => true
  | .bool _ => true
  | .dur _ => true
  | .star => true
  | _ => false

theorem int_negSucc_neg (n : Nat) : -(((n + 1 : Nat) : Int)) = Int.negSucc n := by
  rfl

theorem flt_neg_text (c : String) (t : List Char) (h : fltNegText c.toList = some t) : "-" ++ String.ofList t = c := by
  have hct : c.toList = '-' :: t := by
    unfold fltNegText at h
    split at h
    · rename_i t' heq; simp at h; rw [heq, h]
    · simp at h
  apply String.ext
  simp [hct]

/-- every scalar value comes back from its printed, re-parsed literal: strings whatever quoting was chosen, integers
and floats also when negative (printed `-5`, read as unary minus of `5`), durations whatever unit was printed and
also when negative, booleans, the star -/
theorem evalArg_literal_scalar (v : Val) (a : Arg) (hs : scalar v = true) (h : literal v = some a) :
    evalArg (canonArg (normArg a)) = some v := by
  cases v <;> simp [scalar] at hs <;> simp only [literal, Option.some.injEq] at h <;> subst h
  case str s => simp [normArg, norm, normLit, normAtom, canonArg, canonize, evalArg]
  case int i =>
    cases i with
    | ofNat n => simp [normArg, norm, normLit, normAtom, canonArg, canonize, evalArg]
    | negSucc n =>
      simp [normArg, norm, normLit, canonArg, canonize, mark, evalArg]
      rfl
  case flt c =>
    simp only [normArg, norm, normLit]
    cases hc : fltNegText c.toList with
    | none => simp [canonArg, canonize, evalArg]
    | some t => simp [canonArg, canonize, mark, evalArg, flt_neg_text c t hc]
  case bool b => simp [normArg, norm, normLit, normAtom, canonArg, canonize, evalArg]
  case dur ns =>
    simp only [normArg, norm, normLit]
    by_cases hn : ns < 0
    · simp [hn, canonArg, canonize, mark, evalArg]
    · simp [hn, normAtom, canonArg, canonize, evalArg]
  case star => simp [normArg, norm, normLit, normAtom, canonArg, canonize, evalArg]

theorem evalArgs_literal_scalars : (vals : List Val) → (as : List Arg) → vals.all scalar = true →
    vals.mapM literal = some as → (canonArgs (as.map normArg)).mapM evalArg = some vals
  | [], as, _, h => by
    simp at h; subst h; rfl
  | v :: rest, as, hs, h => by
    simp only [List.all_cons, Bool.and_eq_true] at hs
    rw [List.mapM_cons] at h
    cases hv : literal v with
    | none => simp [hv] at h
    | some a =>
      cases hr : rest.mapM literal with
      | none => simp [hv, hr] at h
      | some as' =>
        simp [hv, hr] at h
        subst h
        have h1 := evalArg_literal_scalar v a hs.1 hv
        have h2 := evalArgs_literal_scalars rest as' hs.2 hr
        simp only [List.map_cons, canonArgs, List.mapM_cons, h1, h2]
        rfl

/-- a string / star list (groupBy dimensions, …) comes back element by element -/
theorem evalArg_literal_list (vs : List Val) (items : List Item) (h : vs.mapM itemOf = some items)
    (hs : vs.all (fun v => match v with | .str _ => true | .star => true | _ => false) = true) :
    evalArg (canonArg (normArg (.list items))) = some (.ilist vs) := by
  simp only [normArg, canonArg, evalArg]
  suffices hh : (items.map normItem).mapM itemVal = some vs by simp [hh]
  induction vs generalizing items with
  | nil => simp at h; subst h; rfl
  | cons v rest ih =>
    simp only [List.all_cons, Bool.and_eq_true] at hs
    rw [List.mapM_cons] at h
    cases hv : itemOf v with
    | none => simp [hv] at h
    | some it =>
      cases hr : rest.mapM itemOf with
      | none => simp [hv, hr] at h
      | some its =>
        simp [hv, hr] at h
        subst h
        have := ih its hr hs.2
        cases v <;> simp [itemOf] at hv <;> simp at hs
        · subst hv; simp [normItem, itemVal, this]
        · subst hv; simp [normItem, itemVal, this]

end Kap.C13.Tick
