/-
C14 — helper lemmas about the model (Kap/Model/C14.lean), part 1: the view of a world (what a client can see or
later requests depend on), closed forms of every primitive step on the view, rejected requests, starting tasks,
process start.
-/
import Kap.Spec.C14
namespace Kap.C14

/-! ### the view -/

/-- Tasks, templates, associations and the executing set: everything later behaviour depends on, except the two
enumeration lists `tids` / `mids`. -/
structure View where
  tasks : String → Option Task
  tmpls : String → Option String
  assoc : String → String → Bool
  exec : String → Bool

def World.view (w : World) : View := ⟨w.store.tasks, w.store.tmpls, w.store.assoc, w.exec⟩

def View.put (V : View) (id : String) (t : Task) : View := { V with tasks := fun i => if i = id then some t else V.tasks i }
def View.del (V : View) (id : String) : View := { V with tasks := fun i => if i = id then none else V.tasks i }
def View.putTmpl (V : View) (id s : String) : View := { V with tmpls := fun i => if i = id then some s else V.tmpls i }
def View.delTmpl (V : View) (id : String) : View :=
  { V with tmpls := fun i => if i = id then none else V.tmpls i, assoc := fun m k => if m = id then false else V.assoc m k }
def View.setAssoc (V : View) (m k : String) (b : Bool) : View :=
  { V with assoc := fun m' k' => if m' = m ∧ k' = k then b else V.assoc m' k' }
def View.setExec (V : View) (id : String) (b : Bool) : View := { V with exec := fun i => if i = id then b else V.exec i }

@[simp] theorem view_tasks (w : World) : w.view.tasks = w.store.tasks := rfl
@[simp] theorem view_tmpls (w : World) : w.view.tmpls = w.store.tmpls := rfl
@[simp] theorem view_assoc (w : World) : w.view.assoc = w.store.assoc := rfl
@[simp] theorem view_exec (w : World) : w.view.exec = w.exec := rfl

@[simp] theorem note_store (w : World) (b : String) : (w.note b).store = w.store := by
  unfold World.note; split <;> rfl
@[simp] theorem note_exec (w : World) (b : String) : (w.note b).exec = w.exec := by
  unfold World.note; split <;> rfl
@[simp] theorem note_view (w : World) (b : String) : (w.note b).view = w.view := by
  unfold World.note; split <;> rfl
@[simp] theorem tx_exec (w : World) (f : Store → Store) : (w.tx f).exec = w.exec := rfl
@[simp] theorem tx_store (w : World) (f : Store → Store) : (w.tx f).store = f w.store := rfl
@[simp] theorem tx_id_view (w : World) : (w.tx (fun s => s)).view = w.view := rfl
@[simp] theorem setExec_store (w : World) (i : String) (b : Bool) : (w.setExec i b).store = w.store := rfl
@[simp] theorem setExec_view (w : World) (i : String) (b : Bool) : (w.setExec i b).view = w.view.setExec i b := rfl
@[simp] theorem stopTask_view (w : World) (i : String) : (stopTask w i).view = w.view.setExec i false := rfl
@[simp] theorem stopTask_store (w : World) (i : String) : (stopTask w i).store = w.store := rfl

theorem tasksCreate_view (w : World) (id : String) (t : Task) :
    (tasksCreate w id t).1.view = if (w.store.tasks id).isSome then w.view else w.view.put id t := by
  unfold tasksCreate; split <;> rfl
theorem tasksCreate_ok (w : World) (id : String) (t : Task) : (tasksCreate w id t).2 = !(w.store.tasks id).isSome := by
  unfold tasksCreate; split <;> simp_all
theorem tasksReplace_view (w : World) (id : String) (t : Task) :
    (tasksReplace w id t).1.view = if (w.store.tasks id).isSome then w.view.put id t else w.view := by
  unfold tasksReplace; split <;> rfl
theorem tasksReplace_ok (w : World) (id : String) (t : Task) : (tasksReplace w id t).2 = (w.store.tasks id).isSome := by
  unfold tasksReplace; split <;> simp_all
@[simp] theorem tasksDelete_view (w : World) (id : String) : (tasksDelete w id).view = w.view.del id := rfl
theorem tmplCreate_view (w : World) (id s : String) :
    (tmplCreate w id s).1.view = if (w.store.tmpls id).isSome then w.view else w.view.putTmpl id s := by
  unfold tmplCreate; split <;> rfl
theorem tmplCreate_ok (w : World) (id s : String) : (tmplCreate w id s).2 = !(w.store.tmpls id).isSome := by
  unfold tmplCreate; split <;> simp_all
theorem tmplReplace_view (w : World) (id s : String) :
    (tmplReplace w id s).1.view = if (w.store.tmpls id).isSome then w.view.putTmpl id s else w.view := by
  unfold tmplReplace; split <;> rfl
theorem tmplReplace_ok (w : World) (id s : String) : (tmplReplace w id s).2 = (w.store.tmpls id).isSome := by
  unfold tmplReplace; split <;> simp_all
@[simp] theorem tmplDelete_view (w : World) (id : String) : (tmplDelete w id).view = w.view.delTmpl id := rfl
@[simp] theorem associate_view (w : World) (m k : String) : (associate w m k).view = w.view.setAssoc m k true := rfl
@[simp] theorem disassociate_view (w : World) (m k : String) : (disassociate w m k).view = w.view.setAssoc m k false := rfl
@[simp] theorem saveLastError_store (w : World) (id : String) : (saveLastError w id).store = w.store := by
  unfold saveLastError; split <;> rfl
@[simp] theorem saveLastError_exec (w : World) (id : String) : (saveLastError w id).exec = w.exec := by
  unfold saveLastError; split <;> rfl
@[simp] theorem saveLastError_view (w : World) (id : String) : (saveLastError w id).view = w.view := by
  unfold saveLastError; split <;> rfl

/-! ### starting tasks -/

theorem batchRefused_not_ok {env : Env} {fail : List String} {id : String} {t : Task}
    (h : batchRefused env fail id t = true) : startOK env fail id t = false := by
  unfold batchRefused at h; unfold startOK
  cases hb : batchable env t <;> simp_all

theorem startTask_ok (env : Env) (fail : List String) (w : World) (id : String) (t : Task) :
    (startTask env fail w id t).2 = startOK env fail id t := by
  unfold startTask startOK; split
  · simp_all
  · split
    · simp_all
    · split <;> simp_all

theorem View.setExec_idem (V : View) (id : String) (a b : Bool) : (V.setExec id a).setExec id b = V.setExec id b := by
  unfold View.setExec
  congr 1
  funext i
  by_cases h : i = id <;> simp [h]

theorem View.setExec_self (V : View) (id : String) (b : Bool) (h : V.exec id = b) : V.setExec id b = V := by
  cases V with
  | mk T M A E =>
    unfold View.setExec
    congr 1
    funext i
    by_cases hi : i = id
    · subst hi; simp at h; simp [h]
    · simp [hi]

/-- The view after a start attempt, three-way: ok ⇒ executing; batching refused ⇒ NOT executing (whatever it was
before: TaskMaster.StartTask replaced the entry, StopTask removed it); otherwise untouched. -/
theorem startTask_view (env : Env) (fail : List String) (w : World) (id : String) (t : Task) :
    (startTask env fail w id t).1.view =
      if startOK env fail id t then w.view.setExec id true
      else if batchRefused env fail id t then w.view.setExec id false else w.view := by
  unfold startTask startOK batchRefused; split
  · simp_all
  · split
    · simp_all
    · split
      · simp_all [View.setExec_idem]
      · simp_all

/-- … for a task that is not executing when the attempt starts (every call site of the code: the task was just
created / just stopped / was disabled / the TaskMaster is fresh), a failed attempt of either kind changes nothing. -/
theorem startTask_view_idle (env : Env) (fail : List String) (w : World) (id : String) (t : Task) (hidle : w.exec id = false) :
    (startTask env fail w id t).1.view = if startOK env fail id t then w.view.setExec id true else w.view := by
  rw [startTask_view]
  split
  · rfl
  · split
    · exact View.setExec_self _ _ _ hidle
    · rfl

theorem startTask_store (env : Env) (fail : List String) (w : World) (id : String) (t : Task) :
    (startTask env fail w id t).1.store = w.store := by
  unfold startTask; split
  · simp
  · split
    · simp
    · split <;> simp

theorem startTask_exec (env : Env) (fail : List String) (w : World) (id : String) (t : Task) :
    (startTask env fail w id t).1.exec =
      fun j => if j = id then (startOK env fail id t || (w.exec j && !batchRefused env fail id t)) else w.exec j := by
  have h := congrArg View.exec (startTask_view env fail w id t)
  rw [view_exec] at h
  rw [h]
  funext j
  cases hs : startOK env fail id t <;> cases hb : batchRefused env fail id t <;>
    by_cases hj : j = id <;> simp [View.setExec, hj]

/-! ### rejected requests -/

/-- "If the answer is a client error (400/404), nothing changed." -/
def Rej (w : World) (x : World × Resp) : Prop := (x.2 = .bad ∨ x.2 = .nf) → x.1.view = w.view

theorem rej_same (w : World) (b : String) (r : Resp) : Rej w (w.note b, r) := fun _ => note_view w b
theorem rej_ok (w w' : World) : Rej w (w', .ok) := fun h => by simp at h
theorem rej_fail (w w' : World) : Rej w (w', .fail) := fun h => by simp at h
theorem rej_okfail (w w' : World) (b : Bool) : Rej w (w', if b = true then .ok else .fail) := fun h => by
  cases b <;> simp at h
theorem rej_ite {w : World} {c : Prop} [Decidable c] {a b : World × Resp}
    (h1 : c → Rej w a) (h2 : ¬c → Rej w b) : Rej w (if c then a else b) := by
  split
  · exact h1 ‹_›
  · exact h2 ‹_›

macro "rej_walk" : tactic => `(tactic|
  repeat' first
    | exact rej_same _ _ _
    | exact rej_ok _ _
    | exact rej_fail _ _
    | exact rej_okfail _ _ _
    | (apply rej_ite <;> intro _)
    | split)

theorem applyStatus_resp (env : Env) (fail : List String) (w : World) (id newId : String) (orig upd : Task) :
    (applyStatus env fail w id newId orig upd).2 = .ok ∨ (applyStatus env fail w id newId orig upd).2 = .fail := by
  unfold applyStatus; repeat' split
  all_goals simp

theorem createCommit_resp (v : Variant) (env : Env) (fail : List String) (w : World) (id : String) (t : Task) (b : Bool) :
    (createCommit v env fail w id t b).2 = .ok ∨ (createCommit v env fail w id t b).2 = .fail := by
  unfold createCommit; dsimp only; repeat' split
  all_goals simp

theorem updateCommit_resp (v : Variant) (env : Env) (fail : List String) (w : World) (id newId : String)
    (orig upd : Task) (b : Bool) :
    (updateCommit v env fail w id newId orig upd b).2 = .ok ∨ (updateCommit v env fail w id newId orig upd b).2 = .fail := by
  unfold updateCommit; dsimp only; repeat' split
  all_goals first
    | exact applyStatus_resp ..
    | simp

theorem rej_of_okfail {w : World} {x : World × Resp} (h : x.2 = .ok ∨ x.2 = .fail) : Rej w x := fun h' => by
  rcases h with h | h <;> rcases h' with h' | h' <;> rw [h] at h' <;> cases h'

theorem createTask_rejected (env : Env) (fail : List String) (w : World) (id : String) (r : TaskReq) :
    Rej w (createTask Variant.fixed env fail w id r) := by
  unfold createTask
  simp only [Variant.fixed, Bool.and_false, Bool.false_eq_true, if_false]
  repeat' first
    | exact rej_same _ _ _
    | exact rej_of_okfail (createCommit_resp ..)
    | (apply rej_ite <;> intro _)
    | split

theorem updateTask_rejected (env : Env) (fail : List String) (w : World) (id : String) (r : TaskReq) :
    Rej w (updateTask Variant.fixed env fail w id r) := by
  unfold updateTask
  simp only [Variant.fixed, Bool.and_false, Bool.false_eq_true, if_false]
  repeat' first
    | exact rej_same _ _ _
    | exact rej_of_okfail (updateCommit_resp ..)
    | (apply rej_ite <;> intro _)
    | split

theorem deleteTask_ok (w : World) (id : String) : (deleteTask w id).2 = .ok := by
  unfold deleteTask; split <;> rfl

theorem dieTask_ok (w : World) (id : String) : (dieTask w id).2 = .ok := by
  unfold dieTask; split <;> rfl

theorem dieTask_view (w : World) (id : String) : (dieTask w id).1.view = w.view.setExec id false := by
  unfold dieTask
  split
  · simp
  · rename_i h
    rw [note_view]
    unfold View.setExec World.view
    congr 1
    funext i
    by_cases hi : i = id
    · subst hi; simp at h; simp [h]
    · simp [hi]

theorem dieTask_store (w : World) (id : String) : (dieTask w id).1.store = w.store := by
  unfold dieTask; split <;> simp

theorem createTemplate_rejected (env : Env) (w : World) (id s : String) : Rej w (createTemplate env w id s) := by
  unfold createTemplate
  rej_walk

theorem updateTemplate_rejected (env : Env) (fail : List String) (w : World) (id n s : String) :
    Rej w (updateTemplate env fail w id n s) := by
  unfold updateTemplate
  rej_walk

theorem handle_rejected (env : Env) (fail : List String) (w : World) (op : Op) :
    Rej w (handle Variant.fixed env fail w op) := by
  cases op <;> simp only [handle]
  · exact createTask_rejected env fail w _ _
  · exact updateTask_rejected env fail w _ _
  · exact rej_of_okfail (Or.inl (deleteTask_ok w _))
  · exact createTemplate_rejected env w _ _
  · exact updateTemplate_rejected env fail w _ _ _
  · exact rej_ok _ _
  · exact rej_ok _ _
  · exact rej_of_okfail (Or.inl (dieTask_ok w _))

/-! ### process start -/

/-- Every stored task is enumerated by the ID index. -/
def Dom (s : Store) : Prop := ∀ i t, s.tasks i = some t → i ∈ s.tids

theorem openAll_spec (env : Env) (fail : List String) (l : List String) (w : World) :
    (openAll env fail w l).store = w.store ∧
    ∀ i, (openAll env fail w l).exec i = true ↔
      ((w.exec i = true ∧
          ¬ (i ∈ l ∧ ∃ t, w.store.tasks i = some t ∧ t.enabled = true ∧ batchRefused env fail i t = true)) ∨
       (i ∈ l ∧ ∃ t, w.store.tasks i = some t ∧ t.enabled = true ∧ startOK env fail i t = true)) := by
  induction l generalizing w with
  | nil => simp [openAll]
  | cons k rest ih =>
    unfold openAll
    split
    · rename_i t ht
      split
      · rename_i hen
        have hs := startTask_store env fail w k t
        have := ih (startTask env fail w k t).1
        rw [hs] at this
        refine ⟨this.1, fun i => ?_⟩
        rw [this.2 i, startTask_exec]
        by_cases hik : i = k
        · subst hik
          have hno := @batchRefused_not_ok env fail i t
          cases hok : startOK env fail i t <;> cases hbr : batchRefused env fail i t <;>
            simp [ht, hen, hok, hbr] <;> simp_all
        · simp [hik]
      · rename_i hen
        have := ih w
        refine ⟨this.1, fun i => ?_⟩
        rw [this.2 i]
        by_cases hik : i = k
        · subst hik; simp [ht]; grind
        · simp [hik]
    · rename_i ht
      have := ih w
      refine ⟨this.1, fun i => ?_⟩
      rw [this.2 i]
      by_cases hik : i = k
      · subst hik; simp [ht]
      · simp [hik]

/-- A process start: nothing stored changes; exactly the enabled, enumerated tasks whose start the oracle lets
succeed are executing. -/
theorem boot_spec (env : Env) (fail : List String) (s : Store) (br : List String) :
    (boot env fail s br).store = s ∧
    ∀ i, (boot env fail s br).exec i = true ↔
      (i ∈ s.tids ∧ ∃ t, s.tasks i = some t ∧ t.enabled = true ∧ startOK env fail i t = true) := by
  unfold boot
  have := openAll_spec env fail s.tids { store := s, br := br }
  refine ⟨this.1, fun i => ?_⟩
  rw [this.2 i]
  simp

/-! ### histories (used by the witnesses in Props) -/

/-- Oracle of the scripts used by the witnesses (the attributes the harness prints for s0, t0, td, t1). -/
def demoEnv : Env := fun s =>
  if s = "s0" then ⟨true, true, [], true, fun _ => true, false, []⟩
  else if s = "t0" then ⟨true, true, [], true, fun v => v != "v3", false, []⟩
  else if s = "td" then ⟨true, true, ["pdb.prp"], true, fun v => v != "v3", false, []⟩
  else if s = "t1" then ⟨true, true, [], true, fun v => v == "v1" || v == "v2", false, []⟩
  -- batch scripts: b0 queries "db"."rp", b1 queries "odb"."orp" (the harness pool's b0 / b1)
  else if s = "b0" then ⟨true, true, [], true, fun _ => true, true, ["db.rp"]⟩
  else if s = "b1" then ⟨true, true, [], true, fun _ => true, true, ["odb.orp"]⟩
  else ⟨false, false, [], false, fun _ => false, false, []⟩

structure Req where
  op : Op
  fail : List String := []
  cut : Option Nat := none

def run (v : Variant) (env : Env) (reqs : List Req) : World :=
  reqs.foldl (fun w r => (step v env r.fail r.cut w r.op).1) {}

end Kap.C14
