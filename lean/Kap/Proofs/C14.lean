/-
C14 — helper lemmas about the model (Kap/Model/C14.lean).
-/
import Kap.Spec.C14
namespace Kap.C14

/-! ### projections of the primitive steps -/

@[simp] theorem note_store (w : World) (b : String) : (w.note b).store = w.store := by
  unfold World.note; split <;> rfl
@[simp] theorem note_exec (w : World) (b : String) : (w.note b).exec = w.exec := by
  unfold World.note; split <;> rfl
@[simp] theorem tx_exec (w : World) (f : Store → Store) : (w.tx f).exec = w.exec := rfl
@[simp] theorem tx_store (w : World) (f : Store → Store) : (w.tx f).store = f w.store := rfl
@[simp] theorem setExec_store (w : World) (i : String) (b : Bool) : (w.setExec i b).store = w.store := rfl
@[simp] theorem setExec_exec (w : World) (i : String) (b : Bool) :
    (w.setExec i b).exec = fun j => if j = i then b else w.exec j := rfl

/-- The data a client can see or that later requests depend on: tasks, templates, associations, executing set. -/
structure Same (w w' : World) : Prop where
  tasks : w'.store.tasks = w.store.tasks
  tmpls : w'.store.tmpls = w.store.tmpls
  assoc : w'.store.assoc = w.store.assoc
  exec : w'.exec = w.exec

theorem Same.refl (w : World) : Same w w := ⟨rfl, rfl, rfl, rfl⟩
theorem Same.note {w w' : World} (h : Same w w') (b : String) : Same w (w'.note b) :=
  ⟨by simp [h.tasks], by simp [h.tmpls], by simp [h.assoc], by simp [h.exec]⟩

/-- Same without the association table (what the snapshot revision preserves on rejection). -/
structure SameVisible (w w' : World) : Prop where
  tasks : w'.store.tasks = w.store.tasks
  tmpls : w'.store.tmpls = w.store.tmpls
  exec : w'.exec = w.exec

/-! ### rejected requests -/

/-- "If the answer is a client error (400/404), nothing changed." -/
def Rej (w : World) (x : World × Resp) : Prop := (x.2 = .bad ∨ x.2 = .nf) → Same w x.1

theorem rej_same (w : World) (b : String) (r : Resp) : Rej w (w.note b, r) := fun _ => (Same.refl w).note b
theorem rej_ok (w w' : World) : Rej w (w', .ok) := fun h => by simp at h
theorem rej_fail (w w' : World) : Rej w (w', .fail) := fun h => by simp at h
theorem rej_okfail (w w' : World) (b : Bool) : Rej w (w', if b = true then .ok else .fail) := fun h => by
  cases b <;> simp at h
theorem rej_ite {w : World} {c : Prop} [Decidable c] {a b : World × Resp}
    (h1 : c → Rej w a) (h2 : ¬c → Rej w b) : Rej w (if c then a else b) := by
  split
  · exact h1 ‹_›
  · exact h2 ‹_›

macro "rej_walk" : tactic => `(tactic|
  repeat' first
    | exact rej_same _ _ _
    | exact rej_ok _ _
    | exact rej_fail _ _
    | exact rej_okfail _ _ _
    | (apply rej_ite <;> intro _)
    | split)

theorem createTask_rejected (env : Env) (fail : List String) (w : World) (id : String) (r : TaskReq) :
    Rej w (createTask Variant.fixed env fail w id r) := by
  unfold createTask
  simp only [Variant.fixed, Bool.and_false, Bool.false_eq_true, if_false]
  rej_walk

theorem updateTask_rejected (env : Env) (fail : List String) (w : World) (id : String) (r : TaskReq) :
    Rej w (updateTask Variant.fixed env fail w id r) := by
  unfold updateTask
  simp only [Variant.fixed, Bool.and_false, Bool.false_eq_true, if_false]
  rej_walk

theorem deleteTask_ok (w : World) (id : String) : (deleteTask w id).2 = .ok := by
  unfold deleteTask
  dsimp only
  split <;> rfl

theorem deleteTask_rejected (w : World) (id : String) : Rej w (deleteTask w id) := by
  intro h
  rw [deleteTask_ok] at h
  simp at h

theorem createTemplate_rejected (env : Env) (w : World) (id s : String) : Rej w (createTemplate env w id s) := by
  unfold createTemplate
  rej_walk

theorem updateTemplate_rejected (env : Env) (fail : List String) (w : World) (id n s : String) :
    Rej w (updateTemplate env fail w id n s) := by
  unfold updateTemplate
  rej_walk

theorem handle_rejected (env : Env) (fail : List String) (w : World) (op : Op) :
    Rej w (handle Variant.fixed env fail w op) := by
  cases op <;> simp only [handle]
  · exact createTask_rejected env fail w _ _
  · exact updateTask_rejected env fail w _ _
  · exact deleteTask_rejected w _
  · exact createTemplate_rejected env w _ _
  · exact updateTemplate_rejected env fail w _ _ _
  · exact rej_ok _ _
  · exact rej_ok _ _

/-! ### starting tasks, Open -/

@[simp] theorem saveLastError_store (w : World) (id : String) : (saveLastError w id).store = w.store := by
  unfold saveLastError; split <;> rfl
@[simp] theorem saveLastError_exec (w : World) (id : String) : (saveLastError w id).exec = w.exec := by
  unfold saveLastError; split <;> rfl

theorem startTask_store (env : Env) (fail : List String) (w : World) (t : Task) :
    (startTask env fail w t).1.store = w.store := by
  unfold startTask; split
  · simp
  · dsimp only; split <;> simp

theorem startTask_ok (env : Env) (fail : List String) (w : World) (t : Task) :
    (startTask env fail w t).2 = startOK env fail t := by
  unfold startTask startOK; split
  · simp_all
  · dsimp only; split <;> simp_all

theorem startTask_exec (env : Env) (fail : List String) (w : World) (t : Task) :
    (startTask env fail w t).1.exec = fun j => if j = t.id then (startOK env fail t || w.exec j) else w.exec j := by
  unfold startTask startOK; split
  · funext j; simp_all
  · dsimp only; split
    · funext j; simp_all
    · funext j; simp_all

/-- Key consistency and enumeration of the task table. -/
def Dom (s : Store) : Prop := ∀ i t, s.tasks i = some t → i ∈ s.tids ∧ t.id = i

theorem openAll_spec (env : Env) (fail : List String) (l : List String) (w : World)
    (hid : ∀ i t, w.store.tasks i = some t → t.id = i) :
    (openAll env fail w l).store = w.store ∧
    ∀ i, (openAll env fail w l).exec i = true ↔
      (w.exec i = true ∨ (i ∈ l ∧ ∃ t, w.store.tasks i = some t ∧ t.enabled = true ∧ startOK env fail t = true)) := by
  induction l generalizing w with
  | nil => simp [openAll]
  | cons k rest ih =>
    unfold openAll
    split
    · rename_i t ht
      split
      · rename_i hen
        have hs := startTask_store env fail w t
        have := ih (startTask env fail w t).1 (by rw [hs]; exact hid)
        rw [hs] at this
        refine ⟨this.1, fun i => ?_⟩
        rw [this.2 i, startTask_exec]
        have hk := hid k t ht
        by_cases hik : i = k
        · subst hik; simp [hk, ht, hen]; grind
        · have : i ≠ t.id := by rw [hk]; exact hik
          simp [this, hik]
      · rename_i hen
        have := ih w hid
        refine ⟨this.1, fun i => ?_⟩
        rw [this.2 i]
        by_cases hik : i = k
        · subst hik; simp [ht]; grind
        · simp [hik]
    · rename_i ht
      have := ih w hid
      refine ⟨this.1, fun i => ?_⟩
      rw [this.2 i]
      by_cases hik : i = k
      · subst hik; simp [ht]
      · simp [hik]

/-! ### the running-state invariant -/

/-- Every stored task sits under its own ID. -/
def IdInv (s : Store) : Prop := ∀ i t, s.tasks i = some t → t.id = i
/-- Whatever TaskMaster executes is a stored, enabled task. -/
def ExecInv (w : World) : Prop := ∀ i, w.exec i = true → ∃ t, w.store.tasks i = some t ∧ t.enabled = true
def Inv (w : World) : Prop := IdInv w.store ∧ ExecInv w

theorem ite_app {α β : Type} (c : Prop) [Decidable c] (f g : α → β) (a : α) :
    (if c then f else g) a = if c then f a else g a := by split <;> rfl

macro "inv_leaf" : tactic => `(tactic|
  (constructor
   · intro i t'
     simp only [tasksDelete, tasksCreate, tasksReplace, Store.delTask, Store.putTask, tx_store, tx_exec, note_store, note_exec,
       stopTask, setExec_store, setExec_exec, disassociate, associate, Store.setAssoc, reassociate, saveLastError_store,
       saveLastError_exec, startTask_store, startTask_exec, apply_ite World.store, apply_ite World.exec, apply_ite Store.tasks,
       World.tx, ite_self, ite_app] at *
     grind
   · intro i
     simp only [tasksDelete, tasksCreate, tasksReplace, Store.delTask, Store.putTask, tx_store, tx_exec, note_store, note_exec,
       stopTask, setExec_store, setExec_exec, disassociate, associate, Store.setAssoc, reassociate, saveLastError_store,
       saveLastError_exec, startTask_store, startTask_exec, apply_ite World.store, apply_ite World.exec, apply_ite Store.tasks,
       World.tx, ite_self, ite_app] at *
     grind))

theorem deleteTask_inv (w : World) (id : String) (h : Inv w) : Inv (deleteTask w id).1 := by
  obtain ⟨hid, hex⟩ := h
  unfold IdInv at hid
  unfold ExecInv at hex
  unfold deleteTask
  dsimp only
  split
  all_goals inv_leaf

/-- After a delete the ID is neither stored nor — given the invariant — executing. -/
theorem deleteTask_gone (w : World) (id : String) (h : Inv w) :
    (deleteTask w id).1.store.tasks id = none ∧ (deleteTask w id).1.exec id = false := by
  have hinv := deleteTask_inv w id h
  have hnone : (deleteTask w id).1.store.tasks id = none := by
    unfold deleteTask
    dsimp only
    split
    · simp_all
    · simp [tasksDelete, Store.delTask]
  refine ⟨hnone, ?_⟩
  cases hx : (deleteTask w id).1.exec id
  · rfl
  · obtain ⟨t, ht, _⟩ := hinv.2 id hx
    rw [hnone] at ht
    cases ht

/-- A process start on a file with consistent keys: nothing stored changes, and exactly the enabled tasks whose
start the oracle lets succeed are executing. -/
theorem boot_spec (env : Env) (fail : List String) (s : Store) (br : List String) (h : Dom s) :
    (boot env fail s br).store = s ∧
    ∀ i, (boot env fail s br).exec i = true ↔ ∃ t, s.tasks i = some t ∧ t.enabled = true ∧ startOK env fail t = true := by
  unfold boot
  have := openAll_spec env fail s.tids { store := s, br := br } (fun i t ht => (h i t ht).2)
  refine ⟨this.1, fun i => ?_⟩
  rw [this.2 i]
  constructor
  · rintro (h0 | ⟨_, t, ht, he, hs⟩)
    · simp at h0
    · exact ⟨t, ht, he, hs⟩
  · rintro ⟨t, ht, he, hs⟩
    exact Or.inr ⟨(h i t ht).1, t, ht, he, hs⟩

theorem boot_inv (env : Env) (fail : List String) (s : Store) (br : List String) (h : Dom s) :
    Inv (boot env fail s br) := by
  obtain ⟨hs, he⟩ := boot_spec env fail s br h
  constructor
  · rw [hs]; exact fun i t ht => (h i t ht).2
  · intro i hi
    obtain ⟨t, ht, hen, _⟩ := (he i).mp hi
    exact ⟨t, by rw [hs]; exact ht, hen⟩

/-! ### histories (used by the witnesses in Props) -/

/-- Oracle of the scripts used by the witnesses (the attributes the harness prints for s0, t0, td, t1). -/
def demoEnv : Env := fun s =>
  if s = "s0" then ⟨true, true, [], true, fun _ => true⟩
  else if s = "t0" then ⟨true, true, [], true, fun v => v != "v3"⟩
  else if s = "td" then ⟨true, true, ["pdb.prp"], true, fun v => v != "v3"⟩
  else if s = "t1" then ⟨true, true, [], true, fun v => v == "v1" || v == "v2"⟩
  else ⟨false, false, [], false, fun _ => false⟩

structure Req where
  op : Op
  fail : List String := []
  cut : Option Nat := none

def run (v : Variant) (env : Env) (reqs : List Req) : World :=
  reqs.foldl (fun w r => (step v env r.fail r.cut w r.op).1) {}


end Kap.C14
