/-
C14 — helper lemmas, part 4: the ID index enumerates every stored task (`Dom`) — through every sub-step and handler.
-/
import Kap.Proofs.C14Tmpl
set_option linter.unusedSimpArgs false
namespace Kap.C14

theorem mem_insId (x id : String) (l : List String) : x ∈ insId id l ↔ x = id ∨ x ∈ l := by
  induction l with
  | nil => simp [insId]
  | cons y ys ih =>
    unfold insId
    split
    · rename_i h
      have : id = y := by simpa using h
      subst this
      simp
    · split
      · simp
      · simp [ih]; grind

theorem Dom.putTask {s : Store} (h : Dom s) (id : String) (t : Task) : Dom (s.putTask id t) := fun i t' hi => by
  simp only [Store.putTask] at hi ⊢
  rw [mem_insId]
  by_cases hid : i = id
  · exact Or.inl hid
  · simp [hid] at hi; exact Or.inr (h i t' hi)
theorem Dom.delTask {s : Store} (h : Dom s) (id : String) : Dom (s.delTask id) := fun i t' hi => by
  simp only [Store.delTask] at hi ⊢
  by_cases hid : i = id
  · simp [hid] at hi
  · simp [hid] at hi; exact h i t' hi
theorem Dom.setAssoc {s : Store} (h : Dom s) (m k : String) (b : Bool) : Dom (s.setAssoc m k b) := fun i t' hi => by
  simp only [Store.setAssoc] at hi ⊢
  split
  · rw [mem_insId]; exact Or.inr (h i t' hi)
  · exact h i t' hi
theorem Dom.putTmpl {s : Store} (h : Dom s) (m sc : String) : Dom (s.putTmpl m sc) := fun i t' hi => h i t' hi
theorem Dom.delTmpl {s : Store} (h : Dom s) (m : String) : Dom (s.delTmpl m) := fun i t' hi => h i t' hi

/-- `Dom` of the world's store. -/
def WDom (w : World) : Prop := Dom w.store

theorem WDom.of_store {w w' : World} (h : WDom w) (hs : w'.store = w.store) : WDom w' := by unfold WDom; rw [hs]; exact h
theorem WDom.note {w : World} (h : WDom w) (b : String) : WDom (w.note b) := h.of_store (note_store w b)
theorem WDom.tasksCreate {w : World} (h : WDom w) (id : String) (t : Task) : WDom (tasksCreate w id t).1 := by
  unfold Kap.C14.tasksCreate; split
  · exact h
  · exact Dom.putTask h id t
theorem WDom.tasksReplace {w : World} (h : WDom w) (id : String) (t : Task) : WDom (tasksReplace w id t).1 := by
  unfold Kap.C14.tasksReplace; split
  · exact Dom.putTask h id t
  · exact h
theorem WDom.tasksDelete {w : World} (h : WDom w) (id : String) : WDom (tasksDelete w id) := Dom.delTask h id
theorem WDom.tmplCreate {w : World} (h : WDom w) (id s : String) : WDom (tmplCreate w id s).1 := by
  unfold Kap.C14.tmplCreate; split
  · exact h
  · exact Dom.putTmpl h id s
theorem WDom.tmplReplace {w : World} (h : WDom w) (id s : String) : WDom (tmplReplace w id s).1 := by
  unfold Kap.C14.tmplReplace; split
  · exact Dom.putTmpl h id s
  · exact h
theorem WDom.tmplDelete {w : World} (h : WDom w) (id : String) : WDom (tmplDelete w id) := Dom.delTmpl h id
theorem WDom.associate {w : World} (h : WDom w) (m k : String) : WDom (associate w m k) := Dom.setAssoc h m k true
theorem WDom.disassociate {w : World} (h : WDom w) (m k : String) : WDom (disassociate w m k) := Dom.setAssoc h m k false
theorem WDom.startTask {w : World} (h : WDom w) (env : Env) (fail : List String) (id : String) (t : Task) :
    WDom (startTask env fail w id t).1 := h.of_store (startTask_store env fail w id t)
theorem WDom.stopTask {w : World} (h : WDom w) (id : String) : WDom (stopTask w id) := h
theorem WDom.ite {c : Prop} [Decidable c] {a b : World} (ha : WDom a) (hb : WDom b) : WDom (if c then a else b) := by
  split <;> assumption

theorem WDom.reloadTask {w : World} (h : WDom w) (env : Env) (fail : List String) (k : String) (t : Task) :
    WDom (reloadTask env fail w k t).1 := by
  unfold Kap.C14.reloadTask; split
  · exact ((h.tasksReplace k t).stopTask k).startTask env fail k t
  · exact h.tasksReplace k t

theorem WDom.createCommit {w : World} (h : WDom w) (v : Variant) (env : Env) (fail : List String) (id : String) (t : Task)
    (b : Bool) : WDom (createCommit v env fail w id t b).1 := by
  unfold Kap.C14.createCommit
  dsimp only
  have h1 := h.tasksCreate id t
  generalize Kap.C14.tasksCreate w id t = c at h1 ⊢
  have h2 : WDom (if (b && !v.assocEarly) = true then Kap.C14.associate c.1 t.tmpl id else c.1) :=
    WDom.ite (h1.associate _ _) h1
  generalize (if (b && !v.assocEarly) = true then Kap.C14.associate c.1 t.tmpl id else c.1) = w1 at h2 ⊢
  have h3 : WDom (if b = true then w1.note "create-templated" else w1) := WDom.ite (h2.note _) h2
  generalize (if b = true then w1.note "create-templated" else w1) = w2 at h3 ⊢
  split
  · exact h1
  · split
    · split
      · exact (h3.startTask env fail id t).note _
      · exact (h3.startTask env fail id t).note _
    · exact h3.note _

theorem WDom.createTask {w : World} (h : WDom w) (v : Variant) (env : Env) (fail : List String) (id : String) (r : TaskReq) :
    WDom (createTask v env fail w id r).1 := by
  unfold Kap.C14.createTask
  split
  · exact h.note _
  · split
    · exact h.note _
    · dsimp only
      have h1 : ∀ c : Bool, WDom (if c = true then Kap.C14.associate w r.tmpl id else w) := fun c => WDom.ite (h.associate _ _) h
      split
      · exact (h1 _).note _
      · exact (h1 _).createCommit v env fail id _ _

theorem WDom.reassociate {w : World} (h : WDom w) (id : String) (orig : Task) (m newId : String) :
    WDom (reassociate w id orig m newId) := by
  unfold Kap.C14.reassociate
  exact ((WDom.ite (h.disassociate _ _) h).associate m newId).note _

theorem WDom.storeDefinition {w : World} (h : WDom w) (id newId : String) (upd : Task) :
    WDom (storeDefinition w id newId upd).1 := by
  unfold Kap.C14.storeDefinition
  split
  · split
    · exact ((h.tasksCreate newId upd).tasksDelete id).note _
    · exact (h.tasksCreate newId upd).note _
  · exact h.tasksReplace id upd

theorem WDom.restartRenamed {w : World} (h : WDom w) (env : Env) (fail : List String) (id newId : String) (orig upd : Task) :
    WDom (restartRenamed env fail w id newId orig upd).1 := by
  unfold Kap.C14.restartRenamed
  split
  · exact ((h.stopTask id).startTask env fail newId upd).note _
  · exact h

theorem WDom.applyStatus {w : World} (h : WDom w) (env : Env) (fail : List String) (id newId : String) (orig upd : Task) :
    WDom (applyStatus env fail w id newId orig upd).1 := by
  unfold Kap.C14.applyStatus
  split
  · split
    · split
      · exact (h.startTask env fail newId upd).note _
      · exact (h.startTask env fail newId upd).note _
    · exact (h.stopTask id).note _
  · exact h.note _

theorem WDom.updateCommit {w : World} (h : WDom w) (v : Variant) (env : Env) (fail : List String) (id newId : String)
    (orig upd : Task) (b : Bool) : WDom (updateCommit v env fail w id newId orig upd b).1 := by
  unfold Kap.C14.updateCommit
  dsimp only
  have h1 := h.storeDefinition id newId upd
  generalize Kap.C14.storeDefinition w id newId upd = sd at h1 ⊢
  have h2 : WDom (if (b && !v.assocEarly) = true then Kap.C14.reassociate sd.1 id orig upd.tmpl newId else sd.1) :=
    WDom.ite (h1.reassociate _ _ _ _) h1
  generalize (if (b && !v.assocEarly) = true then Kap.C14.reassociate sd.1 id orig upd.tmpl newId else sd.1) = w1 at h2 ⊢
  have h3 := h2.restartRenamed env fail id newId orig upd
  generalize Kap.C14.restartRenamed env fail w1 id newId orig upd = rr at h3 ⊢
  split
  · exact h1
  · split
    · exact h3
    · exact h3.applyStatus env fail id newId orig upd

theorem WDom.updateTask {w : World} (h : WDom w) (v : Variant) (env : Env) (fail : List String) (id : String) (r : TaskReq) :
    WDom (updateTask v env fail w id r).1 := by
  unfold Kap.C14.updateTask
  split
  · exact h.note _
  · split
    · exact h.note _
    · dsimp only
      rename_i orig _ _ script m _
      have h1 : ∀ (c : Bool) (nid : String), WDom (if c = true then Kap.C14.reassociate w id orig m nid else w) :=
        fun c nid => WDom.ite (h.reassociate _ _ _ _) h
      split
      · exact (h1 _ _).note _
      · exact (h1 _ _).updateCommit v env fail id _ orig _ _

theorem WDom.deleteTask {w : World} (h : WDom w) (id : String) : WDom (deleteTask w id).1 := by
  unfold Kap.C14.deleteTask
  have h0 : WDom (w.tx (fun s => s)) := h
  split
  · exact h0.note _
  · rename_i t _
    have h1 : WDom (if t.tmpl ≠ "" then (Kap.C14.disassociate (w.tx (fun s => s)) t.tmpl id).note "delete-templated"
        else w.tx (fun s => s)) := WDom.ite ((h0.disassociate _ _).note _) h0
    exact (WDom.ite ((h1.stopTask id).note _) (h1.note _)).tasksDelete id

theorem WDom.createTemplate {w : World} (h : WDom w) (env : Env) (id s : String) : WDom (createTemplate env w id s).1 := by
  unfold Kap.C14.createTemplate
  split
  · exact h.note _
  · split
    · exact h.note _
    · exact (h.tmplCreate id s).note _

theorem WDom.storeTemplate {w : World} (h : WDom w) (id newId s : String) : WDom (storeTemplate w id newId s).1 := by
  unfold Kap.C14.storeTemplate
  split
  · split
    · exact ((h.tmplCreate newId s).tmplDelete id).note _
    · exact (h.tmplCreate newId s).note _
  · exact h.tmplReplace id s

theorem WDom.retargetOne {w : World} (h : WDom w) (env : Env) (fail : List String) (oi os ni ns k : String) :
    WDom (retargetOne env fail oi os ni ns w k).1 := by
  unfold Kap.C14.retargetOne
  split
  · exact (h.disassociate _ _).note _
  · exact ((WDom.ite (h.associate _ _) h).reloadTask env fail k _).note _

theorem WDom.rollbackOne {w : World} (h : WDom w) (env : Env) (fail : List String) (oi os k : String) :
    WDom (rollbackOne env fail oi os w k) := by
  unfold Kap.C14.rollbackOne
  split
  · exact h.note _
  · exact (h.reloadTask env fail k _).note _

theorem WDom.rollback (env : Env) (fail : List String) (oi os : String) (l : List String) {w : World} (h : WDom w) :
    WDom (rollback env fail oi os w l) := by
  induction l generalizing w with
  | nil => exact h
  | cons k rest ih => exact ih (h.rollbackOne env fail oi os k)

theorem WDom.updateAll (env : Env) (fail : List String) (oi os ni ns : String) (l done : List String) {w : World}
    (h : WDom w) : WDom (updateAll env fail oi os ni ns w done l).1 := by
  induction l generalizing w done with
  | nil => exact h
  | cons k rest ih =>
    unfold Kap.C14.updateAll
    split
    · exact ih _ (h.retargetOne env fail oi os ni ns k)
    · exact WDom.rollback env fail oi os _ ((h.retargetOne env fail oi os ni ns k).note _)

theorem WDom.updateTemplate {w : World} (h : WDom w) (env : Env) (fail : List String) (id n s : String) :
    WDom (updateTemplate env fail w id n s).1 := by
  unfold Kap.C14.updateTemplate
  split
  · exact h.note _
  · rename_i os _
    generalize (if n ≠ "" then n else id) = nid
    generalize (if s ≠ "" then s else os) = ns
    have hst := h.storeTemplate id nid ns
    split
    · exact h.note _
    · split
      · exact hst
      · split
        · exact (WDom.rollback env fail id os _ hst).note _
        · exact (WDom.updateAll env fail id os nid ns _ _ hst).note _

theorem WDom.handle {w : World} (h : WDom w) (v : Variant) (env : Env) (fail : List String) (op : Op) :
    WDom (handle v env fail w op).1 := by
  cases op <;> simp only [Kap.C14.handle]
  · exact h.createTask v env fail _ _
  · exact h.updateTask v env fail _ _
  · exact h.deleteTask _
  · exact h.createTemplate env _ _
  · exact h.updateTemplate env fail _ _ _
  · exact (h.tmplDelete _).note _
  · exact (h.of_store (boot_spec env fail w.store w.br).1).note _
  · exact h.of_store (dieTask_store w _)

end Kap.C14
