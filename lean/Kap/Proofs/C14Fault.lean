/-
C14 — helper lemmas about the fault-aware semantics (Kap/Model/C14Fault.lean):
  A. without a fault it IS the model (simulation relation `Sim`, per DAO call, per sub-step, per handler);
  B. the running-state invariant survives a fault in ANY transaction (per DAO call, per sub-step, per handler);
  C. what a failed transaction leaves behind, per handler (closed forms).
-/
import Kap.Proofs.C14Full
import Kap.Model.C14Fault
set_option linter.unusedSimpArgs false
set_option linter.unusedVariables false
namespace Kap.C14

@[simp] theorem FW.note_w (x : FW) (b : String) : (x.note b).w = x.w.note b := rfl
@[simp] theorem FW.note_fault (x : FW) (b : String) : (x.note b).fault = x.fault := rfl
@[simp] theorem FW.setExec_w (x : FW) (i : String) (b : Bool) : (x.setExec i b).w = x.w.setExec i b := rfl
@[simp] theorem FW.setExec_fault (x : FW) (i : String) (b : Bool) : (x.setExec i b).fault = x.fault := rfl
@[simp] theorem FW.tx_fault (x : FW) (f : Store → Store) : (x.tx f).fault = x.fault := by
  unfold FW.tx; split <;> rfl
@[simp] theorem FW.tx_exec (x : FW) (f : Store → Store) : (x.tx f).w.exec = x.w.exec := by
  unfold FW.tx; split <;> rfl
@[simp] theorem FW.tx_ntx (x : FW) (f : Store → Store) : (x.tx f).w.ntx = x.w.ntx + 1 := by
  unfold FW.tx; split <;> rfl
/-- A transaction either fails and commits nothing, or commits. -/
theorem FW.tx_store (x : FW) (f : Store → Store) :
    (x.tx f).w.store = if (x.tx f).err = true then x.w.store else f x.w.store := by
  unfold FW.tx; split <;> simp
theorem FW.tx_err (x : FW) (f : Store → Store) : (x.tx f).err = decide (x.fault = some (x.w.ntx + 1)) := by
  unfold FW.tx; split <;> simp_all
@[simp] theorem FW.tx_id_store (x : FW) : (x.tx (fun s => s)).w.store = x.w.store := by
  rw [FW.tx_store]; split <;> rfl
@[simp] theorem FW.tx_id_view (x : FW) : (x.tx (fun s => s)).w.view = x.w.view := by
  unfold World.view; rw [FW.tx_id_store, FW.tx_exec]

/-! ## A. Without a fault the fault semantics is the model -/

/-- The fault-aware world carries no fault and agrees with the plain world on everything but the coverage notes. -/
structure Sim (x : FW) (w : World) : Prop where
  nf : x.fault = none
  store : x.w.store = w.store
  exec : x.w.exec = w.exec
  ntx : x.w.ntx = w.ntx

theorem Sim.tx {x : FW} {w : World} (h : Sim x w) (f : Store → Store) :
    Sim (x.tx f) (w.tx f) ∧ (x.tx f).err = false := by
  have he : (x.tx f).err = false := by rw [FW.tx_err, h.nf]; simp
  refine ⟨⟨by simp [h.nf], ?_, ?_, ?_⟩, he⟩
  · rw [FW.tx_store, he]; simp [h.store]
  · simp [h.exec]
  · simp [World.tx, h.ntx]

theorem Sim.note {x : FW} {w : World} (h : Sim x w) (a b : String) : Sim (x.note a) (w.note b) :=
  ⟨h.nf, by simp [h.store], by simp [h.exec], by
    show (x.w.note a).ntx = (w.note b).ntx
    unfold World.note; split <;> split <;> exact h.ntx⟩

theorem Sim.noteL {x : FW} {w : World} (h : Sim x w) (a : String) : Sim (x.note a) w :=
  ⟨h.nf, by simp [h.store], by simp [h.exec], by
    show (x.w.note a).ntx = w.ntx
    unfold World.note; split <;> exact h.ntx⟩

theorem note_ntx (w : World) (b : String) : (w.note b).ntx = w.ntx := by unfold World.note; split <;> rfl

theorem Sim.noteR {x : FW} {w : World} (h : Sim x w) (b : String) : Sim x (w.note b) :=
  ⟨h.nf, by simp [h.store], by simp [h.exec], by rw [note_ntx]; exact h.ntx⟩

theorem Sim.setExec {x : FW} {w : World} (h : Sim x w) (i : String) (b : Bool) : Sim (x.setExec i b) (w.setExec i b) :=
  ⟨h.nf, h.store, by simp [World.setExec, h.exec], h.ntx⟩

theorem Sim.ite {c : Prop} [Decidable c] {x x' : FW} {w w' : World} (h : Sim x w) (h' : Sim x' w') :
    Sim (if c then x else x') (if c then w else w') := by
  split
  · exact h
  · exact h'

theorem createF_sim {x : FW} {w : World} (h : Sim x w) (id : String) (t : Task) :
    Sim (createF x id t).1 (tasksCreate w id t).1 ∧ (createF x id t).2 = (tasksCreate w id t).2 := by
  unfold createF tasksCreate
  rw [h.store]
  split
  · exact ⟨(h.tx _).1, rfl⟩
  · exact ⟨(h.tx _).1, by simp [(h.tx _).2]⟩

theorem replaceF_sim {x : FW} {w : World} (h : Sim x w) (id : String) (t : Task) :
    Sim (replaceF x id t).1 (tasksReplace w id t).1 ∧ (replaceF x id t).2 = (tasksReplace w id t).2 := by
  unfold replaceF tasksReplace
  rw [h.store]
  split
  · exact ⟨(h.tx _).1, by simp [(h.tx _).2]⟩
  · exact ⟨(h.tx _).1, rfl⟩

theorem deleteF_sim {x : FW} {w : World} (h : Sim x w) (id : String) :
    Sim (deleteF x id).1 (tasksDelete w id) ∧ (deleteF x id).2 = true := by
  unfold deleteF tasksDelete
  exact ⟨(h.tx _).1, by simp [(h.tx _).2]⟩

theorem assocF_sim {x : FW} {w : World} (h : Sim x w) (m k : String) (b : Bool) :
    Sim (assocF x m k b).1 (w.tx (·.setAssoc m k b)) ∧ (assocF x m k b).2 = true := by
  unfold assocF
  exact ⟨(h.tx _).1, by simp [(h.tx _).2]⟩

theorem tmplCreateF_sim {x : FW} {w : World} (h : Sim x w) (id s : String) :
    Sim (tmplCreateF x id s).1 (tmplCreate w id s).1 ∧ (tmplCreateF x id s).2 = (tmplCreate w id s).2 := by
  unfold tmplCreateF tmplCreate
  rw [h.store]
  split
  · exact ⟨(h.tx _).1, rfl⟩
  · exact ⟨(h.tx _).1, by simp [(h.tx _).2]⟩

theorem tmplDeleteF_sim {x : FW} {w : World} (h : Sim x w) (id : String) :
    Sim (tmplDeleteF x id).1 (tmplDelete w id) ∧ (tmplDeleteF x id).2 = true := by
  unfold tmplDeleteF tmplDelete
  exact ⟨(h.tx _).1, by simp [(h.tx _).2]⟩

theorem saveLastErrorF_sim {x : FW} {w : World} (h : Sim x w) (id : String) :
    Sim (saveLastErrorF x id) (saveLastError w id) := by
  unfold saveLastErrorF saveLastError
  rw [h.store]
  split
  · exact (h.tx _).1
  · exact h

theorem startTaskF_sim {x : FW} {w : World} (h : Sim x w) (env : Env) (fail : List String) (id : String) (t : Task) :
    Sim (startTaskF env fail x id t).1 (startTask env fail w id t).1 ∧
    (startTaskF env fail x id t).2 = (startTask env fail w id t).2 := by
  unfold startTaskF startTask
  split
  · exact ⟨h.note _ _, rfl⟩
  · split
    · exact ⟨(saveLastErrorF_sim (saveLastErrorF_sim h id) id).note _ _, rfl⟩
    · split
      · exact ⟨((saveLastErrorF_sim ((saveLastErrorF_sim h id).setExec id true) id).setExec id false).note _ _, rfl⟩
      · exact ⟨((saveLastErrorF_sim h id).setExec id true).note _ _, rfl⟩

theorem startCreatedF_sim {x : FW} {w : World} (h : Sim x w) (env : Env) (fail : List String) (id : String) (t : Task) :
    Sim (startCreatedF env fail x id t).1
      (if t.enabled then
        (if (startTask env fail w id t).2 then ((startTask env fail w id t).1.note "create-enabled", Resp.ok)
         else ((startTask env fail w id t).1.note "create-start-failed", Resp.fail))
       else (w.note "create-disabled", Resp.ok)).1 ∧
    (startCreatedF env fail x id t).2 =
      (if t.enabled then
        (if (startTask env fail w id t).2 then ((startTask env fail w id t).1.note "create-enabled", Resp.ok)
         else ((startTask env fail w id t).1.note "create-start-failed", Resp.fail))
       else (w.note "create-disabled", Resp.ok)).2 := by
  unfold startCreatedF
  obtain ⟨h1, h2⟩ := startTaskF_sim h env fail id t
  split
  · rw [h2]
    split
    · exact ⟨h1.note _ _, rfl⟩
    · exact ⟨h1.note _ _, rfl⟩
  · exact ⟨h.note _ _, rfl⟩

theorem createCommitF_sim {x : FW} {w : World} (h : Sim x w) (env : Env) (fail : List String) (id : String) (t : Task)
    (templated : Bool) :
    Sim (createCommitF env fail x id t templated).1 (createCommit Variant.fixed env fail w id t templated).1 ∧
    (createCommitF env fail x id t templated).2 = (createCommit Variant.fixed env fail w id t templated).2 := by
  unfold createCommitF createCommit
  obtain ⟨hc1, hc2⟩ := createF_sim h id t
  obtain ⟨ha1, ha2⟩ := assocF_sim hc1 t.tmpl id true
  simp only [Variant.fixed, Bool.not_false, Bool.and_true]
  rw [hc2, ha2]
  cases hb : (tasksCreate w id t).2
  · simp only [Bool.not_false, if_true]
    exact ⟨hc1.noteL _, trivial⟩
  · simp only [Bool.not_true, Bool.false_eq_true, if_false, Bool.and_false]
    cases templated
    · simp only [Bool.false_eq_true, if_false]
      exact startCreatedF_sim hc1 env fail id t
    · simp only [if_true]
      exact startCreatedF_sim (ha1.note _ _) env fail id t

theorem createTaskF_sim {x : FW} {w : World} (h : Sim x w) (env : Env) (fail : List String) (id : String) (r : TaskReq) :
    Sim (createTaskF env fail x id r).1 (createTask Variant.fixed env fail w id r).1 ∧
    (createTaskF env fail x id r).2 = (createTask Variant.fixed env fail w id r).2 := by
  unfold createTaskF createTask
  rw [h.store]
  split
  · exact ⟨h.note _ _, rfl⟩
  · cases hs : createScript w.store r with
    | none => exact ⟨h.note _ _, rfl⟩
    | some st =>
      obtain ⟨script, templated⟩ := st
      simp only [Variant.fixed, Bool.and_false, Bool.false_eq_true, if_false]
      cases hv : createValidate env r script with
      | error b => exact ⟨h.note _ _, rfl⟩
      | ok t => exact createCommitF_sim h env fail id t templated

/-! ### update -/

theorem storeDefinitionF_sim {x : FW} {w : World} (h : Sim x w) (id newId : String) (upd : Task) :
    Sim (storeDefinitionF x id newId upd).1 (storeDefinition w id newId upd).1 ∧
    (storeDefinitionF x id newId upd).2 = (storeDefinition w id newId upd).2 := by
  unfold storeDefinitionF storeDefinition
  obtain ⟨hc1, hc2⟩ := createF_sim h newId upd
  split
  · rw [hc2]
    split
    · exact ⟨((deleteF_sim hc1 id).1).note _ _, rfl⟩
    · exact ⟨hc1.note _ _, rfl⟩
  · exact replaceF_sim h id upd

theorem reassociateF_sim {x : FW} {w : World} (h : Sim x w) (id : String) (orig : Task) (m newId : String) :
    Sim (reassociateF x id orig m newId).1 (reassociate w id orig m newId) ∧ (reassociateF x id orig m newId).2 = true := by
  unfold reassociateF reassociate
  obtain ⟨hd1, hd2⟩ := assocF_sim h orig.tmpl id false
  rw [hd2]
  simp only [Bool.not_true, Bool.false_eq_true, and_false, if_false]
  have hw : Sim (if orig.tmpl ≠ "" then (assocF x orig.tmpl id false).1 else x)
      (if orig.tmpl ≠ "" then disassociate w orig.tmpl id else w) := Sim.ite hd1 h
  obtain ⟨ha1, ha2⟩ := assocF_sim hw m newId true
  exact ⟨ha1.note _ _, ha2⟩

theorem finishUpdateF_sim {x : FW} {w : World} (h : Sim x w) (env : Env) (fail : List String) (id newId : String)
    (orig upd : Task) :
    (¬ (restartRenamed env fail w id newId orig upd).2 = true →
      Sim (finishUpdateF env fail x id newId orig upd).1 (restartRenamed env fail w id newId orig upd).1 ∧
      (finishUpdateF env fail x id newId orig upd).2 = .fail) ∧
    ((restartRenamed env fail w id newId orig upd).2 = true →
      Sim (finishUpdateF env fail x id newId orig upd).1
        (applyStatus env fail (restartRenamed env fail w id newId orig upd).1 id newId orig upd).1 ∧
      (finishUpdateF env fail x id newId orig upd).2 =
        (applyStatus env fail (restartRenamed env fail w id newId orig upd).1 id newId orig upd).2) := by
  unfold finishUpdateF restartRenamed
  split
  · rename_i hc
    obtain ⟨hne, hoe, hue⟩ := hc
    obtain ⟨h1, h2⟩ := startTaskF_sim (h.setExec id false) env fail newId upd
    have h2' : (startTaskF env fail (x.setExec id false) newId upd).2 = (startTask env fail (stopTask w id) newId upd).2 := h2
    have h1' : Sim (startTaskF env fail (x.setExec id false) newId upd).1 (startTask env fail (stopTask w id) newId upd).1 := h1
    rw [h2']
    refine ⟨fun hn => ?_, fun hy => ?_⟩
    · simp only at hn
      rw [if_neg hn]
      exact ⟨h1'.note _ _, rfl⟩
    · simp only at hy
      rw [if_pos hy]
      unfold applyStatus
      simp only [hoe, hue, bne_self_eq_false, Bool.false_eq_true, if_false, if_true]
      exact ⟨(h1'.note _ _).noteR _, trivial⟩
  · rename_i hc
    refine ⟨fun hn => absurd rfl hn, fun _ => ?_⟩
    unfold applyStatus
    split
    · split
      · obtain ⟨h1, h2⟩ := startTaskF_sim h env fail newId upd
        rw [h2]
        split
        · exact ⟨h1.note _ _, rfl⟩
        · exact ⟨h1.note _ _, rfl⟩
      · exact ⟨(h.setExec id false).note _ _, rfl⟩
    · exact ⟨h.note _ _, rfl⟩

/-- The tail of updateCommit, as one expression. -/
def finishUpdate (env : Env) (fail : List String) (W : World) (id newId : String) (orig upd : Task) : World × Resp :=
  if !(restartRenamed env fail W id newId orig upd).2 then ((restartRenamed env fail W id newId orig upd).1, .fail)
  else applyStatus env fail (restartRenamed env fail W id newId orig upd).1 id newId orig upd

theorem finishUpdateF_sim' {x : FW} {w : World} (h : Sim x w) (env : Env) (fail : List String) (id newId : String)
    (orig upd : Task) :
    Sim (finishUpdateF env fail x id newId orig upd).1 (finishUpdate env fail w id newId orig upd).1 ∧
    (finishUpdateF env fail x id newId orig upd).2 = (finishUpdate env fail w id newId orig upd).2 := by
  unfold finishUpdate
  obtain ⟨h1, h2⟩ := finishUpdateF_sim h env fail id newId orig upd
  cases hr : (restartRenamed env fail w id newId orig upd).2
  · simp only [Bool.not_false, if_true]
    exact h1 (by rw [hr]; simp)
  · simp only [Bool.not_true, Bool.false_eq_true, if_false]
    exact h2 hr

theorem updateCommit_eq (env : Env) (fail : List String) (w : World) (id newId : String) (orig upd : Task) (reassoc : Bool) :
    updateCommit Variant.fixed env fail w id newId orig upd reassoc =
      if !(storeDefinition w id newId upd).2 then ((storeDefinition w id newId upd).1, .fail)
      else finishUpdate env fail
        (if reassoc then reassociate (storeDefinition w id newId upd).1 id orig upd.tmpl newId else (storeDefinition w id newId upd).1)
        id newId orig upd := by
  unfold updateCommit finishUpdate
  simp only [Variant.fixed, Bool.not_false, Bool.and_true]

theorem updateCommitF_sim {x : FW} {w : World} (h : Sim x w) (env : Env) (fail : List String) (id newId : String)
    (orig upd : Task) (m : String) (hm : upd.tmpl = m) :
    Sim (updateCommitF env fail x id newId orig upd m).1
      (updateCommit Variant.fixed env fail w id newId orig upd (needsReassoc Variant.fixed id newId orig m)).1 ∧
    (updateCommitF env fail x id newId orig upd m).2 =
      (updateCommit Variant.fixed env fail w id newId orig upd (needsReassoc Variant.fixed id newId orig m)).2 := by
  rw [updateCommit_eq]
  unfold updateCommitF
  obtain ⟨hs1, hs2⟩ := storeDefinitionF_sim h id newId upd
  rw [hs2, hm]
  cases hb : (storeDefinition w id newId upd).2
  · simp only [Bool.not_false, if_true]
    exact ⟨hs1.noteL _, trivial⟩
  · simp only [Bool.not_true, Bool.false_eq_true, if_false]
    cases hr : needsReassoc Variant.fixed id newId orig m
    · simp only [Bool.false_eq_true, if_false]
      exact finishUpdateF_sim' hs1 env fail id newId orig upd
    · simp only [if_true]
      obtain ⟨hr1, hr2⟩ := reassociateF_sim hs1 id orig m newId
      rw [hr2]
      simp only [if_true]
      exact finishUpdateF_sim' hr1 env fail id newId orig upd

theorem updateValidate_tmpl {env : Env} {orig : Task} {r : TaskReq} {script m : String} {upd : Task}
    (h : updateValidate env orig r script m = .ok upd) : upd.tmpl = m := by
  unfold updateValidate at h
  repeat' split at h
  all_goals first
    | (cases h; done)
    | (injection h with h; rw [← h]; rfl)

theorem updateTaskF_sim {x : FW} {w : World} (h : Sim x w) (env : Env) (fail : List String) (id : String) (r : TaskReq) :
    Sim (updateTaskF env fail x id r).1 (updateTask Variant.fixed env fail w id r).1 ∧
    (updateTaskF env fail x id r).2 = (updateTask Variant.fixed env fail w id r).2 := by
  unfold updateTaskF updateTask
  rw [h.store]
  cases ho : w.store.tasks id with
  | none => exact ⟨h.note _ _, rfl⟩
  | some orig =>
    simp only []
    cases hs : updateScript env w.store orig r with
    | none => exact ⟨h.note _ _, rfl⟩
    | some sm =>
      obtain ⟨script, m⟩ := sm
      simp only []
      have hv0 : (needsReassoc Variant.fixed id (if r.newId ≠ "" then r.newId else id) orig m && Variant.fixed.assocEarly) = false := by
        simp [Variant.fixed]
      rw [hv0]
      simp only [Bool.false_eq_true, if_false]
      cases hv : updateValidate env orig r script m with
      | error b => exact ⟨h.note _ _, rfl⟩
      | ok upd => exact updateCommitF_sim h env fail id _ orig upd m (updateValidate_tmpl hv)

/-! ### delete, templates -/

theorem deleteTaskF_sim {x : FW} {w : World} (h : Sim x w) (id : String) :
    Sim (deleteTaskF x id).1 (deleteTask w id).1 ∧ (deleteTaskF x id).2 = (deleteTask w id).2 := by
  unfold deleteTaskF deleteTask
  obtain ⟨h0, _⟩ := h.tx (fun s => s)
  rw [h0.store]
  cases ht : (w.tx (fun s => s)).store.tasks id with
  | none => exact ⟨h0.note _ _, rfl⟩
  | some t =>
    simp only []
    have h1 : Sim (if t.tmpl ≠ "" then (assocF (x.tx (fun s => s)) t.tmpl id false).1.note "delete-templated" else x.tx (fun s => s))
        (if t.tmpl ≠ "" then (disassociate (w.tx (fun s => s)) t.tmpl id).note "delete-templated" else w.tx (fun s => s)) :=
      Sim.ite ((assocF_sim h0 t.tmpl id false).1.note _ _) h0
    have h2 : Sim (if t.enabled then ((if t.tmpl ≠ "" then (assocF (x.tx (fun s => s)) t.tmpl id false).1.note "delete-templated" else x.tx (fun s => s)).setExec id false).note "delete-enabled"
          else (if t.tmpl ≠ "" then (assocF (x.tx (fun s => s)) t.tmpl id false).1.note "delete-templated" else x.tx (fun s => s)).note "delete-disabled")
        (if t.enabled then (stopTask (if t.tmpl ≠ "" then (disassociate (w.tx (fun s => s)) t.tmpl id).note "delete-templated" else w.tx (fun s => s)) id).note "delete-enabled"
          else (if t.tmpl ≠ "" then (disassociate (w.tx (fun s => s)) t.tmpl id).note "delete-templated" else w.tx (fun s => s)).note "delete-disabled") :=
      Sim.ite ((h1.setExec id false).note _ _) (h1.note _ _)
    obtain ⟨h3, h4⟩ := deleteF_sim h2 id
    rw [h4]
    exact ⟨h3, rfl⟩

theorem createTemplateF_sim {x : FW} {w : World} (h : Sim x w) (env : Env) (id s : String) :
    Sim (createTemplateF env x id s).1 (createTemplate env w id s).1 ∧
    (createTemplateF env x id s).2 = (createTemplate env w id s).2 := by
  unfold createTemplateF createTemplate
  rw [h.store]
  obtain ⟨h1, h2⟩ := tmplCreateF_sim h id s
  split
  · exact ⟨h.note _ _, rfl⟩
  · split
    · exact ⟨h.note _ _, rfl⟩
    · rw [h2]; exact ⟨h1.note _ _, rfl⟩

theorem deleteTemplateF_sim {x : FW} {w : World} (h : Sim x w) (id : String) :
    Sim (deleteTemplateF x id).1 (deleteTemplate w id).1 ∧ (deleteTemplateF x id).2 = (deleteTemplate w id).2 := by
  unfold deleteTemplateF deleteTemplate
  obtain ⟨h1, h2⟩ := tmplDeleteF_sim h id
  rw [h2]
  exact ⟨h1.note _ _, rfl⟩

/-- **Without a fault the fault semantics is the model**: same store (hence same view and same enumerations),
same executing set, same number of transactions, same answer — every request the fault semantics covers (and
trivially the others, which it delegates). -/
theorem handleF_none (env : Env) (fail : List String) (w : World) (op : Op) :
    (handleF env fail none w op).1.store = (handle Variant.fixed env fail w op).1.store ∧
    (handleF env fail none w op).1.exec = (handle Variant.fixed env fail w op).1.exec ∧
    (handleF env fail none w op).1.ntx = (handle Variant.fixed env fail w op).1.ntx ∧
    (handleF env fail none w op).2 = (handle Variant.fixed env fail w op).2 := by
  have h0 : Sim ⟨w, none, false⟩ w := ⟨rfl, rfl, rfl, rfl⟩
  have pack : ∀ {y : FW × Resp} {z : World × Resp}, (Sim y.1 z.1 ∧ y.2 = z.2) →
      y.1.w.store = z.1.store ∧ y.1.w.exec = z.1.exec ∧ y.1.w.ntx = z.1.ntx ∧ y.2 = z.2 :=
    fun h => ⟨h.1.store, h.1.exec, h.1.ntx, h.2⟩
  cases op <;> simp only [handleF, handle]
  · exact pack (createTaskF_sim h0 env fail _ _)
  · exact pack (updateTaskF_sim h0 env fail _ _)
  · exact pack (deleteTaskF_sim h0 _)
  · exact pack (createTemplateF_sim h0 env _ _)
  · simp
  · exact pack (deleteTemplateF_sim h0 _)
  · simp
  · simp

/-! ## B. The running-state invariant under a fault in ANY transaction -/

theorem FW.tx_view (x : FW) (f : Store → Store) :
    (x.tx f).w.view = if (x.tx f).err = true then x.w.view
      else ⟨(f x.w.store).tasks, (f x.w.store).tmpls, (f x.w.store).assoc, x.w.exec⟩ := by
  unfold World.view
  rw [FW.tx_store, FW.tx_exec]
  split <;> rfl

theorem createF_view (x : FW) (id : String) (t : Task) :
    (createF x id t).1.w.view = if (createF x id t).2 = true then x.w.view.put id t else x.w.view := by
  unfold createF
  split
  · simp
  · simp only [FW.tx_view]
    cases (x.tx (·.putTask id t)).err <;> simp <;> rfl

theorem createF_ok_fresh (x : FW) (id : String) (t : Task) (h : (createF x id t).2 = true) : x.w.store.tasks id = none := by
  unfold createF at h
  split at h
  · cases h
  · rename_i hn
    cases hx : x.w.store.tasks id
    · rfl
    · rw [hx] at hn; simp at hn

theorem replaceF_view (x : FW) (id : String) (t : Task) :
    (replaceF x id t).1.w.view = if (replaceF x id t).2 = true then x.w.view.put id t else x.w.view := by
  unfold replaceF
  split
  · simp only [FW.tx_view]
    cases (x.tx (·.putTask id t)).err <;> simp <;> rfl
  · simp

theorem deleteF_view (x : FW) (id : String) :
    (deleteF x id).1.w.view = if (deleteF x id).2 = true then x.w.view.del id else x.w.view := by
  unfold deleteF
  simp only [FW.tx_view]
  cases (x.tx (·.delTask id)).err <;> simp <;> rfl

theorem assocF_view (x : FW) (m k : String) (b : Bool) :
    (assocF x m k b).1.w.view = if (assocF x m k b).2 = true then x.w.view.setAssoc m k b else x.w.view := by
  unfold assocF
  simp only [FW.tx_view]
  cases (x.tx (·.setAssoc m k b)).err <;> simp <;> rfl

theorem tmplCreateF_view (x : FW) (id s : String) :
    (tmplCreateF x id s).1.w.view = if (tmplCreateF x id s).2 = true then x.w.view.putTmpl id s else x.w.view := by
  unfold tmplCreateF
  split
  · simp
  · simp only [FW.tx_view]
    cases (x.tx (·.putTmpl id s)).err <;> simp <;> rfl

theorem tmplDeleteF_view (x : FW) (id : String) :
    (tmplDeleteF x id).1.w.view = if (tmplDeleteF x id).2 = true then x.w.view.delTmpl id else x.w.view := by
  unfold tmplDeleteF
  simp only [FW.tx_view]
  cases (x.tx (·.delTmpl id)).err <;> simp <;> rfl

@[simp] theorem saveLastErrorF_view (x : FW) (id : String) : (saveLastErrorF x id).w.view = x.w.view := by
  unfold saveLastErrorF; split <;> simp

theorem startTaskF_ok (env : Env) (fail : List String) (x : FW) (id : String) (t : Task) :
    (startTaskF env fail x id t).2 = startOK env fail id t := by
  unfold startTaskF startOK; split
  · simp_all
  · split
    · simp_all
    · split <;> simp_all

/-- A start under faults: the storage errors of saveLastError are ignored, the running state is the model's. -/
theorem startTaskF_view (env : Env) (fail : List String) (x : FW) (id : String) (t : Task) :
    (startTaskF env fail x id t).1.w.view =
      if startOK env fail id t then x.w.view.setExec id true
      else if batchRefused env fail id t then x.w.view.setExec id false else x.w.view := by
  unfold startTaskF startOK batchRefused; split
  · simp_all
  · split
    · simp_all
    · split
      · simp_all [View.setExec_idem]
      · simp_all

theorem startTaskF_inv (env : Env) (fail : List String) (x : FW) (id : String) (t t' : Task)
    (h : ExecInv x.w) (ht : x.w.store.tasks id = some t') (he : t'.enabled = true) :
    ExecInv (startTaskF env fail x id t).1.w := by
  unfold ExecInv; rw [startTaskF_view]; split
  · exact View.EI.start h ht he
  · split
    · exact View.EI.stop h id
    · exact h

theorem assocF_tasks (x : FW) (m k : String) (b : Bool) :
    (assocF x m k b).1.w.view.tasks = x.w.view.tasks ∧ (assocF x m k b).1.w.view.exec = x.w.view.exec := by
  rw [assocF_view]; split <;> exact ⟨rfl, rfl⟩

theorem startCreatedF_inv (env : Env) (fail : List String) (x : FW) (id : String) (t : Task)
    (h : ExecInv x.w) (ht : x.w.store.tasks id = some t) : ExecInv (startCreatedF env fail x id t).1.w := by
  unfold startCreatedF
  split
  · rename_i he
    have := startTaskF_inv env fail x id t t h ht he
    split <;> (unfold ExecInv; rw [FW.note_w, note_view]; exact this)
  · unfold ExecInv; rw [FW.note_w, note_view]; exact h

theorem createCommitF_inv (env : Env) (fail : List String) (x : FW) (id : String) (t : Task) (templated : Bool)
    (h : ExecInv x.w) : ExecInv (createCommitF env fail x id t templated).1.w := by
  unfold createCommitF
  have hv := createF_view x id t
  cases hc : (createF x id t).2
  · -- tasks.Create failed: nothing stored
    simp only [Bool.not_false, if_true]
    unfold ExecInv; rw [FW.note_w, note_view, hv, hc]; exact h
  · simp only [Bool.not_true, Bool.false_eq_true, if_false]
    have hn := createF_ok_fresh x id t hc
    rw [hc] at hv; simp only [if_true] at hv
    have h1 : ExecInv (createF x id t).1.w := by unfold ExecInv; rw [hv]; exact View.EI.put_fresh h hn t
    have ht1 : (createF x id t).1.w.store.tasks id = some t := by
      have := congrArg View.tasks hv; rw [view_tasks] at this; rw [this]; simp [View.put]
    have ha := assocF_tasks (createF x id t).1 t.tmpl id true
    have h2 : ExecInv (assocF (createF x id t).1 t.tmpl id true).1.w := fun i hi => by
      rw [ha.2] at hi; obtain ⟨t', ht', he⟩ := h1 i hi; exact ⟨t', by rw [ha.1]; exact ht', he⟩
    have ht2 : (assocF (createF x id t).1 t.tmpl id true).1.w.store.tasks id = some t := by
      have := ha.1; rw [view_tasks, view_tasks] at this; rw [this]; exact ht1
    split
    · unfold ExecInv; rw [FW.note_w, note_view]; exact h2
    · refine startCreatedF_inv env fail _ id t ?_ ?_
      · split
        · unfold ExecInv; rw [FW.note_w, note_view]; exact h2
        · exact h1
      · split
        · rw [FW.note_w, note_store]; exact ht2
        · exact ht1

theorem createTaskF_inv (env : Env) (fail : List String) (x : FW) (id : String) (r : TaskReq) (h : ExecInv x.w) :
    ExecInv (createTaskF env fail x id r).1.w := by
  unfold createTaskF
  split
  · unfold ExecInv; rw [FW.note_w, note_view]; exact h
  · split
    · unfold ExecInv; rw [FW.note_w, note_view]; exact h
    · split
      · unfold ExecInv; rw [FW.note_w, note_view]; exact h
      · exact createCommitF_inv env fail x id _ _ h

/-! ### update under faults -/

theorem storeDefinitionF_failed (x : FW) (id newId : String) (upd : Task)
    (hok : (storeDefinitionF x id newId upd).2 = false) : (storeDefinitionF x id newId upd).1.w.view = x.w.view := by
  unfold storeDefinitionF at hok ⊢
  split
  · rename_i hne
    rw [if_pos hne] at hok
    split
    · rename_i hc; rw [if_pos hc] at hok; cases hok
    · rename_i hc
      rw [FW.note_w, note_view, createF_view, if_neg hc]
  · rename_i hne
    rw [if_neg hne] at hok
    rw [replaceF_view, hok]; simp

theorem storeDefinitionF_flight (x : FW) (id newId : String) (upd orig : Task) (h : ExecInv x.w)
    (ho : x.w.store.tasks id = some orig) (hok : (storeDefinitionF x id newId upd).2 = true) :
    Flight id newId upd x.w.exec (storeDefinitionF x id newId upd).1.w.view := by
  unfold storeDefinitionF at hok ⊢
  split
  · rename_i hne
    rw [if_pos hne] at hok
    split
    · rename_i hc
      have hn := createF_ok_fresh x newId upd hc
      have hv := createF_view x newId upd
      rw [hc] at hv; simp only [if_true] at hv
      have hne' : newId ≠ id := fun e => hne e.symm
      rw [FW.note_w, note_view, deleteF_view, hv]
      split
      · -- Delete(old) committed
        refine ⟨View.EI.del_x (View.EI.put_fresh h hn upd) id, ?_, rfl⟩
        simp [View.del, View.put, hne']
      · -- Delete(old) failed: both IDs stay stored
        exact ⟨(View.EI.put_fresh h hn upd).weaken id, by simp [View.put], rfl⟩
    · rename_i hc; rw [if_neg hc] at hok; cases hok
  · rename_i hne
    rw [if_neg hne] at hok
    simp at hne
    subst hne
    rw [replaceF_view, hok]
    exact ⟨View.EI.put_x h id upd, by simp [View.put], rfl⟩

theorem reassociateF_tasks (x : FW) (id : String) (orig : Task) (m newId : String) :
    (reassociateF x id orig m newId).1.w.view.tasks = x.w.view.tasks ∧
    (reassociateF x id orig m newId).1.w.view.exec = x.w.view.exec := by
  unfold reassociateF
  have h1 := assocF_tasks x orig.tmpl id false
  split
  · exact h1
  · rw [FW.note_w, note_view]
    have h2 := assocF_tasks (if orig.tmpl ≠ "" then (assocF x orig.tmpl id false).1 else x) m newId true
    refine ⟨h2.1.trans ?_, h2.2.trans ?_⟩
    · split
      · exact h1.1
      · rfl
    · split
      · exact h1.2
      · rfl

theorem Flight.of_te {id newId : String} {upd : Task} {e0 : String → Bool} {V V' : View}
    (h : Flight id newId upd e0 V) (ht : V'.tasks = V.tasks) (he : V'.exec = V.exec) : Flight id newId upd e0 V' :=
  ⟨fun i hi => by rw [he] at hi; rw [ht]; exact h.1 i hi, by rw [ht]; exact h.2.1, by rw [he]; exact h.2.2⟩

/-- From the in-flight state through "restart when renamed" / "apply the status change" under faults. -/
theorem finishUpdateF_inv (env : Env) (fail : List String) (X : FW) (id newId : String) (orig upd : Task)
    (hf : Flight id newId upd X.w.exec X.w.view) (hex : X.w.exec id = true → orig.enabled = true) :
    ExecInv (finishUpdateF env fail X id newId orig upd).1.w := by
  obtain ⟨hx, hnew, _⟩ := hf
  unfold finishUpdateF
  split
  · rename_i hc
    obtain ⟨hne, hoe, hue⟩ := hc
    have hstop : ExecInv (X.setExec id false).w := by
      unfold ExecInv; rw [FW.setExec_w, setExec_view]; exact hx.stop
    have hst := startTaskF_inv env fail (X.setExec id false) newId upd upd hstop hnew hue
    split <;> (unfold ExecInv; rw [FW.note_w, note_view]; exact hst)
  · rename_i hc
    have hoff : orig.enabled = false → X.w.view.EI := fun hd =>
      hx.close (fun hxe => by rw [hex hxe] at hd; cases hd)
    split
    · rename_i hch
      split
      · rename_i hue
        have hoe : orig.enabled = false := by
          cases hoe : orig.enabled
          · rfl
          · rw [hoe, hue] at hch; simp at hch
        have hst := startTaskF_inv env fail X newId upd upd (hoff hoe) hnew hue
        split <;> (unfold ExecInv; rw [FW.note_w, note_view]; exact hst)
      · unfold ExecInv; rw [FW.note_w, note_view, FW.setExec_w, setExec_view]; exact hx.stop
    · rename_i hch
      have heq : orig.enabled = upd.enabled := by
        cases h1 : orig.enabled <;> cases h2 : upd.enabled <;> simp [h1, h2] at hch <;> rfl
      unfold ExecInv; rw [FW.note_w, note_view]
      exact hx.close (fun hxe => by
        have hoe := hex hxe
        have hue : upd.enabled = true := by rw [← heq]; exact hoe
        have : id = newId := by
          cases Decidable.em (id = newId) with
          | inl h => exact h
          | inr h => exact absurd ⟨h, hoe, hue⟩ hc
        subst this
        exact ⟨upd, hnew, hue⟩)

theorem updateCommitF_inv (env : Env) (fail : List String) (x : FW) (id newId : String) (orig upd : Task) (m : String)
    (h : ExecInv x.w) (ho : x.w.store.tasks id = some orig) :
    ExecInv (updateCommitF env fail x id newId orig upd m).1.w := by
  unfold updateCommitF
  cases hs : (storeDefinitionF x id newId upd).2
  · simp only [Bool.not_false, if_true]
    unfold ExecInv; rw [FW.note_w, note_view, storeDefinitionF_failed x id newId upd hs]; exact h
  · simp only [Bool.not_true, Bool.false_eq_true, if_false]
    have hf := storeDefinitionF_flight x id newId upd orig h ho hs
    have hexec : (storeDefinitionF x id newId upd).1.w.exec = x.w.exec := hf.2.2
    have hex0 : x.w.exec id = true → orig.enabled = true := fun he => by
      obtain ⟨t, ht, hen⟩ := h id he
      rw [view_tasks, ho] at ht; cases ht; exact hen
    split
    · have hr := reassociateF_tasks (storeDefinitionF x id newId upd).1 id orig m newId
      have hf1 : Flight id newId upd x.w.exec (reassociateF (storeDefinitionF x id newId upd).1 id orig m newId).1.w.view :=
        hf.of_te hr.1 hr.2
      have hexec1 : (reassociateF (storeDefinitionF x id newId upd).1 id orig m newId).1.w.exec = x.w.exec := hf1.2.2
      exact finishUpdateF_inv env fail _ id newId orig upd (by rw [hexec1]; exact hf1) (by rw [hexec1]; exact hex0)
    · exact finishUpdateF_inv env fail _ id newId orig upd (by rw [hexec]; exact hf) (by rw [hexec]; exact hex0)

theorem updateTaskF_inv (env : Env) (fail : List String) (x : FW) (id : String) (r : TaskReq) (h : ExecInv x.w) :
    ExecInv (updateTaskF env fail x id r).1.w := by
  unfold updateTaskF
  split
  · unfold ExecInv; rw [FW.note_w, note_view]; exact h
  · rename_i orig ho
    split
    · unfold ExecInv; rw [FW.note_w, note_view]; exact h
    · split
      · unfold ExecInv; rw [FW.note_w, note_view]; exact h
      · exact updateCommitF_inv env fail x id _ orig _ _ h ho

/-! ### delete, templates under faults -/

theorem deleteTaskF_inv (x : FW) (id : String) (h : ExecInv x.w) : ExecInv (deleteTaskF x id).1.w := by
  unfold deleteTaskF
  rw [FW.tx_id_store]
  split
  · unfold ExecInv; rw [FW.note_w, note_view, FW.tx_id_view]; exact h
  · rename_i t ht
    simp only []
    -- x1: association dropped (or not: error logged)
    have h1 : ∀ (X1 : FW), X1.w.view.tasks = x.w.view.tasks → X1.w.view.exec = x.w.view.exec →
        ExecInv (deleteF (if t.enabled then (X1.setExec id false).note "delete-enabled" else X1.note "delete-disabled") id).1.w := by
      intro X1 e1 e2
      have hX1 : X1.w.view.EI := fun i hi => by rw [e2] at hi; rw [e1]; exact h i hi
      unfold ExecInv
      rw [deleteF_view]
      by_cases hen : t.enabled = true
      · simp only [hen, if_true, FW.note_w, note_view, FW.setExec_w, setExec_view]
        split
        · refine (View.EI.del_x (hX1.stop id) id).close (fun hx => ?_)
          simp [View.del, View.setExec] at hx
        · exact hX1.stop id
      · simp only [hen, Bool.false_eq_true, if_false, FW.note_w, note_view]
        have hd : t.enabled = false := by simpa using hen
        split
        · refine (View.EI.del_x hX1 id).close (fun hx => ?_)
          have : x.w.view.exec id = false := h.not_exec_disabled (t := t) ht hd
          simp only [View.del] at hx
          rw [e2, this] at hx; cases hx
        · exact hX1
    refine h1 _ ?_ ?_
    · split
      · rw [FW.note_w, note_view, (assocF_tasks _ _ _ _).1, FW.tx_id_view]
      · rw [FW.tx_id_view]
    · split
      · rw [FW.note_w, note_view, (assocF_tasks _ _ _ _).2, FW.tx_id_view]
      · rw [FW.tx_id_view]

theorem createTemplateF_inv (env : Env) (x : FW) (id s : String) (h : ExecInv x.w) :
    ExecInv (createTemplateF env x id s).1.w := by
  unfold createTemplateF
  split
  · unfold ExecInv; rw [FW.note_w, note_view]; exact h
  · split
    · unfold ExecInv; rw [FW.note_w, note_view]; exact h
    · unfold ExecInv; rw [FW.note_w, note_view, tmplCreateF_view]
      split
      · exact View.EI.putTmpl h _ _
      · exact h

theorem deleteTemplateF_inv (x : FW) (id : String) (h : ExecInv x.w) : ExecInv (deleteTemplateF x id).1.w := by
  unfold deleteTemplateF ExecInv
  rw [FW.note_w, note_view, tmplDeleteF_view]
  split
  · exact View.EI.delTmpl h _
  · exact h

/-- **The running-state invariant survives a fault in any transaction of any request** (`fault = none` included). -/
theorem handleF_inv (env : Env) (fail : List String) (fault : Option Nat) (w : World) (op : Op) (h : ExecInv w) :
    ExecInv (handleF env fail fault w op).1 := by
  cases op <;> simp only [handleF]
  · exact createTaskF_inv env fail ⟨w, fault, false⟩ _ _ h
  · exact updateTaskF_inv env fail ⟨w, fault, false⟩ _ _ h
  · exact deleteTaskF_inv ⟨w, fault, false⟩ _ h
  · exact createTemplateF_inv env ⟨w, fault, false⟩ _ _ h
  · exact handle_inv Variant.fixed env fail w _ h
  · exact deleteTemplateF_inv ⟨w, fault, false⟩ _ h
  · exact handle_inv Variant.fixed env fail w _ h
  · exact handle_inv Variant.fixed env fail w _ h

/-! ## C. What a failed transaction leaves behind -/

/-- Agreement on store, executing set and transaction count, WHATEVER the fault oracle says. -/
structure Sim0 (x : FW) (w : World) : Prop where
  store : x.w.store = w.store
  exec : x.w.exec = w.exec
  ntx : x.w.ntx = w.ntx

theorem Sim0.rfl (x : FW) : Sim0 x x.w := ⟨_root_.rfl, _root_.rfl, _root_.rfl⟩

/-- A transaction that is not the failing one commits. -/
theorem Sim0.tx {x : FW} {w : World} (h : Sim0 x w) (f : Store → Store) (hk : x.fault ≠ some (x.w.ntx + 1)) :
    Sim0 (x.tx f) (w.tx f) ∧ (x.tx f).err = false := by
  have he : (x.tx f).err = false := by rw [FW.tx_err]; simp [hk]
  refine ⟨⟨?_, ?_, ?_⟩, he⟩
  · rw [FW.tx_store, he]; simp [h.store]
  · simp [h.exec]
  · simp [World.tx, h.ntx]

/-- A transaction that writes nothing (saveLastError, snapshots.Delete) leaves the same file whether it fails or not. -/
theorem Sim0.tx_id {x : FW} {w : World} (h : Sim0 x w) : Sim0 (x.tx (fun s => s)) (w.tx (fun s => s)) :=
  ⟨by simp [h.store], by simp [h.exec], by simp [World.tx, h.ntx]⟩

theorem Sim0.note {x : FW} {w : World} (h : Sim0 x w) (a b : String) : Sim0 (x.note a) (w.note b) :=
  ⟨by simp [h.store], by simp [h.exec], by rw [FW.note_w, note_ntx, note_ntx]; exact h.ntx⟩
theorem Sim0.noteL {x : FW} {w : World} (h : Sim0 x w) (a : String) : Sim0 (x.note a) w :=
  ⟨by simp [h.store], by simp [h.exec], by rw [FW.note_w, note_ntx]; exact h.ntx⟩
theorem Sim0.noteR {x : FW} {w : World} (h : Sim0 x w) (b : String) : Sim0 x (w.note b) :=
  ⟨by simp [h.store], by simp [h.exec], by rw [note_ntx]; exact h.ntx⟩
theorem Sim0.setExec {x : FW} {w : World} (h : Sim0 x w) (i : String) (b : Bool) : Sim0 (x.setExec i b) (w.setExec i b) :=
  ⟨h.store, by simp [World.setExec, h.exec], h.ntx⟩
theorem Sim0.ite {c : Prop} [Decidable c] {x x' : FW} {w w' : World} (h : Sim0 x w) (h' : Sim0 x' w') :
    Sim0 (if c then x else x') (if c then w else w') := by
  split
  · exact h
  · exact h'
theorem Sim0.view {x : FW} {w : World} (h : Sim0 x w) : x.w.view = w.view := by
  unfold World.view; rw [h.store, h.exec]

theorem saveLastErrorF_sim0 {x : FW} {w : World} (h : Sim0 x w) (id : String) :
    Sim0 (saveLastErrorF x id) (saveLastError w id) := by
  unfold saveLastErrorF saveLastError
  rw [h.store]
  split
  · exact h.tx_id
  · exact h

/-- Starting a task only runs saveLastError transactions, whose errors are ignored: under ANY fault it is the model. -/
theorem startTaskF_sim0 {x : FW} {w : World} (h : Sim0 x w) (env : Env) (fail : List String) (id : String) (t : Task) :
    Sim0 (startTaskF env fail x id t).1 (startTask env fail w id t).1 ∧
    (startTaskF env fail x id t).2 = (startTask env fail w id t).2 := by
  unfold startTaskF startTask
  split
  · exact ⟨h.note _ _, rfl⟩
  · split
    · exact ⟨(saveLastErrorF_sim0 (saveLastErrorF_sim0 h id) id).note _ _, rfl⟩
    · split
      · exact ⟨((saveLastErrorF_sim0 ((saveLastErrorF_sim0 h id).setExec id true) id).setExec id false).note _ _, rfl⟩
      · exact ⟨((saveLastErrorF_sim0 h id).setExec id true).note _ _, rfl⟩

theorem startCreatedF_sim0 {x : FW} {w : World} (h : Sim0 x w) (env : Env) (fail : List String) (id : String) (t : Task) :
    Sim0 (startCreatedF env fail x id t).1
      (if t.enabled then
        (if (startTask env fail w id t).2 then ((startTask env fail w id t).1.note "create-enabled", Resp.ok)
         else ((startTask env fail w id t).1.note "create-start-failed", Resp.fail))
       else (w.note "create-disabled", Resp.ok)).1 ∧
    (startCreatedF env fail x id t).2 =
      (if t.enabled then
        (if (startTask env fail w id t).2 then ((startTask env fail w id t).1.note "create-enabled", Resp.ok)
         else ((startTask env fail w id t).1.note "create-start-failed", Resp.fail))
       else (w.note "create-disabled", Resp.ok)).2 := by
  unfold startCreatedF
  obtain ⟨h1, h2⟩ := startTaskF_sim0 h env fail id t
  split
  · rw [h2]
    split
    · exact ⟨h1.note _ _, rfl⟩
    · exact ⟨h1.note _ _, rfl⟩
  · exact ⟨h.note _ _, rfl⟩

theorem finishUpdateF_sim0 {x : FW} {w : World} (h : Sim0 x w) (env : Env) (fail : List String) (id newId : String)
    (orig upd : Task) :
    (¬ (restartRenamed env fail w id newId orig upd).2 = true →
      Sim0 (finishUpdateF env fail x id newId orig upd).1 (restartRenamed env fail w id newId orig upd).1 ∧
      (finishUpdateF env fail x id newId orig upd).2 = .fail) ∧
    ((restartRenamed env fail w id newId orig upd).2 = true →
      Sim0 (finishUpdateF env fail x id newId orig upd).1
        (applyStatus env fail (restartRenamed env fail w id newId orig upd).1 id newId orig upd).1 ∧
      (finishUpdateF env fail x id newId orig upd).2 =
        (applyStatus env fail (restartRenamed env fail w id newId orig upd).1 id newId orig upd).2) := by
  unfold finishUpdateF restartRenamed
  split
  · rename_i hc
    obtain ⟨hne, hoe, hue⟩ := hc
    obtain ⟨h1, h2⟩ := startTaskF_sim0 (h.setExec id false) env fail newId upd
    have h2' : (startTaskF env fail (x.setExec id false) newId upd).2 = (startTask env fail (stopTask w id) newId upd).2 := h2
    have h1' : Sim0 (startTaskF env fail (x.setExec id false) newId upd).1 (startTask env fail (stopTask w id) newId upd).1 := h1
    rw [h2']
    refine ⟨fun hn => ?_, fun hy => ?_⟩
    · simp only at hn
      rw [if_neg hn]
      exact ⟨h1'.note _ _, rfl⟩
    · simp only at hy
      rw [if_pos hy]
      unfold applyStatus
      simp only [hoe, hue, bne_self_eq_false, Bool.false_eq_true, if_false, if_true]
      exact ⟨(h1'.note _ _).noteR _, trivial⟩
  · rename_i hc
    refine ⟨fun hn => absurd rfl hn, fun _ => ?_⟩
    unfold applyStatus
    split
    · split
      · obtain ⟨h1, h2⟩ := startTaskF_sim0 h env fail newId upd
        rw [h2]
        split
        · exact ⟨h1.note _ _, rfl⟩
        · exact ⟨h1.note _ _, rfl⟩
      · exact ⟨(h.setExec id false).note _ _, rfl⟩
    · exact ⟨h.note _ _, rfl⟩

theorem finishUpdateF_sim0' {x : FW} {w : World} (h : Sim0 x w) (env : Env) (fail : List String) (id newId : String)
    (orig upd : Task) :
    Sim0 (finishUpdateF env fail x id newId orig upd).1 (finishUpdate env fail w id newId orig upd).1 ∧
    (finishUpdateF env fail x id newId orig upd).2 = (finishUpdate env fail w id newId orig upd).2 := by
  unfold finishUpdate
  obtain ⟨h1, h2⟩ := finishUpdateF_sim0 h env fail id newId orig upd
  cases hr : (restartRenamed env fail w id newId orig upd).2
  · simp only [Bool.not_false, if_true]
    exact h1 (by rw [hr]; simp)
  · simp only [Bool.not_true, Bool.false_eq_true, if_false]
    exact h2 hr

@[simp] theorem FW.note_ntx (x : FW) (b : String) : (x.note b).w.ntx = x.w.ntx := by rw [FW.note_w, Kap.C14.note_ntx]
theorem wsetExec_ntx (w : World) (i : String) (b : Bool) : (w.setExec i b).ntx = w.ntx := rfl
@[simp] theorem FW.setExec_ntx (x : FW) (i : String) (b : Bool) : (x.setExec i b).w.ntx = x.w.ntx := rfl

theorem createF_fault (x : FW) (id : String) (t : Task) : (createF x id t).1.fault = x.fault := by
  unfold createF; split <;> simp
theorem createF_ntx (x : FW) (id : String) (t : Task) : (createF x id t).1.w.ntx = x.w.ntx + 1 := by
  unfold createF; split <;> simp
theorem assocF_fault (x : FW) (m k : String) (b : Bool) : (assocF x m k b).1.fault = x.fault := by simp [assocF]
theorem assocF_ntx (x : FW) (m k : String) (b : Bool) : (assocF x m k b).1.w.ntx = x.w.ntx + 1 := by simp [assocF]
theorem assocF_ok (x : FW) (m k : String) (b : Bool) : (assocF x m k b).2 = !decide (x.fault = some (x.w.ntx + 1)) := by
  simp [assocF, FW.tx_err]
theorem deleteF_ok (x : FW) (id : String) : (deleteF x id).2 = !decide (x.fault = some (x.w.ntx + 1)) := by
  simp [deleteF, FW.tx_err]
theorem createF_failed (x : FW) (id : String) (t : Task) (hk : x.fault = some (x.w.ntx + 1)) : (createF x id t).2 = false := by
  unfold createF; split
  · rfl
  · simp [FW.tx_err, hk]
theorem replaceF_failed (x : FW) (id : String) (t : Task) (hk : x.fault = some (x.w.ntx + 1)) : (replaceF x id t).2 = false := by
  unfold replaceF; split
  · simp [FW.tx_err, hk]
  · rfl

theorem createF_sim0 {x : FW} {w : World} (h : Sim0 x w) (id : String) (t : Task) (hk : x.fault ≠ some (x.w.ntx + 1)) :
    Sim0 (createF x id t).1 (tasksCreate w id t).1 ∧ (createF x id t).2 = (tasksCreate w id t).2 := by
  unfold createF tasksCreate
  rw [h.store]
  split
  · exact ⟨h.tx_id, _root_.rfl⟩
  · exact ⟨(h.tx _ hk).1, by simp [(h.tx _ hk).2]⟩

theorem assocF_sim0 {x : FW} {w : World} (h : Sim0 x w) (m k : String) (b : Bool) (hk : x.fault ≠ some (x.w.ntx + 1)) :
    Sim0 (assocF x m k b).1 (w.tx (·.setAssoc m k b)) ∧ (assocF x m k b).2 = true := by
  unfold assocF
  exact ⟨(h.tx _ hk).1, by simp [(h.tx _ hk).2]⟩

/-- **handleCreateTask under a fault** (validation passed, ID free, `w.ntx = 0`): transaction 1 is tasks.Create,
transaction 2 — for a templated task — AssociateTask; every later one is a saveLastError inside startTask.
 * k = 1: nothing is stored, 500;
 * k = 2, templated: the task IS stored, NOT associated with its template and NOT started (even when enabled), 500;
 * any other k: the request behaves exactly as without a fault (the failed write was at most a saveLastError). -/
theorem createCommitF_fault (env : Env) (fail : List String) (w : World) (id : String) (t : Task) (templated : Bool)
    (k : Nat) (h0 : w.ntx = 0) (hn : w.store.tasks id = none) :
    (k = 1 → (createCommitF env fail ⟨w, some k, false⟩ id t templated).1.w.view = w.view ∧
             (createCommitF env fail ⟨w, some k, false⟩ id t templated).2 = .fail) ∧
    (k = 2 → templated = true →
             (createCommitF env fail ⟨w, some k, false⟩ id t templated).1.w.view = w.view.put id t ∧
             (createCommitF env fail ⟨w, some k, false⟩ id t templated).2 = .fail) ∧
    (k ≠ 1 → ¬ (k = 2 ∧ templated = true) →
             (createCommitF env fail ⟨w, some k, false⟩ id t templated).1.w.view =
               (createCommit Variant.fixed env fail w id t templated).1.view ∧
             (createCommitF env fail ⟨w, some k, false⟩ id t templated).2 =
               (createCommit Variant.fixed env fail w id t templated).2) := by
  have hx0 : Sim0 ⟨w, some k, false⟩ w := ⟨_root_.rfl, _root_.rfl, _root_.rfl⟩
  refine ⟨fun h1 => ?_, fun h2 ht => ?_, fun h1 h2 => ?_⟩
  · subst h1
    have hc := createF_failed ⟨w, some 1, false⟩ id t (by simp [h0])
    have hv := createF_view ⟨w, some 1, false⟩ id t
    unfold createCommitF
    simp only [hc, Bool.not_false, if_true, FW.note_w, note_view]
    rw [hv, hc]; simp
  · subst h2; subst ht
    obtain ⟨hc1, hc2⟩ := createF_sim0 hx0 id t (by simp [h0])
    have hok : (tasksCreate w id t).2 = true := by rw [tasksCreate_ok, hn]; rfl
    rw [hok] at hc2
    have ha : (assocF (createF ⟨w, some 2, false⟩ id t).1 t.tmpl id true).2 = false := by
      rw [assocF_ok, createF_fault, createF_ntx]; simp [h0]
    have hav := assocF_view (createF ⟨w, some 2, false⟩ id t).1 t.tmpl id true
    unfold createCommitF
    simp only [hc2, ha, Bool.not_true, Bool.not_false, Bool.and_true, Bool.false_eq_true, if_false, if_true,
      FW.note_w, note_view]
    rw [hav, ha, hc1.view, tasksCreate_view, hn]; simp
  · obtain ⟨hc1, hc2⟩ := createF_sim0 hx0 id t (by simp [h0]; omega)
    have hok : (tasksCreate w id t).2 = true := by rw [tasksCreate_ok, hn]; rfl
    have hkk : (createF ⟨w, some k, false⟩ id t).1.fault ≠ some ((createF ⟨w, some k, false⟩ id t).1.w.ntx + 1) ∨ templated = false := by
      cases templated
      · exact Or.inr _root_.rfl
      · refine Or.inl ?_
        rw [createF_fault, createF_ntx]; simp [h0]
        intro hk; exact h2 ⟨hk, _root_.rfl⟩
    unfold createCommitF createCommit
    simp only [Variant.fixed, Bool.not_false, Bool.and_true]
    rw [hc2, hok]
    simp only [Bool.not_true, Bool.false_eq_true, if_false]
    cases templated
    · simp only [Bool.false_and, Bool.false_eq_true, if_false]
      obtain ⟨r1, r2⟩ := startCreatedF_sim0 hc1 env fail id t
      exact ⟨r1.view, r2⟩
    · have hk2 := hkk.resolve_right (by simp)
      obtain ⟨ha1, ha2⟩ := assocF_sim0 hc1 t.tmpl id true hk2
      simp only [ha2, Bool.not_true, Bool.and_false, Bool.false_eq_true, if_false, if_true]
      obtain ⟨r1, r2⟩ := startCreatedF_sim0 (ha1.note "create-templated" "create-templated") env fail id t
      exact ⟨r1.view, r2⟩

/-- The view deleteTask leaves when transaction `k` fails: the association is dropped unless k = 2 hit
DisassociateTask (logged, the handler goes on), the task is stopped when it was enabled, and the record is removed
unless `k` hit tasks.Delete (the last transaction: 3 for a templated task, else 2). -/
def delViewF (V : View) (id : String) (t : Task) (k : Nat) : View :=
  if k = (if t.tmpl ≠ "" then 3 else 2) then
    (if t.enabled = true then (if t.tmpl ≠ "" ∧ k ≠ 2 then V.setAssoc t.tmpl id false else V).setExec id false
     else (if t.tmpl ≠ "" ∧ k ≠ 2 then V.setAssoc t.tmpl id false else V))
  else
    (if t.enabled = true then (if t.tmpl ≠ "" ∧ k ≠ 2 then V.setAssoc t.tmpl id false else V).setExec id false
     else (if t.tmpl ≠ "" ∧ k ≠ 2 then V.setAssoc t.tmpl id false else V)).del id

/-- **deleteTask under a fault**: every failed transaction removes exactly its OWN effect, all later steps still
happen; only the error of tasks.Delete is reported (500). -/
theorem deleteTaskF_fault (w : World) (id : String) (t : Task) (k : Nat) (h0 : w.ntx = 0) (ht : w.store.tasks id = some t) :
    (deleteTaskF ⟨w, some k, false⟩ id).1.w.view = delViewF w.view id t k ∧
    (deleteTaskF ⟨w, some k, false⟩ id).2 = if k = (if t.tmpl ≠ "" then 3 else 2) then .fail else .ok := by
  unfold deleteTaskF
  rw [FW.tx_id_store]
  simp only [ht]
  by_cases htm : t.tmpl ≠ ""
  · simp only [htm, ne_eq, not_false_eq_true, if_true]
    by_cases hen : t.enabled = true
    · simp only [hen, if_true]
      rw [deleteF_view, deleteF_ok]
      simp only [FW.note_fault, FW.setExec_fault, assocF_fault, FW.tx_fault, FW.note_ntx, FW.setExec_ntx, assocF_ntx,
        FW.tx_ntx, h0, FW.note_w, note_view, Kap.C14.note_ntx, wsetExec_ntx, FW.setExec_w, setExec_view, assocF_view, assocF_ok, FW.tx_id_view]
      unfold delViewF
      simp only [htm, ne_eq, not_false_eq_true, if_true, hen, true_and]
      by_cases h2 : k = 2 <;> by_cases h3 : k = 3 <;> simp [h2, h3] <;> omega
    · simp only [hen, Bool.false_eq_true, if_false]
      rw [deleteF_view, deleteF_ok]
      simp only [FW.note_fault, FW.setExec_fault, assocF_fault, FW.tx_fault, FW.note_ntx, FW.setExec_ntx, assocF_ntx,
        FW.tx_ntx, h0, FW.note_w, note_view, Kap.C14.note_ntx, wsetExec_ntx, FW.setExec_w, setExec_view, assocF_view, assocF_ok, FW.tx_id_view]
      unfold delViewF
      simp only [htm, ne_eq, not_false_eq_true, if_true, hen, true_and, Bool.false_eq_true, if_false]
      by_cases h2 : k = 2 <;> by_cases h3 : k = 3 <;> simp [h2, h3] <;> omega
  · have htm' : t.tmpl = "" := by simpa using htm
    simp only [htm, if_false]
    by_cases hen : t.enabled = true
    · simp only [hen, if_true]
      rw [deleteF_view, deleteF_ok]
      simp only [FW.note_fault, FW.setExec_fault, FW.tx_fault, FW.note_ntx, FW.setExec_ntx,
        FW.tx_ntx, h0, FW.note_w, note_view, Kap.C14.note_ntx, wsetExec_ntx, FW.setExec_w, setExec_view, FW.tx_id_view]
      unfold delViewF
      simp only [htm, if_false, hen, if_true, false_and]
      by_cases h2 : k = 2 <;> simp [h2]
    · simp only [hen, Bool.false_eq_true, if_false]
      rw [deleteF_view, deleteF_ok]
      simp only [FW.note_fault, FW.setExec_fault, FW.tx_fault, FW.note_ntx, FW.setExec_ntx,
        FW.tx_ntx, h0, FW.note_w, note_view, Kap.C14.note_ntx, wsetExec_ntx, FW.setExec_w, setExec_view, FW.tx_id_view]
      unfold delViewF
      simp only [htm, if_false, hen, Bool.false_eq_true, false_and]
      by_cases h2 : k = 2 <;> simp [h2]

/-- Without a fault position (`k` = 0, or beyond the last transaction) `delViewF` is the model's delete. -/
theorem delViewF_nofault (w : World) (id : String) (t : Task) (k : Nat) (ht : w.store.tasks id = some t)
    (h2 : k ≠ 2) (h3 : k ≠ 3) : delViewF w.view id t k = (deleteTask w id).1.view := by
  rw [deleteTask_view_some w id t ht]
  unfold delViewF
  have : ¬ k = (if t.tmpl ≠ "" then 3 else 2) := by split <;> assumption
  simp only [this, if_false, h2, ne_eq, not_false_eq_true, and_true]

/-! ### update under a fault -/

/-- Closed form of the running-state part of an update, from ANY in-flight world. -/
theorem finishUpdate_closed (env : Env) (fail : List String) (W2 : World) (id newId : String) (orig upd : Task)
    (hidle : upd.enabled = true → (orig.enabled = false ∨ id ≠ newId) → W2.exec newId = false) :
    (finishUpdate env fail W2 id newId orig upd).2 =
      (if upd.enabled = true ∧ (orig.enabled = false ∨ id ≠ newId) ∧ startOK env fail newId upd = false then .fail else .ok) ∧
    (finishUpdate env fail W2 id newId orig upd).1.view =
      { W2.view with exec := updExec W2.exec id newId orig.enabled upd.enabled (startOK env fail newId upd) } := by
  unfold finishUpdate
  have hRv := restartRenamed_view env fail W2 id newId orig upd (fun hne _ hue => hidle hue (Or.inr hne))
  have hRo := restartRenamed_ok env fail W2 id newId orig upd
  have hRidle : orig.enabled = false → upd.enabled = true → (restartRenamed env fail W2 id newId orig upd).1.exec newId = false := by
    intro hoe hue
    have := congrArg View.exec hRv
    rw [if_neg (fun hh => by rw [hoe] at hh; exact Bool.noConfusion hh.2.1)] at this
    simp only [view_exec] at this
    rw [this]; exact hidle hue (Or.inl hoe)
  generalize restartRenamed env fail W2 id newId orig upd = R at hRv hRo hRidle ⊢
  have hAv := applyStatus_view env fail R.1 id newId orig upd hRidle
  have hAr := applyStatus_resp_eq env fail R.1 id newId orig upd
  rw [hRv] at hAv
  generalize applyStatus env fail R.1 id newId orig upd = A at hAv hAr ⊢
  by_cases hid : id = newId
  · subst hid
    cases hoe : orig.enabled <;> cases hue : upd.enabled <;> cases hk : startOK env fail id upd <;>
      simp [hoe, hue, hk] at hRv hRo hAv hAr <;> simp [hRo, hAr, hAv, hRv, hoe, hue, hk] <;>
      (apply View.ext' <;> first | rfl | (funext i; simp [updExec, hoe, hue, hk, setExec_exec]))
  · cases hoe : orig.enabled <;> cases hue : upd.enabled <;> cases hk : startOK env fail newId upd <;>
      simp [hoe, hue, hk, hid] at hRv hRo hAv hAr <;> simp [hRo, hAr, hAv, hRv, hoe, hue, hk, hid] <;>
      (apply View.ext' <;> first | rfl | (funext i; simp [updExec, hoe, hue, hk, hid, setExec_exec]))

/-- … and the same closed form under ANY fault: the running-state part only runs saveLastError transactions. -/
theorem finishUpdateF_closed (env : Env) (fail : List String) (X : FW) (id newId : String) (orig upd : Task)
    (hidle : upd.enabled = true → (orig.enabled = false ∨ id ≠ newId) → X.w.exec newId = false) :
    (finishUpdateF env fail X id newId orig upd).2 =
      (if upd.enabled = true ∧ (orig.enabled = false ∨ id ≠ newId) ∧ startOK env fail newId upd = false then .fail else .ok) ∧
    (finishUpdateF env fail X id newId orig upd).1.w.view =
      { X.w.view with exec := updExec X.w.exec id newId orig.enabled upd.enabled (startOK env fail newId upd) } := by
  obtain ⟨h1, h2⟩ := finishUpdateF_sim0' (Sim0.rfl X) env fail id newId orig upd
  obtain ⟨c1, c2⟩ := finishUpdate_closed env fail X.w id newId orig upd hidle
  exact ⟨h2.trans c1, h1.view.trans c2⟩

theorem storeDefinitionF_first_fault (x : FW) (id newId : String) (upd : Task) (hk : x.fault = some (x.w.ntx + 1)) :
    (storeDefinitionF x id newId upd).2 = false := by
  unfold storeDefinitionF
  split
  · rw [if_neg (by rw [createF_failed x newId upd hk]; simp)]
  · exact replaceF_failed x id upd hk

theorem replaceF_ok_later (x : FW) (id : String) (t orig : Task) (ho : x.w.store.tasks id = some orig)
    (hk : x.fault ≠ some (x.w.ntx + 1)) : (replaceF x id t).2 = true := by
  unfold replaceF; rw [ho]; simp [FW.tx_err, hk]

theorem createF_ok_later (x : FW) (id : String) (t : Task) (hn : x.w.store.tasks id = none)
    (hk : x.fault ≠ some (x.w.ntx + 1)) : (createF x id t).2 = true := by
  unfold createF; rw [hn]; simp [FW.tx_err, hk]

/-- The stored tasks after "store the definition" when its FIRST transaction is not the failing one: the new
record is stored; during a rename the old record is removed unless transaction 2 (Delete(old), error only logged)
failed. -/
theorem storeDefinitionF_later (x : FW) (id newId : String) (upd orig : Task) (ho : x.w.store.tasks id = some orig)
    (hfree : id ≠ newId → x.w.store.tasks newId = none) (hk : x.fault ≠ some (x.w.ntx + 1)) :
    (storeDefinitionF x id newId upd).2 = true ∧
    (storeDefinitionF x id newId upd).1.w.view =
      (if id ≠ newId then
        (if x.fault = some (x.w.ntx + 2) then x.w.view.put newId upd else (x.w.view.put newId upd).del id)
       else x.w.view.put id upd) := by
  unfold storeDefinitionF
  split
  · rename_i hne
    have hc := createF_ok_later x newId upd (hfree hne) hk
    rw [if_pos hc]
    refine ⟨_root_.rfl, ?_⟩
    rw [FW.note_w, note_view, deleteF_view, deleteF_ok, createF_view, hc, createF_fault, createF_ntx]
    by_cases h2 : x.fault = some (x.w.ntx + 2)
    · simp [h2]
    · simp [h2]
  · have hr := replaceF_ok_later x id upd orig ho hk
    refine ⟨hr, ?_⟩
    rw [replaceF_view, hr]; simp

/-- **handleUpdateTask under a fault** (validation passed, `w.ntx = 0`, the new ID is free): transaction 1 is
tasks.Create(new) / tasks.Replace; for a rename transaction 2 is tasks.Delete(old) (error only logged); then the
association moves (errors answered 500 AFTER the running state was adjusted); the rest are saveLastError writes.
 * k = 1: nothing changes, 500;
 * k ≠ 1: the executing set is EXACTLY the one the fault-free update leaves (`updExec`); the new record is stored;
   the old ID of a rename is removed unless k = 2 (then both IDs stay stored, the old one stopped); templates
   untouched; the answer is the fault-free one or 500 (an association write failed). -/
theorem updateCommitF_fault (env : Env) (fail : List String) (w : World) (id newId : String) (orig upd : Task) (m : String)
    (k : Nat) (h0 : w.ntx = 0) (ho : w.store.tasks id = some orig) (hfree : id ≠ newId → w.store.tasks newId = none)
    (hidle : upd.enabled = true → (orig.enabled = false ∨ id ≠ newId) → w.exec newId = false) :
    (k = 1 → (updateCommitF env fail ⟨w, some k, false⟩ id newId orig upd m).1.w.view = w.view ∧
             (updateCommitF env fail ⟨w, some k, false⟩ id newId orig upd m).2 = .fail) ∧
    (k ≠ 1 →
      (updateCommitF env fail ⟨w, some k, false⟩ id newId orig upd m).1.w.exec =
        updExec w.exec id newId orig.enabled upd.enabled (startOK env fail newId upd) ∧
      (updateCommitF env fail ⟨w, some k, false⟩ id newId orig upd m).1.w.store.tasks =
        (fun i => if i = newId then some upd else if i = id then (if k = 2 then some orig else none) else w.store.tasks i) ∧
      (updateCommitF env fail ⟨w, some k, false⟩ id newId orig upd m).1.w.store.tmpls = w.store.tmpls ∧
      ((updateCommitF env fail ⟨w, some k, false⟩ id newId orig upd m).2 = .fail ∨
       (updateCommitF env fail ⟨w, some k, false⟩ id newId orig upd m).2 =
        (if upd.enabled = true ∧ (orig.enabled = false ∨ id ≠ newId) ∧ startOK env fail newId upd = false then .fail else .ok))) := by
  refine ⟨fun h1 => ?_, fun h1 => ?_⟩
  · subst h1
    have hs := storeDefinitionF_first_fault ⟨w, some 1, false⟩ id newId upd (by simp [h0])
    unfold updateCommitF
    simp only [hs, Bool.not_false, if_true, FW.note_w, note_view]
    exact ⟨storeDefinitionF_failed _ id newId upd hs, trivial⟩
  · obtain ⟨hs, hv⟩ := storeDefinitionF_later ⟨w, some k, false⟩ id newId upd orig ho hfree (by simp [h0]; omega)
    have hvt : (storeDefinitionF ⟨w, some k, false⟩ id newId upd).1.w.view.tasks =
        (fun i => if i = newId then some upd else if i = id then (if k = 2 then some orig else none) else w.store.tasks i) := by
      rw [hv]
      funext i
      by_cases hne : id = newId
      · subst hne; simp [View.put]; split <;> simp_all
      · have hne' : newId ≠ id := fun e => hne e.symm
        simp only [hne, ne_eq, not_false_eq_true, if_true, h0]
        by_cases h2 : k = 2
        · subst h2
          simp only [View.put, view_tasks, if_true]
          by_cases hi : i = newId
          · simp [hi]
          · by_cases hi2 : i = id
            · subst hi2; simp [hi, ho]
            · simp [hi, hi2]
        · have : ¬ (some k = some (0 + 2)) := by simp; omega
          simp only [this, if_false, View.del, View.put, view_tasks, h2]
          by_cases hi : i = newId
          · subst hi; simp [hne']
          · by_cases hi2 : i = id
            · subst hi2; simp [hi, hne]
            · simp [hi, hi2]
    have hvm : (storeDefinitionF ⟨w, some k, false⟩ id newId upd).1.w.view.tmpls = w.store.tmpls := by
      rw [hv]; split
      · split <;> rfl
      · rfl
    have hve : (storeDefinitionF ⟨w, some k, false⟩ id newId upd).1.w.view.exec = w.exec := by
      rw [hv]; split
      · split <;> rfl
      · rfl
    unfold updateCommitF
    simp only [hs, Bool.not_true, Bool.false_eq_true, if_false]
    split
    · -- the association moves
      have hr := reassociateF_tasks (storeDefinitionF ⟨w, some k, false⟩ id newId upd).1 id orig m newId
      have hrm : (reassociateF (storeDefinitionF ⟨w, some k, false⟩ id newId upd).1 id orig m newId).1.w.view.tmpls = w.store.tmpls := by
        rw [← hvm]
        unfold reassociateF
        split
        · rw [assocF_view]; split <;> rfl
        · rw [FW.note_w, note_view, assocF_view]
          have : ∀ X : FW, X.w.view.tmpls = (storeDefinitionF ⟨w, some k, false⟩ id newId upd).1.w.view.tmpls →
              (if (assocF X m newId true).2 = true then X.w.view.setAssoc m newId true else X.w.view).tmpls =
                (storeDefinitionF ⟨w, some k, false⟩ id newId upd).1.w.view.tmpls := by
            intro X hX; split <;> exact hX
          apply this
          split
          · rw [assocF_view]; split <;> rfl
          · rfl
      obtain ⟨c1, c2⟩ := finishUpdateF_closed env fail
        (reassociateF (storeDefinitionF ⟨w, some k, false⟩ id newId upd).1 id orig m newId).1 id newId orig upd
        (fun hue hor => by
          have := hr.2; simp only [view_exec] at this hve
          rw [this, hve]; exact hidle hue hor)
      have e1 := congrArg View.exec c2
      have e2 := congrArg View.tasks c2
      have e3 := congrArg View.tmpls c2
      simp only [view_exec, view_tasks, view_tmpls] at e1 e2 e3 hr hrm hvt hve
      refine ⟨?_, ?_, ?_, ?_⟩
      · rw [e1, hr.2, hve]
      · rw [e2, hr.1, hvt]
      · rw [e3, hrm]
      · split
        · exact Or.inr c1
        · exact Or.inl _root_.rfl
    · obtain ⟨c1, c2⟩ := finishUpdateF_closed env fail (storeDefinitionF ⟨w, some k, false⟩ id newId upd).1 id newId orig upd
        (fun hue hor => by
          simp only [view_exec] at hve
          rw [hve]; exact hidle hue hor)
      have e1 := congrArg View.exec c2
      have e2 := congrArg View.tasks c2
      have e3 := congrArg View.tmpls c2
      simp only [view_exec, view_tasks, view_tmpls] at e1 e2 e3 hvm hvt hve
      exact ⟨by rw [e1, hve], by rw [e2, hvt], by rw [e3, hvm], Or.inr c1⟩

/-! ### templates under a fault -/

theorem tmplCreateF_failed (x : FW) (id s : String) (hk : x.fault = some (x.w.ntx + 1)) : (tmplCreateF x id s).2 = false := by
  unfold tmplCreateF; split
  · rfl
  · simp [FW.tx_err, hk]

/-- handleCreateTemplate / handleDeleteTemplate have one transaction: when it fails nothing changes and the answer is
500 (for a create: unless the request was rejected by validation anyway). -/
theorem templateF_fault (env : Env) (w : World) (id s : String) (h0 : w.ntx = 0) :
    ((createTemplateF env ⟨w, some 1, false⟩ id s).1.w.view = w.view ∧
     (createTemplateF env ⟨w, some 1, false⟩ id s).2 ≠ .ok) ∧
    ((deleteTemplateF ⟨w, some 1, false⟩ id).1.w.view = w.view ∧ (deleteTemplateF ⟨w, some 1, false⟩ id).2 = .fail) := by
  constructor
  · unfold createTemplateF
    split
    · exact ⟨by rw [FW.note_w, note_view], by simp⟩
    · split
      · exact ⟨by rw [FW.note_w, note_view], by simp⟩
      · have hc := tmplCreateF_failed ⟨w, some 1, false⟩ id s (by simp [h0])
        rw [FW.note_w, note_view, tmplCreateF_view, hc]
        simp
  · unfold deleteTemplateF
    have hd : (tmplDeleteF ⟨w, some 1, false⟩ id).2 = false := by simp [tmplDeleteF, FW.tx_err, h0]
    rw [FW.note_w, note_view, tmplDeleteF_view, hd]
    simp

end Kap.C14
