/-
C14 — what a request answered 500 leaves behind (fault-free semantics, repaired code), per handler.
create / update: the catalogue of the ACCEPTED request when the definition was committed and the start it attempts
is refused (`devStartFail`, a decidable clause on catalogue + request + oracle), nothing otherwise (rename onto a taken
ID); delete, template create / delete, restart, death: never answered 500; template update: nothing when the new
template ID is taken (the rollback cases are characterised by the model only).
-/
import Kap.Proofs.C14Full
set_option linter.unusedSimpArgs false
set_option linter.unusedVariables false
namespace Kap.C14

/-- The view after `createCommit` shows the catalogue of the accepted create — WHATEVER the start's outcome (the spec's
`accept` records the outcome of the attempt: started = enabled ∧ startOK). -/
theorem createCommit_dinv (env : Env) (fail : List String) (w : World) (c : Cat) (id : String) (r : TaskReq)
    (t : Task) (templated : Bool) (hinv : ExecInv w) (h : DInv w.view c) (hn : w.store.tasks id = none)
    (hdef : t = createDef env c r) (htt : templated = decide (t.tmpl ≠ "")) :
    DInv (createCommit Variant.fixed env fail w id t templated).1.view (accept env fail c (.create id r)) := by
  rw [createCommit_view _ env fail w id t templated hn (View.EI.not_exec hinv hn)]
  simp only [Variant.fixed, Bool.not_false, Bool.and_true]
  simp only [accept, ← hdef]
  have hA : AssocInv (if templated = true then (w.view.put id t).setAssoc t.tmpl id true else w.view.put id t) := by
    have := AssocInv.create h.assoc (id := id) hn t
    rw [htt]; simpa using this
  have hexid : w.exec id = false := View.EI.not_exec hinv hn
  constructor
  · split <;> exact hA
  · funext i
    have : (if (t.enabled && startOK env fail id t) = true then
        (if templated = true then (w.view.put id t).setAssoc t.tmpl id true else w.view.put id t).setExec id true
        else if templated = true then (w.view.put id t).setAssoc t.tmpl id true else w.view.put id t).tasks i
        = (w.view.put id t).tasks i := by split <;> split <;> rfl
    rw [this]
    simp [View.put, setStarted, setTask, h.tasks.symm]
  · have : (if (t.enabled && startOK env fail id t) = true then
        (if templated = true then (w.view.put id t).setAssoc t.tmpl id true else w.view.put id t).setExec id true
        else if templated = true then (w.view.put id t).setAssoc t.tmpl id true else w.view.put id t).tmpls
        = w.view.tmpls := by split <;> split <;> rfl
    rw [this]; exact h.tmpls
  · intro i
    have hx : (if (t.enabled && startOK env fail id t) = true then
        (if templated = true then (w.view.put id t).setAssoc t.tmpl id true else w.view.put id t).setExec id true
        else if templated = true then (w.view.put id t).setAssoc t.tmpl id true else w.view.put id t).exec i
        = if (t.enabled && startOK env fail id t) = true then (if i = id then true else w.exec i) else w.exec i := by
      split <;> split <;> rfl
    rw [hx]
    by_cases hi : i = id
    · subst hi
      simp [Cat.executing, setStarted, setTask]
      cases he : t.enabled <;> cases hs : startOK env fail i t <;> simp [hexid]
    · have := h.exec i
      simp only [view_exec] at this
      simp [Cat.executing, setStarted, setTask, hi, this]

/-- A create answered 500. -/
theorem createTask_500 (env : Env) (fail : List String) (w : World) (c : Cat) (id : String) (r : TaskReq)
    (hinv : ExecInv w) (h : DInv w.view c) (hf : (createTask Variant.fixed env fail w id r).2 = .fail) :
    devStartFail env fail c (.create id r) .fail = true ∧
    DInv (createTask Variant.fixed env fail w id r).1.view (accept env fail c (.create id r)) := by
  unfold createTask at hf ⊢
  simp only [Variant.fixed, Bool.and_false, Bool.false_eq_true, if_false] at hf ⊢
  split at hf
  · cases hf
  · rename_i hsome
    have hn : w.store.tasks id = none := by
      cases hx : w.store.tasks id
      · rfl
      · rw [hx] at hsome; simp at hsome
    split at hf
    · cases hf
    · rename_i script templated hcs
      obtain ⟨htmp, hscript⟩ := createScript_some hcs
      split at hf
      · cases hf
      · rename_i t hv
        have ht := createValidate_ok hv
        have hdef : t = createDef env c r := by
          rw [ht, hscript]; unfold createDef
          have : w.store.tmpls = c.tmpls := h.tmpls
          rw [this]
        have htt : templated = decide (t.tmpl ≠ "") := by rw [htmp, ht]
        rw [if_neg hsome]
        refine ⟨?_, createCommit_dinv env fail w c id r t templated hinv h hn hdef htt⟩
        change (createCommit ⟨false, false⟩ env fail w id t templated).2 = .fail at hf
        rw [show (⟨false, false⟩ : Variant) = Variant.fixed from rfl, createCommit_resp_eq _ env fail w id t templated hn] at hf
        cases he : t.enabled <;> cases hs : startOK env fail id t <;> simp [he, hs] at hf
        simp [devStartFail, attempted, ← hdef, he, hs]

/-- `exec_update_spec` without the hypothesis that the attempted start succeeds: the spec's `accept` records the
outcome of the attempt, so the executing sets agree for either outcome. -/
theorem exec_update_spec' (env : Env) (fail : List String) (c : Cat) (e : String → Bool) (id : String) (r : TaskReq)
    (orig : Task) (hE : ∀ i, e i = c.executing i) (hc : c.tasks id = some orig)
    (hfresh : id ≠ updateId id r → c.tasks (updateId id r) = none) (i : String) :
    updExec e id (updateId id r) orig.enabled (updateDef env c orig r).enabled
      (startOK env fail (updateId id r) (updateDef env c orig r)) i = (accept env fail c (.update id r)).executing i := by
  have h1 := hE i
  have h2 := hE id
  have h3 := hE (updateId id r)
  simp only [Cat.executing] at h1 h2 h3
  rw [hc] at h2
  simp only [accept, hc]
  generalize updateId id r = newId at *
  generalize updateDef env c orig r = upd at *
  generalize startOK env fail newId upd = ok at *
  unfold updExec
  by_cases hid : id = newId
  · subst hid
    by_cases hi : i = id
    · subst hi
      rw [hc] at h1
      cases hoe : orig.enabled <;> cases hue : upd.enabled <;> cases hk : ok <;>
        simp_all [Cat.executing, setStarted, setTask]
    · cases hoe : orig.enabled <;> cases hue : upd.enabled <;> cases hk : ok <;>
        simp_all [Cat.executing, setStarted, setTask]
  · have hf := hfresh hid
    rw [hf] at h3
    have hne : newId ≠ id := fun h => hid h.symm
    by_cases hi : i = newId
    · subst hi
      cases hoe : orig.enabled <;> cases hue : upd.enabled <;> cases hk : ok <;>
        simp_all [Cat.executing, setStarted, setTask]
    · by_cases hi2 : i = id
      · subst hi2
        cases hoe : orig.enabled <;> cases hue : upd.enabled <;> cases hk : ok <;>
          simp_all [Cat.executing, setStarted, setTask]
      · cases hoe : orig.enabled <;> cases hue : upd.enabled <;> cases hk : ok <;>
          simp_all [Cat.executing, setStarted, setTask]

/-- `updateCommit` once validation passed: the answer, and what it leaves — the catalogue of the accepted update
when the definition could be stored (whatever the start's outcome), nothing when the new ID is taken. -/
theorem updateCommit_500 (env : Env) (fail : List String) (w : World) (c : Cat) (id : String) (r : TaskReq)
    (orig : Task) (h : DInv w.view c) (ho : w.store.tasks id = some orig)
    (hf : (updateCommit Variant.fixed env fail w id (updateId id r) orig (updateDef env c orig r)
        (needsReassoc Variant.fixed id (updateId id r) orig (updateDef env c orig r).tmpl)).2 = .fail) :
    DInv (updateCommit Variant.fixed env fail w id (updateId id r) orig (updateDef env c orig r)
        (needsReassoc Variant.fixed id (updateId id r) orig (updateDef env c orig r).tmpl)).1.view
      (effect500 env fail c (.update id r)) := by
  have htasks : w.store.tasks = c.tasks := h.tasks
  have hc : c.tasks id = some orig := by rw [← htasks]; exact ho
  by_cases hsd : (storeDefinition w id (updateId id r) (updateDef env c orig r)).2 = true
  · have hfresh : id ≠ updateId id r → w.store.tasks (updateId id r) = none := by
      intro hne
      have := hsd
      rw [storeDefinition_ok w id _ _ orig ho, if_pos hne] at this
      cases hx : w.store.tasks (updateId id r)
      · rfl
      · rw [hx] at this; simp at this
    have hidle : (updateDef env c orig r).enabled = true → (orig.enabled = false ∨ id ≠ updateId id r) →
        w.exec (updateId id r) = false := by
      intro _ hor
      have he := h.exec (updateId id r)
      simp only [view_exec, Cat.executing] at he
      rw [he]
      rcases hor with hoe | hne
      · by_cases hid : id = updateId id r
        · rw [← hid, hc]; simp [hoe]
        · rw [← htasks, hfresh hid]
      · rw [← htasks, hfresh hne]
    obtain ⟨hresp, hview⟩ := updateCommit_closed env fail w id (updateId id r) orig (updateDef env c orig r) ho hsd hidle
    rw [hresp] at hf
    rw [hview]
    -- the answer is 500: a start was attempted and refused, and the new ID was free
    have hcond : (updateDef env c orig r).enabled = true ∧ (orig.enabled = false ∨ id ≠ updateId id r) ∧
        startOK env fail (updateId id r) (updateDef env c orig r) = false := by
      by_cases hcnd : (updateDef env c orig r).enabled = true ∧ (orig.enabled = false ∨ id ≠ updateId id r) ∧
          startOK env fail (updateId id r) (updateDef env c orig r) = false
      · exact hcnd
      · rw [if_neg hcnd] at hf; cases hf
    have hleaves : leaves500 env fail c (.update id r) = true := by
      obtain ⟨hue, hor, hk⟩ := hcond
      have hcnd2 : ((updateDef env c orig r).enabled && (!orig.enabled || decide (updateId id r ≠ id))) = true := by
        rcases hor with hoe | hne
        · simp [hue, hoe]
        · have : updateId id r ≠ id := fun e => hne e.symm
          simp [hue, this]
      have hnt : renameTaken c (.update id r) = false := by
        simp only [renameTaken]
        by_cases hid : id = updateId id r
        · simp [← hid]
        · rw [← htasks, hfresh hid]; simp
      have hor' : orig.enabled = false ∨ ¬ updateId id r = id := by
        rcases hor with hoe | hne
        · exact Or.inl hoe
        · exact Or.inr (fun e => hne e.symm)
      simp [leaves500, devStartFail, attempted, hc, hcnd2, hk, hnt]
      rw [if_pos ⟨hue, hor'⟩]
      simp [hk]
    simp only [effect500, hleaves, if_true]
    obtain ⟨hat, hatm⟩ := accept_update_tasks env fail c id r orig hc
    have hm : (updateDef env c orig r).tmpl = "" → orig.tmpl = "" := by
      intro he
      simp only [updateDef, updateTmpl] at he
      split at he
      · rename_i hne; exact absurd he hne
      · exact he
    refine ⟨?_, ?_, ?_, ?_⟩
    · exact AssocInv.update h.assoc (id := id) (newId := updateId id r) (orig := orig) (upd := updateDef env c orig r)
        ho hfresh hm _ _ (fun i => rfl) (fun m k => rfl)
    · show (updV2 w.view id (updateId id r) orig (updateDef env c orig r)).tasks = _
      rw [hat]; simp only [updV2, view_tasks, htasks]
    · show (updV2 w.view id (updateId id r) orig (updateDef env c orig r)).tmpls = _
      rw [hatm]; exact h.tmpls
    · intro i
      show updExec w.exec id (updateId id r) orig.enabled (updateDef env c orig r).enabled
        (startOK env fail (updateId id r) (updateDef env c orig r)) i = _
      exact exec_update_spec' env fail c w.exec id r orig (fun j => h.exec j) hc
        (fun hne => by rw [← htasks]; exact hfresh hne) i
  · -- the definition could not be stored (rename onto an existing ID): nothing changed
    have htaken : renameTaken c (.update id r) = true := by
      have := hsd
      rw [storeDefinition_ok w id _ _ orig ho] at this
      simp only [renameTaken]
      by_cases hid : id = updateId id r
      · rw [if_neg (by simpa using hid)] at this; exact absurd rfl this
      · rw [if_pos hid] at this
        have hne : updateId id r ≠ id := fun e => hid e.symm
        rw [← htasks]
        cases hx : w.store.tasks (updateId id r)
        · rw [hx] at this; simp at this
        · simp [hne]
    unfold updateCommit
    have hnot : (!(storeDefinition w id (updateId id r) (updateDef env c orig r)).2) = true := by simp [hsd]
    rw [if_pos hnot, storeDefinition_failed w id _ _ orig ho hsd]
    simp only [effect500, leaves500, htaken, Bool.not_true, Bool.and_false, Bool.false_eq_true, if_false]
    exact h

/-- An update answered 500. -/
theorem updateTask_500 (env : Env) (fail : List String) (w : World) (c : Cat) (id : String) (r : TaskReq)
    (h : DInv w.view c) (hf : (updateTask Variant.fixed env fail w id r).2 = .fail) :
    DInv (updateTask Variant.fixed env fail w id r).1.view (effect500 env fail c (.update id r)) := by
  unfold updateTask at hf ⊢
  split at hf
  · cases hf
  · rename_i orig ho
    split at hf
    · cases hf
    · rename_i script m hus
      obtain ⟨hm, hscript⟩ := updateScript_some hus
      have htm : w.store.tmpls = c.tmpls := h.tmpls
      have hs : script = updateScriptOf c orig r := by
        rw [hscript, hm]; unfold updateScriptOf; rw [htm]
      dsimp only at hf ⊢
      simp only [show Variant.fixed.assocEarly = false from rfl, Bool.and_false, Bool.false_eq_true, if_false] at hf ⊢
      split at hf
      · cases hf
      · rename_i upd hv
        have hupd : upd = updateDef env c orig r := by
          rw [updateValidate_ok hv]; exact updateRecord_eq_def env c orig r script m hm hs
        have hmt : m = (updateDef env c orig r).tmpl := by rw [hm]; rfl
        rw [hupd, hmt] at hf ⊢
        exact updateCommit_500 env fail w c id r orig h ho hf

/-- **What a 500 leaves, every handler but the template update**: create / update — exactly `effect500`; delete,
template create / delete, restart, death are never answered 500 (fault-free semantics). -/
theorem handle_500 (env : Env) (fail : List String) (w : World) (c : Cat) (op : Op)
    (hinv : ExecInv w) (h : DInv w.view c) (hnt : ∀ id n s, op ≠ .tupdate id n s)
    (hf : (handle Variant.fixed env fail w op).2 = .fail) :
    DInv (handle Variant.fixed env fail w op).1.view (effect500 env fail c op) := by
  cases op with
  | create id r =>
    simp only [handle] at hf ⊢
    obtain ⟨hd, hv⟩ := createTask_500 env fail w c id r hinv h hf
    simp only [effect500, leaves500, hd, renameTaken, Bool.not_false, Bool.and_true, if_true]
    exact hv
  | update id r => simp only [handle] at hf ⊢; exact updateTask_500 env fail w c id r h hf
  | delete id => simp only [handle, deleteTask_ok] at hf; cases hf
  | tcreate id s =>
    exfalso
    simp only [handle, createTemplate] at hf
    split at hf
    · cases hf
    · rename_i hn
      split at hf
      · cases hf
      · rw [tmplCreate_ok] at hf; simp at hn; simp [hn] at hf
  | tupdate id n s => exact absurd rfl (hnt id n s)
  | tdelete id => simp only [handle, deleteTemplate] at hf; cases hf
  | restart => simp only [handle] at hf; cases hf
  | die id => simp only [handle, dieTask_ok] at hf; cases hf

/-- Template update onto a taken template ID: answered 500, nothing changed. -/
theorem updateTemplate_taken (env : Env) (fail : List String) (w : World) (id newId script os : String)
    (hos : w.store.tmpls id = some os) (hne : newId ≠ "" ∧ newId ≠ id) (htk : (w.store.tmpls newId).isSome = true)
    (hacc : tmplAccepts env os (if script ≠ "" then script else os) = true) :
    (updateTemplate env fail w id newId script).2 = .fail ∧ (updateTemplate env fail w id newId script).1.view = w.view := by
  unfold updateTemplate
  simp only [hos, hacc, Bool.not_true, Bool.false_eq_true, if_false, if_pos hne.1]
  have hst : (storeTemplate w id newId (if script ≠ "" then script else os)).2 = false ∧
      (storeTemplate w id newId (if script ≠ "" then script else os)).1.view = w.view := by
    unfold storeTemplate
    rw [if_pos (fun e => hne.2 e.symm)]
    have : (tmplCreate w newId (if script ≠ "" then script else os)).2 = false := by rw [tmplCreate_ok, htk]; rfl
    rw [if_neg (by rw [this]; simp)]
    exact ⟨rfl, by rw [note_view, tmplCreate_view, if_pos htk]⟩
  simp only [hst.1, Bool.not_false, if_true]
  exact ⟨trivial, hst.2⟩

end Kap.C14
