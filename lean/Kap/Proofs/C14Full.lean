/-
C14 — helper lemmas, part 6: refinement for task update and template update, and the whole-history theorem with
every kind of request.
-/
import Kap.Proofs.C14Ref
set_option linter.unusedSimpArgs false
namespace Kap.C14

/-! ### update -/

/-- The executing set after an accepted update equals the spec's (abstract form: plain functions). -/
theorem exec_update (e st : String → Bool) (tasks : String → Option Task) (id newId : String) (orig upd : Task) (ok : Bool)
    (hE : ∀ i, e i = match tasks i with | some t => (t.enabled && st i) | none => false)
    (ho : tasks id = some orig) (hfresh : id ≠ newId → tasks newId = none)
    (hok : upd.enabled = true → (orig.enabled = false ∨ newId ≠ id) → ok = true) (i : String) :
    (if (orig.enabled != upd.enabled) = true then
        (if upd.enabled = true then
          (if ok = true then (if i = newId then true else
              (if id ≠ newId ∧ orig.enabled = true ∧ upd.enabled = true then
                (if ok = true then (if i = newId then true else if i = id then false else e i) else (if i = id then false else e i))
               else e i))
           else
              (if id ≠ newId ∧ orig.enabled = true ∧ upd.enabled = true then
                (if ok = true then (if i = newId then true else if i = id then false else e i) else (if i = id then false else e i))
               else e i))
         else (if i = id then false else
              (if id ≠ newId ∧ orig.enabled = true ∧ upd.enabled = true then
                (if ok = true then (if i = newId then true else if i = id then false else e i) else (if i = id then false else e i))
               else e i)))
      else
        (if id ≠ newId ∧ orig.enabled = true ∧ upd.enabled = true then
          (if ok = true then (if i = newId then true else if i = id then false else e i) else (if i = id then false else e i))
         else e i)) =
    (match (if i = newId then some upd else if i = id then none else tasks i) with
      | some t => (t.enabled &&
          (if (upd.enabled && (!orig.enabled || decide (newId ≠ id))) = true then (if i = newId then ok else st i)
           else if newId ≠ id then (if i = newId then st id else st i) else st i))
      | none => false) := by
  have h1 := hE i
  have h2 := hE id
  have h3 := hE newId
  rw [ho] at h2
  by_cases hid : id = newId
  · subst hid
    by_cases hi : i = id
    · subst hi
      rw [ho] at h1
      cases hoe : orig.enabled <;> cases hue : upd.enabled <;> cases hk : ok <;> simp_all
    · simp [hi]
      cases hoe : orig.enabled <;> cases hue : upd.enabled <;> cases hk : ok <;> simp_all
  · have hf := hfresh hid
    rw [hf] at h3
    have hne : newId ≠ id := fun h => hid h.symm
    by_cases hi : i = newId
    · subst hi
      cases hoe : orig.enabled <;> cases hue : upd.enabled <;> cases hk : ok <;> simp_all
    · by_cases hi2 : i = id
      · subst hi2
        cases hoe : orig.enabled <;> cases hue : upd.enabled <;> cases hk : ok <;> simp_all
      · cases hoe : orig.enabled <;> cases hue : upd.enabled <;> cases hk : ok <;> simp_all

theorem View.ext' {V V' : View} (h1 : V.tasks = V'.tasks) (h2 : V.tmpls = V'.tmpls) (h3 : V.assoc = V'.assoc)
    (h4 : V.exec = V'.exec) : V = V' := by
  cases V; cases V'; simp_all

/-- The view after "store the definition" and "move the association" (repaired order). -/
def updV2 (V : View) (id newId : String) (orig upd : Task) : View :=
  { tasks := fun i => if i = newId then some upd else if i = id then none else V.tasks i,
    tmpls := V.tmpls,
    assoc := fun m k =>
      if upd.tmpl ≠ "" ∧ (id ≠ newId ∨ orig.tmpl ≠ upd.tmpl) then
        (if m = upd.tmpl ∧ k = newId then true
         else if orig.tmpl ≠ "" ∧ m = orig.tmpl ∧ k = id then false else V.assoc m k)
      else V.assoc m k,
    exec := V.exec }

theorem needsReassoc_fixed (id newId : String) (orig : Task) (m : String) :
    (needsReassoc Variant.fixed id newId orig m = true) ↔ (m ≠ "" ∧ (id ≠ newId ∨ orig.tmpl ≠ m)) := by
  simp [needsReassoc, Variant.fixed]

theorem updateCommit_W2_view (w : World) (id newId : String) (orig upd : Task)
    (ho : w.store.tasks id = some orig) (hsd : (storeDefinition w id newId upd).2 = true) :
    (if (needsReassoc Variant.fixed id newId orig upd.tmpl) = true
      then reassociate (storeDefinition w id newId upd).1 id orig upd.tmpl newId
      else (storeDefinition w id newId upd).1).view = updV2 w.view id newId orig upd := by
  have hok := hsd
  rw [storeDefinition_ok w id newId upd orig ho] at hok
  have hV1 := storeDefinition_view w id newId upd orig ho
  have hr := needsReassoc_fixed id newId orig upd.tmpl
  by_cases hre : needsReassoc Variant.fixed id newId orig upd.tmpl = true
  · rw [if_pos hre, reassociate_view, hV1]
    have hre' := hr.mp hre
    apply View.ext'
    · funext i
      by_cases hid : id = newId
      · subst hid; simp [updV2, View.put, View.setAssoc]; split <;> simp [View.setAssoc, View.put] <;> grind
      · have hn : (w.store.tasks newId).isSome = false := by simpa [hid] using hok
        simp only [hid, ne_eq, not_false_eq_true, if_true, hn, Bool.false_eq_true, if_false]
        have : ∀ V : View, ((if orig.tmpl ≠ "" then V.setAssoc orig.tmpl id false else V).setAssoc upd.tmpl newId true).tasks = V.tasks := by
          intro V; split <;> rfl
        rw [this]
        simp only [updV2, View.del, View.put, view_tasks]
        grind
    · have : ∀ V : View, ((if orig.tmpl ≠ "" then V.setAssoc orig.tmpl id false else V).setAssoc upd.tmpl newId true).tmpls = V.tmpls := by
        intro V; split <;> rfl
      rw [this]
      simp only [updV2]
      split
      · split <;> rfl
      · rfl
    · funext m k
      have hA : ∀ V : View, ((if orig.tmpl ≠ "" then V.setAssoc orig.tmpl id false else V).setAssoc upd.tmpl newId true).assoc m k =
          if m = upd.tmpl ∧ k = newId then true else if orig.tmpl ≠ "" ∧ m = orig.tmpl ∧ k = id then false else V.assoc m k := by
        intro V
        split <;> simp [View.setAssoc] <;> grind
      rw [hA]
      have hV1a : (if id ≠ newId then if (w.store.tasks newId).isSome = true then w.view else (w.view.put newId upd).del id
          else w.view.put id upd).assoc = w.view.assoc := by
        split
        · split <;> rfl
        · rfl
      rw [hV1a]
      simp only [updV2, view_assoc]
      rw [if_pos hre']
    · have : ∀ V : View, ((if orig.tmpl ≠ "" then V.setAssoc orig.tmpl id false else V).setAssoc upd.tmpl newId true).exec = V.exec := by
        intro V; split <;> rfl
      rw [this]
      simp only [updV2]
      split
      · split <;> rfl
      · rfl
  · rw [if_neg hre, hV1]
    have hre' : ¬ (upd.tmpl ≠ "" ∧ (id ≠ newId ∨ orig.tmpl ≠ upd.tmpl)) := fun hh => hre (hr.mpr hh)
    apply View.ext'
    · funext i
      by_cases hid : id = newId
      · subst hid; simp [updV2, View.put]; grind
      · have hn : (w.store.tasks newId).isSome = false := by simpa [hid] using hok
        simp only [hid, ne_eq, not_false_eq_true, if_true, hn, Bool.false_eq_true, if_false]
        simp only [updV2, View.del, View.put, view_tasks]
        grind
    · simp only [updV2]
      split
      · split <;> rfl
      · rfl
    · funext m k
      simp only [updV2]
      rw [if_neg hre']
      split
      · split <;> rfl
      · rfl
    · simp only [updV2]
      split
      · split <;> rfl
      · rfl

theorem setExec_tasks (V : View) (i : String) (b : Bool) : (V.setExec i b).tasks = V.tasks := rfl
theorem setExec_tmpls (V : View) (i : String) (b : Bool) : (V.setExec i b).tmpls = V.tmpls := rfl
theorem setExec_assoc (V : View) (i : String) (b : Bool) : (V.setExec i b).assoc = V.assoc := rfl
theorem setExec_exec (V : View) (i : String) (b : Bool) (j : String) :
    (V.setExec i b).exec j = if j = i then b else V.exec j := rfl

/-- The executing set after the running-state part of an update (as a function of the one before). -/
def updExec (e : String → Bool) (id newId : String) (oe ue ok : Bool) (i : String) : Bool :=
  if id ≠ newId ∧ oe = true ∧ ue = true then
    (if ok = true then (if i = newId then true else if i = id then false else e i) else (if i = id then false else e i))
  else if (oe != ue) = true then
    (if ue = true then (if ok = true then (if i = newId then true else e i) else e i)
     else (if i = id then false else e i))
  else e i

/-- Closed form of updateCommit (repaired order) once the definition was stored. -/
theorem updateCommit_closed (env : Env) (fail : List String) (w : World) (id newId : String) (orig upd : Task)
    (ho : w.store.tasks id = some orig) (hsd : (storeDefinition w id newId upd).2 = true)
    (hidle : upd.enabled = true → (orig.enabled = false ∨ id ≠ newId) → w.exec newId = false) :
    (updateCommit Variant.fixed env fail w id newId orig upd (needsReassoc Variant.fixed id newId orig upd.tmpl)).2 =
      (if upd.enabled = true ∧ (orig.enabled = false ∨ id ≠ newId) ∧ startOK env fail newId upd = false then .fail else .ok) ∧
    (updateCommit Variant.fixed env fail w id newId orig upd (needsReassoc Variant.fixed id newId orig upd.tmpl)).1.view =
      { updV2 w.view id newId orig upd with
        exec := updExec w.exec id newId orig.enabled upd.enabled (startOK env fail newId upd) } := by
  have hW2 := updateCommit_W2_view w id newId orig upd ho hsd
  unfold updateCommit
  have hnot : ¬ ((!(storeDefinition w id newId upd).2) = true) := by simp [hsd]
  rw [if_neg hnot]
  simp only [show (!Variant.fixed.assocEarly) = true from rfl, Bool.and_true]
  generalize (if needsReassoc Variant.fixed id newId orig upd.tmpl = true
      then reassociate (storeDefinition w id newId upd).1 id orig upd.tmpl newId
      else (storeDefinition w id newId upd).1) = W2 at hW2 ⊢
  have hW2e : W2.exec = w.exec := by
    have := congrArg View.exec hW2; simpa [updV2] using this
  have hRv := restartRenamed_view env fail W2 id newId orig upd
    (fun hne _ hue => by rw [hW2e]; exact hidle hue (Or.inr hne))
  have hRo := restartRenamed_ok env fail W2 id newId orig upd
  have hRidle : orig.enabled = false → upd.enabled = true → (restartRenamed env fail W2 id newId orig upd).1.exec newId = false := by
    intro hoe hue
    have := congrArg View.exec hRv
    rw [if_neg (fun hh => by rw [hoe] at hh; exact Bool.noConfusion hh.2.1)] at this
    simp only [view_exec] at this
    rw [this, hW2e]; exact hidle hue (Or.inl hoe)
  rw [hW2] at hRv
  generalize restartRenamed env fail W2 id newId orig upd = R at hRv hRo hRidle ⊢
  have hAv := applyStatus_view env fail R.1 id newId orig upd hRidle
  have hAr := applyStatus_resp_eq env fail R.1 id newId orig upd
  rw [hRv] at hAv
  generalize applyStatus env fail R.1 id newId orig upd = A at hAv hAr ⊢
  by_cases hid : id = newId
  · subst hid
    cases hoe : orig.enabled <;> cases hue : upd.enabled <;> cases hk : startOK env fail id upd <;>
      simp [hoe, hue, hk] at hRv hRo hAv hAr <;> simp [hRo, hAr, hAv, hRv, hoe, hue, hk] <;>
      (apply View.ext' <;> first | rfl | (funext i; simp [updExec, hoe, hue, hk, setExec_exec, updV2]))
  · cases hoe : orig.enabled <;> cases hue : upd.enabled <;> cases hk : startOK env fail newId upd <;>
      simp [hoe, hue, hk, hid] at hRv hRo hAv hAr <;> simp [hRo, hAr, hAv, hRv, hoe, hue, hk, hid] <;>
      (apply View.ext' <;> first | rfl | (funext i; simp [updExec, hoe, hue, hk, hid, setExec_exec, updV2]))

theorem exec_update_spec (env : Env) (fail : List String) (c : Cat) (e : String → Bool) (id : String) (r : TaskReq)
    (orig : Task) (hE : ∀ i, e i = c.executing i) (hc : c.tasks id = some orig)
    (hfresh : id ≠ updateId id r → c.tasks (updateId id r) = none)
    (hok : (updateDef env c orig r).enabled = true → (orig.enabled = false ∨ id ≠ updateId id r) →
      startOK env fail (updateId id r) (updateDef env c orig r) = true) (i : String) :
    updExec e id (updateId id r) orig.enabled (updateDef env c orig r).enabled
      (startOK env fail (updateId id r) (updateDef env c orig r)) i = (accept env fail c (.update id r)).executing i := by
  have h1 := hE i
  have h2 := hE id
  have h3 := hE (updateId id r)
  simp only [Cat.executing] at h1 h2 h3
  rw [hc] at h2
  simp only [accept, hc]
  generalize updateId id r = newId at *
  generalize updateDef env c orig r = upd at *
  generalize startOK env fail newId upd = ok at *
  unfold updExec
  by_cases hid : id = newId
  · subst hid
    by_cases hi : i = id
    · subst hi
      rw [hc] at h1
      cases hoe : orig.enabled <;> cases hue : upd.enabled <;> cases hk : ok <;>
        simp_all [Cat.executing, setStarted, setTask]
    · cases hoe : orig.enabled <;> cases hue : upd.enabled <;> cases hk : ok <;>
        simp_all [Cat.executing, setStarted, setTask]
  · have hf := hfresh hid
    rw [hf] at h3
    have hne : newId ≠ id := fun h => hid h.symm
    by_cases hi : i = newId
    · subst hi
      cases hoe : orig.enabled <;> cases hue : upd.enabled <;> cases hk : ok <;>
        simp_all [Cat.executing, setStarted, setTask]
    · by_cases hi2 : i = id
      · subst hi2
        cases hoe : orig.enabled <;> cases hue : upd.enabled <;> cases hk : ok <;>
          simp_all [Cat.executing, setStarted, setTask]
      · cases hoe : orig.enabled <;> cases hue : upd.enabled <;> cases hk : ok <;>
          simp_all [Cat.executing, setStarted, setTask]

theorem accept_update_tasks (env : Env) (fail : List String) (c : Cat) (id : String) (r : TaskReq) (orig : Task)
    (hc : c.tasks id = some orig) :
    (accept env fail c (.update id r)).tasks =
      (fun i => if i = updateId id r then some (updateDef env c orig r) else if i = id then none else c.tasks i) ∧
    (accept env fail c (.update id r)).tmpls = c.tmpls := by
  simp only [accept, hc]
  split
  · exact ⟨rfl, rfl⟩
  · split <;> exact ⟨rfl, rfl⟩

theorem updateCommit_refines (env : Env) (fail : List String) (w : World) (c : Cat) (id : String) (r : TaskReq)
    (orig : Task) (h : DInv w.view c) (ho : w.store.tasks id = some orig) :
    Ref env fail c (.update id r)
      (updateCommit Variant.fixed env fail w id (updateId id r) orig (updateDef env c orig r)
        (needsReassoc Variant.fixed id (updateId id r) orig (updateDef env c orig r).tmpl)) := by
  intro hdev
  have htasks : w.store.tasks = c.tasks := h.tasks
  have hc : c.tasks id = some orig := by rw [← htasks]; exact ho
  by_cases hsd : (storeDefinition w id (updateId id r) (updateDef env c orig r)).2 = true
  · have hfresh : id ≠ updateId id r → w.store.tasks (updateId id r) = none := by
      intro hne
      have := hsd
      rw [storeDefinition_ok w id _ _ orig ho, if_pos hne] at this
      cases hx : w.store.tasks (updateId id r)
      · rfl
      · rw [hx] at this; simp at this
    have hidle : (updateDef env c orig r).enabled = true → (orig.enabled = false ∨ id ≠ updateId id r) →
        w.exec (updateId id r) = false := by
      intro _ hor
      have he := h.exec (updateId id r)
      simp only [view_exec, Cat.executing] at he
      rw [he]
      rcases hor with hoe | hne
      · by_cases hid : id = updateId id r
        · rw [← hid, hc]; simp [hoe]
        · rw [← htasks, hfresh hid]
      · rw [← htasks, hfresh hne]
    obtain ⟨hresp, hview⟩ := updateCommit_closed env fail w id (updateId id r) orig (updateDef env c orig r) ho hsd hidle
    rw [hresp] at hdev ⊢
    rw [hview]
    have hstart : (updateDef env c orig r).enabled = true → (orig.enabled = false ∨ id ≠ updateId id r) →
        startOK env fail (updateId id r) (updateDef env c orig r) = true := by
      intro hue hor
      cases hk : startOK env fail (updateId id r) (updateDef env c orig r)
      · exfalso
        rw [if_pos ⟨hue, hor, hk⟩] at hdev
        have hcond : ((updateDef env c orig r).enabled && (!orig.enabled || decide (updateId id r ≠ id))) = true := by
          rcases hor with hoe | hne
          · simp [hue, hoe]
          · have : updateId id r ≠ id := fun e => hne e.symm
            simp [hue, this]
        simp [devStartFail, attempted, hc, hcond, hk] at hdev
        have hor' : orig.enabled = false ∨ ¬ updateId id r = id := by
          rcases hor with hoe | hne
          · exact Or.inl hoe
          · exact Or.inr (fun e => hne e.symm)
        rw [if_pos ⟨hue, hor'⟩] at hdev
        simp [hk] at hdev
      · rfl
    have hrespok : (if (updateDef env c orig r).enabled = true ∧ (orig.enabled = false ∨ id ≠ updateId id r) ∧
        startOK env fail (updateId id r) (updateDef env c orig r) = false then Resp.fail else Resp.ok) = .ok := by
      rw [if_neg]
      rintro ⟨h1, h2, h3⟩
      rw [hstart h1 h2] at h3; cases h3
    rw [hrespok]
    simp only [specStep, if_true]
    obtain ⟨hat, hatm⟩ := accept_update_tasks env fail c id r orig hc
    have hm : (updateDef env c orig r).tmpl = "" → orig.tmpl = "" := by
      intro he
      simp only [updateDef, updateTmpl] at he
      split at he
      · rename_i hne; exact absurd he hne
      · exact he
    refine ⟨?_, ?_, ?_, ?_⟩
    · exact AssocInv.update h.assoc (id := id) (newId := updateId id r) (orig := orig) (upd := updateDef env c orig r)
        ho hfresh hm _ _ (fun i => rfl) (fun m k => rfl)
    · show (updV2 w.view id (updateId id r) orig (updateDef env c orig r)).tasks = _
      rw [hat]; simp only [updV2, view_tasks, htasks]
    · show (updV2 w.view id (updateId id r) orig (updateDef env c orig r)).tmpls = _
      rw [hatm]; exact h.tmpls
    · intro i
      show updExec w.exec id (updateId id r) orig.enabled (updateDef env c orig r).enabled
        (startOK env fail (updateId id r) (updateDef env c orig r)) i = _
      exact exec_update_spec env fail c w.exec id r orig (fun j => h.exec j) hc
        (fun hne => by rw [← htasks]; exact hfresh hne) hstart i
  · -- the definition could not be stored (rename onto an existing ID): 500, nothing changed
    unfold updateCommit
    have hnot : (!(storeDefinition w id (updateId id r) (updateDef env c orig r)).2) = true := by simp [hsd]
    rw [if_pos hnot]
    simp only [specStep]
    rw [if_neg (by decide), storeDefinition_failed w id _ _ orig ho hsd]
    exact h

theorem updateTask_refines (env : Env) (fail : List String) (w : World) (c : Cat) (id : String) (r : TaskReq)
    (h : DInv w.view c) :
    Ref env fail c (.update id r) (updateTask Variant.fixed env fail w id r) := by
  unfold updateTask
  split
  · exact ref_nf h _
  · rename_i orig ho
    split
    · exact ref_bad h _
    · rename_i script m hus
      obtain ⟨hm, hscript⟩ := updateScript_some hus
      have htm : w.store.tmpls = c.tmpls := h.tmpls
      have hs : script = updateScriptOf c orig r := by
        rw [hscript, hm]; unfold updateScriptOf; rw [htm]
      dsimp only
      simp only [show Variant.fixed.assocEarly = false from rfl, Bool.and_false, Bool.false_eq_true, if_false]
      split
      · exact ref_bad h _
      · rename_i upd hv
        have hupd : upd = updateDef env c orig r := by
          rw [updateValidate_ok hv]; exact updateRecord_eq_def env c orig r script m hm hs
        have hmt : m = (updateDef env c orig r).tmpl := by rw [hm]; rfl
        rw [hupd, hmt]
        exact updateCommit_refines env fail w c id r orig h ho

/-! ### template update -/

/-- One successful iteration of the forward loop on an existing task. -/
theorem retargetOne_step (env : Env) (fail : List String) (oi os ni ns : String) (w : World) (k : String) (t : Task)
    (ht : w.store.tasks k = some t) (hok : (retargetOne env fail oi os ni ns w k).2 = true) :
    (retargetOne env fail oi os ni ns w k).1.view =
      { tasks := fun i => if i = k then some (retarget env os ni ns t) else w.store.tasks i,
        tmpls := w.store.tmpls,
        assoc := fun m j => if oi ≠ ni ∧ m = ni ∧ j = k then true else w.store.assoc m j,
        exec := fun i => if i = k ∧ t.enabled = true then true else w.exec i } ∧
    (t.enabled = true → startOK env fail k (retarget env os ni ns t) = true) := by
  unfold retargetOne at hok ⊢
  simp only [ht] at hok ⊢
  have hsome : ((if oi ≠ ni then associate w ni k else w).store.tasks k).isSome = true := by
    split <;> simp [associate, Store.setAssoc, ht]
  rw [reloadTask_ok] at hok
  rw [note_view, reloadTask_view _ _ _ _ _ hsome]
  have hen : (retarget env os ni ns t).enabled = t.enabled := rfl
  have hstart : t.enabled = true → startOK env fail k (retarget env os ni ns t) = true := by
    intro he; rw [hen, he] at hok; simpa using hok
  refine ⟨?_, hstart⟩
  rw [hen]
  by_cases hne : oi ≠ ni
  · rw [if_pos hne]
    cases he : t.enabled
    · simp only [Bool.false_eq_true, if_false]
      apply View.ext' <;> simp [View.put, View.setAssoc, associate_view, hne] <;> (funext m j; grind)
    · simp only [if_true, hstart he]
      apply View.ext' <;> simp [View.put, View.setAssoc, View.setExec, associate_view, hne] <;> (funext i; grind)
  · rw [if_neg hne]
    cases he : t.enabled
    · simp only [Bool.false_eq_true, if_false]
      apply View.ext' <;> simp [View.put, hne]
    · simp only [if_true, hstart he]
      apply View.ext' <;> simp [View.put, View.setExec, hne] <;> (funext i; grind)

/-- The forward loop, when it completes, on a list of existing tasks. -/
theorem updateAll_view (env : Env) (fail : List String) (oi os ni ns : String) (l done : List String) (w : World)
    (hok : (updateAll env fail oi os ni ns w done l).2 = true) (hsome : ∀ k ∈ l, (w.store.tasks k).isSome = true) :
    (updateAll env fail oi os ni ns w done l).1.store.tmpls = w.store.tmpls ∧
    (∀ m j, (updateAll env fail oi os ni ns w done l).1.store.assoc m j =
      if oi ≠ ni ∧ m = ni ∧ j ∈ l then true else w.store.assoc m j) ∧
    (∀ i, (updateAll env fail oi os ni ns w done l).1.exec i =
      if i ∈ l ∧ (∃ t, w.store.tasks i = some t ∧ t.enabled = true) then true else w.exec i) ∧
    (∀ k ∈ l, ∀ t, w.store.tasks k = some t → t.enabled = true → startOK env fail k (retarget env os ni ns t) = true) := by
  induction l generalizing w done with
  | nil => simp [updateAll]
  | cons k rest ih =>
    unfold updateAll at hok ⊢
    by_cases hs : (retargetOne env fail oi os ni ns w k).2 = true
    · rw [if_pos hs] at hok ⊢
      have hk := hsome k (List.mem_cons_self ..)
      obtain ⟨t, ht⟩ := Option.isSome_iff_exists.mp hk
      obtain ⟨hv, hst⟩ := retargetOne_step env fail oi os ni ns w k t ht hs
      have hv1 := congrArg View.tasks hv
      have hv2 := congrArg View.tmpls hv
      have hv3 := congrArg View.assoc hv
      have hv4 := congrArg View.exec hv
      simp only [view_tasks, view_tmpls, view_assoc, view_exec] at hv1 hv2 hv3 hv4
      have hsome' : ∀ k' ∈ rest, ((retargetOne env fail oi os ni ns w k).1.store.tasks k').isSome = true := by
        intro k' hk'
        rw [hv1]
        by_cases e : k' = k
        · simp [e]
        · simp [e]; exact hsome k' (List.mem_cons_of_mem _ hk')
      obtain ⟨i1, i2, i3, i4⟩ := ih (done ++ [k]) (retargetOne env fail oi os ni ns w k).1 hok hsome'
      refine ⟨by rw [i1, hv2], fun m j => ?_, fun i => ?_, fun k' hk' t' ht' he' => ?_⟩
      · rw [i2, hv3]; simp only [List.mem_cons]; grind
      · rw [i3, hv1, hv4]; simp only [List.mem_cons]
        by_cases e : i = k
        · subst e
          have hen : (retarget env os ni ns t).enabled = t.enabled := rfl
          cases he : t.enabled <;> simp [ht, he, hen]
        · simp [e]
      · rcases List.mem_cons.mp hk' with e | hin
        · subst e; rw [ht] at ht'; cases ht'; exact hst he'
        · by_cases e : k' = k
          · subst e; rw [ht] at ht'; cases ht'; exact hst he'
          · exact i4 k' hin t' (by rw [hv1]; simp [e]; exact ht') he'
    · rw [if_neg hs] at hok; cases hok

theorem storeTemplate_view (w : World) (id nid ns : String) :
    (storeTemplate w id nid ns).1.view =
      if id ≠ nid then (if (w.store.tmpls nid).isSome then w.view else (w.view.putTmpl nid ns).delTmpl id)
      else (if (w.store.tmpls id).isSome then w.view.putTmpl id ns else w.view) := by
  unfold storeTemplate
  split
  · cases hx : w.store.tmpls nid <;> simp_all [tmplCreate_ok, tmplCreate_view]
  · simp [tmplReplace_view]

theorem storeTemplate_ok (w : World) (id nid ns : String) :
    (storeTemplate w id nid ns).2 = if id ≠ nid then !(w.store.tmpls nid).isSome else (w.store.tmpls id).isSome := by
  unfold storeTemplate
  split
  · cases hx : w.store.tmpls nid <;> simp_all [tmplCreate_ok]
  · simp [tmplReplace_ok]

/-- An accepted template update shows the spec's catalogue. -/
theorem updateTemplate_refines (env : Env) (fail : List String) (w : World) (c : Cat) (id newId script : String)
    (h : DInv w.view c) (hdom : WDom w) (hid : id ≠ "")
    (hnf : (updateTemplate env fail w id newId script).2 ≠ .fail) :
    DInv (updateTemplate env fail w id newId script).1.view
      (specStep env fail c (.tupdate id newId script) (updateTemplate env fail w id newId script).2) := by
  have htasks : w.store.tasks = c.tasks := h.tasks
  have htmpls : w.store.tmpls = c.tmpls := h.tmpls
  cases hr : (updateTemplate env fail w id newId script).2 with
  | fail => exact absurd hr hnf
  | bad =>
    rw [updateTemplate_rejected env fail w id newId script (Or.inl hr)]
    simp only [specStep]; rw [if_neg (by decide)]; exact h
  | nf =>
    rw [updateTemplate_rejected env fail w id newId script (Or.inr hr)]
    simp only [specStep]; rw [if_neg (by decide)]; exact h
  | ok =>
    simp only [specStep, if_true]
    cases hos : w.store.tmpls id with
    | none =>
      exfalso
      unfold updateTemplate at hr
      simp only [hos] at hr
      cases hr
    | some os =>
      have hcos : c.tmpls id = some os := by rw [← htmpls]; exact hos
      have htk := updateTemplate_accepted_tasks env fail w id newId script os hos hid hdom h.assoc hr
      -- open the handler
      unfold updateTemplate at hr htk ⊢
      simp only [hos] at hr htk ⊢
      simp only [accept, hcos]
      generalize hnid : (if newId ≠ "" then newId else id) = nid at hr htk ⊢
      generalize (if script ≠ "" then script else os) = ns at hr htk ⊢
      have hnid0 : nid ≠ "" := by
        rw [← hnid]; split
        · assumption
        · exact hid
      by_cases h1 : (!tmplAccepts env os ns) = true
      · rw [if_pos h1] at hr; cases hr
      rw [if_neg h1] at hr htk ⊢
      by_cases h2 : (!(storeTemplate w id nid ns).2) = true
      · rw [if_pos h2] at hr; cases hr
      rw [if_neg h2] at hr htk ⊢
      by_cases h3 : (!(env os).parse || !(env ns).parse) = true
      · rw [if_pos h3] at hr; cases hr
      rw [if_neg h3] at hr htk ⊢
      simp only [note_store] at htk
      have hall : (updateAll env fail id os nid ns (storeTemplate w id nid ns).1 [] (listAssoc w.store id)).2 = true := by
        cases hu : (updateAll env fail id os nid ns (storeTemplate w id nid ns).1 [] (listAssoc w.store id)).2
        · rw [hu] at hr; simp at hr
        · rfl
      have hst := storeTemplate_te w id nid ns
      have hmem : ∀ i t, w.store.tasks i = some t → (i ∈ listAssoc w.store id ↔ t.tmpl = id) := by
        intro i t ht
        rw [mem_listAssoc]
        constructor
        · rintro ⟨_, ha⟩
          obtain ⟨_, t', ht', htm⟩ := (h.assoc id i).mp ha
          rw [view_tasks, ht] at ht'; cases ht'; exact htm
        · intro htm
          exact ⟨hdom i t ht, (h.assoc id i).mpr ⟨hid, t, ht, htm⟩⟩
      have hmem0 : ∀ i, w.store.tasks i = none → i ∉ listAssoc w.store id := by
        intro i hn hi
        obtain ⟨_, ha⟩ := (mem_listAssoc _ _ _).mp hi
        obtain ⟨_, t', ht', _⟩ := (h.assoc id i).mp ha
        rw [view_tasks, hn] at ht'; cases ht'
      have hsome : ∀ k ∈ listAssoc w.store id, ((storeTemplate w id nid ns).1.store.tasks k).isSome = true := by
        intro k hk
        rw [hst.1]
        cases hx : w.store.tasks k
        · exact absurd hk (hmem0 k hx)
        · rfl
      obtain ⟨e1, e2, e3, e4⟩ := updateAll_view env fail id os nid ns _ [] _ hall hsome
      rw [hst.1] at e3 e4
      rw [hst.2] at e3
      -- the template store
      have hsv := storeTemplate_view w id nid ns
      have hso := storeTemplate_ok w id nid ns
      have hsok : (storeTemplate w id nid ns).2 = true := by simpa using h2
      rw [hsok] at hso
      have hW1t : (storeTemplate w id nid ns).1.store.tmpls =
          fun i => if i = nid then some ns else if i = id then none else w.store.tmpls i := by
        have := congrArg View.tmpls hsv
        rw [view_tmpls] at this; rw [this]
        by_cases hne : id = nid
        · subst hne; simp [hos, View.putTmpl]; funext i; grind
        · have hn : (w.store.tmpls nid).isSome = false := by simpa [hne] using hso.symm
          simp [hne, hn, View.putTmpl, View.delTmpl]; funext i; grind
      have hW1a : ∀ m j, (storeTemplate w id nid ns).1.store.assoc m j =
          if id ≠ nid ∧ m = id then false else w.store.assoc m j := by
        intro m j
        have := congrArg View.assoc hsv
        rw [view_assoc] at this; rw [this]
        by_cases hne : id = nid
        · subst hne; simp [hos, View.putTmpl]
        · have hn : (w.store.tmpls nid).isSome = false := by simpa [hne] using hso.symm
          simp [hne, hn, View.putTmpl, View.delTmpl]
      refine ⟨fun m j => ?_, ?_, ?_, fun i => ?_⟩
      · -- association table
        simp only [note_view, view_assoc, view_tasks]
        rw [e2, hW1a, htk]
        have ha := h.assoc m j
        have ha2 := h.assoc id j
        simp only [view_assoc, view_tasks] at ha ha2
        cases htj : w.store.tasks j with
        | none =>
          have := hmem0 j htj
          rw [htj] at ha ha2
          simp only [this, and_false, if_false]
          grind
        | some t =>
          have hm := hmem j t htj
          rw [htj] at ha ha2
          simp only []
          by_cases htm : t.tmpl = id
          · have hin := hm.mpr htm
            simp only [htm, if_true, hin, and_true]
            have : (resync env os nid ns t).tmpl = nid := rfl
            grind
          · have hin : j ∉ listAssoc w.store id := fun hh => htm (hm.mp hh)
            simp only [htm, if_false, hin, and_false]
            grind
      · -- tasks
        simp only [note_view, view_tasks, htk, htasks]
        funext i; cases c.tasks i <;> rfl
      · -- templates
        simp only [note_view, view_tmpls]
        rw [e1, hW1t, htmpls]
      · -- executing set
        simp only [note_view, view_exec]
        rw [e3]
        have hex := h.exec i
        simp only [view_exec, Cat.executing] at hex
        rw [← htasks] at hex
        simp only [Cat.executing]
        rw [← htasks]
        cases hti : w.store.tasks i with
        | none =>
          have := hmem0 i hti
          rw [hti] at hex
          simp [this, hex]
        | some t =>
          have hm := hmem i t hti
          rw [hti] at hex
          simp only []
          by_cases htm : t.tmpl = id
          · have hin := hm.mpr htm
            have hen : (resync env os nid ns t).enabled = t.enabled := rfl
            cases he : t.enabled
            · simp [htm, hin, he, hen, hex]
            · have := e4 i hin t hti he
              rw [retarget_eq_resync] at this
              simp [htm, hin, he, hen, this]
          · have hin : i ∉ listAssoc w.store id := fun hh => htm (hm.mp hh)
            simp [htm, hin, hex]

/-! ### whole histories, every kind of request -/

/-- One step without any recorded deviation: no crash point, no refused start on a create / update, no delete of a
template that tasks were created from, no template update answered 500 (and template IDs are non-empty). -/
structure StepFree (env : Env) (c : Cat) (r : Req) (resp : Resp) : Prop where
  cut : r.cut = none
  nodev : devStartFail env r.fail c r.op resp = false
  noorphan : ∀ id, r.op = .tdelete id → ∀ i t, c.tasks i = some t → t.tmpl ≠ id
  tup : ∀ id n s, r.op = .tupdate id n s → id ≠ "" ∧ resp ≠ .fail

theorem refine_step_full (env : Env) (w : World) (c : Cat) (r : Req) (h : RInv w c)
    (hs : StepFree env c r (step Variant.fixed env r.fail r.cut w r.op).2) :
    RInv (step Variant.fixed env r.fail r.cut w r.op).1
      (specStep env r.fail c r.op (step Variant.fixed env r.fail r.cut w r.op).2) := by
  obtain ⟨hcut, hnodev, hno, htup⟩ := hs
  refine ⟨?_, ?_, step_inv Variant.fixed env r.fail r.cut w r.op h.ei⟩
  · rw [hcut] at hnodev htup ⊢
    simp only [step] at hnodev htup ⊢
    have hd : DInv (beginReq w none).view c := h.d
    have hei : ExecInv (beginReq w none) := h.ei
    have hdom : WDom (beginReq w none) := h.dom
    generalize beginReq w none = w0 at hd hei hdom hnodev htup ⊢
    cases hop : r.op with
    | create id q =>
      rw [hop] at hnodev
      simp only [handle] at hnodev ⊢
      exact createTask_refines env r.fail w0 c id q hei hd hnodev
    | update id q =>
      rw [hop] at hnodev
      simp only [handle] at hnodev ⊢
      exact updateTask_refines env r.fail w0 c id q hd hnodev
    | delete id =>
      simp only [handle, specStep, deleteTask_ok, if_true]
      exact deleteTask_refines env r.fail w0 c id hei hd
    | tcreate id s =>
      simp only [handle]
      exact createTemplate_refines env r.fail w0 c id s hd
    | tupdate id n s =>
      have := htup id n s hop
      rw [hop] at this
      simp only [handle] at this ⊢
      exact updateTemplate_refines env r.fail w0 c id n s hd hdom this.1 this.2
    | tdelete id =>
      have hacc : specStep env r.fail c (.tdelete id) (handle Variant.fixed env r.fail w0 (.tdelete id)).2 =
          accept env r.fail c (.tdelete id) := by
        unfold specStep; exact if_pos rfl
      rw [hacc]
      exact deleteTemplate_refines env r.fail w0 c id hd (hno id hop)
    | restart =>
      simp only [handle, specStep, if_true]
      exact restart_refines env r.fail w0 c hdom hd
    | die id =>
      simp only [handle, specStep, dieTask_ok, if_true]
      exact die_refines env r.fail w0 c id hd
  · rw [hcut]
    simp only [step]
    exact WDom.handle (w := beginReq w none) h.dom Variant.fixed env r.fail r.op

/-- Every step of the history is free of recorded deviations. -/
def AllFree (env : Env) : List Req → World × Cat → Prop
  | [], _ => True
  | r :: rest, (w, c) =>
    StepFree env c r (step Variant.fixed env r.fail r.cut w r.op).2 ∧
    AllFree env rest ((step Variant.fixed env r.fail r.cut w r.op).1,
      specStep env r.fail c r.op (step Variant.fixed env r.fail r.cut w r.op).2)

theorem refine_history_full (env : Env) (reqs : List Req) (w : World) (c : Cat) (h : RInv w c)
    (hok : AllFree env reqs (w, c)) :
    RInv (runBoth env reqs (w, c)).1 (runBoth env reqs (w, c)).2 := by
  induction reqs generalizing w c with
  | nil => exact h
  | cons r rest ih =>
    obtain ⟨hs, hrest⟩ := hok
    exact ih _ _ (refine_step_full env w c r h hs) hrest

end Kap.C14
