/-
C14 — helper lemmas, part 6: refinement for task update and template update, and the whole-history theorem with
every kind of request.
-/
import Kap.Proofs.C14Ref
set_option linter.unusedSimpArgs false
namespace Kap.C14

/-! ### update -/

/-- The executing set after an accepted update equals the spec's (abstract form: plain functions). -/
theorem exec_update (e st : String → Bool) (tasks : String → Option Task) (id newId : String) (orig upd : Task) (ok : Bool)
    (hE : ∀ i, e i = match tasks i with | some t => (t.enabled && st i) | none => false)
    (ho : tasks id = some orig) (hfresh : id ≠ newId → tasks newId = none)
    (hok : upd.enabled = true → (orig.enabled = false ∨ newId ≠ id) → ok = true) (i : String) :
    (if (orig.enabled != upd.enabled) = true then
        (if upd.enabled = true then
          (if ok = true then (if i = newId then true else
              (if id ≠ newId ∧ orig.enabled = true ∧ upd.enabled = true then
                (if ok = true then (if i = newId then true else if i = id then false else e i) else (if i = id then false else e i))
               else e i))
           else
              (if id ≠ newId ∧ orig.enabled = true ∧ upd.enabled = true then
                (if ok = true then (if i = newId then true else if i = id then false else e i) else (if i = id then false else e i))
               else e i))
         else (if i = id then false else
              (if id ≠ newId ∧ orig.enabled = true ∧ upd.enabled = true then
                (if ok = true then (if i = newId then true else if i = id then false else e i) else (if i = id then false else e i))
               else e i)))
      else
        (if id ≠ newId ∧ orig.enabled = true ∧ upd.enabled = true then
          (if ok = true then (if i = newId then true else if i = id then false else e i) else (if i = id then false else e i))
         else e i)) =
    (match (if i = newId then some upd else if i = id then none else tasks i) with
      | some t => (t.enabled &&
          (if (upd.enabled && (!orig.enabled || decide (newId ≠ id))) = true then (if i = newId then ok else st i)
           else if newId ≠ id then (if i = newId then st id else st i) else st i))
      | none => false) := by
  have h1 := hE i
  have h2 := hE id
  have h3 := hE newId
  rw [ho] at h2
  by_cases hid : id = newId
  · subst hid
    by_cases hi : i = id
    · subst hi
      rw [ho] at h1
      cases hoe : orig.enabled <;> cases hue : upd.enabled <;> cases hk : ok <;> simp_all
    · simp [hi]
      cases hoe : orig.enabled <;> cases hue : upd.enabled <;> cases hk : ok <;> simp_all
  · have hf := hfresh hid
    rw [hf] at h3
    have hne : newId ≠ id := fun h => hid h.symm
    by_cases hi : i = newId
    · subst hi
      cases hoe : orig.enabled <;> cases hue : upd.enabled <;> cases hk : ok <;> simp_all
    · by_cases hi2 : i = id
      · subst hi2
        cases hoe : orig.enabled <;> cases hue : upd.enabled <;> cases hk : ok <;> simp_all
      · cases hoe : orig.enabled <;> cases hue : upd.enabled <;> cases hk : ok <;> simp_all

theorem View.ext' {V V' : View} (h1 : V.tasks = V'.tasks) (h2 : V.tmpls = V'.tmpls) (h3 : V.assoc = V'.assoc)
    (h4 : V.exec = V'.exec) : V = V' := by
  cases V; cases V'; simp_all

/-- The view after "store the definition" and "move the association" (repaired order). -/
def updV2 (V : View) (id newId : String) (orig upd : Task) : View :=
  { tasks := fun i => if i = newId then some upd else if i = id then none else V.tasks i,
    tmpls := V.tmpls,
    assoc := fun m k =>
      if upd.tmpl ≠ "" ∧ (id ≠ newId ∨ orig.tmpl ≠ upd.tmpl) then
        (if m = upd.tmpl ∧ k = newId then true
         else if orig.tmpl ≠ "" ∧ m = orig.tmpl ∧ k = id then false else V.assoc m k)
      else V.assoc m k,
    exec := V.exec }

theorem needsReassoc_fixed (id newId : String) (orig : Task) (m : String) :
    (needsReassoc Variant.fixed id newId orig m = true) ↔ (m ≠ "" ∧ (id ≠ newId ∨ orig.tmpl ≠ m)) := by
  simp [needsReassoc, Variant.fixed]

theorem updateCommit_W2_view (w : World) (id newId : String) (orig upd : Task)
    (ho : w.store.tasks id = some orig) (hsd : (storeDefinition w id newId upd).2 = true) :
    (if (needsReassoc Variant.fixed id newId orig upd.tmpl) = true
      then reassociate (storeDefinition w id newId upd).1 id orig upd.tmpl newId
      else (storeDefinition w id newId upd).1).view = updV2 w.view id newId orig upd := by
  have hok := hsd
  rw [storeDefinition_ok w id newId upd orig ho] at hok
  have hV1 := storeDefinition_view w id newId upd orig ho
  have hr := needsReassoc_fixed id newId orig upd.tmpl
  by_cases hre : needsReassoc Variant.fixed id newId orig upd.tmpl = true
  · rw [if_pos hre, reassociate_view, hV1]
    have hre' := hr.mp hre
    apply View.ext'
    · funext i
      by_cases hid : id = newId
      · subst hid; simp [updV2, View.put, View.setAssoc]; split <;> simp [View.setAssoc, View.put] <;> grind
      · have hn : (w.store.tasks newId).isSome = false := by simpa [hid] using hok
        simp only [hid, ne_eq, not_false_eq_true, if_true, hn, Bool.false_eq_true, if_false]
        have : ∀ V : View, ((if orig.tmpl ≠ "" then V.setAssoc orig.tmpl id false else V).setAssoc upd.tmpl newId true).tasks = V.tasks := by
          intro V; split <;> rfl
        rw [this]
        simp only [updV2, View.del, View.put, view_tasks]
        grind
    · have : ∀ V : View, ((if orig.tmpl ≠ "" then V.setAssoc orig.tmpl id false else V).setAssoc upd.tmpl newId true).tmpls = V.tmpls := by
        intro V; split <;> rfl
      rw [this]
      simp only [updV2]
      split
      · split <;> rfl
      · rfl
    · funext m k
      have hA : ∀ V : View, ((if orig.tmpl ≠ "" then V.setAssoc orig.tmpl id false else V).setAssoc upd.tmpl newId true).assoc m k =
          if m = upd.tmpl ∧ k = newId then true else if orig.tmpl ≠ "" ∧ m = orig.tmpl ∧ k = id then false else V.assoc m k := by
        intro V
        split <;> simp [View.setAssoc] <;> grind
      rw [hA]
      have hV1a : (if id ≠ newId then if (w.store.tasks newId).isSome = true then w.view else (w.view.put newId upd).del id
          else w.view.put id upd).assoc = w.view.assoc := by
        split
        · split <;> rfl
        · rfl
      rw [hV1a]
      simp only [updV2, view_assoc]
      rw [if_pos hre']
    · have : ∀ V : View, ((if orig.tmpl ≠ "" then V.setAssoc orig.tmpl id false else V).setAssoc upd.tmpl newId true).exec = V.exec := by
        intro V; split <;> rfl
      rw [this]
      simp only [updV2]
      split
      · split <;> rfl
      · rfl
  · rw [if_neg hre, hV1]
    have hre' : ¬ (upd.tmpl ≠ "" ∧ (id ≠ newId ∨ orig.tmpl ≠ upd.tmpl)) := fun hh => hre (hr.mpr hh)
    apply View.ext'
    · funext i
      by_cases hid : id = newId
      · subst hid; simp [updV2, View.put]; grind
      · have hn : (w.store.tasks newId).isSome = false := by simpa [hid] using hok
        simp only [hid, ne_eq, not_false_eq_true, if_true, hn, Bool.false_eq_true, if_false]
        simp only [updV2, View.del, View.put, view_tasks]
        grind
    · simp only [updV2]
      split
      · split <;> rfl
      · rfl
    · funext m k
      simp only [updV2]
      rw [if_neg hre']
      split
      · split <;> rfl
      · rfl
    · simp only [updV2]
      split
      · split <;> rfl
      · rfl

theorem setExec_tasks (V : View) (i : String) (b : Bool) : (V.setExec i b).tasks = V.tasks := rfl
theorem setExec_tmpls (V : View) (i : String) (b : Bool) : (V.setExec i b).tmpls = V.tmpls := rfl
theorem setExec_assoc (V : View) (i : String) (b : Bool) : (V.setExec i b).assoc = V.assoc := rfl
theorem setExec_exec (V : View) (i : String) (b : Bool) (j : String) :
    (V.setExec i b).exec j = if j = i then b else V.exec j := rfl

/-- The executing set after the running-state part of an update (as a function of the one before). -/
def updExec (e : String → Bool) (id newId : String) (oe ue ok : Bool) (i : String) : Bool :=
  if id ≠ newId ∧ oe = true ∧ ue = true then
    (if ok = true then (if i = newId then true else if i = id then false else e i) else (if i = id then false else e i))
  else if (oe != ue) = true then
    (if ue = true then (if ok = true then (if i = newId then true else e i) else e i)
     else (if i = id then false else e i))
  else e i

/-- Closed form of updateCommit (repaired order) once the definition was stored. -/
theorem updateCommit_closed (env : Env) (fail : List String) (w : World) (id newId : String) (orig upd : Task)
    (ho : w.store.tasks id = some orig) (hsd : (storeDefinition w id newId upd).2 = true) :
    (updateCommit Variant.fixed env fail w id newId orig upd (needsReassoc Variant.fixed id newId orig upd.tmpl)).2 =
      (if upd.enabled = true ∧ (orig.enabled = false ∨ id ≠ newId) ∧ startOK env fail newId upd = false then .fail else .ok) ∧
    (updateCommit Variant.fixed env fail w id newId orig upd (needsReassoc Variant.fixed id newId orig upd.tmpl)).1.view =
      { updV2 w.view id newId orig upd with
        exec := updExec w.exec id newId orig.enabled upd.enabled (startOK env fail newId upd) } := by
  have hW2 := updateCommit_W2_view w id newId orig upd ho hsd
  unfold updateCommit
  have hnot : ¬ ((!(storeDefinition w id newId upd).2) = true) := by simp [hsd]
  rw [if_neg hnot]
  simp only [show (!Variant.fixed.assocEarly) = true from rfl, Bool.and_true]
  generalize (if needsReassoc Variant.fixed id newId orig upd.tmpl = true
      then reassociate (storeDefinition w id newId upd).1 id orig upd.tmpl newId
      else (storeDefinition w id newId upd).1) = W2 at hW2 ⊢
  have hRv := restartRenamed_view env fail W2 id newId orig upd
  have hRo := restartRenamed_ok env fail W2 id newId orig upd
  rw [hW2] at hRv
  generalize restartRenamed env fail W2 id newId orig upd = R at hRv hRo ⊢
  have hAv := applyStatus_view env fail R.1 id newId orig upd
  have hAr := applyStatus_resp_eq env fail R.1 id newId orig upd
  rw [hRv] at hAv
  generalize applyStatus env fail R.1 id newId orig upd = A at hAv hAr ⊢
  by_cases hid : id = newId
  · subst hid
    cases hoe : orig.enabled <;> cases hue : upd.enabled <;> cases hk : startOK env fail id upd <;>
      simp [hoe, hue, hk] at hRv hRo hAv hAr <;> simp [hRo, hAr, hAv, hRv, hoe, hue, hk] <;>
      (apply View.ext' <;> first | rfl | (funext i; simp [updExec, hoe, hue, hk, setExec_exec, updV2]))
  · cases hoe : orig.enabled <;> cases hue : upd.enabled <;> cases hk : startOK env fail newId upd <;>
      simp [hoe, hue, hk, hid] at hRv hRo hAv hAr <;> simp [hRo, hAr, hAv, hRv, hoe, hue, hk, hid] <;>
      (apply View.ext' <;> first | rfl | (funext i; simp [updExec, hoe, hue, hk, hid, setExec_exec, updV2]))

theorem exec_update_spec (env : Env) (fail : List String) (c : Cat) (e : String → Bool) (id : String) (r : TaskReq)
    (orig : Task) (hE : ∀ i, e i = c.executing i) (hc : c.tasks id = some orig)
    (hfresh : id ≠ updateId id r → c.tasks (updateId id r) = none)
    (hok : (updateDef env c orig r).enabled = true → (orig.enabled = false ∨ id ≠ updateId id r) →
      startOK env fail (updateId id r) (updateDef env c orig r) = true) (i : String) :
    updExec e id (updateId id r) orig.enabled (updateDef env c orig r).enabled
      (startOK env fail (updateId id r) (updateDef env c orig r)) i = (accept env fail c (.update id r)).executing i := by
  have h1 := hE i
  have h2 := hE id
  have h3 := hE (updateId id r)
  simp only [Cat.executing] at h1 h2 h3
  rw [hc] at h2
  simp only [accept, hc]
  generalize updateId id r = newId at *
  generalize updateDef env c orig r = upd at *
  generalize startOK env fail newId upd = ok at *
  unfold updExec
  by_cases hid : id = newId
  · subst hid
    by_cases hi : i = id
    · subst hi
      rw [hc] at h1
      cases hoe : orig.enabled <;> cases hue : upd.enabled <;> cases hk : ok <;>
        simp_all [Cat.executing, setStarted, setTask]
    · cases hoe : orig.enabled <;> cases hue : upd.enabled <;> cases hk : ok <;>
        simp_all [Cat.executing, setStarted, setTask]
  · have hf := hfresh hid
    rw [hf] at h3
    have hne : newId ≠ id := fun h => hid h.symm
    by_cases hi : i = newId
    · subst hi
      cases hoe : orig.enabled <;> cases hue : upd.enabled <;> cases hk : ok <;>
        simp_all [Cat.executing, setStarted, setTask]
    · by_cases hi2 : i = id
      · subst hi2
        cases hoe : orig.enabled <;> cases hue : upd.enabled <;> cases hk : ok <;>
          simp_all [Cat.executing, setStarted, setTask]
      · cases hoe : orig.enabled <;> cases hue : upd.enabled <;> cases hk : ok <;>
          simp_all [Cat.executing, setStarted, setTask]

theorem accept_update_tasks (env : Env) (fail : List String) (c : Cat) (id : String) (r : TaskReq) (orig : Task)
    (hc : c.tasks id = some orig) :
    (accept env fail c (.update id r)).tasks =
      (fun i => if i = updateId id r then some (updateDef env c orig r) else if i = id then none else c.tasks i) ∧
    (accept env fail c (.update id r)).tmpls = c.tmpls := by
  simp only [accept, hc]
  split
  · exact ⟨rfl, rfl⟩
  · split <;> exact ⟨rfl, rfl⟩

theorem updateCommit_refines (env : Env) (fail : List String) (w : World) (c : Cat) (id : String) (r : TaskReq)
    (orig : Task) (h : DInv w.view c) (ho : w.store.tasks id = some orig) :
    Ref env fail c (.update id r)
      (updateCommit Variant.fixed env fail w id (updateId id r) orig (updateDef env c orig r)
        (needsReassoc Variant.fixed id (updateId id r) orig (updateDef env c orig r).tmpl)) := by
  intro hdev
  have htasks : w.store.tasks = c.tasks := h.tasks
  have hc : c.tasks id = some orig := by rw [← htasks]; exact ho
  by_cases hsd : (storeDefinition w id (updateId id r) (updateDef env c orig r)).2 = true
  · obtain ⟨hresp, hview⟩ := updateCommit_closed env fail w id (updateId id r) orig (updateDef env c orig r) ho hsd
    rw [hresp] at hdev ⊢
    rw [hview]
    have hfresh : id ≠ updateId id r → w.store.tasks (updateId id r) = none := by
      intro hne
      have := hsd
      rw [storeDefinition_ok w id _ _ orig ho, if_pos hne] at this
      cases hx : w.store.tasks (updateId id r)
      · rfl
      · rw [hx] at this; simp at this
    have hstart : (updateDef env c orig r).enabled = true → (orig.enabled = false ∨ id ≠ updateId id r) →
        startOK env fail (updateId id r) (updateDef env c orig r) = true := by
      intro hue hor
      cases hk : startOK env fail (updateId id r) (updateDef env c orig r)
      · exfalso
        rw [if_pos ⟨hue, hor, hk⟩] at hdev
        have hcond : ((updateDef env c orig r).enabled && (!orig.enabled || decide (updateId id r ≠ id))) = true := by
          rcases hor with hoe | hne
          · simp [hue, hoe]
          · have : updateId id r ≠ id := fun e => hne e.symm
            simp [hue, this]
        simp [devStartFail, attempted, hc, hcond, hk] at hdev
        have hor' : orig.enabled = false ∨ ¬ updateId id r = id := by
          rcases hor with hoe | hne
          · exact Or.inl hoe
          · exact Or.inr (fun e => hne e.symm)
        rw [if_pos ⟨hue, hor'⟩] at hdev
        simp [hk] at hdev
      · rfl
    have hrespok : (if (updateDef env c orig r).enabled = true ∧ (orig.enabled = false ∨ id ≠ updateId id r) ∧
        startOK env fail (updateId id r) (updateDef env c orig r) = false then Resp.fail else Resp.ok) = .ok := by
      rw [if_neg]
      rintro ⟨h1, h2, h3⟩
      rw [hstart h1 h2] at h3; cases h3
    rw [hrespok]
    simp only [specStep, if_true]
    obtain ⟨hat, hatm⟩ := accept_update_tasks env fail c id r orig hc
    have hm : (updateDef env c orig r).tmpl = "" → orig.tmpl = "" := by
      intro he
      simp only [updateDef, updateTmpl] at he
      split at he
      · rename_i hne; exact absurd he hne
      · exact he
    refine ⟨?_, ?_, ?_, ?_⟩
    · exact AssocInv.update h.assoc (id := id) (newId := updateId id r) (orig := orig) (upd := updateDef env c orig r)
        ho hfresh hm _ _ (fun i => rfl) (fun m k => rfl)
    · show (updV2 w.view id (updateId id r) orig (updateDef env c orig r)).tasks = _
      rw [hat]; simp only [updV2, view_tasks, htasks]
    · show (updV2 w.view id (updateId id r) orig (updateDef env c orig r)).tmpls = _
      rw [hatm]; exact h.tmpls
    · intro i
      show updExec w.exec id (updateId id r) orig.enabled (updateDef env c orig r).enabled
        (startOK env fail (updateId id r) (updateDef env c orig r)) i = _
      exact exec_update_spec env fail c w.exec id r orig (fun j => h.exec j) hc
        (fun hne => by rw [← htasks]; exact hfresh hne) hstart i
  · -- the definition could not be stored (rename onto an existing ID): 500, nothing changed
    unfold updateCommit
    have hnot : (!(storeDefinition w id (updateId id r) (updateDef env c orig r)).2) = true := by simp [hsd]
    rw [if_pos hnot]
    simp only [specStep]
    rw [if_neg (by decide), storeDefinition_failed w id _ _ orig ho hsd]
    exact h

theorem updateTask_refines (env : Env) (fail : List String) (w : World) (c : Cat) (id : String) (r : TaskReq)
    (h : DInv w.view c) :
    Ref env fail c (.update id r) (updateTask Variant.fixed env fail w id r) := by
  unfold updateTask
  split
  · exact ref_nf h _
  · rename_i orig ho
    split
    · exact ref_bad h _
    · rename_i script m hus
      obtain ⟨hm, hscript⟩ := updateScript_some hus
      have htm : w.store.tmpls = c.tmpls := h.tmpls
      have hs : script = updateScriptOf c orig r := by
        rw [hscript, hm]; unfold updateScriptOf; rw [htm]
      dsimp only
      simp only [show Variant.fixed.assocEarly = false from rfl, Bool.and_false, Bool.false_eq_true, if_false]
      split
      · exact ref_bad h _
      · rename_i upd hv
        have hupd : upd = updateDef env c orig r := by
          rw [updateValidate_ok hv]; exact updateRecord_eq_def env c orig r script m hm hs
        have hmt : m = (updateDef env c orig r).tmpl := by rw [hm]; rfl
        rw [hupd, hmt]
        exact updateCommit_refines env fail w c id r orig h ho

end Kap.C14
