/-
C14 — helper lemmas for the listing endpoints, part 2: the ID indexes stay strictly sorted and the template index
enumerates every stored template (`Idx`) — through every sub-step and handler (the same walk through the handlers as
Kap/Proofs/C14Dom.lean, for a different store invariant), hence along every crash-free history.
-/
import Kap.Proofs.C14List
set_option linter.unusedSimpArgs false
namespace Kap.C14

/-- The enumerations of the store are strictly sorted (key order without duplicates) and `mids` covers the templates. -/
structure Idx (s : Store) : Prop where
  tids : Sorted s.tids
  mids : Sorted s.mids
  mdom : ∀ i sc, s.tmpls i = some sc → i ∈ s.mids

theorem Idx.putTask {s : Store} (h : Idx s) (id : String) (t : Task) : Idx (s.putTask id t) :=
  ⟨Sorted.insId h.tids id, h.mids, h.mdom⟩
theorem Idx.delTask {s : Store} (h : Idx s) (id : String) : Idx (s.delTask id) := ⟨h.tids, h.mids, h.mdom⟩
theorem Idx.setAssoc {s : Store} (h : Idx s) (m k : String) (b : Bool) : Idx (s.setAssoc m k b) := by
  refine ⟨?_, h.mids, h.mdom⟩
  simp only [Store.setAssoc]
  split
  · exact Sorted.insId h.tids k
  · exact h.tids
theorem Idx.putTmpl {s : Store} (h : Idx s) (m sc : String) : Idx (s.putTmpl m sc) := by
  refine ⟨h.tids, Sorted.insId h.mids m, fun i sc' hi => ?_⟩
  simp only [Store.putTmpl] at hi ⊢
  rw [mem_insId]
  by_cases hid : i = m
  · exact Or.inl hid
  · simp [hid] at hi; exact Or.inr (h.mdom i sc' hi)
theorem Idx.delTmpl {s : Store} (h : Idx s) (m : String) : Idx (s.delTmpl m) := by
  refine ⟨h.tids, h.mids, fun i sc' hi => ?_⟩
  simp only [Store.delTmpl] at hi ⊢
  by_cases hid : i = m
  · simp [hid] at hi
  · simp [hid] at hi; exact h.mdom i sc' hi

/-- `Idx` of the world's store. -/
def WIdx (w : World) : Prop := Idx w.store

theorem WIdx.of_store {w w' : World} (h : WIdx w) (hs : w'.store = w.store) : WIdx w' := by unfold WIdx; rw [hs]; exact h
theorem WIdx.note {w : World} (h : WIdx w) (b : String) : WIdx (w.note b) := h.of_store (note_store w b)
theorem WIdx.tasksCreate {w : World} (h : WIdx w) (id : String) (t : Task) : WIdx (tasksCreate w id t).1 := by
  unfold Kap.C14.tasksCreate; split
  · exact h
  · exact Idx.putTask h id t
theorem WIdx.tasksReplace {w : World} (h : WIdx w) (id : String) (t : Task) : WIdx (tasksReplace w id t).1 := by
  unfold Kap.C14.tasksReplace; split
  · exact Idx.putTask h id t
  · exact h
theorem WIdx.tasksDelete {w : World} (h : WIdx w) (id : String) : WIdx (tasksDelete w id) := Idx.delTask h id
theorem WIdx.tmplCreate {w : World} (h : WIdx w) (id s : String) : WIdx (tmplCreate w id s).1 := by
  unfold Kap.C14.tmplCreate; split
  · exact h
  · exact Idx.putTmpl h id s
theorem WIdx.tmplReplace {w : World} (h : WIdx w) (id s : String) : WIdx (tmplReplace w id s).1 := by
  unfold Kap.C14.tmplReplace; split
  · exact Idx.putTmpl h id s
  · exact h
theorem WIdx.tmplDelete {w : World} (h : WIdx w) (id : String) : WIdx (tmplDelete w id) := Idx.delTmpl h id
theorem WIdx.associate {w : World} (h : WIdx w) (m k : String) : WIdx (associate w m k) := Idx.setAssoc h m k true
theorem WIdx.disassociate {w : World} (h : WIdx w) (m k : String) : WIdx (disassociate w m k) := Idx.setAssoc h m k false
theorem WIdx.startTask {w : World} (h : WIdx w) (env : Env) (fail : List String) (id : String) (t : Task) :
    WIdx (startTask env fail w id t).1 := h.of_store (startTask_store env fail w id t)
theorem WIdx.stopTask {w : World} (h : WIdx w) (id : String) : WIdx (stopTask w id) := h
theorem WIdx.ite {c : Prop} [Decidable c] {a b : World} (ha : WIdx a) (hb : WIdx b) : WIdx (if c then a else b) := by
  split <;> assumption

theorem WIdx.reloadTask {w : World} (h : WIdx w) (env : Env) (fail : List String) (k : String) (t : Task) :
    WIdx (reloadTask env fail w k t).1 := by
  unfold Kap.C14.reloadTask; split
  · exact ((h.tasksReplace k t).stopTask k).startTask env fail k t
  · exact h.tasksReplace k t

theorem WIdx.createCommit {w : World} (h : WIdx w) (v : Variant) (env : Env) (fail : List String) (id : String) (t : Task)
    (b : Bool) : WIdx (createCommit v env fail w id t b).1 := by
  unfold Kap.C14.createCommit
  dsimp only
  have h1 := h.tasksCreate id t
  generalize Kap.C14.tasksCreate w id t = c at h1 ⊢
  have h2 : WIdx (if (b && !v.assocEarly) = true then Kap.C14.associate c.1 t.tmpl id else c.1) :=
    WIdx.ite (h1.associate _ _) h1
  generalize (if (b && !v.assocEarly) = true then Kap.C14.associate c.1 t.tmpl id else c.1) = w1 at h2 ⊢
  have h3 : WIdx (if b = true then w1.note "create-templated" else w1) := WIdx.ite (h2.note _) h2
  generalize (if b = true then w1.note "create-templated" else w1) = w2 at h3 ⊢
  split
  · exact h1
  · split
    · split
      · exact (h3.startTask env fail id t).note _
      · exact (h3.startTask env fail id t).note _
    · exact h3.note _

theorem WIdx.createTask {w : World} (h : WIdx w) (v : Variant) (env : Env) (fail : List String) (id : String) (r : TaskReq) :
    WIdx (createTask v env fail w id r).1 := by
  unfold Kap.C14.createTask
  split
  · exact h.note _
  · split
    · exact h.note _
    · dsimp only
      have h1 : ∀ c : Bool, WIdx (if c = true then Kap.C14.associate w r.tmpl id else w) := fun c => WIdx.ite (h.associate _ _) h
      split
      · exact (h1 _).note _
      · exact (h1 _).createCommit v env fail id _ _

theorem WIdx.reassociate {w : World} (h : WIdx w) (id : String) (orig : Task) (m newId : String) :
    WIdx (reassociate w id orig m newId) := by
  unfold Kap.C14.reassociate
  exact ((WIdx.ite (h.disassociate _ _) h).associate m newId).note _

theorem WIdx.storeDefinition {w : World} (h : WIdx w) (id newId : String) (upd : Task) :
    WIdx (storeDefinition w id newId upd).1 := by
  unfold Kap.C14.storeDefinition
  split
  · split
    · exact ((h.tasksCreate newId upd).tasksDelete id).note _
    · exact (h.tasksCreate newId upd).note _
  · exact h.tasksReplace id upd

theorem WIdx.restartRenamed {w : World} (h : WIdx w) (env : Env) (fail : List String) (id newId : String) (orig upd : Task) :
    WIdx (restartRenamed env fail w id newId orig upd).1 := by
  unfold Kap.C14.restartRenamed
  split
  · exact ((h.stopTask id).startTask env fail newId upd).note _
  · exact h

theorem WIdx.applyStatus {w : World} (h : WIdx w) (env : Env) (fail : List String) (id newId : String) (orig upd : Task) :
    WIdx (applyStatus env fail w id newId orig upd).1 := by
  unfold Kap.C14.applyStatus
  split
  · split
    · split
      · exact (h.startTask env fail newId upd).note _
      · exact (h.startTask env fail newId upd).note _
    · exact (h.stopTask id).note _
  · exact h.note _

theorem WIdx.updateCommit {w : World} (h : WIdx w) (v : Variant) (env : Env) (fail : List String) (id newId : String)
    (orig upd : Task) (b : Bool) : WIdx (updateCommit v env fail w id newId orig upd b).1 := by
  unfold Kap.C14.updateCommit
  dsimp only
  have h1 := h.storeDefinition id newId upd
  generalize Kap.C14.storeDefinition w id newId upd = sd at h1 ⊢
  have h2 : WIdx (if (b && !v.assocEarly) = true then Kap.C14.reassociate sd.1 id orig upd.tmpl newId else sd.1) :=
    WIdx.ite (h1.reassociate _ _ _ _) h1
  generalize (if (b && !v.assocEarly) = true then Kap.C14.reassociate sd.1 id orig upd.tmpl newId else sd.1) = w1 at h2 ⊢
  have h3 := h2.restartRenamed env fail id newId orig upd
  generalize Kap.C14.restartRenamed env fail w1 id newId orig upd = rr at h3 ⊢
  split
  · exact h1
  · split
    · exact h3
    · exact h3.applyStatus env fail id newId orig upd

theorem WIdx.updateTask {w : World} (h : WIdx w) (v : Variant) (env : Env) (fail : List String) (id : String) (r : TaskReq) :
    WIdx (updateTask v env fail w id r).1 := by
  unfold Kap.C14.updateTask
  split
  · exact h.note _
  · split
    · exact h.note _
    · dsimp only
      rename_i orig _ _ script m _
      have h1 : ∀ (c : Bool) (nid : String), WIdx (if c = true then Kap.C14.reassociate w id orig m nid else w) :=
        fun c nid => WIdx.ite (h.reassociate _ _ _ _) h
      split
      · exact (h1 _ _).note _
      · exact (h1 _ _).updateCommit v env fail id _ orig _ _

theorem WIdx.deleteTask {w : World} (h : WIdx w) (id : String) : WIdx (deleteTask w id).1 := by
  unfold Kap.C14.deleteTask
  have h0 : WIdx (w.tx (fun s => s)) := h
  split
  · exact h0.note _
  · rename_i t _
    have h1 : WIdx (if t.tmpl ≠ "" then (Kap.C14.disassociate (w.tx (fun s => s)) t.tmpl id).note "delete-templated"
        else w.tx (fun s => s)) := WIdx.ite ((h0.disassociate _ _).note _) h0
    exact (WIdx.ite ((h1.stopTask id).note _) (h1.note _)).tasksDelete id

theorem WIdx.createTemplate {w : World} (h : WIdx w) (env : Env) (id s : String) : WIdx (createTemplate env w id s).1 := by
  unfold Kap.C14.createTemplate
  split
  · exact h.note _
  · split
    · exact h.note _
    · exact (h.tmplCreate id s).note _

theorem WIdx.storeTemplate {w : World} (h : WIdx w) (id newId s : String) : WIdx (storeTemplate w id newId s).1 := by
  unfold Kap.C14.storeTemplate
  split
  · split
    · exact ((h.tmplCreate newId s).tmplDelete id).note _
    · exact (h.tmplCreate newId s).note _
  · exact h.tmplReplace id s

theorem WIdx.retargetOne {w : World} (h : WIdx w) (env : Env) (fail : List String) (oi os ni ns k : String) :
    WIdx (retargetOne env fail oi os ni ns w k).1 := by
  unfold Kap.C14.retargetOne
  split
  · exact (h.disassociate _ _).note _
  · exact ((WIdx.ite (h.associate _ _) h).reloadTask env fail k _).note _

theorem WIdx.rollbackOne {w : World} (h : WIdx w) (env : Env) (fail : List String) (oi os k : String) :
    WIdx (rollbackOne env fail oi os w k) := by
  unfold Kap.C14.rollbackOne
  split
  · exact h.note _
  · exact (h.reloadTask env fail k _).note _

theorem WIdx.rollback (env : Env) (fail : List String) (oi os : String) (l : List String) {w : World} (h : WIdx w) :
    WIdx (rollback env fail oi os w l) := by
  induction l generalizing w with
  | nil => exact h
  | cons k rest ih => exact ih (h.rollbackOne env fail oi os k)

theorem WIdx.updateAll (env : Env) (fail : List String) (oi os ni ns : String) (l done : List String) {w : World}
    (h : WIdx w) : WIdx (updateAll env fail oi os ni ns w done l).1 := by
  induction l generalizing w done with
  | nil => exact h
  | cons k rest ih =>
    unfold Kap.C14.updateAll
    split
    · exact ih _ (h.retargetOne env fail oi os ni ns k)
    · exact WIdx.rollback env fail oi os _ ((h.retargetOne env fail oi os ni ns k).note _)

theorem WIdx.updateTemplate {w : World} (h : WIdx w) (env : Env) (fail : List String) (id n s : String) :
    WIdx (updateTemplate env fail w id n s).1 := by
  unfold Kap.C14.updateTemplate
  split
  · exact h.note _
  · rename_i os _
    generalize (if n ≠ "" then n else id) = nid
    generalize (if s ≠ "" then s else os) = ns
    have hst := h.storeTemplate id nid ns
    split
    · exact h.note _
    · split
      · exact hst
      · split
        · exact (WIdx.rollback env fail id os _ hst).note _
        · exact (WIdx.updateAll env fail id os nid ns _ _ hst).note _

theorem WIdx.handle {w : World} (h : WIdx w) (v : Variant) (env : Env) (fail : List String) (op : Op) :
    WIdx (handle v env fail w op).1 := by
  cases op <;> simp only [Kap.C14.handle]
  · exact h.createTask v env fail _ _
  · exact h.updateTask v env fail _ _
  · exact h.deleteTask _
  · exact h.createTemplate env _ _
  · exact h.updateTemplate env fail _ _ _
  · exact (h.tmplDelete _).note _
  · exact (h.of_store (boot_spec env fail w.store w.br).1).note _
  · exact h.of_store (dieTask_store w _)

end Kap.C14

namespace Kap.C14

theorem WIdx.init : WIdx ({} : World) := ⟨List.Pairwise.nil, List.Pairwise.nil, fun _ _ h => by cases h⟩

/-- A step without crash point keeps the indexes sorted. -/
theorem WIdx.step_none {w : World} (h : WIdx w) (v : Variant) (env : Env) (fail : List String) (op : Op) :
    WIdx (step v env fail none w op).1 := by
  simp only [step]
  exact WIdx.handle (w := beginReq w none) h v env fail op

/-- … hence along every deviation-free history. -/
theorem runBoth_idx (env : Env) (reqs : List Req) (w : World) (c : Cat) (h : WIdx w) (hok : AllFree env reqs (w, c)) :
    WIdx (runBoth env reqs (w, c)).1 := by
  induction reqs generalizing w c with
  | nil => exact h
  | cons r rest ih =>
    obtain ⟨hs, hrest⟩ := hok
    refine ih _ _ ?_ hrest
    have hc := hs.cut
    rw [hc]
    exact h.step_none Variant.fixed env r.fail r.op

/-- The ID index of the tasks is the sorted list of the catalogue's task IDs. -/
theorem taskIndex_eq_taskIds {w : World} {c : Cat} (h : RInv w c) (hi : WIdx w) (known : List String)
    (hk : ∀ i t, c.tasks i = some t → i ∈ known) : w.store.taskIndex = c.taskIds known := by
  have ht : w.store.tasks = c.tasks := h.d.tasks
  unfold Store.taskIndex Cat.taskIds
  rw [ht]
  refine Sorted.ext (List.Pairwise.filter _ hi.tids) (List.Pairwise.filter _ (sortIds_sorted known)) (fun x => ?_)
  simp only [List.mem_filter, mem_sortIds]
  constructor
  · rintro ⟨_, hx⟩
    refine ⟨?_, hx⟩
    cases hc : c.tasks x with
    | none => simp [hc] at hx
    | some t => exact hk x t hc
  · rintro ⟨_, hx⟩
    refine ⟨?_, hx⟩
    cases hc : c.tasks x with
    | none => simp [hc] at hx
    | some t => exact h.dom x t (by rw [ht]; exact hc)

/-- The ID index of the templates is the sorted list of the catalogue's template IDs. -/
theorem tmplIndex_eq_tmplIds {w : World} {c : Cat} (h : RInv w c) (hi : WIdx w) (known : List String)
    (hk : ∀ i s, c.tmpls i = some s → i ∈ known) : w.store.tmplIndex = c.tmplIds known := by
  have ht : w.store.tmpls = c.tmpls := h.d.tmpls
  unfold Store.tmplIndex Cat.tmplIds
  rw [ht]
  refine Sorted.ext (List.Pairwise.filter _ hi.mids) (List.Pairwise.filter _ (sortIds_sorted known)) (fun x => ?_)
  simp only [List.mem_filter, mem_sortIds]
  constructor
  · rintro ⟨_, hx⟩
    refine ⟨?_, hx⟩
    cases hc : c.tmpls x with
    | none => simp [hc] at hx
    | some t => exact hk x t hc
  · rintro ⟨_, hx⟩
    refine ⟨?_, hx⟩
    cases hc : c.tmpls x with
    | none => simp [hc] at hx
    | some t => exact hi.mdom x t (by rw [ht]; exact hc)

/-- The list handlers of the model show the page of the catalogue. -/
theorem listTasks_eq_taskPage {w : World} {c : Cat} (h : RInv w c) (hi : WIdx w) (known : List String)
    (hk : ∀ i t, c.tasks i = some t → i ∈ known) (pattern : String) (offset limit : Nat) :
    listTasks w pattern offset limit = c.taskPage known pattern offset limit := by
  have ht : w.store.tasks = c.tasks := h.d.tasks
  have he : w.exec = c.executing := funext h.d.exec
  unfold listTasks Cat.taskPage
  rw [doListFunc_eq_pageIds, taskIndex_eq_taskIds h hi known hk, ht, he]

theorem listTmpls_eq_tmplPage {w : World} {c : Cat} (h : RInv w c) (hi : WIdx w) (known : List String)
    (hk : ∀ i s, c.tmpls i = some s → i ∈ known) (pattern : String) (offset limit : Nat) :
    listTmpls w pattern offset limit = c.tmplPage known pattern offset limit := by
  have ht : w.store.tmpls = c.tmpls := h.d.tmpls
  unfold listTmpls Cat.tmplPage
  rw [doListFunc_eq_pageIds, tmplIndex_eq_tmplIds h hi known hk, ht]

end Kap.C14
