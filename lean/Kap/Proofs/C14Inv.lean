/-
C14 — helper lemmas, part 2: closed forms of the handler sub-steps on the view, and the running-state invariant
(whatever TaskMaster executes is a stored, enabled task) through every sub-step, handler, and crash point.
-/
import Kap.Proofs.C14
set_option linter.unusedSimpArgs false
namespace Kap.C14

/-- Whatever is executing is a stored, enabled task. -/
def View.EI (V : View) : Prop := ∀ i, V.exec i = true → ∃ t, V.tasks i = some t ∧ t.enabled = true
/-- … except possibly `x` (in flight: its record was just replaced / deleted, the stop follows). -/
def View.EIx (x : String) (V : View) : Prop := ∀ i, V.exec i = true → i = x ∨ ∃ t, V.tasks i = some t ∧ t.enabled = true

def ExecInv (w : World) : Prop := w.view.EI

theorem View.EI.weaken {V : View} (h : V.EI) (x : String) : V.EIx x := fun i hi => Or.inr (h i hi)
theorem View.EIx.close {V : View} {x : String} (h : V.EIx x)
    (hx : V.exec x = true → ∃ t, V.tasks x = some t ∧ t.enabled = true) : V.EI := fun i hi => by
  rcases h i hi with rfl | h
  · exact hx hi
  · exact h
theorem View.EI.not_exec {V : View} (h : V.EI) {i : String} (hn : V.tasks i = none) : V.exec i = false := by
  cases he : V.exec i
  · rfl
  · obtain ⟨t, ht, _⟩ := h i he; rw [hn] at ht; cases ht
theorem View.EI.not_exec_disabled {V : View} (h : V.EI) {i : String} {t : Task} (ht : V.tasks i = some t)
    (hd : t.enabled = false) : V.exec i = false := by
  cases he : V.exec i
  · rfl
  · obtain ⟨t', ht', hen⟩ := h i he; rw [ht] at ht'; cases ht'; rw [hd] at hen; cases hen

theorem View.EI.put_x {V : View} (h : V.EI) (id : String) (t : Task) : (V.put id t).EIx id := fun i hi => by
  by_cases hid : i = id
  · exact Or.inl hid
  · obtain ⟨t', ht', he⟩ := h i hi
    exact Or.inr ⟨t', by simp [View.put, hid, ht'], he⟩
theorem View.EIx.put {V : View} {x : String} (h : V.EIx x) (t : Task) : (V.put x t).EIx x := fun i hi => by
  by_cases hid : i = x
  · exact Or.inl hid
  · rcases h i hi with h | ⟨t', ht', he⟩
    · exact Or.inl h
    · exact Or.inr ⟨t', by simp [View.put, hid, ht'], he⟩
theorem View.EI.put_fresh {V : View} (h : V.EI) {id : String} (hn : V.tasks id = none) (t : Task) : (V.put id t).EI :=
  (h.put_x id t).close (fun hx => by
    have : V.exec id = false := h.not_exec hn
    simp [View.put] at hx; rw [this] at hx; cases hx)
theorem View.EI.put_ok {V : View} (h : V.EI) (id : String) (t : Task) (he : V.exec id = true → t.enabled = true) :
    (V.put id t).EI :=
  (h.put_x id t).close (fun hx => ⟨t, by simp [View.put], he hx⟩)
theorem View.EI.del_x {V : View} (h : V.EI) (id : String) : (V.del id).EIx id := fun i hi => by
  by_cases hid : i = id
  · exact Or.inl hid
  · obtain ⟨t', ht', he⟩ := h i hi
    exact Or.inr ⟨t', by simp [View.del, hid, ht'], he⟩
theorem View.EIx.stop {V : View} {x : String} (h : V.EIx x) : (V.setExec x false).EI := fun i hi => by
  by_cases hid : i = x
  · simp [View.setExec, hid] at hi
  · simp [View.setExec, hid] at hi
    rcases h i hi with h | h
    · exact absurd h hid
    · exact h
theorem View.EI.stop {V : View} (h : V.EI) (x : String) : (V.setExec x false).EI := (h.weaken x).stop
theorem View.EI.start {V : View} (h : V.EI) {id : String} {t : Task} (ht : V.tasks id = some t) (he : t.enabled = true) :
    (V.setExec id true).EI := fun i hi => by
  by_cases hid : i = id
  · subst hid; exact ⟨t, ht, he⟩
  · simp [View.setExec, hid] at hi; exact h i hi
theorem View.EI.setAssoc {V : View} (h : V.EI) (m k : String) (b : Bool) : (V.setAssoc m k b).EI := h
theorem View.EIx.setAssoc {V : View} {x : String} (h : V.EIx x) (m k : String) (b : Bool) : (V.setAssoc m k b).EIx x := h
theorem View.EI.putTmpl {V : View} (h : V.EI) (m s : String) : (V.putTmpl m s).EI := h
theorem View.EI.delTmpl {V : View} (h : V.EI) (m : String) : (V.delTmpl m).EI := h

/-! ### startTask, reloadTask -/

theorem startTask_inv (env : Env) (fail : List String) (w : World) (id : String) (t t' : Task)
    (h : ExecInv w) (ht : w.store.tasks id = some t') (he : t'.enabled = true) :
    ExecInv (startTask env fail w id t).1 := by
  unfold ExecInv; rw [startTask_view]; split
  · exact View.EI.start h ht he
  · split
    · exact View.EI.stop h id
    · exact h

theorem reloadTask_view (env : Env) (fail : List String) (w : World) (k : String) (t : Task)
    (hk : (w.store.tasks k).isSome = true) :
    (reloadTask env fail w k t).1.view =
      if t.enabled = true then
        (if startOK env fail k t = true then ((w.view.put k t).setExec k false).setExec k true else (w.view.put k t).setExec k false)
      else w.view.put k t := by
  unfold reloadTask
  split
  · rw [startTask_view_idle _ _ _ _ _ (by simp [stopTask, World.setExec]), stopTask_view, tasksReplace_view, hk]; simp
  · simp [tasksReplace_view, hk]

theorem reloadTask_ok (env : Env) (fail : List String) (w : World) (k : String) (t : Task) :
    (reloadTask env fail w k t).2 = (!t.enabled || startOK env fail k t) := by
  unfold reloadTask
  split
  · rename_i h; rw [startTask_ok]; simp [h]
  · rename_i h; simp at h; simp [h]

theorem reloadTask_inv (env : Env) (fail : List String) (w : World) (k : String) (t t0 : Task)
    (ht0 : w.store.tasks k = some t0) (hen : t.enabled = t0.enabled) (h : ExecInv w) :
    ExecInv (reloadTask env fail w k t).1 := by
  unfold ExecInv at *
  rw [reloadTask_view env fail w k t (by rw [ht0]; rfl)]
  have h1 : (w.view.put k t).EIx k := View.EI.put_x h k t
  split
  · rename_i he
    split
    · exact View.EI.start h1.stop (by simp [View.put, View.setExec]) he
    · exact h1.stop
  · rename_i he
    simp at he
    refine h1.close (fun hx => ?_)
    have : w.view.exec k = false := h.not_exec_disabled (t := t0) ht0 (by rw [← hen]; exact he)
    simp [View.put] at hx
    rw [view_exec] at this
    rw [this] at hx; cases hx

/-! ### create -/

theorem createCommit_view (v : Variant) (env : Env) (fail : List String) (w : World) (id : String) (t : Task)
    (templated : Bool) (hn : w.store.tasks id = none) (hidle : w.exec id = false) :
    (createCommit v env fail w id t templated).1.view =
      (if (t.enabled && startOK env fail id t) = true then
        (if (templated && !v.assocEarly) = true then (w.view.put id t).setAssoc t.tmpl id true else w.view.put id t).setExec id true
       else (if (templated && !v.assocEarly) = true then (w.view.put id t).setAssoc t.tmpl id true else w.view.put id t)) := by
  unfold createCommit
  dsimp only
  simp only [tasksCreate_ok, tasksCreate_view, hn, Option.isSome_none, Bool.not_false, Bool.not_true,
    Bool.false_eq_true, if_false, startTask_ok, startTask_view, apply_ite World.view, note_view, associate_view]
  have e1 : (w.view.put id t).setExec id false = w.view.put id t :=
    View.setExec_self _ _ _ (by simpa [View.put] using hidle)
  have e2 : ((w.view.put id t).setAssoc t.tmpl id true).setExec id false = (w.view.put id t).setAssoc t.tmpl id true :=
    View.setExec_self _ _ _ (by simpa [View.put, View.setAssoc] using hidle)
  cases he : t.enabled <;> cases hs : startOK env fail id t <;> cases templated <;> cases v.assocEarly <;>
    simp [tasksCreate_view, hn, startTask_view, startTask_ok, he, hs, e1, e2]

theorem createCommit_resp_eq (v : Variant) (env : Env) (fail : List String) (w : World) (id : String) (t : Task)
    (templated : Bool) (hn : w.store.tasks id = none) :
    (createCommit v env fail w id t templated).2 = if (t.enabled && !startOK env fail id t) = true then .fail else .ok := by
  unfold createCommit
  dsimp only
  simp only [tasksCreate_ok, hn, Option.isSome_none, Bool.not_false, Bool.not_true, Bool.false_eq_true, if_false, startTask_ok]
  cases he : t.enabled <;> cases hs : startOK env fail id t <;> simp [startTask_ok, he, hs]

theorem createCommit_inv (v : Variant) (env : Env) (fail : List String) (w : World) (id : String) (t : Task)
    (templated : Bool) (hn : w.store.tasks id = none) (h : ExecInv w) :
    ExecInv (createCommit v env fail w id t templated).1 := by
  unfold ExecInv at *
  rw [createCommit_view v env fail w id t templated hn (View.EI.not_exec h hn)]
  have h1 : (w.view.put id t).EI := View.EI.put_fresh h hn t
  have h2 : (if (templated && !v.assocEarly) = true then (w.view.put id t).setAssoc t.tmpl id true else w.view.put id t).EI := by
    split
    · exact h1.setAssoc _ _ _
    · exact h1
  split
  · rename_i he
    simp at he
    refine View.EI.start h2 (t := t) ?_ he.1
    split <;> simp [View.put, View.setAssoc]
  · exact h2

theorem createTask_inv (v : Variant) (env : Env) (fail : List String) (w : World) (id : String) (r : TaskReq)
    (h : ExecInv w) : ExecInv (createTask v env fail w id r).1 := by
  unfold createTask
  split
  · unfold ExecInv; rw [note_view]; exact h
  · rename_i hn
    have hn' : w.store.tasks id = none := by
      cases hx : w.store.tasks id
      · rfl
      · rw [hx] at hn; simp at hn
    split
    · unfold ExecInv; rw [note_view]; exact h
    · rename_i script templated _
      have hw1 : ExecInv (if (templated && v.assocEarly) = true then associate w r.tmpl id else w) ∧
          (if (templated && v.assocEarly) = true then associate w r.tmpl id else w).store.tasks id = none := by
        split
        · exact ⟨by unfold ExecInv; rw [associate_view]; exact View.EI.setAssoc h _ _ _, by simp [associate, Store.setAssoc, hn']⟩
        · exact ⟨h, hn'⟩
      dsimp only
      split
      · unfold ExecInv; rw [note_view]; exact hw1.1
      · exact createCommit_inv v env fail _ id _ templated hw1.2 hw1.1

/-! ### update -/

theorem storeDefinition_ok (w : World) (id newId : String) (upd orig : Task) (ho : w.store.tasks id = some orig) :
    (storeDefinition w id newId upd).2 = if id ≠ newId then !(w.store.tasks newId).isSome else true := by
  unfold storeDefinition
  split
  · cases hx : w.store.tasks newId <;> simp_all [tasksCreate_ok]
  · simp [tasksReplace_ok, ho]

theorem storeDefinition_view (w : World) (id newId : String) (upd orig : Task) (ho : w.store.tasks id = some orig) :
    (storeDefinition w id newId upd).1.view =
      if id ≠ newId then (if (w.store.tasks newId).isSome then w.view else (w.view.put newId upd).del id)
      else w.view.put id upd := by
  unfold storeDefinition
  split
  · cases hx : w.store.tasks newId <;> simp_all [tasksCreate_ok, tasksCreate_view]
  · simp [tasksReplace_view, ho]

/-- In flight between "definition stored" and "running state adjusted": everything executing is stored and enabled
except possibly the old ID; the new ID holds the new record; the executing set is still the one before the request. -/
def Flight (id newId : String) (upd : Task) (e0 : String → Bool) (V : View) : Prop :=
  V.EIx id ∧ V.tasks newId = some upd ∧ V.exec = e0

theorem storeDefinition_flight (w : World) (id newId : String) (upd orig : Task) (h : ExecInv w)
    (ho : w.store.tasks id = some orig) (hok : (storeDefinition w id newId upd).2 = true) :
    Flight id newId upd w.exec (storeDefinition w id newId upd).1.view := by
  rw [storeDefinition_ok w id newId upd orig ho] at hok
  rw [storeDefinition_view w id newId upd orig ho]
  split
  · rename_i hne
    simp [hne] at hok
    have hnone : w.store.tasks newId = none := by
      cases hx : w.store.tasks newId
      · rfl
      · rw [hx] at hok; simp at hok
    simp [hnone]
    refine ⟨View.EI.del_x (View.EI.put_fresh h hnone upd) id, ?_, rfl⟩
    have : newId ≠ id := fun e => hne e.symm
    simp [View.del, View.put, this]
  · rename_i he
    simp at he
    subst he
    exact ⟨View.EI.put_x h id upd, by simp [View.put], rfl⟩

theorem storeDefinition_failed (w : World) (id newId : String) (upd orig : Task)
    (ho : w.store.tasks id = some orig) (hok : ¬ (storeDefinition w id newId upd).2 = true) :
    (storeDefinition w id newId upd).1.view = w.view := by
  rw [storeDefinition_ok w id newId upd orig ho] at hok
  rw [storeDefinition_view w id newId upd orig ho]
  split
  · rename_i hne; simp [hne] at hok; simp [hok]
  · rename_i hne; simp [hne] at hok

theorem reassociate_view (w : World) (id : String) (orig : Task) (m newId : String) :
    (reassociate w id orig m newId).view =
      (if orig.tmpl ≠ "" then w.view.setAssoc orig.tmpl id false else w.view).setAssoc m newId true := by
  unfold reassociate
  rw [note_view, associate_view]
  split <;> simp

theorem Flight.reassoc {id newId : String} {upd : Task} {e0 : String → Bool} {w : World} (c : Bool) (orig : Task) (m : String)
    (h : Flight id newId upd e0 w.view) :
    Flight id newId upd e0 (if c = true then reassociate w id orig m newId else w).view := by
  split
  · rw [reassociate_view]; split <;> exact h
  · exact h

/-- From the in-flight state through "restart when renamed" and "apply the status change". -/
theorem finishUpdate_inv (env : Env) (fail : List String) (W : World) (id newId : String) (orig upd : Task)
    (hf : Flight id newId upd W.exec W.view) (hex : W.exec id = true → orig.enabled = true) :
    (¬ (restartRenamed env fail W id newId orig upd).2 = true → ExecInv (restartRenamed env fail W id newId orig upd).1) ∧
    ((restartRenamed env fail W id newId orig upd).2 = true →
      ExecInv (applyStatus env fail (restartRenamed env fail W id newId orig upd).1 id newId orig upd).1) := by
  obtain ⟨hx, hnew, _⟩ := hf
  unfold restartRenamed
  split
  · -- renamed while enabled: stop old, start new
    rename_i hc
    obtain ⟨hne, hoe, hue⟩ := hc
    have hstop : ((stopTask W id).view).EI := by rw [stopTask_view]; exact hx.stop
    have hnew' : (stopTask W id).store.tasks newId = some upd := by rw [stopTask_store]; exact hnew
    have hst : ExecInv (startTask env fail (stopTask W id) newId upd).1 :=
      startTask_inv env fail _ newId upd upd hstop hnew' hue
    refine ⟨fun _ => by unfold ExecInv; rw [note_view]; exact hst, fun _ => ?_⟩
    unfold applyStatus
    simp only [hoe, hue, bne_self_eq_false, Bool.false_eq_true, if_false]
    unfold ExecInv; rw [note_view, note_view]; exact hst
  · rename_i hc
    refine ⟨fun hn => absurd rfl hn, fun _ => ?_⟩
    -- not (renamed ∧ both enabled): the executing set is untouched so far
    have hoff : orig.enabled = false → W.view.EI := fun hd =>
      hx.close (fun hxe => by rw [hex hxe] at hd; cases hd)
    unfold applyStatus
    dsimp only
    split
    · rename_i hch
      split
      · -- becomes enabled: orig was disabled, hence not executing
        rename_i hue
        have hoe : orig.enabled = false := by
          cases hoe : orig.enabled
          · rfl
          · rw [hoe, hue] at hch; simp at hch
        have hst : ExecInv (startTask env fail W newId upd).1 :=
          startTask_inv env fail W newId upd upd (hoff hoe) hnew hue
        split <;> (unfold ExecInv; rw [note_view]; exact hst)
      · -- becomes disabled: stop the old ID
        unfold ExecInv; rw [note_view, stopTask_view]; exact hx.stop
    · -- status unchanged
      rename_i hch
      have heq : orig.enabled = upd.enabled := by
        cases h1 : orig.enabled <;> cases h2 : upd.enabled <;> simp [h1, h2] at hch <;> rfl
      unfold ExecInv; rw [note_view]
      exact hx.close (fun hxe => by
        have hoe := hex hxe
        have hue : upd.enabled = true := by rw [← heq]; exact hoe
        have : id = newId := by
          cases Decidable.em (id = newId) with
          | inl h => exact h
          | inr h => exact absurd ⟨h, hoe, hue⟩ hc
        subst this
        exact ⟨upd, hnew, hue⟩)

theorem updateCommit_inv (v : Variant) (env : Env) (fail : List String) (w : World) (id newId : String) (orig upd : Task)
    (reassoc : Bool) (h : ExecInv w) (ho : w.store.tasks id = some orig) :
    ExecInv (updateCommit v env fail w id newId orig upd reassoc).1 := by
  unfold updateCommit
  split
  · rename_i hfail
    simp at hfail
    unfold ExecInv
    rw [storeDefinition_failed w id newId upd orig ho (by rw [hfail]; simp)]
    exact h
  · rename_i hok
    simp at hok
    dsimp only
    have hf := storeDefinition_flight w id newId upd orig h ho hok
    have hf1 := Flight.reassoc (reassoc && !v.assocEarly) orig upd.tmpl hf
    have hexec : (if (reassoc && !v.assocEarly) = true then reassociate (storeDefinition w id newId upd).1 id orig upd.tmpl newId
        else (storeDefinition w id newId upd).1).exec = w.exec := hf1.2.2
    have hex : (if (reassoc && !v.assocEarly) = true then reassociate (storeDefinition w id newId upd).1 id orig upd.tmpl newId
        else (storeDefinition w id newId upd).1).exec id = true → orig.enabled = true := by
      rw [hexec]
      intro he
      obtain ⟨t, ht, hen⟩ := h id he
      rw [view_tasks, ho] at ht; cases ht; exact hen
    have hfin := finishUpdate_inv env fail _ id newId orig upd (by rw [hexec]; exact hf1) hex
    revert hfin
    generalize (if (reassoc && !v.assocEarly) = true then reassociate (storeDefinition w id newId upd).1 id orig upd.tmpl newId
        else (storeDefinition w id newId upd).1) = W1
    intro hfin
    cases hr : (restartRenamed env fail W1 id newId orig upd).2
    · simp only [Bool.not_false, if_true]; exact hfin.1 (by rw [hr]; simp)
    · simp only [Bool.not_true, Bool.false_eq_true, if_false]; exact hfin.2 hr

theorem updateTask_inv (v : Variant) (env : Env) (fail : List String) (w : World) (id : String) (r : TaskReq)
    (h : ExecInv w) : ExecInv (updateTask v env fail w id r).1 := by
  unfold updateTask
  split
  · unfold ExecInv; rw [note_view]; exact h
  · rename_i orig ho
    split
    · unfold ExecInv; rw [note_view]; exact h
    · rename_i script m _
      dsimp only
      have hw1 : ∀ (c : Bool) (nid : String), ExecInv (if c = true then reassociate w id orig m nid else w) ∧
          (if c = true then reassociate w id orig m nid else w).store.tasks id = some orig := by
        intro c nid
        split
        · refine ⟨?_, ?_⟩
          · unfold ExecInv; rw [reassociate_view]; split <;> exact h
          · have := congrArg View.tasks (reassociate_view w id orig m nid)
            rw [view_tasks] at this; rw [this]; split <;> exact ho
        · exact ⟨h, ho⟩
      split
      · unfold ExecInv; rw [note_view]; exact (hw1 _ _).1
      · exact updateCommit_inv v env fail _ id _ orig _ _ (hw1 _ _).1 (hw1 _ _).2

/-! ### delete -/

theorem deleteTask_view_none (w : World) (id : String) (hn : w.store.tasks id = none) :
    (deleteTask w id).1.view = w.view := by
  unfold deleteTask
  simp only [tx_store, hn]
  simp

theorem deleteTask_view_some (w : World) (id : String) (t : Task) (ht : w.store.tasks id = some t) :
    (deleteTask w id).1.view =
      ((if t.enabled = true then (if t.tmpl ≠ "" then w.view.setAssoc t.tmpl id false else w.view).setExec id false
        else (if t.tmpl ≠ "" then w.view.setAssoc t.tmpl id false else w.view))).del id := by
  unfold deleteTask
  simp only [tx_store, ht, tasksDelete_view]
  split <;> split <;> simp

theorem deleteTask_inv (w : World) (id : String) (h : ExecInv w) : ExecInv (deleteTask w id).1 := by
  unfold ExecInv at *
  cases ht : w.store.tasks id with
  | none => rw [deleteTask_view_none w id ht]; exact h
  | some t =>
    rw [deleteTask_view_some w id t ht]
    have ha : (if t.tmpl ≠ "" then w.view.setAssoc t.tmpl id false else w.view).EI := by split <;> exact h
    have hexec : (if t.tmpl ≠ "" then w.view.setAssoc t.tmpl id false else w.view).exec = w.exec := by split <;> rfl
    split
    · refine (View.EI.del_x (ha.stop id) id).close (fun hx => ?_)
      simp [View.del, View.setExec] at hx
    · rename_i hd
      simp at hd
      refine (View.EI.del_x ha id).close (fun hx => ?_)
      have : w.view.exec id = false := h.not_exec_disabled (t := t) ht hd
      simp only [View.del] at hx
      rw [hexec] at hx
      rw [view_exec] at this
      rw [this] at hx; cases hx

/-! ### templates -/

theorem ExecInv.of_te {w w' : World} (h : ExecInv w) (ht : w'.store.tasks = w.store.tasks) (he : w'.exec = w.exec) :
    ExecInv w' := fun i hi => by
  have hi' : w.view.exec i = true := by rw [view_exec, ← he]; exact hi
  obtain ⟨t, ht', hen⟩ := h i hi'
  exact ⟨t, by rw [view_tasks, ht]; exact ht', hen⟩

theorem tmplCreate_te (w : World) (id s : String) :
    (tmplCreate w id s).1.store.tasks = w.store.tasks ∧ (tmplCreate w id s).1.exec = w.exec := by
  unfold tmplCreate; split <;> exact ⟨rfl, rfl⟩
theorem tmplReplace_te (w : World) (id s : String) :
    (tmplReplace w id s).1.store.tasks = w.store.tasks ∧ (tmplReplace w id s).1.exec = w.exec := by
  unfold tmplReplace; split <;> exact ⟨rfl, rfl⟩

theorem storeTemplate_te (w : World) (id newId s : String) :
    (storeTemplate w id newId s).1.store.tasks = w.store.tasks ∧ (storeTemplate w id newId s).1.exec = w.exec := by
  unfold storeTemplate
  split
  · split
    · simp only [note_store, note_exec, tmplDelete, tx_store, tx_exec, Store.delTmpl]
      exact tmplCreate_te w newId s
    · simp only [note_store, note_exec]
      exact tmplCreate_te w newId s
  · exact tmplReplace_te w id s

theorem createTemplate_inv (env : Env) (w : World) (id s : String) (h : ExecInv w) :
    ExecInv (createTemplate env w id s).1 := by
  unfold createTemplate
  split
  · unfold ExecInv; rw [note_view]; exact h
  · split
    · unfold ExecInv; rw [note_view]; exact h
    · exact h.of_te (by rw [note_store]; exact (tmplCreate_te w id s).1) (by rw [note_exec]; exact (tmplCreate_te w id s).2)

theorem retargetOne_inv (env : Env) (fail : List String) (oi os ni ns : String) (w : World) (k : String) (h : ExecInv w) :
    ExecInv (retargetOne env fail oi os ni ns w k).1 := by
  unfold retargetOne
  split
  · unfold ExecInv; rw [note_view, disassociate_view]; exact h
  · rename_i t ht
    unfold ExecInv; rw [note_view]
    refine reloadTask_inv env fail _ k _ t ?_ rfl ?_
    · split
      · exact ht
      · exact ht
    · split
      · unfold ExecInv; rw [associate_view]; exact h
      · exact h

theorem rollbackOne_inv (env : Env) (fail : List String) (oi os : String) (w : World) (k : String) (h : ExecInv w) :
    ExecInv (rollbackOne env fail oi os w k) := by
  unfold rollbackOne
  split
  · unfold ExecInv; rw [note_view]; exact h
  · rename_i t ht
    unfold ExecInv; rw [note_view]
    exact reloadTask_inv env fail w k _ t ht rfl h

theorem rollback_inv (env : Env) (fail : List String) (oi os : String) (l : List String) (w : World) (h : ExecInv w) :
    ExecInv (rollback env fail oi os w l) := by
  induction l generalizing w with
  | nil => exact h
  | cons k rest ih => exact ih _ (rollbackOne_inv env fail oi os w k h)

theorem updateAll_inv (env : Env) (fail : List String) (oi os ni ns : String) (l done : List String) (w : World)
    (h : ExecInv w) : ExecInv (updateAll env fail oi os ni ns w done l).1 := by
  induction l generalizing w done with
  | nil => exact h
  | cons k rest ih =>
    unfold updateAll
    split
    · exact ih _ _ (retargetOne_inv env fail oi os ni ns w k h)
    · refine rollback_inv env fail oi os _ _ ?_
      unfold ExecInv; rw [note_view]
      exact retargetOne_inv env fail oi os ni ns w k h

theorem updateTemplate_inv (env : Env) (fail : List String) (w : World) (id n s : String) (h : ExecInv w) :
    ExecInv (updateTemplate env fail w id n s).1 := by
  unfold updateTemplate
  split
  · unfold ExecInv; rw [note_view]; exact h
  · rename_i os _
    generalize (if n ≠ "" then n else id) = nid
    generalize (if s ≠ "" then s else os) = ns
    have hst : ExecInv (storeTemplate w id nid ns).1 :=
      h.of_te (storeTemplate_te ..).1 (storeTemplate_te ..).2
    split
    · unfold ExecInv; rw [note_view]; exact h
    · split
      · exact hst
      · split
        · unfold ExecInv; rw [note_view]; exact rollback_inv env fail id os _ _ hst
        · unfold ExecInv; rw [note_view]; exact updateAll_inv env fail id os _ _ _ _ _ hst

theorem deleteTemplate_inv (w : World) (id : String) (h : ExecInv w) : ExecInv (deleteTemplate w id).1 := by
  unfold deleteTemplate ExecInv
  rw [note_view, tmplDelete_view]
  exact h

/-! ### process start, requests, steps -/

/-- Every process start establishes the invariant — on ANY file. -/
theorem boot_inv (env : Env) (fail : List String) (s : Store) (br : List String) : ExecInv (boot env fail s br) := by
  obtain ⟨hs, he⟩ := boot_spec env fail s br
  intro i hi
  obtain ⟨_, t, ht, hen, _⟩ := (he i).mp hi
  exact ⟨t, by rw [view_tasks, hs]; exact ht, hen⟩

theorem handle_inv (v : Variant) (env : Env) (fail : List String) (w : World) (op : Op) (h : ExecInv w) :
    ExecInv (handle v env fail w op).1 := by
  cases op <;> simp only [handle]
  · exact createTask_inv v env fail w _ _ h
  · exact updateTask_inv v env fail w _ _ h
  · exact deleteTask_inv w _ h
  · exact createTemplate_inv env w _ _ h
  · exact updateTemplate_inv env fail w _ _ _ h
  · exact deleteTemplate_inv w _ h
  · unfold ExecInv; rw [note_view]; exact boot_inv env fail _ _
  · unfold ExecInv; rw [dieTask_view]; exact View.EI.stop h _

theorem step_inv (v : Variant) (env : Env) (fail : List String) (cut : Option Nat) (w : World) (op : Op) (h : ExecInv w) :
    ExecInv (step v env fail cut w op).1 := by
  unfold step
  split
  · exact handle_inv v env fail _ op h
  · exact boot_inv env fail _ _

end Kap.C14
