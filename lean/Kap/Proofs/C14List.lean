/-
C14 — helper lemmas for the listing endpoints: the loop of storage.DoListFunc computes filter | drop | take; the
laws of the page function; the model's list handlers show the page of the catalogue.
-/
import Kap.Spec.C14List
import Kap.Proofs.C14Full
namespace Kap.C14

/-! ### DoListFunc -/

/-- Collecting phase: the offset has been passed, fewer than `size` results so far. -/
theorem doListLoop_collect (m : String → Bool) (offset size : Nat) (rest : List String) :
    ∀ (i : Nat) (acc : List String), offset ≤ i → acc.length < size →
      doListLoop m offset size rest i acc = acc.reverse ++ (rest.filter m).take (size - acc.length) := by
  induction rest with
  | nil => intro i acc _ _; simp [doListLoop]
  | cons v rest ih =>
    intro i acc hi ha
    unfold doListLoop
    by_cases hm : m v = true
    · have h1 : ¬ (i + 1 ≤ offset) := by omega
      simp only [hm, Bool.not_true, Bool.false_eq_true, if_false, h1, List.filter_cons_of_pos]
      by_cases hl : (v :: acc).length = size
      · have : size - acc.length = 1 := by simp at hl; omega
        simp [hl, this]
      · have hl' : (v :: acc).length < size := by simp at hl ⊢; omega
        rw [if_neg hl, ih (i + 1) (v :: acc) (by omega) hl']
        have : size - acc.length = (size - (v :: acc).length) + 1 := by simp at hl' ⊢; omega
        rw [this, List.take_succ_cons]
        simp
    · have hm' : m v = false := by simpa using hm
      simp only [hm', Bool.not_false, if_true]
      rw [ih i acc hi ha]
      simp [hm']

/-- Skipping phase: `i ≤ offset` matches seen, nothing collected yet. -/
theorem doListLoop_skip (m : String → Bool) (offset size : Nat) (hs : 0 < size) (rest : List String) :
    ∀ (i : Nat), i ≤ offset →
      doListLoop m offset size rest i [] = ((rest.filter m).drop (offset - i)).take size := by
  induction rest with
  | nil => intro i _; simp [doListLoop]
  | cons v rest ih =>
    intro i hi
    unfold doListLoop
    by_cases hm : m v = true
    · simp only [hm, Bool.not_true, Bool.false_eq_true, if_false, List.filter_cons_of_pos]
      by_cases h1 : i + 1 ≤ offset
      · rw [if_pos h1, ih (i + 1) h1]
        have : offset - i = (offset - (i + 1)) + 1 := by omega
        rw [this, List.drop_succ_cons]
      · have hio : offset - i = 0 := by omega
        rw [if_neg h1, hio, List.drop_zero]
        by_cases hl : [v].length = size
        · rw [if_pos hl]
          have : size = 1 := by simpa using hl.symm
          subst this
          simp
        · rw [if_neg hl, doListLoop_collect m offset size rest (i + 1) [v] (by omega) (by simp at hl ⊢; omega)]
          have : size = (size - [v].length) + 1 := by simp at hl ⊢; omega
          conv => rhs; rw [this, List.take_succ_cons]
          simp
    · have hm' : m v = false := by simpa using hm
      simp only [hm', Bool.not_false, if_true]
      rw [ih i hi]
      simp [hm']

/-- **storage.DoListFunc computes filter | drop(offset) | take(limit)** — the offset and the limit count MATCHES. -/
theorem doListFunc_eq_pageIds (l : List String) (m : String → Bool) (offset limit : Nat) :
    doListFunc l m offset limit = pageIds l m offset limit := by
  unfold doListFunc pageIds
  have hf : (l.filter m).length ≤ l.length := List.length_filter_le _ _
  generalize hu : (if offset + limit > l.length then l.length else offset + limit) = upper
  have hu3 : (upper = l.length ∧ l.length ≤ offset + limit) ∨ upper = offset + limit := by
    subst hu; split
    · left; omega
    · right; rfl
  by_cases h : upper ≤ offset
  · rw [if_pos h]
    -- no more results: limit = 0, or the offset is past the whole index
    by_cases hlim : limit = 0
    · simp [hlim]
    · have : l.length ≤ offset := by omega
      rw [List.drop_eq_nil_of_le (by omega)]
      simp
  · rw [if_neg h, doListLoop_skip m offset _ (by omega) l 0 (by omega)]
    simp only [Nat.sub_zero]
    rcases hu3 with ⟨h1, h2⟩ | h1
    · -- the index is shorter than offset + limit: size = len - offset ≥ what is left of the matches
      have hlen : ((l.filter m).drop offset).length ≤ upper - offset := by simp; omega
      rw [List.take_of_length_le hlen, List.take_of_length_le (by omega)]
    · subst h1; simp

/-! ### laws of the page function -/

theorem pageIds_append (ids : List String) (m : String → Bool) (offset k k' : Nat) :
    pageIds ids m offset k ++ pageIds ids m (offset + k) k' = pageIds ids m offset (k + k') := by
  unfold pageIds
  rw [List.take_add, List.drop_drop]

/-- The walk of a paging client: `n` consecutive pages of `lim` entries. -/
def walk (ids : List String) (m : String → Bool) (lim : Nat) : Nat → List String
  | 0 => []
  | n + 1 => walk ids m lim n ++ pageIds ids m (n * lim) lim

theorem walk_eq (ids : List String) (m : String → Bool) (lim n : Nat) :
    walk ids m lim n = (ids.filter m).take (n * lim) := by
  induction n with
  | zero => simp [walk]
  | succ n ih =>
    have h := pageIds_append ids m 0 (n * lim) lim
    simp only [pageIds, List.drop_zero, Nat.zero_add] at h
    rw [walk, ih, Nat.succ_mul, ← h]
    rfl

theorem mem_pageIds_take {ids : List String} {m : String → Bool} {offset limit : Nat} {x : String}
    (h : x ∈ pageIds ids m offset limit) : x ∈ (ids.filter m).take (offset + limit) := by
  unfold pageIds at h
  rw [List.take_drop] at h
  exact List.mem_of_mem_drop h

theorem mem_pageIds_drop {ids : List String} {m : String → Bool} {offset limit : Nat} {x : String}
    (h : x ∈ pageIds ids m offset limit) : x ∈ (ids.filter m).drop offset :=
  List.mem_of_mem_take h

theorem pageIds_disjoint {ids : List String} (hn : ids.Nodup) (m : String → Bool) {o1 l1 o2 l2 : Nat}
    (hle : o1 + l1 ≤ o2) {x : String} (h1 : x ∈ pageIds ids m o1 l1) : x ∉ pageIds ids m o2 l2 := by
  intro h2
  have hF : (ids.filter m).Nodup := hn.filter _
  have ha : x ∈ (ids.filter m).take o2 := by
    have := mem_pageIds_take h1
    have hsub : (ids.filter m).take (o1 + l1) = ((ids.filter m).take o2).take (o1 + l1) := by
      rw [List.take_take, Nat.min_eq_left hle]
    rw [hsub] at this
    exact List.mem_of_mem_take this
  have hb := mem_pageIds_drop h2
  rw [← List.take_append_drop o2 (ids.filter m)] at hF
  exact (List.nodup_append.1 hF).2.2 x ha x hb rfl

/-! ### sorted ID lists -/

abbrev Sorted (l : List String) : Prop := l.Pairwise (· < ·)

theorem Sorted.nodup {l : List String} (h : Sorted l) : l.Nodup :=
  List.Pairwise.imp (fun {a b} (hab : a < b) (heq : a = b) => by subst heq; exact String.lt_irrefl _ hab) h

theorem Sorted.insId {l : List String} (h : Sorted l) (id : String) : Sorted (insId id l) := by
  induction l with
  | nil => simp [Kap.C14.insId, Sorted]
  | cons y ys ih =>
    unfold Kap.C14.insId
    have hy := List.pairwise_cons.1 h
    split
    · exact h
    · rename_i hne
      split
      · rename_i hlt
        exact List.pairwise_cons.2 ⟨fun z hz => by
          rcases List.mem_cons.1 hz with rfl | hz
          · exact hlt
          · exact String.lt_trans hlt (hy.1 z hz), h⟩
      · rename_i hnlt
        have hyid : y < id := by
          have hle : y ≤ id := String.not_lt.1 hnlt
          by_cases hlt : y < id
          · exact hlt
          · have hle2 : id ≤ y := String.not_lt.1 hlt
            have : id = y := String.le_antisymm hle2 hle
            simp [this] at hne
        exact List.pairwise_cons.2 ⟨fun z hz => by
          rcases (mem_insId z id ys).1 hz with rfl | hz
          · exact hyid
          · exact hy.1 z hz, ih hy.2⟩

theorem sortIds_sorted (l : List String) : Sorted (sortIds l) := by
  induction l with
  | nil => simp [sortIds, Sorted]
  | cons x xs ih => exact Sorted.insId ih x

theorem mem_sortIds (x : String) (l : List String) : x ∈ sortIds l ↔ x ∈ l := by
  induction l with
  | nil => simp [sortIds]
  | cons y ys ih =>
    show x ∈ insId y (sortIds ys) ↔ _
    rw [mem_insId, ih]; simp

/-- Two strictly sorted lists with the same members are equal. -/
theorem Sorted.ext : ∀ {a b : List String}, Sorted a → Sorted b → (∀ x, x ∈ a ↔ x ∈ b) → a = b
  | [], [], _, _, _ => rfl
  | [], y :: ys, _, _, h => by have := (h y).2 (by simp); cases this
  | x :: xs, [], _, _, h => by have := (h x).1 (by simp); cases this
  | x :: xs, y :: ys, ha, hb, h => by
    have hax := List.pairwise_cons.1 ha
    have hby := List.pairwise_cons.1 hb
    have hxy : x = y := by
      have h1 : x ∈ y :: ys := (h x).1 (by simp)
      have h2 : y ∈ x :: xs := (h y).2 (by simp)
      rcases List.mem_cons.1 h1 with h1 | h1
      · exact h1
      · rcases List.mem_cons.1 h2 with h2 | h2
        · exact h2.symm
        · exact absurd (String.lt_trans (hby.1 x h1) (hax.1 y h2)) (String.lt_irrefl y)
    subst hxy
    have : xs = ys := Sorted.ext hax.2 hby.2 (fun z => by
      constructor
      · intro hz
        have hne : z ≠ x := fun e => String.lt_irrefl x (e ▸ hax.1 z hz)
        rcases List.mem_cons.1 ((h z).1 (List.mem_cons_of_mem _ hz)) with e | e
        · exact absurd e hne
        · exact e
      · intro hz
        have hne : z ≠ x := fun e => String.lt_irrefl x (e ▸ hby.1 z hz)
        rcases List.mem_cons.1 ((h z).2 (List.mem_cons_of_mem _ hz)) with e | e
        · exact absurd e hne
        · exact e)
    rw [this]

end Kap.C14
