/-
C14 — helper lemmas, part 5: refinement. Along deviation-free requests the model's view IS the spec catalogue
(accepted ⇒ declared effect, rejected ⇒ nothing; executing ⇔ enabled ∧ started), and the association invariant is
maintained.
-/
import Kap.Proofs.C14Dom
set_option linter.unusedSimpArgs false
namespace Kap.C14

/-- The view shows exactly the catalogue, and the association table is accurate. -/
structure DInv (V : View) (c : Cat) : Prop where
  assoc : AssocInv V
  tasks : V.tasks = c.tasks
  tmpls : V.tmpls = c.tmpls
  exec : ∀ i, V.exec i = c.executing i

theorem DInv.of_eq {V V' : View} {c : Cat} (h : DInv V c) (he : V' = V) : DInv V' c := he ▸ h

/-! ### create -/

theorem createScript_some {s : Store} {r : TaskReq} {script : String} {templated : Bool}
    (h : createScript s r = some (script, templated)) :
    templated = decide (r.tmpl ≠ "") ∧ script = (if r.tmpl ≠ "" then (s.tmpls r.tmpl).getD "" else r.script) := by
  unfold createScript at h
  split at h
  · rename_i ht
    cases hm : s.tmpls r.tmpl with
    | none => rw [hm] at h; simp at h
    | some sc => rw [hm] at h; simp at h; simp [ht, h.1, h.2]
  · rename_i ht
    split at h
    · cases h
    · simp at h; simp [ht, h.1, h.2]

theorem createValidate_ok {env : Env} {r : TaskReq} {script : String} {t : Task}
    (h : createValidate env r script = .ok t) :
    t = { script := script, vars := r.vars, tmpl := r.tmpl, dbrps := dbrpsOf env script r.dbrps,
          enabled := r.status = some true } := by
  unfold createValidate at h
  repeat' split at h
  all_goals first
    | (cases h; done)
    | (injection h with h; rw [← h]; simp [dbrpsOf, *])

/-- Putting a fresh task (and its association) keeps the association table accurate. -/
theorem AssocInv.create {V : View} (h : AssocInv V) {id : String} (hn : V.tasks id = none) (t : Task) :
    AssocInv (if t.tmpl ≠ "" then (V.put id t).setAssoc t.tmpl id true else V.put id t) := by
  intro m k
  have hid : ∀ m, V.assoc m id = false := fun m => by
    cases ha : V.assoc m id
    · rfl
    · obtain ⟨_, t', ht', _⟩ := (h m id).mp ha; rw [hn] at ht'; cases ht'
  by_cases hk : k = id
  · subst hk
    split
    · rename_i ht
      simp only [View.setAssoc, View.put, if_true, and_true]
      by_cases hm : m = t.tmpl
      · subst hm; simp [ht]
      · simp [hm, hid]; intro _ e; exact hm e.symm
    · rename_i ht
      simp at ht
      simp only [View.put, if_true]
      simp [hid, ht]
  · split
    · simp only [View.setAssoc, View.put, hk, and_false, if_false]; exact h m k
    · simp only [View.put, hk, if_false]; exact h m k

/-- "Unless a recorded deviation applies, the result shows the spec's catalogue." -/
def Ref (env : Env) (fail : List String) (c : Cat) (op : Op) (x : World × Resp) : Prop :=
  devStartFail env fail c op x.2 = false → DInv x.1.view (specStep env fail c op x.2)

theorem ref_bad {env : Env} {fail : List String} {c : Cat} {op : Op} {w : World} (h : DInv w.view c) (b : String) :
    Ref env fail c op (w.note b, .bad) := fun _ => by
  simp only [specStep, note_view]; exact h
theorem ref_nf {env : Env} {fail : List String} {c : Cat} {op : Op} {w : World} (h : DInv w.view c) (b : String) :
    Ref env fail c op (w.note b, .nf) := fun _ => by
  simp only [specStep, note_view]; exact h

theorem createCommit_refines (env : Env) (fail : List String) (w : World) (c : Cat) (id : String) (r : TaskReq)
    (t : Task) (templated : Bool) (hinv : ExecInv w) (h : DInv w.view c) (hn : w.store.tasks id = none)
    (hdef : t = createDef env c r) (htt : templated = decide (t.tmpl ≠ "")) :
    Ref env fail c (.create id r) (createCommit Variant.fixed env fail w id t templated) := by
  intro hdev
  rw [createCommit_resp_eq _ env fail w id t templated hn] at hdev ⊢
  rw [createCommit_view _ env fail w id t templated hn]
  simp only [Variant.fixed, Bool.not_false, Bool.and_true]
  -- the start cannot have failed (recorded deviation excluded)
  have hstart : t.enabled = true → startOK env fail id t = true := by
    intro he
    cases hs : startOK env fail id t
    · exfalso
      simp [he, hs, devStartFail, attempted, ← hdef] at hdev
    · rfl
  have hresp : (if (t.enabled && !startOK env fail id t) = true then Resp.fail else Resp.ok) = .ok := by
    cases he : t.enabled
    · simp
    · simp [hstart he]
  rw [hresp]
  simp only [specStep, if_true, accept, ← hdef]
  have hA : AssocInv (if templated = true then (w.view.put id t).setAssoc t.tmpl id true else w.view.put id t) := by
    have := AssocInv.create h.assoc (id := id) hn t
    rw [htt]; simpa using this
  have hexid : w.exec id = false := View.EI.not_exec hinv hn
  constructor
  · split <;> exact hA
  · funext i
    have : (if (t.enabled && startOK env fail id t) = true then
        (if templated = true then (w.view.put id t).setAssoc t.tmpl id true else w.view.put id t).setExec id true
        else if templated = true then (w.view.put id t).setAssoc t.tmpl id true else w.view.put id t).tasks i
        = (w.view.put id t).tasks i := by split <;> split <;> rfl
    rw [this]
    simp [View.put, setStarted, setTask, h.tasks.symm]
  · have : (if (t.enabled && startOK env fail id t) = true then
        (if templated = true then (w.view.put id t).setAssoc t.tmpl id true else w.view.put id t).setExec id true
        else if templated = true then (w.view.put id t).setAssoc t.tmpl id true else w.view.put id t).tmpls
        = w.view.tmpls := by split <;> split <;> rfl
    rw [this]; exact h.tmpls
  · intro i
    have hx : (if (t.enabled && startOK env fail id t) = true then
        (if templated = true then (w.view.put id t).setAssoc t.tmpl id true else w.view.put id t).setExec id true
        else if templated = true then (w.view.put id t).setAssoc t.tmpl id true else w.view.put id t).exec i
        = if (t.enabled && startOK env fail id t) = true then (if i = id then true else w.exec i) else w.exec i := by
      split <;> split <;> rfl
    rw [hx]
    by_cases hi : i = id
    · subst hi
      simp [Cat.executing, setStarted, setTask]
      cases he : t.enabled
      · simp [hexid]
      · simp [hstart he]
    · have := h.exec i
      simp only [view_exec] at this
      simp [Cat.executing, setStarted, setTask, hi, this]

theorem createTask_refines (env : Env) (fail : List String) (w : World) (c : Cat) (id : String) (r : TaskReq)
    (hinv : ExecInv w) (h : DInv w.view c) :
    Ref env fail c (.create id r) (createTask Variant.fixed env fail w id r) := by
  unfold createTask
  simp only [Variant.fixed, Bool.and_false, Bool.false_eq_true, if_false]
  split
  · exact ref_bad h _
  · rename_i hsome
    have hn : w.store.tasks id = none := by
      cases hx : w.store.tasks id
      · rfl
      · rw [hx] at hsome; simp at hsome
    split
    · exact ref_bad h _
    · rename_i script templated hcs
      obtain ⟨htmp, hscript⟩ := createScript_some hcs
      split
      · exact ref_bad h _
      · rename_i t hv
        have ht := createValidate_ok hv
        have hdef : t = createDef env c r := by
          rw [ht, hscript]; unfold createDef
          have : w.store.tmpls = c.tmpls := h.tmpls
          rw [this]
        exact createCommit_refines env fail w c id r t templated hinv h hn hdef (by rw [htmp, ht])

/-! ### delete -/

theorem deleteTask_refines (env : Env) (fail : List String) (w : World) (c : Cat) (id : String)
    (hinv : ExecInv w) (h : DInv w.view c) :
    DInv (deleteTask w id).1.view (accept env fail c (.delete id)) := by
  have htasks : w.store.tasks = c.tasks := h.tasks
  cases ht : w.store.tasks id with
  | none =>
    rw [deleteTask_view_none w id ht]
    have hc : c.tasks id = none := by rw [← htasks]; exact ht
    refine ⟨h.assoc, ?_, h.tmpls, fun i => ?_⟩
    · funext i
      simp only [accept, setStarted, setTask, view_tasks, htasks]
      split
      · rename_i hi; rw [hi, hc]
      · rfl
    · rw [h.exec i]
      simp only [accept, setStarted, setTask, Cat.executing]
      by_cases hi : i = id
      · simp [hi, hc]
      · simp [hi]
  | some t =>
    rw [deleteTask_view_some w id t ht]
    have hexec : ∀ i, ((if t.enabled = true then (if t.tmpl ≠ "" then w.view.setAssoc t.tmpl id false else w.view).setExec id false
        else (if t.tmpl ≠ "" then w.view.setAssoc t.tmpl id false else w.view))).exec i =
        if t.enabled = true then (if i = id then false else w.exec i) else w.exec i := by
      intro i; split <;> split <;> rfl
    have hassoc : ∀ m k, ((if t.enabled = true then (if t.tmpl ≠ "" then w.view.setAssoc t.tmpl id false else w.view).setExec id false
        else (if t.tmpl ≠ "" then w.view.setAssoc t.tmpl id false else w.view))).assoc m k =
        if t.tmpl ≠ "" then (if m = t.tmpl ∧ k = id then false else w.store.assoc m k) else w.store.assoc m k := by
      intro m k; split <;> split <;> rfl
    have htasksV : ∀ i, ((if t.enabled = true then (if t.tmpl ≠ "" then w.view.setAssoc t.tmpl id false else w.view).setExec id false
        else (if t.tmpl ≠ "" then w.view.setAssoc t.tmpl id false else w.view))).tasks i = w.store.tasks i := by
      intro i; split <;> split <;> rfl
    refine ⟨fun m k => ?_, ?_, ?_, fun i => ?_⟩
    · simp only [View.del]
      rw [hassoc]
      have hk := h.assoc m k
      simp only [view_assoc, view_tasks] at hk
      by_cases hkid : k = id
      · subst hkid
        simp only [if_true]
        rw [ht] at hk
        constructor
        · intro ha
          exfalso
          split at ha
          · rename_i htm
            split at ha
            · cases ha
            · rename_i hm
              obtain ⟨_, t', ht', htm'⟩ := hk.mp ha
              cases ht'; exact hm ⟨htm'.symm, trivial⟩
          · rename_i htm
            simp at htm
            obtain ⟨hm, t', ht', htm'⟩ := hk.mp ha
            cases ht'; rw [htm] at htm'; exact hm htm'.symm
        · rintro ⟨_, t', ht', _⟩; cases ht'
      · have hne : ¬ (m = t.tmpl ∧ k = id) := fun hh => hkid hh.2
        simp only [if_neg hkid, if_neg hne, htasksV]
        split <;> exact hk
    · funext i
      simp only [View.del, accept, setStarted, setTask]
      have : ∀ i, ((if t.enabled = true then (if t.tmpl ≠ "" then w.view.setAssoc t.tmpl id false else w.view).setExec id false
        else (if t.tmpl ≠ "" then w.view.setAssoc t.tmpl id false else w.view))).tasks i = w.store.tasks i := by
        intro i; split <;> split <;> rfl
      rw [this, htasks]
    · have : ((if t.enabled = true then (if t.tmpl ≠ "" then w.view.setAssoc t.tmpl id false else w.view).setExec id false
        else (if t.tmpl ≠ "" then w.view.setAssoc t.tmpl id false else w.view)).del id).tmpls = w.view.tmpls := by
        simp only [View.del]; split <;> split <;> rfl
      rw [this]; exact h.tmpls
    · simp only [View.del]
      rw [hexec]
      simp only [accept, setStarted, setTask, Cat.executing]
      by_cases hi : i = id
      · subst hi
        simp
        cases he : t.enabled
        · simp; exact View.EI.not_exec_disabled hinv ht he
        · simp
      · have := h.exec i
        simp only [view_exec, Cat.executing] at this
        simp [hi, this]

/-! ### templates: create, delete -/

theorem createTemplate_refines (env : Env) (fail : List String) (w : World) (c : Cat) (id s : String)
    (h : DInv w.view c) :
    DInv (createTemplate env w id s).1.view (specStep env fail c (.tcreate id s) (createTemplate env w id s).2) := by
  unfold createTemplate
  split
  · simp only [specStep, note_view]; exact h
  · rename_i hsome
    split
    · simp only [specStep, note_view]; exact h
    · have hn : (w.store.tmpls id).isSome = false := by simpa using hsome
      simp only [tmplCreate_ok, hn, Bool.not_false, if_true, specStep, accept, note_view, tmplCreate_view, Bool.false_eq_true, if_false]
      exact ⟨h.assoc, h.tasks, by simp only [View.putTmpl]; funext i; rw [← h.tmpls], h.exec⟩

theorem deleteTemplate_refines (env : Env) (fail : List String) (w : World) (c : Cat) (id : String)
    (h : DInv w.view c) (hno : ∀ i t, c.tasks i = some t → t.tmpl ≠ id) :
    DInv (deleteTemplate w id).1.view (accept env fail c (.tdelete id)) := by
  unfold deleteTemplate
  simp only [note_view, tmplDelete_view, accept]
  refine ⟨fun m k => ?_, h.tasks, ?_, h.exec⟩
  · simp only [View.delTmpl]
    split
    · rename_i hm
      subst hm
      constructor
      · intro hf; cases hf
      · rintro ⟨_, t, ht, htm⟩
        exact absurd htm (hno k t (by rw [← h.tasks]; exact ht))
    · exact h.assoc m k
  · simp only [View.delTmpl]; funext i; rw [← h.tmpls]

/-! ### restart -/

theorem restart_refines (env : Env) (fail : List String) (w : World) (c : Cat)
    (hdom : WDom w) (h : DInv w.view c) :
    DInv ((boot env fail w.store w.br).note "restart").view (accept env fail c .restart) := by
  obtain ⟨hs, he⟩ := boot_spec env fail w.store w.br
  rw [note_view]
  have hv : (boot env fail w.store w.br).view.tasks = w.view.tasks ∧ (boot env fail w.store w.br).view.tmpls = w.view.tmpls ∧
      (boot env fail w.store w.br).view.assoc = w.view.assoc := by
    refine ⟨?_, ?_, ?_⟩ <;> simp only [view_tasks, view_tmpls, view_assoc, hs]
  refine ⟨fun m k => ?_, ?_, ?_, fun i => ?_⟩
  · rw [hv.2.2, hv.1]; exact h.assoc m k
  · rw [hv.1]; exact h.tasks
  · rw [hv.2.1]; exact h.tmpls
  · rw [view_exec, Bool.eq_iff_iff, he i]
    have ht : w.store.tasks = c.tasks := h.tasks
    simp only [accept, Cat.executing]
    rw [← ht]
    cases hti : w.store.tasks i with
    | none => simp
    | some t =>
      have hmem : i ∈ w.store.tids := hdom i t hti
      cases hen : t.enabled <;> simp [hmem, hen]
