/-
C14 — helper lemmas, part 5: refinement. Along deviation-free requests the model's view IS the spec catalogue
(accepted ⇒ declared effect, rejected ⇒ nothing; executing ⇔ enabled ∧ started), and the association invariant is
maintained.
-/
import Kap.Proofs.C14Dom
set_option linter.unusedSimpArgs false
namespace Kap.C14

/-- The view shows exactly the catalogue, and the association table is accurate. -/
structure DInv (V : View) (c : Cat) : Prop where
  assoc : AssocInv V
  tasks : V.tasks = c.tasks
  tmpls : V.tmpls = c.tmpls
  exec : ∀ i, V.exec i = c.executing i

theorem DInv.of_eq {V V' : View} {c : Cat} (h : DInv V c) (he : V' = V) : DInv V' c := he ▸ h

/-! ### create -/

theorem createScript_some {s : Store} {r : TaskReq} {script : String} {templated : Bool}
    (h : createScript s r = some (script, templated)) :
    templated = decide (r.tmpl ≠ "") ∧ script = (if r.tmpl ≠ "" then (s.tmpls r.tmpl).getD "" else r.script) := by
  unfold createScript at h
  split at h
  · rename_i ht
    cases hm : s.tmpls r.tmpl with
    | none => rw [hm] at h; simp at h
    | some sc => rw [hm] at h; simp at h; simp [ht, h.1, h.2]
  · rename_i ht
    split at h
    · cases h
    · simp at h; simp [ht, h.1, h.2]

theorem createValidate_ok {env : Env} {r : TaskReq} {script : String} {t : Task}
    (h : createValidate env r script = .ok t) :
    t = { script := script, vars := r.vars, tmpl := r.tmpl, dbrps := dbrpsOf env script r.dbrps,
          enabled := r.status = some true } := by
  unfold createValidate at h
  repeat' split at h
  all_goals first
    | (cases h; done)
    | (injection h with h; rw [← h]; simp [dbrpsOf, *])

/-- Putting a fresh task (and its association) keeps the association table accurate. -/
theorem AssocInv.create {V : View} (h : AssocInv V) {id : String} (hn : V.tasks id = none) (t : Task) :
    AssocInv (if t.tmpl ≠ "" then (V.put id t).setAssoc t.tmpl id true else V.put id t) := by
  intro m k
  have hid : ∀ m, V.assoc m id = false := fun m => by
    cases ha : V.assoc m id
    · rfl
    · obtain ⟨_, t', ht', _⟩ := (h m id).mp ha; rw [hn] at ht'; cases ht'
  by_cases hk : k = id
  · subst hk
    split
    · rename_i ht
      simp only [View.setAssoc, View.put, if_true, and_true]
      by_cases hm : m = t.tmpl
      · subst hm; simp [ht]
      · simp [hm, hid]; intro _ e; exact hm e.symm
    · rename_i ht
      simp at ht
      simp only [View.put, if_true]
      simp [hid, ht]
  · split
    · simp only [View.setAssoc, View.put, hk, and_false, if_false]; exact h m k
    · simp only [View.put, hk, if_false]; exact h m k

/-- "Unless a recorded deviation applies, the result shows the spec's catalogue." -/
def Ref (env : Env) (fail : List String) (c : Cat) (op : Op) (x : World × Resp) : Prop :=
  devStartFail env fail c op x.2 = false → DInv x.1.view (specStep env fail c op x.2)

theorem ref_bad {env : Env} {fail : List String} {c : Cat} {op : Op} {w : World} (h : DInv w.view c) (b : String) :
    Ref env fail c op (w.note b, .bad) := fun _ => by
  simp only [specStep, note_view]; exact h
theorem ref_nf {env : Env} {fail : List String} {c : Cat} {op : Op} {w : World} (h : DInv w.view c) (b : String) :
    Ref env fail c op (w.note b, .nf) := fun _ => by
  simp only [specStep, note_view]; exact h

theorem createCommit_refines (env : Env) (fail : List String) (w : World) (c : Cat) (id : String) (r : TaskReq)
    (t : Task) (templated : Bool) (hinv : ExecInv w) (h : DInv w.view c) (hn : w.store.tasks id = none)
    (hdef : t = createDef env c r) (htt : templated = decide (t.tmpl ≠ "")) :
    Ref env fail c (.create id r) (createCommit Variant.fixed env fail w id t templated) := by
  intro hdev
  rw [createCommit_resp_eq _ env fail w id t templated hn] at hdev ⊢
  rw [createCommit_view _ env fail w id t templated hn (View.EI.not_exec hinv hn)]
  simp only [Variant.fixed, Bool.not_false, Bool.and_true]
  -- the start cannot have failed (recorded deviation excluded)
  have hstart : t.enabled = true → startOK env fail id t = true := by
    intro he
    cases hs : startOK env fail id t
    · exfalso
      simp [he, hs, devStartFail, attempted, ← hdef] at hdev
    · rfl
  have hresp : (if (t.enabled && !startOK env fail id t) = true then Resp.fail else Resp.ok) = .ok := by
    cases he : t.enabled
    · simp
    · simp [hstart he]
  rw [hresp]
  simp only [specStep, if_true, accept, ← hdef]
  have hA : AssocInv (if templated = true then (w.view.put id t).setAssoc t.tmpl id true else w.view.put id t) := by
    have := AssocInv.create h.assoc (id := id) hn t
    rw [htt]; simpa using this
  have hexid : w.exec id = false := View.EI.not_exec hinv hn
  constructor
  · split <;> exact hA
  · funext i
    have : (if (t.enabled && startOK env fail id t) = true then
        (if templated = true then (w.view.put id t).setAssoc t.tmpl id true else w.view.put id t).setExec id true
        else if templated = true then (w.view.put id t).setAssoc t.tmpl id true else w.view.put id t).tasks i
        = (w.view.put id t).tasks i := by split <;> split <;> rfl
    rw [this]
    simp [View.put, setStarted, setTask, h.tasks.symm]
  · have : (if (t.enabled && startOK env fail id t) = true then
        (if templated = true then (w.view.put id t).setAssoc t.tmpl id true else w.view.put id t).setExec id true
        else if templated = true then (w.view.put id t).setAssoc t.tmpl id true else w.view.put id t).tmpls
        = w.view.tmpls := by split <;> split <;> rfl
    rw [this]; exact h.tmpls
  · intro i
    have hx : (if (t.enabled && startOK env fail id t) = true then
        (if templated = true then (w.view.put id t).setAssoc t.tmpl id true else w.view.put id t).setExec id true
        else if templated = true then (w.view.put id t).setAssoc t.tmpl id true else w.view.put id t).exec i
        = if (t.enabled && startOK env fail id t) = true then (if i = id then true else w.exec i) else w.exec i := by
      split <;> split <;> rfl
    rw [hx]
    by_cases hi : i = id
    · subst hi
      simp [Cat.executing, setStarted, setTask]
      cases he : t.enabled
      · simp [hexid]
      · simp [hstart he]
    · have := h.exec i
      simp only [view_exec] at this
      simp [Cat.executing, setStarted, setTask, hi, this]

theorem createTask_refines (env : Env) (fail : List String) (w : World) (c : Cat) (id : String) (r : TaskReq)
    (hinv : ExecInv w) (h : DInv w.view c) :
    Ref env fail c (.create id r) (createTask Variant.fixed env fail w id r) := by
  unfold createTask
  simp only [Variant.fixed, Bool.and_false, Bool.false_eq_true, if_false]
  split
  · exact ref_bad h _
  · rename_i hsome
    have hn : w.store.tasks id = none := by
      cases hx : w.store.tasks id
      · rfl
      · rw [hx] at hsome; simp at hsome
    split
    · exact ref_bad h _
    · rename_i script templated hcs
      obtain ⟨htmp, hscript⟩ := createScript_some hcs
      split
      · exact ref_bad h _
      · rename_i t hv
        have ht := createValidate_ok hv
        have hdef : t = createDef env c r := by
          rw [ht, hscript]; unfold createDef
          have : w.store.tmpls = c.tmpls := h.tmpls
          rw [this]
        exact createCommit_refines env fail w c id r t templated hinv h hn hdef (by rw [htmp, ht])

/-! ### delete -/

theorem deleteTask_refines (env : Env) (fail : List String) (w : World) (c : Cat) (id : String)
    (hinv : ExecInv w) (h : DInv w.view c) :
    DInv (deleteTask w id).1.view (accept env fail c (.delete id)) := by
  have htasks : w.store.tasks = c.tasks := h.tasks
  cases ht : w.store.tasks id with
  | none =>
    rw [deleteTask_view_none w id ht]
    have hc : c.tasks id = none := by rw [← htasks]; exact ht
    refine ⟨h.assoc, ?_, h.tmpls, fun i => ?_⟩
    · funext i
      simp only [accept, setStarted, setTask, view_tasks, htasks]
      split
      · rename_i hi; rw [hi, hc]
      · rfl
    · rw [h.exec i]
      simp only [accept, setStarted, setTask, Cat.executing]
      by_cases hi : i = id
      · simp [hi, hc]
      · simp [hi]
  | some t =>
    rw [deleteTask_view_some w id t ht]
    have hexec : ∀ i, ((if t.enabled = true then (if t.tmpl ≠ "" then w.view.setAssoc t.tmpl id false else w.view).setExec id false
        else (if t.tmpl ≠ "" then w.view.setAssoc t.tmpl id false else w.view))).exec i =
        if t.enabled = true then (if i = id then false else w.exec i) else w.exec i := by
      intro i; split <;> split <;> rfl
    have hassoc : ∀ m k, ((if t.enabled = true then (if t.tmpl ≠ "" then w.view.setAssoc t.tmpl id false else w.view).setExec id false
        else (if t.tmpl ≠ "" then w.view.setAssoc t.tmpl id false else w.view))).assoc m k =
        if t.tmpl ≠ "" then (if m = t.tmpl ∧ k = id then false else w.store.assoc m k) else w.store.assoc m k := by
      intro m k; split <;> split <;> rfl
    have htasksV : ∀ i, ((if t.enabled = true then (if t.tmpl ≠ "" then w.view.setAssoc t.tmpl id false else w.view).setExec id false
        else (if t.tmpl ≠ "" then w.view.setAssoc t.tmpl id false else w.view))).tasks i = w.store.tasks i := by
      intro i; split <;> split <;> rfl
    refine ⟨fun m k => ?_, ?_, ?_, fun i => ?_⟩
    · simp only [View.del]
      rw [hassoc]
      have hk := h.assoc m k
      simp only [view_assoc, view_tasks] at hk
      by_cases hkid : k = id
      · subst hkid
        simp only [if_true]
        rw [ht] at hk
        constructor
        · intro ha
          exfalso
          split at ha
          · rename_i htm
            split at ha
            · cases ha
            · rename_i hm
              obtain ⟨_, t', ht', htm'⟩ := hk.mp ha
              cases ht'; exact hm ⟨htm'.symm, trivial⟩
          · rename_i htm
            simp at htm
            obtain ⟨hm, t', ht', htm'⟩ := hk.mp ha
            cases ht'; rw [htm] at htm'; exact hm htm'.symm
        · rintro ⟨_, t', ht', _⟩; cases ht'
      · have hne : ¬ (m = t.tmpl ∧ k = id) := fun hh => hkid hh.2
        simp only [if_neg hkid, if_neg hne, htasksV]
        split <;> exact hk
    · funext i
      simp only [View.del, accept, setStarted, setTask]
      have : ∀ i, ((if t.enabled = true then (if t.tmpl ≠ "" then w.view.setAssoc t.tmpl id false else w.view).setExec id false
        else (if t.tmpl ≠ "" then w.view.setAssoc t.tmpl id false else w.view))).tasks i = w.store.tasks i := by
        intro i; split <;> split <;> rfl
      rw [this, htasks]
    · have : ((if t.enabled = true then (if t.tmpl ≠ "" then w.view.setAssoc t.tmpl id false else w.view).setExec id false
        else (if t.tmpl ≠ "" then w.view.setAssoc t.tmpl id false else w.view)).del id).tmpls = w.view.tmpls := by
        simp only [View.del]; split <;> split <;> rfl
      rw [this]; exact h.tmpls
    · simp only [View.del]
      rw [hexec]
      simp only [accept, setStarted, setTask, Cat.executing]
      by_cases hi : i = id
      · subst hi
        simp
        cases he : t.enabled
        · simp; exact View.EI.not_exec_disabled hinv ht he
        · simp
      · have := h.exec i
        simp only [view_exec, Cat.executing] at this
        simp [hi, this]

/-! ### templates: create, delete -/

theorem createTemplate_refines (env : Env) (fail : List String) (w : World) (c : Cat) (id s : String)
    (h : DInv w.view c) :
    DInv (createTemplate env w id s).1.view (specStep env fail c (.tcreate id s) (createTemplate env w id s).2) := by
  unfold createTemplate
  split
  · simp only [specStep, note_view]; exact h
  · rename_i hsome
    split
    · simp only [specStep, note_view]; exact h
    · have hn : (w.store.tmpls id).isSome = false := by simpa using hsome
      simp only [tmplCreate_ok, hn, Bool.not_false, if_true, specStep, accept, note_view, tmplCreate_view, Bool.false_eq_true, if_false]
      exact ⟨h.assoc, h.tasks, by simp only [View.putTmpl]; funext i; rw [← h.tmpls], h.exec⟩

theorem deleteTemplate_refines (env : Env) (fail : List String) (w : World) (c : Cat) (id : String)
    (h : DInv w.view c) (hno : ∀ i t, c.tasks i = some t → t.tmpl ≠ id) :
    DInv (deleteTemplate w id).1.view (accept env fail c (.tdelete id)) := by
  unfold deleteTemplate
  simp only [note_view, tmplDelete_view, accept]
  refine ⟨fun m k => ?_, h.tasks, ?_, h.exec⟩
  · simp only [View.delTmpl]
    split
    · rename_i hm
      subst hm
      constructor
      · intro hf; cases hf
      · rintro ⟨_, t, ht, htm⟩
        exact absurd htm (hno k t (by rw [← h.tasks]; exact ht))
    · exact h.assoc m k
  · simp only [View.delTmpl]; funext i; rw [← h.tmpls]

/-! ### restart -/

theorem restart_refines (env : Env) (fail : List String) (w : World) (c : Cat)
    (hdom : WDom w) (h : DInv w.view c) :
    DInv ((boot env fail w.store w.br).note "restart").view (accept env fail c .restart) := by
  obtain ⟨hs, he⟩ := boot_spec env fail w.store w.br
  rw [note_view]
  have hv : (boot env fail w.store w.br).view.tasks = w.view.tasks ∧ (boot env fail w.store w.br).view.tmpls = w.view.tmpls ∧
      (boot env fail w.store w.br).view.assoc = w.view.assoc := by
    refine ⟨?_, ?_, ?_⟩ <;> simp only [view_tasks, view_tmpls, view_assoc, hs]
  refine ⟨fun m k => ?_, ?_, ?_, fun i => ?_⟩
  · rw [hv.2.2, hv.1]; exact h.assoc m k
  · rw [hv.1]; exact h.tasks
  · rw [hv.2.1]; exact h.tmpls
  · rw [view_exec, Bool.eq_iff_iff, he i]
    have ht : w.store.tasks = c.tasks := h.tasks
    simp only [accept, Cat.executing]
    rw [← ht]
    cases hti : w.store.tasks i with
    | none => simp
    | some t =>
      have hmem : i ∈ w.store.tids := hdom i t hti
      cases hen : t.enabled <;> simp [hmem, hen]

/-! ### run-time death -/

theorem die_refines (env : Env) (fail : List String) (w : World) (c : Cat) (id : String) (h : DInv w.view c) :
    DInv (dieTask w id).1.view (accept env fail c (.die id)) := by
  rw [dieTask_view]
  refine ⟨h.assoc, h.tasks, h.tmpls, fun i => ?_⟩
  have he := h.exec i
  simp only [accept, Cat.executing, setStarted, View.setExec] at he ⊢
  by_cases hi : i = id
  · subst hi; simp; cases c.tasks i <;> simp
  · simp only [hi, if_false]; exact he

/-! ### update: resolution, validation and the closed forms of its sub-steps -/


theorem updateScript_some {env : Env} {s : Store} {orig : Task} {r : TaskReq} {script m : String}
    (h : updateScript env s orig r = some (script, m)) :
    m = updateTmpl orig r ∧
    script = (if m ≠ "" then (s.tmpls m).getD "" else if r.script ≠ "" then r.script else orig.script) := by
  unfold updateScript at h
  unfold updateTmpl
  by_cases hc : r.tmpl ≠ "" ∨ orig.tmpl ≠ ""
  · rw [if_pos hc] at h
    have hm : (if r.tmpl = "" then orig.tmpl else r.tmpl) ≠ "" := by
      split
      · rename_i h0; rcases hc with hc | hc
        · exact absurd h0 hc
        · exact hc
      · assumption
    cases hx : s.tmpls (if r.tmpl = "" then orig.tmpl else r.tmpl) with
    | none => rw [hx] at h; simp at h
    | some sc =>
      rw [hx] at h; simp at h
      obtain ⟨h1, h2⟩ := h
      subst h2
      refine ⟨by by_cases h0 : r.tmpl = "" <;> simp [h0], ?_⟩
      rw [if_pos hm, hx]; exact h1.symm
  · rw [if_neg hc] at h
    have h1 : r.tmpl = "" := by
      cases Decidable.em (r.tmpl = "") with
      | inl h => exact h
      | inr h => exact absurd (Or.inl h) hc
    have h2 : orig.tmpl = "" := by
      cases Decidable.em (orig.tmpl = "") with
      | inl h => exact h
      | inr h => exact absurd (Or.inr h) hc
    by_cases p1 : (!(env orig.script).parse) = true
    · rw [if_pos p1] at h; cases h
    rw [if_neg p1] at h
    by_cases p2 : r.script ≠ ""
    · rw [if_pos p2] at h
      by_cases p3 : (!(env r.script).parse) = true
      · rw [if_pos p3] at h; cases h
      rw [if_neg p3] at h
      split at h
      · cases h
      · simp at h
        obtain ⟨ha, hb⟩ := h
        subst hb
        subst ha
        refine ⟨by simp [h1, h2], ?_⟩
        simp [p2]
    · rw [if_neg p2] at h
      simp at h
      obtain ⟨ha, hb⟩ := h
      subst hb
      refine ⟨by simp [h1, h2], ?_⟩
      simp at p2
      simp [p2, ha]

theorem updateRecord_eq_def (env : Env) (c : Cat) (orig : Task) (r : TaskReq) (script m : String)
    (hm : m = updateTmpl orig r) (hs : script = updateScriptOf c orig r) :
    updateRecord env orig r script m = updateDef env c orig r := by
  unfold updateRecord updateDef
  rw [← hs, ← hm]
  congr 1
  unfold dbrpsOf
  cases h1 : (env script).pdbrps.isEmpty <;> cases h2 : r.dbrps.isEmpty <;> simp [h1, h2]

theorem updateValidate_ok {env : Env} {orig : Task} {r : TaskReq} {script m : String} {upd : Task}
    (h : updateValidate env orig r script m = .ok upd) : upd = updateRecord env orig r script m := by
  unfold updateValidate at h
  repeat' split at h
  all_goals first
    | (cases h; done)
    | (injection h with h; exact h.symm)

theorem restartRenamed_view (env : Env) (fail : List String) (W : World) (id newId : String) (orig upd : Task)
    (hidle : id ≠ newId → orig.enabled = true → upd.enabled = true → W.exec newId = false) :
    (restartRenamed env fail W id newId orig upd).1.view =
      if id ≠ newId ∧ orig.enabled = true ∧ upd.enabled = true then
        (if startOK env fail newId upd = true then (W.view.setExec id false).setExec newId true else W.view.setExec id false)
      else W.view := by
  unfold restartRenamed
  split
  · rename_i hc
    have hi : (stopTask W id).exec newId = false := by
      have hne : newId ≠ id := fun e => hc.1 e.symm
      simp [stopTask, World.setExec, hne, hidle hc.1 hc.2.1 hc.2.2]
    simp only [note_view, startTask_view_idle _ _ _ _ _ hi, stopTask_view]
  · rfl

theorem restartRenamed_ok (env : Env) (fail : List String) (W : World) (id newId : String) (orig upd : Task) :
    (restartRenamed env fail W id newId orig upd).2 =
      if id ≠ newId ∧ orig.enabled = true ∧ upd.enabled = true then startOK env fail newId upd else true := by
  unfold restartRenamed
  split
  · simp only [startTask_ok]
  · rfl

theorem applyStatus_view (env : Env) (fail : List String) (W : World) (id newId : String) (orig upd : Task)
    (hidle : orig.enabled = false → upd.enabled = true → W.exec newId = false) :
    (applyStatus env fail W id newId orig upd).1.view =
      if (orig.enabled != upd.enabled) = true then
        (if upd.enabled = true then (if startOK env fail newId upd = true then W.view.setExec newId true else W.view)
         else W.view.setExec id false)
      else W.view := by
  unfold applyStatus
  split
  · split
    · rename_i hch hue
      have hi : W.exec newId = false := hidle (by cases hoe : orig.enabled <;> simp_all) hue
      split
      · rename_i hs; rw [startTask_ok] at hs; simp only [note_view, startTask_view_idle _ _ _ _ _ hi, hs, if_true]
      · rename_i hs; rw [startTask_ok] at hs; simp only [note_view, startTask_view_idle _ _ _ _ _ hi, hs]
    · simp only [note_view, stopTask_view]
  · simp only [note_view]

theorem applyStatus_resp_eq (env : Env) (fail : List String) (W : World) (id newId : String) (orig upd : Task) :
    (applyStatus env fail W id newId orig upd).2 =
      if (orig.enabled != upd.enabled) = true ∧ upd.enabled = true ∧ startOK env fail newId upd = false then .fail else .ok := by
  unfold applyStatus
  by_cases h1 : (orig.enabled != upd.enabled) = true
  · rw [if_pos h1]
    by_cases h2 : upd.enabled = true
    · rw [if_pos h2]
      by_cases hs : startOK env fail newId upd = true
      · rw [if_pos (by rw [startTask_ok]; exact hs), if_neg (fun hh => by rw [hs] at hh; exact Bool.noConfusion hh.2.2)]
      · rw [if_neg (by rw [startTask_ok]; exact hs)]
        simp at hs
        rw [if_pos ⟨h1, h2, hs⟩]
    · rw [if_neg h2, if_neg (fun hh => h2 hh.2.1)]
  · rw [if_neg h1]
    show Resp.ok = _
    rw [if_neg (fun hh => h1 hh.1)]


/-- Moving / re-templating one task keeps the association table accurate. -/
theorem AssocInv.update {V : View} (h : AssocInv V) {id newId : String} {orig upd : Task}
    (ho : V.tasks id = some orig) (hfresh : id ≠ newId → V.tasks newId = none)
    (hm : upd.tmpl = "" → orig.tmpl = "") (T : String → Option Task) (A : String → String → Bool)
    (hT : ∀ i, T i = if i = newId then some upd else if i = id then none else V.tasks i)
    (hA : ∀ m k, A m k =
      if upd.tmpl ≠ "" ∧ (id ≠ newId ∨ orig.tmpl ≠ upd.tmpl) then
        (if m = upd.tmpl ∧ k = newId then true
         else if orig.tmpl ≠ "" ∧ m = orig.tmpl ∧ k = id then false else V.assoc m k)
      else V.assoc m k) :
    ∀ m k, A m k = true ↔ (m ≠ "" ∧ ∃ t, T k = some t ∧ t.tmpl = m) := by
  intro m k
  have h1 := h m id
  have h2 := h m newId
  have h3 := h m k
  rw [ho] at h1
  rw [hA, hT]
  by_cases hk1 : k = newId
  · subst hk1
    by_cases hid : id = k
    · subst hid
      simp only [ho] at h3
      grind
    · have := hfresh hid
      rw [this] at h2
      grind
  · by_cases hk2 : k = id
    · subst hk2
      grind
    · grind


/-! ### whole histories -/

theorem beginReq_view (w : World) (cut : Option Nat) : (beginReq w cut).view = w.view := rfl
theorem beginReq_store (w : World) (cut : Option Nat) : (beginReq w cut).store = w.store := rfl

/-- Requests covered by the proved refinement (task update and template update have their own theorems). -/
def covered : Op → Bool
  | .update _ _ => false
  | .tupdate _ _ _ => false
  | _ => true

/-- One step without any recorded deviation: no crash point, no refused start on a create, no delete of a template
that tasks were created from. -/
structure StepOK (env : Env) (c : Cat) (r : Req) (resp : Resp) : Prop where
  cut : r.cut = none
  nodev : devStartFail env r.fail c r.op resp = false
  noorphan : ∀ id, r.op = .tdelete id → ∀ i t, c.tasks i = some t → t.tmpl ≠ id
  cov : covered r.op = true

/-- The invariant carried along a history: the view shows the catalogue, the association table is accurate, the ID
index enumerates the tasks, whatever executes is stored and enabled. -/
structure RInv (w : World) (c : Cat) : Prop where
  d : DInv w.view c
  dom : WDom w
  ei : ExecInv w

theorem refine_step (env : Env) (w : World) (c : Cat) (r : Req) (h : RInv w c)
    (hs : StepOK env c r (step Variant.fixed env r.fail r.cut w r.op).2) :
    RInv (step Variant.fixed env r.fail r.cut w r.op).1
      (specStep env r.fail c r.op (step Variant.fixed env r.fail r.cut w r.op).2) := by
  obtain ⟨hcut, hnodev, hno, hcov⟩ := hs
  refine ⟨?_, ?_, step_inv Variant.fixed env r.fail r.cut w r.op h.ei⟩
  · rw [hcut] at hnodev ⊢
    simp only [step] at hnodev ⊢
    have hd : DInv (beginReq w none).view c := h.d
    have hei : ExecInv (beginReq w none) := h.ei
    have hdom : WDom (beginReq w none) := h.dom
    generalize beginReq w none = w0 at hd hei hdom hnodev ⊢
    cases hop : r.op with
    | create id q =>
      rw [hop] at hnodev
      simp only [handle] at hnodev ⊢
      exact createTask_refines env r.fail w0 c id q hei hd hnodev
    | update id q => rw [hop] at hcov; cases hcov
    | delete id =>
      simp only [handle, specStep, deleteTask_ok, if_true]
      exact deleteTask_refines env r.fail w0 c id hei hd
    | tcreate id s =>
      simp only [handle]
      exact createTemplate_refines env r.fail w0 c id s hd
    | tupdate id n s => rw [hop] at hcov; cases hcov
    | tdelete id =>
      have hacc : specStep env r.fail c (.tdelete id) (handle Variant.fixed env r.fail w0 (.tdelete id)).2 =
          accept env r.fail c (.tdelete id) := by
        unfold specStep; exact if_pos rfl
      rw [hacc]
      exact deleteTemplate_refines env r.fail w0 c id hd (hno id hop)
    | restart =>
      simp only [handle, specStep, if_true]
      exact restart_refines env r.fail w0 c hdom hd
    | die id =>
      simp only [handle, specStep, dieTask_ok, if_true]
      exact die_refines env r.fail w0 c id hd
  · rw [hcut]
    simp only [step]
    exact WDom.handle (w := beginReq w none) h.dom Variant.fixed env r.fail r.op

/-- Model and spec in lockstep. -/
def runBoth (env : Env) : List Req → World × Cat → World × Cat
  | [], x => x
  | r :: rest, (w, c) =>
    runBoth env rest ((step Variant.fixed env r.fail r.cut w r.op).1,
      specStep env r.fail c r.op (step Variant.fixed env r.fail r.cut w r.op).2)

/-- Every step of the history is free of recorded deviations. -/
def AllOK (env : Env) : List Req → World × Cat → Prop
  | [], _ => True
  | r :: rest, (w, c) =>
    StepOK env c r (step Variant.fixed env r.fail r.cut w r.op).2 ∧
    AllOK env rest ((step Variant.fixed env r.fail r.cut w r.op).1,
      specStep env r.fail c r.op (step Variant.fixed env r.fail r.cut w r.op).2)

theorem refine_history (env : Env) (reqs : List Req) (w : World) (c : Cat) (h : RInv w c) (hok : AllOK env reqs (w, c)) :
    RInv (runBoth env reqs (w, c)).1 (runBoth env reqs (w, c)).2 := by
  induction reqs generalizing w c with
  | nil => exact h
  | cons r rest ih =>
    obtain ⟨hs, hrest⟩ := hok
    exact ih _ _ (refine_step env w c r h hs) hrest

theorem RInv.init : RInv {} {} := by
  refine ⟨⟨fun m k => ?_, rfl, rfl, fun i => rfl⟩, fun i t h => ?_, fun i h => ?_⟩
  · constructor
    · intro h; cases h
    · rintro ⟨_, t, ht, _⟩; cases ht
  · cases h
  · cases h

end Kap.C14
