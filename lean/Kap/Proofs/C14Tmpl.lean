/-
C14 — helper lemmas, part 3: the effect of an accepted template update on the tasks (induction over the forward
loop of updateAllAssociatedTasks), under the association invariant.
-/
import Kap.Proofs.C14Inv
set_option linter.unusedSimpArgs false
namespace Kap.C14

/-- The association table says exactly which stored task names which template. -/
def AssocInv (V : View) : Prop :=
  ∀ m k, V.assoc m k = true ↔ (m ≠ "" ∧ ∃ t, V.tasks k = some t ∧ t.tmpl = m)

theorem retarget_idem (env : Env) (os ni ns : String) (t : Task) :
    retarget env os ni ns (retarget env os ni ns t) = retarget env os ni ns t := by
  unfold retarget; simp only; congr 1; split <;> rfl

/-- The model's re-synchronised record is the spec's. -/
theorem retarget_eq_resync (env : Env) (os ni ns : String) (t : Task) : retarget env os ni ns t = resync env os ni ns t := by
  unfold retarget resync
  cases h1 : (env os).pdbrps.isEmpty <;> cases h2 : (env ns).pdbrps.isEmpty <;> simp [h1, h2]
  · exact List.isEmpty_iff.mp h2 ▸ rfl

theorem reloadTask_tasks (env : Env) (fail : List String) (w : World) (k : String) (t : Task)
    (hk : (w.store.tasks k).isSome = true) :
    (reloadTask env fail w k t).1.store.tasks = fun i => if i = k then some t else w.store.tasks i := by
  have := congrArg View.tasks (reloadTask_view env fail w k t hk)
  rw [view_tasks] at this; rw [this]
  split
  · split <;> rfl
  · rfl

theorem retargetOne_tasks (env : Env) (fail : List String) (oi os ni ns : String) (w : World) (k : String) :
    (retargetOne env fail oi os ni ns w k).1.store.tasks =
      fun i => if i = k then (w.store.tasks k).map (retarget env os ni ns) else w.store.tasks i := by
  unfold retargetOne
  split
  · rename_i hn
    funext i
    simp only [note_store, disassociate, tx_store, Store.setAssoc]
    split
    · rename_i h; subst h; simp [hn]
    · rfl
  · rename_i t ht
    simp only [note_store]
    rw [reloadTask_tasks]
    · funext i
      split
      · simp [ht]
      · split <;> rfl
    · split <;> simp [associate, Store.setAssoc, ht]

/-- The forward loop, when it completes: every listed task is re-synchronised, every other task untouched. -/
theorem updateAll_tasks (env : Env) (fail : List String) (oi os ni ns : String) (l done : List String) (w : World)
    (hok : (updateAll env fail oi os ni ns w done l).2 = true) :
    (updateAll env fail oi os ni ns w done l).1.store.tasks =
      fun i => if i ∈ l then (w.store.tasks i).map (retarget env os ni ns) else w.store.tasks i := by
  induction l generalizing w done with
  | nil => simp [updateAll]
  | cons k rest ih =>
    unfold updateAll at hok ⊢
    split
    · rename_i hs
      rw [if_pos hs] at hok
      rw [ih _ _ hok, retargetOne_tasks]
      funext i
      by_cases hik : i = k
      · subst hik
        by_cases hr : i ∈ rest
        · simp [hr]
          cases w.store.tasks i with
          | none => rfl
          | some t => simp [retarget_idem]
        · simp [hr]
      · by_cases hr : i ∈ rest <;> simp [hik, hr]
    · rename_i hs
      rw [if_neg hs] at hok
      cases hok

theorem mem_listAssoc (s : Store) (m i : String) : i ∈ listAssoc s m ↔ (i ∈ s.tids ∧ s.assoc m i = true) := by
  unfold listAssoc; simp [List.mem_filter]

theorem updateTemplate_accepted_tasks (env : Env) (fail : List String) (w : World) (id newId script os : String)
    (hos : w.store.tmpls id = some os) (hid : id ≠ "") (hdom : Dom w.store) (hassoc : AssocInv w.view)
    (hok : (updateTemplate env fail w id newId script).2 = .ok) :
    (updateTemplate env fail w id newId script).1.store.tasks =
      fun i => match w.store.tasks i with
        | some t => if t.tmpl = id then
            some (resync env os (if newId ≠ "" then newId else id) (if script ≠ "" then script else os) t) else some t
        | none => none := by
  unfold updateTemplate at hok ⊢
  simp only [hos] at hok ⊢
  generalize (if newId ≠ "" then newId else id) = nid at hok ⊢
  generalize (if script ≠ "" then script else os) = ns at hok ⊢
  split at hok
  · cases hok
  · split at hok
    · cases hok
    · split at hok
      · cases hok
      · rename_i h1 h2 h3
        rw [if_neg h1, if_neg h2, if_neg h3]
        have hall : (updateAll env fail id os nid ns (storeTemplate w id nid ns).1 [] (listAssoc w.store id)).2 = true := by
          cases hu : (updateAll env fail id os nid ns (storeTemplate w id nid ns).1 [] (listAssoc w.store id)).2
          · rw [hu] at hok; simp at hok
          · rfl
        simp only [note_store]
        rw [updateAll_tasks _ _ _ _ _ _ _ _ _ hall, (storeTemplate_te w id nid ns).1]
        funext i
        cases ht : w.store.tasks i with
        | none =>
          simp
        | some t =>
          have hmem : i ∈ listAssoc w.store id ↔ t.tmpl = id := by
            rw [mem_listAssoc]
            constructor
            · rintro ⟨_, ha⟩
              obtain ⟨_, t', ht', htm⟩ := (hassoc id i).mp ha
              rw [view_tasks, ht] at ht'; cases ht'; exact htm
            · intro htm
              exact ⟨hdom i t ht, (hassoc id i).mpr ⟨hid, t, ht, htm⟩⟩
          by_cases htm : t.tmpl = id
          · simp [hmem.mpr htm, htm, retarget_eq_resync]
          · have : i ∉ listAssoc w.store id := fun h => htm (hmem.mp h)
            simp [this, htm]

/-- All-or-none, in the spec's own terms, for every template update that is not answered 500. -/
theorem updateTemplate_allOrNone (env : Env) (fail : List String) (w : World) (id newId script os : String)
    (ids : List String)
    (hos : w.store.tmpls id = some os) (hid : id ≠ "") (hdom : Dom w.store) (hassoc : AssocInv w.view)
    (hresp : (updateTemplate env fail w id newId script).2 ≠ .fail) :
    allOrNone env ids w.store.tasks (updateTemplate env fail w id newId script).1.store.tasks id os
      (if newId ≠ "" then newId else id) (if script ≠ "" then script else os) = true := by
  unfold allOrNone
  simp only [Bool.or_eq_true, List.all_eq_true, List.mem_filter]
  cases hr : (updateTemplate env fail w id newId script).2 with
  | fail => exact absurd hr hresp
  | ok =>
    left
    intro i hi
    rw [updateTemplate_accepted_tasks env fail w id newId script os hos hid hdom hassoc hr]
    obtain ⟨_, hi⟩ := hi
    cases ht : w.store.tasks i with
    | none => rw [ht] at hi; simp at hi
    | some t =>
      rw [ht] at hi
      simp at hi
      simp [hi, ht]
  | bad =>
    right
    intro i _
    have := congrArg View.tasks (updateTemplate_rejected env fail w id newId script (Or.inl hr))
    simp only [view_tasks] at this
    rw [this]; simp
  | nf =>
    right
    intro i _
    have := congrArg View.tasks (updateTemplate_rejected env fail w id newId script (Or.inr hr))
    simp only [view_tasks] at this
    rw [this]; simp

end Kap.C14
