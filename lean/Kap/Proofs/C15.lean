/-
Helper lemmas for C15, part 1: `DoListFunc`, the bucket primitives, `DoUpdate`.
-/
import Kap.Spec.C15
namespace Kap.C15

/-! ### `DoListFunc` -/

theorem doListLoop_eq (m : Str → Bool) (o : Nat) (size : Nat) :
    ∀ (l : List Str) (i : Int) (acc : List Str), acc.length < size →
      doListLoop m o size l i acc
        = acc.reverse ++ (((l.filter m).drop ((o : Int) - i).toNat).take (size - acc.length)) := by
  intro l
  induction l with
  | nil => intro i acc _; simp [doListLoop]
  | cons v rest ih =>
    intro i acc hacc
    unfold doListLoop
    by_cases hm : m v = true
    · simp only [hm, Bool.not_true, Bool.false_eq_true, ↓reduceIte, List.filter_cons_of_pos]
      by_cases hi : i + 1 ≤ (o : Int)
      · simp only [hi, ↓reduceIte]
        rw [ih (i + 1) acc hacc]
        have : ((o : Int) - i).toNat = ((o : Int) - (i + 1)).toNat + 1 := by omega
        rw [this, List.drop_succ_cons]
      · simp only [hi, ↓reduceIte]
        have h0 : ((o : Int) - i).toNat = 0 := by omega
        have h1 : ((o : Int) - (i + 1)).toNat = 0 := by omega
        by_cases hs : (v :: acc).length = size
        · simp only [hs, ↓reduceIte, h0, List.drop_zero]
          have : size - acc.length = 1 := by simp at hs; omega
          rw [this]; simp
        · simp only [hs, ↓reduceIte]
          have hlt : (v :: acc).length < size := by simp at hs ⊢; omega
          rw [ih (i + 1) (v :: acc) hlt, h0, h1]
          have : size - acc.length = (size - (v :: acc).length) + 1 := by simp at hlt ⊢; omega
          rw [this]; simp
    · have hm' : m v = false := by simpa using hm
      simp only [hm', Bool.not_false, ↓reduceIte]
      rw [ih i acc hacc]
      simp [hm']

theorem doListFunc_eq (l : List Str) (m : Str → Bool) (o lim : Nat) :
    doListFunc l m (o : Int) (lim : Int) = ((l.filter m).drop o).take lim := by
  unfold doListFunc
  have hfl : (l.filter m).length ≤ l.length := List.length_filter_le _ _
  have hdl : ((l.filter m).drop o).length ≤ l.length - o := by simp; omega
  simp only
  by_cases hup : (o : Int) + (lim : Int) > (l.length : Int)
  · -- upper clamped to len: size = len - o
    simp only [hup, ↓reduceIte]
    by_cases hsz : (l.length : Int) - (o : Int) ≤ 0
    · simp only [hsz, ↓reduceIte]
      rw [List.drop_eq_nil_of_le (by omega)]; simp
    · simp only [hsz, ↓reduceIte]
      have e : ((l.length : Int) - (o : Int)).toNat = l.length - o := by omega
      rw [doListLoop_eq m o _ l 0 [] (by simp; omega)]
      simp only [List.reverse_nil, List.nil_append, Int.sub_zero, Int.toNat_natCast, List.length_nil, Nat.sub_zero]
      rw [e, List.take_of_length_le hdl, List.take_of_length_le (by omega)]
  · simp only [hup, ↓reduceIte]
    have e : ((o : Int) + (lim : Int) - (o : Int)).toNat = lim := by omega
    by_cases hsz : (o : Int) + (lim : Int) - (o : Int) ≤ 0
    · simp only [hsz, ↓reduceIte]
      have : lim = 0 := by omega
      subst this; simp
    · simp only [hsz, ↓reduceIte]
      rw [doListLoop_eq m o _ l 0 [] (by simp; omega)]
      simp only [List.reverse_nil, List.nil_append, Int.sub_zero, Int.toNat_natCast, List.length_nil, Nat.sub_zero]
      rw [e]

/-! ### Bucket primitives -/

theorem kvGet_put (kv : KV) (k k' : Str) (v : Val) :
    kvGet (kvPut kv k v) k' = if k = k' then some v else kvGet kv k' := by
  induction kv with
  | nil => simp [kvPut, kvGet]
  | cons e r ih =>
    obtain ⟨ke, ve⟩ := e
    unfold kvPut
    by_cases h1 : k < ke
    · simp [h1, kvGet]
    · by_cases h2 : k = ke
      · subst h2
        simp only [h1, ↓reduceIte, kvGet]
        by_cases h3 : k = k' <;> simp [h3]
      · simp only [h1, h2, ↓reduceIte, kvGet, ih]
        by_cases h3 : ke = k'
        · subst h3; simp [h2]
        · simp [h3]

theorem kvGet_del (kv : KV) (k k' : Str) :
    kvGet (kvDel kv k) k' = if k = k' then none else kvGet kv k' := by
  induction kv with
  | nil => simp [kvDel, kvGet]
  | cons e r ih =>
    obtain ⟨ke, ve⟩ := e
    unfold kvDel at ih ⊢
    by_cases h1 : ke = k
    · subst h1
      simp only [List.filter_cons, ne_eq, not_true_eq_false, decide_false, Bool.false_eq_true, ↓reduceIte]
      rw [ih]
      by_cases h3 : ke = k' <;> simp [h3, kvGet]
    · simp only [List.filter_cons, ne_eq, h1, not_false_eq_true, decide_true, ↓reduceIte, kvGet]
      rw [ih]
      by_cases h3 : ke = k'
      · subst h3
        have : ¬ k = ke := fun h => h1 h.symm
        simp [this]
      · simp [h3]

theorem kvGet_mem {kv : KV} {k : Str} {v : Val} (h : kvGet kv k = some v) : (k, v) ∈ kv := by
  induction kv with
  | nil => simp [kvGet] at h
  | cons e r ih =>
    obtain ⟨ke, ve⟩ := e
    unfold kvGet at h
    by_cases h1 : ke = k
    · simp [h1] at h; subst h1; subst h; simp
    · simp [h1] at h; exact List.mem_cons_of_mem _ (ih h)

/-! ### `DoUpdate` -/

theorem update_error_keeps (kv : KV) (f : Fault) (g : Tx → Except Err Tx) (e : Err)
    (h : (update kv f g).2 = some e) : (update kv f g).1 = kv := by
  unfold update at h ⊢
  split
  · rfl
  · split
    · rfl
    · rename_i heq hne
      rw [heq] at h
      simp [hne] at h

theorem update_ok {kv : KV} {f : Fault} {g : Tx → Except Err Tx} (h : (update kv f g).2 = none) :
    ∃ t, g (beginTx kv f) = .ok t ∧ (update kv f g).1 = t.kv := by
  unfold update at h ⊢
  cases hg : g (beginTx kv f) with
  | error e => rw [hg] at h; simp at h
  | ok t =>
    rw [hg] at h
    refine ⟨t, rfl, ?_⟩
    by_cases hc : f = .commit
    · simp [hc] at h
    · simp [hc]

theorem Tx.put_ok {t t' : Tx} {k : Str} {v : Val} (h : t.put k v = .ok t') :
    t'.kv = kvPut t.kv k v ∧ t'.failAt = t.failAt := by
  unfold Tx.put at h
  split at h
  · cases h
  · split at h
    · cases h
    · cases h; exact ⟨rfl, rfl⟩

theorem Tx.delete_ok {t t' : Tx} {k : Str} (h : t.delete k = .ok t') :
    t'.kv = kvDel t.kv k ∧ t'.failAt = t.failAt := by
  unfold Tx.delete at h
  split at h
  · cases h
  · cases h; exact ⟨rfl, rfl⟩

end Kap.C15
