/-
Helper lemmas for C15, part 2: the representation invariant (data area and index area in bijection with the
abstract map) and its preservation by `putTx` / `DeleteTx`, over an abstract faithfulness condition on the key
layout (`KeysOK`, discharged for well-formed configurations and objects in part 3).
-/
import Kap.Proofs.C15
namespace Kap.C15

def ikey (c : Cfg) (i : Index) (o : Obj) : Str := indexKey c i.name (i.valueOf o)

/-- The key layout is faithful on the objects satisfying `P`: data keys are injective in the id, never coincide
with an index key, and two index keys coincide only for the same index and the same value — for a non-unique index
only for the same id too. -/
structure KeysOK (c : Cfg) (P : Obj → Prop) : Prop where
  nodup : c.indexes.Nodup
  data_inj : ∀ a b : Str, dataKey c a = dataKey c b → a = b
  data_ne_index : ∀ (id : Str) (i : Index) (o : Obj), i ∈ c.indexes → P o → dataKey c id ≠ ikey c i o
  index_inj : ∀ (i j : Index) (a b : Obj), i ∈ c.indexes → j ∈ c.indexes → P a → P b →
    ikey c i a = ikey c j b → i = j ∧ i.sel.get a = i.sel.get b ∧ (i.unique = false → a.id = b.id)

/-- Unique indexes have distinct values over the objects of `m` (as a proposition). -/
def UniqueOK (c : Cfg) (m : Abs) : Prop :=
  ∀ i ∈ c.indexes, i.unique = true → ∀ a ∈ m, ∀ b ∈ m, i.sel.get a = i.sel.get b → a.id = b.id

structure Inv (c : Cfg) (P : Obj → Prop) (kv : KV) (m : Abs) : Prop where
  ids : ∀ a ∈ m, ∀ b ∈ m, a.id = b.id → a = b
  wf : ∀ o ∈ m, P o
  uniq : UniqueOK c m
  data : ∀ o ∈ m, kvGet kv (dataKey c o.id) = some (.obj o)
  index : ∀ o ∈ m, ∀ i ∈ c.indexes, kvGet kv (ikey c i o) = some (.ref o.id)
  only : ∀ k v, kvGet kv k = some v →
    (∃ o ∈ m, k = dataKey c o.id ∧ v = .obj o) ∨ (∃ o ∈ m, ∃ i ∈ c.indexes, k = ikey c i o ∧ v = .ref o.id)

theorem mem_absSet {m : Abs} {o x : Obj} : x ∈ absSet m o ↔ x = o ∨ (x ∈ m ∧ x.id ≠ o.id) := by
  simp [absSet]

theorem mem_absDel {m : Abs} {id : Str} {x : Obj} : x ∈ absDel m id ↔ (x ∈ m ∧ x.id ≠ id) := by
  simp [absDel]

theorem absGet_some {m : Abs} {id : Str} {o : Obj} (h : absGet m id = some o) : o ∈ m ∧ o.id = id := by
  unfold absGet at h
  have := List.find?_some h
  exact ⟨List.mem_of_find?_eq_some h, by simpa using this⟩

theorem absGet_none {m : Abs} {id : Str} (h : absGet m id = none) : ∀ o ∈ m, o.id ≠ id := by
  unfold absGet at h
  intro o ho
  have := List.find?_eq_none.mp h o ho
  simpa using this

/-- Under the invariant `GetTx` answers exactly what the abstract map holds. -/
theorem getTx_spec {c : Cfg} {P : Obj → Prop} {kv : KV} {m : Abs} (hk : KeysOK c P) (hi : Inv c P kv m) (id : Str) :
    getTx c kv id = match absGet m id with | some o => .ok o | none => .error .missing := by
  unfold getTx
  cases hg : absGet m id with
  | some o =>
    obtain ⟨hm, hid⟩ := absGet_some hg
    have := hi.data o hm
    rw [hid] at this
    simp [this]
  | none =>
    have hn := absGet_none hg
    cases hk2 : kvGet kv (dataKey c id) with
    | none => rfl
    | some v =>
      exfalso
      rcases hi.only _ _ hk2 with ⟨o, hm, hkey, _⟩ | ⟨o, hm, i, hi', hkey, _⟩
      · exact hn o hm (hk.data_inj _ _ hkey).symm
      · exact hk.data_ne_index id i o hi' (hi.wf o hm) hkey

/-- Under the invariant the uniqueness check of `putTx` (a lookup per unique index in the bucket) decides exactly the
abstract question: does a stored object of another id have the same value of some unique index? -/
theorem uniqueConflict_spec {c : Cfg} {P : Obj → Prop} {kv : KV} {m : Abs} (hk : KeysOK c P) (hi : Inv c P kv m)
    (o : Obj) (hP : P o) : uniqueConflict c kv o = absConflict c m o := by
  unfold uniqueConflict absConflict
  suffices h1 : ∀ i ∈ c.indexes, (i.unique && heldByOther (kvGet kv (indexKey c i.name (i.valueOf o))) o.id)
      = (i.unique && m.any (fun x => x.id != o.id && i.sel.get x == i.sel.get o)) by
    rw [Bool.eq_iff_iff, List.any_eq_true, List.any_eq_true]
    exact ⟨fun ⟨i, hi', h⟩ => ⟨i, hi', (h1 i hi') ▸ h⟩, fun ⟨i, hi', h⟩ => ⟨i, hi', (h1 i hi').symm ▸ h⟩⟩
  intro i hi'
  cases hun : i.unique with
  | false => rfl
  | true =>
    simp only [Bool.true_and]
    rw [Bool.eq_iff_iff]
    constructor
    · intro h
      change heldByOther (kvGet kv (ikey c i o)) o.id = true at h
      cases hg : kvGet kv (ikey c i o) with
      | none => rw [hg] at h; simp [heldByOther] at h
      | some v =>
        rcases hi.only _ _ hg with ⟨o', _, hkey, _⟩ | ⟨o', hm, j, hj, hkey, hv⟩
        · exact absurd hkey.symm (hk.data_ne_index o'.id i o hi' hP)
        · obtain ⟨hij, hsel, _⟩ := hk.index_inj i j o o' hi' hj hP (hi.wf o' hm) hkey
          rw [hg, hv] at h
          simp only [heldByOther, bne_iff_ne, ne_eq] at h
          exact List.any_eq_true.mpr ⟨o', hm, by simp [h, hsel]⟩
    · intro h
      obtain ⟨x, hx, hc⟩ := List.any_eq_true.mp h
      simp only [Bool.and_eq_true, bne_iff_ne, ne_eq, beq_iff_eq] at hc
      have hkey : ikey c i x = ikey c i o := by simp [ikey, Index.valueOf, hun, hc.2]
      change heldByOther (kvGet kv (ikey c i o)) o.id = true
      rw [← hkey, hi.index x hx i hi']
      simp [heldByOther, hc.1]

/-- Storing an object that conflicts with nothing keeps the unique indexes unique. -/
theorem uniqueOK_absSet {c : Cfg} {m : Abs} {o : Obj} (hu : UniqueOK c m) (hn : absConflict c m o = false) :
    UniqueOK c (absSet m o) := by
  have key : ∀ i ∈ c.indexes, i.unique = true → ∀ b ∈ m, b.id ≠ o.id → i.sel.get b ≠ i.sel.get o := by
    intro i hi' hun b hb hne hsel
    have h1 := List.any_eq_false.mp hn i hi'
    simp only [hun, Bool.true_and, Bool.not_eq_true] at h1
    have h2 := List.any_eq_false.mp h1 b hb
    simp [hne, hsel] at h2
  intro i hi' hun a ha b hb hsel
  rcases mem_absSet.mp ha with rfl | ⟨ha', hane⟩ <;> rcases mem_absSet.mp hb with rfl | ⟨hb', hbne⟩
  · rfl
  · exact absurd hsel.symm (key i hi' hun b hb' hbne)
  · exact absurd hsel (key i hi' hun a ha' hane)
  · exact hu i hi' hun a ha' b hb' hsel

def newKeys (c : Cfg) (o : Obj) (L : List Index) : List Str := L.map (fun i => ikey c i o)
def oldKeys (c : Cfg) (old : Option Obj) (L : List Index) : List Str :=
  match old with | some x => L.map (fun i => ikey c i x) | none => []

theorem ite_aux_create {α : Type} (p1 p4 : Prop) [Decidable p1] [Decidable p4] (A G : α) :
    (if p1 then A else if p4 then A else G) = (if p4 ∨ p1 then A else G) := by
  by_cases h1 : p1 <;> by_cases h4 : p4 <;> simp_all

theorem ite_aux_changed {α : Type} (p1 p2 p3 p4 : Prop) [Decidable p1] [Decidable p2] [Decidable p3] [Decidable p4]
    (A N G : α) (h1 : p4 → ¬ p2) (h2 : p3 → ¬ p4) :
    (if p1 then A else if p2 then N else if p3 then N else if p4 then A else G)
      = (if p4 ∨ p1 then A else if p3 ∨ p2 then N else G) := by
  by_cases h1 : p1 <;> by_cases h2 : p2 <;> by_cases h3 : p3 <;> by_cases h4 : p4 <;> simp_all

theorem ite_aux_same {α : Type} (p1 p2 p4 : Prop) [Decidable p1] [Decidable p2] [Decidable p4]
    (A N G : α) (h1 : p4 → ¬ p2) (hG : p4 → G = A) :
    (if p1 then A else if p2 then N else G) = (if p4 ∨ p1 then A else if p4 ∨ p2 then N else G) := by
  by_cases h1 : p1 <;> by_cases h2 : p2 <;> by_cases h4 : p4 <;> simp_all

/-- Pointwise content of the bucket after the index loop of `putTx`. -/
theorem putIndexes_get (c : Cfg) (o : Obj) (old : Option Obj) :
    ∀ (L : List Index) (t t' : Tx), putIndexes c o old L t = .ok t' → L.Nodup →
      (∀ i ∈ L, ∀ j ∈ L, ∀ x, old = some x → ikey c i x = ikey c j o → i = j) →
      (∀ i ∈ L, ∀ x, old = some x → ikey c i x = ikey c i o → kvGet t.kv (ikey c i o) = some (.ref o.id)) →
      ∀ k, kvGet t'.kv k =
        if k ∈ newKeys c o L then some (.ref o.id)
        else if k ∈ oldKeys c old L then none
        else kvGet t.kv k := by
  intro L
  induction L with
  | nil => intro t t' h _ _ _ k; simp [putIndexes] at h; subst h; cases old <;> simp [newKeys, oldKeys]
  | cons idx rest ih =>
    intro t t' h hnd hdisj hsame k
    have hnd' : rest.Nodup := (List.nodup_cons.mp hnd).2
    have hidx : idx ∉ rest := (List.nodup_cons.mp hnd).1
    unfold putIndexes at h
    cases old with
    | none =>
      simp only [Option.isNone_none, Bool.true_or, ↓reduceIte] at h
      cases hp : t.put (indexKey c idx.name (idx.valueOf o)) (.ref o.id) with
      | error e => rw [hp] at h; simp at h
      | ok t1 =>
        rw [hp] at h
        simp only at h
        have hk1 := (Tx.put_ok hp).1
        have := ih t1 t' h hnd' (by intro i _ j _ x hx; cases hx) (by intro i _ x hx; cases hx) k
        rw [this, hk1, kvGet_put]
        simp only [newKeys, oldKeys, List.map_cons, List.mem_cons, List.not_mem_nil, ↓reduceIte, @eq_comm _ k]
        exact ite_aux_create _ _ _ _
    | some x =>
      simp only [Option.isNone_some, Bool.false_or] at h
      have hd1 : ikey c idx o ∉ List.map (fun i => ikey c i x) rest := by
        intro hmem
        obtain ⟨i, hi, he⟩ := List.mem_map.mp hmem
        have := hdisj i (List.mem_cons_of_mem _ hi) idx (List.mem_cons_self) x rfl he
        exact hidx (this ▸ hi)
      by_cases hne : (indexKey c idx.name (idx.valueOf x) != indexKey c idx.name (idx.valueOf o)) = true
      · simp only [hne, ↓reduceIte] at h
        cases hp : t.put (indexKey c idx.name (idx.valueOf o)) (.ref o.id) with
        | error e => rw [hp] at h; simp at h
        | ok t1 =>
          rw [hp] at h
          simp only at h
          cases hd : t1.delete (indexKey c idx.name (idx.valueOf x)) with
          | error e => rw [hd] at h; simp at h
          | ok t2 =>
            rw [hd] at h
            simp only at h
            have hk1 := (Tx.put_ok hp).1
            have hk2 := (Tx.delete_ok hd).1
            have hne' : ikey c idx x ≠ ikey c idx o := by simpa [ikey] using hne
            have hget2 : ∀ k, kvGet t2.kv k =
                if ikey c idx x = k then none else if ikey c idx o = k then some (.ref o.id) else kvGet t.kv k := by
              intro k; rw [hk2, kvGet_del, hk1, kvGet_put]; rfl
            have hsame' : ∀ i ∈ rest, ∀ y, some x = some y → ikey c i y = ikey c i o →
                kvGet t2.kv (ikey c i o) = some (.ref o.id) := by
              intro i hi y hy hik
              cases hy
              rw [hget2]
              have h1 : ikey c idx x ≠ ikey c i o := by
                intro he
                have := hdisj idx (List.mem_cons_self) i (List.mem_cons_of_mem _ hi) x rfl he
                exact hidx (this ▸ hi)
              simp only [h1, ↓reduceIte]
              split
              · rfl
              · exact hsame i (List.mem_cons_of_mem _ hi) x rfl hik
            have := ih t2 t' h hnd'
              (by intro i hi j hj y hy; exact hdisj i (List.mem_cons_of_mem _ hi) j (List.mem_cons_of_mem _ hj) y hy)
              hsame' k
            rw [this, hget2]
            simp only [newKeys, oldKeys, List.map_cons, List.mem_cons, @eq_comm _ k]
            exact ite_aux_changed _ _ _ _ _ _ _ (fun h4 h2 => hd1 (h4 ▸ h2)) (fun h3 h4 => hne' (h3.trans h4.symm))
      · have heq : ikey c idx x = ikey c idx o := by simpa [ikey] using hne
        simp only [hne, ↓reduceIte] at h
        have := ih t t' h hnd'
          (by intro i hi j hj y hy; exact hdisj i (List.mem_cons_of_mem _ hi) j (List.mem_cons_of_mem _ hj) y hy)
          (by intro i hi y hy; exact hsame i (List.mem_cons_of_mem _ hi) y hy) k
        rw [this]
        have hs := hsame idx (List.mem_cons_self) x rfl heq
        simp only [newKeys, oldKeys, List.map_cons, List.mem_cons, @eq_comm _ k]
        rw [heq]
        exact ite_aux_same _ _ _ _ _ _ (fun h4 h2 => hd1 (h4 ▸ h2)) (fun h4 => h4 ▸ hs)


theorem mem_newKeys {c : Cfg} {o : Obj} {L : List Index} {k : Str} :
    k ∈ newKeys c o L ↔ ∃ i ∈ L, ikey c i o = k := by simp [newKeys]

theorem mem_oldKeys {c : Cfg} {old : Option Obj} {L : List Index} {k : Str} :
    k ∈ oldKeys c old L ↔ ∃ x, old = some x ∧ ∃ i ∈ L, ikey c i x = k := by
  cases old <;> simp [oldKeys]

/-- The bucket content after a successful `putTx`, as a function of the content before. -/
def putContent (c : Cfg) (kv : KV) (old : Option Obj) (o : Obj) (k : Str) : Option Val :=
  if k ∈ newKeys c o c.indexes then some (.ref o.id)
  else if k ∈ oldKeys c old c.indexes then none
  else if dataKey c o.id = k then some (.obj o)
  else kvGet kv k

theorem inv_put {c : Cfg} {P : Obj → Prop} {kv kv' : KV} {m : Abs} (hk : KeysOK c P) (hi : Inv c P kv m)
    (o : Obj) (hP : P o) (hu : UniqueOK c (absSet m o))
    (hget : ∀ k, kvGet kv' k = putContent c kv (absGet m o.id) o k) : Inv c P kv' (absSet m o) := by
  have hnotnew : ∀ o' ∈ m, o'.id ≠ o.id → ∀ i ∈ c.indexes, ikey c i o' ∉ newKeys c o c.indexes := by
    intro o' ho' hne i hi' hmem
    obtain ⟨j, hj, he⟩ := mem_newKeys.mp hmem
    obtain ⟨hij, hsel, hnu⟩ := hk.index_inj j i o o' hj hi' hP (hi.wf o' ho') he
    cases hun : j.unique with
    | false => exact hne (hnu hun).symm
    | true =>
      exact hne (hu j hj hun o (mem_absSet.mpr (Or.inl rfl)) o' (mem_absSet.mpr (Or.inr ⟨ho', hne⟩)) hsel).symm
  have hnotold : ∀ o' ∈ m, o'.id ≠ o.id → ∀ i ∈ c.indexes, ikey c i o' ∉ oldKeys c (absGet m o.id) c.indexes := by
    intro o' ho' hne i hi' hmem
    obtain ⟨x, hx, j, hj, he⟩ := mem_oldKeys.mp hmem
    obtain ⟨hxm, hxid⟩ := absGet_some hx
    obtain ⟨hij, hsel, hnu⟩ := hk.index_inj j i x o' hj hi' (hi.wf x hxm) (hi.wf o' ho') he
    cases hun : j.unique with
    | false => exact hne ((hnu hun).symm.trans hxid)
    | true => exact hne ((hi.uniq j hj hun x hxm o' ho' hsel).symm.trans hxid)
  have hdatanew : ∀ id, dataKey c id ∉ newKeys c o c.indexes := by
    intro id hmem
    obtain ⟨j, hj, he⟩ := mem_newKeys.mp hmem
    exact hk.data_ne_index id j o hj hP he.symm
  have hdataold : ∀ id, dataKey c id ∉ oldKeys c (absGet m o.id) c.indexes := by
    intro id hmem
    obtain ⟨x, hx, j, hj, he⟩ := mem_oldKeys.mp hmem
    exact hk.data_ne_index id j x hj (hi.wf x (absGet_some hx).1) he.symm
  refine ⟨?_, ?_, hu, ?_, ?_, ?_⟩
  · intro a ha b hb hab
    rcases mem_absSet.mp ha with rfl | ⟨ha', hane⟩ <;> rcases mem_absSet.mp hb with rfl | ⟨hb', hbne⟩
    · rfl
    · exact absurd hab.symm hbne
    · exact absurd hab hane
    · exact hi.ids a ha' b hb' hab
  · intro x hx
    rcases mem_absSet.mp hx with rfl | ⟨hx', _⟩
    · exact hP
    · exact hi.wf x hx'
  · intro o' ho'
    rw [hget, putContent, if_neg (hdatanew _), if_neg (hdataold _)]
    rcases mem_absSet.mp ho' with rfl | ⟨hm, hne⟩
    · simp
    · have : dataKey c o.id ≠ dataKey c o'.id := fun h => hne (hk.data_inj _ _ h).symm
      rw [if_neg this]; exact hi.data o' hm
  · intro o' ho' i hi'
    rw [hget, putContent]
    rcases mem_absSet.mp ho' with rfl | ⟨hm, hne⟩
    · rw [if_pos (mem_newKeys.mpr ⟨i, hi', rfl⟩)]
    · rw [if_neg (hnotnew o' hm hne i hi'), if_neg (hnotold o' hm hne i hi'),
        if_neg (hk.data_ne_index _ i o' hi' (hi.wf o' hm))]
      exact hi.index o' hm i hi'
  · intro k v hkv
    rw [hget, putContent] at hkv
    split at hkv
    · rename_i hn
      obtain ⟨j, hj, he⟩ := mem_newKeys.mp hn
      right
      exact ⟨o, mem_absSet.mpr (Or.inl rfl), j, hj, he.symm, by cases hkv; rfl⟩
    · split at hkv
      · cases hkv
      · rename_i hnold
        split at hkv
        · rename_i hd
          left
          exact ⟨o, mem_absSet.mpr (Or.inl rfl), hd.symm, by cases hkv; rfl⟩
        · rename_i hd
          rcases hi.only k v hkv with ⟨o'', hm, hkey, hv⟩ | ⟨o'', hm, i, hi', hkey, hv⟩
          · left
            refine ⟨o'', mem_absSet.mpr (Or.inr ⟨hm, ?_⟩), hkey, hv⟩
            intro hid; exact hd (by rw [hkey, hid])
          · right
            refine ⟨o'', mem_absSet.mpr (Or.inr ⟨hm, ?_⟩), i, hi', hkey, hv⟩
            intro hid
            apply hnold
            cases hg : absGet m o.id with
            | none => exact absurd hid (absGet_none hg o'' hm)
            | some x =>
              obtain ⟨hxm, hxid⟩ := absGet_some hg
              have : x = o'' := hi.ids x hxm o'' hm (hxid.trans hid.symm)
              exact mem_oldKeys.mpr ⟨x, rfl, i, hi', by rw [this, hkey]⟩

/-- `putTx` that succeeds leaves exactly `putContent`. -/
theorem putTx_content {c : Cfg} {P : Obj → Prop} {kv : KV} {m : Abs} (hk : KeysOK c P) (hi : Inv c P kv m)
    (o : Obj) (hP : P o) (ar rr : Bool) (t t' : Tx) (ht : t.kv = kv) (h : putTx c t o ar rr = .ok t') :
    ∀ k, kvGet t'.kv k = putContent c kv (absGet m o.id) o k := by
  unfold putTx at h
  rw [ht, getTx_spec hk hi] at h
  cases hg : absGet m o.id with
  | none =>
    rw [hg] at h
    simp only at h
    split at h
    · cases h
    · split at h
      · cases h
      · cases hp : t.put (dataKey c o.id) (.obj o) with
        | error e => rw [hp] at h; simp at h
        | ok t1 =>
          rw [hp] at h
          simp only at h
          have h1 := (Tx.put_ok hp).1
          intro k
          rw [putIndexes_get c o none c.indexes t1 t' h hk.nodup (by intro i _ j _ x hx; cases hx)
            (by intro i _ x hx; cases hx) k, h1, kvGet_put, ht]
          rfl
  | some x =>
    rw [hg] at h
    simp only at h
    obtain ⟨hxm, hxid⟩ := absGet_some hg
    split at h
    · cases h
    · split at h
      · cases h
      · cases hp : t.put (dataKey c o.id) (.obj o) with
        | error e => rw [hp] at h; simp at h
        | ok t1 =>
          rw [hp] at h
          simp only at h
          have h1 := (Tx.put_ok hp).1
          intro k
          rw [putIndexes_get c o (some x) c.indexes t1 t' h hk.nodup
            (by intro i hi' j hj y hy he; cases hy
                exact (hk.index_inj i j x o hi' hj (hi.wf x hxm) hP he).1)
            (by intro i hi' y hy he; cases hy
                rw [h1, kvGet_put, if_neg (hk.data_ne_index _ i o hi' hP), ht, ← he, hi.index x hxm i hi', hxid])
            k, h1, kvGet_put, ht]
          rfl


theorem delIndexes_get (c : Cfg) (o : Obj) :
    ∀ (L : List Index) (t t' : Tx), delIndexes c o L t = .ok t' →
      ∀ k, kvGet t'.kv k = if k ∈ newKeys c o L then none else kvGet t.kv k := by
  intro L
  induction L with
  | nil => intro t t' h k; simp [delIndexes] at h; subst h; simp [newKeys]
  | cons idx rest ih =>
    intro t t' h k
    unfold delIndexes at h
    cases hd : t.delete (indexKey c idx.name (idx.valueOf o)) with
    | error e => rw [hd] at h; simp at h
    | ok t1 =>
      rw [hd] at h
      simp only at h
      rw [ih t1 t' h k, (Tx.delete_ok hd).1, kvGet_del]
      simp only [newKeys, List.map_cons, List.mem_cons, @eq_comm _ k]
      change (if _ then none else if ikey c idx o = k then none else _) = _
      by_cases h1 : k ∈ List.map (fun i => ikey c i o) rest <;> by_cases h2 : ikey c idx o = k <;> simp [h1, h2]

def delContent (c : Cfg) (kv : KV) (old : Option Obj) (id : Str) (k : Str) : Option Val :=
  match old with
  | none => kvGet kv k
  | some x => if k ∈ newKeys c x c.indexes then none else if dataKey c id = k then none else kvGet kv k

theorem deleteTx_content {c : Cfg} {P : Obj → Prop} {kv : KV} {m : Abs} (hk : KeysOK c P) (hi : Inv c P kv m)
    (id : Str) (t t' : Tx) (ht : t.kv = kv) (h : deleteTx c t id = .ok t') :
    ∀ k, kvGet t'.kv k = delContent c kv (absGet m id) id k := by
  unfold deleteTx at h
  rw [ht, getTx_spec hk hi] at h
  cases hg : absGet m id with
  | none =>
    rw [hg] at h
    simp only at h
    cases h
    intro k; simp [delContent, ht]
  | some x =>
    rw [hg] at h
    simp only at h
    cases hd : t.delete (dataKey c id) with
    | error e => rw [hd] at h; simp at h
    | ok t1 =>
      rw [hd] at h
      simp only at h
      intro k
      rw [delIndexes_get c x c.indexes t1 t' h k, (Tx.delete_ok hd).1, kvGet_del, ht]
      rfl

theorem inv_del {c : Cfg} {P : Obj → Prop} {kv kv' : KV} {m : Abs} (hk : KeysOK c P) (hi : Inv c P kv m)
    (id : Str) (hget : ∀ k, kvGet kv' k = delContent c kv (absGet m id) id k) : Inv c P kv' (absDel m id) := by
  have hsub : ∀ o, o ∈ absDel m id → o ∈ m := fun o ho => (mem_absDel.mp ho).1
  have huq : UniqueOK c (absDel m id) := fun i hi' hun a ha b hb => hi.uniq i hi' hun a (hsub a ha) b (hsub b hb)
  cases hg : absGet m id with
  | none =>
    have hn := absGet_none hg
    have hsame : ∀ o, o ∈ absDel m id ↔ o ∈ m := fun o => ⟨hsub o, fun ho => mem_absDel.mpr ⟨ho, hn o ho⟩⟩
    have hget' : ∀ k, kvGet kv' k = kvGet kv k := by intro k; rw [hget, hg]; rfl
    refine ⟨fun a ha b hb => hi.ids a (hsub a ha) b (hsub b hb), fun o ho => hi.wf o (hsub o ho), huq, ?_, ?_, ?_⟩
    · intro o ho; rw [hget']; exact hi.data o (hsub o ho)
    · intro o ho i hi'; rw [hget']; exact hi.index o (hsub o ho) i hi'
    · intro k v hkv
      rw [hget'] at hkv
      rcases hi.only k v hkv with ⟨o, hm, h1, h2⟩ | ⟨o, hm, i, hi', h1, h2⟩
      · exact Or.inl ⟨o, (hsame o).mpr hm, h1, h2⟩
      · exact Or.inr ⟨o, (hsame o).mpr hm, i, hi', h1, h2⟩
  | some x =>
    obtain ⟨hxm, hxid⟩ := absGet_some hg
    have hget' : ∀ k, kvGet kv' k =
        if k ∈ newKeys c x c.indexes then none else if dataKey c id = k then none else kvGet kv k := by
      intro k; rw [hget, hg]; rfl
    have hnot : ∀ o' ∈ m, o'.id ≠ id → ∀ i ∈ c.indexes, ikey c i o' ∉ newKeys c x c.indexes := by
      intro o' ho' hne i hi' hmem
      obtain ⟨j, hj, he⟩ := mem_newKeys.mp hmem
      obtain ⟨hij, hsel, hnu⟩ := hk.index_inj j i x o' hj hi' (hi.wf x hxm) (hi.wf o' ho') he
      cases hun : j.unique with
      | false => exact hne ((hnu hun).symm.trans hxid)
      | true => exact hne ((hi.uniq j hj hun x hxm o' ho' hsel).symm.trans hxid)
    have hdatanew : ∀ id', dataKey c id' ∉ newKeys c x c.indexes := by
      intro id' hmem
      obtain ⟨j, hj, he⟩ := mem_newKeys.mp hmem
      exact hk.data_ne_index id' j x hj (hi.wf x hxm) he.symm
    refine ⟨fun a ha b hb => hi.ids a (hsub a ha) b (hsub b hb), fun o ho => hi.wf o (hsub o ho), huq, ?_, ?_, ?_⟩
    · intro o ho
      obtain ⟨hm, hne⟩ := mem_absDel.mp ho
      rw [hget', if_neg (hdatanew _), if_neg (fun h => hne (hk.data_inj _ _ h).symm)]
      exact hi.data o hm
    · intro o ho i hi'
      obtain ⟨hm, hne⟩ := mem_absDel.mp ho
      rw [hget', if_neg (hnot o hm hne i hi'), if_neg (hk.data_ne_index _ i o hi' (hi.wf o hm))]
      exact hi.index o hm i hi'
    · intro k v hkv
      rw [hget'] at hkv
      split at hkv
      · cases hkv
      · rename_i hnk
        split at hkv
        · cases hkv
        · rename_i hd
          rcases hi.only k v hkv with ⟨o, hm, h1, h2⟩ | ⟨o, hm, i, hi', h1, h2⟩
          · refine Or.inl ⟨o, mem_absDel.mpr ⟨hm, ?_⟩, h1, h2⟩
            intro hid; exact hd (by rw [h1, hid])
          · refine Or.inr ⟨o, mem_absDel.mpr ⟨hm, ?_⟩, i, hi', h1, h2⟩
            intro hid
            have : x = o := hi.ids x hxm o hm (hxid.trans hid.symm)
            exact hnk (mem_newKeys.mpr ⟨i, hi', by rw [this, h1]⟩)


/-! ### Which errors can come out -/

/-- No key of the bucket names a nested bucket. -/
def NoBucket (kv : KV) : Prop := ∀ k, kvGet kv k ≠ some .bucket

theorem NoBucket.put {kv : KV} (h : NoBucket kv) (k : Str) {v : Val} (hv : v ≠ .bucket) : NoBucket (kvPut kv k v) := by
  intro k'
  rw [kvGet_put]
  split
  · intro he; exact hv (Option.some.inj he)
  · exact h k'

theorem NoBucket.del {kv : KV} (h : NoBucket kv) (k : Str) : NoBucket (kvDel kv k) := by
  intro k'
  rw [kvGet_del]
  split
  · simp
  · exact h k'

theorem Inv.noBucket {c : Cfg} {P : Obj → Prop} {kv : KV} {m : Abs} (hi : Inv c P kv m) : NoBucket kv := by
  intro k hk
  rcases hi.only k _ hk with ⟨_, _, _, hv⟩ | ⟨_, _, _, _, _, hv⟩ <;> cases hv

theorem Tx.put_err {t : Tx} {k : Str} {v : Val} {e : Err} (hnb : NoBucket t.kv) (h : t.put k v = .error e) :
    e = .io ∧ t.failAt.isSome = true := by
  unfold Tx.put at h
  split at h
  · rename_i hf; cases h; simp [hf]
  · split at h
    · rename_i hb; exact absurd hb (hnb k)
    · cases h

theorem Tx.delete_err {t : Tx} {k : Str} {e : Err} (h : t.delete k = .error e) :
    e = .io ∧ t.failAt.isSome = true := by
  unfold Tx.delete at h
  split at h
  · rename_i hf; cases h; simp [hf]
  · cases h

theorem putIndexes_err (c : Cfg) (o : Obj) (old : Option Obj) :
    ∀ (L : List Index) (t : Tx) (e : Err), NoBucket t.kv → putIndexes c o old L t = .error e →
      e = .io ∧ t.failAt.isSome = true := by
  intro L
  induction L with
  | nil => intro t e _ h; simp [putIndexes] at h
  | cons idx rest ih =>
    intro t e hnb h
    unfold putIndexes at h
    cases old with
    | none =>
      simp only [Option.isNone_none, Bool.true_or, ↓reduceIte] at h
      cases hp : t.put (indexKey c idx.name (idx.valueOf o)) (.ref o.id) with
      | error e' => rw [hp] at h; simp only at h; cases h; exact Tx.put_err hnb hp
      | ok t1 =>
        rw [hp] at h
        simp only at h
        have hnb1 : NoBucket t1.kv := by rw [(Tx.put_ok hp).1]; exact hnb.put _ (by simp)
        rw [← (Tx.put_ok hp).2]; exact ih t1 e hnb1 h
    | some x =>
      simp only [Option.isNone_some, Bool.false_or] at h
      split at h
      · cases hp : t.put (indexKey c idx.name (idx.valueOf o)) (.ref o.id) with
        | error e' => rw [hp] at h; simp only at h; cases h; exact Tx.put_err hnb hp
        | ok t1 =>
          rw [hp] at h
          simp only at h
          have hf := (Tx.put_ok hp).2
          have hnb1 : NoBucket t1.kv := by rw [(Tx.put_ok hp).1]; exact hnb.put _ (by simp)
          cases hd : t1.delete (indexKey c idx.name (idx.valueOf x)) with
          | error e' => rw [hd] at h; simp only at h; cases h; rw [← hf]; exact Tx.delete_err hd
          | ok t2 =>
            rw [hd] at h
            simp only at h
            have hnb2 : NoBucket t2.kv := by rw [(Tx.delete_ok hd).1]; exact hnb1.del _
            rw [← hf, ← (Tx.delete_ok hd).2]; exact ih t2 e hnb2 h
      · exact ih t e hnb h

theorem delIndexes_err (c : Cfg) (o : Obj) :
    ∀ (L : List Index) (t : Tx) (e : Err), delIndexes c o L t = .error e → e = .io ∧ t.failAt.isSome = true := by
  intro L
  induction L with
  | nil => intro t e h; simp [delIndexes] at h
  | cons idx rest ih =>
    intro t e h
    unfold delIndexes at h
    cases hd : t.delete (indexKey c idx.name (idx.valueOf o)) with
    | error e' => rw [hd] at h; simp only at h; cases h; exact Tx.delete_err hd
    | ok t1 =>
      rw [hd] at h
      simp only at h
      rw [← (Tx.delete_ok hd).2]; exact ih t1 e h

/-- The result of `putTx` under the invariant: rejected exactly by the exists/replace rules and the uniqueness of
the unique indexes, otherwise only an injected fault can make it fail. -/
theorem putTx_result {c : Cfg} {P : Obj → Prop} {kv : KV} {m : Abs} (hk : KeysOK c P) (hi : Inv c P kv m)
    (o : Obj) (hP : P o) (ar rr : Bool) (t : Tx) (ht : t.kv = kv) :
    match absGet m o.id with
    | none => if rr then putTx c t o ar rr = .error .missing
              else if absConflict c m o then putTx c t o ar rr = .error .conflict
              else (∃ t', putTx c t o ar rr = .ok t') ∨ (putTx c t o ar rr = .error .io ∧ t.failAt.isSome = true)
    | some _ => if ar then
                  (if absConflict c m o then putTx c t o ar rr = .error .conflict
                   else (∃ t', putTx c t o ar rr = .ok t') ∨ (putTx c t o ar rr = .error .io ∧ t.failAt.isSome = true))
                else putTx c t o ar rr = .error .exists_ := by
  have hnb : NoBucket t.kv := ht ▸ hi.noBucket
  unfold putTx
  rw [ht, getTx_spec hk hi, uniqueConflict_spec hk hi o hP]
  cases hg : absGet m o.id with
  | none =>
    simp only
    cases rr with
    | true => simp
    | false =>
      simp only [Bool.false_eq_true, ↓reduceIte]
      cases hcf : absConflict c m o with
      | true => simp
      | false =>
        simp only [Bool.false_eq_true, ↓reduceIte]
        cases hp : t.put (dataKey c o.id) (.obj o) with
        | error e => right; obtain ⟨h1, h2⟩ := Tx.put_err hnb hp; subst h1; exact ⟨rfl, h2⟩
        | ok t1 =>
          simp only
          cases hq : putIndexes c o none c.indexes t1 with
          | ok t' => left; exact ⟨t', rfl⟩
          | error e =>
            right
            obtain ⟨h1, h2⟩ := putIndexes_err c o none c.indexes t1 e
              (by rw [(Tx.put_ok hp).1]; exact hnb.put _ (by simp)) hq
            subst h1; rw [(Tx.put_ok hp).2] at h2; exact ⟨rfl, h2⟩
  | some x =>
    simp only
    cases ar with
    | false => simp
    | true =>
      simp only [Bool.not_true, Bool.false_eq_true, ↓reduceIte]
      cases hcf : absConflict c m o with
      | true => simp
      | false =>
        simp only [Bool.false_eq_true, ↓reduceIte]
        cases hp : t.put (dataKey c o.id) (.obj o) with
        | error e => right; obtain ⟨h1, h2⟩ := Tx.put_err hnb hp; subst h1; exact ⟨rfl, h2⟩
        | ok t1 =>
          simp only
          cases hq : putIndexes c o (some x) c.indexes t1 with
          | ok t' => left; exact ⟨t', rfl⟩
          | error e =>
            right
            obtain ⟨h1, h2⟩ := putIndexes_err c o (some x) c.indexes t1 e
              (by rw [(Tx.put_ok hp).1]; exact hnb.put _ (by simp)) hq
            subst h1; rw [(Tx.put_ok hp).2] at h2; exact ⟨rfl, h2⟩

theorem deleteTx_result {c : Cfg} {P : Obj → Prop} {kv : KV} {m : Abs} (hk : KeysOK c P) (hi : Inv c P kv m)
    (id : Str) (t : Tx) (ht : t.kv = kv) :
    (∃ t', deleteTx c t id = .ok t') ∨ (deleteTx c t id = .error .io ∧ t.failAt.isSome = true) := by
  unfold deleteTx
  rw [ht, getTx_spec hk hi]
  cases hg : absGet m id with
  | none => left; exact ⟨t, rfl⟩
  | some x =>
    simp only
    cases hd : t.delete (dataKey c id) with
    | error e => right; obtain ⟨h1, h2⟩ := Tx.delete_err hd; subst h1; exact ⟨rfl, h2⟩
    | ok t1 =>
      simp only
      cases hq : delIndexes c x c.indexes t1 with
      | ok t' => left; exact ⟨t', rfl⟩
      | error e =>
        right
        obtain ⟨h1, h2⟩ := delIndexes_err c x c.indexes t1 e hq
        subst h1; rw [(Tx.delete_ok hd).2] at h2; exact ⟨rfl, h2⟩

theorem beginTx_failAt {kv : KV} {f : Fault} (h : (beginTx kv f).failAt.isSome = true) : f ≠ .none ∧ f ≠ .commit := by
  cases f <;> simp [beginTx] at h ⊢

/-- `DoUpdate` around a transaction body whose outcomes are known. -/
theorem update_cases (kv : KV) (f : Fault) (g : Tx → Except Err Tx) :
    (∃ t, g (beginTx kv f) = .ok t ∧ f ≠ .commit ∧ update kv f g = (t.kv, none)) ∨
    (∃ t, g (beginTx kv f) = .ok t ∧ f = .commit ∧ update kv f g = (kv, some .io)) ∨
    (∃ e, g (beginTx kv f) = .error e ∧ update kv f g = (kv, some e)) := by
  unfold update
  cases hg : g (beginTx kv f) with
  | error e => right; right; exact ⟨e, rfl, rfl⟩
  | ok t =>
    by_cases hc : f = .commit
    · right; left; exact ⟨t, rfl, hc, by simp [hc]⟩
    · left; exact ⟨t, rfl, hc, by simp [hc]⟩

end Kap.C15
