/-
Helper lemmas for C15, part 4: on well-formed configurations and objects `path.Join`'s cleaning is the identity, so
the key layout is faithful (`KeysOK`).
-/
import Kap.Proofs.C15Step
namespace Kap.C15

def NoSlash (s : Str) : Prop := '/' ∉ s

theorem splitSlash_noslash (s : Str) (hs : NoSlash s) : splitSlash s = [s] := by
  induction s with
  | nil => rfl
  | cons ch r ih =>
    have h1 : ch ≠ '/' := fun h => hs (h ▸ List.mem_cons_self)
    have h2 : NoSlash r := fun h => hs (List.mem_cons_of_mem _ h)
    simp [splitSlash, h1, ih h2]

theorem splitSlash_append (s : Str) (hs : NoSlash s) (r : Str) : splitSlash (s ++ '/' :: r) = s :: splitSlash r := by
  induction s with
  | nil => simp [splitSlash]
  | cons ch s' ih =>
    have h1 : ch ≠ '/' := fun h => hs (h ▸ List.mem_cons_self)
    have h2 : NoSlash s' := fun h => hs (List.mem_cons_of_mem _ h)
    simp [splitSlash, h1, ih h2]

theorem splitSlash_joinSlash_aux : ∀ (L : List Str) (s : Str), NoSlash s → (∀ x ∈ L, NoSlash x) →
    splitSlash (s ++ joinSlash L) = s :: L := by
  intro L
  induction L with
  | nil => intro s hs _; simp [joinSlash, splitSlash_noslash s hs]
  | cons s2 r ih =>
    intro s hs hL
    simp only [joinSlash]
    rw [show s ++ ('/' :: s2 ++ joinSlash r) = s ++ '/' :: (s2 ++ joinSlash r) by simp,
      splitSlash_append s hs, ih s2 (hL s2 List.mem_cons_self) (fun x hx => hL x (List.mem_cons_of_mem _ hx))]

theorem splitSlash_joinSlash (L : List Str) (hL : ∀ x ∈ L, NoSlash x) : splitSlash (joinSlash L) = [] :: L := by
  have := splitSlash_joinSlash_aux L [] (by simp [NoSlash]) hL
  simpa using this

theorem joinSlash_inj {L1 L2 : List Str} (h1 : ∀ x ∈ L1, NoSlash x) (h2 : ∀ x ∈ L2, NoSlash x)
    (h : joinSlash L1 = joinSlash L2) : L1 = L2 := by
  have := congrArg splitSlash h
  rw [splitSlash_joinSlash L1 h1, splitSlash_joinSlash L2 h2] at this
  exact (List.cons.inj this).2

theorem WFseg_iff {s : Str} : WFseg s = true ↔ s ≠ [] ∧ NoSlash s ∧ s ≠ ['.'] ∧ s ≠ ['.', '.'] := by
  simp [WFseg, NoSlash, and_assoc]

theorem cleanSegs_wf : ∀ (L stack : List Str), (∀ s ∈ L, WFseg s = true) → cleanSegs stack L = L.reverse ++ stack := by
  intro L
  induction L with
  | nil => intro stack _; simp [cleanSegs]
  | cons s r ih =>
    intro stack h
    obtain ⟨h1, _, h3, h4⟩ := WFseg_iff.mp (h s List.mem_cons_self)
    simp [cleanSegs, h1, h3, h4, ih (s :: stack) (fun x hx => h x (List.mem_cons_of_mem _ hx))]

theorem pathClean_joinSlash (L : List Str) (hL : ∀ s ∈ L, WFseg s = true) (hne : L ≠ []) :
    pathClean (joinSlash L) = joinSlash L := by
  unfold pathClean
  rw [splitSlash_joinSlash L (fun x hx => (WFseg_iff.mp (hL x hx)).2.1)]
  simp [cleanSegs, cleanSegs_wf L [] hL, hne]

theorem pathClean_slash_joinSlash (L : List Str) (hL : ∀ s ∈ L, WFseg s = true) (hne : L ≠ []) :
    pathClean ('/' :: joinSlash L) = joinSlash L := by
  unfold pathClean
  simp only [splitSlash, ↓reduceIte]
  rw [splitSlash_joinSlash L (fun x hx => (WFseg_iff.mp (hL x hx)).2.1)]
  simp [cleanSegs, cleanSegs_wf L [] hL, hne]

theorem wf_dataSeg : WFseg dataSeg = true := by decide
theorem wf_indexesSeg : WFseg indexesSeg = true := by decide

theorem indexesPrefix_wf (c : Cfg) (hp : WFseg c.pfx = true) : c.indexesPrefix = joinSlash [c.pfx, indexesSeg] := by
  have hne : c.pfx ≠ [] := (WFseg_iff.mp hp).1
  unfold Cfg.indexesPrefix pathJoin
  have : List.filter (fun e => decide (e ≠ [])) [['/'], c.pfx, indexesSeg] = [['/'], c.pfx, indexesSeg] := by
    simp [List.filter, hne, indexesSeg]
  rw [this]
  simp only [intercalateSlash]
  have e : ['/'] ++ '/' :: (c.pfx ++ '/' :: indexesSeg) = '/' :: joinSlash [c.pfx, indexesSeg] := by simp [joinSlash]
  rw [e]
  exact pathClean_slash_joinSlash _ (by intro s hs; simp at hs; rcases hs with rfl | rfl; exact hp; exact wf_indexesSeg) (by simp)

theorem dataPrefix_wf (c : Cfg) (hp : WFseg c.pfx = true) : c.dataPrefix = joinSlash [c.pfx, dataSeg] ++ ['/'] := by
  have hne : c.pfx ≠ [] := (WFseg_iff.mp hp).1
  unfold Cfg.dataPrefix pathJoin
  have : List.filter (fun e => decide (e ≠ [])) [['/'], c.pfx, dataSeg] = [['/'], c.pfx, dataSeg] := by
    simp [List.filter, hne, dataSeg]
  rw [this]
  simp only [intercalateSlash]
  have e : ['/'] ++ '/' :: (c.pfx ++ '/' :: dataSeg) = '/' :: joinSlash [c.pfx, dataSeg] := by simp [joinSlash]
  rw [e, pathClean_slash_joinSlash _ (by intro s hs; simp at hs; rcases hs with rfl | rfl; exact hp; exact wf_dataSeg) (by simp)]

theorem splitSlash_ne_nil (s : Str) : splitSlash s ≠ [] := by
  cases s with
  | nil => simp [splitSlash]
  | cons ch r =>
    unfold splitSlash
    split
    · simp
    · split <;> simp

theorem splitSlash_append_gen : ∀ (a b : Str), splitSlash (a ++ '/' :: b) = splitSlash a ++ splitSlash b := by
  intro a
  induction a with
  | nil => intro b; simp [splitSlash]
  | cons ch a' ih =>
    intro b
    by_cases hc : ch = '/'
    · subst hc; simp [splitSlash, ih]
    · simp only [List.cons_append, splitSlash, hc, ↓reduceIte, ih]
      cases h : splitSlash a' with
      | nil => exact absurd h (splitSlash_ne_nil a')
      | cons x xs => simp

theorem joinSlash_splitSlash : ∀ (s : Str), joinSlash (splitSlash s) = '/' :: s := by
  intro s
  induction s with
  | nil => rfl
  | cons ch r ih =>
    by_cases hc : ch = '/'
    · subst hc; simp [splitSlash, joinSlash, ih]
    · simp only [splitSlash, hc, ↓reduceIte]
      cases h : splitSlash r with
      | nil => exact absurd h (splitSlash_ne_nil r)
      | cons x xs =>
        rw [h] at ih
        simp only [joinSlash] at ih ⊢
        have ih' : x ++ joinSlash xs = r := (List.cons.inj ih).2
        simp only [List.cons_append, ih']

theorem splitSlash_inj {a b : Str} (h : splitSlash a = splitSlash b) : a = b := by
  have := congrArg joinSlash h
  rw [joinSlash_splitSlash, joinSlash_splitSlash] at this
  exact (List.cons.inj this).2

/-- The value of an index as path segments. -/
def Index.segs (i : Index) (o : Obj) : List Str :=
  if i.unique then splitSlash (i.sel.get o) else splitSlash (i.sel.get o) ++ splitSlash o.id

theorem ne_nil_of_wfsegs {v : Str} (h : ∀ s ∈ splitSlash v, WFseg s = true) : v ≠ [] := by
  intro hv
  subst hv
  have := h [] (by simp [splitSlash])
  simp [WFseg] at this

theorem ikey_wf (c : Cfg) (hp : WFseg c.pfx = true) (i : Index) (hn : WFseg i.name = true) (o : Obj)
    (hsegs : ∀ s ∈ i.segs o, WFseg s = true) :
    ikey c i o = joinSlash ([c.pfx, indexesSeg, i.name] ++ i.segs o) := by
  have hne : i.name ≠ [] := (WFseg_iff.mp hn).1
  have hval : i.valueOf o ≠ [] := by
    unfold Index.valueOf
    split
    · rename_i hu
      apply ne_nil_of_wfsegs
      intro s hs; apply hsegs; unfold Index.segs; rw [if_pos hu]; exact hs
    · simp
  have hsplit : splitSlash (i.valueOf o) = i.segs o := by
    unfold Index.valueOf Index.segs
    split
    · rfl
    · exact splitSlash_append_gen _ _
  unfold ikey indexKey pathJoin
  rw [indexesPrefix_wf c hp]
  have : List.filter (fun e => decide (e ≠ [])) [joinSlash [c.pfx, indexesSeg], i.name, i.valueOf o]
      = [joinSlash [c.pfx, indexesSeg], i.name, i.valueOf o] := by
    simp [List.filter, hne, hval, joinSlash]
  rw [this]
  simp only [intercalateSlash]
  have e : joinSlash [c.pfx, indexesSeg] ++ '/' :: (i.name ++ '/' :: i.valueOf o)
      = joinSlash ([c.pfx, indexesSeg, i.name] ++ i.segs o) := by
    have : ('/' :: i.valueOf o) = joinSlash (i.segs o) := by rw [← hsplit, joinSlash_splitSlash]
    have hj : ∀ (A B : List Str), joinSlash (A ++ B) = joinSlash A ++ joinSlash B := by
      intro A B; induction A with
      | nil => rfl
      | cons a r ih => simp [joinSlash, ih]
    rw [hj, ← this]
    simp [joinSlash]
  rw [e]
  exact pathClean_joinSlash _ (by
    intro s hs
    rcases List.mem_append.mp hs with h | h
    · simp at h
      rcases h with rfl | rfl | rfl
      · exact hp
      · exact wf_indexesSeg
      · exact hn
    · exact hsegs s h) (by simp)

theorem wfObj_iff {c : Cfg} {o : Obj} : c.wfObj o = true ↔
    (∀ s ∈ splitSlash o.id, WFseg s = true) ∧ ∀ i ∈ c.indexes, (i.sel = .id ∨ WFseg (i.sel.get o) = true) := by
  simp [Cfg.wfObj, WFpath]

theorem value_segs_wf {c : Cfg} {o : Obj} (ho : c.wfObj o = true) {i : Index} (hi : i ∈ c.indexes) :
    ∀ s ∈ splitSlash (i.sel.get o), WFseg s = true := by
  obtain ⟨hid, hv⟩ := wfObj_iff.mp ho
  rcases hv i hi with h | h
  · rw [h]; exact hid
  · rw [splitSlash_noslash _ (WFseg_iff.mp h).2.1]
    intro s hs; simp at hs; subst hs; exact h

theorem segs_wf {c : Cfg} {o : Obj} (ho : c.wfObj o = true) {i : Index} (hi : i ∈ c.indexes) :
    ∀ s ∈ i.segs o, WFseg s = true := by
  intro s hs
  unfold Index.segs at hs
  split at hs
  · exact value_segs_wf ho hi s hs
  · rcases List.mem_append.mp hs with h | h
    · exact value_segs_wf ho hi s h
    · exact (wfObj_iff.mp ho).1 s h

theorem segs_inj {c : Cfg} {a b : Obj} (ha : c.wfObj a = true) (hb : c.wfObj b = true) {i : Index}
    (hi : i ∈ c.indexes) (h : i.segs a = i.segs b) :
    i.sel.get a = i.sel.get b ∧ (i.unique = false → a.id = b.id) := by
  unfold Index.segs at h
  cases hu : i.unique with
  | true =>
    rw [hu] at h
    simp only [↓reduceIte] at h
    exact ⟨splitSlash_inj h, by simp⟩
  | false =>
    rw [hu] at h
    simp only [Bool.false_eq_true, ↓reduceIte] at h
    rcases (wfObj_iff.mp ha).2 i hi with hsel | hwa
    · -- the index is on the id itself: A ++ A = B ++ B
      have ea : i.sel.get a = a.id := by rw [hsel]; rfl
      have eb : i.sel.get b = b.id := by rw [hsel]; rfl
      rw [ea, eb] at h ⊢
      have hlen : (splitSlash a.id).length = (splitSlash b.id).length := by
        have := congrArg List.length h
        simp at this; omega
      have := (List.append_inj h hlen).1
      exact ⟨splitSlash_inj this, fun _ => splitSlash_inj this⟩
    · rcases (wfObj_iff.mp hb).2 i hi with hsel | hwb
      · have ea : i.sel.get a = a.id := by rw [hsel]; rfl
        have eb : i.sel.get b = b.id := by rw [hsel]; rfl
        rw [ea, eb] at h ⊢
        have hlen : (splitSlash a.id).length = (splitSlash b.id).length := by
          have := congrArg List.length h
          simp at this; omega
        have := (List.append_inj h hlen).1
        exact ⟨splitSlash_inj this, fun _ => splitSlash_inj this⟩
      · rw [splitSlash_noslash _ (WFseg_iff.mp hwa).2.1, splitSlash_noslash _ (WFseg_iff.mp hwb).2.1] at h
        simp only [List.cons_append, List.nil_append, List.cons.injEq] at h
        exact ⟨h.1, fun _ => splitSlash_inj h.2⟩

theorem wf_iff {c : Cfg} : c.wf = true ↔
    WFseg c.pfx = true ∧ (∀ i ∈ c.indexes, WFseg i.name = true) ∧ (c.indexes.map (·.name)).Nodup := by
  simp [Cfg.wf, and_assoc]

theorem eq_of_name_eq {L : List Index} (hnd : (L.map (·.name)).Nodup) {i j : Index} (hi : i ∈ L) (hj : j ∈ L)
    (h : i.name = j.name) : i = j := by
  induction L with
  | nil => cases hi
  | cons x r ih =>
    simp only [List.map_cons, List.nodup_cons, List.mem_map, not_exists, not_and] at hnd
    rcases List.mem_cons.mp hi with rfl | hi' <;> rcases List.mem_cons.mp hj with rfl | hj'
    · rfl
    · exact absurd h.symm (hnd.1 j hj')
    · exact absurd h (hnd.1 i hi')
    · exact ih hnd.2 hi' hj'

theorem nodup_of_map_name {L : List Index} (h : (L.map (·.name)).Nodup) : L.Nodup := by
  induction L with
  | nil => simp
  | cons x r ih =>
    simp only [List.map_cons, List.nodup_cons, List.mem_map, not_exists, not_and] at h
    exact List.nodup_cons.mpr ⟨fun hx => h.1 x hx rfl, ih h.2⟩

/-- **On well-formed configurations and objects the key layout is faithful.** -/
theorem keysOK_of_wf (c : Cfg) (hc : c.wf = true) : KeysOK c (fun o => c.wfObj o = true) := by
  obtain ⟨hp, hnames, hnd⟩ := wf_iff.mp hc
  have segsNoSlash : ∀ i ∈ c.indexes, ∀ o, c.wfObj o = true →
      ∀ x ∈ [c.pfx, indexesSeg, i.name] ++ i.segs o, NoSlash x := by
    intro i hi o ho x hx
    have : WFseg x = true := by
      rcases List.mem_append.mp hx with h | h
      · simp at h
        rcases h with rfl | rfl | rfl
        · exact hp
        · exact wf_indexesSeg
        · exact hnames i hi
      · exact segs_wf ho hi x h
    exact (WFseg_iff.mp this).2.1
  refine ⟨nodup_of_map_name hnd, ?_, ?_, ?_⟩
  · intro a b h
    unfold dataKey at h
    exact List.append_cancel_left h
  · intro id i o hi ho h
    rw [ikey_wf c hp i (hnames i hi) o (segs_wf ho hi)] at h
    unfold dataKey at h
    rw [dataPrefix_wf c hp] at h
    simp only [joinSlash, List.cons_append, List.append_assoc, List.nil_append, List.cons.injEq, true_and] at h
    have := List.append_cancel_left h
    simp [dataSeg, indexesSeg] at this
  · intro i j a b hi hj ha hb h
    rw [ikey_wf c hp i (hnames i hi) a (segs_wf ha hi), ikey_wf c hp j (hnames j hj) b (segs_wf hb hj)] at h
    have hL := joinSlash_inj (segsNoSlash i hi a ha) (segsNoSlash j hj b hb) h
    simp only [List.cons_append, List.nil_append, List.cons.injEq, true_and] at hL
    have hij : i = j := eq_of_name_eq hnd hi hj hL.1
    subst hij
    obtain ⟨h1, h2⟩ := segs_inj ha hb hi hL.2
    exact ⟨rfl, h1, h2⟩

end Kap.C15
