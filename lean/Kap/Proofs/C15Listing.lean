/-
Helper lemmas for C15, part 6: every transaction body keeps the bucket sorted; under the invariant the listing of an
index is THE list of the stored objects by (value, id).
-/
import Kap.Proofs.C15Order
namespace Kap.C15

/-! ### Sortedness is preserved by everything a transaction does -/

theorem Tx.put_sorted {t t' : Tx} {k : Str} {v : Val} (h : t.put k v = .ok t') (hs : Sorted t.kv) : Sorted t'.kv := by
  rw [(Tx.put_ok h).1]; exact kvPut_sorted hs k v

theorem Tx.delete_sorted {t t' : Tx} {k : Str} (h : t.delete k = .ok t') (hs : Sorted t.kv) : Sorted t'.kv := by
  rw [(Tx.delete_ok h).1]; exact kvDel_sorted hs k

theorem putIndexes_sorted (c : Cfg) (o : Obj) (old : Option Obj) :
    ∀ (L : List Index) (t t' : Tx), putIndexes c o old L t = .ok t' → Sorted t.kv → Sorted t'.kv := by
  intro L
  induction L with
  | nil => intro t t' h hs; simp [putIndexes] at h; subst h; exact hs
  | cons idx rest ih =>
    intro t t' h hs
    unfold putIndexes at h
    cases old with
    | none =>
      simp only [Option.isNone_none, Bool.true_or, ↓reduceIte] at h
      cases hp : t.put (indexKey c idx.name (idx.valueOf o)) (.ref o.id) with
      | error e => rw [hp] at h; simp at h
      | ok t1 => rw [hp] at h; exact ih t1 t' h (Tx.put_sorted hp hs)
    | some x =>
      simp only [Option.isNone_some, Bool.false_or] at h
      split at h
      · cases hp : t.put (indexKey c idx.name (idx.valueOf o)) (.ref o.id) with
        | error e => rw [hp] at h; simp at h
        | ok t1 =>
          rw [hp] at h
          simp only at h
          cases hd : t1.delete (indexKey c idx.name (idx.valueOf x)) with
          | error e => rw [hd] at h; simp at h
          | ok t2 => rw [hd] at h; exact ih t2 t' h (Tx.delete_sorted hd (Tx.put_sorted hp hs))
      · exact ih t t' h hs

theorem putTx_sorted (c : Cfg) (o : Obj) (ar rr : Bool) (t t' : Tx) (h : putTx c t o ar rr = .ok t')
    (hs : Sorted t.kv) : Sorted t'.kv := by
  unfold putTx at h
  split at h
  · split at h
    · cases h
    · split at h
      · cases h
      · cases hp : t.put (dataKey c o.id) (.obj o) with
        | error e => rw [hp] at h; simp at h
        | ok t1 => rw [hp] at h; exact putIndexes_sorted c o none c.indexes t1 t' h (Tx.put_sorted hp hs)
  · cases h
  · split at h
    · cases h
    · split at h
      · cases h
      · cases hp : t.put (dataKey c o.id) (.obj o) with
        | error e => rw [hp] at h; simp at h
        | ok t1 => rw [hp] at h; exact putIndexes_sorted c o _ c.indexes t1 t' h (Tx.put_sorted hp hs)

theorem delIndexes_sorted (c : Cfg) (o : Obj) :
    ∀ (L : List Index) (t t' : Tx), delIndexes c o L t = .ok t' → Sorted t.kv → Sorted t'.kv := by
  intro L
  induction L with
  | nil => intro t t' h hs; simp [delIndexes] at h; subst h; exact hs
  | cons idx rest ih =>
    intro t t' h hs
    unfold delIndexes at h
    cases hd : t.delete (indexKey c idx.name (idx.valueOf o)) with
    | error e => rw [hd] at h; simp at h
    | ok t1 => rw [hd] at h; exact ih t1 t' h (Tx.delete_sorted hd hs)

theorem deleteTx_sorted (c : Cfg) (id : Str) (t t' : Tx) (h : deleteTx c t id = .ok t')
    (hs : Sorted t.kv) : Sorted t'.kv := by
  unfold deleteTx at h
  split at h
  · cases h; exact hs
  · cases h
  · cases hd : t.delete (dataKey c id) with
    | error e => rw [hd] at h; simp at h
    | ok t1 => rw [hd] at h; exact delIndexes_sorted c _ c.indexes t1 t' h (Tx.delete_sorted hd hs)

theorem deleteKeys_sorted : ∀ (ks : List Str) (t t' : Tx), deleteKeys ks t = .ok t' → Sorted t.kv → Sorted t'.kv := by
  intro ks
  induction ks with
  | nil => intro t t' h hs; simp [deleteKeys] at h; subst h; exact hs
  | cons k rest ih =>
    intro t t' h hs
    unfold deleteKeys at h
    cases hd : t.delete k with
    | error e => rw [hd] at h; simp at h
    | ok t1 => rw [hd] at h; exact ih t1 t' h (Tx.delete_sorted hd hs)

theorem deleteIndexes_sorted (c : Cfg) :
    ∀ (L : List Index) (t t' : Tx), deleteIndexes c L t = .ok t' → Sorted t.kv → Sorted t'.kv := by
  intro L
  induction L with
  | nil => intro t t' h hs; simp [deleteIndexes] at h; subst h; exact hs
  | cons idx rest ih =>
    intro t t' h hs
    unfold deleteIndexes at h
    cases hd : deleteKeys ((kvList t.kv (indexDir c idx.name)).map (·.1)) t with
    | error e => rw [hd] at h; simp at h
    | ok t1 => rw [hd] at h; exact ih t1 t' h (deleteKeys_sorted _ t t1 hd hs)

theorem putAllIndexes_sorted (c : Cfg) (o : Obj) :
    ∀ (L : List Index) (t t' : Tx), putAllIndexes c o L t = .ok t' → Sorted t.kv → Sorted t'.kv := by
  intro L
  induction L with
  | nil => intro t t' h hs; simp [putAllIndexes] at h; subst h; exact hs
  | cons idx rest ih =>
    intro t t' h hs
    unfold putAllIndexes at h
    cases hp : t.put (indexKey c idx.name (idx.valueOf o)) (.ref o.id) with
    | error e => rw [hp] at h; simp at h
    | ok t1 => rw [hp] at h; exact ih t1 t' h (Tx.put_sorted hp hs)

theorem rebuildData_sorted (c : Cfg) :
    ∀ (d : KV) (t t' : Tx), rebuildData c d t = .ok t' → Sorted t.kv → Sorted t'.kv := by
  intro d
  induction d with
  | nil => intro t t' h hs; simp [rebuildData] at h; subst h; exact hs
  | cons e rest ih =>
    intro t t' h hs
    obtain ⟨k, v⟩ := e
    cases v with
    | ref r => simp [rebuildData] at h
    | bucket => simp [rebuildData] at h
    | obj o =>
      unfold rebuildData at h
      cases hp : putAllIndexes c o c.indexes t with
      | error e => rw [hp] at h; simp at h
      | ok t1 => rw [hp] at h; exact ih t1 t' h (putAllIndexes_sorted c o c.indexes t t1 hp hs)

theorem rebuildTx_sorted (c : Cfg) (t t' : Tx) (h : rebuildTx c t = .ok t') (hs : Sorted t.kv) : Sorted t'.kv := by
  unfold rebuildTx at h
  cases hd : deleteIndexes c c.indexes t with
  | error e => rw [hd] at h; simp at h
  | ok t1 => rw [hd] at h; exact rebuildData_sorted c _ t1 t' h (deleteIndexes_sorted c c.indexes t t1 hd hs)

theorem update_sorted {kv : KV} {f : Fault} {g : Tx → Except Err Tx} (hs : Sorted kv)
    (hg : ∀ t t', g t = .ok t' → Sorted t.kv → Sorted t'.kv) : Sorted (update kv f g).1 := by
  rcases update_cases kv f g with ⟨t, h1, _, h2⟩ | ⟨t, _, _, h2⟩ | ⟨e, _, h2⟩
  · rw [h2]; exact hg _ t h1 hs
  · rw [h2]; exact hs
  · rw [h2]; exact hs

/-- **Every API call keeps the bucket sorted** (whatever the configuration, the arguments and the fault). -/
theorem step_sorted (c : Cfg) (kv : KV) (op : Op) (hs : Sorted kv) : Sorted (step c kv op).1 := by
  cases op with
  | create o f => exact update_sorted hs (fun t t' h => putTx_sorted c o _ _ t t' h)
  | put o f => exact update_sorted hs (fun t t' h => putTx_sorted c o _ _ t t' h)
  | replace o f => exact update_sorted hs (fun t t' h => putTx_sorted c o _ _ t t' h)
  | delete id f => exact update_sorted hs (fun t t' h => deleteTx_sorted c id t t' h)
  | rebuild f => exact update_sorted hs (fun t t' h => rebuildTx_sorted c t t' h)
  | reopen => exact hs

theorem runFrom_sorted (c : Cfg) : ∀ (ops : List Op) (kv : KV), Sorted kv → Sorted (runFrom c kv ops) := by
  intro ops
  induction ops with
  | nil => intro kv hs; exact hs
  | cons op rest ih => intro kv hs; exact ih _ (step_sorted c kv op hs)

theorem run_sorted (c : Cfg) (ops : List Op) : Sorted (run c ops) :=
  runFrom_sorted c ops [] List.Pairwise.nil


/-! ### The directory of an index -/

theorem joinSlash_append (A B : List Str) : joinSlash (A ++ B) = joinSlash A ++ joinSlash B := by
  induction A with
  | nil => rfl
  | cons a r ih => simp [joinSlash, ih]

/-- The common prefix of all entries of index `name`. -/
def idxBase (c : Cfg) (name : Str) : Str := joinSlash [c.pfx, indexesSeg, name]

theorem indexDir_wf (c : Cfg) (hp : WFseg c.pfx = true) (name : Str) (hn : WFseg name = true) :
    indexDir c name = idxBase c name ++ ['/'] := by
  have hne : name ≠ [] := (WFseg_iff.mp hn).1
  unfold indexDir indexKey pathJoin
  rw [indexesPrefix_wf c hp]
  have : List.filter (fun e => decide (e ≠ [])) [joinSlash [c.pfx, indexesSeg], name, []]
      = [joinSlash [c.pfx, indexesSeg], name] := by
    simp [List.filter, hne, joinSlash]
  rw [this]
  simp only [intercalateSlash]
  have e : joinSlash [c.pfx, indexesSeg] ++ '/' :: name = joinSlash [c.pfx, indexesSeg, name] := by simp [joinSlash]
  rw [e, pathClean_joinSlash _ (by
    intro s hs; simp at hs
    rcases hs with rfl | rfl | rfl
    · exact hp
    · exact wf_indexesSeg
    · exact hn) (by simp)]
  rfl

theorem ikey_split (c : Cfg) (hp : WFseg c.pfx = true) (i : Index) (hn : WFseg i.name = true) (o : Obj)
    (hsegs : ∀ s ∈ i.segs o, WFseg s = true) :
    ikey c i o = idxBase c i.name ++ joinSlash (i.segs o) := by
  rw [ikey_wf c hp i hn o hsegs, joinSlash_append]; rfl

theorem noslash_prefix_eq : ∀ (a b x y : Str), NoSlash a → NoSlash b → a ++ '/' :: x <+: b ++ '/' :: y → a = b := by
  intro a
  induction a with
  | nil =>
    intro b x y _ hb h
    cases b with
    | nil => rfl
    | cons d b' =>
      have := (List.cons_prefix_cons.mp h).1
      exact absurd (this ▸ List.mem_cons_self) hb
  | cons ch a' ih =>
    intro b x y ha hb h
    cases b with
    | nil =>
      have := (List.cons_prefix_cons.mp h).1
      exact absurd (this ▸ List.mem_cons_self) ha
    | cons d b' =>
      obtain ⟨h1, h2⟩ := List.cons_prefix_cons.mp h
      rw [h1, ih b' x y (fun hm => ha (List.mem_cons_of_mem _ hm)) (fun hm => hb (List.mem_cons_of_mem _ hm)) h2]

theorem segs_ne_nil (i : Index) (o : Obj) : i.segs o ≠ [] := by
  unfold Index.segs
  split
  · exact splitSlash_ne_nil _
  · intro h; exact splitSlash_ne_nil _ (List.append_eq_nil_iff.mp h).1

theorem joinSlash_cons_form {L : List Str} (h : L ≠ []) : ∃ r, joinSlash L = '/' :: r := by
  cases L with
  | nil => exact absurd rfl h
  | cons a r => exact ⟨a ++ joinSlash r, rfl⟩

/-- An index entry lies in the directory of index `i` iff it is an entry of index `i`. -/
theorem dir_prefix_ikey {c : Cfg} (hc : c.wf = true) {i j : Index} (hi : i ∈ c.indexes) (hj : j ∈ c.indexes)
    {o : Obj} (ho : c.wfObj o = true) : (indexDir c i.name <+: ikey c j o) ↔ i = j := by
  obtain ⟨hp, hnames, hnd⟩ := wf_iff.mp hc
  rw [indexDir_wf c hp i.name (hnames i hi), ikey_split c hp j (hnames j hj) o (segs_wf ho hj)]
  obtain ⟨r, hr⟩ := joinSlash_cons_form (segs_ne_nil j o)
  rw [hr]
  constructor
  · intro h
    have e1 : ∀ n : Str, idxBase c n = joinSlash [c.pfx, indexesSeg] ++ '/' :: n := by intro n; simp [idxBase, joinSlash]
    rw [e1, e1, List.append_assoc, List.append_assoc, List.prefix_append_right_inj] at h
    have h' : i.name ++ '/' :: [] <+: j.name ++ '/' :: r := by simpa using (List.cons_prefix_cons.mp h).2
    exact eq_of_name_eq hnd hi hj
      (noslash_prefix_eq _ _ _ _ (WFseg_iff.mp (hnames i hi)).2.1 (WFseg_iff.mp (hnames j hj)).2.1 h')
  · intro h
    subst h
    exact (List.prefix_append_right_inj _).mpr (List.cons_prefix_cons.mpr ⟨rfl, List.nil_prefix⟩)

theorem dir_not_prefix_data {c : Cfg} (hc : c.wf = true) {i : Index} (hi : i ∈ c.indexes) (id : Str) :
    ¬ (indexDir c i.name <+: dataKey c id) := by
  obtain ⟨hp, hnames, _⟩ := wf_iff.mp hc
  rw [indexDir_wf c hp i.name (hnames i hi)]
  unfold dataKey
  rw [dataPrefix_wf c hp]
  intro h
  simp only [idxBase, joinSlash, List.cons_append, List.append_assoc, List.nil_append] at h
  have h2 := (List.cons_prefix_cons.mp h).2
  rw [List.prefix_append_right_inj] at h2
  have h3 := (List.cons_prefix_cons.mp h2).2
  simp [indexesSeg, dataSeg] at h3

/-! ### Order of the entries of one index -/

theorem keyLt_of_ikey_lt {c : Cfg} (hc : c.wf = true) {i : Index} (hi : i ∈ c.indexes) {a b : Obj}
    (ha : c.wfObj a = true) (hb : c.wfObj b = true)
    (hcp : i.unique = false → lowSepPair (i.sel.get a) (i.sel.get b) = false ∧ lowSepPair (i.sel.get b) (i.sel.get a) = false)
    (h : ikey c i a < ikey c i b) : keyLt (idxKey i.sel a) (idxKey i.sel b) = true := by
  obtain ⟨hp, hnames, _⟩ := wf_iff.mp hc
  rw [ikey_split c hp i (hnames i hi) a (segs_wf ha hi), ikey_split c hp i (hnames i hi) b (segs_wf hb hi),
    append_lt_append_left] at h
  have j2 : ∀ x y : Str, joinSlash (splitSlash x ++ splitSlash y) = '/' :: (x ++ '/' :: y) := by
    intro x y; rw [joinSlash_append, joinSlash_splitSlash, joinSlash_splitSlash]; rfl
  unfold Index.segs at h
  unfold keyLt idxKey
  cases hu : i.unique with
  | true =>
    rw [hu] at h
    simp only [↓reduceIte, joinSlash_splitSlash] at h
    rw [List.cons_lt_cons_iff] at h
    rcases h with h | ⟨_, h⟩
    · exact absurd h (Char.lt_irrefl _)
    · simp [h]
  | false =>
    rw [hu] at h
    simp only [Bool.false_eq_true, ↓reduceIte, j2] at h
    rw [List.cons_lt_cons_iff] at h
    obtain ⟨hsa', hsb'⟩ := hcp hu
    rcases h with h | ⟨_, h⟩
    · exact absurd h (Char.lt_irrefl _)
    · rcases (composite_lt_iff_compat _ _ _ _ hsa' hsb').mp h with h | ⟨h1, h2⟩
      · simp [h]
      · simp [h1, h2]

/-! ### The listing -/

/-- The directory of the index resolves to the objects `L` (in directory order). -/
def Resolves (c : Cfg) (kv : KV) (index : Str) (L : List Obj) : Prop :=
  indexIds c kv index false = L.map (fun o => some o.id) ∧ ∀ o ∈ L, kvGet kv (dataKey c o.id) = some (.obj o)


theorem nolimitAux (ids : List Str) : doListFunc ids (matchFn []) 0 (ids.length : Int) = ids := by
  have h := doListFunc_eq ids (matchFn []) 0 ids.length
  simp only [Int.natCast_zero] at h
  rw [h]
  have : ids.filter (matchFn []) = ids := by
    apply List.filter_eq_self.mpr
    intro a _; simp [matchFn]
  rw [this]; simp

def entryOf (c : Cfg) (i : Index) (o : Obj) : Str × Val := (ikey c i o, .ref o.id)

theorem exists_preimage {α β : Type} (f : α → β) (Q : α → Prop) :
    ∀ (E : List β), (∀ e ∈ E, ∃ o, Q o ∧ e = f o) → ∃ L : List α, L.map f = E ∧ ∀ o ∈ L, Q o := by
  intro E
  induction E with
  | nil => intro _; exact ⟨[], rfl, by simp⟩
  | cons e r ih =>
    intro h
    obtain ⟨o, hq, he⟩ := h e List.mem_cons_self
    obtain ⟨L, hL, hQ⟩ := ih (fun x hx => h x (List.mem_cons_of_mem _ hx))
    refine ⟨o :: L, by simp [hL, he], ?_⟩
    intro x hx
    rcases List.mem_cons.mp hx with rfl | hx
    · exact hq
    · exact hQ x hx

theorem fetch_ids (c : Cfg) (kv : KV) : ∀ (L : List Obj), (∀ o ∈ L, kvGet kv (dataKey c o.id) = some (.obj o)) →
    fetch c kv (L.map (·.id)) = .ok L := by
  intro L
  induction L with
  | nil => intro _; rfl
  | cons o r ih =>
    intro h
    simp only [List.map_cons, fetch, h o List.mem_cons_self, ih (fun x hx => h x (List.mem_cons_of_mem _ hx))]

theorem lowSepDev_false {i : Index} {m : Abs} (h : lowSepDev i m = false) (hu : i.unique = false) :
    ∀ a ∈ m, ∀ b ∈ m, lowSepPair (i.sel.get a) (i.sel.get b) = false := by
  intro a ha b hb
  simp only [lowSepDev, hu, Bool.not_false, Bool.true_and] at h
  have h1 := List.any_eq_false.mp h a ha
  have h2 := List.any_eq_false.mp (by simpa using h1) b hb
  simpa using h2

/-- Sufficient for being outside the deviation: every stored value of the index is free of bytes ≤ '/'. -/
theorem lowSepDev_of_sepSafe {i : Index} {m : Abs} (h : ∀ o ∈ m, i.wfObj o = true) : lowSepDev i m = false := by
  cases hu : i.unique with
  | true => simp [lowSepDev, hu]
  | false =>
    simp only [lowSepDev, hu, Bool.not_false, Bool.true_and]
    apply List.any_eq_false.mpr
    intro a _
    simp only [Bool.not_eq_true]
    apply List.any_eq_false.mpr
    intro b hb
    have := h b hb
    simp only [Index.wfObj, hu, Bool.false_or] at this
    simp [lowSepPair_of_sepSafe _ _ this]

/-- **Under the invariant, on a sorted bucket, the unbounded listing of an index is THE listing of the stored
objects: exactly the stored objects, each once, ascending by (value, id)** — whenever the stored values of the
index are outside the deviation `index-order-separator` (`lowSepDev`). -/
theorem listing_of_inv {c : Cfg} (hc : c.wf = true) {P : Obj → Prop} (hPw : ∀ o, P o → c.wfObj o = true)
    {kv : KV} {m : Abs} (hi : Inv c P kv m) (hs : Sorted kv) (i : Index) (hi' : i ∈ c.indexes)
    (hdev : lowSepDev i m = false) :
    ∃ l, Resolves c kv i.name l ∧ IsListing i.sel m l := by
  let dir := indexDir c i.name
  let E := kv.filter (fun e => dir.isPrefixOf e.1)
  have hE : kvList kv dir = E := kvList_eq_filter dir kv hs
  -- every entry of the directory is the entry of a stored object
  have hall : ∀ e ∈ E, ∃ o, o ∈ m ∧ e = entryOf c i o := by
    intro e he
    obtain ⟨hmem, hpre⟩ := List.mem_filter.mp he
    rw [List.isPrefixOf_iff_prefix] at hpre
    have hget : kvGet kv e.1 = some e.2 := kvGet_of_mem hs (by cases e; exact hmem)
    rcases hi.only e.1 e.2 hget with ⟨o, _, hk, _⟩ | ⟨o, hm, j, hj, hk, hv⟩
    · exact absurd (hk ▸ hpre) (dir_not_prefix_data hc hi' o.id)
    · have hij : i = j := (dir_prefix_ikey hc hi' hj (hPw o (hi.wf o hm))).mp (hk ▸ hpre)
      subst hij
      exact ⟨o, hm, by cases e; simp only [entryOf] at hk hv ⊢; rw [hk, hv]⟩
  obtain ⟨L, hL, hLm⟩ := exists_preimage (entryOf c i) (fun o => o ∈ m) E hall
  -- every stored object has its entry there
  have hin : ∀ o ∈ m, entryOf c i o ∈ E := by
    intro o ho
    apply List.mem_filter.mpr
    refine ⟨kvGet_mem (hi.index o ho i hi'), ?_⟩
    rw [List.isPrefixOf_iff_prefix]
    exact (dir_prefix_ikey hc hi' hi' (hPw o (hi.wf o ho))).mpr rfl
  refine ⟨L, ?_, ?_, ?_⟩
  · -- the directory resolves to `L`
    refine ⟨?_, fun o ho => hi.data o (hLm o ho)⟩
    unfold indexIds
    simp only [Bool.false_eq_true, ↓reduceIte]
    rw [show kvList kv (indexDir c i.name) = E from hE, ← hL, List.map_map]
    apply List.map_congr_left
    intro o _; rfl
  · -- ascending by (value, id)
    have hEs : E.Pairwise (fun a b => a.1 < b.1) := List.Pairwise.sublist List.filter_sublist hs
    rw [← hL, List.pairwise_map] at hEs
    refine List.Pairwise.imp_of_mem ?_ hEs
    intro a b ha hb hlt
    have pa := hi.wf a (hLm a ha)
    have pb := hi.wf b (hLm b hb)
    exact keyLt_of_ikey_lt hc hi' (hPw a pa) (hPw b pb)
      (fun hu => ⟨lowSepDev_false hdev hu a (hLm a ha) b (hLm b hb), lowSepDev_false hdev hu b (hLm b hb) a (hLm a ha)⟩) hlt
  · intro o
    constructor
    · exact hLm o
    · intro ho
      have := hin o ho
      rw [← hL] at this
      obtain ⟨o', ho', he⟩ := List.mem_map.mp this
      have hid : o'.id = o.id := by
        have := congrArg Prod.snd he
        simpa [entryOf] using this
      rw [← hi.ids o' (hLm o' ho') o ho hid]; exact ho'


theorem KeysOK.mono {c : Cfg} {P Q : Obj → Prop} (h : KeysOK c P) (hq : ∀ o, Q o → P o) : KeysOK c Q :=
  ⟨h.nodup, h.data_inj, fun id i o hi ho => h.data_ne_index id i o hi (hq o ho),
   fun i j a b hi hj ha hb => h.index_inj i j a b hi hj (hq a ha) (hq b hb)⟩

/-- **`List`/`ReverseList` with any pattern, offset and limit is the corresponding page of the directory listing.** -/
theorem list_page_of_resolves {c : Cfg} {kv : KV} {index : Str} {L : List Obj} (h : Resolves c kv index L)
    (pat : Str) (off : Nat) (lim : Int) (rev : Bool) :
    list c kv index pat (off : Int) lim rev
      = .ok (specPage (if rev then L.reverse else L) (matchFn pat) (off : Int) lim) := by
  obtain ⟨hids, hdata⟩ := h
  have hrev : indexIds c kv index rev = (if rev then L.reverse else L).map (fun o => some o.id) := by
    unfold indexIds at hids ⊢
    simp only [Bool.false_eq_true, ↓reduceIte] at hids
    cases rev
    · simpa using hids
    · simp only [↓reduceIte, hids, List.map_reverse]
  generalize hL' : (if rev then L.reverse else L) = L' at hrev ⊢
  have hdata' : ∀ o ∈ L', kvGet kv (dataKey c o.id) = some (.obj o) := by
    intro o ho
    apply hdata
    rw [← hL'] at ho
    cases rev
    · simpa using ho
    · simpa using ho
  unfold list
  rw [hrev]
  have hany : (L'.map (fun o => some o.id)).any (·.isNone) = false := by simp
  have hfm : (L'.map (fun o => some o.id)).filterMap id = L'.map (·.id) := by simp [List.filterMap_map]
  simp only [hany, Bool.false_eq_true, ↓reduceIte, hfm]
  have hsub : ∀ (S : List Obj), (∀ o ∈ S, o ∈ L') → fetch c kv (S.map (·.id)) = .ok S :=
    fun S hS => fetch_ids c kv S (fun o ho => hdata' o (hS o ho))
  have hfilter : (L'.map (·.id)).filter (matchFn pat) = (L'.filter (fun o => matchFn pat o.id)).map (·.id) := by
    rw [List.filter_map]; rfl
  unfold specPage
  simp only [Int.toNat_natCast]
  by_cases hl : lim < 0
  · simp only [hl, ↓reduceIte]
    have := doListFunc_eq (L'.map (·.id)) (matchFn pat) off (L'.map (·.id)).length
    rw [this, List.take_of_length_le (by
      have := List.length_filter_le (matchFn pat) (L'.map (·.id)); simp at this ⊢; omega),
      hfilter, ← List.map_drop]
    exact hsub _ (fun o ho => (List.mem_filter.mp (List.mem_of_mem_drop ho)).1)
  · simp only [hl, ↓reduceIte]
    have hlim : lim = ((lim.toNat : Nat) : Int) := by omega
    rw [hlim, doListFunc_eq, hfilter, ← List.map_drop, ← List.map_take]
    simp only [Int.toNat_natCast]
    exact hsub _ (fun o ho => (List.mem_filter.mp (List.mem_of_mem_drop (List.mem_of_mem_take ho))).1)

end Kap.C15
