/-
Helper lemmas for C15, part 5: order. The bucket stays sorted; on a sorted bucket the `Seek`/`Next`-while-`HasPrefix`
scan is the filter by prefix; `value ++ "/" ++ id` orders like the pair (value, id) when the value has no byte ≤ '/'.
-/
import Kap.Proofs.C15Keys
namespace Kap.C15

/-- Keys strictly ascending (what a Bolt bucket is). -/
def Sorted (kv : KV) : Prop := kv.Pairwise (fun a b => a.1 < b.1)

theorem str_tri {a b : Str} (h1 : ¬ a < b) (h2 : ¬ b < a) : a = b :=
  List.le_antisymm (List.not_lt.mp h2) (List.not_lt.mp h1)

theorem mem_kvPut {kv : KV} {k : Str} {v : Val} {e : Str × Val} (h : e ∈ kvPut kv k v) : e = (k, v) ∨ e ∈ kv := by
  induction kv with
  | nil => simp [kvPut] at h; exact Or.inl h
  | cons x r ih =>
    obtain ⟨k', v'⟩ := x
    unfold kvPut at h
    split at h
    · rcases List.mem_cons.mp h with h | h
      · exact Or.inl h
      · exact Or.inr h
    · split at h
      · rcases List.mem_cons.mp h with h | h
        · exact Or.inl h
        · exact Or.inr (List.mem_cons_of_mem _ h)
      · rcases List.mem_cons.mp h with h | h
        · exact Or.inr (h ▸ List.mem_cons_self)
        · rcases ih h with h | h
          · exact Or.inl h
          · exact Or.inr (List.mem_cons_of_mem _ h)

theorem kvPut_sorted {kv : KV} (hs : Sorted kv) (k : Str) (v : Val) : Sorted (kvPut kv k v) := by
  induction kv with
  | nil => simp [kvPut, Sorted]
  | cons x r ih =>
    obtain ⟨k', v'⟩ := x
    have hs' := List.pairwise_cons.mp hs
    unfold kvPut
    split
    · rename_i hlt
      refine List.pairwise_cons.mpr ⟨?_, hs⟩
      intro e he
      rcases List.mem_cons.mp he with rfl | he
      · exact hlt
      · exact List.lt_trans hlt (hs'.1 e he)
    · split
      · rename_i heq
        refine List.pairwise_cons.mpr ⟨?_, hs'.2⟩
        intro e he
        rw [heq]; exact hs'.1 e he
      · rename_i hnlt hne
        have hgt : k' < k := by
          apply Classical.byContradiction
          intro h; exact hne (str_tri hnlt h)
        refine List.pairwise_cons.mpr ⟨?_, ih hs'.2⟩
        intro e he
        rcases mem_kvPut he with rfl | he
        · exact hgt
        · exact hs'.1 e he

theorem kvDel_sorted {kv : KV} (hs : Sorted kv) (k : Str) : Sorted (kvDel kv k) :=
  List.Pairwise.sublist List.filter_sublist hs

theorem kvGet_of_mem {kv : KV} (hs : Sorted kv) {k : Str} {v : Val} (h : (k, v) ∈ kv) : kvGet kv k = some v := by
  induction kv with
  | nil => cases h
  | cons x r ih =>
    obtain ⟨k', v'⟩ := x
    have hs' := List.pairwise_cons.mp hs
    unfold kvGet
    rcases List.mem_cons.mp h with heq | hr
    · cases heq; simp
    · have hlt : k' < k := hs'.1 (k, v) hr
      have hne : k' ≠ k := fun he => List.lt_irrefl k (he ▸ hlt)
      simp [hne, ih hs'.2 hr]

/-! ### Prefix scan -/

theorem not_lt_of_prefix : ∀ (p k : Str), p <+: k → ¬ k < p := by
  intro p
  induction p with
  | nil => intro k _; exact List.not_lt_nil k
  | cons c p' ih =>
    intro k hp hlt
    cases k with
    | nil => simp at hp
    | cons d k1 =>
      obtain ⟨hcd, hp'⟩ := List.cons_prefix_cons.mp hp
      subst hcd
      rcases List.cons_lt_cons_iff.mp hlt with h | ⟨_, h⟩
      · exact Char.lt_irrefl _ h
      · exact ih k1 hp' h

theorem prefix_of_between : ∀ (p k k' : Str), p <+: k → k' < k → ¬ k' < p → p <+: k' := by
  intro p
  induction p with
  | nil => intro k k' _ _ _; exact List.nil_prefix
  | cons c p' ih =>
    intro k k' hp hlt hnlt
    cases k with
    | nil => simp at hp
    | cons d k1 =>
      obtain ⟨hcd, hp'⟩ := List.cons_prefix_cons.mp hp
      subst hcd
      cases k' with
      | nil => exact absurd (List.nil_lt_cons _ _) hnlt
      | cons e k1' =>
        rw [List.cons_lt_cons_iff] at hlt hnlt
        rcases hlt with h | ⟨he, h⟩
        · exact absurd (Or.inl h) hnlt
        · subst he
          have : ¬ k1' < p' := fun h' => hnlt (Or.inr ⟨rfl, h'⟩)
          exact List.cons_prefix_cons.mpr ⟨rfl, ih k1 k1' hp' h this⟩

theorem takeWhile_prefix_eq_filter (p : Str) : ∀ (l : KV), Sorted l → (∀ e ∈ l, ¬ e.1 < p) →
    l.takeWhile (fun e => p.isPrefixOf e.1) = l.filter (fun e => p.isPrefixOf e.1) := by
  intro l
  induction l with
  | nil => intro _ _; rfl
  | cons x r ih =>
    intro hs hge
    have hs' := List.pairwise_cons.mp hs
    by_cases hx : p.isPrefixOf x.1 = true
    · simp only [List.takeWhile_cons, List.filter_cons, hx, ↓reduceIte]
      rw [ih hs'.2 (fun e he => hge e (List.mem_cons_of_mem _ he))]
    · simp only [List.takeWhile_cons, List.filter_cons, hx, ↓reduceIte]
      symm
      apply List.filter_eq_nil_iff.mpr
      intro e he hpe
      apply hx
      rw [List.isPrefixOf_iff_prefix] at hpe ⊢
      exact prefix_of_between p e.1 x.1 hpe (hs'.1 e he) (hge x List.mem_cons_self)

/-- **On a sorted bucket `Bolt.list` (Seek, then Next while HasPrefix) returns exactly the entries whose key has
the prefix, in key order.** -/
theorem kvList_eq_filter (p : Str) : ∀ (kv : KV), Sorted kv →
    kvList kv p = kv.filter (fun e => p.isPrefixOf e.1) := by
  intro kv
  induction kv with
  | nil => intro _; rfl
  | cons x r ih =>
    intro hs
    have hs' := List.pairwise_cons.mp hs
    unfold kvList
    by_cases hx : x.1 < p
    · have hd : decide (x.1 < p) = true := by simpa using hx
      have hnp : ¬ p.isPrefixOf x.1 = true := by
        rw [List.isPrefixOf_iff_prefix]
        intro hp; exact not_lt_of_prefix p x.1 hp hx
      simp only [List.dropWhile_cons, hd, ↓reduceIte, List.filter_cons, hnp]
      exact ih hs'.2
    · have hd : ¬ decide (x.1 < p) = true := by simpa using hx
      simp only [List.dropWhile_cons, hd, ↓reduceIte]
      apply takeWhile_prefix_eq_filter p (x :: r) hs
      intro e he
      rcases List.mem_cons.mp he with rfl | he
      · exact hx
      · intro hlt; exact hx (List.lt_trans (hs'.1 e he) hlt)

/-! ### Order of composite keys -/

theorem append_lt_append_left : ∀ (p x y : Str), p ++ x < p ++ y ↔ x < y := by
  intro p
  induction p with
  | nil => intro x y; rfl
  | cons c p' ih =>
    intro x y
    simp only [List.cons_append, List.cons_lt_cons_iff, ih]
    constructor
    · rintro (h | ⟨_, h⟩)
      · exact absurd h (Char.lt_irrefl _)
      · exact h
    · intro h; exact Or.inr ⟨trivial, h⟩

theorem sepSafe_iff {s : Str} : SepSafe s = true ↔ ∀ ch ∈ s, '/' < ch := by
  simp [SepSafe]

/-- `va ++ "/" ++ a` orders like the pair (va, a) when the values have no byte ≤ '/'. -/
theorem composite_lt_iff : ∀ (va vb a b : Str), SepSafe va = true → SepSafe vb = true →
    (va ++ '/' :: a < vb ++ '/' :: b ↔ va < vb ∨ (va = vb ∧ a < b)) := by
  intro va
  induction va with
  | nil =>
    intro vb a b _ hb
    cases vb with
    | nil =>
      simp only [List.nil_append, List.cons_lt_cons_iff]
      constructor
      · rintro (h | ⟨_, h⟩)
        · exact absurd h (Char.lt_irrefl _)
        · exact Or.inr ⟨trivial, h⟩
      · rintro (h | ⟨_, h⟩)
        · exact absurd h (List.lt_irrefl _)
        · exact Or.inr ⟨trivial, h⟩
    | cons y vb' =>
      have hy : '/' < y := sepSafe_iff.mp hb y List.mem_cons_self
      simp only [List.nil_append, List.cons_append, List.cons_lt_cons_iff]
      constructor
      · intro _; exact Or.inl (List.nil_lt_cons _ _)
      · intro _; exact Or.inl hy
  | cons x va' ih =>
    intro vb a b ha hb
    have hx : '/' < x := sepSafe_iff.mp ha x List.mem_cons_self
    have ha' : SepSafe va' = true := sepSafe_iff.mpr (fun ch h => sepSafe_iff.mp ha ch (List.mem_cons_of_mem _ h))
    cases vb with
    | nil =>
      simp only [List.nil_append, List.cons_append, List.cons_lt_cons_iff]
      constructor
      · rintro (h | ⟨h, _⟩)
        · exact absurd h (Char.lt_asymm hx)
        · exact absurd hx (h ▸ Char.lt_irrefl _)
      · rintro (h | ⟨h, _⟩)
        · exact absurd h (List.not_lt_nil _)
        · cases h
    | cons y vb' =>
      have hb' : SepSafe vb' = true := sepSafe_iff.mpr (fun ch h => sepSafe_iff.mp hb ch (List.mem_cons_of_mem _ h))
      simp only [List.cons_append, List.cons_lt_cons_iff, ih vb' a b ha' hb', List.cons.injEq]
      constructor
      · rintro (h | ⟨hxy, h | ⟨hv, hab⟩⟩)
        · exact Or.inl (Or.inl h)
        · exact Or.inl (Or.inr ⟨hxy, h⟩)
        · exact Or.inr ⟨⟨hxy, hv⟩, hab⟩
      · rintro ((h | ⟨hxy, h⟩) | ⟨⟨hxy, hv⟩, hab⟩)
        · exact Or.inl h
        · exact Or.inr ⟨hxy, Or.inl h⟩
        · exact Or.inr ⟨hxy, Or.inr ⟨hv, hab⟩⟩

theorem lowSepPair_nil_cons (y : Char) (r : Str) : lowSepPair [] (y :: r) = false ↔ '/' < y := by
  simp only [lowSepPair, List.isPrefixOf, List.length_nil, List.drop_zero, Bool.true_and, Bool.or_eq_false_iff,
    decide_eq_false_iff_not, beq_eq_false_iff_ne, ne_eq]
  constructor
  · rintro ⟨h1, h2⟩
    rcases Nat.lt_trichotomy y.val.toNat '/'.val.toNat with h | h | h
    · exact absurd (by exact Char.lt_def.mpr (by exact UInt32.lt_iff_toNat_lt.mpr h)) h1
    · exact absurd (Char.ext (UInt32.toNat_inj.mp h)) h2
    · exact Char.lt_def.mpr (UInt32.lt_iff_toNat_lt.mpr h)
  · intro h
    exact ⟨Char.lt_asymm h, fun he => by rw [he] at h; exact Char.lt_irrefl _ h⟩

theorem lowSepPair_cons_cons (x : Char) (a b : Str) : lowSepPair (x :: a) (x :: b) = lowSepPair a b := by
  simp [lowSepPair, List.isPrefixOf]

/-- `va ++ "/" ++ a` orders like the pair (va, a) EXACTLY when neither value is a proper prefix of the other
followed by a byte ≤ '/' (`lowSepPair`). -/
theorem composite_lt_iff_compat : ∀ (va vb a b : Str), lowSepPair va vb = false → lowSepPair vb va = false →
    (va ++ '/' :: a < vb ++ '/' :: b ↔ va < vb ∨ (va = vb ∧ a < b)) := by
  intro va
  induction va with
  | nil =>
    intro vb a b h1 _
    cases vb with
    | nil =>
      simp only [List.nil_append, List.cons_lt_cons_iff]
      constructor
      · rintro (h | ⟨_, h⟩)
        · exact absurd h (Char.lt_irrefl _)
        · exact Or.inr ⟨trivial, h⟩
      · rintro (h | ⟨_, h⟩)
        · exact absurd h (List.lt_irrefl _)
        · exact Or.inr ⟨trivial, h⟩
    | cons y vb' =>
      have hy : '/' < y := (lowSepPair_nil_cons y vb').mp h1
      simp only [List.nil_append, List.cons_append, List.cons_lt_cons_iff]
      constructor
      · intro _; exact Or.inl (List.nil_lt_cons _ _)
      · intro _; exact Or.inl hy
  | cons x va' ih =>
    intro vb a b h1 h2
    cases vb with
    | nil =>
      have hx : '/' < x := (lowSepPair_nil_cons x va').mp h2
      simp only [List.nil_append, List.cons_append, List.cons_lt_cons_iff]
      constructor
      · rintro (h | ⟨h, _⟩)
        · exact absurd h (Char.lt_asymm hx)
        · exact absurd hx (h ▸ Char.lt_irrefl _)
      · rintro (h | ⟨h, _⟩)
        · exact absurd h (List.not_lt_nil _)
        · cases h
    | cons y vb' =>
      by_cases hxy : x = y
      · subst hxy
        rw [lowSepPair_cons_cons] at h1 h2
        simp only [List.cons_append, List.cons_lt_cons_iff, ih vb' a b h1 h2, List.cons.injEq]
        constructor
        · rintro (h | ⟨hxy, h | ⟨hv, hab⟩⟩)
          · exact Or.inl (Or.inl h)
          · exact Or.inl (Or.inr ⟨hxy, h⟩)
          · exact Or.inr ⟨⟨hxy, hv⟩, hab⟩
        · rintro ((h | ⟨hxy, h⟩) | ⟨⟨hxy, hv⟩, hab⟩)
          · exact Or.inl h
          · exact Or.inr ⟨hxy, Or.inl h⟩
          · exact Or.inr ⟨hxy, Or.inr ⟨hv, hab⟩⟩
      · simp only [List.cons_append, List.cons_lt_cons_iff, List.cons.injEq]
        constructor
        · rintro (h | ⟨h, _⟩)
          · exact Or.inl (Or.inl h)
          · exact absurd h hxy
        · rintro ((h | ⟨h, _⟩) | ⟨⟨h, _⟩, _⟩)
          · exact Or.inl h
          · exact absurd h hxy
          · exact absurd h hxy

/-- A value without a byte ≤ '/' is never the longer half of a low-separator pair. -/
theorem lowSepPair_of_sepSafe : ∀ (a b : Str), SepSafe b = true → lowSepPair a b = false := by
  intro a
  induction a with
  | nil =>
    intro b hb
    cases b with
    | nil => simp [lowSepPair]
    | cons y r => exact (lowSepPair_nil_cons y r).mpr (sepSafe_iff.mp hb y List.mem_cons_self)
  | cons x a' ih =>
    intro b hb
    cases b with
    | nil => simp [lowSepPair, List.isPrefixOf]
    | cons y r =>
      by_cases hxy : x = y
      · subst hxy
        rw [lowSepPair_cons_cons]
        exact ih r (sepSafe_iff.mpr (fun ch h => sepSafe_iff.mp hb ch (List.mem_cons_of_mem _ h)))
      · simp [lowSepPair, List.isPrefixOf, hxy]

end Kap.C15
