/-
Helper lemmas for C15, part 7: `RebuildTx` (delete every index directory, re-create every entry from the data area)
leaves a bucket that satisfies the invariant exactly as it was; the only way it can fail is an injected fault.
-/
import Kap.Proofs.C15Listing
namespace Kap.C15

/-! ### Two sorted buckets with the same content are equal -/

theorem kvGet_none_of_lt {r : KV} {k : Str} (h : ∀ e ∈ r, k < e.1) : kvGet r k = none := by
  induction r with
  | nil => rfl
  | cons x r ih =>
    obtain ⟨k', v'⟩ := x
    have hlt : k < k' := h (k', v') List.mem_cons_self
    have hne : k' ≠ k := fun he => List.lt_irrefl k (he ▸ hlt)
    simp [kvGet, hne, ih (fun e he => h e (List.mem_cons_of_mem _ he))]

theorem sorted_ext : ∀ (a b : KV), Sorted a → Sorted b → (∀ k, kvGet a k = kvGet b k) → a = b := by
  intro a
  induction a with
  | nil =>
    intro b _ _ h
    cases b with
    | nil => rfl
    | cons y r => obtain ⟨k, v⟩ := y; have := h k; simp [kvGet] at this
  | cons x r1 ih =>
    intro b ha hb h
    obtain ⟨k1, v1⟩ := x
    have ha' := List.pairwise_cons.mp ha
    cases b with
    | nil => have := h k1; simp [kvGet] at this
    | cons y r2 =>
      obtain ⟨k2, v2⟩ := y
      have hb' := List.pairwise_cons.mp hb
      have hk : k1 = k2 := by
        apply str_tri
        · intro hlt
          have h1 := h k1
          have : kvGet ((k2, v2) :: r2) k1 = none :=
            kvGet_none_of_lt (by
              intro e he
              rcases List.mem_cons.mp he with rfl | he
              · exact hlt
              · exact List.lt_trans hlt (hb'.1 e he))
          rw [this] at h1; simp [kvGet] at h1
        · intro hlt
          have h1 := h k2
          have : kvGet ((k1, v1) :: r1) k2 = none :=
            kvGet_none_of_lt (by
              intro e he
              rcases List.mem_cons.mp he with rfl | he
              · exact hlt
              · exact List.lt_trans hlt (ha'.1 e he))
          rw [this] at h1; simp [kvGet] at h1
      subst hk
      have hv : v1 = v2 := by have := h k1; simpa [kvGet] using this
      subst hv
      have htail : ∀ k, kvGet r1 k = kvGet r2 k := by
        intro k
        by_cases hkk : k1 = k
        · subst hkk
          rw [kvGet_none_of_lt ha'.1, kvGet_none_of_lt hb'.1]
        · have := h k
          simpa [kvGet, hkk] using this
      rw [ih r2 ha'.2 hb'.2 htail]

/-! ### Phase 1: the index directories are emptied -/

theorem deleteKeys_get : ∀ (ks : List Str) (t t' : Tx), deleteKeys ks t = .ok t' →
    ∀ k, kvGet t'.kv k = if k ∈ ks then none else kvGet t.kv k := by
  intro ks
  induction ks with
  | nil => intro t t' h k; simp [deleteKeys] at h; subst h; simp
  | cons k0 rest ih =>
    intro t t' h k
    unfold deleteKeys at h
    cases hd : t.delete k0 with
    | error e => rw [hd] at h; simp at h
    | ok t1 =>
      rw [hd] at h
      rw [ih t1 t' h k, (Tx.delete_ok hd).1, kvGet_del]
      by_cases h1 : k ∈ rest <;> by_cases h2 : k0 = k <;> simp [h1, h2, eq_comm]

def inDirs (c : Cfg) (L : List Index) (k : Str) : Bool := L.any (fun i => (indexDir c i.name).isPrefixOf k)

theorem deleteDir_get {t t' : Tx} {dir : Str} (hs : Sorted t.kv)
    (h : deleteKeys ((kvList t.kv dir).map (·.1)) t = .ok t') :
    ∀ k, kvGet t'.kv k = if dir.isPrefixOf k then none else kvGet t.kv k := by
  intro k
  rw [deleteKeys_get _ t t' h k, kvList_eq_filter dir t.kv hs]
  by_cases hp : dir.isPrefixOf k = true
  · simp only [hp, ↓reduceIte]
    split
    · rfl
    · rename_i hnot
      cases hg : kvGet t.kv k with
      | none => rfl
      | some v =>
        exfalso
        apply hnot
        exact List.mem_map.mpr ⟨(k, v), List.mem_filter.mpr ⟨kvGet_mem hg, hp⟩, rfl⟩
  · simp only [hp, Bool.false_eq_true, ↓reduceIte]
    split
    · rename_i hin
      obtain ⟨e, he, hek⟩ := List.mem_map.mp hin
      have := (List.mem_filter.mp he).2
      rw [hek] at this
      exact absurd this hp
    · rfl

theorem deleteIndexes_get (c : Cfg) : ∀ (L : List Index) (t t' : Tx), deleteIndexes c L t = .ok t' → Sorted t.kv →
    ∀ k, kvGet t'.kv k = if inDirs c L k then none else kvGet t.kv k := by
  intro L
  induction L with
  | nil => intro t t' h _ k; simp [deleteIndexes] at h; subst h; simp [inDirs]
  | cons idx rest ih =>
    intro t t' h hs k
    unfold deleteIndexes at h
    cases hd : deleteKeys ((kvList t.kv (indexDir c idx.name)).map (·.1)) t with
    | error e => rw [hd] at h; simp at h
    | ok t1 =>
      rw [hd] at h
      rw [ih t1 t' h (deleteKeys_sorted _ t t1 hd hs) k, deleteDir_get hs hd k]
      simp only [inDirs, List.any_cons]
      by_cases h1 : (indexDir c idx.name).isPrefixOf k = true <;>
        by_cases h2 : (rest.any fun i => (indexDir c i.name).isPrefixOf k) = true <;> simp [h1, h2]

theorem deleteKeys_err : ∀ (ks : List Str) (t : Tx) (e : Err), deleteKeys ks t = .error e →
    e = .io ∧ t.failAt.isSome = true := by
  intro ks
  induction ks with
  | nil => intro t e h; simp [deleteKeys] at h
  | cons k0 rest ih =>
    intro t e h
    unfold deleteKeys at h
    cases hd : t.delete k0 with
    | error e' => rw [hd] at h; simp only at h; cases h; exact Tx.delete_err hd
    | ok t1 => rw [hd] at h; rw [← (Tx.delete_ok hd).2]; exact ih t1 e h

theorem deleteKeys_failAt : ∀ (ks : List Str) (t t' : Tx), deleteKeys ks t = .ok t' → t'.failAt = t.failAt := by
  intro ks
  induction ks with
  | nil => intro t t' h; simp [deleteKeys] at h; subst h; rfl
  | cons k0 rest ih =>
    intro t t' h
    unfold deleteKeys at h
    cases hd : t.delete k0 with
    | error e => rw [hd] at h; simp at h
    | ok t1 => rw [hd] at h; rw [ih t1 t' h, (Tx.delete_ok hd).2]

theorem deleteIndexes_err (c : Cfg) : ∀ (L : List Index) (t : Tx) (e : Err), deleteIndexes c L t = .error e →
    e = .io ∧ t.failAt.isSome = true := by
  intro L
  induction L with
  | nil => intro t e h; simp [deleteIndexes] at h
  | cons idx rest ih =>
    intro t e h
    unfold deleteIndexes at h
    cases hd : deleteKeys ((kvList t.kv (indexDir c idx.name)).map (·.1)) t with
    | error e' => rw [hd] at h; simp only at h; cases h; exact deleteKeys_err _ t _ hd
    | ok t1 => rw [hd] at h; rw [← deleteKeys_failAt _ t t1 hd]; exact ih t1 e h

theorem deleteIndexes_failAt (c : Cfg) : ∀ (L : List Index) (t t' : Tx), deleteIndexes c L t = .ok t' →
    t'.failAt = t.failAt := by
  intro L
  induction L with
  | nil => intro t t' h; simp [deleteIndexes] at h; subst h; rfl
  | cons idx rest ih =>
    intro t t' h
    unfold deleteIndexes at h
    cases hd : deleteKeys ((kvList t.kv (indexDir c idx.name)).map (·.1)) t with
    | error e => rw [hd] at h; simp at h
    | ok t1 => rw [hd] at h; rw [ih t1 t' h, deleteKeys_failAt _ t t1 hd]

/-! ### Phase 2: every entry is re-created from the data area -/

theorem putAllIndexes_get (c : Cfg) (o : Obj) : ∀ (L : List Index) (t t' : Tx), putAllIndexes c o L t = .ok t' →
    ∀ k, kvGet t'.kv k = if k ∈ newKeys c o L then some (.ref o.id) else kvGet t.kv k := by
  intro L
  induction L with
  | nil => intro t t' h k; simp [putAllIndexes] at h; subst h; simp [newKeys]
  | cons idx rest ih =>
    intro t t' h k
    unfold putAllIndexes at h
    cases hp : t.put (indexKey c idx.name (idx.valueOf o)) (.ref o.id) with
    | error e => rw [hp] at h; simp at h
    | ok t1 =>
      rw [hp] at h
      rw [ih t1 t' h k, (Tx.put_ok hp).1, kvGet_put]
      simp only [newKeys, List.map_cons, List.mem_cons, @eq_comm _ k]
      exact ite_aux_create _ _ _ _

theorem putAllIndexes_err (c : Cfg) (o : Obj) : ∀ (L : List Index) (t : Tx) (e : Err), NoBucket t.kv →
    putAllIndexes c o L t = .error e → e = .io ∧ t.failAt.isSome = true := by
  intro L
  induction L with
  | nil => intro t e _ h; simp [putAllIndexes] at h
  | cons idx rest ih =>
    intro t e hnb h
    unfold putAllIndexes at h
    cases hp : t.put (indexKey c idx.name (idx.valueOf o)) (.ref o.id) with
    | error e' => rw [hp] at h; simp only at h; cases h; exact Tx.put_err hnb hp
    | ok t1 =>
      rw [hp] at h
      rw [← (Tx.put_ok hp).2]
      exact ih t1 e (by rw [(Tx.put_ok hp).1]; exact hnb.put _ (by simp)) h

theorem putAllIndexes_failAt (c : Cfg) (o : Obj) : ∀ (L : List Index) (t t' : Tx), putAllIndexes c o L t = .ok t' →
    t'.failAt = t.failAt := by
  intro L
  induction L with
  | nil => intro t t' h; simp [putAllIndexes] at h; subst h; rfl
  | cons idx rest ih =>
    intro t t' h
    unfold putAllIndexes at h
    cases hp : t.put (indexKey c idx.name (idx.valueOf o)) (.ref o.id) with
    | error e => rw [hp] at h; simp at h
    | ok t1 => rw [hp] at h; rw [ih t1 t' h, (Tx.put_ok hp).2]

/-- The state in the middle of the rebuild: a sub-map of the original bucket `G` that has all data entries and the
index entries of the objects processed so far (`S`). -/
structure Mid (c : Cfg) (m : Abs) (G : Str → Option Val) (S : List Obj) (kv : KV) : Prop where
  sub : ∀ k, kvGet kv k = G k ∨ kvGet kv k = none
  data : ∀ o ∈ m, kvGet kv (dataKey c o.id) = G (dataKey c o.id)
  done : ∀ o ∈ S, ∀ i ∈ c.indexes, kvGet kv (ikey c i o) = G (ikey c i o)

theorem Mid.noBucket {c : Cfg} {m : Abs} {G : Str → Option Val} {S : List Obj} {kv : KV} (h : Mid c m G S kv)
    (hG : ∀ k, G k ≠ some .bucket) : NoBucket kv := by
  intro k hk
  rcases h.sub k with h1 | h1
  · exact hG k (h1 ▸ hk)
  · rw [h1] at hk; cases hk

theorem mid_step {c : Cfg} {P : Obj → Prop} {kv0 : KV} {m : Abs} (hk : KeysOK c P) (hi : Inv c P kv0 m)
    {S : List Obj} {t t' : Tx} (hm : Mid c m (kvGet kv0) S t.kv) (o : Obj) (ho : o ∈ m)
    (h : putAllIndexes c o c.indexes t = .ok t') : Mid c m (kvGet kv0) (o :: S) t'.kv := by
  have hget := putAllIndexes_get c o c.indexes t t' h
  have hG : ∀ k, k ∈ newKeys c o c.indexes → kvGet kv0 k = some (.ref o.id) := by
    intro k hk'
    obtain ⟨j, hj, he⟩ := mem_newKeys.mp hk'
    rw [← he]; exact hi.index o ho j hj
  refine ⟨?_, ?_, ?_⟩
  · intro k
    rw [hget]
    split
    · rename_i hin; exact Or.inl (hG k hin).symm
    · exact hm.sub k
  · intro o' ho'
    rw [hget]
    have : dataKey c o'.id ∉ newKeys c o c.indexes := by
      intro hin
      obtain ⟨j, hj, he⟩ := mem_newKeys.mp hin
      exact hk.data_ne_index _ j o hj (hi.wf o ho) he.symm
    rw [if_neg this]; exact hm.data o' ho'
  · intro o' ho' i hi'
    rw [hget]
    split
    · rename_i hin; exact (hG _ hin).symm
    · rename_i hnot
      rcases List.mem_cons.mp ho' with rfl | hS
      · exact absurd (mem_newKeys.mpr ⟨i, hi', rfl⟩) hnot
      · exact hm.done o' hS i hi'

theorem rebuildData_mid {c : Cfg} {P : Obj → Prop} {kv0 : KV} {m : Abs} (hk : KeysOK c P) (hi : Inv c P kv0 m) :
    ∀ (D : KV) (S : List Obj) (t : Tx), (∀ e ∈ D, ∃ o ∈ m, e.2 = .obj o) → Mid c m (kvGet kv0) S t.kv →
      (∃ t' S', rebuildData c D t = .ok t' ∧ Mid c m (kvGet kv0) S' t'.kv ∧ t'.failAt = t.failAt ∧
          (∀ o, (∃ e ∈ D, e.2 = .obj o) → o ∈ S') ∧ ∀ o ∈ S, o ∈ S') ∨
      (rebuildData c D t = .error .io ∧ t.failAt.isSome = true) := by
  intro D
  induction D with
  | nil =>
    intro S t _ hm
    exact Or.inl ⟨t, S, rfl, hm, rfl, by simp, fun o ho => ho⟩
  | cons e rest ih =>
    intro S t hD hm
    obtain ⟨k, v⟩ := e
    obtain ⟨o, ho, hv⟩ := hD (k, v) List.mem_cons_self
    simp only at hv
    subst hv
    unfold rebuildData
    cases hp : putAllIndexes c o c.indexes t with
    | error e =>
      right
      obtain ⟨h1, h2⟩ := putAllIndexes_err c o c.indexes t e (hm.noBucket (fun k => hi.noBucket k)) hp
      subst h1; exact ⟨rfl, h2⟩
    | ok t1 =>
      simp only
      have hm1 := mid_step hk hi hm o ho hp
      have hf1 := putAllIndexes_failAt c o c.indexes t t1 hp
      rcases ih (o :: S) t1 (fun e he => hD e (List.mem_cons_of_mem _ he)) hm1 with
        ⟨t', S', h1, h2, h3, h4, h5⟩ | ⟨h1, h2⟩
      · left
        refine ⟨t', S', h1, h2, h3.trans hf1, ?_, fun x hx => h5 x (List.mem_cons_of_mem _ hx)⟩
        intro x hx
        obtain ⟨e, he, hev⟩ := hx
        rcases List.mem_cons.mp he with rfl | he
        · simp only at hev; cases hev; exact h5 _ List.mem_cons_self
        · exact h4 x ⟨e, he, hev⟩
      · right; exact ⟨h1, hf1 ▸ h2⟩

/-- **`RebuildTx` on a sorted bucket that satisfies the invariant either fails with the injected fault or leaves
exactly the same bucket.** -/
theorem rebuildTx_identity {c : Cfg} (hc : c.wf = true) {P : Obj → Prop} (hPw : ∀ o, P o → c.wfObj o = true)
    (hk : KeysOK c P) {kv : KV} {m : Abs} (hi : Inv c P kv m) (hs : Sorted kv) (t : Tx) (ht : t.kv = kv) :
    (∃ t', rebuildTx c t = .ok t' ∧ t'.kv = kv) ∨ (rebuildTx c t = .error .io ∧ t.failAt.isSome = true) := by
  unfold rebuildTx
  cases hd : deleteIndexes c c.indexes t with
  | error e =>
    right
    obtain ⟨h1, h2⟩ := deleteIndexes_err c c.indexes t e hd
    subst h1; exact ⟨rfl, h2⟩
  | ok t1 =>
    simp only
    have hs1 : Sorted t1.kv := deleteIndexes_sorted c c.indexes t t1 hd (ht ▸ hs)
    have hget1 : ∀ k, kvGet t1.kv k = if inDirs c c.indexes k then none else kvGet kv k := by
      intro k; rw [deleteIndexes_get c c.indexes t t1 hd (ht ▸ hs) k, ht]
    have hdataNot : ∀ id, inDirs c c.indexes (dataKey c id) = false := by
      intro id
      cases h : inDirs c c.indexes (dataKey c id) with
      | false => rfl
      | true =>
        obtain ⟨i, hi', hp⟩ := List.any_eq_true.mp h
        rw [List.isPrefixOf_iff_prefix] at hp
        exact absurd hp (dir_not_prefix_data hc hi' id)
    have hidxIn : ∀ o ∈ m, ∀ i ∈ c.indexes, inDirs c c.indexes (ikey c i o) = true := by
      intro o ho i hi'
      apply List.any_eq_true.mpr
      refine ⟨i, hi', ?_⟩
      rw [List.isPrefixOf_iff_prefix]
      exact (dir_prefix_ikey hc hi' hi' (hPw o (hi.wf o ho))).mpr rfl
    have hmid : Mid c m (kvGet kv) [] t1.kv := by
      refine ⟨?_, ?_, by intro o ho; cases ho⟩
      · intro k; rw [hget1]; split
        · exact Or.inr rfl
        · exact Or.inl rfl
      · intro o _; rw [hget1, hdataNot]; rfl
    -- the data area as listed
    have hD : ∀ e ∈ kvList t1.kv c.dataPrefix, ∃ o ∈ m, e.2 = .obj o := by
      intro e he
      rw [kvList_eq_filter _ _ hs1] at he
      have hmem := (List.mem_filter.mp he).1
      have hg : kvGet t1.kv e.1 = some e.2 := kvGet_of_mem hs1 (by cases e; exact hmem)
      rw [hget1] at hg
      split at hg
      · cases hg
      · rename_i hnd
        rcases hi.only e.1 e.2 hg with ⟨o, ho, _, hv⟩ | ⟨o, ho, i, hi', hk', _⟩
        · exact ⟨o, ho, hv⟩
        · exact absurd (hk' ▸ hidxIn o ho i hi') hnd
    have hcover : ∀ o ∈ m, ∃ e ∈ kvList t1.kv c.dataPrefix, e.2 = .obj o := by
      intro o ho
      refine ⟨(dataKey c o.id, .obj o), ?_, rfl⟩
      rw [kvList_eq_filter _ _ hs1]
      apply List.mem_filter.mpr
      refine ⟨kvGet_mem (by rw [hmid.data o ho]; exact hi.data o ho), ?_⟩
      rw [List.isPrefixOf_iff_prefix]
      exact List.prefix_append _ _
    rcases rebuildData_mid hk hi (kvList t1.kv c.dataPrefix) [] t1 hD hmid with
      ⟨t', S', h1, h2, _, h4, _⟩ | ⟨h1, h2⟩
    · left
      refine ⟨t', h1, ?_⟩
      apply sorted_ext _ _ (rebuildData_sorted c _ t1 t' h1 hs1) hs
      intro k
      cases hg : kvGet kv k with
      | none => rcases h2.sub k with h | h <;> rw [h]; exact hg
      | some v =>
        rcases hi.only k v hg with ⟨o, ho, hk', _⟩ | ⟨o, ho, i, hi', hk', _⟩
        · rw [hk', h2.data o ho, ← hk', hg]
        · rw [hk', h2.done o (h4 o (hcover o ho)) i hi', ← hk', hg]
    · right
      exact ⟨h1, (deleteIndexes_failAt c c.indexes t t1 hd) ▸ h2⟩


theorem update_rebuild_refines {c : Cfg} (hc : c.wf = true) {P : Obj → Prop} (hPw : ∀ o, P o → c.wfObj o = true)
    (hk : KeysOK c P) {kv : KV} {m : Abs} (hi : Inv c P kv m) (hs : Sorted kv) (f : Fault) :
    specStepCore m m none f (update kv f (fun t => rebuildTx c t)).2 = some m ∧
      (update kv f (fun t => rebuildTx c t)).1 = kv := by
  have hid := rebuildTx_identity hc hPw hk hi hs (beginTx kv f) rfl
  rcases update_cases kv f (fun t => rebuildTx c t) with ⟨t, hg, hcm, hup⟩ | ⟨t, hg, hcm, hup⟩ | ⟨e, hg, hup⟩
  · rw [hup]
    rcases hid with ⟨t', h1, h2⟩ | ⟨h1, _⟩
    · rw [h1] at hg; cases hg
      exact ⟨by simp [specStepCore, hcm], h2⟩
    · rw [h1] at hg; cases hg
  · rw [hup]; exact ⟨by simp [specStepCore, hcm], rfl⟩
  · rw [hup]
    rcases hid with ⟨t', h1, _⟩ | ⟨h1, h2⟩
    · rw [h1] at hg; cases hg
    · rw [h1] at hg; cases hg
      exact ⟨by simp [specStepCore, (beginTx_failAt h2).1], rfl⟩

/-- One API call — `Rebuild` included — refines one step of the abstract map. -/
theorem step_refines_all {c : Cfg} (hc : c.wf = true) {P : Obj → Prop} (hPw : ∀ o, P o → c.wfObj o = true)
    (hk : KeysOK c P) {kv : KV} {m : Abs} (hi : Inv c P kv m) (hs : Sorted kv)
    (op : Op) (hP : ∀ o, op.obj? = some o → P o) :
    ∃ m', specStep c m op (step c kv op).2 = some m' ∧ Inv c P (step c kv op).1 m' := by
  cases hr : op.isRebuild with
  | false => exact step_refines hk hi op hr hP
  | true =>
    cases op with
    | rebuild f =>
      obtain ⟨h1, h2⟩ := update_rebuild_refines hc hPw hk hi hs f
      refine ⟨m, ?_, ?_⟩
      · rw [specStep_eq]; exact h1
      · show Inv c P (update kv f (fun t => rebuildTx c t)).1 m
        rw [h2]; exact hi
    | _ => simp [Op.isRebuild] at hr

theorem history_refines_all {c : Cfg} (hc : c.wf = true) {P : Obj → Prop} (hPw : ∀ o, P o → c.wfObj o = true)
    (hk : KeysOK c P) :
    ∀ (ops : List Op) (kv : KV) (m : Abs), Inv c P kv m → Sorted kv →
      (∀ op ∈ ops, ∀ o, op.obj? = some o → P o) →
      ∃ m', absRun c ops kv m = some m' ∧ Inv c P (runFrom c kv ops) m' := by
  intro ops
  induction ops with
  | nil => intro kv m hi _ _; exact ⟨m, rfl, hi⟩
  | cons op rest ih =>
    intro kv m hi hs hops
    obtain ⟨m1, hsp, hi1⟩ := step_refines_all hc hPw hk hi hs op (hops op List.mem_cons_self)
    obtain ⟨m', hr, hi'⟩ := ih (step c kv op).1 m1 hi1 (step_sorted c kv op hs)
      (fun o ho => hops o (List.mem_cons_of_mem _ ho))
    refine ⟨m', ?_, ?_⟩
    · simp only [absRun, hsp]; exact hr
    · simpa [runFrom] using hi'

end Kap.C15
