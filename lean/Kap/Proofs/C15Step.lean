/-
Helper lemmas for C15, part 3: one API call refines one step of the abstract map; histories.
-/
import Kap.Proofs.C15Inv
namespace Kap.C15

def specStepCore (m m1 : Abs) (r : Option Err) (f : Fault) (res : Option Err) : Option Abs :=
  if res = some .io then (if f = .none then none else some m)
  else if res = r then (if f = .commit ∧ r = none then none else some m1) else none

theorem specStep_eq (c : Cfg) (m : Abs) (op : Op) (res : Option Err) :
    specStep c m op res = specStepCore m (specApply c m op).1 (specApply c m op).2 op.fault res := by
  unfold specStep specStepCore
  rfl

/-- The exists/replace rules of `put` on the abstract map, then the uniqueness of the unique indexes. -/
def specPut (c : Cfg) (m : Abs) (o : Obj) (ar rr : Bool) : Abs × Option Err :=
  match absGet m o.id with
  | none => if rr then (m, some .missing) else absStore c m o
  | some _ => if ar then absStore c m o else (m, some .exists_)

/-- A `putTx` that got past the exists/replace rules: conflict ⇒ rejected with `conflict`, nothing changes; no
conflict ⇒ committed (the invariant holds for `absSet m o`, uniqueness included) or struck by the injected fault. -/
theorem update_store_refines {c : Cfg} {P : Obj → Prop} {kv : KV} {m : Abs} (hk : KeysOK c P) (hi : Inv c P kv m)
    (o : Obj) (hP : P o) (ar rr : Bool) (f : Fault)
    (hres : if absConflict c m o then putTx c (beginTx kv f) o ar rr = .error .conflict
            else (∃ t', putTx c (beginTx kv f) o ar rr = .ok t') ∨
                 (putTx c (beginTx kv f) o ar rr = .error .io ∧ (beginTx kv f).failAt.isSome = true)) :
    ∃ m', specStepCore m (absStore c m o).1 (absStore c m o).2 f
            (update kv f (fun t => putTx c t o ar rr)).2 = some m' ∧
          Inv c P (update kv f (fun t => putTx c t o ar rr)).1 m' := by
  unfold absStore
  rcases update_cases kv f (fun t => putTx c t o ar rr) with ⟨t, hg, hc, hup⟩ | ⟨t, hg, hc, hup⟩ | ⟨e, hg, hup⟩
  · -- committed
    rw [hup]
    have hcont := putTx_content hk hi o hP ar rr (beginTx kv f) t rfl hg
    cases hcf : absConflict c m o with
    | true => rw [hcf] at hres; simp only [↓reduceIte] at hres; rw [hres] at hg; cases hg
    | false =>
      simp only [Bool.false_eq_true, ↓reduceIte]
      exact ⟨absSet m o, by simp [specStepCore, hc], inv_put hk hi o hP (uniqueOK_absSet hi.uniq hcf) hcont⟩
  · -- commit failed
    rw [hup]
    exact ⟨m, by simp [specStepCore, hc], hi⟩
  · rw [hup]
    refine ⟨m, ?_, hi⟩
    cases hcf : absConflict c m o with
    | true =>
      rw [hcf] at hres; simp only [↓reduceIte] at hres ⊢
      rw [hres] at hg; cases hg
      simp [specStepCore]
    | false =>
      rw [hcf] at hres; simp only [Bool.false_eq_true, ↓reduceIte] at hres ⊢
      rcases hres with ⟨t', ht'⟩ | ⟨he, hf⟩
      · rw [ht'] at hg; cases hg
      · rw [he] at hg; cases hg
        simp [specStepCore, (beginTx_failAt hf).1]

theorem update_put_refines {c : Cfg} {P : Obj → Prop} {kv : KV} {m : Abs} (hk : KeysOK c P) (hi : Inv c P kv m)
    (o : Obj) (hP : P o) (ar rr : Bool) (f : Fault) :
    ∃ m', specStepCore m (specPut c m o ar rr).1 (specPut c m o ar rr).2 f
            (update kv f (fun t => putTx c t o ar rr)).2 = some m' ∧
          Inv c P (update kv f (fun t => putTx c t o ar rr)).1 m' := by
  have hres := putTx_result hk hi o hP ar rr (beginTx kv f) rfl
  unfold specPut
  cases ha : absGet m o.id with
  | none =>
    rw [ha] at hres
    simp only at hres ⊢
    cases rr with
    | true =>
      simp only [↓reduceIte] at hres ⊢
      refine ⟨m, ?_, ?_⟩ <;> simp only [update, hres]
      · simp [specStepCore]
      · exact hi
    | false =>
      simp only [Bool.false_eq_true, ↓reduceIte] at hres ⊢
      exact update_store_refines hk hi o hP ar false f hres
  | some x =>
    rw [ha] at hres
    simp only at hres ⊢
    cases ar with
    | false =>
      simp only [Bool.false_eq_true, ↓reduceIte] at hres ⊢
      refine ⟨m, ?_, ?_⟩ <;> simp only [update, hres]
      · simp [specStepCore]
      · exact hi
    | true =>
      simp only [↓reduceIte] at hres ⊢
      exact update_store_refines hk hi o hP true rr f hres

theorem update_delete_refines {c : Cfg} {P : Obj → Prop} {kv : KV} {m : Abs} (hk : KeysOK c P) (hi : Inv c P kv m)
    (id : Str) (f : Fault) :
    ∃ m', specStepCore m (absDel m id) none f (update kv f (fun t => deleteTx c t id)).2 = some m' ∧
          Inv c P (update kv f (fun t => deleteTx c t id)).1 m' := by
  have hres := deleteTx_result hk hi id (beginTx kv f) rfl
  rcases update_cases kv f (fun t => deleteTx c t id) with ⟨t, hg, hc, hup⟩ | ⟨t, hg, hc, hup⟩ | ⟨e, hg, hup⟩
  · rw [hup]
    exact ⟨absDel m id, by simp [specStepCore, hc],
      inv_del hk hi id (deleteTx_content hk hi id (beginTx kv f) t rfl hg)⟩
  · rw [hup]
    exact ⟨m, by simp [specStepCore, hc], hi⟩
  · rw [hup]
    refine ⟨m, ?_, hi⟩
    rcases hres with ⟨t', ht'⟩ | ⟨he, hf⟩
    · rw [ht'] at hg; cases hg
    · rw [he] at hg; cases hg
      simp [specStepCore, (beginTx_failAt hf).1]

theorem specApply_create (c : Cfg) (m : Abs) (o : Obj) (f : Fault) :
    specApply c m (.create o f) = specPut c m o false false := by
  unfold specApply specPut; cases h : absGet m o.id <;> simp [h]
theorem specApply_put (c : Cfg) (m : Abs) (o : Obj) (f : Fault) :
    specApply c m (.put o f) = specPut c m o true false := by
  unfold specApply specPut; cases h : absGet m o.id <;> simp
theorem specApply_replace (c : Cfg) (m : Abs) (o : Obj) (f : Fault) :
    specApply c m (.replace o f) = specPut c m o true true := by
  unfold specApply specPut; cases h : absGet m o.id <;> simp [h]

/-- One API call (other than `Rebuild`) refines one step of the abstract map and re-establishes the invariant. -/
theorem step_refines {c : Cfg} {P : Obj → Prop} {kv : KV} {m : Abs} (hk : KeysOK c P) (hi : Inv c P kv m)
    (op : Op) (hnr : op.isRebuild = false) (hP : ∀ o, op.obj? = some o → P o) :
    ∃ m', specStep c m op (step c kv op).2 = some m' ∧ Inv c P (step c kv op).1 m' := by
  rw [specStep_eq]
  cases op with
  | create o f =>
    rw [specApply_create]
    exact update_put_refines hk hi o (hP o rfl) false false f
  | put o f =>
    rw [specApply_put]
    exact update_put_refines hk hi o (hP o rfl) true false f
  | replace o f =>
    rw [specApply_replace]
    exact update_put_refines hk hi o (hP o rfl) true true f
  | delete id f => exact update_delete_refines hk hi id f
  | rebuild f => simp [Op.isRebuild] at hnr
  | reopen => exact ⟨m, by simp [specStepCore, specApply, Op.fault, step], hi⟩

theorem inv_empty (c : Cfg) (P : Obj → Prop) : Inv c P [] [] := by
  refine ⟨?_, ?_, ?_, ?_, ?_, ?_⟩ <;> intros <;> simp_all [kvGet, UniqueOK]

/-- The abstract state after a history, following the results the model produced (`none` = some result was not
admissible for the abstract map). -/
def absRun (c : Cfg) : List Op → KV → Abs → Option Abs
  | [], _, m => some m
  | op :: rest, kv, m =>
    match specStep c m op (step c kv op).2 with
    | none => none
    | some m' => absRun c rest (step c kv op).1 m'

def runFrom (c : Cfg) (kv : KV) (ops : List Op) : KV := ops.foldl (fun kv op => (step c kv op).1) kv

theorem history_refines {c : Cfg} {P : Obj → Prop} (hk : KeysOK c P) :
    ∀ (ops : List Op) (kv : KV) (m : Abs), Inv c P kv m →
      (∀ op ∈ ops, op.isRebuild = false ∧ ∀ o, op.obj? = some o → P o) →
      ∃ m', absRun c ops kv m = some m' ∧ Inv c P (runFrom c kv ops) m' := by
  intro ops
  induction ops with
  | nil => intro kv m hi _; exact ⟨m, rfl, hi⟩
  | cons op rest ih =>
    intro kv m hi hops
    obtain ⟨hnr, hP⟩ := hops op (List.mem_cons_self)
    obtain ⟨m1, hs, hi1⟩ := step_refines hk hi op hnr hP
    obtain ⟨m', hr, hi'⟩ := ih (step c kv op).1 m1 hi1 (fun o ho => hops o (List.mem_cons_of_mem _ ho))
    refine ⟨m', ?_, ?_⟩
    · simp only [absRun, hs]; exact hr
    · simpa [runFrom] using hi'

end Kap.C15
