/-
Helper lemmas for C15, part 3: one API call refines one step of the abstract map; histories.
-/
import Kap.Proofs.C15Inv
namespace Kap.C15

def specStepCore (m m1 : Abs) (r : Option Err) (f : Fault) (res : Option Err) : Option Abs :=
  if res = some .io then (if f = .none then none else some m)
  else if res = r then (if f = .commit ∧ r = none then none else some m1) else none

theorem specStep_eq (m : Abs) (op : Op) (res : Option Err) :
    specStep m op res = specStepCore m (specApply m op).1 (specApply m op).2 op.fault res := by
  unfold specStep specStepCore
  rfl

/-- The exists/replace rules of `put` on the abstract map. -/
def specPut (m : Abs) (o : Obj) (ar rr : Bool) : Abs × Option Err :=
  match absGet m o.id with
  | none => if rr then (m, some .missing) else (absSet m o, none)
  | some _ => if ar then (absSet m o, none) else (m, some .exists_)

theorem update_put_refines {c : Cfg} {P : Obj → Prop} {kv : KV} {m : Abs} (hk : KeysOK c P) (hi : Inv c P kv m)
    (o : Obj) (hP : P o) (ar rr : Bool) (f : Fault) (hu : UniqueOK c (specPut m o ar rr).1) :
    ∃ m', specStepCore m (specPut m o ar rr).1 (specPut m o ar rr).2 f
            (update kv f (fun t => putTx c t o ar rr)).2 = some m' ∧
          Inv c P (update kv f (fun t => putTx c t o ar rr)).1 m' := by
  have hres := putTx_result hk hi o ar rr (beginTx kv f) rfl
  rcases update_cases kv f (fun t => putTx c t o ar rr) with ⟨t, hg, hc, hup⟩ | ⟨t, hg, hc, hup⟩ | ⟨e, hg, hup⟩
  · -- committed
    rw [hup]
    have hcont := putTx_content hk hi o hP ar rr (beginTx kv f) t rfl hg
    unfold specPut at hu ⊢
    cases ha : absGet m o.id with
    | none =>
      rw [ha] at hres hu
      simp only at hres hu ⊢
      cases rr with
      | true => simp only [↓reduceIte] at hres; rw [hres] at hg; cases hg
      | false =>
        simp only [Bool.false_eq_true, ↓reduceIte] at hu ⊢
        refine ⟨absSet m o, by simp [specStepCore, hc], inv_put hk hi o hP hu hcont⟩
    | some x =>
      rw [ha] at hres hu
      simp only at hres hu ⊢
      cases ar with
      | false => simp only [Bool.false_eq_true, ↓reduceIte] at hres; rw [hres] at hg; cases hg
      | true =>
        simp only [↓reduceIte] at hu ⊢
        refine ⟨absSet m o, by simp [specStepCore, hc], inv_put hk hi o hP hu hcont⟩
  · -- commit failed
    rw [hup]
    exact ⟨m, by simp [specStepCore, hc], hi⟩
  · rw [hup]
    refine ⟨m, ?_, hi⟩
    unfold specPut
    cases ha : absGet m o.id with
    | none =>
      rw [ha] at hres
      simp only at hres ⊢
      cases rr with
      | true =>
        simp only [↓reduceIte] at hres ⊢
        rw [hres] at hg; cases hg
        simp [specStepCore]
      | false =>
        simp only [Bool.false_eq_true, ↓reduceIte] at hres ⊢
        rcases hres with ⟨t', ht'⟩ | ⟨he, hf⟩
        · rw [ht'] at hg; cases hg
        · rw [he] at hg; cases hg
          simp [specStepCore, (beginTx_failAt hf).1]
    | some x =>
      rw [ha] at hres
      simp only at hres ⊢
      cases ar with
      | false =>
        simp only [Bool.false_eq_true, ↓reduceIte] at hres ⊢
        rw [hres] at hg; cases hg
        simp [specStepCore]
      | true =>
        simp only [↓reduceIte] at hres ⊢
        rcases hres with ⟨t', ht'⟩ | ⟨he, hf⟩
        · rw [ht'] at hg; cases hg
        · rw [he] at hg; cases hg
          simp [specStepCore, (beginTx_failAt hf).1]

theorem update_delete_refines {c : Cfg} {P : Obj → Prop} {kv : KV} {m : Abs} (hk : KeysOK c P) (hi : Inv c P kv m)
    (id : Str) (f : Fault) :
    ∃ m', specStepCore m (absDel m id) none f (update kv f (fun t => deleteTx c t id)).2 = some m' ∧
          Inv c P (update kv f (fun t => deleteTx c t id)).1 m' := by
  have hres := deleteTx_result hk hi id (beginTx kv f) rfl
  rcases update_cases kv f (fun t => deleteTx c t id) with ⟨t, hg, hc, hup⟩ | ⟨t, hg, hc, hup⟩ | ⟨e, hg, hup⟩
  · rw [hup]
    exact ⟨absDel m id, by simp [specStepCore, hc],
      inv_del hk hi id (deleteTx_content hk hi id (beginTx kv f) t rfl hg)⟩
  · rw [hup]
    exact ⟨m, by simp [specStepCore, hc], hi⟩
  · rw [hup]
    refine ⟨m, ?_, hi⟩
    rcases hres with ⟨t', ht'⟩ | ⟨he, hf⟩
    · rw [ht'] at hg; cases hg
    · rw [he] at hg; cases hg
      simp [specStepCore, (beginTx_failAt hf).1]

theorem specApply_create (m : Abs) (o : Obj) (f : Fault) : specApply m (.create o f) = specPut m o false false := by
  unfold specApply specPut; cases h : absGet m o.id <;> simp [h]
theorem specApply_put (m : Abs) (o : Obj) (f : Fault) : specApply m (.put o f) = specPut m o true false := by
  unfold specApply specPut; cases h : absGet m o.id <;> simp [h]
theorem specApply_replace (m : Abs) (o : Obj) (f : Fault) : specApply m (.replace o f) = specPut m o true true := by
  unfold specApply specPut; cases h : absGet m o.id <;> simp [h]

/-- One API call (other than `Rebuild`) refines one step of the abstract map and re-establishes the invariant. -/
theorem step_refines {c : Cfg} {P : Obj → Prop} {kv : KV} {m : Abs} (hk : KeysOK c P) (hi : Inv c P kv m)
    (op : Op) (hnr : op.isRebuild = false) (hP : ∀ o, op.obj? = some o → P o)
    (hu : UniqueOK c (specApply m op).1) :
    ∃ m', specStep m op (step c kv op).2 = some m' ∧ Inv c P (step c kv op).1 m' := by
  rw [specStep_eq]
  cases op with
  | create o f =>
    rw [specApply_create] at hu ⊢
    exact update_put_refines hk hi o (hP o rfl) false false f hu
  | put o f =>
    rw [specApply_put] at hu ⊢
    exact update_put_refines hk hi o (hP o rfl) true false f hu
  | replace o f =>
    rw [specApply_replace] at hu ⊢
    exact update_put_refines hk hi o (hP o rfl) true true f hu
  | delete id f => exact update_delete_refines hk hi id f
  | rebuild f => simp [Op.isRebuild] at hnr
  | reopen => exact ⟨m, by simp [specStepCore, specApply, Op.fault, step], hi⟩

theorem inv_empty (c : Cfg) (P : Obj → Prop) : Inv c P [] [] := by
  refine ⟨?_, ?_, ?_, ?_, ?_, ?_⟩ <;> intros <;> simp_all [kvGet, UniqueOK]

/-- The abstract state after a history, following the results the model produced (`none` = some result was not
admissible for the abstract map). -/
def absRun (c : Cfg) : List Op → KV → Abs → Option Abs
  | [], _, m => some m
  | op :: rest, kv, m =>
    match specStep m op (step c kv op).2 with
    | none => none
    | some m' => absRun c rest (step c kv op).1 m'

def runFrom (c : Cfg) (kv : KV) (ops : List Op) : KV := ops.foldl (fun kv op => (step c kv op).1) kv

/-- Unique indexes only on the id (every `IndexedStore` of kapacitor is configured like this). -/
def Cfg.uniqueOnIdOnly (c : Cfg) : Bool := c.indexes.all (fun i => !i.unique || i.sel == .id)

theorem uniqueOK_of_idOnly {c : Cfg} (h : c.uniqueOnIdOnly = true) (m : Abs) : UniqueOK c m := by
  intro i hi hun a _ b _ hsel
  have := (List.all_eq_true.mp h) i hi
  simp [hun] at this
  rw [this] at hsel
  exact hsel

theorem history_refines {c : Cfg} {P : Obj → Prop} (hk : KeysOK c P) (hid : c.uniqueOnIdOnly = true) :
    ∀ (ops : List Op) (kv : KV) (m : Abs), Inv c P kv m →
      (∀ op ∈ ops, op.isRebuild = false ∧ ∀ o, op.obj? = some o → P o) →
      ∃ m', absRun c ops kv m = some m' ∧ Inv c P (runFrom c kv ops) m' := by
  intro ops
  induction ops with
  | nil => intro kv m hi _; exact ⟨m, rfl, hi⟩
  | cons op rest ih =>
    intro kv m hi hops
    obtain ⟨hnr, hP⟩ := hops op (List.mem_cons_self)
    obtain ⟨m1, hs, hi1⟩ := step_refines hk hi op hnr hP (uniqueOK_of_idOnly hid _)
    obtain ⟨m', hr, hi'⟩ := ih (step c kv op).1 m1 hi1 (fun o ho => hops o (List.mem_cons_of_mem _ ho))
    refine ⟨m', ?_, ?_⟩
    · simp only [absRun, hs]; exact hr
    · simpa [runFrom] using hi'

end Kap.C15
