/-
C16 — helper lemmas about the printer/parser pair: what the parser builds from a printed condition
(`reparse`), that it always succeeds on printed text (fuel bound), that parser outputs are canonical
(no bare OR directly under an AND) and that re-parsing a canonical tree preserves its meaning.
Core Lean only.
-/
import Kap.Spec.C16
namespace Kap.C16

/-! ### what the parser builds from printed text -/

mutual
/-- Tree built by `parseExpr` from `e.print`. -/
def reparse : Cond → Cond
  | .atom a => .atom a.printed
  | .paren x => .paren (reparse x)
  | .bin o l r => ins (reparse l) o r
/-- Tree after the loop has consumed `op o :: e.print` with `root` built so far. -/
def ins : Cond → BOp → Cond → Cond
  | root, o, .atom a => insert root o (.atom a.printed)
  | root, o, .paren x => insert root o (.paren (reparse x))
  | root, o, .bin o' l r => ins (ins root o l) o' r
end

/-- number of unary expressions at the top level of the printed text -/
def Cond.width : Cond → Nat
  | .atom _ => 1
  | .paren _ => 1
  | .bin _ l r => l.width + r.width

/-- fuel that must be left after the top level has been consumed -/
def Cond.need : Cond → Nat
  | .atom _ => 0
  | .paren x => x.need + x.width + 1
  | .bin _ l r => max l.need r.need

theorem parseLoop_rp (n : Nat) (root : Cond) (rest : List Tok) :
    parseLoop n root (.rp :: rest) = some (root, .rp :: rest) := by
  cases n <;> simp [parseLoop]

theorem parseLoop_nil (n : Nat) (root : Cond) : parseLoop n root [] = some (root, []) := by
  cases n <;> simp [parseLoop]

theorem parse_steps (e : Cond) :
    (∀ n, e.need ≤ n → ∀ rest, parseExpr (n + e.width) (e.print ++ rest) = parseLoop n (reparse e) rest) ∧
    (∀ n, e.need ≤ n → ∀ root o rest,
        parseLoop (n + e.width) root (.op o :: (e.print ++ rest)) = parseLoop n (ins root o e) rest) := by
  induction e with
  | atom a =>
    constructor
    · intro n _ rest
      simp [Cond.width, Cond.print, parseExpr, parseUnary, reparse]
    · intro n _ root o rest
      simp [Cond.width, Cond.print, parseLoop, parseUnary, ins]
  | paren x ih =>
    have key : ∀ n, x.need + x.width + 1 ≤ n → ∀ rest,
        parseUnary n (.lp :: (x.print ++ .rp :: rest)) = some (.paren (reparse x), rest) := by
      intro n hn rest
      obtain ⟨m, rfl⟩ : ∃ m, n = m + x.width + 1 := ⟨n - x.width - 1, by omega⟩
      have h := ih.1 m (by omega) (.rp :: rest)
      simp [parseUnary, h, parseLoop_rp]
    constructor
    · intro n hn rest
      simp only [Cond.need] at hn
      simp [Cond.width, Cond.print, parseExpr, reparse, key n hn rest]
    · intro n hn root o rest
      simp only [Cond.need] at hn
      simp [Cond.width, Cond.print, parseLoop, ins, key n hn rest]
  | bin o' l r ihl ihr =>
    constructor
    · intro n hn rest
      simp only [Cond.need] at hn
      have h1 := ihl.1 (n + r.width) (by omega) (.op o' :: (r.print ++ rest))
      have h2 := ihr.2 n (by omega) (reparse l) o' rest
      simp only [Cond.width, Cond.print, reparse, List.append_assoc, List.cons_append]
      rw [show n + (l.width + r.width) = n + r.width + l.width by omega, h1, h2]
    · intro n hn root o rest
      simp only [Cond.need] at hn
      have h1 := ihl.2 (n + r.width) (by omega) root o (.op o' :: (r.print ++ rest))
      have h2 := ihr.2 n (by omega) (ins root o l) o' rest
      simp only [Cond.width, Cond.print, ins, List.append_assoc, List.cons_append]
      rw [show n + (l.width + r.width) = n + r.width + l.width by omega, h1, h2]

theorem width_pos (e : Cond) : 1 ≤ e.width := by
  induction e with
  | atom _ => simp [Cond.width]
  | paren _ _ => simp [Cond.width]
  | bin _ l r ihl _ => simp only [Cond.width]; omega

theorem need_width_le (e : Cond) : e.need + e.width ≤ 2 * e.print.length + 2 := by
  induction e with
  | atom _ => simp [Cond.need, Cond.width, Cond.print]
  | paren x ih => simp only [Cond.need, Cond.width, Cond.print, List.length_cons, List.length_append, List.length_nil]; omega
  | bin _ l r ihl ihr =>
    simp only [Cond.need, Cond.width, Cond.print, List.length_cons, List.length_append]
    have := width_pos l; have := width_pos r
    omega

/-- Printed text always parses, to `reparse e`. -/
theorem parse_print' (e : Cond) : parse e.print = some (reparse e) := by
  have hb := need_width_le e
  have h := (parse_steps e).1 (2 * e.print.length + 2 - e.width) (by omega) []
  rw [show 2 * e.print.length + 2 - e.width + e.width = 2 * e.print.length + 2 by omega, List.append_nil] at h
  simp [parse, h, parseLoop_nil]

/-! ### meaning -/

/-- the part of a right-nested OR chain that is already closed … -/
def splitA (env : Env) : Cond → Bool
  | .bin .or l r => l.eval env || splitA env r
  | _ => false
/-- … and its last operand, the one a following AND attaches to -/
def splitB (env : Env) : Cond → Bool
  | .bin .or _ r => splitB env r
  | c => c.eval env

theorem eval_split (env : Env) (c : Cond) : c.eval env = (splitA env c || splitB env c) := by
  induction c with
  | atom _ => simp [splitA, splitB]
  | paren _ _ => simp [splitA, splitB]
  | bin o l r _ ihr =>
    cases o with
    | and => simp [splitA, splitB]
    | or => simp [splitA, splitB, Cond.eval, ihr, Bool.or_assoc]

theorem insert_or (t x : Cond) : insert t .or x = .bin .or t x := by
  cases t with
  | atom _ => simp [insert]
  | paren _ => simp [insert]
  | bin o l r => cases o <;> simp [insert, BOp.prec]

theorem insert_and (env : Env) (t x : Cond) :
    splitA env (insert t .and x) = splitA env t ∧
    splitB env (insert t .and x) = (splitB env t && x.eval env) := by
  induction t with
  | atom _ => simp [insert, splitA, splitB, Cond.eval]
  | paren _ _ => simp [insert, splitA, splitB, Cond.eval]
  | bin o l r _ ihr =>
    cases o with
    | and => simp [insert, BOp.prec, splitA, splitB, Cond.eval]
    | or => simp [insert, BOp.prec, splitA, splitB, ihr.1, ihr.2]

theorem printed_eval (env : Env) (a : Atom) : a.printed.eval env = a.eval env := by
  cases a <;> simp [Atom.printed, Atom.eval]

def Cond.notOr : Cond → Bool
  | .bin .or _ _ => false
  | _ => true

/-- Canonical trees: no bare OR directly under an AND (what the parser builds; `parse_canon`). -/
def Cond.canon : Cond → Bool
  | .atom _ => true
  | .paren e => e.canon
  | .bin .or l r => l.canon && r.canon
  | .bin .and l r => l.canon && r.canon && l.notOr && r.notOr

theorem notOr_split (env : Env) (c : Cond) (h : c.notOr = true) :
    splitA env c = false ∧ splitB env c = c.eval env := by
  cases c with
  | atom _ => simp [splitA, splitB]
  | paren _ => simp [splitA, splitB]
  | bin o l r => cases o <;> simp_all [Cond.notOr, splitA, splitB]

theorem reparse_sem (env : Env) (e : Cond) :
    (e.canon = true → splitA env (reparse e) = splitA env e ∧ splitB env (reparse e) = splitB env e) ∧
    (e.canon = true → ∀ root, splitA env (ins root .or e) = (root.eval env || splitA env e) ∧
                              splitB env (ins root .or e) = splitB env e) ∧
    (e.canon = true → e.notOr = true → ∀ root, splitA env (ins root .and e) = splitA env root ∧
                              splitB env (ins root .and e) = (splitB env root && e.eval env)) := by
  induction e with
  | atom a =>
    refine ⟨fun _ => ?_, fun _ root => ?_, fun _ _ root => ?_⟩
    · simp [reparse, splitA, splitB, Cond.eval, printed_eval]
    · simp [ins, insert_or, splitA, splitB, Cond.eval, printed_eval]
    · have := insert_and env root (.atom a.printed)
      simp [ins, this.1, this.2, Cond.eval, printed_eval]
  | paren x ih =>
    have hx : x.canon = true → (reparse x).eval env = x.eval env := by
      intro hc
      rw [eval_split env (reparse x), eval_split env x, (ih.1 hc).1, (ih.1 hc).2]
    refine ⟨fun hc => ?_, fun hc root => ?_, fun hc _ root => ?_⟩
    · simp only [Cond.canon] at hc
      simp [reparse, splitA, splitB, Cond.eval, hx hc]
    · simp only [Cond.canon] at hc
      simp [ins, insert_or, splitA, splitB, Cond.eval, hx hc]
    · simp only [Cond.canon] at hc
      have := insert_and env root (.paren (reparse x))
      simp [ins, this.1, this.2, Cond.eval, hx hc]
  | bin o l r ihl ihr =>
    cases o with
    | or =>
      refine ⟨fun hc => ?_, fun hc root => ?_, fun _ hn root => ?_⟩
      · simp only [Cond.canon, Bool.and_eq_true] at hc
        have h1 := ihl.1 hc.1
        have h2 := ihr.2.1 hc.2 (reparse l)
        simp only [reparse, h2.1, h2.2, splitA, splitB]
        rw [eval_split env (reparse l), h1.1, h1.2, ← eval_split env l]
        simp
      · simp only [Cond.canon, Bool.and_eq_true] at hc
        have h1 := ihl.2.1 hc.1 root
        have h2 := ihr.2.1 hc.2 (ins root .or l)
        simp only [ins, h2.1, h2.2, splitA, splitB]
        rw [eval_split env (ins root .or l), h1.1, h1.2, eval_split env l]
        simp [Bool.or_assoc]
      · simp [Cond.notOr] at hn
    | and =>
      refine ⟨fun hc => ?_, fun hc root => ?_, fun hc _ root => ?_⟩
      · simp only [Cond.canon, Bool.and_eq_true] at hc
        obtain ⟨⟨⟨cl, cr⟩, nl⟩, nr⟩ := hc
        have h1 := ihl.1 cl
        have h2 := ihr.2.2 cr nr (reparse l)
        have hl := notOr_split env l nl
        simp [reparse, h2.1, h2.2, h1.1, h1.2, hl.1, hl.2, splitA, splitB, Cond.eval]
      · simp only [Cond.canon, Bool.and_eq_true] at hc
        obtain ⟨⟨⟨cl, cr⟩, nl⟩, nr⟩ := hc
        have h1 := ihl.2.1 cl root
        have h2 := ihr.2.2 cr nr (ins root .or l)
        have hl := notOr_split env l nl
        simp [ins, h2.1, h2.2, h1.1, h1.2, hl.1, hl.2, splitA, splitB, Cond.eval]
      · simp only [Cond.canon, Bool.and_eq_true] at hc
        obtain ⟨⟨⟨cl, cr⟩, nl⟩, nr⟩ := hc
        have h1 := ihl.2.2 cl nl root
        have h2 := ihr.2.2 cr nr (ins root .and l)
        simp [ins, h2.1, h2.2, h1.1, h1.2, Cond.eval, Bool.and_assoc]

/-- Re-parsing the printed text of a canonical tree preserves its meaning. -/
theorem reparse_eval (env : Env) (e : Cond) (h : e.canon = true) : (reparse e).eval env = e.eval env := by
  rw [eval_split env (reparse e), eval_split env e, ((reparse_sem env e).1 h).1, ((reparse_sem env e).1 h).2]

/-! ### parser outputs are canonical -/

theorem insert_canon (t u : Cond) (o : BOp) (ht : t.canon = true) (hu : u.canon = true) (hn : u.notOr = true) :
    (insert t o u).canon = true := by
  induction t with
  | atom _ => cases o <;> simp_all [insert, Cond.canon, Cond.notOr]
  | paren _ _ => cases o <;> simp_all [insert, Cond.canon, Cond.notOr]
  | bin o' l r _ ihr =>
    cases o' <;> cases o <;> simp_all [insert, BOp.prec, Cond.canon, Cond.notOr]

theorem parse_canon_aux (n : Nat) :
    (∀ toks e rest, parseUnary n toks = some (e, rest) → e.canon = true ∧ e.notOr = true) ∧
    (∀ toks e rest, parseExpr n toks = some (e, rest) → e.canon = true) ∧
    (∀ root toks e rest, parseLoop n root toks = some (e, rest) → root.canon = true → e.canon = true) := by
  induction n with
  | zero =>
    refine ⟨?_, ?_, ?_⟩
    · intro toks e rest h
      match toks with
      | [] => simp [parseUnary] at h
      | .atom a :: _ => simp [parseUnary] at h; obtain ⟨rfl, _⟩ := h; simp [Cond.canon, Cond.notOr]
      | .op _ :: _ => simp [parseUnary] at h
      | .lp :: _ => simp [parseUnary] at h
      | .rp :: _ => simp [parseUnary] at h
    · intro toks e rest h; simp [parseExpr] at h
    · intro root toks e rest h hr
      match toks with
      | [] => simp [parseLoop] at h; obtain ⟨rfl, _⟩ := h; exact hr
      | .atom _ :: _ => simp [parseLoop] at h; obtain ⟨rfl, _⟩ := h; exact hr
      | .op _ :: _ => simp [parseLoop] at h
      | .lp :: _ => simp [parseLoop] at h; obtain ⟨rfl, _⟩ := h; exact hr
      | .rp :: _ => simp [parseLoop] at h; obtain ⟨rfl, _⟩ := h; exact hr
  | succ n ih =>
    obtain ⟨ihU, ihE, ihL⟩ := ih
    refine ⟨?_, ?_, ?_⟩
    · intro toks e rest h
      match toks with
      | [] => simp [parseUnary] at h
      | .atom a :: _ => simp [parseUnary] at h; obtain ⟨rfl, _⟩ := h; simp [Cond.canon, Cond.notOr]
      | .op _ :: _ => simp [parseUnary] at h
      | .rp :: _ => simp [parseUnary] at h
      | .lp :: toks' =>
        simp only [parseUnary] at h
        split at h
        · rename_i e' rest' heq
          simp at h; obtain ⟨rfl, _⟩ := h
          exact ⟨by simpa [Cond.canon] using ihE _ _ _ heq, by simp [Cond.notOr]⟩
        · simp at h
    · intro toks e rest h
      simp only [parseExpr] at h
      split at h
      · rename_i u rest' heq
        exact ihL _ _ _ _ h (ihU _ _ _ heq).1
      · simp at h
    · intro root toks e rest h hr
      match toks with
      | [] => simp [parseLoop] at h; obtain ⟨rfl, _⟩ := h; exact hr
      | .atom _ :: _ => simp [parseLoop] at h; obtain ⟨rfl, _⟩ := h; exact hr
      | .lp :: _ => simp [parseLoop] at h; obtain ⟨rfl, _⟩ := h; exact hr
      | .rp :: _ => simp [parseLoop] at h; obtain ⟨rfl, _⟩ := h; exact hr
      | .op o :: toks' =>
        simp only [parseLoop] at h
        split at h
        · rename_i u rest' heq
          have hu := ihU _ _ _ heq
          exact ihL _ _ _ _ h (insert_canon root u o hr hu.1 hu.2)
        · simp at h

theorem parse_canon' (toks : List Tok) (c : Cond) (h : parse toks = some c) : c.canon = true := by
  simp only [parse] at h
  split at h
  · rename_i e heq
    simp at h; subst h
    exact (parse_canon_aux _).2.1 _ _ _ heq
  · simp at h

end Kap.C16
