/-
C16 — the driver's finite check `rangeHolds` decides `RangeSpec`.

`RangeSpec` quantifies over all rows (`Env` = truth of every comparison + the row's time); `rangeHolds` tries all
assignments of the comparisons that OCCUR and all times next to a literal that OCCURS. Sound and complete because
a condition's value depends only on the occurring comparisons and on how the time compares with the occurring
literals, and every time compares with all of them like one of the "critical" times.
Core Lean only.
-/
import Kap.Spec.C16
namespace Kap.C16

/-- `t'` compares with `l` the way `t` does. -/
def SameSide (t' t l : Int) : Prop := (t' < l ↔ t < l) ∧ (l < t' ↔ l < t)

theorem sameSide_eval (op : TOp) (t' t l : Int) (h : SameSide t' t l) : op.eval t' l = op.eval t l := by
  obtain ⟨h1, h2⟩ := h
  cases op <;> simp only [TOp.eval, decide_eq_decide] <;> constructor <;> intro _ <;> omega

theorem criticalTimes_cons (a : Int) (L : List Int) :
    criticalTimes (a :: L) = [a - 1, a, a + 1] ++ criticalTimes L := by
  simp [criticalTimes]

/-- Every time compares with all literals of a non-empty list like one of its critical times. -/
theorem exists_critical (L : List Int) (hne : L ≠ []) (t : Int) :
    ∃ t', t' ∈ criticalTimes L ∧ ∀ l ∈ L, SameSide t' t l := by
  induction L with
  | nil => exact absurd rfl hne
  | cons a L ih =>
    by_cases hL : L = []
    · subst hL
      have one : ∀ t', (t' = a - 1 ∨ t' = a ∨ t' = a + 1) → SameSide t' t a →
          ∃ t', t' ∈ criticalTimes [a] ∧ ∀ l ∈ [a], SameSide t' t l := by
        intro t' hm hs
        refine ⟨t', ?_, ?_⟩
        · simp only [criticalTimes_cons, List.mem_append, List.mem_cons, List.not_mem_nil, or_false]
          exact Or.inl hm
        · intro l hl
          simp only [List.mem_singleton] at hl; subst hl; exact hs
      by_cases h1 : t < a
      · exact one (a - 1) (Or.inl rfl) (by unfold SameSide; omega)
      · by_cases h2 : t = a
        · exact one a (Or.inr (Or.inl rfl)) (by unfold SameSide; omega)
        · exact one (a + 1) (Or.inr (Or.inr rfl)) (by unfold SameSide; omega)
    · obtain ⟨t'', hm, hgood⟩ := ih hL
      -- a candidate between `t` and `t''` that also compares correctly with `a`
      have key : ∃ t', (t' = a - 1 ∨ t' = a ∨ t' = a + 1 ∨ t' = t'') ∧ SameSide t' t a ∧
          ((t ≤ t' ∧ t' ≤ t'') ∨ (t'' ≤ t' ∧ t' ≤ t)) := by
        unfold SameSide
        by_cases h1 : t = a
        · exact ⟨a, by omega, by omega, by omega⟩
        · by_cases h2 : t < a
          · by_cases h3 : t'' < a
            · exact ⟨t'', by omega, by omega, by omega⟩
            · exact ⟨a - 1, by omega, by omega, by omega⟩
          · by_cases h3 : a < t''
            · exact ⟨t'', by omega, by omega, by omega⟩
            · exact ⟨a + 1, by omega, by omega, by omega⟩
      obtain ⟨t', hmem, hsa, hbetween⟩ := key
      refine ⟨t', ?_, ?_⟩
      · simp only [criticalTimes_cons, List.mem_append, List.mem_cons, List.not_mem_nil, or_false]
        rcases hmem with h | h | h | h
        · exact Or.inl (Or.inl h)
        · exact Or.inl (Or.inr (Or.inl h))
        · exact Or.inl (Or.inr (Or.inr h))
        · exact Or.inr (h ▸ hm)
      · intro l hl
        rcases List.mem_cons.mp hl with rfl | hl
        · exact hsa
        · have := hgood l hl
          unfold SameSide at this ⊢
          omega

/-- Some listed assignment agrees with any given truth function on the listed ids. -/
theorem exists_assignment (ids : List Nat) (g : Nat → Bool) :
    ∃ f, f ∈ assignments ids ∧ (∀ id ∈ ids, f id = g id) ∧ (∀ x, x ∉ ids → f x = false) := by
  induction ids with
  | nil => exact ⟨fun _ => false, by simp [assignments], by simp, by simp⟩
  | cons id rest ih =>
    obtain ⟨f0, hm, hag, hout⟩ := ih
    simp only [assignments, List.mem_flatMap, List.mem_cons, List.not_mem_nil, or_false]
    by_cases hg : g id = true
    · refine ⟨fun x => if x = id then true else f0 x, ⟨f0, hm, Or.inr rfl⟩, ?_, ?_⟩
      · intro x hx
        by_cases hxi : x = id
        · simp [hxi, hg]
        · simp only [hxi, ↓reduceIte]
          rcases hx with h | h
          · exact absurd h hxi
          · exact hag x h
      · intro x hx
        have : x ≠ id := fun h => hx (Or.inl h)
        simp only [this, ↓reduceIte]
        exact hout x (fun h => hx (Or.inr h))
    · refine ⟨f0, ⟨f0, hm, Or.inl rfl⟩, ?_, ?_⟩
      · intro x hx
        rcases hx with h | h
        · subst h
          by_cases hin : x ∈ rest
          · exact hag x hin
          · rw [hout x hin]; simpa using hg
        · exact hag x h
      · intro x hx
        exact hout x (fun h => hx (Or.inr h))

/-- A condition's value depends only on the comparisons and literals that occur in it. -/
theorem eval_congr (c : Cond) (env env' : Env)
    (h1 : ∀ id ∈ c.opqIds, env.truth id = env'.truth id)
    (h2 : ∀ l ∈ c.timeLits, SameSide env.time env'.time l) : c.eval env = c.eval env' := by
  induction c with
  | atom a =>
    cases a with
    | opq id => simpa [Cond.eval, Atom.eval] using h1 id (by simp [Cond.opqIds])
    | time op lit tl =>
      simp only [Cond.eval, Atom.eval]
      exact sameSide_eval op _ _ lit (h2 lit (by simp [Cond.timeLits]))
  | paren e ih =>
    simp only [Cond.eval]
    exact ih (fun id h => h1 id (by simpa [Cond.opqIds] using h)) (fun l h => h2 l (by simpa [Cond.timeLits] using h))
  | bin o l r ihl ihr =>
    have hl := ihl (fun id h => h1 id (by simp [Cond.opqIds, h])) (fun x h => h2 x (by simp [Cond.timeLits, h]))
    have hr := ihr (fun id h => h1 id (by simp [Cond.opqIds, h])) (fun x h => h2 x (by simp [Cond.timeLits, h]))
    cases o <;> simp [Cond.eval, hl, hr]

def userEval (user : Option Cond) (env : Env) : Bool :=
  match user with
  | some c => c.eval env
  | none => true

theorem rangeHolds_forward (user : Option Cond) (u : Cond) (issued : Cond) (s e : Int)
    (hu : u = match user with | some c => c | none => .atom (.opq 0))
    (h : (assignments (u.opqIds ++ issued.opqIds).eraseDups).all (fun f =>
          (criticalTimes (s :: e :: (u.timeLits ++ issued.timeLits))).all (fun t =>
            issued.eval { truth := f, time := t } ==
              (userEval user { truth := f, time := t } && decide (s ≤ t) && decide (t < e)))) = true)
    (env : Env) :
    issued.eval env = (userEval user env && decide (s ≤ env.time) && decide (env.time < e)) := by
  obtain ⟨f, hf, hag, _⟩ := exists_assignment (u.opqIds ++ issued.opqIds).eraseDups env.truth
  obtain ⟨t', ht', hside⟩ := exists_critical (s :: e :: (u.timeLits ++ issued.timeLits)) (by simp) env.time
  simp only [List.all_eq_true] at h
  have hrow := h f hf t' ht'
  simp only [beq_iff_eq] at hrow
  have hids : ∀ id, id ∈ u.opqIds ∨ id ∈ issued.opqIds → f id = env.truth id := by
    intro id hid
    exact hag id (List.mem_eraseDups.mpr (List.mem_append.mpr hid))
  have hL : ∀ l, l = s ∨ l = e ∨ l ∈ u.timeLits ∨ l ∈ issued.timeLits → SameSide t' env.time l := by
    intro l hl
    apply hside l
    simp only [List.mem_cons, List.mem_append]
    exact hl
  have e1 : issued.eval { truth := f, time := t' } = issued.eval env :=
    eval_congr issued _ env (fun id hid => hids id (Or.inr hid)) (fun l hl => hL l (Or.inr (Or.inr (Or.inr hl))))
  have e2 : userEval user { truth := f, time := t' } = userEval user env := by
    cases user with
    | none => rfl
    | some c =>
      simp only at hu; subst hu
      exact eval_congr _ _ env (fun id hid => hids id (Or.inl hid)) (fun l hl => hL l (Or.inr (Or.inr (Or.inl hl))))
  have hs := hL s (Or.inl rfl)
  have he := hL e (Or.inr (Or.inl rfl))
  have e3 : decide (s ≤ t') = decide (s ≤ env.time) := by
    unfold SameSide at hs; simp only [decide_eq_decide]; omega
  have e4 : decide (t' < e) = decide (env.time < e) := by
    unfold SameSide at he; simp only [decide_eq_decide]; omega
  rw [← e1, hrow, e2, e3, e4]

theorem rangeHolds_iff (user : Option Cond) (issued : Cond) (s e : Int) :
    rangeHolds user issued s e = true ↔ RangeSpec user issued s e := by
  constructor
  · intro h env
    have := rangeHolds_forward user _ issued s e rfl (by
      simp only [rangeHolds] at h
      cases user <;> exact h) env
    cases user <;> exact this
  · intro h
    simp only [rangeHolds, List.all_eq_true, beq_iff_eq]
    intro f _ t _
    exact h { truth := f, time := t }

end Kap.C16
