/-
C16 — helper lemmas about tick arithmetic (Go's Truncate/Round from the year-1 epoch), the loop of
`QueryNode.Queries`, and the literal bookkeeping of `Query` (set/clone/issue).
Core Lean only.
-/
import Kap.Proofs.C16Parse
namespace Kap.C16

/-! ### multiples -/

theorem emod_zero_iff (a d : Int) : a % d = 0 ↔ ∃ m, a = d * m := by
  constructor
  · intro h; exact ⟨a / d, by have := Int.mul_ediv_add_emod a d; omega⟩
  · rintro ⟨m, rfl⟩; exact Int.mul_emod_right d m

theorem mul_lt_mul_cancel {d q m : Int} (hd : 0 < d) (h : d * q < d * m) : q < m := by
  apply Classical.byContradiction
  intro hn
  have : m ≤ q := by omega
  have := Int.mul_le_mul_of_nonneg_left this (Int.le_of_lt hd)
  omega

/-- The first multiple of `d` (shifted by `z`) after `t` is `t - (t+z)%d + d`. -/
theorem first_multiple_after (d z t : Int) (hd : 0 < d) :
    let n := t - (t + z) % d + d
    t < n ∧ (n + z) % d = 0 ∧ n - d ≤ t ∧ ∀ u, t < u → (u + z) % d = 0 → n ≤ u := by
  intro n
  have h0 := Int.emod_nonneg (t + z) (Int.ne_of_gt hd)
  have h1 := Int.emod_lt_of_pos (t + z) hd
  have h2 := Int.mul_ediv_add_emod (t + z) d
  refine ⟨by omega, ?_, by omega, ?_⟩
  · rw [emod_zero_iff]
    exact ⟨(t + z) / d + 1, by rw [Int.mul_add]; omega⟩
  · intro u hu hm
    obtain ⟨m, hm⟩ := (emod_zero_iff _ _).mp hm
    have : d * ((t + z) / d) < d * m := by omega
    have := mul_lt_mul_cancel hd this
    have : d * ((t + z) / d + 1) ≤ d * m := Int.mul_le_mul_of_nonneg_left (by omega) (Int.le_of_lt hd)
    rw [Int.mul_add] at this
    omega

theorem goTruncate_eq (t d : Int) (hd : 0 < d) : goTruncate t d = t - (t + zeroOff) % d := by
  simp [goTruncate, Int.not_le.mpr hd]

/-- `Round` of a time at most half an interval away from a multiple is that multiple. -/
theorem goRound_near_multiple (d m j : Int) (hd : 0 < d) (hm : (m + zeroOff) % d = 0)
    (hj1 : -d ≤ 2 * j) (hj2 : 2 * j < d) : goRound (m + j) d = m := by
  obtain ⟨k, hk⟩ := (emod_zero_iff _ _).mp hm
  simp only [goRound, Int.not_le.mpr hd, ↓reduceIte]
  by_cases hj : 0 ≤ j
  · have hr : (m + j + zeroOff) % d = j := by
      rw [show m + j + zeroOff = j + d * k by omega, Int.add_mul_emod_self_left]
      exact Int.emod_eq_of_lt hj (by omega)
    rw [hr]; simp only [show j + j < d by omega, ↓reduceIte]; omega
  · have hr : (m + j + zeroOff) % d = j + d := by
      rw [show m + j + zeroOff = (j + d) + d * (k - 1) by rw [Int.mul_sub]; omega, Int.add_mul_emod_self_left]
      exact Int.emod_eq_of_lt (by omega) (by omega)
    rw [hr]; simp only [show ¬ (j + d + (j + d) < d) by omega, ↓reduceIte]; omega

/-! ### the loop of `Queries` -/

/-- `next t` is the first live time after `t` (or there is none). -/
def IsNext (live : Int → Bool) (next : Int → Option Int) (t : Int) : Prop :=
  match next t with
  | some c => t < c ∧ live c = true ∧ ∀ u, t < u → live u = true → c ≤ u
  | none => ∀ u, t < u → live u = false

theorem histTicks_exact (live : Int → Bool) (next : Int → Option Int) (stop now offset : Int) :
    ∀ (fuel : Nat) (cur : Int),
      (∀ t, (t = cur ∨ (cur < t ∧ live t = true)) → IsNext live next t) →
      (stop - cur).toNat < fuel →
      (histTicks next stop now offset fuel cur).Pairwise (· < ·) ∧
      ∀ T, T ∈ histTicks next stop now offset fuel cur ↔
        (live T = true ∧ cur < T ∧ T ≤ stop ∧ T - offset ≤ now) := by
  intro fuel
  induction fuel with
  | zero => intro cur _ h; omega
  | succ fuel ih =>
    intro cur hnext hfuel
    have hc := hnext cur (Or.inl rfl)
    unfold IsNext at hc
    unfold histTicks
    split at hc
    · rename_i c heq
      obtain ⟨hlt, hlive, hleast⟩ := hc
      simp only [heq]
      by_cases h1 : c > stop
      · simp only [h1, ↓reduceIte, List.Pairwise.nil, List.not_mem_nil, false_iff, true_and]
        intro T ⟨hl, hT, hs, _⟩
        have := hleast T hT hl; omega
      · simp only [h1, ↓reduceIte]
        by_cases h2 : c - offset > now
        · simp only [h2, ↓reduceIte, List.Pairwise.nil, List.not_mem_nil, false_iff, true_and]
          intro T ⟨hl, hT, _, hn⟩
          have := hleast T hT hl; omega
        · simp only [h2, ↓reduceIte]
          have hrec := ih c (fun t ht => hnext t (by
            rcases ht with rfl | ⟨h, hl⟩
            · exact Or.inr ⟨hlt, hlive⟩
            · exact Or.inr ⟨by omega, hl⟩)) (by omega)
          refine ⟨List.pairwise_cons.mpr ⟨fun T hT => ((hrec.2 T).mp hT).2.1, hrec.1⟩, fun T => ?_⟩
          rw [List.mem_cons, hrec.2 T]
          constructor
          · rintro (rfl | ⟨hl, hT, hs, hn⟩)
            · exact ⟨hlive, hlt, by omega, by omega⟩
            · exact ⟨hl, by omega, hs, hn⟩
          · rintro ⟨hl, hT, hs, hn⟩
            have := hleast T hT hl
            by_cases he : T = c
            · exact Or.inl he
            · exact Or.inr ⟨hl, by omega, hs, hn⟩
    · rename_i heq
      simp only [heq, List.Pairwise.nil, List.not_mem_nil, false_iff, true_and]
      intro T ⟨hl, hT, _, _⟩
      have := hc T hT; simp [hl] at this

/-- More fuel than `stop − cur` never changes the result (the Go loop has no fuel). -/
theorem histTicks_fuel (next : Int → Option Int) (stop now offset : Int)
    (hinc : ∀ t c, next t = some c → t < c) :
    ∀ (fuel : Nat) (cur : Int) (k : Nat), (stop - cur).toNat < fuel →
      histTicks next stop now offset (fuel + k) cur = histTicks next stop now offset fuel cur := by
  intro fuel
  induction fuel with
  | zero => intro cur k h; omega
  | succ fuel ih =>
    intro cur k hfuel
    rw [show fuel + 1 + k = (fuel + k) + 1 by omega]
    unfold histTicks
    cases heq : next cur with
    | none => rfl
    | some c =>
      have := hinc cur c heq
      simp only
      by_cases h1 : c > stop
      · simp [h1]
      · by_cases h2 : c - offset > now
        · simp [h1, h2]
        · simp only [h1, h2, ↓reduceIte]
          rw [ih c k (by omega)]

/-! ### schedules -/

theorem isNext_aligned (d start t : Int) (hd : 0 < d) (ht : start ≤ t) :
    IsNext (LiveTick (.every d true) start) (fun t => some (tickerNext d true t)) t := by
  have h := first_multiple_after d zeroOff t hd
  simp only [IsNext, tickerNext, ↓reduceIte, goTruncate_eq t d hd, LiveTick, Bool.and_eq_true, decide_eq_true_eq]
  exact ⟨h.1, ⟨by omega, h.2.1⟩, fun u hu hl => h.2.2.2 u hu hl.2⟩

theorem isNext_unaligned (d start t : Int) (hd : 0 < d)
    (ht : t = start ∨ (start < t ∧ LiveTick (.every d false) start t = true)) :
    IsNext (LiveTick (.every d false) start) (fun t => some (tickerNext d false t)) t := by
  simp only [IsNext, tickerNext, Bool.false_eq_true, ↓reduceIte, LiveTick, Bool.and_eq_true, decide_eq_true_eq] at ht ⊢
  have hk : ∃ k, 0 ≤ k ∧ t - start = d * k := by
    rcases ht with rfl | ⟨h1, _, h2⟩
    · exact ⟨0, by omega, by simp⟩
    · obtain ⟨k, hk⟩ := (emod_zero_iff _ _).mp h2
      refine ⟨k, ?_, hk⟩
      apply Classical.byContradiction; intro hn
      have := Int.mul_le_mul_of_nonneg_left (show k ≤ -1 by omega) (Int.le_of_lt hd)
      omega
  obtain ⟨k, hk0, hk⟩ := hk
  have hs : start ≤ t := by
    have := Int.mul_nonneg (Int.le_of_lt hd) hk0; omega
  refine ⟨by omega, ⟨by omega, ?_⟩, ?_⟩
  · rw [emod_zero_iff]; exact ⟨k + 1, by rw [Int.mul_add]; omega⟩
  · intro u hu ⟨_, hm⟩
    obtain ⟨m, hm⟩ := (emod_zero_iff _ _).mp hm
    have : d * k < d * m := by omega
    have := mul_lt_mul_cancel hd this
    have := Int.mul_le_mul_of_nonneg_left (show k + 1 ≤ m by omega) (Int.le_of_lt hd)
    rw [Int.mul_add] at this
    omega

theorem isNext_cronEvery (K start t : Int) (hK : 0 < K) (ht : start ≤ t) :
    IsNext (LiveTick (.cronEvery K) start) (cronNext K) t := by
  have h := first_multiple_after K 0 t hK
  have h2 := Int.mul_ediv_add_emod t K
  have e : (t / K + 1) * K = t - (t + 0) % K + K := by
    rw [Int.add_mul, Int.mul_comm (t / K) K]; simp; omega
  simp only [IsNext, cronNext, LiveTick, Bool.and_eq_true, decide_eq_true_eq, e]
  simp only [Int.add_zero] at h ⊢
  exact ⟨h.1, ⟨by omega, h.2.1⟩, fun u hu hl => h.2.2.2 u hu hl.2⟩

theorem isNext_congr {live live' : Int → Bool} {next : Int → Option Int} {t : Int}
    (h : ∀ u, t < u → live u = live' u) (hn : IsNext live next t) : IsNext live' next t := by
  cases hnt : next t with
  | some c =>
    simp only [IsNext, hnt] at hn ⊢
    obtain ⟨h1, h2, h3⟩ := hn
    exact ⟨h1, by rw [← h c h1]; exact h2, fun u hu hl => h3 u hu (by rw [h u hu]; exact hl)⟩
  | none =>
    simp only [IsNext, hnt] at hn ⊢
    intro u hu
    rw [← h u hu]; exact hn u hu

/-- An ending cron schedule given by its ascending firing times: `find?` is the first firing after `t`. -/
theorem isNext_cronList (fires : List Int) (hs : fires.Pairwise (· < ·)) (s0 t : Int) (ht : s0 ≤ t) :
    IsNext (LiveTick (.cronList fires) s0) (cronListNext fires) t := by
  induction fires with
  | nil =>
    simp [IsNext, cronListNext, LiveTick]
  | cons f rest ih =>
    have hs' := List.pairwise_cons.mp hs
    by_cases hf : t < f
    · have hn : cronListNext (f :: rest) t = some f := by simp [cronListNext, hf]
      simp only [IsNext, hn, LiveTick, Bool.and_eq_true, decide_eq_true_eq]
      refine ⟨hf, ⟨by omega, by simp⟩, ?_⟩
      intro u hu ⟨_, hm⟩
      simp only [List.contains_cons, Bool.or_eq_true, beq_iff_eq] at hm
      rcases hm with rfl | hm
      · exact Int.le_refl _
      · have := hs'.1 u (by simpa using hm); omega
    · have hrec := ih hs'.2
      have hn : cronListNext (f :: rest) t = cronListNext rest t := by
        simp [cronListNext, hf]
      have hlive : ∀ u, t < u → LiveTick (.cronList rest) s0 u = LiveTick (.cronList (f :: rest)) s0 u := by
        intro u hu
        have hne : u ≠ f := by omega
        simp [LiveTick, hne]
      have h2 := isNext_congr hlive hrec
      unfold IsNext at h2 ⊢
      rw [hn]; exact h2

/-! ### literal bookkeeping -/

theorem wrapUser_natoms (c : Cond) : (wrapUser c).natoms = c.natoms := by
  unfold wrapUser; split <;> simp [Cond.natoms]

theorem wrapUser_atoms (c : Cond) : (wrapUser c).atoms = c.atoms := by
  unfold wrapUser; split <;> simp [Cond.atoms]

theorem atoms_length (c : Cond) : c.atoms.length = c.natoms := by
  induction c with
  | atom _ => simp [Cond.atoms, Cond.natoms]
  | paren _ ih => simpa [Cond.atoms, Cond.natoms] using ih
  | bin _ l r ihl ihr => simp [Cond.atoms, Cond.natoms, ihl, ihr]

def userAtoms : Option Cond → Nat
  | some c => c.natoms
  | none => 0

theorem splice_set_start (user : Option Cond) (s e s' : Int) :
    (splice user s e).setLit (userAtoms user) s' = splice user s' e := by
  cases user with
  | none => simp [splice, userAtoms, Cond.setLit, geTL, ltTL, Cond.natoms, Atom.setLit]
  | some c => simp [splice, userAtoms, Cond.setLit, geTL, ltTL, Cond.natoms, Atom.setLit, wrapUser_natoms]

theorem splice_set_stop (user : Option Cond) (s e e' : Int) :
    (splice user s e).setLit (userAtoms user + 1) e' = splice user s e' := by
  cases user with
  | none => simp [splice, userAtoms, Cond.setLit, geTL, ltTL, Cond.natoms, Atom.setLit]
  | some c =>
    have h1 : ¬ (c.natoms + 1 < c.natoms) := by omega
    simp [splice, userAtoms, Cond.setLit, geTL, ltTL, Cond.natoms, Atom.setLit, wrapUser_natoms, h1]

/-- no atom of the user's condition carries an in-memory TimeLiteral (true of every parsed text: the
influxql parser has no production for TimeLiteral) -/
def noTL (c : Cond) : Bool := c.atoms.all (fun a => match a with | .time _ _ true => false | _ => true)

def userNoTL : Option Cond → Bool
  | some c => noTL c
  | none => true

theorem walkFrom_append (w : Walk) (i : Nat) (l1 l2 : List Atom) :
    walkFrom w i (l1 ++ l2) = walkFrom (walkFrom w i l1) (i + l1.length) l2 := by
  induction l1 generalizing w i with
  | nil => simp [walkFrom]
  | cons a l ih => simp [walkFrom, ih, Nat.add_assoc, Nat.add_comm 1]

theorem walkFrom_noTL (w : Walk) (i : Nat) (l : List Atom)
    (h : l.all (fun a => match a with | .time _ _ true => false | _ => true) = true) : walkFrom w i l = w := by
  induction l generalizing w i with
  | nil => simp [walkFrom]
  | cons a l ih =>
    simp only [List.all_cons, Bool.and_eq_true] at h
    simp only [walkFrom]
    rw [ih _ _ h.2]
    match a, h.1 with
    | .opq _, _ => simp [walkAtom]
    | .time op v false, _ => cases op <;> simp [walkAtom]

theorem walk_splice (user : Option Cond) (s e : Int) (h : userNoTL user = true) :
    walk (splice user s e) = { start := some (userAtoms user), stop := some (userAtoms user + 1), err := false } := by
  cases user with
  | none => simp [walk, splice, Cond.atoms, geTL, ltTL, walkFrom, walkAtom, userAtoms]
  | some c =>
    simp only [walk, splice, Cond.atoms, wrapUser_atoms, geTL, ltTL, userAtoms]
    rw [walkFrom_append, walkFrom_noTL _ _ _ h]
    simp [walkFrom, walkAtom, atoms_length]

/-- After the user's atoms (whatever the walk found there), the two spliced literals: the walk can only end
without error when it found nothing before, and then it holds exactly their positions. -/
theorem walk_tail (w1 : Walk) (n : Nat) (s e : Int) (i j : Nat) :
    (walkFrom w1 n [.time .ge s true, .time .lt e true]).start = some i →
    (walkFrom w1 n [.time .ge s true, .time .lt e true]).stop = some j →
    (walkFrom w1 n [.time .ge s true, .time .lt e true]).err = false → i = n ∧ j = n + 1 := by
  rcases w1 with ⟨st, sp, er⟩
  cases st <;> cases sp <;> simp [walkFrom, walkAtom] <;> omega

/-- The states the node's query can be in: NewQuery's shape with some times and, under alignGroup, some
group-by offset. -/
def Reach (user : Option Cond) (gb : Option (Int × Int)) (ag : Bool) (q : Query) (extra : String := "") : Prop :=
  ∃ s e g, q = { cond := splice user s e, startIdx := userAtoms user, stopIdx := userAtoms user + 1,
                 gb := g, gbLinked := true, alignGroup := ag, extra := extra } ∧
    g.map (·.1) = gb.map (·.1) ∧ (ag = false → g = gb)

/-- What is issued for a range, as a function of the configuration only. -/
def issueFor (user : Option Cond) (gb : Option (Int × Int)) (ag : Bool) (r : Int × Int) (extra : String := "") : Issued :=
  { cond := parse (splice user r.1 r.2).print,
    gb := if ag then gb.map (fun p => (p.1, Int.tmod r.1 p.1)) else gb,
    extra := extra }

theorem reach_new (user : Option Cond) (gb : Option (Int × Int)) (ag : Bool) (extra : String) :
    Reach user gb ag (newQuery user gb ag extra) extra := by
  refine ⟨0, 0, gb, ?_, rfl, fun _ => rfl⟩
  cases user <;> simp [newQuery, newQueryWith, userAtoms]

theorem reach_setRange {user : Option Cond} {gb : Option (Int × Int)} {ag : Bool} {extra : String} {q : Query}
    (hq : Reach user gb ag q extra) (r : Int × Int) :
    Reach user gb ag (q.setRange r) extra ∧ (q.setRange r).issue = issueFor user gb ag r extra := by
  obtain ⟨s, e, g, rfl, hg1, hg2⟩ := hq
  have hgb : (if ag then g.map (fun p => (p.1, Int.tmod r.1 p.1)) else g) =
             (if ag then gb.map (fun p => (p.1, Int.tmod r.1 p.1)) else gb) := by
    cases ag with
    | false => simp [hg2 rfl]
    | true =>
      cases g with
      | none => cases gb with
        | none => rfl
        | some _ => simp at hg1
      | some a => cases gb with
        | none => simp at hg1
        | some b => simp at hg1; simp [hg1]
  constructor
  · refine ⟨r.1, r.2, (if ag then g.map (fun p => (p.1, Int.tmod r.1 p.1)) else g), ?_, ?_, ?_⟩
    · simp [Query.setRange, Query.setStartTime, Query.setStopTime, splice_set_start, splice_set_stop]
    · cases ag <;> simp [hg1, Option.map_map, Function.comp_def]
    · intro h; subst h; simpa using hg2 rfl
  · simp only [Query.setRange, Query.setStartTime, Query.setStopTime, Query.issue, issueFor,
      splice_set_start, splice_set_stop, Bool.and_true]
    rw [hgb]

theorem reach_clone {user : Option Cond} {gb : Option (Int × Int)} {ag : Bool} {extra : String} {q : Query}
    (hq : Reach user gb ag q extra) (hu : userNoTL user = true) : q.clone = some q := by
  obtain ⟨s, e, g, rfl, _, _⟩ := hq
  simp [Query.clone, Query.cloneWith, walk_splice user s e hu]

theorem liveRun_eq {user : Option Cond} {gb : Option (Int × Int)} {ag : Bool} {extra : String} (offset period : Int) :
    ∀ (ticks : List Int) (q : Query), Reach user gb ag q extra →
      liveRun offset period q ticks = ticks.map (fun T => issueFor user gb ag (tickRange offset period T) extra) := by
  intro ticks
  induction ticks with
  | nil => intro q _; rfl
  | cons T ts ih =>
    intro q hq
    have h := reach_setRange hq (tickRange offset period T)
    simp only [liveRun, doQuery, List.map_cons]
    rw [h.2, ih _ h.1]

theorem mapM_some_map {α β : Type} (f : α → β) (l : List α) : l.mapM (fun a => some (f a)) = some (l.map f) := by
  induction l with
  | nil => rfl
  | cons a l ih => simp [List.mapM_cons, ih]

theorem queries_eq {user : Option Cond} {gb : Option (Int × Int)} {ag : Bool} {extra : String} (next : Int → Option Int)
    (offset period : Int) (q : Query) (hq : Reach user gb ag q extra) (hu : userNoTL user = true)
    (start : Int) (stop : Option Int) (now : Int) :
    queries next offset period q start stop now =
      some ((histTicks next (effStop stop now) now offset (histFuel start (effStop stop now)) start).map
        (fun T => issueFor user gb ag (tickRange offset period T) extra)) := by
  simp only [queries, queriesWith, reach_clone hq hu, Option.map_some]
  have : (fun c => some ((q.setRange (tickRange offset period c)).issue)) =
         (fun c => some (issueFor user gb ag (tickRange offset period c) extra)) := by
    funext c; rw [(reach_setRange hq _).2]
  simp only [this]
  exact mapM_some_map _ _

/-! ### small facts used by the property theorems -/

theorem splice_canon (c : Cond) (s e : Int) (h : c.canon = true) : (splice (some c) s e).canon = true := by
  have hw : (wrapUser c).canon = true ∧ (wrapUser c).notOr = true := by
    unfold wrapUser
    split
    · exact ⟨by simpa [Cond.canon] using h, by simp [Cond.notOr]⟩
    · rename_i hne
      refine ⟨h, ?_⟩
      cases c with
      | atom _ => rfl
      | paren _ => rfl
      | bin o l r => cases o with
        | and => rfl
        | or => exact absurd rfl (hne l r)
  have hi : (Cond.bin .and (geTL s) (ltTL e)).canon = true ∧ (Cond.bin .and (geTL s) (ltTL e)).notOr = true := by
    simp [Cond.canon, Cond.notOr, geTL, ltTL]
  simp only [splice, Cond.canon, hw.1, hw.2, hi.2]
  simp [geTL, ltTL, Cond.canon, Cond.notOr]

theorem wrapUser_eval (c : Cond) (env : Env) : (wrapUser c).eval env = c.eval env := by
  unfold wrapUser; split <;> simp [Cond.eval]

theorem ticksOf_map_tickRange (offset period : Int) (l : List Int) :
    ticksOf offset (l.map (tickRange offset period)) = l := by
  induction l with
  | nil => rfl
  | cons a l ih => simp only [ticksOf, List.map_cons, tickRange] at ih ⊢; rw [ih]; congr 1; omega

/-! Realise the equation lemmas of the definitions the property theorems unfold HERE, so that the audit of
`Kap.Props.C16` lists property theorems only. -/
theorem eqn_realise_1 : histFuel 0 0 = 1 := by simp [histFuel]
theorem eqn_realise_2 : checkDBRPs [] [] = true := by simp [checkDBRPs]
theorem eqn_realise_3 : startBatching [] [] = some [] := by simp [startBatching, checkDBRPs]
theorem eqn_realise_4 : onlyDeclared [] [] = true := by simp [onlyDeclared]
theorem eqn_realise_5 : firstLiveAfter (.cronEvery 1) 0 0 = some 1 := by simp [firstLiveAfter]
theorem eqn_realise_6 : firstLiveAfter (.every 1 true) 0 0 = some (((0 + zeroOff) / 1 + 1) * 1 - zeroOff) := by simp only [firstLiveAfter]
theorem eqn_realise_7 : firstLiveAfter (.every 1 false) 0 0 = some 1 := by simp [firstLiveAfter]
theorem eqn_realise_8 : TOp.eval .ge 0 0 = true := by simp [TOp.eval]
theorem eqn_realise_9 : rangeOfTick 0 0 0 = (0, 0) := by simp [rangeOfTick]
theorem eqn_realise_10 : tickRange 0 0 0 = (0, 0) := by simp [tickRange]
theorem eqn_realise_11 : ticksOf 0 [] = [] := by simp [ticksOf]
theorem eqn_realise_12 : gbAligned 0 (1, 0) = true := by simp [gbAligned]

end Kap.C16
