/-
C16 — helper lemmas about cron schedules evaluated in the host's zone (`cronZoneNext`) and about the live cron
ticker (`cronLiveTicks`). Core Lean only.
-/
import Kap.Proofs.C16Ticks
namespace Kap.C16

/-- In an ascending list `find? (r < ·)` is the least element above `r`; `none`: nothing is above `r`. -/
theorem find_gt_sorted (tod : List Int) (hs : tod.Pairwise (· < ·)) (r : Int) :
    match tod.find? (fun x => decide (r < x)) with
    | some x => x ∈ tod ∧ r < x ∧ ∀ y ∈ tod, r < y → x ≤ y
    | none => ∀ y ∈ tod, y ≤ r := by
  induction tod with
  | nil => simp
  | cons a rest ih =>
    have hs' := List.pairwise_cons.mp hs
    by_cases ha : r < a
    · have hfa : (a :: rest).find? (fun x => decide (r < x)) = some a := by simp [ha]
      rw [hfa]
      refine ⟨by simp, ha, ?_⟩
      intro y hy _
      rcases List.mem_cons.mp hy with rfl | hy
      · exact Int.le_refl _
      · have := hs'.1 y hy; omega
    · have hrec := ih hs'.2
      simp only [List.find?_cons, ha, decide_false]
      split
      · rename_i x hx
        rw [hx] at hrec
        refine ⟨List.mem_cons_of_mem _ hrec.1, hrec.2.1, ?_⟩
        intro y hy hry
        rcases List.mem_cons.mp hy with rfl | hy
        · omega
        · exact hrec.2.2 y hy hry
      · rename_i hx
        rw [hx] at hrec
        intro y hy
        rcases List.mem_cons.mp hy with rfl | hy
        · omega
        · exact hrec y hy

/-- What a named-time-of-day list must look like: ascending, within one day. -/
def TodOk (tod : List Int) : Prop := tod.Pairwise (· < ·) ∧ ∀ x ∈ tod, 0 ≤ x ∧ x < dayNs

/-- `cronZoneNext tod off` is the first instant after `t` at which the clock `off` ahead of UTC shows a named time. -/
theorem isNext_cronZone (tod : List Int) (hok : TodOk tod) (off s0 t : Int) (ht : s0 ≤ t) :
    IsNext (LiveTick (.cronZone tod off) s0) (cronZoneNext tod off) t := by
  obtain ⟨hs, hr⟩ := hok
  have hf := find_gt_sorted tod hs ((t + off) % dayNs)
  unfold IsNext cronZoneNext
  simp only
  split at hf
  · rename_i x hx
    obtain ⟨hmem, hrx, hleast⟩ := hf
    have hxr := hr x hmem
    simp only [hx]
    simp only [dayNs] at hrx hxr hleast ⊢
    refine ⟨by omega, ?_, ?_⟩
    · simp only [LiveTick, dayNs, Bool.and_eq_true, decide_eq_true_eq, List.contains_iff_mem]
      refine ⟨by omega, ?_⟩
      have : ((t + off) / 86400000000000 * 86400000000000 + x - off + off) % 86400000000000 = x := by omega
      rw [this]; exact hmem
    · intro u hu hl
      simp only [LiveTick, dayNs, Bool.and_eq_true, decide_eq_true_eq, List.contains_iff_mem] at hl
      have hy := hr _ hl.2
      simp only [dayNs] at hy
      by_cases hry : (t + off) % 86400000000000 < (u + off) % 86400000000000
      · have := hleast _ hl.2 hry
        omega
      · omega
  · rename_i hx
    simp only [hx]
    cases htod : tod with
    | nil =>
      simp only [List.head?_nil, Option.map_none]
      intro u _
      simp [LiveTick]
    | cons x rest =>
      subst htod
      simp only [List.head?_cons, Option.map_some]
      have hxr := hr x (by simp)
      have hs' := List.pairwise_cons.mp hs
      simp only [dayNs] at hxr hf ⊢
      refine ⟨by omega, ?_, ?_⟩
      · simp only [LiveTick, dayNs, Bool.and_eq_true, decide_eq_true_eq, List.contains_iff_mem]
        refine ⟨by omega, ?_⟩
        have : (((t + off) / 86400000000000 + 1) * 86400000000000 + x - off + off) % 86400000000000 = x := by omega
        rw [this]; simp
      · intro u hu hl
        simp only [LiveTick, dayNs, Bool.and_eq_true, decide_eq_true_eq, List.contains_iff_mem] at hl
        have hy := hr _ hl.2
        have hle := hf _ hl.2
        simp only [dayNs] at hy
        have hxy : x ≤ (u + off) % 86400000000000 := by
          rcases List.mem_cons.mp hl.2 with h | h
          · omega
          · have := hs'.1 _ h; omega
        omega

/-- The spec's search (`firstLiveAfter`: first candidate after `t` among the named times of the clock's current and
next day) and the model's `cronZoneNext` (cronexpr's way: a later time today, else the first one tomorrow) agree. -/
theorem firstLiveAfter_cronZone (tod : List Int) (hok : TodOk tod) (off s0 t : Int) :
    firstLiveAfter (.cronZone tod off) s0 t = cronZoneNext tod off t := by
  obtain ⟨_, hr⟩ := hok
  simp only [firstLiveAfter, cronZoneNext, List.find?_append, List.find?_map]
  have e1 : ((fun T => decide (t < T)) ∘ fun x => (t + off) / dayNs * dayNs + x - off) =
      (fun x => decide ((t + off) % dayNs < x)) := by
    funext x
    show decide (t < (t + off) / dayNs * dayNs + x - off) = decide ((t + off) % dayNs < x)
    rw [decide_eq_decide]
    simp only [dayNs]
    omega
  rw [e1]
  cases hfind : tod.find? (fun x => decide ((t + off) % dayNs < x)) with
  | some x => simp
  | none =>
    simp only [Option.map_none, Option.none_or]
    cases tod with
    | nil => simp
    | cons x rest =>
      have hxr := hr x (by simp)
      have : t < ((t + off) / dayNs + 1) * dayNs + x - off := by
        simp only [dayNs] at hxr ⊢; omega
      simp [this]

/-- The loop of `Queries` and the loop of `cronTicker.Start` walk the same chain of `Next` answers: the historical
ticks are the live ticks up to the first one beyond the span (or whose query would end after `now`) — for ANY `next`,
also one that ends (both loops stop at the zero time). -/
theorem histTicks_eq_live_takeWhile (next : Int → Option Int)
    (stop now offset : Int) : ∀ (n : Nat) (s0 : Int),
    histTicks next stop now offset n s0 =
      (cronLiveTicks next n s0).takeWhile (fun c => decide (c ≤ stop) && decide (c - offset ≤ now)) := by
  intro n
  induction n with
  | zero => intro s0; simp [histTicks, cronLiveTicks]
  | succ n ih =>
    intro s0
    unfold histTicks cronLiveTicks
    cases h : next s0 with
    | none => simp
    | some c =>
      simp only
      by_cases h1 : c > stop
      · simp [h1, show ¬ c ≤ stop by omega]
      · by_cases h2 : c - offset > now
        · simp [h1, h2, show ¬ c - offset ≤ now by omega]
        · simp only [h1, h2, ↓reduceIte, List.takeWhile_cons, show c ≤ stop by omega, show c - offset ≤ now by omega,
            decide_true, Bool.and_self]
          rw [ih c]

theorem cronZoneNext_isSome (tod : List Int) (hne : tod ≠ []) (off t : Int) : (cronZoneNext tod off t).isSome = true := by
  unfold cronZoneNext
  simp only
  split
  · rfl
  · cases tod with
    | nil => exact absurd rfl hne
    | cons x rest => simp

end Kap.C16
