/-
C17 — helper lemmas, part 1: association lists, the btree list operations, the comparator.
-/
import Kap.Spec.C17
namespace Kap.C17

/-! ### association lists -/

theorem aget_adel {α} (l : List (Nat × α)) (k k' : Nat) :
    aget (adel l k) k' = if k = k' then none else aget l k' := by
  induction l with
  | nil => simp [adel, aget]
  | cons p r ih =>
    obtain ⟨a, v⟩ := p
    unfold adel at ih ⊢
    by_cases h : a = k
    · subst h
      simp only [List.filter, ne_eq, not_true_eq_false, decide_false]
      rw [ih]
      by_cases h2 : a = k'
      · simp [h2]
      · simp [aget, h2]
    · have : decide ((a, v).1 ≠ k) = true := by simp [h]
      simp only [List.filter, this]
      simp only [aget]
      rw [ih]
      by_cases h2 : a = k'
      · subst h2; simp [Ne.symm h]
      · simp [h2]

theorem aget_aset {α} (l : List (Nat × α)) (k k' : Nat) (v : α) :
    aget (aset l k v) k' = if k = k' then some v else aget l k' := by
  unfold aset
  simp only [aget]
  by_cases h : k = k'
  · simp [h]
  · simp [h, aget_adel]

/-! ### the comparator -/

/-- The regenerated comparator, spelled out (breaks when the field order in the source changes). -/
theorem less_def (a b : Item) :
    less a b = (decide (a.whn < b.whn) || (decide (a.whn = b.whn) && decide (a.id < b.id))) := by
  have h : less a b = (decide (a.whn < b.whn) || (decide (a.whn = b.whn) &&
      (decide ((a.id : Int) < (b.id : Int)) || (decide ((a.id : Int) = (b.id : Int)) && false)))) := rfl
  rw [h]
  simp [Int.ofNat_lt]

/-- The regenerated due test, spelled out. -/
theorem isDue_def (now : Int) (it : Item) : isDue now it = decide (it.next + secUp it.off ≤ now) := by
  have h : isDue now it = decide (0 + it.next + secUp it.off ≤ now) := rfl
  rw [h]
  simp

/-! ### the whole-second offset of an item -/

/-- Rounding the offset to whole seconds never makes it smaller: an item that is due by its whole-second `Offset`
is due by the exact offset. -/
theorem le_secUp (o : Int) : o ≤ secUp o * 1000 := by
  unfold secUp early
  have h1 := Int.mul_tdiv_add_tmod o 1000
  have h2 := Int.tmod_lt_of_pos o (by decide : (0 : Int) < 1000)
  split <;> omega

/-- `Item.runAt()`: `when - roundedUp` is next plus the whole seconds (truncated toward zero) of the offset. -/
theorem secUp_sub_early (o : Int) : secUp o - early o = o.tdiv 1000 := by
  unfold secUp; omega


theorem same_iff (a b : Item) : same a b = true ↔ a.whn = b.whn ∧ a.id = b.id := by
  unfold same
  rw [less_def, less_def]
  simp only [Bool.and_eq_true, Bool.not_eq_true', Bool.or_eq_false_iff, decide_eq_false_iff_not,
    Bool.and_eq_false_iff]
  constructor
  · rintro ⟨⟨h1, h2⟩, ⟨h3, h4⟩⟩
    have hw : a.whn = b.whn := by omega
    refine ⟨hw, ?_⟩
    rcases h2 with h2 | h2
    · exact absurd hw h2
    · rcases h4 with h4 | h4
      · exact absurd hw.symm h4
      · omega
  · rintro ⟨h1, h2⟩
    refine ⟨⟨by omega, Or.inr (by omega)⟩, ⟨by omega, Or.inr (by omega)⟩⟩

theorem same_false_of_id_ne {a b : Item} (h : a.id ≠ b.id) : same a b = false := by
  cases hs : same a b with
  | false => rfl
  | true => exact absurd ((same_iff a b).mp hs).2 h

theorem less_irrefl (a : Item) : less a a = false := by
  rw [less_def]; simp

theorem less_asymm {a b : Item} (h : less a b = true) : less b a = false := by
  rw [less_def] at *
  simp only [Bool.or_eq_true, decide_eq_true_eq, Bool.and_eq_true] at h
  simp only [Bool.or_eq_false_iff, decide_eq_false_iff_not, Bool.and_eq_false_iff]
  rcases h with h | ⟨h1, h2⟩
  · exact ⟨by omega, Or.inl (by omega)⟩
  · exact ⟨by omega, Or.inr (by omega)⟩

theorem less_trans {a b c : Item} (h1 : less a b = true) (h2 : less b c = true) : less a c = true := by
  rw [less_def] at *
  simp only [Bool.or_eq_true, decide_eq_true_eq, Bool.and_eq_true] at *
  rcases h1 with h1 | ⟨h1, h1'⟩ <;> rcases h2 with h2 | ⟨h2, h2'⟩
  · left; omega
  · left; omega
  · left; omega
  · right; exact ⟨by omega, by omega⟩

theorem less_total {a b : Item} (h : same a b = false) : less a b = true ∨ less b a = true := by
  unfold same at h
  cases h1 : less a b <;> cases h2 : less b a <;> simp_all

/-! ### btree as a list -/

theorem mem_qdelete {q : List Item} {k x : Item} : x ∈ qdelete q k ↔ x ∈ q ∧ same x k = false := by
  unfold qdelete
  simp [List.mem_filter]

theorem mem_qinsert {q : List Item} {x y : Item} : y ∈ qinsert q x ↔ y = x ∨ y ∈ q := by
  induction q with
  | nil => simp [qinsert]
  | cons z zs ih =>
    unfold qinsert
    split
    · simp
    · simp only [List.mem_cons, ih]
      constructor
      · rintro (h | h | h)
        · exact Or.inr (Or.inl h)
        · exact Or.inl h
        · exact Or.inr (Or.inr h)
      · rintro (h | h | h)
        · exact Or.inr (Or.inl h)
        · exact Or.inl h
        · exact Or.inr (Or.inr h)

theorem mem_qreplace {q : List Item} {x y : Item} : y ∈ qreplace q x ↔ y = x ∨ (y ∈ q ∧ same y x = false) := by
  unfold qreplace
  rw [mem_qinsert, mem_qdelete]

/-- The list stays ordered by `Less` (what `Ascend`/`Min` rely on). -/
def Sorted (l : List Item) : Prop := l.Pairwise (fun a b => less a b = true)

theorem sorted_qdelete {q : List Item} {k : Item} (hs : Sorted q) : Sorted (qdelete q k) :=
  List.Pairwise.filter _ hs

theorem sorted_qinsert {q : List Item} {x : Item} (hs : Sorted q) (hne : ∀ y ∈ q, same y x = false) :
    Sorted (qinsert q x) := by
  induction q with
  | nil => simp [qinsert, Sorted]
  | cons z zs ih =>
    unfold Sorted at hs ih ⊢
    rw [List.pairwise_cons] at hs
    unfold qinsert
    split
    · rename_i h
      rw [List.pairwise_cons]
      refine ⟨?_, List.pairwise_cons.mpr hs⟩
      intro y hy
      rcases List.mem_cons.mp hy with rfl | hy
      · exact h
      · exact less_trans h (hs.1 y hy)
    · rename_i h
      have hzx : less z x = true := by
        rcases less_total (hne z (by simp)) with h' | h'
        · exact h'
        · exact absurd h' h
      rw [List.pairwise_cons]
      refine ⟨?_, ih hs.2 (fun y hy => hne y (by simp [hy]))⟩
      intro y hy
      rcases mem_qinsert.mp hy with rfl | hy
      · exact hzx
      · exact hs.1 y hy

theorem sorted_qreplace {q : List Item} {x : Item} (hs : Sorted q) : Sorted (qreplace q x) := by
  unfold qreplace
  apply sorted_qinsert (sorted_qdelete hs)
  intro y hy; exact (mem_qdelete.mp hy).2

end Kap.C17
