/-
C17 — helper lemmas, part 7: the loop fuel suffices, and `settle` always ends in a `Quiescent` state.

`loopRun` stops by itself (before its fuel is used up) because
  * a pass of the inner loop that goes round again and changed the history has handed an item to an IDLE worker, and
    workers only become idle again through a `done` action, never inside the loop: at most one such pass per worker;
  * a pass that goes round again without having changed the history left the state as it was (the loop spins);
  * every other pass leaves the inner loop, which is re-entered only by consuming a tick, and the loop never creates
    a tick (only the timer does).
Measure: idle workers + [inside the inner loop] + 2·[a tick is waiting].

`settle` = run, fire, run, fire, run.  After a run the loop is parked or stuck; firing the timer then wakes it at most
once more, and the pass it causes ends stuck, parked with the timer unarmed / armed in the future, or parked behind
the NEGATIVE `Reset` of the main loop, whose deadline has passed: firing that one re-tests the head, finds it not due
and re-arms the same deadline — exactly the state it started from.
-/
import Kap.Proofs.C17Live
namespace Kap.C17

/-! ### counting idle workers -/

theorem countP_le_of_imp {α} {p q : α → Bool} : ∀ (l : List α), (∀ x ∈ l, p x = true → q x = true) →
    l.countP p ≤ l.countP q
  | [], _ => Nat.le_refl _
  | x :: r, h => by
    have ih := countP_le_of_imp r (fun y hy => h y (by simp [hy]))
    have hx := h x (by simp)
    simp only [List.countP_cons]
    cases hp : p x <;> cases hq : q x <;> simp_all <;> omega

theorem countP_lt_of_imp {α} {p q : α → Bool} : ∀ (l : List α), (∀ x ∈ l, p x = true → q x = true) →
    ∀ w ∈ l, q w = true → p w = false → l.countP p < l.countP q
  | [], _, w, hw, _, _ => by simp at hw
  | x :: r, h, w, hw, hqw, hpw => by
    have hle := countP_le_of_imp r (fun y hy => h y (by simp [hy]))
    have hx := h x (by simp)
    simp only [List.countP_cons]
    rcases List.mem_cons.mp hw with rfl | hw
    · simp [hqw, hpw]; omega
    · have ih := countP_lt_of_imp r (fun y hy => h y (by simp [hy])) w hw hqw hpw
      cases hp : p x <;> cases hq : q x <;> simp_all <;> omega

/-- Number of idle workers among the workers `0 … W-1`. -/
def idleN (W : Nat) (b : List (Nat × Item)) : Nat := (List.range W).countP (fun w => (aget b w).isNone)

theorem idleN_le (W : Nat) (b : List (Nat × Item)) : idleN W b ≤ W := by
  unfold idleN
  have := List.countP_le_length (p := fun w => (aget b w).isNone) (l := List.range W)
  simpa using this

theorem idleN_aset_le (W : Nat) (b : List (Nat × Item)) (w : Nat) (it : Item) :
    idleN W (aset b w it) ≤ idleN W b := by
  unfold idleN
  apply countP_le_of_imp
  intro x _ hx
  rw [aget_aset] at hx
  by_cases h : w = x
  · simp [h] at hx
  · simpa [h] using hx

theorem idleN_aset_lt (W : Nat) (b : List (Nat × Item)) (w : Nat) (it : Item) (hw : w < W) (hb : aget b w = none) :
    idleN W (aset b w it) < idleN W b := by
  unfold idleN
  apply countP_lt_of_imp _ _ w (List.mem_range.mpr hw)
  · simp [hb]
  · simp [aget_aset]
  · intro x _ hx
    rw [aget_aset] at hx
    by_cases h : w = x
    · simp [h] at hx
    · simpa [h] using hx

/-! ### one visit, one Ascend pass -/

/-- A visit that leaves the event list as long as it was did nothing at all. -/
theorem visit_same (E : Env) (a : PAcc) (x : Item) (h : (visit E [] a x).evs.length = a.evs.length) :
    visit E [] a x = a := by
  unfold visit at h ⊢
  simp only [List.contains_nil, Bool.false_eq_true, ite_false] at h ⊢
  cases hbx : aget a.busy (E.wk x.id) with
  | some _ => rfl
  | none =>
    rw [hbx] at h
    simp only at h
    split at h <;> simp at h <;> omega

theorem visit_idle_le (E : Env) (W : Nat) (a : PAcc) (x : Item) :
    idleN W (visit E [] a x).busy ≤ idleN W a.busy := by
  unfold visit
  simp only [List.contains_nil, Bool.false_eq_true, ite_false]
  cases hbx : aget a.busy (E.wk x.id) with
  | some _ => exact Nat.le_refl _
  | none =>
    simp only
    split <;> exact idleN_aset_le W a.busy _ _

theorem visit_idle_lt (E : Env) (W : Nat) (hwk : ∀ id, E.wk id < W) (a : PAcc) (x : Item)
    (h : (visit E [] a x).evs.length ≠ a.evs.length) : idleN W (visit E [] a x).busy < idleN W a.busy := by
  unfold visit at h ⊢
  simp only [List.contains_nil, Bool.false_eq_true, ite_false] at h ⊢
  cases hbx : aget a.busy (E.wk x.id) with
  | some _ => rw [hbx] at h; exact absurd rfl h
  | none =>
    simp only
    split <;> exact idleN_aset_lt W a.busy _ _ (hwk x.id) hbx

theorem fold_same (E : Env) : ∀ (l : List Item) (a : PAcc),
    (l.foldl (visit E []) a).evs.length = a.evs.length → l.foldl (visit E []) a = a
  | [], _, _ => rfl
  | x :: r, a, h => by
    simp only [List.foldl] at h ⊢
    have hm := fold_evs_mono E r (visit E [] a x)
    have hv := visit_evs_mono E a x
    have hx : visit E [] a x = a := visit_same E a x (by omega)
    rw [hx] at h ⊢
    exact fold_same E r a h

theorem fold_idle_le (E : Env) (W : Nat) : ∀ (l : List Item) (a : PAcc),
    idleN W (l.foldl (visit E []) a).busy ≤ idleN W a.busy
  | [], _ => Nat.le_refl _
  | x :: r, a => Nat.le_trans (fold_idle_le E W r _) (visit_idle_le E W a x)

theorem fold_idle_lt (E : Env) (W : Nat) (hwk : ∀ id, E.wk id < W) : ∀ (l : List Item) (a : PAcc),
    (l.foldl (visit E []) a).evs.length ≠ a.evs.length →
    idleN W (l.foldl (visit E []) a).busy < idleN W a.busy
  | [], _, h => absurd rfl h
  | x :: r, a, h => by
    simp only [List.foldl] at h ⊢
    by_cases hx : (visit E [] a x).evs.length = a.evs.length
    · have hv := visit_same E a x hx
      rw [hv] at h ⊢
      exact fold_idle_lt E W hwk r a h
    · exact Nat.lt_of_le_of_lt (fold_idle_le E W r _) (visit_idle_lt E W hwk a x hx)

/-! ### `process` -/

theorem process_same (E : Env) (s : St) (h : (process E [] s).trace.length = s.trace.length) :
    process E [] s = s := by
  unfold process at h ⊢
  simp only [List.length_append] at h
  have h0 : ((s.queue.takeWhile (isDue s.now)).foldl (visit E []) { busy := s.busy }).evs.length
      = ({ busy := s.busy } : PAcc).evs.length := by simp only [List.length_nil]; omega
  have hf := fold_same E _ _ h0
  simp only [hf, List.foldl_nil, List.nil_append]

theorem process_idle_le (E : Env) (W : Nat) (s : St) : idleN W (process E [] s).busy ≤ idleN W s.busy :=
  fold_idle_le E W _ { busy := s.busy }

theorem process_idle_lt (E : Env) (W : Nat) (hwk : ∀ id, E.wk id < W) (s : St)
    (h : (process E [] s).trace.length ≠ s.trace.length) : idleN W (process E [] s).busy < idleN W s.busy := by
  apply fold_idle_lt E W hwk _ { busy := s.busy }
  intro h0
  apply h
  unfold process
  simp only [List.length_append, h0, List.length_nil, Nat.zero_add]

/-! ### one pass of the inner loop -/

theorem process_now (E : Env) (sk : List Nat) (s : St) : (process E sk s).now = s.now := rfl
theorem process_tick (E : Env) (sk : List Nat) (s : St) : (process E sk s).tick = s.tick := rfl
theorem process_timer (E : Env) (sk : List Nat) (s : St) : (process E sk s).timer = s.timer := rfl
theorem process_spinning (E : Env) (sk : List Nat) (s : St) : (process E sk s).spinning = s.spinning := rfl
theorem process_upd (E : Env) (sk : List Nat) (s : St) (w : Option Int) (tm : Option Int) (t sp : Bool) :
    process E sk { s with swhen := w, timer := tm, tick := t, spinning := sp } =
      { process E sk s with swhen := w, timer := tm, tick := t, spinning := sp } := rfl

/-- The five ways a pass of the inner loop can go. -/
theorem loopIter_cases (E : Env) (sk : List Nat) (s : St) :
    (s.queue.head? = none ∧ loopIter E sk s = ({ s with swhen := none }, false)) ∨
    (∃ it, s.queue.head? = some it ∧ it.whn > s.now ∧
      loopIter E sk s = ({ s with timer := some (s.now * 1000 + (s.now * 1000 - it.whn * 1000)) }, false)) ∨
    (∃ it, s.queue.head? = some it ∧ ¬ it.whn > s.now ∧ (process E sk s).queue.head? = none ∧
      loopIter E sk s = ({ process E sk s with swhen := none }, false)) ∨
    (∃ it it1, s.queue.head? = some it ∧ ¬ it.whn > s.now ∧ (process E sk s).queue.head? = some it1 ∧
      it1.whn - s.now > 0 ∧
      loopIter E sk s = ({ process E sk s with swhen := some ((s.now + (it1.whn - s.now)) * 1000),
                                               timer := some ((s.now + (it1.whn - s.now)) * 1000) }, false)) ∨
    (∃ it it1, s.queue.head? = some it ∧ ¬ it.whn > s.now ∧ (process E sk s).queue.head? = some it1 ∧
      ¬ it1.whn - s.now > 0 ∧
      loopIter E sk s = ({ process E sk s with swhen := some (it1.whn * 1000) }, true)) := by
  unfold loopIter
  cases hh : s.queue.head? with
  | none => exact Or.inl ⟨rfl, rfl⟩
  | some it =>
    right
    simp only
    by_cases hd : it.whn > s.now
    · left
      exact ⟨it, rfl, hd, by simp only [hd, ite_true]⟩
    · right
      simp only [hd, ite_false]
      cases hh1 : (process E sk s).queue.head? with
      | none => exact Or.inl ⟨it, rfl, hd, rfl, rfl⟩
      | some it1 =>
        right
        simp only [process_now]
        by_cases hu : it1.whn - s.now > 0
        · left
          exact ⟨it, it1, rfl, hd, rfl, hu, by simp only [hu, ite_true]⟩
        · right
          exact ⟨it, it1, rfl, hd, rfl, hu, by simp only [hu, ite_false]⟩

theorem loopIter_tick (E : Env) (sk : List Nat) (s : St) : (loopIter E sk s).1.tick = s.tick := by
  rcases loopIter_cases E sk s with ⟨_, he⟩ | ⟨_, _, _, he⟩ | ⟨_, _, _, _, he⟩ | ⟨_, _, _, _, _, _, he⟩ |
    ⟨_, _, _, _, _, _, he⟩ <;> rw [he] <;> rfl

theorem loopIter_spinning (E : Env) (sk : List Nat) (s : St) : (loopIter E sk s).1.spinning = s.spinning := by
  rcases loopIter_cases E sk s with ⟨_, he⟩ | ⟨_, _, _, he⟩ | ⟨_, _, _, _, he⟩ | ⟨_, _, _, _, _, _, he⟩ |
    ⟨_, _, _, _, _, _, he⟩ <;> rw [he] <;> rfl

/-- A pass that goes round again does not touch the timer. -/
theorem loopIter_timer_of_again (E : Env) (sk : List Nat) (s : St) (h2 : (loopIter E sk s).2 = true) :
    (loopIter E sk s).1.timer = s.timer := by
  rcases loopIter_cases E sk s with ⟨_, he⟩ | ⟨_, _, _, he⟩ | ⟨_, _, _, _, he⟩ | ⟨_, _, _, _, _, _, he⟩ |
    ⟨_, _, _, _, _, _, he⟩ <;> rw [he] at h2 <;> rw [he]
  all_goals first | rfl | exact absurd h2 (by simp)

theorem loopIter_idle_le (E : Env) (W : Nat) (s : St) : idleN W (loopIter E [] s).1.busy ≤ idleN W s.busy := by
  rcases loopIter_cases E [] s with ⟨_, he⟩ | ⟨_, _, _, he⟩ | ⟨_, _, _, _, he⟩ | ⟨_, _, _, _, _, _, he⟩ |
    ⟨_, _, _, _, _, _, he⟩ <;> rw [he]
  · exact Nat.le_refl _
  · exact Nat.le_refl _
  · exact process_idle_le E W s
  · exact process_idle_le E W s
  · exact process_idle_le E W s

theorem loopIter_idle_lt (E : Env) (W : Nat) (hwk : ∀ id, E.wk id < W) (s : St)
    (h : (loopIter E [] s).1.trace.length ≠ s.trace.length) :
    idleN W (loopIter E [] s).1.busy < idleN W s.busy := by
  rcases loopIter_cases E [] s with ⟨_, he⟩ | ⟨_, _, _, he⟩ | ⟨_, _, _, _, he⟩ | ⟨_, _, _, _, _, _, he⟩ |
    ⟨_, _, _, _, _, _, he⟩ <;> rw [he] at h ⊢
  · exact absurd rfl h
  · exact absurd rfl h
  · exact process_idle_lt E W hwk s h
  · exact process_idle_lt E W hwk s h
  · exact process_idle_lt E W hwk s h

/-- The loop SPINS: a pass that goes round again without having changed the history is repeated identically. -/
theorem loopIter_stuck (E : Env) (s : St) (h2 : (loopIter E [] s).2 = true)
    (h : (loopIter E [] s).1.trace.length = s.trace.length) :
    loopIter E [] (loopIter E [] s).1 = ((loopIter E [] s).1, true) := by
  rcases loopIter_cases E [] s with ⟨_, he⟩ | ⟨_, _, _, he⟩ | ⟨_, _, _, _, he⟩ | ⟨_, _, _, _, _, _, he⟩ |
    ⟨it, it1, hh, hd, hh1, hu, he⟩ <;> rw [he] at h2 h ⊢
  · cases h2
  · cases h2
  · cases h2
  · cases h2
  · have hp : process E [] s = s := process_same E s h
    rw [hp] at hh1 ⊢
    simp only
    have hpw : process E [] { s with swhen := some (it1.whn * 1000) } = { s with swhen := some (it1.whn * 1000) } := by
      have := process_upd E [] s (some (it1.whn * 1000)) s.timer s.tick s.spinning
      rw [hp] at this
      exact this
    rw [hh] at hh1
    simp only [Option.some.injEq] at hh1
    subst hh1
    unfold loopIter
    simp only [hh, hd, ite_false, hpw, hu]

/-- Changing the pending tick and the timer does not change a pass that goes round again. -/
theorem loopIter_again_upd (E : Env) (s : St) (h : loopIter E [] s = (s, true)) (t : Bool) (tm : Option Int) :
    loopIter E [] { s with tick := t, timer := tm } = ({ s with tick := t, timer := tm }, true) := by
  rcases loopIter_cases E [] s with ⟨_, he⟩ | ⟨_, _, _, he⟩ | ⟨_, _, _, _, he⟩ | ⟨_, _, _, _, _, _, he⟩ |
    ⟨it, it1, hh, hd, hh1, hu, he⟩ <;> rw [he] at h
  · cases (Prod.mk.inj h).2
  · cases (Prod.mk.inj h).2
  · cases (Prod.mk.inj h).2
  · cases (Prod.mk.inj h).2
  · have h1 := (Prod.mk.inj h).1
    have hpu : process E [] { s with tick := t, timer := tm } =
        { process E [] s with tick := t, timer := tm } := process_upd E [] s s.swhen tm t s.spinning
    unfold loopIter
    simp only [hh, hd, ite_false, hpu, hh1, process_now, hu]
    rw [Prod.mk.injEq]
    refine ⟨?_, rfl⟩
    have : ({ process E [] s with swhen := some (it1.whn * 1000) } : St) = s := h1
    calc ({ process E [] s with tick := t, timer := tm, swhen := some (it1.whn * 1000) } : St)
        = { ({ process E [] s with swhen := some (it1.whn * 1000) } : St) with tick := t, timer := tm } := rfl
      _ = { s with tick := t, timer := tm } := by rw [this]

/-! ### the loop comes to rest within its fuel -/

/-- The main loop cannot move: parked at its `select` with no tick, or spinning (its pass reproduces the state). -/
def Rest (E : Env) (s : St) : Prop :=
  (s.spinning = false ∧ s.tick = false) ∨ (s.spinning = true ∧ loopIter E [] s = (s, true))

theorem rest_loopRun {E : Env} {s : St} (h : Rest E s) : ∀ f, loopRun E [] f s = s
  | 0 => rfl
  | f + 1 => by
    unfold loopRun
    rcases h with ⟨h1, h2⟩ | ⟨h1, h2⟩
    · simp only [h1, h2, Bool.false_eq_true, ite_false]
    · simp only [h1, h2, ite_true]

/-- idle workers + [inside the inner loop] + 2·[a tick is waiting] -/
def mu (W : Nat) (s : St) : Nat :=
  idleN W s.busy + (if s.spinning then 1 else 0) + (if s.tick then 2 else 0)

theorem loopRun_rest (E : Env) (W : Nat) (hwk : ∀ id, E.wk id < W) :
    ∀ (f : Nat) (s : St), mu W s ≤ f → Rest E (loopRun E [] f s) := by
  intro f
  induction f with
  | zero =>
    intro s hm
    unfold mu at hm
    have h1 : s.spinning = false := by cases h : s.spinning <;> simp_all
    have h2 : s.tick = false := by cases h : s.tick <;> simp_all
    exact Or.inl ⟨h1, h2⟩
  | succ f ih =>
    intro s hm
    unfold loopRun
    by_cases hsp : s.spinning = true
    · simp only [hsp, ite_true]
      by_cases hc : (loopIter E [] s).2 = true
      · simp only [hc, ite_true]
        by_cases hl : (loopIter E [] s).1.trace.length = s.trace.length
        · simp only [hl, ite_true]
          exact Or.inr ⟨by rw [loopIter_spinning, hsp], loopIter_stuck E s hc hl⟩
        · simp only [hl, ite_false]
          apply ih
          have hlt := loopIter_idle_lt E W hwk s hl
          unfold mu at hm ⊢
          rw [loopIter_spinning, loopIter_tick]
          omega
      · have hc' : (loopIter E [] s).2 = false := by simpa using hc
        simp only [hc', Bool.false_eq_true, ite_false]
        apply ih
        have hle := loopIter_idle_le E W s
        unfold mu at hm ⊢
        simp only [Bool.false_eq_true, ite_false, loopIter_tick]
        simp only [hsp, ite_true] at hm
        omega
    · have hsp' : s.spinning = false := by simpa using hsp
      simp only [hsp', Bool.false_eq_true, ite_false]
      by_cases ht : s.tick = true
      · simp only [ht, ite_true]
        apply ih
        unfold mu at hm ⊢
        simp only [hsp', ht, Bool.false_eq_true, ite_false, ite_true] at hm ⊢
        omega
      · have ht' : s.tick = false := by simpa using ht
        simp only [ht', Bool.false_eq_true, ite_false]
        exact Or.inl ⟨hsp', ht'⟩

theorem mu_le (W : Nat) (s : St) : mu W s ≤ W + 3 := by
  unfold mu
  have := idleN_le W s.busy
  split <;> split <;> omega

/-! ### quiescence -/

theorem kick_none {s : St} (h2 : s.timer = none) : kick s = s := by
  unfold kick; simp [h2]

theorem kick_tick {s : St} (h : s.tick = true) : kick s = s := by
  unfold kick; simp [h]

theorem kick_future {s : St} {d : Int} (h2 : s.timer = some d) (h3 : ¬ d ≤ s.now * 1000) : kick s = s := by
  unfold kick; simp [h2, h3]

theorem kick_past {s : St} {d : Int} (h1 : s.tick = false) (h2 : s.timer = some d) (h3 : d ≤ s.now * 1000) :
    kick s = { s with tick := true, timer := none } := by
  unfold kick; simp [h1, h2, h3]

theorem quiescent_of_rest {E : Env} {s : St} (h : Rest E s) (hk : kick s = s) : Quiescent E s :=
  ⟨rest_loopRun h 1, by rw [hk]; exact rest_loopRun h 2⟩

theorem loopRun_wake (E : Env) (f : Nat) (p : St) (hsp : p.spinning = false) (htk : p.tick = true) :
    loopRun E [] (f + 1) p = loopRun E [] f { p with tick := false, spinning := true } := by
  conv => lhs; unfold loopRun
  simp only [hsp, htk, Bool.false_eq_true, ite_false, ite_true]

theorem loopRun_one_exit (E : Env) (c : St) (hsp : c.spinning = true) (h2 : (loopIter E [] c).2 = false) :
    loopRun E [] 1 c = { (loopIter E [] c).1 with spinning := false } := by
  unfold loopRun
  simp only [hsp, h2, Bool.false_eq_true, ite_false, ite_true, loopRun]

/-- The pass that leaves the inner loop (woken with the timer unarmed and no further tick) parks the loop in a
quiescent state: the queue is empty, or the timer is armed in the future, or — head not due, the NEGATIVE `Reset` —
the timer fires again at once, the head is re-tested, found not due, and the same deadline is armed again. -/
theorem exit_requiescent (E : Env) (c : St) (hsp : c.spinning = true) (htk : c.tick = false)
    (htm : c.timer = none) (h2 : (loopIter E [] c).2 = false) :
    Quiescent E { (loopIter E [] c).1 with spinning := false } := by
  rcases loopIter_cases E [] c with ⟨_, he⟩ | ⟨it, hh, hd, he⟩ | ⟨_, _, _, _, he⟩ | ⟨_, it1, _, _, _, hu, he⟩ |
    ⟨_, _, _, _, _, _, he⟩
  · rw [he]
    exact quiescent_of_rest (Or.inl ⟨rfl, htk⟩) (kick_none htm)
  · let p : St := { (loopIter E [] c).1 with spinning := false }
    have hp1 : p.tick = false := by
      show (loopIter E [] c).1.tick = false
      rw [loopIter_tick]; exact htk
    have hp2 : p.timer = some (c.now * 1000 + (c.now * 1000 - it.whn * 1000)) := by
      show (loopIter E [] c).1.timer = _
      rw [he]
    have hp3 : p.now = c.now := by
      show (loopIter E [] c).1.now = _
      rw [he]
    have hk : kick p = { p with tick := true, timer := none } := kick_past hp1 hp2 (by rw [hp3]; omega)
    have hc : ({ ({ p with tick := true, timer := none } : St) with tick := false, spinning := true } : St) = c := by
      show ({ ({ ({ (loopIter E [] c).1 with spinning := false } : St) with tick := true, timer := none } : St)
        with tick := false, spinning := true } : St) = c
      rw [he]; cases c; simp_all
    refine ⟨rest_loopRun (Or.inl ⟨rfl, hp1⟩) 1, ?_⟩
    show loopRun E [] 2 (kick p) = p
    rw [hk, loopRun_wake E 1 _ rfl rfl, hc, loopRun_one_exit E c hsp h2]
  · rw [he]
    exact quiescent_of_rest (Or.inl ⟨rfl, htk⟩) (kick_none htm)
  · rw [he]
    refine quiescent_of_rest (Or.inl ⟨rfl, htk⟩)
      (kick_future (d := (c.now + (it1.whn - c.now)) * 1000) rfl (by simp only [process_now]; omega))
  · rw [he] at h2; cases h2

/-- Woken by a tick, with the timer unarmed: the loop comes to rest in a quiescent state. -/
theorem wake_quiescent (E : Env) (W : Nat) (hwk : ∀ id, E.wk id < W) :
    ∀ (f : Nat) (c : St), c.spinning = true → c.tick = false → c.timer = none → idleN W c.busy + 1 ≤ f →
      Quiescent E (loopRun E [] f c) := by
  intro f
  induction f with
  | zero => intro c _ _ _ h; omega
  | succ f ih =>
    intro c hsp htk htm hf
    unfold loopRun
    simp only [hsp, ite_true]
    by_cases hc : (loopIter E [] c).2 = true
    · simp only [hc, ite_true]
      by_cases hl : (loopIter E [] c).1.trace.length = c.trace.length
      · simp only [hl, ite_true]
        exact quiescent_of_rest (Or.inr ⟨by rw [loopIter_spinning, hsp], loopIter_stuck E c hc hl⟩)
          (kick_none (by rw [loopIter_timer_of_again E [] c hc, htm]))
      · simp only [hl, ite_false]
        apply ih
        · rw [loopIter_spinning, hsp]
        · rw [loopIter_tick, htk]
        · rw [loopIter_timer_of_again E [] c hc, htm]
        · have := loopIter_idle_lt E W hwk c hl
          omega
    · have hc' : (loopIter E [] c).2 = false := by simpa using hc
      simp only [hc', Bool.false_eq_true, ite_false]
      have hq := exit_requiescent E c hsp htk htm hc'
      rw [rest_loopRun (Or.inl ⟨rfl, by rw [loopIter_tick]; exact htk⟩) f]
      exact hq

/-- Run, then fire the timer, then run: quiescent. -/
theorem rest_kick_quiescent (E : Env) (W : Nat) (hwk : ∀ id, E.wk id < W) (x : St) (hx : Rest E x)
    (f : Nat) (hf : W + 2 ≤ f) : Quiescent E (loopRun E [] f (kick x)) := by
  by_cases htk : x.tick = true
  · rw [kick_tick htk, rest_loopRun hx]
    exact quiescent_of_rest hx (kick_tick htk)
  · have htk' : x.tick = false := by simpa using htk
    cases htm : x.timer with
    | none =>
      rw [kick_none htm, rest_loopRun hx]
      exact quiescent_of_rest hx (kick_none htm)
    | some d =>
      by_cases hd : d ≤ x.now * 1000
      · rw [kick_past htk' htm hd]
        rcases hx with ⟨h1, _⟩ | ⟨h1, h2⟩
        · -- parked: the tick wakes the loop
          obtain ⟨f', rfl⟩ : ∃ f', f = f' + 1 := ⟨f - 1, by omega⟩
          unfold loopRun
          simp only [h1, Bool.false_eq_true, ite_false, ite_true]
          apply wake_quiescent E W hwk f' _ rfl rfl rfl
          have := idleN_le W x.busy
          simp only
          omega
        · -- spinning: the tick stays behind the spinning loop
          have hk := loopIter_again_upd E x h2 true none
          have hr : Rest E { x with tick := true, timer := none } := Or.inr ⟨h1, hk⟩
          rw [rest_loopRun hr]
          exact quiescent_of_rest hr (kick_tick rfl)
      · rw [kick_future htm hd, rest_loopRun hx]
        exact quiescent_of_rest hx (kick_future htm hd)

/-- **`settle` always ends in a quiescent state** when the workers are `0 … W-1` and `W + 3` does not exceed the
loop fuel — for EVERY state it is started in, reachable or not. -/
theorem settle_quiescent (E : Env) (W : Nat) (hwk : ∀ id, E.wk id < W) (hW : W + 3 ≤ fuel) (s : St) :
    Quiescent E (settle E [] s) := by
  unfold settle
  have h1 : Rest E (loopRun E [] fuel s) := loopRun_rest E W hwk fuel s (Nat.le_trans (mu_le W s) hW)
  have h2 : Rest E (loopRun E [] fuel (kick (loopRun E [] fuel s))) :=
    loopRun_rest E W hwk fuel _ (Nat.le_trans (mu_le W _) hW)
  exact rest_kick_quiescent E W hwk _ h2 fuel (by omega)

theorem step_quiescent (E : Env) (W : Nat) (hwk : ∀ id, E.wk id < W) (hW : W + 3 ≤ fuel) (s : St) (op : Op) :
    Quiescent E (step E [] s op) := by
  cases op with
  | sched id sc off last frac => exact settle_quiescent E W hwk hW _
  | rel id => exact settle_quiescent E W hwk hW _
  | adv d =>
    simp only [step]
    split <;> exact settle_quiescent E W hwk hW _
  | done id res cpok => exact settle_quiescent E W hwk hW _

/-- After a non-empty run of harness ops whose LAST op had no mid-pass race (empty skip set; the earlier ops may
have had any) the model is quiescent. -/
theorem runOps_quiescent (E : Env) (W : Nat) (hwk : ∀ id, E.wk id < W) (hW : W + 3 ≤ fuel) :
    ∀ (ops : List (List Nat × Op)) (s : St), ops ≠ [] → (∀ p ∈ ops.getLast?, p.1 = []) →
      Quiescent E (runOps E s ops)
  | [], _, h, _ => absurd rfl h
  | [p], s, _, hl => by
    have : p.1 = [] := hl p (by simp)
    show Quiescent E (step E p.1 s p.2)
    rw [this]
    exact step_quiescent E W hwk hW s p.2
  | p :: q :: r, s, _, hl => by
    show Quiescent E (runOps E (step E p.1 s p.2) (q :: r))
    exact runOps_quiescent E W hwk hW (q :: r) _ (by simp) (by simpa using hl)

end Kap.C17
