/-
C17 — helper lemmas, part 5: what acceptance by the monitor MEANS, in terms of the history alone.
The functions below read a history (newest event first, as the model stores it) directly.
-/
import Kap.Proofs.C17Inv
namespace Kap.C17

/-- The scheduling in force for `id`: parameters of its last Schedule call (schedule, offset in MILLISECONDS,
last-scheduled time), unless a Release came after it. -/
def epochOf (id : Nat) : List Ev → Option (Nat × Int × Int)
  | [] => none
  | .sched i sc off last :: r => if i = id then some (sc, off, last) else epochOf id r
  | .rel i :: r => if i = id then none else epochOf id r
  | _ :: r => epochOf id r

/-- The occurrences for which the executor was entered since the last Schedule/Release of `id`, oldest first. -/
def startsSince (id : Nat) : List Ev → List Int
  | [] => []
  | .sched i _ _ _ :: r => if i = id then [] else startsSince id r
  | .rel i :: r => if i = id then [] else startsSince id r
  | .start i occ _ :: r => if i = id then startsSince id r ++ [occ] else startsSince id r
  | _ :: r => startsSince id r

/-- The scheduler's clock: the value of the last clock movement. -/
def lastClock : List Ev → Int
  | [] => 0
  | .clock t :: _ => t
  | _ :: r => lastClock r

/-- A run of `id` was started and its checkpoint has not been written yet. -/
def inProgress (id : Nat) : List Ev → Bool
  | [] => false
  | .start i _ _ :: r => if i = id then true else inProgress id r
  | .ckpt i _ :: r => if i = id then false else inProgress id r
  | _ :: r => inProgress id r

/-- `l` is the list of CONSECUTIVE occurrences of schedule `sc` after `frm`, and `e` is what follows. -/
def Chain (nx : Nat → Int → Option Int) (sc : Nat) : Int → List Int → Option Int → Prop
  | frm, [], e => e = nx sc frm
  | frm, o :: l, e => nx sc frm = some o ∧ Chain nx sc o l e

theorem chain_snoc {nx sc} : ∀ {frm : Int} {l : List Int} {occ : Int},
    Chain nx sc frm l (some occ) → Chain nx sc frm (l ++ [occ]) (nx sc occ)
  | frm, [], occ, h => by
    simp only [Chain] at h
    simp only [List.nil_append, Chain]
    exact ⟨h.symm, trivial⟩
  | frm, o :: l, occ, h => by
    simp only [Chain] at h
    simp only [List.cons_append, Chain]
    exact ⟨h.1, chain_snoc h.2⟩

/-- Consecutive occurrences of an increasing schedule are strictly increasing and lie after the start. -/
theorem chain_increasing {nx sc} (hincr : Incr nx) : ∀ {frm : Int} {l : List Int} {e : Option Int},
    Chain nx sc frm l e → (∀ o ∈ l, frm < o) ∧ l.Pairwise (· < ·)
  | frm, [], e, _ => by simp
  | frm, o :: l, e, h => by
    simp only [Chain] at h
    obtain ⟨ih1, ih2⟩ := chain_increasing hincr h.2
    have hfo := hincr _ _ _ h.1
    refine ⟨?_, List.pairwise_cons.mpr ⟨ih1, ih2⟩⟩
    intro x hx
    rcases List.mem_cons.mp hx with rfl | hx
    · exact hfo
    · have := ih1 x hx; omega

theorem Tr.inv {nx tr m' e} (h : Tr nx (e :: tr) m') : ∃ m, Tr nx tr m ∧ monStep nx m e = .ok m' := by
  unfold Tr at *
  rw [List.reverse_cons, monRun_append] at h
  cases hm : monRun nx {} tr.reverse with
  | error c => rw [hm] at h; cases h
  | ok m =>
    rw [hm] at h
    refine ⟨m, rfl, ?_⟩
    simp only [monRun] at h
    cases hs : monStep nx m e with
    | error c => rw [hs] at h; cases h
    | ok m2 => rw [hs] at h; simpa using h

/-- What the monitor has accepted, read off the history. -/
structure Decl (nx : Nat → Int → Option Int) (tr : List Ev) (m : Mon) : Prop where
  now : m.now = lastClock tr
  run : ∀ id, (m.view id).run.isSome = inProgress id tr
  ep : ∀ id, match epochOf id tr with
    | none => (m.view id).epoch = none
    | some (sc, off, last) => (m.view id).epoch = some (sc, off) ∧ Chain nx sc last (startsSince id tr) (m.view id).expect

theorem decl_other {nx tr m} (h : Decl nx tr m) (id : Nat) (v : View) (e : Ev)
    (he : ∀ i, epochOf i (e :: tr) = epochOf i tr) (hs : ∀ i, startsSince i (e :: tr) = startsSince i tr)
    (hc : lastClock (e :: tr) = lastClock tr)
    (hr : ∀ i, inProgress i (e :: tr) = if i = id then v.run.isSome else inProgress i tr)
    (hv1 : v.epoch = (m.view id).epoch) (hv2 : v.expect = (m.view id).expect) :
    Decl nx (e :: tr) (m.set id v) := by
  refine ⟨by simp [hc, h.now], ?_, ?_⟩
  · intro i
    rw [hr i, view_set]
    by_cases hi : id = i
    · subst hi; simp
    · simp [hi, Ne.symm hi, h.run i]
  · intro i
    rw [he i, hs i, view_set]
    by_cases hi : id = i
    · subst hi; simp only [ite_true, hv1, hv2]; exact h.ep id
    · simp only [hi, ite_false]; exact h.ep i

theorem tr_decl {nx : Nat → Int → Option Int} : ∀ {tr : List Ev} {m : Mon}, Tr nx tr m → Decl nx tr m
  | [], m, h => by
    unfold Tr at h; simp [monRun] at h; subst h
    exact ⟨rfl, fun id => by simp [Mon.view, aget, inProgress], fun id => by simp [epochOf, Mon.view, aget]⟩
  | e :: tr, m', h => by
    obtain ⟨m, ht, hs⟩ := Tr.inv h
    have ih := tr_decl ht
    cases e with
    | sched id sc off last =>
      simp only [monStep, Except.ok.injEq] at hs; subst hs
      refine ⟨by simp [lastClock, ih.now], ?_, ?_⟩
      · intro i
        rw [view_set]
        by_cases hi : id = i
        · subst hi; simp [inProgress, ih.run id]
        · simp [hi, inProgress, ih.run i]
      · intro i
        rw [view_set]
        by_cases hi : id = i
        · subst hi; simp [epochOf, startsSince, Chain]
        · simp only [hi, ite_false, epochOf, startsSince]; exact ih.ep i
    | schedErr id =>
      simp only [monStep, Except.ok.injEq] at hs; subst hs
      exact ⟨ih.now, ih.run, ih.ep⟩
    | onErr id =>
      simp only [monStep, Except.ok.injEq] at hs; subst hs
      exact ⟨ih.now, ih.run, ih.ep⟩
    | rel id =>
      simp only [monStep, Except.ok.injEq] at hs; subst hs
      refine ⟨by simp [lastClock, ih.now], ?_, ?_⟩
      · intro i
        rw [view_set]
        by_cases hi : id = i
        · subst hi; simp [inProgress, ih.run id]
        · simp [hi, inProgress, ih.run i]
      · intro i
        rw [view_set]
        by_cases hi : id = i
        · subst hi; simp [epochOf]
        · simp only [hi, ite_false, epochOf, startsSince]; exact ih.ep i
    | clock t =>
      simp only [monStep] at hs
      split at hs
      · cases hs
      · simp only [Except.ok.injEq] at hs; subst hs
        exact ⟨rfl, ih.run, ih.ep⟩
    | start id occ runAt =>
      simp only [monStep] at hs
      have hep := ih.ep id
      cases hepv : (m.view id).epoch with
      | none => rw [hepv] at hs; cases hs
      | some so =>
        obtain ⟨sc, off⟩ := so
        rw [hepv] at hs
        simp only at hs
        split at hs
        · cases hs
        · split at hs
          · cases hs
          · split at hs
            · cases hs
            · split at hs
              · cases hs
              · rename_i _ hexp _ _
                simp only [Except.ok.injEq] at hs; subst hs
                have hexp' : (m.view id).expect = some occ := by simpa using hexp
                refine ⟨by simp [lastClock, ih.now], ?_, ?_⟩
                · intro i
                  rw [view_set]
                  by_cases hi : id = i
                  · subst hi; simp [inProgress]
                  · simp [hi, Ne.symm hi, inProgress, ih.run i]
                · intro i
                  rw [view_set]
                  by_cases hi : id = i
                  · subst hi
                    simp only [ite_true, epochOf, startsSince]
                    cases hE : epochOf id tr with
                    | none => rw [hE] at hep; simp only at hep; rw [hepv] at hep; cases hep
                    | some p =>
                      obtain ⟨sc', off', last'⟩ := p
                      rw [hE] at hep
                      simp only at hep ⊢
                      obtain ⟨h1, h2⟩ := hep
                      rw [hepv] at h1; cases h1
                      rw [hexp'] at h2
                      exact ⟨rfl, chain_snoc h2⟩
                  · simp only [hi, ite_false, epochOf, startsSince, Ne.symm hi]; exact ih.ep i
    | finish id occ =>
      simp only [monStep] at hs
      cases hr : (m.view id).run with
      | none => rw [hr] at hs; cases hs
      | some r =>
        rw [hr] at hs
        simp only at hs
        split at hs
        · simp only [Except.ok.injEq] at hs; subst hs
          refine decl_other ih id _ _ (fun i => rfl) (fun i => rfl) rfl ?_ rfl rfl
          intro i
          by_cases hi : i = id
          · subst hi; simp [inProgress, ← ih.run, hr]
          · simp [hi, inProgress]
        · cases hs
    | ckpt id t =>
      simp only [monStep] at hs
      cases hr : (m.view id).run with
      | none => rw [hr] at hs; cases hs
      | some r =>
        rw [hr] at hs
        simp only at hs
        split at hs
        · cases hs
        · split at hs
          · cases hs
          · simp only [Except.ok.injEq] at hs; subst hs
            refine decl_other ih id _ _ (fun i => rfl) (fun i => rfl) rfl ?_ rfl rfl
            intro i
            by_cases hi : i = id
            · subst hi; simp [inProgress]
            · have hi' : ¬ id = i := fun h => hi h.symm
              simp [hi, hi', inProgress]

/-- The clauses a `start` event had to pass, in terms of the history before it. -/
theorem start_clauses {nx : Nat → Int → Option Int} {tr : List Ev} {m' : Mon} {id : Nat} {occ runAt : Int}
    (h : Tr nx (Ev.start id occ runAt :: tr) m') :
    ∃ sc off last, epochOf id tr = some (sc, off, last) ∧
      inProgress id tr = false ∧
      Chain nx sc last (startsSince id tr ++ [occ]) (nx sc occ) ∧
      occ * 1000 + off ≤ lastClock tr * 1000 ∧ runAt = occ + off.tdiv 1000 := by
  obtain ⟨m, ht, hs⟩ := Tr.inv h
  have d := tr_decl ht
  simp only [monStep] at hs
  have hep := d.ep id
  cases hepv : (m.view id).epoch with
  | none => rw [hepv] at hs; cases hs
  | some so =>
    obtain ⟨sc, off⟩ := so
    rw [hepv] at hs
    simp only at hs
    split at hs
    · cases hs
    · rename_i hrun
      split at hs
      · cases hs
      · rename_i hexp
        split at hs
        · cases hs
        · rename_i hearly
          split at hs
          · cases hs
          · rename_i hrunAt
            have hexp' : (m.view id).expect = some occ := by simpa using hexp
            cases hE : epochOf id tr with
            | none => rw [hE] at hep; simp only at hep; rw [hepv] at hep; cases hep
            | some p =>
              obtain ⟨sc', off', last'⟩ := p
              rw [hE] at hep
              simp only at hep
              obtain ⟨h1, h2⟩ := hep
              rw [hepv] at h1; cases h1
              rw [hexp'] at h2
              refine ⟨sc, off, last', rfl, ?_, chain_snoc h2, ?_, by simpa using hrunAt⟩
              · rw [← d.run id]; simpa using hrun
              · rw [← d.now]; omega

/-- A checkpoint is written only for the run in progress, after it finished, and above the floor. -/
theorem accepts_prefix {nx : Nat → Int → Option Int} {post tr : List Ev} (h : Accepts nx (post ++ tr).reverse) :
    ∃ m, Tr nx tr m := by
  obtain ⟨m, hm⟩ := h
  rw [List.reverse_append, monRun_append] at hm
  unfold Tr
  cases h1 : monRun nx {} tr.reverse with
  | error c => rw [h1] at hm; cases hm
  | ok m1 => exact ⟨m1, rfl⟩

end Kap.C17
