/-
C17 — helper lemmas, part 2: the invariants of the transition system and their preservation by
Schedule, Release, clock moves, timer/tick bookkeeping and a finished execution.
-/
import Kap.Proofs.C17
namespace Kap.C17

/-- The trusted contract of the cron library: `Next(from)` is after `from`. -/
def Incr (nx : Nat → Int → Option Int) : Prop := ∀ sc t t', nx sc t = some t' → t < t'

/-! ### queue / index agreement -/

structure QInv (s : St) : Prop where
  whn : ∀ it ∈ s.queue, it.whn = it.next + secUp it.off
  uniq : ∀ a ∈ s.queue, ∀ b ∈ s.queue, a.id = b.id → a = b
  idx : ∀ id w, aget s.index id = some w ↔ ∃ it ∈ s.queue, it.id = id ∧ it.whn = w
  sorted : Sorted s.queue

/-! ### the monitor -/

theorem view_set (m : Mon) (id id' : Nat) (v : View) :
    (m.set id v).view id' = if id = id' then v else m.view id' := by
  unfold Mon.set Mon.view
  simp only [aget_aset]
  split <;> simp

@[simp] theorem now_set (m : Mon) (id : Nat) (v : View) : (m.set id v).now = m.now := rfl

theorem view_now (m : Mon) (t : Int) (id : Nat) : ({ m with now := t } : Mon).view id = m.view id := rfl

theorem monRun_append (nx : Nat → Int → Option Int) (m : Mon) (l1 l2 : List Ev) :
    monRun nx m (l1 ++ l2) = (match monRun nx m l1 with
      | .ok m' => monRun nx m' l2
      | .error c => .error c) := by
  induction l1 generalizing m with
  | nil => simp [monRun]
  | cons e es ih =>
    simp only [List.cons_append, monRun]
    cases monStep nx m e with
    | ok m' => simp [ih]
    | error c => simp

/-- `m` is the monitor state after the (newest-first) trace `tr`; in particular the trace is accepted. -/
def Tr (nx : Nat → Int → Option Int) (tr : List Ev) (m : Mon) : Prop := monRun nx {} tr.reverse = .ok m

theorem Tr.cons {nx tr m e m'} (h : Tr nx tr m) (hs : monStep nx m e = .ok m') : Tr nx (e :: tr) m' := by
  unfold Tr at *
  rw [List.reverse_cons, monRun_append, h]
  simp [monRun, hs]

theorem Tr.accepts {nx tr m} (h : Tr nx tr m) : Accepts nx tr.reverse := ⟨m, h⟩

/-- The coupling between what the scheduler holds (`Pend`: the items waiting in the queue, `busy`: the items
being executed) and what the property monitor has derived from the history. -/
structure Coup (E : Env) (now : Int) (Pend : Item → Prop) (busy : List (Nat × Item)) (m : Mon) : Prop where
  now_eq : m.now = now
  pend : ∀ it, Pend it → (m.view it.id).epoch = some (it.sc, it.off) ∧ (m.view it.id).expect = some it.next
  run_busy : ∀ id, (m.view id).run.isSome = true → ∃ it, aget busy (E.wk id) = some it ∧ it.id = id
  busy_run : ∀ w it, aget busy w = some it → w = E.wk it.id ∧ ∃ r, (m.view it.id).run = some r ∧
      r.occ = it.next ∧ r.finished = false ∧ (∀ c, r.floor = some c → c < it.next)
  ck_lt : ∀ id c n, (m.view id).ck = some c → (m.view id).expect = some n → c < n
  run_lt : ∀ id r n, (m.view id).run = some r → r.cur = true → (m.view id).expect = some n → r.occ < n

structure Good (E : Env) (s : St) : Prop where
  q : QInv s
  mon : ∃ m, Tr E.nx s.trace m ∧ Coup E s.now (· ∈ s.queue) s.busy m

/-- `Good` does not look at `s.when`, the timer, the tick or the loop position. -/
theorem Good.congr {E : Env} {s s' : St} (h : Good E s) (h1 : s'.now = s.now) (h2 : s'.queue = s.queue)
    (h3 : s'.index = s.index) (h4 : s'.busy = s.busy) (h5 : s'.trace = s.trace) : Good E s' := by
  obtain ⟨⟨a, b, c, d⟩, m, ht, hc⟩ := h
  refine ⟨⟨?_, ?_, ?_, ?_⟩, m, ?_, ?_⟩
  · rw [h2]; exact a
  · rw [h2]; exact b
  · rw [h2, h3]; exact c
  · rw [h2]; exact d
  · rw [h5]; exact ht
  · rw [h1, h2, h4]; exact hc

theorem good_init (E : Env) : Good E {} := by
  refine ⟨⟨by simp, by simp, ?_, by simp [Sorted]⟩, {}, rfl, ⟨rfl, by simp, ?_, ?_, ?_, ?_⟩⟩
  · intro id w; simp [aget]
  · intro id h; simp [Mon.view, aget] at h
  · intro w it h; simp [aget] at h
  · intro id c n h; simp [Mon.view, aget] at h
  · intro id r n h; simp [Mon.view, aget] at h

/-! ### Schedule -/

theorem schedTimer_fields (s : St) (w : Int) :
    (schedTimer s w).now = s.now ∧ (schedTimer s w).queue = s.queue ∧ (schedTimer s w).index = s.index ∧
    (schedTimer s w).busy = s.busy ∧ (schedTimer s w).trace = s.trace := by
  unfold schedTimer
  simp only
  split <;> (try split) <;> simp

/-- Removing the indexed entry of `id` removes exactly the items of `id`. -/
theorem mem_drop_id {s : St} (hq : QInv s) (id : Nat) (x : Item) :
    x ∈ (match aget s.index id with
          | some w => qdelete s.queue (key id w)
          | none => s.queue) ↔ x ∈ s.queue ∧ x.id ≠ id := by
  cases hi : aget s.index id with
  | none =>
    simp only
    constructor
    · intro hx
      refine ⟨hx, fun hid => ?_⟩
      have := (hq.idx id x.whn).mpr ⟨x, hx, hid, rfl⟩
      rw [hi] at this; cases this
    · exact fun h => h.1
  | some w =>
    simp only
    rw [mem_qdelete]
    obtain ⟨y, hy, hyid, hyw⟩ := (hq.idx id w).mp hi
    constructor
    · rintro ⟨hx, hs⟩
      refine ⟨hx, fun hid => ?_⟩
      have hxy : x = y := hq.uniq x hx y hy (hid.trans hyid.symm)
      subst hxy
      have : same x (key id w) = true := (same_iff _ _).mpr ⟨hyw, hid⟩
      rw [this] at hs; cases hs
    · rintro ⟨hx, hne⟩
      exact ⟨hx, same_false_of_id_ne hne⟩

theorem sorted_drop_id {s : St} (hq : QInv s) (id : Nat) :
    Sorted (match aget s.index id with
          | some w => qdelete s.queue (key id w)
          | none => s.queue) := by
  cases aget s.index id with
  | none => exact hq.sorted
  | some w => exact sorted_qdelete hq.sorted

theorem good_schedule {E : Env} {s : St} (h : Good E s) (id sc : Nat) (off last frac : Int) :
    Good E (schedule E s id sc off last frac) := by
  unfold schedule
  cases hn : E.nx sc last with
  | none =>
    simp only
    obtain ⟨hq, m, ht, hc⟩ := h
    refine ⟨⟨hq.whn, hq.uniq, hq.idx, hq.sorted⟩, m, ?_, hc⟩
    exact (ht.cons (e := Ev.onErr id) rfl).cons (e := Ev.schedErr id) rfl
  | some nt =>
    simp only
    obtain ⟨f1, f2, f3, f4, f5⟩ := schedTimer_fields s (nt * 1000 + (off * 1000 + frac))
    have h1 : Good E (schedTimer s (nt * 1000 + (off * 1000 + frac))) := h.congr f1 f2 f3 f4 f5
    generalize schedTimer s (nt * 1000 + (off * 1000 + frac)) = s1 at h1 ⊢
    generalize off * 1000 + frac = o
    obtain ⟨hq, m, ht, hc⟩ := h1
    -- membership in the new queue
    have hmem : ∀ x, x ∈ qreplace (match aget s1.index id with
          | some w => qdelete s1.queue (key id w)
          | none => s1.queue) { whn := nt + secUp o, id := id, sc := sc, next := nt, off := o } ↔
        x = { whn := nt + secUp o, id := id, sc := sc, next := nt, off := o } ∨ (x ∈ s1.queue ∧ x.id ≠ id) := by
      intro x
      rw [mem_qreplace, mem_drop_id hq]
      constructor
      · rintro (h | ⟨h, _⟩)
        · exact Or.inl h
        · exact Or.inr h
      · rintro (h | h)
        · exact Or.inl h
        · exact Or.inr ⟨h, same_false_of_id_ne h.2⟩
    refine ⟨⟨?_, ?_, ?_, ?_⟩, ?_⟩
    · intro x hx
      rcases (hmem x).mp hx with rfl | ⟨hx, _⟩
      · rfl
      · exact hq.whn x hx
    · intro a ha b hb hab
      rcases (hmem a).mp ha with rfl | ⟨ha, hna⟩ <;> rcases (hmem b).mp hb with rfl | ⟨hb, hnb⟩
      · rfl
      · exact absurd hab.symm hnb
      · exact absurd hab hna
      · exact hq.uniq a ha b hb hab
    · intro id' w
      simp only [aget_aset]
      constructor
      · intro hw
        by_cases hid : id = id'
        · subst hid
          simp only [ite_true, Option.some.injEq] at hw
          exact ⟨_, (hmem _).mpr (Or.inl rfl), rfl, hw⟩
        · simp only [hid, ite_false] at hw
          obtain ⟨y, hy, hyid, hyw⟩ := (hq.idx id' w).mp hw
          exact ⟨y, (hmem y).mpr (Or.inr ⟨hy, fun h => hid (h.symm.trans hyid)⟩), hyid, hyw⟩
      · rintro ⟨y, hy, hyid, hyw⟩
        rcases (hmem y).mp hy with rfl | ⟨hy, hne⟩
        · simp only at hyid hyw; subst hyid; simp [hyw]
        · have hid : id ≠ id' := fun h => hne (hyid.trans h.symm)
          simp only [hid, ite_false]
          exact (hq.idx id' w).mpr ⟨y, hy, hyid, hyw⟩
    · exact sorted_qreplace (sorted_drop_id hq id)
    · -- the monitor takes the `sched` event
      let v := m.view id
      refine ⟨m.set id { epoch := some (sc, o), expect := E.nx sc last, ck := none,
                          run := v.run.map (fun r => { r with cur := false }) }, ht.cons rfl, ?_⟩
      refine ⟨hc.now_eq, ?_, ?_, ?_, ?_, ?_⟩
      · intro x hx
        rcases (hmem x).mp hx with rfl | ⟨hx, hne⟩
        · simp [view_set, hn]
        · rw [view_set]; simp only [Ne.symm hne, ite_false]; exact hc.pend x hx
      · intro id' hr
        rw [view_set] at hr
        by_cases hid : id = id'
        · subst hid
          simp only [ite_true, Option.isSome_map] at hr
          exact hc.run_busy id hr
        · simp only [hid, ite_false] at hr
          exact hc.run_busy id' hr
      · intro w x hx
        obtain ⟨hw, r, hr, h1, h2, h3⟩ := hc.busy_run w x hx
        refine ⟨hw, ?_⟩
        rw [view_set]
        by_cases hid : id = x.id
        · simp only [hid, ite_true]
          refine ⟨{ r with cur := false }, ?_, h1, h2, h3⟩
          show Option.map _ (m.view id).run = _
          rw [hid, hr]; rfl
        · simp only [hid, ite_false]; exact ⟨r, hr, h1, h2, h3⟩
      · intro id' c n hck hex
        rw [view_set] at hck hex
        by_cases hid : id = id'
        · simp [hid] at hck
        · simp only [hid, ite_false] at hck hex; exact hc.ck_lt id' c n hck hex
      · intro id' r n hr hcur hex
        rw [view_set] at hr hex
        by_cases hid : id = id'
        · simp only [hid, ite_true] at hr
          cases hv : (m.view id').run with
          | none => simp [v, hid, hv] at hr
          | some r0 => simp [v, hid, hv] at hr; subst hr; simp at hcur
        · simp only [hid, ite_false] at hr hex; exact hc.run_lt id' r n hr hcur hex

/-! ### Release -/

theorem good_release {E : Env} {s : St} (h : Good E s) (id : Nat) : Good E (release s id) := by
  obtain ⟨hq, m, ht, hc⟩ := h
  -- the monitor takes the `rel` event
  have hmon : ∀ (P : Item → Prop), (∀ x, P x → x ∈ s.queue ∧ x.id ≠ id) →
      Coup E s.now P s.busy (m.set id { epoch := none, expect := none, ck := none, run := (m.view id).run.map (fun r => { r with cur := false }) }) := by
    intro P hP
    refine ⟨hc.now_eq, ?_, ?_, ?_, ?_, ?_⟩
    · intro x hx
      obtain ⟨hx, hne⟩ := hP x hx
      rw [view_set]; simp only [Ne.symm hne, ite_false]; exact hc.pend x hx
    · intro id' hr
      rw [view_set] at hr
      by_cases hid : id = id'
      · subst hid
        simp only [ite_true, Option.isSome_map] at hr
        exact hc.run_busy id hr
      · simp only [hid, ite_false] at hr
        exact hc.run_busy id' hr
    · intro w x hx
      obtain ⟨hw, r, hr, h1, h2, h3⟩ := hc.busy_run w x hx
      refine ⟨hw, ?_⟩
      rw [view_set]
      by_cases hid : id = x.id
      · simp only [hid, ite_true]
        refine ⟨{ r with cur := false }, ?_, h1, h2, h3⟩
        rw [hr]; rfl
      · simp only [hid, ite_false]; exact ⟨r, hr, h1, h2, h3⟩
    · intro id' c n hck hex
      rw [view_set] at hck hex
      by_cases hid : id = id'
      · simp [hid] at hck
      · simp only [hid, ite_false] at hck hex; exact hc.ck_lt id' c n hck hex
    · intro id' r n hr hcur hex
      rw [view_set] at hr hex
      by_cases hid : id = id'
      · simp [hid] at hex
      · simp only [hid, ite_false] at hr hex; exact hc.run_lt id' r n hr hcur hex
  have hmem := mem_drop_id hq id
  unfold release
  cases hi : aget s.index id with
  | none =>
    simp only
    rw [hi] at hmem
    refine ⟨⟨hq.whn, hq.uniq, hq.idx, hq.sorted⟩, _, ht.cons (e := Ev.rel id) rfl, ?_⟩
    exact hmon _ (fun x hx => (hmem x).mp hx)
  | some w =>
    simp only
    rw [hi] at hmem
    simp only at hmem
    refine ⟨⟨?_, ?_, ?_, sorted_qdelete hq.sorted⟩, _, ht.cons (e := Ev.rel id) rfl, ?_⟩
    · intro x hx; exact hq.whn x ((hmem x).mp hx).1
    · intro a ha b hb; exact hq.uniq a ((hmem a).mp ha).1 b ((hmem b).mp hb).1
    · intro id' w'
      rw [aget_adel]
      by_cases hid : id = id'
      · subst hid
        simp only [ite_true]
        constructor
        · intro h; cases h
        · rintro ⟨y, hy, hyid, _⟩; exact absurd hyid ((hmem y).mp hy).2
      · simp only [hid, ite_false]
        rw [hq.idx]
        constructor
        · rintro ⟨y, hy, hyid, hyw⟩
          exact ⟨y, (hmem y).mpr ⟨hy, fun h => hid (h.symm.trans hyid)⟩, hyid, hyw⟩
        · rintro ⟨y, hy, hyid, hyw⟩
          exact ⟨y, ((hmem y).mp hy).1, hyid, hyw⟩
    · exact hmon _ (fun x hx => (hmem x).mp hx)

/-! ### the clock, the timer, the tick -/

theorem good_adv {E : Env} {s : St} (h : Good E s) (d : Nat) :
    Good E { s with now := s.now + d, trace := Ev.clock (s.now + d) :: s.trace } := by
  obtain ⟨hq, m, ht, hc⟩ := h
  refine ⟨⟨hq.whn, hq.uniq, hq.idx, hq.sorted⟩, { m with now := s.now + d }, ?_, ?_⟩
  · apply ht.cons
    simp only [monStep]
    rw [hc.now_eq]
    have : ¬ (s.now + (d : Int) < s.now) := by omega
    simp [this]
  · exact ⟨rfl, hc.pend, hc.run_busy, hc.busy_run, hc.ck_lt, hc.run_lt⟩

theorem good_kick {E : Env} {s : St} (h : Good E s) : Good E (kick s) := by
  unfold kick
  split
  · exact h
  · split
    · split
      · exact h.congr rfl rfl rfl rfl rfl
      · exact h
    · exact h

/-! ### a finished execution -/

theorem good_done {E : Env} {s : St} (h : Good E s) (id : Nat) (res : Res) (cpok : Bool) :
    Good E (done E s id res cpok) := by
  unfold done
  cases hb : aget s.busy (E.wk id) with
  | none => exact h
  | some it =>
    simp only
    split
    · rename_i hid
      obtain ⟨hq, m, ht, hc⟩ := h
      obtain ⟨_, r, hr, hocc, hfin, hfl⟩ := hc.busy_run _ it hb
      rw [hid] at hr
      -- monitor: finish, then checkpoint
      let v := m.view id
      let m1 := m.set id { v with run := some { r with finished := true } }
      let v1 := m1.view id
      let m2 := m1.set id { v1 with run := none, ck := if r.cur then some it.next else v1.ck }
      have hv1 : v1 = { v with run := some { r with finished := true } } := by
        simp [v1, m1, view_set]
      have s1 : monStep E.nx m (Ev.finish id it.next) = .ok m1 := by
        simp only [monStep]
        rw [hr]
        simp [hocc, hfin, m1, v]
      have s2 : monStep E.nx m1 (Ev.ckpt id it.next) = .ok m2 := by
        simp only [monStep]
        have : (m1.view id).run = some { r with finished := true } := by rw [show m1.view id = v1 from rfl, hv1]
        rw [this]
        have hfl' : notAbove r.floor it.next = false := by
          unfold notAbove
          cases hf : r.floor with
          | none => rfl
          | some c => have := hfl c hf; simp; omega
        simp [hocc, hfl', m2, v1]
      have hm2view : ∀ id', m2.view id' = if id = id' then
          { v with run := none, ck := if r.cur then some it.next else v.ck } else m.view id' := by
        intro id'
        simp only [m2, view_set]
        by_cases h' : id = id'
        · subst h'; simp only [ite_true]; rw [hv1]
        · simp only [h', ite_false, m1, view_set]
      have htr : Tr E.nx ((([Ev.finish id it.next] ++ (if res = Res.ok then [] else [Ev.onErr id]) ++
                           [Ev.ckpt id it.next] ++ (if cpok then [] else [Ev.onErr id])).reverse) ++ s.trace) m2 := by
        have t1 := ht.cons s1
        have t2 : Tr E.nx ((if res = Res.ok then [] else [Ev.onErr id]) ++ Ev.finish id it.next :: s.trace) m1 := by
          split
          · exact t1
          · exact t1.cons (e := Ev.onErr id) rfl
        have t3 := t2.cons s2
        have t4 : Tr E.nx ((if cpok then [] else [Ev.onErr id]) ++ Ev.ckpt id it.next ::
            ((if res = Res.ok then [] else [Ev.onErr id]) ++ Ev.finish id it.next :: s.trace)) m2 := by
          split
          · exact t3
          · exact t3.cons (e := Ev.onErr id) rfl
        have : (([Ev.finish id it.next] ++ (if res = Res.ok then [] else [Ev.onErr id]) ++
                           [Ev.ckpt id it.next] ++ (if cpok then [] else [Ev.onErr id])).reverse) ++ s.trace =
            (if cpok then [] else [Ev.onErr id]) ++ Ev.ckpt id it.next ::
            ((if res = Res.ok then [] else [Ev.onErr id]) ++ Ev.finish id it.next :: s.trace) := by
          cases cpok <;> cases res <;> simp
        rw [this]; exact t4
      refine ⟨⟨hq.whn, hq.uniq, hq.idx, hq.sorted⟩, m2, htr, ?_⟩
      refine ⟨by simp [m2, m1, hc.now_eq], ?_, ?_, ?_, ?_, ?_⟩
      · intro x hx
        rw [hm2view]
        by_cases h' : id = x.id
        · simp only [h', ite_true]
          have := hc.pend x hx
          rw [← h'] at this
          exact this
        · simp only [h', ite_false]; exact hc.pend x hx
      · intro id' hrun
        rw [hm2view] at hrun
        by_cases h' : id = id'
        · simp [h'] at hrun
        · simp only [h', ite_false] at hrun
          obtain ⟨y, hy, hyid⟩ := hc.run_busy id' hrun
          refine ⟨y, ?_, hyid⟩
          rw [aget_adel]
          have : E.wk id ≠ E.wk id' := by
            intro heq
            rw [← heq, hb] at hy
            cases hy
            exact h' (hid.symm.trans hyid)
          simp [this, hy]
      · intro w x hx
        rw [aget_adel] at hx
        by_cases hw : E.wk id = w
        · simp [hw] at hx
        · simp only [hw, ite_false] at hx
          obtain ⟨hwx, r', hr', a1, a2, a3⟩ := hc.busy_run w x hx
          refine ⟨hwx, ?_⟩
          rw [hm2view]
          have : id ≠ x.id := fun h' => hw (by rw [hwx, h'])
          simp only [this, ite_false]
          exact ⟨r', hr', a1, a2, a3⟩
      · intro id' c n hck hex
        rw [hm2view] at hck hex
        by_cases h' : id = id'
        · simp only [h', ite_true] at hck hex
          subst h'
          by_cases hcur : r.cur = true
          · simp only [hcur, ite_true, Option.some.injEq] at hck
            subst hck
            have := hc.run_lt id r n hr hcur hex
            omega
          · simp only [hcur] at hck
            exact hc.ck_lt id c n hck hex
        · simp only [h', ite_false] at hck hex; exact hc.ck_lt id' c n hck hex
      · intro id' r' n hr' hcur hex
        rw [hm2view] at hr' hex
        by_cases h' : id = id'
        · simp [h'] at hr'
        · simp only [h', ite_false] at hr' hex; exact hc.run_lt id' r' n hr' hcur hex
    · exact h

end Kap.C17
