/-
C17 — helper lemmas, part 6: the timer invariants and liveness at quiescence.

`s.when` and the timer deadline are in milliseconds, `now` and `Item.when` in seconds.
-/
import Kap.Proofs.C17Run
namespace Kap.C17

/-- The timer bookkeeping that makes the main loop wake up in time. -/
structure TInv (s : St) : Prop where
  /-- `s.when` is not after any queued item … -/
  k1 : ∀ w, s.swhen = some w → ∀ it ∈ s.queue, w ≤ it.whn * 1000
  /-- … and is zero only when the queue is empty. -/
  k2 : s.swhen = none → s.queue = []
  /-- While `s.when` is set, the loop is running, or a tick is waiting, or the timer is armed with a deadline that
  has already passed (it fires by itself / at the next clock movement) or is not after `s.when`. -/
  j : ∀ w, s.swhen = some w → s.spinning = true ∨ s.tick = true ∨
        ∃ d, s.timer = some d ∧ (d ≤ s.now * 1000 ∨ d ≤ w)

theorem tinv_init : TInv {} := ⟨by simp, by simp, by simp⟩

theorem less_whn_le {a b : Item} (h : less a b = true) : a.whn ≤ b.whn := by
  rw [less_def] at h
  simp only [Bool.or_eq_true, decide_eq_true_eq, Bool.and_eq_true] at h
  rcases h with h | ⟨h, _⟩ <;> omega

theorem head_min {q : List Item} {it : Item} (hs : Sorted q) (hh : q.head? = some it) :
    ∀ x ∈ q, it.whn ≤ x.whn := by
  cases q with
  | nil => simp at hh
  | cons a r =>
    simp only [List.head?_cons, Option.some.injEq] at hh
    subst hh
    unfold Sorted at hs
    rw [List.pairwise_cons] at hs
    intro x hx
    rcases List.mem_cons.mp hx with rfl | hx
    · exact Int.le_refl _
    · exact less_whn_le (hs.1 x hx)

theorem head_none {q : List Item} (h : q.head? = none) : q = [] := by
  cases q with
  | nil => rfl
  | cons a r => simp at h

theorem tinv_schedule {E : Env} {s : St} (h : TInv s) (hq : QInv s) (id sc : Nat) (off last frac : Int) :
    TInv (schedule E s id sc off last frac) := by
  unfold schedule
  simp only
  generalize off * 1000 + frac = o
  have hsec := le_secUp o
  cases hn : E.nx sc last with
  | none => exact ⟨h.k1, h.k2, h.j⟩
  | some nt =>
    simp only
    -- membership in the new queue (from the safety part)
    have hmem : ∀ x, x ∈ qreplace (match aget (schedTimer s (nt * 1000 + o)).index id with
          | some w => qdelete (schedTimer s (nt * 1000 + o)).queue (key id w)
          | none => (schedTimer s (nt * 1000 + o)).queue)
          { whn := nt + secUp o, id := id, sc := sc, next := nt, off := o } →
        x = { whn := nt + secUp o, id := id, sc := sc, next := nt, off := o } ∨ x ∈ s.queue := by
      intro x hx
      obtain ⟨_, f2, f3, _, _⟩ := schedTimer_fields s (nt * 1000 + o)
      rw [f2, f3] at hx
      rcases mem_qreplace.mp hx with h1 | ⟨h1, _⟩
      · exact Or.inl h1
      · exact Or.inr ((mem_drop_id hq id x).mp h1).1
    unfold schedTimer at hmem ⊢
    cases hw : s.swhen with
    | none =>
      simp only [hw, ite_true] at hmem ⊢
      have hempty := h.k2 hw
      refine ⟨?_, by simp, ?_⟩
      · intro w hw' x hx
        simp only [Option.some.injEq] at hw'
        subst hw'
        rcases hmem x hx with rfl | hx
        · simp only; omega
        · rw [hempty] at hx; simp at hx
      · intro w hw'
        simp only [Option.some.injEq] at hw'
        subst hw'
        right; right
        refine ⟨_, rfl, ?_⟩
        split
        · left; exact Int.le_refl _
        · right; exact Int.le_refl _
    | some sw =>
      simp only [hw] at hmem ⊢
      by_cases hgt : sw > nt * 1000 + o
      · simp only [hgt, decide_true, ite_true] at hmem ⊢
        refine ⟨?_, by simp, ?_⟩
        · intro w hw' x hx
          simp only [Option.some.injEq] at hw'
          subst hw'
          rcases hmem x hx with rfl | hx
          · simp only; omega
          · have := h.k1 sw hw x hx; omega
        · intro w hw'
          simp only [Option.some.injEq] at hw'
          subst hw'
          right; right
          refine ⟨_, rfl, ?_⟩
          split
          · left; exact Int.le_refl _
          · right; exact Int.le_refl _
      · simp only [hgt, decide_false, Bool.false_eq_true, ite_false] at hmem ⊢
        refine ⟨?_, ?_, ?_⟩
        · intro w hw' x hx
          rw [hw] at hw'; simp only [Option.some.injEq] at hw'; subst hw'
          rcases hmem x hx with rfl | hx
          · simp only; omega
          · exact h.k1 sw hw x hx
        · intro h'; rw [hw] at h'; cases h'
        · exact h.j

theorem tinv_release {s : St} (h : TInv s) (id : Nat) : TInv (release s id) := by
  unfold release
  cases aget s.index id with
  | none => exact ⟨h.k1, h.k2, h.j⟩
  | some w =>
    refine ⟨?_, ?_, h.j⟩
    · intro w' hw' x hx; exact h.k1 w' hw' x (mem_qdelete.mp hx).1
    · intro hn; simp only at hn ⊢; rw [h.k2 hn]; rfl

theorem tinv_kick {s : St} (h : TInv s) : TInv (kick s) := by
  unfold kick
  split
  · exact h
  · split
    · split
      · exact ⟨h.k1, h.k2, fun w hw => Or.inr (Or.inl rfl)⟩
      · exact h
    · exact h

theorem tinv_adv {s : St} (h : TInv s) (d : Nat) :
    TInv { s with now := s.now + d, trace := Ev.clock (s.now + d) :: s.trace } := by
  refine ⟨h.k1, h.k2, ?_⟩
  intro w hw
  rcases h.j w hw with h1 | h1 | ⟨t, ht, h2⟩
  · exact Or.inl h1
  · exact Or.inr (Or.inl h1)
  · refine Or.inr (Or.inr ⟨t, ht, ?_⟩)
    rcases h2 with h2 | h2
    · left; simp only; omega
    · right; exact h2

theorem tinv_done {E : Env} {s : St} (h : TInv s) (id : Nat) (res : Res) (cpok : Bool) :
    TInv (done E s id res cpok) := by
  unfold done
  split
  · exact h
  · split
    · exact ⟨h.k1, h.k2, h.j⟩
    · exact h

/-- One pass of the inner loop, with the loop position set to what the pass decided. -/
theorem tinv_iter {E : Env} (hincr : Incr E.nx) {s : St} (h : TInv s) (hg : Good E s) (skip : List Nat) :
    TInv { (loopIter E skip s).1 with spinning := (loopIter E skip s).2 } := by
  unfold loopIter
  cases hh : s.queue.head? with
  | none =>
    simp only
    exact ⟨by simp, fun _ => head_none hh, by simp⟩
  | some it =>
    simp only
    by_cases hst : it.whn > s.now
    · simp only [hst, ite_true]
      refine ⟨h.k1, h.k2, ?_⟩
      intro w _
      right; right
      refine ⟨_, rfl, Or.inl ?_⟩
      simp only
      omega
    · simp only [hst, ite_false]
      have hp := good_process hincr hg skip
      cases hh1 : (process E skip s).queue.head? with
      | none =>
        simp only
        exact ⟨by simp, fun _ => head_none hh1, by simp⟩
      | some it1 =>
        simp only
        have hmin := head_min hp.q.sorted hh1
        by_cases hu : it1.whn - (process E skip s).now > 0
        · simp only [hu, ite_true]
          refine ⟨?_, by simp, ?_⟩
          · intro w hw x hx
            simp only [Option.some.injEq] at hw
            subst hw
            have := hmin x hx
            omega
          · intro w hw
            simp only [Option.some.injEq] at hw
            subst hw
            right; right
            exact ⟨_, rfl, Or.inr (Int.le_refl _)⟩
        · simp only [hu, ite_false]
          refine ⟨?_, by simp, fun _ _ => Or.inl rfl⟩
          intro w hw x hx
          simp only [Option.some.injEq] at hw
          subst hw
          have := hmin x hx
          omega

theorem tinv_act {E : Env} (hincr : Incr E.nx) {s : St} (h : TInv s) (hg : Good E s) (a : Act) :
    TInv (act E s a) := by
  cases a with
  | sched id sc off last frac => exact tinv_schedule h hg.q id sc off last frac
  | rel id => exact tinv_release h id
  | adv d => exact tinv_adv h d
  | fire => exact tinv_kick h
  | consume =>
    simp only [act]
    split
    · exact ⟨h.k1, h.k2, fun _ _ => Or.inl rfl⟩
    · exact h
  | iter skip =>
    simp only [act]
    split
    · exact tinv_iter hincr h hg skip
    · exact h
  | done id res cpok => exact tinv_done h id res cpok

theorem tinv_runActs {E : Env} (hincr : Incr E.nx) (as : List Act) :
    ∀ {s : St}, TInv s → Good E s → TInv (runActs E s as) := by
  induction as with
  | nil => intro s h _; exact h
  | cons a as ih =>
    intro s h hg
    exact ih (tinv_act hincr h hg a) (good_act hincr hg a)

/-! ### a pass that dispatches nothing found every due item's worker busy -/

theorem visit_evs_mono (E : Env) (a : PAcc) (it : Item) : a.evs.length ≤ (visit E [] a it).evs.length := by
  unfold visit
  simp only [List.contains_nil, Bool.false_eq_true, ite_false]
  split
  · exact Nat.le_refl _
  · split <;> simp <;> omega

theorem fold_evs_mono (E : Env) : ∀ (l : List Item) (a : PAcc), a.evs.length ≤ (l.foldl (visit E []) a).evs.length
  | [], a => Nat.le_refl _
  | x :: r, a => Nat.le_trans (visit_evs_mono E a x) (fold_evs_mono E r _)

theorem fold_no_progress (E : Env) : ∀ (l : List Item) (a : PAcc),
    (l.foldl (visit E []) a).evs.length = a.evs.length →
    ∀ it ∈ l, (aget a.busy (E.wk it.id)).isSome = true
  | [], _, _ => by simp
  | x :: r, a, h => by
    simp only [List.foldl] at h
    have hm := fold_evs_mono E r (visit E [] a x)
    have hv := visit_evs_mono E a x
    have hx : (visit E [] a x).evs.length = a.evs.length := by omega
    -- the visit of x changed nothing: its worker was busy
    have hb : (aget a.busy (E.wk x.id)).isSome = true ∧ visit E [] a x = a := by
      unfold visit at hx ⊢
      simp only [List.contains_nil, Bool.false_eq_true, ite_false] at hx ⊢
      cases hbx : aget a.busy (E.wk x.id) with
      | some _ => simp
      | none =>
        rw [hbx] at hx
        simp only at hx
        split at hx <;> simp at hx <;> omega
    rw [hb.2] at h
    intro it hit
    rcases List.mem_cons.mp hit with rfl | hit
    · exact hb.1
    · exact fold_no_progress E r a h it hit

theorem due_in_prefix {now : Int} : ∀ {q : List Item}, Sorted q → (∀ x ∈ q, x.whn = x.next + secUp x.off) →
    ∀ it ∈ q, it.whn ≤ now → it ∈ q.takeWhile (isDue now)
  | [], _, _, it, h, _ => by simp at h
  | a :: r, hs, hw, it, hit, hdue => by
    unfold Sorted at hs
    rw [List.pairwise_cons] at hs
    have ha : isDue now a = true := by
      have hle : a.whn ≤ it.whn := by
        rcases List.mem_cons.mp hit with rfl | hit
        · exact Int.le_refl _
        · exact less_whn_le (hs.1 it hit)
      have := hw a (by simp)
      simp only [isDue_def, decide_eq_true_eq]; omega
    rw [List.takeWhile_cons_of_pos ha]
    rcases List.mem_cons.mp hit with rfl | hit
    · simp
    · exact List.mem_cons_of_mem _ (due_in_prefix hs.2 (fun x hx => hw x (by simp [hx])) it hit hdue)

theorem process_no_progress {E : Env} {s : St} (hq : QInv s)
    (h : (process E [] s).trace.length = s.trace.length) :
    ∀ it ∈ s.queue, it.whn ≤ s.now → (aget s.busy (E.wk it.id)).isSome = true := by
  intro it hit hdue
  have hin := due_in_prefix hq.sorted hq.whn it hit hdue
  unfold process at h
  simp only [List.length_append] at h
  have h0 : ((s.queue.takeWhile (isDue s.now)).foldl (visit E []) { busy := s.busy }).evs.length = 0 := by omega
  exact fold_no_progress E _ { busy := s.busy } (by simpa using h0) it hin

/-! ### quiescence -/

/-- A pass of the inner loop that leaves the history as it was found nothing it could dispatch. -/
theorem loopIter_no_progress {E : Env} {u : St} (hq : QInv u)
    (h : (loopIter E [] u).1.trace.length = u.trace.length) :
    ∀ it ∈ u.queue, it.whn ≤ u.now → (aget u.busy (E.wk it.id)).isSome = true := by
  intro it hit hdue
  unfold loopIter at h
  cases hh : u.queue.head? with
  | none => rw [head_none hh] at hit; simp at hit
  | some hd =>
    rw [hh] at h
    simp only at h
    by_cases hst : hd.whn > u.now
    · have := head_min hq.sorted hh it hit
      omega
    · rw [if_neg hst] at h
      have hp : (process E [] u).trace.length = u.trace.length := by
        cases hh1 : (process E [] u).queue.head? with
        | none => rw [hh1] at h; simpa using h
        | some it1 =>
          rw [hh1] at h
          simp only at h
          split at h <;> simpa using h
      exact process_no_progress hq hp it hit hdue

theorem loopRun_one_trace (E : Env) (u : St) (hsp : u.spinning = true) :
    (loopRun E [] 1 u).trace = (loopIter E [] u).1.trace := by
  unfold loopRun
  simp only [hsp, ite_true, loopRun]
  split
  · split <;> rfl
  · rfl

theorem quiescent_due_busy {E : Env} {s : St} (hg : Good E s) (ht : TInv s) (hq : Quiescent E s) :
    ∀ it ∈ s.queue, it.whn ≤ s.now → (aget s.busy (E.wk it.id)).isSome = true := by
  obtain ⟨hl, hk⟩ := hq
  intro it hit hdue
  by_cases hsp : s.spinning = true
  · have := loopRun_one_trace E s hsp
    rw [hl] at this
    exact loopIter_no_progress hg.q (by rw [← this]) it hit hdue
  · have hsp' : s.spinning = false := by simpa using hsp
    by_cases htk : s.tick = true
    · unfold loopRun at hl
      simp only [hsp', Bool.false_eq_true, ite_false, htk, ite_true, loopRun] at hl
      have := congrArg St.tick hl
      simp [htk] at this
    · have htk' : s.tick = false := by simpa using htk
      cases hw : s.swhen with
      | none => have := ht.k2 hw; rw [this] at hit; simp at hit
      | some w =>
        rcases ht.j w hw with h1 | h1 | ⟨d, hd, h2⟩
        · rw [hsp'] at h1; cases h1
        · rw [htk'] at h1; cases h1
        · by_cases hle : d ≤ s.now * 1000
          · -- the timer can fire (a deadline in the past): the pass it causes changed nothing
            have hkick : kick s = { s with tick := true, timer := none } := by
              unfold kick
              simp [htk', hd, hle]
            rw [hkick] at hk
            unfold loopRun at hk
            simp only [hsp', Bool.false_eq_true, ite_false, ite_true] at hk
            have hu := loopRun_one_trace E { s with tick := false, timer := none, spinning := true } rfl
            rw [hk] at hu
            have hqu : QInv { s with tick := false, timer := none, spinning := true } :=
              ⟨hg.q.whn, hg.q.uniq, hg.q.idx, hg.q.sorted⟩
            exact loopIter_no_progress hqu (by rw [← hu]) it hit hdue
          · have hk1 := ht.k1 w hw it hit
            rcases h2 with h2 | h2
            · exact absurd h2 hle
            · omega

end Kap.C17
