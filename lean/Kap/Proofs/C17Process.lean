/-
C17 — helper lemmas, part 3: `process()` (Ascend with non-blocking dispatch, then all deletes, then all inserts)
preserves the invariants, and every executor entry it causes is accepted by the property monitor.
-/
import Kap.Proofs.C17Inv
namespace Kap.C17

/-! ### generic fold invariant -/

theorem foldl_inv_aux {α β} (f : β → α → β) (P : List α → β → Prop) (l : List α)
    (hstep : ∀ pre x post b, l = pre ++ x :: post → P pre b → P (pre ++ [x]) (f b x)) :
    ∀ (l' pre : List α) (b : β), l = pre ++ l' → P pre b → P l (l'.foldl f b) := by
  intro l'
  induction l' with
  | nil => intro pre b h hp; simp at h; subst h; exact hp
  | cons x xs ih =>
    intro pre b h hp
    simp only [List.foldl]
    apply ih (pre ++ [x]) (f b x)
    · simp [h]
    · exact hstep pre x xs b h hp

theorem foldl_inv {α β} (f : β → α → β) (P : List α → β → Prop) (l : List α) (b0 : β) (h0 : P [] b0)
    (hstep : ∀ pre x post b, l = pre ++ x :: post → P pre b → P (pre ++ [x]) (f b x)) :
    P l (l.foldl f b0) :=
  foldl_inv_aux f P l hstep l [] b0 rfl h0

/-! ### the delete and insert phases -/

theorem mem_foldl_del (D : List Item) : ∀ (ix : List (Nat × Int)) (q : List Item) (x : Item),
    x ∈ (D.foldl applyDel (ix, q)).2 ↔ x ∈ q ∧ ∀ d ∈ D, same x d = false := by
  induction D with
  | nil => intro ix q x; simp
  | cons d ds ih =>
    intro ix q x
    simp only [List.foldl, applyDel]
    rw [ih, mem_qdelete]
    simp only [List.mem_cons, forall_eq_or_imp]
    constructor
    · rintro ⟨⟨a, b⟩, c⟩; exact ⟨a, b, c⟩
    · rintro ⟨a, b, c⟩; exact ⟨⟨a, b⟩, c⟩

theorem idx_foldl_del (D : List Item) : ∀ (ix : List (Nat × Int)) (q : List Item) (id : Nat),
    aget (D.foldl applyDel (ix, q)).1 id = if (∃ d ∈ D, d.id = id) then none else aget ix id := by
  induction D with
  | nil => intro ix q id; simp
  | cons d ds ih =>
    intro ix q id
    simp only [List.foldl, applyDel]
    rw [ih, aget_adel]
    by_cases h1 : ∃ d' ∈ ds, d'.id = id
    · have : ∃ d' ∈ d :: ds, d'.id = id := by
        obtain ⟨d', hd, he⟩ := h1; exact ⟨d', by simp [hd], he⟩
      simp [h1]
    · by_cases h2 : d.id = id
      · have : ∃ d' ∈ d :: ds, d'.id = id := ⟨d, by simp, h2⟩
        simp [h1, h2, this]
      · have : ¬ ∃ d' ∈ d :: ds, d'.id = id := by
          rintro ⟨d', hd, he⟩
          rcases List.mem_cons.mp hd with rfl | hd
          · exact h2 he
          · exact h1 ⟨d', hd, he⟩
        simp [h1, h2, this]

theorem sorted_foldl_del (D : List Item) : ∀ (ix : List (Nat × Int)) (q : List Item),
    Sorted q → Sorted (D.foldl applyDel (ix, q)).2 := by
  induction D with
  | nil => intro ix q h; exact h
  | cons d ds ih => intro ix q h; exact ih _ _ (sorted_qdelete h)

theorem sorted_foldl_ins (I : List Item) : ∀ (p : List (Nat × Int) × List Item),
    Sorted p.2 → Sorted (I.foldl applyIns p).2 := by
  induction I with
  | nil => intro p h; exact h
  | cons i is ih => intro p h; exact ih _ (sorted_qreplace h)

theorem mem_foldl_ins (I : List Item) (hu : ∀ a ∈ I, ∀ b ∈ I, a.id = b.id → a = b) :
    ∀ (p : List (Nat × Int) × List Item) (x : Item),
    x ∈ (I.foldl applyIns p).2 ↔ x ∈ I ∨ (x ∈ p.2 ∧ ∀ i ∈ I, same x i = false) := by
  induction I with
  | nil => intro p x; simp
  | cons i0 is ih =>
    intro p x
    have hu' : ∀ a ∈ is, ∀ b ∈ is, a.id = b.id → a = b :=
      fun a ha b hb => hu a (by simp [ha]) b (by simp [hb])
    simp only [List.foldl, applyIns]
    rw [ih hu', mem_qreplace]
    simp only [List.mem_cons, forall_eq_or_imp]
    constructor
    · rintro (h | ⟨h | ⟨h1, h2⟩, h3⟩)
      · exact Or.inl (Or.inr h)
      · exact Or.inl (Or.inl h)
      · exact Or.inr ⟨h1, h2, h3⟩
    · rintro ((h | h) | ⟨h1, h2, h3⟩)
      · by_cases hx : x ∈ is
        · exact Or.inl hx
        · refine Or.inr ⟨Or.inl h, ?_⟩
          intro i hi
          cases hs : same x i with
          | false => rfl
          | true =>
            have hid := ((same_iff x i).mp hs).2
            have : x = i := hu x (by simp [h]) i (by simp [hi]) hid
            exact absurd (this ▸ hi) hx
      · exact Or.inl h
      · exact Or.inr ⟨Or.inr ⟨h1, h2⟩, h3⟩

theorem idx_foldl_ins (I : List Item) (hu : ∀ a ∈ I, ∀ b ∈ I, a.id = b.id → a = b) :
    ∀ (p : List (Nat × Int) × List Item) (id : Nat),
    (∀ i ∈ I, i.id = id → aget (I.foldl applyIns p).1 id = some i.whn) ∧
    ((∀ i ∈ I, i.id ≠ id) → aget (I.foldl applyIns p).1 id = aget p.1 id) := by
  induction I with
  | nil => intro p id; simp
  | cons i0 is ih =>
    intro p id
    have hu' : ∀ a ∈ is, ∀ b ∈ is, a.id = b.id → a = b :=
      fun a ha b hb => hu a (by simp [ha]) b (by simp [hb])
    simp only [List.foldl, applyIns]
    obtain ⟨ih1, ih2⟩ := ih hu' (aset p.1 i0.id i0.whn, qreplace p.2 i0) id
    constructor
    · intro i hi hid
      by_cases hin : ∃ j ∈ is, j.id = id
      · obtain ⟨j, hj, hjid⟩ := hin
        have : i = j := hu i hi j (by simp [hj]) (hid.trans hjid.symm)
        subst this
        exact ih1 i hj hid
      · have hne : ∀ j ∈ is, j.id ≠ id := fun j hj hjid => hin ⟨j, hj, hjid⟩
        rw [ih2 hne]
        rcases List.mem_cons.mp hi with rfl | hi'
        · simp [aget_aset, hid]
        · exact absurd hid (hne i hi')
    · intro hne
      rw [ih2 (fun j hj => hne j (by simp [hj]))]
      have := hne i0 (by simp)
      simp [aget_aset, this]

/-! ### the Ascend pass -/

theorem Coup.mono {E now P P' busy m} (h : Coup E now P busy m) (hp : ∀ x, P' x → P x) : Coup E now P' busy m :=
  ⟨h.now_eq, fun x hx => h.pend x (hp x hx), h.run_busy, h.busy_run, h.ck_lt, h.run_lt⟩

structure PInv (E : Env) (s : St) (pre : List Item) (a : PAcc) : Prop where
  del_sub : ∀ d ∈ a.toDel, d ∈ pre
  ins_from : ∀ i ∈ a.toIns, ∃ d ∈ a.toDel, ∃ n, E.nx d.sc d.next = some n ∧
      i = { d with next := n, whn := n + secUp d.off }
  mon : ∃ m, Tr E.nx (a.evs ++ s.trace) m ∧
      Coup E s.now (fun x => (x ∈ s.queue ∧ x ∉ a.toDel) ∨ x ∈ a.toIns) a.busy m

theorem pinv_visit {E : Env} (hincr : Incr E.nx) {s : St} (hq : QInv s) {pre : List Item} {a : PAcc} {it : Item}
    (hpre : ∀ x ∈ pre, x ∈ s.queue) (hit : it ∈ s.queue) (hdue : isDue s.now it = true) (hnot : it ∉ pre)
    (skip : List Nat) (h : PInv E s pre a) : PInv E s (pre ++ [it]) (visit E skip a it) := by
  obtain ⟨hdel, hins, m, ht, hc⟩ := h
  unfold visit
  split
  · exact ⟨fun d hd => by simp [hdel d hd], hins, m, ht, hc⟩
  cases hb : aget a.busy (E.wk it.id) with
  | some _ =>
    exact ⟨fun d hd => by simp [hdel d hd], hins, m, ht, hc⟩
  | none =>
    simp only
    have hnD : it ∉ a.toDel := fun h' => hnot (hdel it h')
    obtain ⟨hep, hex⟩ := hc.pend it (Or.inl ⟨hit, hnD⟩)
    have hrun : (m.view it.id).run = none := by
      cases hr : (m.view it.id).run with
      | none => rfl
      | some r =>
        obtain ⟨y, hy, _⟩ := hc.run_busy it.id (by simp [hr])
        rw [hb] at hy; cases hy
    have hdue' : it.next + secUp it.off ≤ s.now := by simpa [isDue_def] using hdue
    have hwhn := hq.whn it hit
    let v := m.view it.id
    let m' := m.set it.id { v with expect := E.nx it.sc it.next, run := some { occ := it.next, floor := v.ck } }
    have hstep : monStep E.nx m (Ev.start it.id it.next (it.whn - early it.off)) = .ok m' := by
      simp only [monStep]
      rw [hep]
      simp only [hrun, Option.isSome_none, Bool.false_eq_true, ite_false, hex, ne_eq, not_true_eq_false]
      have h1 : ¬ (it.next * 1000 + it.off > m.now * 1000) := by
        rw [hc.now_eq]
        have := le_secUp it.off
        omega
      have h2 : it.whn - early it.off = it.next + it.off.tdiv 1000 := by
        have := secUp_sub_early it.off
        omega
      simp [h1, h2, m', v, hep]
    have hview : ∀ id', id' ≠ it.id → m'.view id' = m.view id' := by
      intro id' hne
      simp only [m', view_set, Ne.symm hne, ite_false]
    have hview0 : m'.view it.id = { v with expect := E.nx it.sc it.next, run := some { occ := it.next, floor := v.ck } } := by
      simp [m', view_set]
    -- items other than `it` that are pending have another id
    have hother : ∀ x, ((x ∈ s.queue ∧ x ∉ a.toDel ++ [it]) ∨ x ∈ a.toIns) → x.id ≠ it.id ∧
        ((x ∈ s.queue ∧ x ∉ a.toDel) ∨ x ∈ a.toIns) := by
      intro x hx
      rcases hx with ⟨hxq, hxn⟩ | hxi
      · have hxne : x ≠ it := fun h' => hxn (by simp [h'])
        refine ⟨fun hid => hxne (hq.uniq x hxq it hit hid), Or.inl ⟨hxq, fun h' => hxn (by simp [h'])⟩⟩
      · obtain ⟨d, hd, n, _, rfl⟩ := hins x hxi
        refine ⟨?_, Or.inr hxi⟩
        simp only
        intro hid
        have : d = it := hq.uniq d (hpre d (hdel d hd)) it hit hid
        exact hnot (this ▸ hdel d hd)
    -- the coupling after the `start` event, for any pending set that adds at most the successor of `it`
    have hcoup : ∀ (P : Item → Prop),
        (∀ x, P x → (x.id ≠ it.id ∧ ((x ∈ s.queue ∧ x ∉ a.toDel) ∨ x ∈ a.toIns)) ∨
                    (∃ n, E.nx it.sc it.next = some n ∧ x = { it with next := n, whn := n + secUp it.off })) →
        Coup E s.now P (aset a.busy (E.wk it.id) it) m' := by
      intro P hP
      refine ⟨by simp [m', hc.now_eq], ?_, ?_, ?_, ?_, ?_⟩
      · intro x hx
        rcases hP x hx with ⟨hne, hold⟩ | ⟨n, hn, rfl⟩
        · rw [hview x.id hne]; exact hc.pend x hold
        · simp only [hview0, hn]
          exact ⟨hep, trivial⟩
      · intro id' hr
        by_cases hid : id' = it.id
        · subst hid; exact ⟨it, by simp [aget_aset], rfl⟩
        · rw [hview id' hid] at hr
          obtain ⟨y, hy, hyid⟩ := hc.run_busy id' hr
          refine ⟨y, ?_, hyid⟩
          rw [aget_aset]
          have : E.wk it.id ≠ E.wk id' := by
            intro heq; rw [← heq, hb] at hy; cases hy
          simp [this, hy]
      · intro w x hx
        rw [aget_aset] at hx
        by_cases hw : E.wk it.id = w
        · simp only [hw, ite_true, Option.some.injEq] at hx
          subst hx
          refine ⟨hw.symm, ?_⟩
          rw [hview0]
          refine ⟨_, rfl, rfl, rfl, ?_⟩
          intro c hck
          exact hc.ck_lt it.id c it.next hck hex
        · simp only [hw, ite_false] at hx
          obtain ⟨hwx, r', hr', a1, a2, a3⟩ := hc.busy_run w x hx
          refine ⟨hwx, ?_⟩
          have : x.id ≠ it.id := fun h' => hw (by rw [hwx, h'])
          rw [hview x.id this]
          exact ⟨r', hr', a1, a2, a3⟩
      · intro id' c n hck hexp
        by_cases hid : id' = it.id
        · subst hid
          rw [hview0] at hck hexp
          simp only at hck hexp
          have h1 := hc.ck_lt it.id c it.next hck hex
          have h2 := hincr _ _ _ hexp
          omega
        · rw [hview id' hid] at hck hexp; exact hc.ck_lt id' c n hck hexp
      · intro id' r n hr hcur hexp
        by_cases hid : id' = it.id
        · subst hid
          rw [hview0] at hr hexp
          simp only [Option.some.injEq] at hr hexp
          subst hr
          exact hincr _ _ _ hexp
        · rw [hview id' hid] at hr hexp; exact hc.run_lt id' r n hr hcur hexp
    have hdel' : ∀ d ∈ a.toDel ++ [it], d ∈ pre ++ [it] := by
      intro d hd
      rcases List.mem_append.mp hd with hd | hd
      · simp [hdel d hd]
      · simp at hd; simp [hd]
    cases hn : E.nx it.sc it.next with
    | none =>
      simp only
      refine ⟨hdel', ?_, m', ?_, ?_⟩
      · intro i hi
        obtain ⟨d, hd, n, h1, h2⟩ := hins i hi
        exact ⟨d, by simp [hd], n, h1, h2⟩
      · exact (ht.cons hstep).cons (e := Ev.onErr it.id) rfl
      · exact hcoup _ (fun x hx => Or.inl (hother x hx))
    | some n =>
      simp only
      refine ⟨hdel', ?_, m', ?_, ?_⟩
      · intro i hi
        rcases List.mem_append.mp hi with hi | hi
        · obtain ⟨d, hd, n', h1, h2⟩ := hins i hi
          exact ⟨d, by simp [hd], n', h1, h2⟩
        · simp only [List.mem_singleton] at hi
          exact ⟨it, by simp, n, hn, hi⟩
      · exact ht.cons hstep
      · apply hcoup
        intro x hx
        rcases hx with hx | hx
        · exact Or.inl (hother x (Or.inl hx))
        · rcases List.mem_append.mp hx with hx | hx
          · exact Or.inl (hother x (Or.inr hx))
          · simp only [List.mem_singleton] at hx
            exact Or.inr ⟨n, hn, hx⟩

theorem sorted_nodup {l : List Item} (h : Sorted l) : l.Nodup := by
  unfold Sorted at h
  exact h.imp (fun {a b} hab heq => by subst heq; rw [less_irrefl] at hab; cases hab)

theorem mem_takeWhile_true {α} (p : α → Bool) : ∀ (l : List α) (x : α), x ∈ l.takeWhile p → p x = true
  | [], x, h => by simp at h
  | a :: r, x, h => by
    by_cases ha : p a = true
    · rw [List.takeWhile_cons_of_pos ha] at h
      rcases List.mem_cons.mp h with rfl | h
      · exact ha
      · exact mem_takeWhile_true p r x h
    · rw [List.takeWhile_cons_of_neg ha] at h; simp at h

theorem takeWhile_prefix {α} (p : α → Bool) (l : List α) : ∃ r, l = l.takeWhile p ++ r :=
  ⟨l.dropWhile p, (List.takeWhile_append_dropWhile).symm⟩

/-- The Ascend pass: the fold of `visit` over the due prefix of the queue. -/
theorem pinv_fold {E : Env} (hincr : Incr E.nx) {s : St} (h : Good E s) (skip : List Nat) :
    PInv E s (s.queue.takeWhile (isDue s.now))
      ((s.queue.takeWhile (isDue s.now)).foldl (visit E skip) { busy := s.busy }) := by
  obtain ⟨hq, m, ht, hc⟩ := h
  have hnd : (s.queue.takeWhile (isDue s.now)).Nodup := by
    obtain ⟨r, hr⟩ := takeWhile_prefix (isDue s.now) s.queue
    have := sorted_nodup hq.sorted
    rw [hr] at this
    exact (List.nodup_append.mp this).1
  apply foldl_inv (visit E skip) (PInv E s)
  · refine ⟨by simp, by simp, m, by simpa using ht, ?_⟩
    exact hc.mono (fun x hx => by
      rcases hx with ⟨hx, _⟩ | hx
      · exact hx
      · simp at hx)
  · intro pre x post b hl hp
    have hmem : ∀ y ∈ s.queue.takeWhile (isDue s.now), y ∈ s.queue ∧ isDue s.now y = true := by
      intro y hy
      exact ⟨(List.takeWhile_sublist _).subset hy, mem_takeWhile_true _ _ _ hy⟩
    have hx := hmem x (by rw [hl]; simp)
    apply pinv_visit hincr hq _ hx.1 hx.2 _ skip hp
    · intro y hy; exact (hmem y (by rw [hl]; simp [hy])).1
    · intro hxp
      rw [hl] at hnd
      have := (List.nodup_append.mp hnd).2.2 x hxp x (by simp)
      exact this rfl

theorem good_process {E : Env} (hincr : Incr E.nx) {s : St} (h : Good E s) (skip : List Nat) :
    Good E (process E skip s) := by
  have hp := pinv_fold hincr h skip
  obtain ⟨hq, _⟩ := h
  unfold process
  simp only
  generalize (s.queue.takeWhile (isDue s.now)).foldl (visit E skip) { busy := s.busy } = a at hp
  obtain ⟨hdel, hins, m, ht, hc⟩ := hp
  have hDq : ∀ d ∈ a.toDel, d ∈ s.queue := fun d hd => (List.takeWhile_sublist _).subset (hdel d hd)
  -- successors of distinct deleted items are distinct
  have hIu : ∀ x ∈ a.toIns, ∀ y ∈ a.toIns, x.id = y.id → x = y := by
    intro x hx y hy hid
    obtain ⟨d1, hd1, n1, hn1, rfl⟩ := hins x hx
    obtain ⟨d2, hd2, n2, hn2, rfl⟩ := hins y hy
    simp only at hid
    have : d1 = d2 := hq.uniq d1 (hDq d1 hd1) d2 (hDq d2 hd2) hid
    subst this
    rw [hn1] at hn2; cases hn2; rfl
  have hmem : ∀ x, x ∈ (a.toIns.foldl applyIns (a.toDel.foldl applyDel (s.index, s.queue))).2 ↔
      x ∈ a.toIns ∨ (x ∈ s.queue ∧ x ∉ a.toDel) := by
    intro x
    rw [mem_foldl_ins _ hIu, mem_foldl_del]
    constructor
    · rintro (h | ⟨⟨hxq, hxd⟩, _⟩)
      · exact Or.inl h
      · refine Or.inr ⟨hxq, fun hxD => ?_⟩
        have := hxd x hxD
        rw [(same_iff x x).mpr ⟨rfl, rfl⟩] at this; cases this
    · rintro (h | ⟨hxq, hxD⟩)
      · exact Or.inl h
      · by_cases hxi : x ∈ a.toIns
        · exact Or.inl hxi
        · refine Or.inr ⟨⟨hxq, ?_⟩, ?_⟩
          · intro d hd
            cases hs : same x d with
            | false => rfl
            | true =>
              have := hq.uniq x hxq d (hDq d hd) ((same_iff x d).mp hs).2
              exact absurd (this ▸ hd) hxD
          · intro i hi
            obtain ⟨d, hd, n, _, rfl⟩ := hins i hi
            apply same_false_of_id_ne
            simp only
            intro hid
            have := hq.uniq x hxq d (hDq d hd) hid
            exact hxD (this ▸ hd)
  have huniq : ∀ x ∈ (a.toIns.foldl applyIns (a.toDel.foldl applyDel (s.index, s.queue))).2,
      ∀ y ∈ (a.toIns.foldl applyIns (a.toDel.foldl applyDel (s.index, s.queue))).2, x.id = y.id → x = y := by
    intro x hx y hy hid
    rcases (hmem x).mp hx with hx | ⟨hxq, hxD⟩ <;> rcases (hmem y).mp hy with hy | ⟨hyq, hyD⟩
    · exact hIu x hx y hy hid
    · obtain ⟨d, hd, n, _, rfl⟩ := hins x hx
      have := hq.uniq d (hDq d hd) y hyq hid
      exact absurd (this ▸ hd) hyD
    · obtain ⟨d, hd, n, _, rfl⟩ := hins y hy
      have := hq.uniq x hxq d (hDq d hd) hid
      exact absurd (this ▸ hd) hxD
    · exact hq.uniq x hxq y hyq hid
  refine ⟨⟨?_, huniq, ?_, ?_⟩, m, ht, ?_⟩
  · intro x hx
    rcases (hmem x).mp hx with hx | ⟨hxq, _⟩
    · obtain ⟨d, _, n, _, rfl⟩ := hins x hx; rfl
    · exact hq.whn x hxq
  · intro id w
    obtain ⟨i1, i2⟩ := idx_foldl_ins a.toIns hIu (a.toDel.foldl applyDel (s.index, s.queue)) id
    by_cases hin : ∃ i ∈ a.toIns, i.id = id
    · obtain ⟨i, hi, hiid⟩ := hin
      rw [i1 i hi hiid]
      constructor
      · intro hw; cases hw; exact ⟨i, (hmem i).mpr (Or.inl hi), hiid, rfl⟩
      · rintro ⟨y, hy, hyid, hyw⟩
        have := huniq y hy i ((hmem i).mpr (Or.inl hi)) (hyid.trans hiid.symm)
        subst this; rw [hyw]
    · have hne : ∀ i ∈ a.toIns, i.id ≠ id := fun i hi hid => hin ⟨i, hi, hid⟩
      rw [i2 hne, idx_foldl_del]
      by_cases hd : ∃ d ∈ a.toDel, d.id = id
      · simp only [hd, ite_true]
        constructor
        · intro h; cases h
        · rintro ⟨y, hy, hyid, _⟩
          obtain ⟨d, hdD, hdid⟩ := hd
          rcases (hmem y).mp hy with hy | ⟨hyq, hyD⟩
          · exact absurd hyid (hne y hy)
          · have := hq.uniq y hyq d (hDq d hdD) (hyid.trans hdid.symm)
            exact absurd (this ▸ hdD) hyD
      · simp only [hd, ite_false]
        rw [hq.idx]
        constructor
        · rintro ⟨y, hy, hyid, hyw⟩
          refine ⟨y, (hmem y).mpr (Or.inr ⟨hy, fun hyD => hd ⟨y, hyD, hyid⟩⟩), hyid, hyw⟩
        · rintro ⟨y, hy, hyid, hyw⟩
          rcases (hmem y).mp hy with hy | ⟨hyq, _⟩
          · exact absurd hyid (hne y hy)
          · exact ⟨y, hyq, hyid, hyw⟩
  · exact sorted_foldl_ins _ _ (sorted_foldl_del _ _ _ hq.sorted)
  · apply hc.mono
    intro x hx
    rcases (hmem x).mp hx with hx | hx
    · exact Or.inr hx
    · exact Or.inl hx

end Kap.C17
