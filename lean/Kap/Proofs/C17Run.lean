/-
C17 — helper lemmas, part 4: every action preserves the invariants; the harness ops (`step`) are compositions
of actions.
-/
import Kap.Proofs.C17Process
namespace Kap.C17

theorem good_loopIter {E : Env} (hincr : Incr E.nx) {s : St} (h : Good E s) (skip : List Nat) :
    Good E (loopIter E skip s).1 := by
  unfold loopIter
  split
  · exact h.congr rfl rfl rfl rfl rfl
  · split
    · exact h.congr rfl rfl rfl rfl rfl
    · have hp := good_process hincr h skip
      simp only
      split
      · exact hp.congr rfl rfl rfl rfl rfl
      · split
        · exact hp.congr rfl rfl rfl rfl rfl
        · exact hp.congr rfl rfl rfl rfl rfl

theorem good_act {E : Env} (hincr : Incr E.nx) {s : St} (h : Good E s) (a : Act) : Good E (act E s a) := by
  cases a with
  | sched id sc off last frac => exact good_schedule h id sc off last frac
  | rel id => exact good_release h id
  | adv d => exact good_adv h d
  | fire => exact good_kick h
  | consume =>
    simp only [act]
    split
    · exact h.congr rfl rfl rfl rfl rfl
    · exact h
  | iter skip =>
    simp only [act]
    split
    · exact (good_loopIter hincr h skip).congr rfl rfl rfl rfl rfl
    · exact h
  | done id res cpok => exact good_done h id res cpok

theorem good_runActs {E : Env} (hincr : Incr E.nx) (as : List Act) : ∀ {s : St}, Good E s → Good E (runActs E s as) := by
  induction as with
  | nil => intro s h; exact h
  | cons a as ih => intro s h; exact ih (good_act hincr h a)

theorem runActs_append (E : Env) (s : St) (a b : List Act) : runActs E s (a ++ b) = runActs E (runActs E s a) b := by
  simp [runActs, List.foldl_append]

/-! ### the harness ops are action sequences -/

theorem loopRun_acts (E : Env) (skip : List Nat) : ∀ (f : Nat) (s : St), ∃ as, loopRun E skip f s = runActs E s as := by
  intro f
  induction f with
  | zero => intro s; exact ⟨[], rfl⟩
  | succ f ih =>
    intro s
    unfold loopRun
    by_cases hsp : s.spinning = true
    · simp only [hsp, ite_true]
      have hiter : act E s (Act.iter skip) = { (loopIter E skip s).1 with spinning := (loopIter E skip s).2 } := by
        simp [act, hsp]
      by_cases hc : (loopIter E skip s).2 = true
      · simp only [hc, ite_true]
        have hspin : (loopIter E skip s).1.spinning = true := by
          unfold loopIter
          split
          · simpa using hsp
          · split
            · simpa using hsp
            · simp only
              split
              · simpa [process] using hsp
              · split <;> simpa [process] using hsp
        have heq : act E s (Act.iter skip) = (loopIter E skip s).1 := by
          rw [hiter, hc, ← hspin]
        split
        · exact ⟨[(Act.iter skip)], by simp [runActs, heq]⟩
        · obtain ⟨as, has⟩ := ih (loopIter E skip s).1
          exact ⟨(Act.iter skip) :: as, by simp [runActs, heq] at has ⊢; exact has⟩
      · have hc' : (loopIter E skip s).2 = false := by simpa using hc
        simp only [hc', Bool.false_eq_true, ite_false]
        obtain ⟨as, has⟩ := ih { (loopIter E skip s).1 with spinning := false }
        refine ⟨(Act.iter skip) :: as, ?_⟩
        simp only [runActs, List.foldl] at has ⊢
        rw [hiter, hc']; exact has
    · have hsp' : s.spinning = false := by simpa using hsp
      simp only [hsp', Bool.false_eq_true, ite_false]
      by_cases ht : s.tick = true
      · simp only [ht, ite_true]
        obtain ⟨as, has⟩ := ih { s with tick := false, spinning := true }
        refine ⟨Act.consume :: as, ?_⟩
        simp only [runActs, List.foldl] at has ⊢
        have : act E s Act.consume = { s with tick := false, spinning := true } := by simp [act, ht, hsp']
        rw [this]; exact has
      · have ht' : s.tick = false := by simpa using ht
        simp only [ht', Bool.false_eq_true, ite_false]
        exact ⟨[], rfl⟩

theorem settle_acts (E : Env) (skip : List Nat) (s : St) : ∃ as, settle E skip s = runActs E s as := by
  unfold settle
  obtain ⟨a1, h1⟩ := loopRun_acts E skip fuel s
  obtain ⟨a2, h2⟩ := loopRun_acts E skip fuel (kick (loopRun E skip fuel s))
  obtain ⟨a3, h3⟩ := loopRun_acts E skip fuel (kick (loopRun E skip fuel (kick (loopRun E skip fuel s))))
  refine ⟨a1 ++ [Act.fire] ++ a2 ++ [Act.fire] ++ a3, ?_⟩
  rw [h3, h2, h1]
  simp [runActs, List.foldl_append, act]

theorem step_acts (E : Env) (skip : List Nat) (s : St) (op : Op) : ∃ as, step E skip s op = runActs E s as := by
  cases op with
  | sched id sc off last frac =>
    obtain ⟨as, h⟩ := settle_acts E skip (schedule E s id sc off last frac)
    exact ⟨Act.sched id sc off last frac :: as, by simp only [step, h]; rfl⟩
  | rel id =>
    obtain ⟨as, h⟩ := settle_acts E skip (release s id)
    exact ⟨Act.rel id :: as, by simp only [step, h]; rfl⟩
  | adv d =>
    simp only [step]
    split
    · exact settle_acts E skip s
    · obtain ⟨as, h⟩ := settle_acts E skip { s with now := s.now + d, trace := Ev.clock (s.now + d) :: s.trace }
      exact ⟨Act.adv d :: as, by rw [h]; rfl⟩
  | done id res cpok =>
    obtain ⟨as, h⟩ := settle_acts E skip (done E s id res cpok)
    exact ⟨Act.done id res cpok :: as, by simp only [step, h]; rfl⟩

/-- Ops, each with the skip list of its loop passes. -/
def runOps (E : Env) (s : St) (ops : List (List Nat × Op)) : St := ops.foldl (fun s p => step E p.1 s p.2) s

theorem runOps_acts (E : Env) (ops : List (List Nat × Op)) : ∀ s, ∃ as, runOps E s ops = runActs E s as := by
  induction ops with
  | nil => intro s; exact ⟨[], rfl⟩
  | cons op ops ih =>
    intro s
    obtain ⟨a1, h1⟩ := step_acts E op.1 s op.2
    obtain ⟨a2, h2⟩ := ih (step E op.1 s op.2)
    refine ⟨a1 ++ a2, ?_⟩
    rw [runActs_append, ← h1, ← h2]; rfl

end Kap.C17
