/-
C18 — helper lemmas (core Lean only): stream replay arithmetic, framing round trip, batch replay.
-/
import Kap.Spec.C18
namespace Kap.C18
open List

/-! ## Stream replay arithmetic -/

theorem replayStreamGo_length (zero : Int) (rec : Bool) (d : Option Int) (ps : List SPoint) :
    (replayStreamGo zero rec d ps).length = ps.length := by
  induction ps generalizing d with
  | nil => simp [replayStreamGo]
  | cons p rest ih => simp [replayStreamGo, ih]

/-- With the offset already fixed, every delivered point is the recorded point with its time shifted (or kept). -/
theorem replayStreamGo_some (zero : Int) (rec : Bool) (d : Int) (ps : List SPoint) :
    replayStreamGo zero rec (some d) ps =
      ps.map (fun p => ⟨if rec then p else { p with time := p.time + d }, p.time + d⟩) := by
  induction ps with
  | nil => simp [replayStreamGo]
  | cons p rest ih => simp [replayStreamGo, ih]

theorem replayStream_eq (zero : Int) (rec : Bool) (ps : List SPoint) :
    replayStream zero rec ps =
      ps.map (fun p => ⟨if rec then p else { p with time := p.time + (zero - (ps.head?.map (·.time)).getD 0) },
                        p.time + (zero - (ps.head?.map (·.time)).getD 0)⟩) := by
  cases ps with
  | nil => simp [replayStream, replayStreamGo]
  | cons p rest => simp [replayStream, replayStreamGo, replayStreamGo_some]

end Kap.C18

namespace Kap.C18
open List

theorem all_zip_map_right {α β} (l : List α) (f : α → β) (P : α × β → Bool)
    (h : ∀ x ∈ l, P (x, f x) = true) : (l.zip (l.map f)).all P = true := by
  induction l with
  | nil => simp
  | cons a rest ih =>
    simp only [List.map_cons, List.zip_cons_cons, List.all_cons, Bool.and_eq_true]
    exact ⟨h a (by simp), ih (fun x hx => h x (by simp [hx]))⟩

/-- The times of a list shifted by `d` satisfy "identical or one constant offset". -/
theorem timesOK_shift (rec : Bool) (d : Int) (ins : List Int) :
    timesOK rec ins (ins.map (fun t => if rec then t else t + d)) = true := by
  cases rec with
  | true => simp [timesOK]
  | false =>
    cases ins with
    | nil => simp [timesOK]
    | cons i0 rest =>
      have h : i0 + d - i0 = d := by omega
      simp [timesOK, h]

/-- What the collector saw, from the model's result. -/
def sObs (r : Replayed SOut) (groups : List (Bytes × Bool × List Bytes)) : SObs :=
  ⟨r.status, r.closes, r.closedAt, r.items.map (·.p), groups⟩

theorem specStream_replay (zero : Int) (rec : Bool) (ps : List SPoint) (G : List (Bytes × Bool × List Bytes)) :
    let items := replayStream zero rec ps
    specStream rec ps G (sObs ⟨.ok, items, 1, items.length⟩ G) = none := by
  intro items
  have hlen : items.length = ps.length := replayStreamGo_length _ _ _ _
  let d := zero - (ps.head?.map (·.time)).getD 0
  have hitems : items.map (·.p) = ps.map (fun p => if rec then p else { p with time := p.time + d }) := by
    show (replayStream zero rec ps).map (·.p) = _
    rw [replayStream_eq]; simp [List.map_map, Function.comp_def, d]
  have htimes : timesOK rec (ps.map (·.time)) ((ps.map (fun p => if rec then p else { p with time := p.time + d })).map (·.time)) = true := by
    have := timesOK_shift rec d (ps.map (·.time))
    cases rec <;> simpa [List.map_map, Function.comp_def] using this
  have key : ∀ (P : SPoint × SPoint → Bool), (∀ p : SPoint, P (p, if rec then p else { p with time := p.time + d }) = true) →
      (ps.zip (ps.map (fun p => if rec then p else { p with time := p.time + d }))).all P = true :=
    fun P h => all_zip_map_right ps _ P (fun x _ => h x)
  unfold specStream sObs
  simp only [hitems, List.length_map, hlen, htimes]
  rw [key _ (by intro p; cases rec <;> simp), key _ (by intro p; cases rec <;> simp),
      key _ (by intro p; cases rec <;> simp), key _ (by intro p; cases rec <;> simp),
      key _ (by intro p; cases rec <;> simp)]
  simp

end Kap.C18
namespace Kap.C18
open List

/-! ## Framing -/

/-- A component can be written on its own line of a stream recording. -/
def cleanComp (s : Bytes) : Prop := NL ∉ s ∧ s.getLast? ≠ some CR ∧ s.length < maxTok

instance (s : Bytes) : Decidable (cleanComp s) := by unfold cleanComp; exact inferInstance

def Frame.clean (f : Frame) : Prop := cleanComp f.db ∧ cleanComp f.rp ∧ cleanComp f.line

instance (f : Frame) : Decidable f.clean := by unfold Frame.clean; exact inferInstance

def Frame.comps (f : Frame) : List Bytes := [f.db, f.rp, f.line]

theorem splitNL_append (l rest : Bytes) (h : NL ∉ l) :
    splitNL (l ++ NL :: rest) = (l :: (splitNL rest).1, (splitNL rest).2) := by
  induction l with
  | nil => simp [splitNL]
  | cons c l ih =>
    have hc : c ≠ NL := fun e => h (by simp [e])
    have hl : NL ∉ l := fun e => h (by simp [e])
    simp [splitNL, hc, ih hl]

theorem splitNL_writeFrames (fs : List Frame) (h : ∀ f ∈ fs, NL ∉ f.db ∧ NL ∉ f.rp ∧ NL ∉ f.line) :
    splitNL (writeFrames fs) = (fs.flatMap Frame.comps, []) := by
  induction fs with
  | nil => simp [writeFrames, splitNL]
  | cons f fs ih =>
    obtain ⟨h1, h2, h3⟩ := h f (by simp)
    have ih' := ih (fun g hg => h g (by simp [hg]))
    have e : writeFrames (f :: fs) = f.db ++ NL :: (f.rp ++ NL :: (f.line ++ NL :: writeFrames fs)) := by
      simp [writeFrames, Frame.bytes]
    rw [e, splitNL_append _ _ h1, splitNL_append _ _ h2, splitNL_append _ _ h3]
    simp only [writeFrames] at ih'
    simp [ih', Frame.comps, writeFrames]

theorem dropCR_of_clean (s : Bytes) (h : s.getLast? ≠ some CR) : dropCR s = s := by
  unfold dropCR
  cases hl : s.getLast? with
  | none => rfl
  | some c =>
    have : c ≠ CR := fun e => h (by rw [hl, e])
    simp [this]

theorem scanLines_clean (ls : List Bytes) (h : ∀ l ∈ ls, l.getLast? ≠ some CR ∧ l.length < maxTok) :
    scanLines maxTok ls = (ls, false) := by
  induction ls with
  | nil => simp [scanLines]
  | cons l rest ih =>
    obtain ⟨h1, h2⟩ := h l (by simp)
    have : ¬ l.length ≥ maxTok := by omega
    simp [scanLines, this, ih (fun x hx => h x (by simp [hx])), dropCR_of_clean l h1]

theorem frames_comps (fs : List Frame) : frames (fs.flatMap Frame.comps) false = (fs, true) := by
  induction fs with
  | nil => simp [frames]
  | cons f fs ih => simp [Frame.comps, frames, ih]

/-- **Framing round trip**: frames whose three components are clean are read back exactly. -/
theorem readFrames_writeFrames (fs : List Frame) (h : ∀ f ∈ fs, f.clean) :
    readFrames maxTok (writeFrames fs) = (fs, true) := by
  have hs := splitNL_writeFrames fs (fun f hf => ⟨(h f hf).1.1, (h f hf).2.1.1, (h f hf).2.2.1⟩)
  unfold readFrames rawLines
  rw [hs]
  simp only [List.isEmpty_nil, if_true]
  rw [scanLines_clean]
  · exact frames_comps fs
  · intro l hl
    simp only [List.mem_flatMap, Frame.comps] at hl
    obtain ⟨f, hf, hl⟩ := hl
    have := h f hf
    simp at hl
    rcases hl with rfl | rfl | rfl
    · exact ⟨this.1.2.1, this.1.2.2⟩
    · exact ⟨this.2.1.2.1, this.2.1.2.2⟩
    · exact ⟨this.2.2.2.1, this.2.2.2.2⟩

end Kap.C18
namespace Kap.C18
open List

/-! ## Batches -/

/-- One step of `replayBatchFromChan` once the offset is known (code since the tmax `fix:`). -/
def replayOne (recTime : Bool) (d : Int) (b : Batch) : BOut :=
  let pts := if recTime then b.points else b.points.map (fun p => { p with time := p.time + d })
  let tmax0 := if recTime then b.tmax else b.tmax + d
  ⟨{ b with points := pts, tmax := if tmax0 < lastTime pts then lastTime pts else tmax0 },
   if recTime then lastTime b.points + d else lastTime pts⟩

theorem replayBatchesGo_some (zero : Int) (rec : Bool) (d : Int) (bs : List Batch) :
    replayBatchesGo true zero rec (some d) bs = bs.map (replayOne rec d) := by
  induction bs with
  | nil => simp [replayBatchesGo]
  | cons b rest ih => cases rec <;> simp [replayBatchesGo, ih, replayOne]

/-- The offset of a batch replay: clock zero minus the first point of the first batch. -/
def batchOffset (zero : Int) (bs : List Batch) : Int :=
  match bs with
  | b :: _ => zero - b.firstTime
  | [] => 0

theorem replayBatchesGo_none (zero : Int) (rec : Bool) (bs : List Batch) :
    replayBatchesGo true zero rec none bs = bs.map (replayOne rec (batchOffset zero bs)) := by
  cases bs with
  | nil => simp [replayBatchesGo]
  | cons b rest =>
    simp only [replayBatchesGo, replayBatchesGo_some, List.map_cons]
    cases rec <;> simp [replayOne, batchOffset]

theorem lastTime_map_shift (ps : List BPoint) (d : Int) (h : ps ≠ []) :
    lastTime (ps.map (fun p => { p with time := p.time + d })) = lastTime ps + d := by
  unfold lastTime
  rw [List.getLast?_map]
  cases hl : ps.getLast? with
  | none => simp [List.getLast?_eq_none_iff] at hl; exact absurd hl h
  | some p => simp

theorem lastTime_le (ps : List BPoint) (t : Int) (h : ps ≠ []) (hall : ∀ p ∈ ps, p.time ≤ t) : lastTime ps ≤ t := by
  unfold lastTime
  cases hl : ps.getLast? with
  | none => simp [List.getLast?_eq_none_iff] at hl; exact absurd hl h
  | some p => exact hall p (List.mem_of_getLast? hl)

/-- tmax of a replayed batch whose recorded tmax is not before its points: shifted like the points. -/
theorem replayOne_tmax (rec : Bool) (d : Int) (b : Batch) (hne : b.points ≠ []) (hwf : b.wfTmax = true) :
    (replayOne rec d b).b.tmax = if rec then b.tmax else b.tmax + d := by
  have hall : ∀ p ∈ b.points, p.time ≤ b.tmax := by
    simpa [Batch.wfTmax] using hwf
  have hle := lastTime_le b.points b.tmax hne hall
  cases rec with
  | true =>
    have : ¬ b.tmax < lastTime b.points := by omega
    simp [replayOne, this]
  | false =>
    have : ¬ b.tmax + d < lastTime b.points + d := by omega
    simp [replayOne, lastTime_map_shift _ _ hne, this]


theorem all_zip_map_right' {α β} (l : List α) (f : α → β) (P : α × β → Bool)
    (h : ∀ x ∈ l, P (x, f x) = true) : (l.zip (l.map f)).all P = true := by
  induction l with
  | nil => simp
  | cons a rest ih =>
    simp only [List.map_cons, List.zip_cons_cons, List.all_cons, Bool.and_eq_true]
    exact ⟨h a (by simp), ih (fun x hx => h x (by simp [hx]))⟩

def groupsOf (bs : List Batch) : List (Bytes × List Bytes) :=
  bs.map (fun b => (groupID b.name b.byName b.tags, b.tags.map (·.1)))

/-- What the collector saw, from the model's result (group and dimensions as `NewBeginBatchMessage`/`SetTags` compute them). -/
def bObs (r : Replayed BOut) : BObs :=
  ⟨r.status, r.closes, r.closedAt, r.items.map (·.b), groupsOf (r.items.map (·.b))⟩

def batchTimes (b : Batch) : List Int := b.points.map (·.time) ++ (if b.wfTmax then [b.tmax] else [])

theorem replayOne_times (rec : Bool) (d : Int) (b : Batch) (hne : b.points ≠ []) :
    (replayOne rec d b).b.points.map (·.time) ++ (if b.wfTmax then [(replayOne rec d b).b.tmax] else []) =
      (batchTimes b).map (fun t => if rec then t else t + d) := by
  unfold batchTimes
  by_cases hwf : b.wfTmax = true
  · rw [replayOne_tmax rec d b hne hwf]
    cases rec <;> simp [replayOne, hwf, List.map_map, Function.comp_def]
  · cases rec <;> simp [replayOne, hwf, List.map_map, Function.comp_def]

theorem allTimes_replay (rec : Bool) (d : Int) (L : List Batch) (hne : ∀ b ∈ L, b.points ≠ []) :
    allTimes L (L.map (fun b => (replayOne rec d b).b)) =
      (L.flatMap batchTimes, (L.flatMap batchTimes).map (fun t => if rec then t else t + d)) := by
  induction L with
  | nil => simp [allTimes]
  | cons b rest ih =>
    have ih' := ih (fun x hx => hne x (by simp [hx]))
    have hb := replayOne_times rec d b (hne b (by simp))
    simp only [allTimes, Prod.mk.injEq] at ih' ⊢
    simp only [List.map_cons, List.zip_cons_cons, List.flatMap_cons, List.map_append]
    refine ⟨?_, ?_⟩
    · rw [ih'.1]; rfl
    · rw [ih'.2, hb]

theorem timesOK_shift' (rec : Bool) (d : Int) (ins : List Int) :
    timesOK rec ins (ins.map (fun t => if rec then t else t + d)) = true := by
  cases rec with
  | true => simp [timesOK]
  | false =>
    cases ins with
    | nil => simp [timesOK]
    | cons i0 rest =>
      have h : i0 + d - i0 = d := by omega
      simp [timesOK, h]

/-- The property's executable spec holds between any list of non-empty batches and what `replayBatchFromChan`
delivers for it, for every offset. -/
theorem specBatch_replay (rec : Bool) (d : Int) (L : List Batch) (hne : ∀ b ∈ L, b.points ≠ []) :
    specBatch rec L (groupsOf L) (bObs ⟨.ok, L.map (replayOne rec d), 1, L.length⟩) = none := by
  have hitems : (L.map (replayOne rec d)).map (·.b) = L.map (fun b => (replayOne rec d b).b) := by
    simp [List.map_map, Function.comp_def]
  have hgroups : groupsOf (L.map (fun b => (replayOne rec d b).b)) = groupsOf L := by
    simp [groupsOf, List.map_map, Function.comp_def, replayOne]
  have key : ∀ (P : Batch × Batch → Bool), (∀ b : Batch, P (b, (replayOne rec d b).b) = true) →
      (L.zip (L.map (fun b => (replayOne rec d b).b))).all P = true :=
    fun P h => all_zip_map_right' L _ P (fun x _ => h x)
  unfold specBatch bObs
  simp only [hitems, hgroups, List.length_map, allTimes_replay rec d L hne, timesOK_shift']
  rw [key _ (by intro b; simp [replayOne]),
      key _ (by intro b; cases rec <;> simp [replayOne]),
      key _ (by intro b; cases rec <;> simp [replayOne, List.map_map, Function.comp_def]),
      key _ (by intro b; cases rec <;> simp [replayOne, List.map_map, Function.comp_def]),
      key _ (by intro b; cases rec <;> simp [replayOne, List.map_map, Function.comp_def]),
      key _ (by intro b; cases rec <;> simp [replayOne, List.map_map, Function.comp_def])]
  simp


/-- The input rewritten by the three recorded deviations IS what `readBatchFromIO` hands to the replay loop. -/
theorem batchDevs_eq_readBatches (bs : List Batch) : (batchDevs bs).2 = readBatches bs := by
  simp only [batchDevs, readBatches, devEmptyApply, devTaglessApply, devIntApply, List.map_map]
  congr 1
  apply List.map_congr_left
  intro b _
  simp only [Function.comp_def, decodeBatch, List.map_map]
  congr 1
  apply List.map_congr_left
  intro p _
  by_cases ht : p.tags.isEmpty = true <;> simp [ht] <;> (intro a b _; cases b <;> rfl)

theorem readBatches_nonempty (bs : List Batch) : ∀ b ∈ readBatches bs, b.points ≠ [] := by
  intro b hb
  simp only [readBatches, List.mem_filter] at hb
  intro e; simp [e] at hb

/-- **Batches: faithful except exactly the recorded deviations.** For EVERY list of recorded batches, both clock
modes and every clock zero, what `WriteBatchForRecording` → `ReplayBatchFromIO` delivers satisfies the property's
spec relative to the input rewritten by the three deviation clauses (ints → nearest float, tagless points inherit
the batch tags, empty batches dropped). -/
theorem batchRoundTrip_spec (zero : Int) (rec : Bool) (bs : List Batch) :
    specBatch rec (batchDevs bs).2 (groupsOf (batchDevs bs).2) (bObs (batchRoundTrip true zero rec bs)) = none := by
  rw [batchDevs_eq_readBatches]
  unfold batchRoundTrip
  simp only [replayBatchesGo_none, List.length_map]
  exact specBatch_replay rec _ _ (readBatches_nonempty bs)

end Kap.C18

namespace Kap.C18
open List

/-! ## Stream: record → read -/

/-- The EXTERNAL law (influxdb `models` line protocol, `strconv`): parsing the line that the writer produced for a
point gives the point back (time truncated to the precision). Assumed for the points at hand; exercised by the
correspondence run on every generated point. -/
def LPLaw (F : FloatCodec) (mult : Int) (ps : List SPoint) : Prop :=
  ∀ p ∈ ps, parseLine F mult (lineOf F mult p) = .point p.name p.tags p.fields (p.time.tdiv mult * mult)

theorem parseFrames_law (F : FloatCodec) (mult : Int) (ps : List SPoint) (h : LPLaw F mult ps) :
    parseFrames F mult (ps.map (frameOf F mult)) true =
      (ps.map (fun p => { p with time := p.time.tdiv mult * mult }), .ok) := by
  induction ps with
  | nil => simp [parseFrames]
  | cons p rest ih =>
    have hp := h p (by simp)
    have ih' := ih (fun x hx => h x (by simp [hx]))
    simp [parseFrames, frameOf, hp] at ih' ⊢
    simp [frameOf, ih']

theorem readStream_record (F : FloatCodec) (mult : Int) (ps : List SPoint) (h : LPLaw F mult ps)
    (hc : ∀ p ∈ ps, (frameOf F mult p).clean) :
    readStream F mult (record F mult ps) = (ps.map (fun p => { p with time := p.time.tdiv mult * mult }), .ok) := by
  unfold readStream record
  rw [readFrames_writeFrames _ (by intro f hf; simp only [List.mem_map] at hf; obtain ⟨p, hp, rfl⟩ := hf; exact hc p hp)]
  exact parseFrames_law F mult ps h

end Kap.C18

namespace Kap.C18
open List

/-! ## The deviation rewrites are the identity where their clause does not apply -/

theorem map_eq_self_of {α} (f : α → α) (l : List α) (h : ∀ x ∈ l, f x = x) : l.map f = l := by
  induction l with
  | nil => rfl
  | cons a r ih => simp [h a (by simp), ih (fun x hx => h x (by simp [hx]))]

theorem devIntApply_id (bs : List Batch) (hi : devIntClause bs = false) : devIntApply bs = bs := by
  unfold devIntApply
  apply map_eq_self_of; intro b hb
  obtain ⟨n, bn, tm, tg, pts⟩ := b
  simp only [Batch.mk.injEq, true_and]
  apply map_eq_self_of; intro p hp
  obtain ⟨pt, pf, ptm⟩ := p
  simp only [BPoint.mk.injEq, true_and, and_true]
  apply map_eq_self_of; intro kv hkv
  obtain ⟨k, v⟩ := kv
  cases v with
  | int x =>
    exfalso
    have : devIntClause bs = true := by
      simp only [devIntClause, List.any_eq_true]
      exact ⟨_, hb, _, hp, _, hkv, by simp [FV.kind]⟩
    simp [hi] at this
  | _ => rfl

theorem devTaglessApply_id (bs : List Batch) (ht : devTaglessClause bs = false) : devTaglessApply bs = bs := by
  unfold devTaglessApply
  apply map_eq_self_of; intro b hb
  obtain ⟨n, bn, tm, tg, pts⟩ := b
  simp only [Batch.mk.injEq, true_and]
  apply map_eq_self_of; intro p hp
  obtain ⟨pt, pf, ptm⟩ := p
  by_cases hpt : pt.isEmpty = true
  · have h1 : pt = [] := List.isEmpty_iff.mp hpt
    have h2 : tg = [] := by
      cases hbe : tg.isEmpty with
      | true => exact List.isEmpty_iff.mp hbe
      | false =>
        exfalso
        have : devTaglessClause bs = true := by
          simp only [devTaglessClause, List.any_eq_true, Bool.and_eq_true]
          exact ⟨_, hb, by simp [hbe], _, hp, hpt⟩
        simp [ht] at this
    simp [h1, h2]
  · simp [hpt]

theorem devEmptyApply_id (bs : List Batch) (he : devEmptyClause bs = false) : devEmptyApply bs = bs := by
  unfold devEmptyApply
  apply List.filter_eq_self.mpr
  intro b hb
  cases hbe : b.points.isEmpty with
  | false => rfl
  | true =>
    exfalso
    have : devEmptyClause bs = true := by
      simp only [devEmptyClause, List.any_eq_true]; exact ⟨b, hb, hbe⟩
    simp [he] at this

theorem batchDevs_id (bs : List Batch) (h : (batchDevs bs).1 = []) : (batchDevs bs).2 = bs := by
  simp only [batchDevs, List.append_eq_nil_iff] at h
  obtain ⟨⟨h1, h2⟩, h3⟩ := h
  have hi : devIntClause bs = false := by cases hc : devIntClause bs <;> simp_all
  have ht : devTaglessClause bs = false := by cases hc : devTaglessClause bs <;> simp_all
  have he : devEmptyClause bs = false := by cases hc : devEmptyClause bs <;> simp_all
  simp only [batchDevs, devIntApply_id bs hi, devTaglessApply_id bs ht, devEmptyApply_id bs he]

end Kap.C18
namespace Kap.C18
open List

theorem splitNL_length (d : Bytes) : (splitNL d).1.length = d.count NL := by
  induction d with
  | nil => simp [splitNL]
  | cons c rest ih =>
    by_cases hc : c = NL
    · subst hc; simp [splitNL, ih]
    · have : (c == NL) = false := by simp [hc]
      rw [List.count_cons, this]
      simp only [splitNL, hc, if_false]
      cases hs : splitNL rest with
      | mk ls t =>
        rw [hs] at ih
        cases ls with
        | nil => simpa using ih
        | cons l ls' => simpa using ih

def Frame.nlCount (f : Frame) : Nat := f.db.count NL + f.rp.count NL + f.line.count NL

theorem count_writeFrames (fs : List Frame) :
    (writeFrames fs).count NL = 3 * fs.length + (fs.map Frame.nlCount).sum := by
  induction fs with
  | nil => simp [writeFrames]
  | cons f fs ih =>
    have e : writeFrames (f :: fs) = f.db ++ NL :: (f.rp ++ NL :: (f.line ++ NL :: writeFrames fs)) := by
      simp [writeFrames, Frame.bytes]
    rw [e]
    simp only [List.count_append, List.count_cons, beq_self_eq_true, if_true, ih, List.length_cons, List.map_cons,
      List.sum_cons, Frame.nlCount]
    omega

theorem frames_inv (ls : List Bytes) (e : Bool) (fs : List Frame) (h : frames ls e = (fs, true)) :
    ls = fs.flatMap Frame.comps ∧ e = false := by
  induction fs generalizing ls with
  | nil =>
    rcases ls with _ | ⟨a, _ | ⟨b, _ | ⟨c, rest⟩⟩⟩
    · simp [frames] at h; simp [h]
    · simp [frames] at h
    · simp [frames] at h
    · simp [frames] at h
  | cons f fs' ih =>
    rcases ls with _ | ⟨a, _ | ⟨b, _ | ⟨c, rest⟩⟩⟩
    · simp [frames] at h
    · simp [frames] at h
    · simp [frames] at h
    · simp only [frames, Prod.mk.injEq, List.cons.injEq] at h
      obtain ⟨⟨h1, h2⟩, h3⟩ := h
      have hr : frames rest e = (fs', true) := by
        rw [← h2, ← h3]
      obtain ⟨i1, i2⟩ := ih rest hr
      subst h1
      simp [Frame.comps, i1, i2]

theorem scanLines_inv (max : Nat) (L ls : List Bytes) (h : scanLines max L = (ls, false)) :
    ls = L.map dropCR ∧ ∀ l ∈ L, l.length < max := by
  induction L generalizing ls with
  | nil => simp [scanLines] at h; simp [h]
  | cons l rest ih =>
    simp only [scanLines] at h
    by_cases hl : l.length ≥ max
    · simp [hl] at h
    · simp only [hl, if_false] at h
      cases hr : scanLines max rest with
      | mk ls' e' =>
        rw [hr] at h
        simp only [Prod.mk.injEq] at h
        obtain ⟨h1, h2⟩ := h
        subst h2
        obtain ⟨i1, i2⟩ := ih ls' hr
        subst h1
        refine ⟨by simp [i1], ?_⟩
        intro x hx
        simp at hx
        rcases hx with rfl | hx
        · omega
        · exact i2 x hx


theorem rawLines_length_ge (d : Bytes) : (splitNL d).1.length ≤ (rawLines d).length := by
  unfold rawLines
  cases h : (splitNL d).2.isEmpty <;> simp [h]

theorem sum_zero_all (l : List Nat) (h : l.sum = 0) : ∀ x ∈ l, x = 0 := by
  induction l with
  | nil => simp
  | cons a r ih =>
    simp only [List.sum_cons] at h
    intro x hx
    simp at hx
    rcases hx with rfl | hx
    · omega
    · exact ih (by omega) x hx

theorem map_self_inv {α} (f : α → α) (l : List α) (h : l.map f = l) : ∀ x ∈ l, f x = x := by
  induction l with
  | nil => simp
  | cons a r ih =>
    simp only [List.map_cons, List.cons.injEq] at h
    intro x hx
    simp at hx
    rcases hx with rfl | hx
    · exact h.1
    · exact ih h.2 x hx

theorem dropCR_fix (c : Bytes) (h : dropCR c = c) : c.getLast? ≠ some CR := by
  intro hl
  unfold dropCR at h
  rw [hl] at h
  simp only [if_true] at h
  have hne : c ≠ [] := by intro e; simp [e] at hl
  have := congrArg List.length h
  rw [List.length_dropLast] at this
  have : c.length > 0 := List.length_pos_iff.mpr hne
  omega

theorem comps_length (fs : List Frame) : (fs.flatMap Frame.comps).length = 3 * fs.length := by
  induction fs with
  | nil => rfl
  | cons f r ih => rw [List.flatMap_cons, List.length_append, ih]; simp [Frame.comps]; omega

/-- **Framing round trip (⇒)**: if the recording reads back as the frames that were written, every component was clean. -/
theorem readFrames_writeFrames_inv (fs : List Frame) (h : readFrames maxTok (writeFrames fs) = (fs, true)) :
    ∀ f ∈ fs, f.clean := by
  unfold readFrames at h
  cases hs : scanLines maxTok (rawLines (writeFrames fs)) with
  | mk ls e =>
    rw [hs] at h
    simp only at h
    obtain ⟨hls, he⟩ := frames_inv ls e fs h
    subst he
    obtain ⟨hmap, hlen⟩ := scanLines_inv maxTok _ ls hs
    -- count the lines
    have hL : (rawLines (writeFrames fs)).length = 3 * fs.length := by
      have : ls.length = 3 * fs.length := by
        rw [hls]; exact comps_length fs
      rw [← this, hmap, List.length_map]
    have hcnt := count_writeFrames fs
    have hge := rawLines_length_ge (writeFrames fs)
    rw [splitNL_length, hcnt, hL] at hge
    have hz : (fs.map Frame.nlCount).sum = 0 := by omega
    have hnl : ∀ f ∈ fs, NL ∉ f.db ∧ NL ∉ f.rp ∧ NL ∉ f.line := by
      intro f hf
      have := sum_zero_all _ hz (f.nlCount) (List.mem_map.mpr ⟨f, hf, rfl⟩)
      unfold Frame.nlCount at this
      refine ⟨?_, ?_, ?_⟩ <;> (apply List.count_eq_zero.mp; omega)
    -- now the raw lines are exactly the components
    have hsplit := splitNL_writeFrames fs hnl
    have hraw : rawLines (writeFrames fs) = fs.flatMap Frame.comps := by
      unfold rawLines; rw [hsplit]; simp
    rw [hraw] at hmap hlen
    rw [hls] at hmap
    have hfix := map_self_inv dropCR _ hmap.symm
    intro f hf
    have hm : ∀ c ∈ f.comps, c ∈ fs.flatMap Frame.comps := fun c hc => List.mem_flatMap.mpr ⟨f, hf, hc⟩
    obtain ⟨n1, n2, n3⟩ := hnl f hf
    refine ⟨⟨n1, dropCR_fix _ (hfix _ (hm _ (by simp [Frame.comps]))), hlen _ (hm _ (by simp [Frame.comps]))⟩,
            ⟨n2, dropCR_fix _ (hfix _ (hm _ (by simp [Frame.comps]))), hlen _ (hm _ (by simp [Frame.comps]))⟩,
            ⟨n3, dropCR_fix _ (hfix _ (hm _ (by simp [Frame.comps]))), hlen _ (hm _ (by simp [Frame.comps]))⟩⟩

end Kap.C18
