/-
C18 — helper lemmas (core Lean only): stream replay arithmetic, framing round trip, batch replay.
-/
import Kap.Spec.C18
namespace Kap.C18
open List

/-! ## Stream replay arithmetic -/

theorem replayStreamGo_length (zero : Int) (rec : Bool) (d : Option Int) (ps : List SPoint) :
    (replayStreamGo zero rec d ps).length = ps.length := by
  induction ps generalizing d with
  | nil => simp [replayStreamGo]
  | cons p rest ih => simp [replayStreamGo, ih]

/-- With the offset already fixed, every delivered point is the recorded point with its time shifted (or kept). -/
theorem replayStreamGo_some (zero : Int) (rec : Bool) (d : Int) (ps : List SPoint) :
    replayStreamGo zero rec (some d) ps =
      ps.map (fun p => ⟨if rec then p else { p with time := p.time + d }, p.time + d⟩) := by
  induction ps with
  | nil => simp [replayStreamGo]
  | cons p rest ih => simp [replayStreamGo, ih]

theorem replayStream_eq (zero : Int) (rec : Bool) (ps : List SPoint) :
    replayStream zero rec ps =
      ps.map (fun p => ⟨if rec then p else { p with time := p.time + (zero - (ps.head?.map (·.time)).getD 0) },
                        p.time + (zero - (ps.head?.map (·.time)).getD 0)⟩) := by
  cases ps with
  | nil => simp [replayStream, replayStreamGo]
  | cons p rest => simp [replayStream, replayStreamGo, replayStreamGo_some]

end Kap.C18

namespace Kap.C18
open List

theorem all_zip_map_right {α β} (l : List α) (f : α → β) (P : α × β → Bool)
    (h : ∀ x ∈ l, P (x, f x) = true) : (l.zip (l.map f)).all P = true := by
  induction l with
  | nil => simp
  | cons a rest ih =>
    simp only [List.map_cons, List.zip_cons_cons, List.all_cons, Bool.and_eq_true]
    exact ⟨h a (by simp), ih (fun x hx => h x (by simp [hx]))⟩

/-- The times of a list shifted by `d` satisfy "identical or one constant offset". -/
theorem timesOK_shift (rec : Bool) (d : Int) (ins : List Int) :
    timesOK rec ins (ins.map (fun t => if rec then t else t + d)) = true := by
  cases rec with
  | true => simp [timesOK]
  | false =>
    cases ins with
    | nil => simp [timesOK]
    | cons i0 rest =>
      have h : i0 + d - i0 = d := by omega
      simp [timesOK, h]

/-- What the collector saw, from the model's result. -/
def sObs (r : Replayed SOut) (groups : List (Bytes × Bool × List Bytes)) : SObs :=
  ⟨r.status, r.closes, r.closedAt, r.items.map (·.p), groups⟩

theorem specStream_replay (zero : Int) (rec : Bool) (ps : List SPoint) (G : List (Bytes × Bool × List Bytes)) :
    let items := replayStream zero rec ps
    specStream rec ps G (sObs ⟨.ok, items, 1, items.length⟩ G) = none := by
  intro items
  have hlen : items.length = ps.length := replayStreamGo_length _ _ _ _
  let d := zero - (ps.head?.map (·.time)).getD 0
  have hitems : items.map (·.p) = ps.map (fun p => if rec then p else { p with time := p.time + d }) := by
    show (replayStream zero rec ps).map (·.p) = _
    rw [replayStream_eq]; simp [List.map_map, Function.comp_def, d]
  have htimes : timesOK rec (ps.map (·.time)) ((ps.map (fun p => if rec then p else { p with time := p.time + d })).map (·.time)) = true := by
    have := timesOK_shift rec d (ps.map (·.time))
    cases rec <;> simpa [List.map_map, Function.comp_def] using this
  have key : ∀ (P : SPoint × SPoint → Bool), (∀ p : SPoint, P (p, if rec then p else { p with time := p.time + d }) = true) →
      (ps.zip (ps.map (fun p => if rec then p else { p with time := p.time + d }))).all P = true :=
    fun P h => all_zip_map_right ps _ P (fun x _ => h x)
  unfold specStream sObs
  simp only [hitems, List.length_map, hlen, htimes]
  rw [key _ (by intro p; cases rec <;> simp), key _ (by intro p; cases rec <;> simp),
      key _ (by intro p; cases rec <;> simp), key _ (by intro p; cases rec <;> simp),
      key _ (by intro p; cases rec <;> simp)]
  simp

end Kap.C18
namespace Kap.C18
open List

/-! ## Framing -/

/-- A component can be written on its own line of a stream recording. -/
def cleanComp (s : Bytes) : Prop := NL ∉ s ∧ s.getLast? ≠ some CR ∧ s.length < maxTok

instance (s : Bytes) : Decidable (cleanComp s) := by unfold cleanComp; exact inferInstance

def Frame.cleanOld (f : Frame) : Prop := cleanComp f.db ∧ cleanComp f.rp ∧ cleanComp f.line

instance (f : Frame) : Decidable f.cleanOld := by unfold Frame.cleanOld; exact inferInstance

def Frame.comps (f : Frame) : List Bytes := [f.db, f.rp, f.line]

theorem splitNL_append (l rest : Bytes) (h : NL ∉ l) :
    splitNL (l ++ NL :: rest) = (l :: (splitNL rest).1, (splitNL rest).2) := by
  induction l with
  | nil => simp [splitNL]
  | cons c l ih =>
    have hc : c ≠ NL := fun e => h (by simp [e])
    have hl : NL ∉ l := fun e => h (by simp [e])
    simp [splitNL, hc, ih hl]

theorem splitNL_writeFrames (fs : List Frame) (h : ∀ f ∈ fs, NL ∉ f.db ∧ NL ∉ f.rp ∧ NL ∉ f.line) :
    splitNL (writeFrames fs) = (fs.flatMap Frame.comps, []) := by
  induction fs with
  | nil => simp [writeFrames, splitNL]
  | cons f fs ih =>
    obtain ⟨h1, h2, h3⟩ := h f (by simp)
    have ih' := ih (fun g hg => h g (by simp [hg]))
    have e : writeFrames (f :: fs) = f.db ++ NL :: (f.rp ++ NL :: (f.line ++ NL :: writeFrames fs)) := by
      simp [writeFrames, Frame.bytes]
    rw [e, splitNL_append _ _ h1, splitNL_append _ _ h2, splitNL_append _ _ h3]
    simp only [writeFrames] at ih'
    simp [ih', Frame.comps, writeFrames]

theorem dropCR_of_clean (s : Bytes) (h : s.getLast? ≠ some CR) : dropCR s = s := by
  unfold dropCR
  cases hl : s.getLast? with
  | none => rfl
  | some c =>
    have : c ≠ CR := fun e => h (by rw [hl, e])
    simp [this]

theorem scanLines_clean (ls : List Bytes) (h : ∀ l ∈ ls, l.getLast? ≠ some CR ∧ l.length < maxTok) :
    scanLines maxTok ls = (ls, false) := by
  induction ls with
  | nil => simp [scanLines]
  | cons l rest ih =>
    obtain ⟨h1, h2⟩ := h l (by simp)
    have : ¬ l.length ≥ maxTok := by omega
    simp [scanLines, this, ih (fun x hx => h x (by simp [hx])), dropCR_of_clean l h1]

theorem frames_comps (fs : List Frame) : frames (fs.flatMap Frame.comps) false = (fs, true) := by
  induction fs with
  | nil => simp [frames]
  | cons f fs ih => simp [Frame.comps, frames, ih]

/-- **Framing round trip**: frames whose three components are clean are read back exactly. -/
theorem readFramesOld_writeFrames (fs : List Frame) (h : ∀ f ∈ fs, f.cleanOld) :
    readFramesOld maxTok (writeFrames fs) = (fs, true) := by
  have hs := splitNL_writeFrames fs (fun f hf => ⟨(h f hf).1.1, (h f hf).2.1.1, (h f hf).2.2.1⟩)
  unfold readFramesOld rawLines
  rw [hs]
  simp only [List.isEmpty_nil, if_true]
  rw [scanLines_clean]
  · exact frames_comps fs
  · intro l hl
    simp only [List.mem_flatMap, Frame.comps] at hl
    obtain ⟨f, hf, hl⟩ := hl
    have := h f hf
    simp at hl
    rcases hl with rfl | rfl | rfl
    · exact ⟨this.1.2.1, this.1.2.2⟩
    · exact ⟨this.2.1.2.1, this.2.1.2.2⟩
    · exact ⟨this.2.2.2.1, this.2.2.2.2⟩

end Kap.C18
namespace Kap.C18
open List

/-! ## Batches -/

/-- One step of `replayBatchFromChan` once the offset is known (code since the tmax `fix:`). -/
def replayOne (recTime : Bool) (d : Int) (b : Batch) : BOut :=
  let pts := if recTime then b.points else b.points.map (fun p => { p with time := p.time + d })
  let tmax0 := if recTime then b.tmax else b.tmax + d
  ⟨{ b with points := pts, tmax := if tmax0 < lastTime pts then lastTime pts else tmax0 },
   if recTime then lastTime b.points + d else lastTime pts⟩

theorem replayBatchesGo_some (zero : Int) (rec : Bool) (d : Int) (bs : List Batch) :
    replayBatchesGo true zero rec (some d) bs = bs.map (replayOne rec d) := by
  induction bs with
  | nil => simp [replayBatchesGo]
  | cons b rest ih => cases rec <;> simp [replayBatchesGo, ih, replayOne]

/-- The offset of a batch replay: clock zero minus the first point of the first batch. -/
def batchOffset (zero : Int) (bs : List Batch) : Int :=
  match bs with
  | b :: _ => zero - b.firstTime
  | [] => 0

theorem replayBatchesGo_none (zero : Int) (rec : Bool) (bs : List Batch) :
    replayBatchesGo true zero rec none bs = bs.map (replayOne rec (batchOffset zero bs)) := by
  cases bs with
  | nil => simp [replayBatchesGo]
  | cons b rest =>
    simp only [replayBatchesGo, replayBatchesGo_some, List.map_cons]
    cases rec <;> simp [replayOne, batchOffset]

theorem lastTime_map_shift (ps : List BPoint) (d : Int) (h : ps ≠ []) :
    lastTime (ps.map (fun p => { p with time := p.time + d })) = lastTime ps + d := by
  unfold lastTime
  rw [List.getLast?_map]
  cases hl : ps.getLast? with
  | none => simp [List.getLast?_eq_none_iff] at hl; exact absurd hl h
  | some p => simp

theorem lastTime_le (ps : List BPoint) (t : Int) (h : ps ≠ []) (hall : ∀ p ∈ ps, p.time ≤ t) : lastTime ps ≤ t := by
  unfold lastTime
  cases hl : ps.getLast? with
  | none => simp [List.getLast?_eq_none_iff] at hl; exact absurd hl h
  | some p => exact hall p (List.mem_of_getLast? hl)

/-- tmax of a replayed batch whose recorded tmax is not before its points: shifted like the points. -/
theorem replayOne_tmax (rec : Bool) (d : Int) (b : Batch) (hne : b.points ≠ []) (hwf : b.wfTmax = true) :
    (replayOne rec d b).b.tmax = if rec then b.tmax else b.tmax + d := by
  have hall : ∀ p ∈ b.points, p.time ≤ b.tmax := by
    simpa [Batch.wfTmax] using hwf
  have hle := lastTime_le b.points b.tmax hne hall
  cases rec with
  | true =>
    have : ¬ b.tmax < lastTime b.points := by omega
    simp [replayOne, this]
  | false =>
    have : ¬ b.tmax + d < lastTime b.points + d := by omega
    simp [replayOne, lastTime_map_shift _ _ hne, this]


theorem all_zip_map_right' {α β} (l : List α) (f : α → β) (P : α × β → Bool)
    (h : ∀ x ∈ l, P (x, f x) = true) : (l.zip (l.map f)).all P = true := by
  induction l with
  | nil => simp
  | cons a rest ih =>
    simp only [List.map_cons, List.zip_cons_cons, List.all_cons, Bool.and_eq_true]
    exact ⟨h a (by simp), ih (fun x hx => h x (by simp [hx]))⟩

def groupsOf (bs : List Batch) : List (Bytes × List Bytes) :=
  bs.map (fun b => (groupID b.name b.byName b.tags, b.tags.map (·.1)))

/-- What the collector saw, from the model's result (group and dimensions as `NewBeginBatchMessage`/`SetTags` compute them). -/
def bObs (r : Replayed BOut) : BObs :=
  ⟨r.status, r.closes, r.closedAt, r.items.map (·.b), groupsOf (r.items.map (·.b))⟩

def batchTimes (b : Batch) : List Int := b.points.map (·.time) ++ (if b.wfTmax then [b.tmax] else [])

theorem replayOne_times (rec : Bool) (d : Int) (b : Batch) (hne : b.points ≠ []) :
    (replayOne rec d b).b.points.map (·.time) ++ (if b.wfTmax then [(replayOne rec d b).b.tmax] else []) =
      (batchTimes b).map (fun t => if rec then t else t + d) := by
  unfold batchTimes
  by_cases hwf : b.wfTmax = true
  · rw [replayOne_tmax rec d b hne hwf]
    cases rec <;> simp [replayOne, hwf, List.map_map, Function.comp_def]
  · cases rec <;> simp [replayOne, hwf, List.map_map, Function.comp_def]

theorem allTimes_replay (rec : Bool) (d : Int) (L : List Batch) (hne : ∀ b ∈ L, b.points ≠ []) :
    allTimes L (L.map (fun b => (replayOne rec d b).b)) =
      (L.flatMap batchTimes, (L.flatMap batchTimes).map (fun t => if rec then t else t + d)) := by
  induction L with
  | nil => simp [allTimes]
  | cons b rest ih =>
    have ih' := ih (fun x hx => hne x (by simp [hx]))
    have hb := replayOne_times rec d b (hne b (by simp))
    simp only [allTimes, Prod.mk.injEq] at ih' ⊢
    simp only [List.map_cons, List.zip_cons_cons, List.flatMap_cons, List.map_append]
    refine ⟨?_, ?_⟩
    · rw [ih'.1]; rfl
    · rw [ih'.2, hb]

theorem timesOK_shift' (rec : Bool) (d : Int) (ins : List Int) :
    timesOK rec ins (ins.map (fun t => if rec then t else t + d)) = true := by
  cases rec with
  | true => simp [timesOK]
  | false =>
    cases ins with
    | nil => simp [timesOK]
    | cons i0 rest =>
      have h : i0 + d - i0 = d := by omega
      simp [timesOK, h]

/-- The property's executable spec holds between any list of non-empty batches and what `replayBatchFromChan`
delivers for it, for every offset. -/
theorem specBatch_replay (rec : Bool) (d : Int) (L : List Batch) (hne : ∀ b ∈ L, b.points ≠ []) :
    specBatch rec L (groupsOf L) (bObs ⟨.ok, L.map (replayOne rec d), 1, L.length⟩) = none := by
  have hitems : (L.map (replayOne rec d)).map (·.b) = L.map (fun b => (replayOne rec d b).b) := by
    simp [List.map_map, Function.comp_def]
  have hgroups : groupsOf (L.map (fun b => (replayOne rec d b).b)) = groupsOf L := by
    simp [groupsOf, List.map_map, Function.comp_def, replayOne]
  have key : ∀ (P : Batch × Batch → Bool), (∀ b : Batch, P (b, (replayOne rec d b).b) = true) →
      (L.zip (L.map (fun b => (replayOne rec d b).b))).all P = true :=
    fun P h => all_zip_map_right' L _ P (fun x _ => h x)
  unfold specBatch bObs
  simp only [hitems, hgroups, List.length_map, allTimes_replay rec d L hne, timesOK_shift']
  rw [key _ (by intro b; simp [replayOne]),
      key _ (by intro b; cases rec <;> simp [replayOne]),
      key _ (by intro b; cases rec <;> simp [replayOne, List.map_map, Function.comp_def]),
      key _ (by intro b; cases rec <;> simp [replayOne, List.map_map, Function.comp_def]),
      key _ (by intro b; cases rec <;> simp [replayOne, List.map_map, Function.comp_def]),
      key _ (by intro b; cases rec <;> simp [replayOne, List.map_map, Function.comp_def])]
  simp


/-- The input rewritten by the three recorded deviations IS what `readBatchFromIO` hands to the replay loop. -/
theorem batchDevs_eq_readBatches (bs : List Batch) : (batchDevs bs).2 = readBatches bs := by
  simp only [batchDevs, readBatches, devEmptyApply, devTaglessApply, devIntApply, List.map_map]
  congr 1
  apply List.map_congr_left
  intro b _
  simp only [Function.comp_def, decodeBatch, List.map_map]
  congr 1
  apply List.map_congr_left
  intro p _
  by_cases ht : p.tags.isEmpty = true <;> simp [ht] <;> (intro a b _; cases b <;> rfl)

theorem readBatches_nonempty (bs : List Batch) : ∀ b ∈ readBatches bs, b.points ≠ [] := by
  intro b hb
  simp only [readBatches, List.mem_filter] at hb
  intro e; simp [e] at hb

/-- **Batches: faithful except exactly the recorded deviations.** For EVERY list of recorded batches, both clock
modes and every clock zero, what `WriteBatchForRecording` → `ReplayBatchFromIO` delivers satisfies the property's
spec relative to the input rewritten by the three deviation clauses (ints → nearest float, tagless points inherit
the batch tags, empty batches dropped). -/
theorem batchRoundTrip_spec (zero : Int) (rec : Bool) (bs : List Batch) :
    specBatch rec (batchDevs bs).2 (groupsOf (batchDevs bs).2) (bObs (batchRoundTrip true zero rec bs)) = none := by
  rw [batchDevs_eq_readBatches]
  unfold batchRoundTrip
  simp only [replayBatchesGo_none, List.length_map]
  exact specBatch_replay rec _ _ (readBatches_nonempty bs)

end Kap.C18


namespace Kap.C18
open List

/-! ## The deviation rewrites are the identity where their clause does not apply -/

theorem map_eq_self_of {α} (f : α → α) (l : List α) (h : ∀ x ∈ l, f x = x) : l.map f = l := by
  induction l with
  | nil => rfl
  | cons a r ih => simp [h a (by simp), ih (fun x hx => h x (by simp [hx]))]

theorem devIntApply_id (bs : List Batch) (hi : devIntClause bs = false) : devIntApply bs = bs := by
  unfold devIntApply
  apply map_eq_self_of; intro b hb
  obtain ⟨n, bn, tm, tg, pts⟩ := b
  simp only [Batch.mk.injEq, true_and]
  apply map_eq_self_of; intro p hp
  obtain ⟨pt, pf, ptm⟩ := p
  simp only [BPoint.mk.injEq, true_and, and_true]
  apply map_eq_self_of; intro kv hkv
  obtain ⟨k, v⟩ := kv
  cases v with
  | int x =>
    exfalso
    have : devIntClause bs = true := by
      simp only [devIntClause, List.any_eq_true]
      exact ⟨_, hb, _, hp, _, hkv, by simp [FV.kind]⟩
    simp [hi] at this
  | _ => rfl

theorem devTaglessApply_id (bs : List Batch) (ht : devTaglessClause bs = false) : devTaglessApply bs = bs := by
  unfold devTaglessApply
  apply map_eq_self_of; intro b hb
  obtain ⟨n, bn, tm, tg, pts⟩ := b
  simp only [Batch.mk.injEq, true_and]
  apply map_eq_self_of; intro p hp
  obtain ⟨pt, pf, ptm⟩ := p
  by_cases hpt : pt.isEmpty = true
  · have h1 : pt = [] := List.isEmpty_iff.mp hpt
    have h2 : tg = [] := by
      cases hbe : tg.isEmpty with
      | true => exact List.isEmpty_iff.mp hbe
      | false =>
        exfalso
        have : devTaglessClause bs = true := by
          simp only [devTaglessClause, List.any_eq_true, Bool.and_eq_true]
          exact ⟨_, hb, by simp [hbe], _, hp, hpt⟩
        simp [ht] at this
    simp [h1, h2]
  · simp [hpt]

theorem devEmptyApply_id (bs : List Batch) (he : devEmptyClause bs = false) : devEmptyApply bs = bs := by
  unfold devEmptyApply
  apply List.filter_eq_self.mpr
  intro b hb
  cases hbe : b.points.isEmpty with
  | false => rfl
  | true =>
    exfalso
    have : devEmptyClause bs = true := by
      simp only [devEmptyClause, List.any_eq_true]; exact ⟨b, hb, hbe⟩
    simp [he] at this

theorem batchDevs_id (bs : List Batch) (h : (batchDevs bs).1 = []) : (batchDevs bs).2 = bs := by
  simp only [batchDevs, List.append_eq_nil_iff] at h
  obtain ⟨⟨h1, h2⟩, h3⟩ := h
  have hi : devIntClause bs = false := by cases hc : devIntClause bs <;> simp_all
  have ht : devTaglessClause bs = false := by cases hc : devTaglessClause bs <;> simp_all
  have he : devEmptyClause bs = false := by cases hc : devEmptyClause bs <;> simp_all
  simp only [batchDevs, devIntApply_id bs hi, devTaglessApply_id bs ht, devEmptyApply_id bs he]

end Kap.C18
namespace Kap.C18
open List

theorem splitNL_length (d : Bytes) : (splitNL d).1.length = d.count NL := by
  induction d with
  | nil => simp [splitNL]
  | cons c rest ih =>
    by_cases hc : c = NL
    · subst hc; simp [splitNL, ih]
    · have : (c == NL) = false := by simp [hc]
      rw [List.count_cons, this]
      simp only [splitNL, hc, if_false]
      cases hs : splitNL rest with
      | mk ls t =>
        rw [hs] at ih
        cases ls with
        | nil => simpa using ih
        | cons l ls' => simpa using ih

def Frame.nlCount (f : Frame) : Nat := f.db.count NL + f.rp.count NL + f.line.count NL

theorem count_writeFrames (fs : List Frame) :
    (writeFrames fs).count NL = 3 * fs.length + (fs.map Frame.nlCount).sum := by
  induction fs with
  | nil => simp [writeFrames]
  | cons f fs ih =>
    have e : writeFrames (f :: fs) = f.db ++ NL :: (f.rp ++ NL :: (f.line ++ NL :: writeFrames fs)) := by
      simp [writeFrames, Frame.bytes]
    rw [e]
    simp only [List.count_append, List.count_cons, beq_self_eq_true, if_true, ih, List.length_cons, List.map_cons,
      List.sum_cons, Frame.nlCount]
    omega

theorem frames_inv (ls : List Bytes) (e : Bool) (fs : List Frame) (h : frames ls e = (fs, true)) :
    ls = fs.flatMap Frame.comps ∧ e = false := by
  induction fs generalizing ls with
  | nil =>
    rcases ls with _ | ⟨a, _ | ⟨b, _ | ⟨c, rest⟩⟩⟩
    · simp [frames] at h; simp [h]
    · simp [frames] at h
    · simp [frames] at h
    · simp [frames] at h
  | cons f fs' ih =>
    rcases ls with _ | ⟨a, _ | ⟨b, _ | ⟨c, rest⟩⟩⟩
    · simp [frames] at h
    · simp [frames] at h
    · simp [frames] at h
    · simp only [frames, Prod.mk.injEq, List.cons.injEq] at h
      obtain ⟨⟨h1, h2⟩, h3⟩ := h
      have hr : frames rest e = (fs', true) := by
        rw [← h2, ← h3]
      obtain ⟨i1, i2⟩ := ih rest hr
      subst h1
      simp [Frame.comps, i1, i2]

theorem scanLines_inv (max : Nat) (L ls : List Bytes) (h : scanLines max L = (ls, false)) :
    ls = L.map dropCR ∧ ∀ l ∈ L, l.length < max := by
  induction L generalizing ls with
  | nil => simp [scanLines] at h; simp [h]
  | cons l rest ih =>
    simp only [scanLines] at h
    by_cases hl : l.length ≥ max
    · simp [hl] at h
    · simp only [hl, if_false] at h
      cases hr : scanLines max rest with
      | mk ls' e' =>
        rw [hr] at h
        simp only [Prod.mk.injEq] at h
        obtain ⟨h1, h2⟩ := h
        subst h2
        obtain ⟨i1, i2⟩ := ih ls' hr
        subst h1
        refine ⟨by simp [i1], ?_⟩
        intro x hx
        simp at hx
        rcases hx with rfl | hx
        · omega
        · exact i2 x hx


theorem rawLines_length_ge (d : Bytes) : (splitNL d).1.length ≤ (rawLines d).length := by
  unfold rawLines
  cases h : (splitNL d).2.isEmpty <;> simp [h]

theorem sum_zero_all (l : List Nat) (h : l.sum = 0) : ∀ x ∈ l, x = 0 := by
  induction l with
  | nil => simp
  | cons a r ih =>
    simp only [List.sum_cons] at h
    intro x hx
    simp at hx
    rcases hx with rfl | hx
    · omega
    · exact ih (by omega) x hx

theorem map_self_inv {α} (f : α → α) (l : List α) (h : l.map f = l) : ∀ x ∈ l, f x = x := by
  induction l with
  | nil => simp
  | cons a r ih =>
    simp only [List.map_cons, List.cons.injEq] at h
    intro x hx
    simp at hx
    rcases hx with rfl | hx
    · exact h.1
    · exact ih h.2 x hx

theorem dropCR_fix (c : Bytes) (h : dropCR c = c) : c.getLast? ≠ some CR := by
  intro hl
  unfold dropCR at h
  rw [hl] at h
  simp only [if_true] at h
  have hne : c ≠ [] := by intro e; simp [e] at hl
  have := congrArg List.length h
  rw [List.length_dropLast] at this
  have : c.length > 0 := List.length_pos_iff.mpr hne
  omega

theorem comps_length (fs : List Frame) : (fs.flatMap Frame.comps).length = 3 * fs.length := by
  induction fs with
  | nil => rfl
  | cons f r ih => rw [List.flatMap_cons, List.length_append, ih]; simp [Frame.comps]; omega

/-- **Framing round trip (⇒)**: if the recording reads back as the frames that were written, every component was clean. -/
theorem readFramesOld_writeFrames_inv (fs : List Frame) (h : readFramesOld maxTok (writeFrames fs) = (fs, true)) :
    ∀ f ∈ fs, f.cleanOld := by
  unfold readFramesOld at h
  cases hs : scanLines maxTok (rawLines (writeFrames fs)) with
  | mk ls e =>
    rw [hs] at h
    simp only at h
    obtain ⟨hls, he⟩ := frames_inv ls e fs h
    subst he
    obtain ⟨hmap, hlen⟩ := scanLines_inv maxTok _ ls hs
    -- count the lines
    have hL : (rawLines (writeFrames fs)).length = 3 * fs.length := by
      have : ls.length = 3 * fs.length := by
        rw [hls]; exact comps_length fs
      rw [← this, hmap, List.length_map]
    have hcnt := count_writeFrames fs
    have hge := rawLines_length_ge (writeFrames fs)
    rw [splitNL_length, hcnt, hL] at hge
    have hz : (fs.map Frame.nlCount).sum = 0 := by omega
    have hnl : ∀ f ∈ fs, NL ∉ f.db ∧ NL ∉ f.rp ∧ NL ∉ f.line := by
      intro f hf
      have := sum_zero_all _ hz (f.nlCount) (List.mem_map.mpr ⟨f, hf, rfl⟩)
      unfold Frame.nlCount at this
      refine ⟨?_, ?_, ?_⟩ <;> (apply List.count_eq_zero.mp; omega)
    -- now the raw lines are exactly the components
    have hsplit := splitNL_writeFrames fs hnl
    have hraw : rawLines (writeFrames fs) = fs.flatMap Frame.comps := by
      unfold rawLines; rw [hsplit]; simp
    rw [hraw] at hmap hlen
    rw [hls] at hmap
    have hfix := map_self_inv dropCR _ hmap.symm
    intro f hf
    have hm : ∀ c ∈ f.comps, c ∈ fs.flatMap Frame.comps := fun c hc => List.mem_flatMap.mpr ⟨f, hf, hc⟩
    obtain ⟨n1, n2, n3⟩ := hnl f hf
    refine ⟨⟨n1, dropCR_fix _ (hfix _ (hm _ (by simp [Frame.comps]))), hlen _ (hm _ (by simp [Frame.comps]))⟩,
            ⟨n2, dropCR_fix _ (hfix _ (hm _ (by simp [Frame.comps]))), hlen _ (hm _ (by simp [Frame.comps]))⟩,
            ⟨n3, dropCR_fix _ (hfix _ (hm _ (by simp [Frame.comps]))), hlen _ (hm _ (by simp [Frame.comps]))⟩⟩

end Kap.C18
namespace Kap.C18
open List

/-! ## The line of a point has a line feed only if one of the point's strings has one -/

theorem mem_replaceByte (c : UInt8) (w : Bytes) (x : UInt8) (s : Bytes) (hw : x ∉ w)
    (h : x ∈ replaceByte c w s) : x ∈ s := by
  induction s with
  | nil => simp [replaceByte] at h
  | cons y ys ih =>
    simp only [replaceByte] at h
    by_cases hy : y = c
    · simp only [hy, if_true, List.mem_append] at h
      rcases h with h | h
      · exact absurd h hw
      · exact List.mem_cons_of_mem _ (ih h)
    · simp only [hy, if_false, List.mem_cons] at h
      rcases h with h | h
      · simp [h]
      · exact List.mem_cons_of_mem _ (ih h)

theorem mem_replacePair (a b w x : UInt8) (hx : x ≠ w) :
    ∀ (n : Nat) (s : Bytes), s.length ≤ n → x ∈ replacePair a b w s → x ∈ s := by
  intro n
  induction n with
  | zero => intro s hs h; cases s with | nil => simp [replacePair] at h | cons _ _ => simp at hs
  | succ n ih =>
    intro s hs h
    rcases s with _ | ⟨y, _ | ⟨z, rest⟩⟩
    · simp [replacePair] at h
    · simpa [replacePair] using h
    · simp only [replacePair] at h
      by_cases hc : y = a ∧ z = b
      · simp only [hc, and_self, if_true, List.mem_cons] at h
        rcases h with h | h
        · exact absurd h hx
        · have := ih rest (by simp at hs; omega) h
          simp [this]
      · simp only [hc, if_false, List.mem_cons] at h
        rcases h with h | h
        · simp [h]
        · have := ih (z :: rest) (by simp at hs ⊢; omega) h
          exact List.mem_cons_of_mem _ this

theorem mem_escFlat (P : UInt8 → Prop) [DecidablePred P] (x : UInt8) (s : Bytes) (hx : x ≠ BS)
    (h : x ∈ s.flatMap (fun c => if P c then [BS, c] else [c])) : x ∈ s := by
  simp only [List.mem_flatMap] at h
  obtain ⟨c, hc, hxc⟩ := h
  by_cases hp : P c
  · simp only [hp, if_true, List.mem_cons, List.not_mem_nil, or_false] at hxc
    rcases hxc with h | h
    · exact absurd h hx
    · rwa [h]
  · simp only [hp, if_false, List.mem_singleton] at hxc
    rwa [hxc]

theorem NL_ne_BS : NL ≠ BS := by decide

theorem nl_escMeas (s : Bytes) (h : NL ∈ escMeas (unescMeas s)) : NL ∈ s := by
  unfold escMeas unescMeas at h
  have h1 := mem_replaceByte _ _ _ _ (by decide) h
  have h2 := mem_replaceByte _ _ _ _ (by decide) h1
  have h3 := mem_replacePair _ _ _ _ (by decide) _ _ (Nat.le_refl _) h2
  exact mem_replacePair _ _ _ _ (by decide) _ _ (Nat.le_refl _) h3

theorem nl_escTag (s : Bytes) (h : NL ∈ escTag s) : NL ∈ s := by
  unfold escTag at h
  exact mem_replaceByte _ _ _ _ (by decide) (mem_replaceByte _ _ _ _ (by decide) (mem_replaceByte _ _ _ _ (by decide) h))

theorem nl_escKey (s : Bytes) (h : NL ∈ escKey s) : NL ∈ s :=
  mem_escFlat (fun c => c = COMMA ∨ c = DQ ∨ c = SP ∨ c = EQ) NL s NL_ne_BS h

theorem nl_escStr (s : Bytes) (h : NL ∈ escStr s) : NL ∈ s :=
  mem_escFlat (fun c => c = DQ ∨ c = BS) NL s NL_ne_BS h

/-- ASCII digit. -/
def isDigitB (x : UInt8) : Prop := ∃ k, k < 10 ∧ x = UInt8.ofNat (48 + k)

theorem natDigitsAux_digits (fuel n : Nat) : ∀ x ∈ natDigitsAux fuel n, isDigitB x := by
  induction fuel generalizing n with
  | zero => simp [natDigitsAux]
  | succ f ih =>
    intro x hx
    simp only [natDigitsAux] at hx
    by_cases hn : n < 10
    · simp only [hn, if_true, List.mem_singleton] at hx
      exact ⟨n, hn, hx⟩
    · simp only [hn, if_false, List.mem_append, List.mem_singleton] at hx
      rcases hx with h | h
      · exact ih _ x h
      · exact ⟨n % 10, Nat.mod_lt _ (by omega), h⟩

theorem digit_ne (x : UInt8) (h : isDigitB x) : x ≠ NL ∧ x ≠ CR := by
  obtain ⟨k, hk, rfl⟩ := h
  have : ∀ k, k < 10 → UInt8.ofNat (48 + k) ≠ NL ∧ UInt8.ofNat (48 + k) ≠ CR := by decide
  exact this k hk

theorem natDigits_ne_nil (n : Nat) : natDigits n ≠ [] := by
  unfold natDigits natDigitsAux
  by_cases hn : n < 10 <;> simp [hn]

theorem natDigits_last (n : Nat) : ∃ x, (natDigits n).getLast? = some x ∧ isDigitB x := by
  have hne := natDigits_ne_nil n
  cases hl : (natDigits n).getLast? with
  | none => simp [List.getLast?_eq_none_iff] at hl; exact absurd hl hne
  | some x => exact ⟨x, rfl, natDigitsAux_digits _ _ x (List.mem_of_getLast? hl)⟩

theorem nl_intDigits (v : Int) : NL ∉ intDigits v := by
  unfold intDigits
  intro h
  by_cases hv : v < 0
  · rw [if_pos hv] at h
    rcases List.mem_cons.mp h with h | h
    · exact absurd h (by decide)
    · exact (digit_ne _ (natDigitsAux_digits _ _ _ h)).1 rfl
  · rw [if_neg hv] at h
    exact (digit_ne _ (natDigitsAux_digits _ _ _ h)).1 rfl

theorem intDigits_last (v : Int) : ∃ x, (intDigits v).getLast? = some x ∧ isDigitB x := by
  unfold intDigits
  obtain ⟨x, hx, hd⟩ := natDigits_last v.natAbs
  refine ⟨x, ?_, hd⟩
  by_cases hv : v < 0
  · simp only [hv, if_true]
    rw [List.getLast?_cons]
    simp [hx]
  · simp [hv, hx]

theorem mem_joinWith (sep x : UInt8) (hs : x ≠ sep) (l : List Bytes) (h : x ∈ joinWith sep l) : ∃ y ∈ l, x ∈ y := by
  induction l with
  | nil => simp [joinWith] at h
  | cons a r ih =>
    cases r with
    | nil => simp only [joinWith] at h; exact ⟨a, by simp, h⟩
    | cons b r' =>
      simp only [joinWith, List.mem_append, List.mem_cons] at h
      rcases h with h | h | h
      · exact ⟨a, by simp, h⟩
      · exact absurd h hs
      · obtain ⟨y, hy, hxy⟩ := ih h
        exact ⟨y, List.mem_cons_of_mem _ hy, hxy⟩


/-- The float texts of a point's fields contain no line feed (they are digits, '.', '-'). -/
def FloatTextClean (F : FloatCodec) (p : SPoint) : Prop := ∀ kv ∈ p.fields, ∀ b, kv.2 = .float b → NL ∉ F.fmt b

theorem nl_renderFV (F : FloatCodec) (v : FV) (hF : ∀ b, v = .float b → NL ∉ F.fmt b) (h : NL ∈ renderFV F v) :
    v.hasNL = true := by
  cases v with
  | float b => exact absurd h (hF b rfl)
  | int i =>
    unfold renderFV at h
    rcases List.mem_append.mp h with h | h
    · exact absurd h (nl_intDigits i)
    · exact absurd (List.mem_singleton.mp h) (by decide)
  | str s =>
    unfold renderFV at h
    rcases List.mem_cons.mp h with h | h
    · exact absurd h (by decide)
    · rcases List.mem_append.mp h with h | h
      · simp [FV.hasNL, hasNL, nl_escStr s h]
      · exact absurd (List.mem_singleton.mp h) (by decide)
  | bool b =>
    cases b
    · have h' : NL ∈ ([102, 97, 108, 115, 101] : Bytes) := h
      exact absurd h' (by decide)
    · have h' : NL ∈ ([116, 114, 117, 101] : Bytes) := h
      exact absurd h' (by decide)

theorem nl_keyBytes (name : Bytes) (tags : Tags) (h : NL ∈ keyBytes name tags) :
    NL ∈ name ∨ ∃ kv ∈ tags, NL ∈ kv.1 ∨ NL ∈ kv.2 := by
  unfold keyBytes at h
  rcases List.mem_append.mp h with h | h
  · exact Or.inl (nl_escMeas name h)
  · right
    obtain ⟨kv, hkv, h⟩ := List.mem_flatMap.mp h
    refine ⟨kv, hkv, ?_⟩
    by_cases he : kv.2.isEmpty = true
    · simp [he] at h
    · simp only [he] at h
      rcases List.mem_cons.mp h with h | h
      · exact absurd h (by decide)
      · rcases List.mem_append.mp h with h | h
        · exact Or.inl (nl_escTag _ h)
        · rcases List.mem_cons.mp h with h | h
          · exact absurd h (by decide)
          · exact Or.inr (nl_escTag _ h)

theorem nl_fieldBytes (F : FloatCodec) (fs : Fields) (hF : ∀ kv ∈ fs, ∀ b, kv.2 = .float b → NL ∉ F.fmt b)
    (h : NL ∈ fieldBytes F fs) : ∃ kv ∈ fs, NL ∈ kv.1 ∨ kv.2.hasNL = true := by
  unfold fieldBytes at h
  obtain ⟨y, hy, hxy⟩ := mem_joinWith COMMA NL (by decide) _ h
  obtain ⟨kv, hkv, rfl⟩ := List.mem_map.mp hy
  refine ⟨kv, hkv, ?_⟩
  rcases List.mem_append.mp hxy with h | h
  · exact Or.inl (nl_escKey _ h)
  · rcases List.mem_cons.mp h with h | h
    · exact absurd h (by decide)
    · exact Or.inr (nl_renderFV F kv.2 (hF kv hkv) h)

theorem hasNL_false (s : Bytes) (h : hasNL s = false) : NL ∉ s := by
  intro hm
  have : hasNL s = true := by simp [hasNL, hm]
  rw [h] at this; exact Bool.noConfusion this

/-- **A line feed gets into the recorded line only from the point's own strings**: if no component of the point
(in the sense of the finding's clause `SPoint.dirty`) has one, the line has none. -/
theorem line_newline_free (F : FloatCodec) (mult : Int) (p : SPoint) (hF : FloatTextClean F p)
    (hd : p.dirty = false) (hstr : p.fields.any (fun kv => kv.2.hasNL) = false) : NL ∉ lineOf F mult p := by
  intro h
  simp only [SPoint.dirty, Bool.or_eq_false_iff] at hd
  obtain ⟨⟨⟨⟨⟨⟨_, _⟩, _⟩, _⟩, hname⟩, htags⟩, hfields⟩ := hd
  unfold lineOf at h
  rcases List.mem_append.mp h with h | h
  · rcases List.mem_append.mp h with h | h
    · rcases nl_keyBytes _ _ h with h | ⟨kv, hkv, h⟩
      · exact hasNL_false _ hname h
      · have := List.any_eq_false.mp htags kv hkv
        simp only [Bool.or_eq_true, not_or, Bool.not_eq_true] at this
        rcases h with h | h
        · exact hasNL_false _ this.1 h
        · exact hasNL_false _ this.2 h
    · rcases List.mem_cons.mp h with h | h
      · exact absurd h (by decide)
      · obtain ⟨kv, hkv, h⟩ := nl_fieldBytes F p.fields hF h
        have := List.any_eq_false.mp hfields kv hkv
        have hs := List.any_eq_false.mp hstr kv hkv
        simp only [Bool.not_eq_true] at this hs
        rcases h with h | h
        · exact hasNL_false _ this h
        · rw [hs] at h; exact Bool.noConfusion h
  · rcases List.mem_cons.mp h with h | h
    · exact absurd h (by decide)
    · exact absurd h (nl_intDigits _)

/-- The line ends in a digit of the timestamp, never in a carriage return. -/
theorem line_last_not_CR (F : FloatCodec) (mult : Int) (p : SPoint) : (lineOf F mult p).getLast? ≠ some CR := by
  obtain ⟨x, hx, hdg⟩ := intDigits_last (p.time.tdiv mult)
  have hne : intDigits (p.time.tdiv mult) ≠ [] := by intro e; simp [e] at hx
  have : (lineOf F mult p).getLast? = some x := by
    unfold lineOf
    rw [List.getLast?_append]
    have : (SP :: intDigits (p.time.tdiv mult)).getLast? = some x := by
      cases hi : intDigits (p.time.tdiv mult) with
      | nil => exact absurd hi hne
      | cons a r => rw [hi] at hx; rw [List.getLast?_cons_cons]; exact hx
    rw [this]; rfl
  rw [this]; intro e; exact (digit_ne x hdg).2 (Option.some.inj e)


/-- Size side condition: every recorded line fits the Scanner's buffer. -/
def FitsScanner (F : FloatCodec) (mult : Int) (p : SPoint) : Prop :=
  p.db.length < maxTok ∧ p.rp.length < maxTok ∧ (lineOf F mult p).length < maxTok

/-- A point to which the clause of finding `stream-newline-framing` does NOT apply has a clean frame. -/
theorem frame_cleanOld_of_point (F : FloatCodec) (mult : Int) (p : SPoint) (hF : FloatTextClean F p)
    (hd : p.dirty = false) (hstr : p.fields.any (fun kv => kv.2.hasNL) = false) (hsz : FitsScanner F mult p) :
    (frameOf F mult p).cleanOld := by
  have hl := line_newline_free F mult p hF hd hstr
  have hd' := hd
  simp only [SPoint.dirty, Bool.or_eq_false_iff] at hd'
  obtain ⟨⟨⟨⟨⟨⟨hdb, hrp⟩, hcdb⟩, hcrp⟩, _⟩, _⟩, _⟩ := hd'
  have cr : ∀ s : Bytes, endsCR s = false → s.getLast? ≠ some CR := by
    intro s h e; simp [endsCR, e] at h
  exact ⟨⟨hasNL_false _ hdb, cr _ hcdb, hsz.1⟩, ⟨hasNL_false _ hrp, cr _ hcrp, hsz.2.1⟩,
         ⟨hl, line_last_not_CR F mult p, hsz.2.2⟩⟩

end Kap.C18
namespace Kap.C18
open List

theorem escStr_cons (c : UInt8) (s : Bytes) :
    escStr (c :: s) = (if c = DQ ∨ c = BS then [BS, c] else [c]) ++ escStr s := by
  simp [escStr]

theorem escStr_nil_iff (s : Bytes) (h : escStr s = []) : s = [] := by
  cases s with
  | nil => rfl
  | cons c r =>
    rw [escStr_cons] at h
    by_cases hc : c = DQ ∨ c = BS <;> simp [hc] at h

/-- **String field values survive the line protocol**: `unescapeStringField (EscapeStringField s) = s` for EVERY
byte string (quotes, backslashes — also trailing ones —, commas, spaces, `=`, unicode, control characters). -/
theorem unescStr_escStr (s : Bytes) : unescStr (escStr s) = s := by
  induction s with
  | nil => simp [escStr, unescStr]
  | cons c r ih =>
    rw [escStr_cons]
    by_cases hq : c = DQ
    · subst hq
      have hne : DQ ≠ BS := by decide
      simp [unescStr, ih, hne]
    · by_cases hb : c = BS
      · subst hb
        simp only [or_true, if_true, List.cons_append, List.nil_append]
        simp [unescStr, ih]
      · have hc : ¬ (c = DQ ∨ c = BS) := by simp [hq, hb]
        simp only [hc, if_false, List.cons_append, List.nil_append]
        cases he : escStr r with
        | nil =>
          have := escStr_nil_iff r he
          subst this
          simp [unescStr]
        | cons y rest =>
          rw [he] at ih
          simp [unescStr, hb, ih]


/-- A string field value is written and read back as the same STRING (type and value), whatever bytes it holds. -/
theorem parseFV_render_str (F : FloatCodec) (s : Bytes) : parseFV F (renderFV F (.str s)) = some (.str s) := by
  have h1 : (escStr s ++ [DQ]).getLast? = some DQ := by simp
  have h2 : (escStr s ++ [DQ]).dropLast = escStr s := by simp
  have h3 : (escStr s ++ [DQ]).length ≥ 1 := by simp
  show parseFV F (DQ :: (escStr s ++ [DQ])) = _
  simp [parseFV, h1, h2, unescStr_escStr]

/-- A boolean field is written and read back as the same BOOLEAN. -/
theorem parseFV_render_bool (F : FloatCodec) (b : Bool) : parseFV F (renderFV F (.bool b)) = some (.bool b) := by
  cases b <;> simp [renderFV, parseFV, boolLits, List.lookup, DQ]

end Kap.C18
namespace Kap.C18
open List

/-- one step of `parseNat?`'s fold -/
def pstep (acc : Option Nat) (c : UInt8) : Option Nat :=
  match acc with
  | some n => if 48 ≤ c ∧ c ≤ 57 then some (n * 10 + (c.toNat - 48)) else none
  | none => none

theorem parseNat?_eq (s : Bytes) : parseNat? s = if s.isEmpty then none else s.foldl pstep (some 0) := by
  unfold parseNat?
  rfl

theorem digit_facts : ∀ k, k < 10 →
    (48 ≤ UInt8.ofNat (48 + k) ∧ UInt8.ofNat (48 + k) ≤ 57) ∧ (UInt8.ofNat (48 + k)).toNat - 48 = k ∧
    UInt8.ofNat (48 + k) ≠ 45 ∧ UInt8.ofNat (48 + k) ≠ DQ ∧ UInt8.ofNat (48 + k) ≠ 105 := by decide

theorem pstep_digit (a k : Nat) (hk : k < 10) : pstep (some a) (UInt8.ofNat (48 + k)) = some (a * 10 + k) := by
  obtain ⟨h1, h2, _⟩ := digit_facts k hk
  simp only [pstep]
  rw [if_pos h1, h2]

theorem fold_natDigitsAux (fuel n : Nat) (h : n < fuel) :
    (natDigitsAux fuel n).foldl pstep (some 0) = some n := by
  induction fuel generalizing n with
  | zero => omega
  | succ f ih =>
    simp only [natDigitsAux]
    by_cases hn : n < 10
    · simp only [hn, if_true, List.foldl_cons, List.foldl_nil]
      rw [pstep_digit 0 n hn]; simp
    · simp only [hn, if_false, List.foldl_append, List.foldl_cons, List.foldl_nil]
      rw [ih (n / 10) (by omega), pstep_digit _ _ (Nat.mod_lt _ (by omega))]
      congr 1; omega

theorem parseNat?_natDigits (n : Nat) : parseNat? (natDigits n) = some n := by
  rw [parseNat?_eq]
  have hne := natDigits_ne_nil n
  have : (natDigits n).isEmpty = false := by
    cases h : natDigits n with
    | nil => exact absurd h hne
    | cons _ _ => rfl
  rw [this]
  exact fold_natDigitsAux (n + 1) n (by omega)


theorem natDigits_head (n : Nat) : ∃ d r, natDigits n = d :: r ∧ isDigitB d := by
  have hne := natDigits_ne_nil n
  cases h : natDigits n with
  | nil => exact absurd h hne
  | cons d r =>
    refine ⟨d, r, rfl, ?_⟩
    have : d ∈ natDigits n := by rw [h]; simp
    exact natDigitsAux_digits _ _ d this

theorem isDigitB_ne (d : UInt8) (h : isDigitB d) : d ≠ 45 ∧ d ≠ DQ ∧ d ≠ 105 := by
  obtain ⟨k, hk, rfl⟩ := h
  exact (digit_facts k hk).2.2

/-- **Decimal round trip**: `strconv.FormatInt(v,10)` parsed back is `v`, for every integer. -/
theorem parseInt?_intDigits (v : Int) : parseInt? (intDigits v) = some v := by
  unfold intDigits
  by_cases hv : v < 0
  · rw [if_pos hv]
    have e : (-((v.natAbs : Nat) : Int)) = v := by omega
    show (parseNat? (natDigits v.natAbs)).map (fun n => -(n : Int)) = some v
    rw [parseNat?_natDigits]
    exact congrArg some e
  · rw [if_neg hv]
    obtain ⟨d, r, hd, hdig⟩ := natDigits_head v.natAbs
    have h45 := (isDigitB_ne d hdig).1
    have : parseInt? (natDigits v.natAbs) = (parseNat? (natDigits v.natAbs)).map (fun n => (n : Int)) := by
      rw [hd]
      unfold parseInt?
      split
      · rename_i rest heq
        simp only [List.cons.injEq] at heq
        exact absurd heq.1 h45
      · rfl
    have e : ((v.natAbs : Nat) : Int) = v := by omega
    rw [this, parseNat?_natDigits]
    exact congrArg some e

theorem intDigits_head (v : Int) : ∃ d r, intDigits v = d :: r ∧ d ≠ DQ := by
  unfold intDigits
  by_cases hv : v < 0
  · rw [if_pos hv]; exact ⟨45, _, rfl, by decide⟩
  · rw [if_neg hv]
    obtain ⟨d, r, hd, hdig⟩ := natDigits_head v.natAbs
    exact ⟨d, r, hd, (isDigitB_ne d hdig).2.1⟩

/-- **types_preserved_stream (integers)**: every int64 is written as `<decimal>i` and read back as the same INTEGER. -/
theorem parseFV_render_int (F : FloatCodec) (v : Int) (hr : -(2:Int)^63 ≤ v ∧ v < (2:Int)^63) :
    parseFV F (renderFV F (.int v)) = some (.int v) := by
  obtain ⟨d, r, hd, hdq⟩ := intDigits_head v
  have h1 : (intDigits v ++ [105]).getLast? = some 105 := by simp
  have h2 : (intDigits v ++ [105]).dropLast = intDigits v := by simp
  show parseFV F (intDigits v ++ [105]) = _
  have hcons : intDigits v ++ [105] = d :: (r ++ [105]) := by rw [hd]; rfl
  unfold parseFV
  rw [hcons]
  simp only [hdq, if_false]
  rw [← hcons, h1, h2, parseInt?_intDigits]
  have hr' : -(2:Int)^63 ≤ v ∧ v < (2:Int)^63 := hr
  simp only [if_true, Option.bind_some, hr', and_self]

/-- The law of the external float codec for one bit pattern: the text is a number (does not start with a quote, does
not end in `i`, is not a boolean literal) and parses back to the same bits. True of `strconv` for every finite float. -/
def FloatLaw (F : FloatCodec) (b : Nat) : Prop :=
  (∃ c r, F.fmt b = c :: r ∧ c ≠ DQ) ∧ (F.fmt b).getLast? ≠ some 105 ∧ boolLits.lookup (F.fmt b) = none ∧
  F.parse (F.fmt b) = some b

theorem parseFV_render_float (F : FloatCodec) (b : Nat) (h : FloatLaw F b) :
    parseFV F (renderFV F (.float b)) = some (.float b) := by
  obtain ⟨⟨c, r, hc, hdq⟩, hl, hb, hp⟩ := h
  show parseFV F (F.fmt b) = _
  unfold parseFV
  rw [hc]
  simp only [hdq, if_false]
  rw [← hc]
  simp [hl, hb, hp]

end Kap.C18
namespace Kap.C18
open List

/-! ## Names through the line protocol escaping (backslash-free names) -/

theorem replaceByte_append (c : UInt8) (w a b : Bytes) :
    replaceByte c w (a ++ b) = replaceByte c w a ++ replaceByte c w b := by
  induction a with
  | nil => simp [replaceByte]
  | cons x xs ih =>
    by_cases h : x = c <;> simp [replaceByte, h, ih]

theorem rp_cons_ne (a b w x : UInt8) (r : Bytes) (h : x ≠ a) :
    replacePair a b w (x :: r) = x :: replacePair a b w r := by
  cases r with
  | nil => simp [replacePair]
  | cons y r' => simp [replacePair, h]

theorem rp_pair (a b w : UInt8) (r : Bytes) : replacePair a b w (a :: b :: r) = w :: replacePair a b w r := by
  simp [replacePair]

theorem rp_a_notb (a b w y : UInt8) (r : Bytes) (h : y ≠ b) :
    replacePair a b w (a :: y :: r) = a :: replacePair a b w (y :: r) := by
  simp [replacePair, h]

theorem rp_noBS (b w : UInt8) (s : Bytes) (h : BS ∉ s) : replacePair BS b w s = s := by
  induction s with
  | nil => simp [replacePair]
  | cons x r ih =>
    have hx : x ≠ BS := fun e => h (by simp [e])
    rw [rp_cons_ne _ _ _ _ _ hx, ih (fun e => h (by simp [e]))]

theorem escTag_cons (x : UInt8) (s : Bytes) :
    escTag (x :: s) = (if x = COMMA ∨ x = SP ∨ x = EQ then [BS, x] else [x]) ++ escTag s := by
  have e : x :: s = [x] ++ s := rfl
  unfold escTag
  rw [e, replaceByte_append, replaceByte_append, replaceByte_append]
  congr 1
  by_cases h1 : x = COMMA
  · subst h1; decide
  · by_cases h2 : x = SP
    · subst h2; decide
    · by_cases h3 : x = EQ
      · subst h3; decide
      · simp [replaceByte, h1, h2, h3]

/-- **Tag keys and values survive**: `unescapeTag (escapeTag s) = s` for every backslash-free byte string
(commas, spaces, `=`, quotes, unicode …). -/
theorem unescTag_escTag (s : Bytes) (h : BS ∉ s) : unescTag (escTag s) = s := by
  induction s with
  | nil => simp [escTag, unescTag, replaceByte, replacePair]
  | cons x r ih =>
    have hx : x ≠ BS := fun e => h (by simp [e])
    have ih' := ih (fun e => h (by simp [e]))
    rw [escTag_cons]
    unfold unescTag at ih' ⊢
    by_cases h1 : x = COMMA
    · subst h1
      simp only [true_or, if_true, List.cons_append, List.nil_append]
      rw [rp_pair BS COMMA COMMA, rp_cons_ne BS SP SP COMMA _ (by decide), rp_cons_ne BS EQ EQ COMMA _ (by decide), ih']
    · by_cases h2 : x = SP
      · subst h2
        simp only [true_or, or_true, if_true, List.cons_append, List.nil_append]
        rw [rp_a_notb BS COMMA COMMA SP _ (by decide), rp_cons_ne BS COMMA COMMA SP _ (by decide), rp_pair BS SP SP,
            rp_cons_ne BS EQ EQ SP _ (by decide), ih']
      · by_cases h3 : x = EQ
        · subst h3
          simp only [or_true, if_true, List.cons_append, List.nil_append]
          rw [rp_a_notb BS COMMA COMMA EQ _ (by decide), rp_cons_ne BS COMMA COMMA EQ _ (by decide),
              rp_a_notb BS SP SP EQ _ (by decide), rp_cons_ne BS SP SP EQ _ (by decide), rp_pair BS EQ EQ, ih']
        · simp only [h1, h2, h3, or_self, if_false, List.cons_append, List.nil_append]
          rw [rp_cons_ne BS COMMA COMMA x _ hx, rp_cons_ne BS SP SP x _ hx, rp_cons_ne BS EQ EQ x _ hx, ih']


theorem escMeas_cons (x : UInt8) (s : Bytes) :
    escMeas (x :: s) = (if x = COMMA ∨ x = SP then [BS, x] else [x]) ++ escMeas s := by
  have e : x :: s = [x] ++ s := rfl
  unfold escMeas
  rw [e, replaceByte_append, replaceByte_append]
  congr 1
  by_cases h1 : x = COMMA
  · subst h1; decide
  · by_cases h2 : x = SP
    · subst h2; decide
    · simp [replaceByte, h1, h2]

/-- **Measurements survive**: for a backslash-free name, what `MakeKey` writes (`EscapeMeasurement ∘
unescapeMeasurement`) unescapes to the name. -/
theorem unescMeas_escMeas (s : Bytes) (h : BS ∉ s) : unescMeas (escMeas (unescMeas s)) = s := by
  have h0 : unescMeas s = s := by unfold unescMeas; rw [rp_noBS _ _ _ h, rp_noBS _ _ _ h]
  rw [h0]
  induction s with
  | nil => simp [escMeas, unescMeas, replaceByte, replacePair]
  | cons x r ih =>
    have hx : x ≠ BS := fun e => h (by simp [e])
    have hr : BS ∉ r := fun e => h (by simp [e])
    have h0r : unescMeas r = r := by unfold unescMeas; rw [rp_noBS _ _ _ hr, rp_noBS _ _ _ hr]
    have ih' := ih hr h0r
    rw [escMeas_cons]
    unfold unescMeas at ih' ⊢
    by_cases h1 : x = COMMA
    · subst h1
      simp only [true_or, if_true, List.cons_append, List.nil_append]
      rw [rp_pair BS COMMA COMMA, rp_cons_ne BS SP SP COMMA _ (by decide), ih']
    · by_cases h2 : x = SP
      · subst h2
        simp only [or_true, if_true, List.cons_append, List.nil_append]
        rw [rp_a_notb BS COMMA COMMA SP _ (by decide), rp_cons_ne BS COMMA COMMA SP _ (by decide), rp_pair BS SP SP, ih']
      · simp only [h1, h2, or_self, if_false, List.cons_append, List.nil_append]
        rw [rp_cons_ne BS COMMA COMMA x _ hx, rp_cons_ne BS SP SP x _ hx, ih']

theorem escKey_cons (c : UInt8) (s : Bytes) :
    escKey (c :: s) = (if c = COMMA ∨ c = DQ ∨ c = SP ∨ c = EQ then [BS, c] else [c]) ++ escKey s := by
  simp [escKey]

theorem escKey_nil_iff (s : Bytes) (h : escKey s = []) : s = [] := by
  cases s with
  | nil => rfl
  | cons c r =>
    rw [escKey_cons] at h
    by_cases hc : c = COMMA ∨ c = DQ ∨ c = SP ∨ c = EQ <;> simp [hc] at h

/-- **Field keys survive**: `escape.UnescapeString (escape.String s) = s` for every backslash-free key. -/
theorem unescKey_escKey (s : Bytes) (h : BS ∉ s) : unescKey (escKey s) = s := by
  induction s with
  | nil => simp [escKey, unescKey]
  | cons c r ih =>
    have hc : c ≠ BS := fun e => h (by simp [e])
    have ih' := ih (fun e => h (by simp [e]))
    rw [escKey_cons]
    by_cases hs : c = COMMA ∨ c = DQ ∨ c = SP ∨ c = EQ
    · simp only [hs, if_true, List.cons_append, List.nil_append]
      simp [unescKey, hs, ih']
    · simp only [hs, if_false, List.cons_append, List.nil_append]
      cases he : escKey r with
      | nil =>
        have := escKey_nil_iff r he
        subst this
        simp [unescKey]
      | cons y rest =>
        rw [he] at ih'
        simp [unescKey, hc, ih']

end Kap.C18
