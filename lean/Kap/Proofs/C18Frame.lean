/-
C18 — the reader since c988361 (quote-aware third line): framing round trip, and record → read under `LPLaw`.
-/
import Kap.Proofs.C18
namespace Kap.C18
open List

/-- Final state of `scanLineProtocolLine` over a whole line, `none` when the line has a line feed outside quotes
or ends in a lone backslash. -/
def lpFinal : LPState → Bytes → Option LPState
  | s, [] => some s
  | s, [c] => if c = BS then none else if c = NL ∧ !s.quoted then none else some (lpStep s c)
  | s, c :: d :: rest =>
    if c = BS then lpFinal s rest
    else if c = NL ∧ !s.quoted then none
    else lpFinal (lpStep s c) (d :: rest)

/-- The line is one token for `scanLineProtocolLine`: every line feed in it is inside a quoted field value, and
the line ends outside quotes. -/
def lpClosed (l : Bytes) : Bool :=
  match lpFinal {} l with
  | some s => !s.quoted
  | none => false

theorem spanLP_of_final : ∀ (n : Nat) (s s' : LPState) (l rest : Bytes), l.length ≤ n →
    lpFinal s l = some s' → s'.quoted = false → spanLP s (l ++ NL :: rest) = (l, some rest) := by
  intro n
  induction n with
  | zero =>
    intro s s' l rest hl hf hq
    cases l with
    | cons _ _ => simp at hl
    | nil =>
      simp only [lpFinal, Option.some.injEq] at hf
      subst hf
      cases rest with
      | nil => simp [spanLP, hq]; decide
      | cons d r => simp [spanLP, hq]; decide
  | succ n ih =>
    intro s s' l rest hl hf hq
    rcases l with _ | ⟨c, _ | ⟨d, r⟩⟩
    · exact ih s s' [] rest (by simp) hf hq
    · simp only [lpFinal] at hf
      by_cases hc : c = BS
      · simp [hc] at hf
      · by_cases ht : c = NL ∧ (!s.quoted) = true
        · simp [hc, ht] at hf
        · simp only [hc, ht, if_false, Option.some.injEq] at hf
          have := ih (lpStep s c) s' [] rest (by simp) (by simp [lpFinal, hf]) hq
          simp only [List.nil_append] at this
          simp only [List.cons_append, List.nil_append, spanLP, hc, ht, if_false, this]
    · simp only [lpFinal] at hf
      by_cases hc : c = BS
      · simp only [hc, if_true] at hf
        have := ih s s' r rest (by simp at hl; omega) hf hq
        simp only [List.cons_append, spanLP, hc, if_true, this]
      · by_cases ht : c = NL ∧ (!s.quoted) = true
        · obtain ⟨ht1, ht2⟩ := ht
          subst ht1
          simp [hc, ht2] at hf
        · simp only [hc, ht, if_false] at hf
          have := ih (lpStep s c) s' (d :: r) rest (by simp at hl ⊢; omega) hf hq
          simp only [List.cons_append] at this
          simp only [List.cons_append, spanLP, hc, ht, if_false, this]

theorem spanLP_closed (l rest : Bytes) (h : lpClosed l = true) : spanLP {} (l ++ NL :: rest) = (l, some rest) := by
  unfold lpClosed at h
  cases hf : lpFinal {} l with
  | none => simp [hf] at h
  | some s' =>
    rw [hf] at h
    exact spanLP_of_final l.length {} s' l rest (Nat.le_refl _) hf (by simpa using h)

theorem spanNL_append (l rest : Bytes) (h : NL ∉ l) : spanNL (l ++ NL :: rest) = (l, some rest) := by
  induction l with
  | nil => simp [spanNL]
  | cons c l ih =>
    have hc : c ≠ NL := fun e => h (by simp [e])
    have hl : NL ∉ l := fun e => h (by simp [e])
    simp [spanNL, hc, ih hl]

/-- A line can be written as the third line of a record (reader since c988361). -/
def cleanLine (l : Bytes) : Prop := lpClosed l = true ∧ l.getLast? ≠ some CR ∧ l.length < maxTok

instance (l : Bytes) : Decidable (cleanLine l) := by unfold cleanLine; exact inferInstance

/-- A frame whose database and retention policy have no line feed (and no trailing CR, below the limit) and whose
line has line feeds only inside quoted field values. -/
def Frame.clean (f : Frame) : Prop := cleanComp f.db ∧ cleanComp f.rp ∧ cleanLine f.line

instance (f : Frame) : Decidable f.clean := by unfold Frame.clean; exact inferInstance

theorem takeTok_NL (l rest : Bytes) (h : cleanComp l) :
    takeTok maxTok spanNL (l ++ NL :: rest) = .tok l rest := by
  have hl : ¬ l.length ≥ maxTok := by have := h.2.2; omega
  simp [takeTok, spanNL_append l rest h.1, hl]

theorem takeTok_LP (l rest : Bytes) (h : cleanLine l) :
    takeTok maxTok (spanLP {}) (l ++ NL :: rest) = .tok l rest := by
  have hl : ¬ l.length ≥ maxTok := by have := h.2.2; omega
  simp [takeTok, spanLP_closed l rest h.1, hl]

theorem readFramesAux_writeFrames (fs : List Frame) (h : ∀ f ∈ fs, f.clean) :
    ∀ n, fs.length < n → readFramesAux maxTok n (writeFrames fs) = (fs, true) := by
  induction fs with
  | nil =>
    intro n hn
    cases n with
    | zero => omega
    | succ k => simp [readFramesAux, writeFrames, takeTok]
  | cons f r ih =>
    intro n hn
    cases n with
    | zero => omega
    | succ k =>
      obtain ⟨h1, h2, h3⟩ := h f (by simp)
      have ih' := ih (fun g hg => h g (by simp [hg])) k (by simp at hn; omega)
      have e : writeFrames (f :: r) = f.db ++ NL :: (f.rp ++ NL :: (f.line ++ NL :: writeFrames r)) := by
        simp [writeFrames, Frame.bytes]
      rw [e]
      simp only [readFramesAux, takeTok_NL _ _ h1, takeTok_NL _ _ h2, takeTok_LP _ _ h3, ih',
        dropCR_of_clean _ h1.2.1, dropCR_of_clean _ h2.2.1, dropCR_of_clean _ h3.2.1]

theorem writeFrames_length (fs : List Frame) : fs.length ≤ (writeFrames fs).length := by
  induction fs with
  | nil => simp [writeFrames]
  | cons f r ih =>
    have e : writeFrames (f :: r) = f.bytes ++ writeFrames r := by simp [writeFrames]
    rw [e, List.length_append, List.length_cons]
    have : 1 ≤ f.bytes.length := by simp [Frame.bytes]; omega
    omega

/-- **Framing round trip** for the reader since c988361. -/
theorem readFrames_writeFrames (fs : List Frame) (h : ∀ f ∈ fs, f.clean) :
    readFrames maxTok (writeFrames fs) = (fs, true) := by
  unfold readFrames
  exact readFramesAux_writeFrames fs h _ (by have := writeFrames_length fs; omega)

/-! ## Stream: record → read -/

/-- The line-protocol law on a list of points: parsing the line that the writer produced for a point gives the
point back (time truncated to the precision). PROVED for the model's parser on the domain `LPDomain`
(Kap/Proofs/C18Line.lean); for the real influxdb parser it is exercised by the correspondence run. -/
def LPLaw (F : FloatCodec) (mult : Int) (ps : List SPoint) : Prop :=
  ∀ p ∈ ps, parseLine F mult (lineOf F mult p) = .point p.name p.tags p.fields (p.time.tdiv mult * mult)

theorem parseFrames_law (F : FloatCodec) (mult : Int) (ps : List SPoint) (h : LPLaw F mult ps) :
    parseFrames F mult (ps.map (frameOf F mult)) true =
      (ps.map (fun p => { p with time := p.time.tdiv mult * mult }), .ok) := by
  induction ps with
  | nil => simp [parseFrames]
  | cons p rest ih =>
    have hp := h p (by simp)
    have ih' := ih (fun x hx => h x (by simp [hx]))
    simp [parseFrames, frameOf, hp] at ih' ⊢
    simp [ih']

theorem readStream_record (F : FloatCodec) (mult : Int) (ps : List SPoint) (h : LPLaw F mult ps)
    (hc : ∀ p ∈ ps, (frameOf F mult p).clean) :
    readStream F mult (record F mult ps) = (ps.map (fun p => { p with time := p.time.tdiv mult * mult }), .ok) := by
  unfold readStream record
  rw [readFrames_writeFrames _ (by intro f hf; simp only [List.mem_map] at hf; obtain ⟨p, hp, rfl⟩ := hf; exact hc p hp)]
  exact parseFrames_law F mult ps h

end Kap.C18
