/-
C18 — the reader since c988361: `Frame.clean` is EXACTLY the condition under which the framing layer returns the
written frames (converse of `readFrames_writeFrames`, and the iff), with `decide` witnesses for every clause.
-/
import Kap.Proofs.C18Frame
import Kap.Proofs.C18Line
namespace Kap.C18
open List

/-! ## Small facts about the searches -/

theorem spanNL_fst_noNL (x : Bytes) : NL ∉ (spanNL x).1 := by
  induction x with
  | nil => simp [spanNL]
  | cons c r ih =>
    by_cases hc : c = NL
    · simp [spanNL, hc]
    · simp only [spanNL, hc, if_false, List.mem_cons, not_or]
      exact ⟨fun e => hc e.symm, ih⟩

/-- `dropCR` removes nothing, or exactly one trailing carriage return. -/
theorem dropCR_cases (a : Bytes) : dropCR a = a ∨ a = dropCR a ++ [CR] := by
  unfold dropCR
  cases hl : a.getLast? with
  | none => exact Or.inl rfl
  | some c =>
    by_cases hc : c = CR
    · subst hc
      simp only [if_true]
      obtain ⟨ys, rfl⟩ := List.getLast?_eq_some_iff.mp hl
      exact Or.inr (by simp)
    · simp [hc]

theorem mem_of_mem_dropCR (a : Bytes) (c : UInt8) (h : c ∈ dropCR a) : c ∈ a := by
  rcases dropCR_cases a with e | e
  · rwa [e] at h
  · rw [e]; simp [h]

/-- What a successful `takeTok` says. -/
theorem takeTok_tok_inv (max : Nat) (span : Bytes → Bytes × Option Bytes) (data a r : Bytes)
    (h : takeTok max span data = .tok a r) :
    (span data).1.length < max ∧ a = (span data).1 ∧ r = (span data).2.getD [] := by
  unfold takeTok at h
  split at h
  · cases h
  · split at h
    · cases h
    · cases h
      exact ⟨by omega, rfl, rfl⟩

/-- The token found by `scanLineProtocolLine`'s search is a prefix of the input. -/
theorem spanLP_fst_prefix : ∀ (n : Nat) (s : LPState) (x : Bytes), x.length ≤ n → (spanLP s x).1 <+: x := by
  intro n
  induction n with
  | zero =>
    intro s x hx
    cases x with
    | cons _ _ => simp at hx
    | nil => simp [spanLP]
  | succ n ih =>
    intro s x hx
    rcases x with _ | ⟨c, _ | ⟨d, r⟩⟩
    · simp [spanLP]
    · simp only [spanLP]
      by_cases hc : c = BS
      · simp [hc]
      · by_cases ht : c = NL ∧ (!s.quoted) = true
        · rw [if_neg hc, if_pos ht]; simp
        · rw [if_neg hc, if_neg ht]; simp
    · simp only [spanLP]
      by_cases hc : c = BS
      · simp only [hc, if_true]
        have := ih s r (by simp at hx; omega)
        obtain ⟨t, ht⟩ := this
        exact ⟨t, by simp only [List.cons_append, ht]⟩
      · by_cases ht : c = NL ∧ (!s.quoted) = true
        · rw [if_neg hc, if_pos ht]; simp
        · simp only [hc, ht, if_false]
          have := ih (lpStep s c) (d :: r) (by simp at hx ⊢; omega)
          obtain ⟨t, ht⟩ := this
          exact ⟨t, by simp only [List.cons_append, ht]⟩

/-- Converse of `spanLP_of_final`: if the search stops exactly at the line feed written after `l`, then `l` is
closed (no line feed outside quotes, no lone trailing backslash, ends outside quotes). -/
theorem final_of_spanLP : ∀ (n : Nat) (s : LPState) (l rest : Bytes), l.length ≤ n →
    (spanLP s (l ++ NL :: rest)).1 = l → ∃ s', lpFinal s l = some s' ∧ s'.quoted = false := by
  intro n
  induction n with
  | zero =>
    intro s l rest hl h
    cases l with
    | cons _ _ => simp at hl
    | nil =>
      refine ⟨s, by simp [lpFinal], ?_⟩
      have hb : ¬ NL = BS := by decide
      cases hq : s.quoted with
      | false => rfl
      | true =>
        cases rest with
        | nil => simp [spanLP, hb, hq] at h
        | cons d r => simp [spanLP, hb, hq] at h
  | succ n ih =>
    intro s l rest hl h
    rcases l with _ | ⟨c, _ | ⟨d, r⟩⟩
    · exact ih s [] rest (by simp) h
    · simp only [List.cons_append, List.nil_append, spanLP] at h
      by_cases hc : c = BS
      · simp [hc] at h
      · by_cases ht : c = NL ∧ (!s.quoted) = true
        · rw [if_neg hc, if_pos ht] at h; simp at h
        · rw [if_neg hc, if_neg ht] at h
          simp only [List.cons.injEq, true_and] at h
          obtain ⟨s', hf, hq⟩ := ih (lpStep s c) [] rest (by simp) (by simpa using h)
          simp only [lpFinal, Option.some.injEq] at hf
          subst hf
          exact ⟨lpStep s c, by simp only [lpFinal]; rw [if_neg hc, if_neg ht], hq⟩
    · simp only [List.cons_append, spanLP] at h
      by_cases hc : c = BS
      · simp only [hc, if_true, List.cons.injEq, true_and] at h
        obtain ⟨s', hf, hq⟩ := ih s r rest (by simp at hl; omega) h
        exact ⟨s', by simp only [lpFinal, hc, if_true, hf], hq⟩
      · by_cases ht : c = NL ∧ (!s.quoted) = true
        · rw [if_neg hc, if_pos ht] at h; simp at h
        · rw [if_neg hc, if_neg ht] at h
          simp only [List.cons.injEq, true_and] at h
          obtain ⟨s', hf, hq⟩ := ih (lpStep s c) (d :: r) rest (by simp at hl ⊢; omega)
            (by simpa only [List.cons_append] using h)
          exact ⟨s', by simp only [lpFinal]; rw [if_neg hc, if_neg ht, hf], hq⟩

/-! ## One component, one line -/

/-- If the Scanner's token for a `db` / `rp` line gives the written component back, the component is clean and the
Scanner continues right after the written line feed. -/
theorem comp_inv (c R a r1 : Bytes) (h : takeTok maxTok spanNL (c ++ NL :: R) = .tok a r1) (hd : dropCR a = c) :
    cleanComp c ∧ r1 = R := by
  obtain ⟨hlen, ha, hr⟩ := takeTok_tok_inv _ _ _ _ _ h
  have hnl : NL ∉ c := by
    intro hm
    rw [← hd] at hm
    have := mem_of_mem_dropCR a NL hm
    rw [ha] at this
    exact spanNL_fst_noNL _ this
  have hs := spanNL_append c R hnl
  rw [hs] at ha hr hlen
  simp only [Option.getD_some] at hr
  subst ha
  exact ⟨⟨hnl, dropCR_fix _ hd, hlen⟩, hr⟩

/-- The same for the line-protocol line and the quote-aware search. -/
theorem line_inv (l R a r3 : Bytes) (h : takeTok maxTok (spanLP {}) (l ++ NL :: R) = .tok a r3) (hd : dropCR a = l) :
    cleanLine l ∧ r3 = R := by
  obtain ⟨hlen, ha, hr⟩ := takeTok_tok_inv _ _ _ _ _ h
  have hp : a <+: l ++ NL :: R := by rw [ha]; exact spanLP_fst_prefix _ _ _ (Nat.le_refl _)
  have hal : a = l := by
    rcases dropCR_cases a with e | e
    · rw [← hd, e]
    · exfalso
      rw [hd] at e
      rw [e] at hp
      obtain ⟨t, ht⟩ := hp
      rw [List.append_assoc, List.append_cancel_left_eq] at ht
      simp only [List.cons_append, List.nil_append, List.cons.injEq] at ht
      exact absurd ht.1 (by decide)
  subst hal
  obtain ⟨s', hf, hq⟩ := final_of_spanLP a.length {} a R (Nat.le_refl _) ha.symm
  have hs := spanLP_of_final a.length {} s' a R (Nat.le_refl _) hf hq
  rw [hs] at hr hlen
  simp only [Option.getD_some] at hr
  refine ⟨⟨?_, dropCR_fix _ hd, hlen⟩, hr⟩
  unfold lpClosed
  rw [hf]
  simp [hq]

/-! ## The converse and the iff -/

theorem readFramesAux_writeFrames_inv (fs : List Frame) :
    ∀ n, readFramesAux maxTok n (writeFrames fs) = (fs, true) → ∀ f ∈ fs, f.clean := by
  induction fs with
  | nil => intro n _ f hf; simp at hf
  | cons f r ih =>
    intro n h
    cases n with
    | zero => simp [readFramesAux] at h
    | succ k =>
      have e : writeFrames (f :: r) = f.db ++ NL :: (f.rp ++ NL :: (f.line ++ NL :: writeFrames r)) := by
        simp [writeFrames, Frame.bytes]
      rw [e, readFramesAux] at h
      split at h
      · simp at h
      · simp at h
      · rename_i a r1 h1
        split at h
        · rename_i b r2 h2
          split at h
          · rename_i c r3 h3
            simp only [Prod.mk.injEq, List.cons.injEq] at h
            obtain ⟨⟨hf, hr⟩, hok⟩ := h
            have hdb : dropCR a = f.db := by rw [← hf]
            have hrp : dropCR b = f.rp := by rw [← hf]
            have hln : dropCR c = f.line := by rw [← hf]
            obtain ⟨c1, e1⟩ := comp_inv _ _ _ _ h1 hdb
            subst e1
            obtain ⟨c2, e2⟩ := comp_inv _ _ _ _ h2 hrp
            subst e2
            obtain ⟨c3, e3⟩ := line_inv _ _ _ _ h3 hln
            subst e3
            have hrec : readFramesAux maxTok k (writeFrames r) = (r, true) := Prod.ext hr hok
            have := ih k hrec
            intro g hg
            rcases List.mem_cons.mp hg with rfl | hg
            · exact ⟨c1, c2, c3⟩
            · exact this g hg
          · simp at h
        · simp at h

/-- **Converse of the framing round trip** (reader since c988361): if the framing layer returns exactly the written
frames without an error, every frame was clean. -/
theorem readFrames_writeFrames_inv (fs : List Frame) (h : readFrames maxTok (writeFrames fs) = (fs, true)) :
    ∀ f ∈ fs, f.clean :=
  readFramesAux_writeFrames_inv fs _ h

/-- **`Frame.clean` is exactly the framing round-trip condition.** -/
theorem readFrames_writeFrames_iff (fs : List Frame) :
    readFrames maxTok (writeFrames fs) = (fs, true) ↔ ∀ f ∈ fs, f.clean :=
  ⟨readFrames_writeFrames_inv fs, readFrames_writeFrames fs⟩

/-- Contrapositive form for one frame. -/
theorem readFrames_writeFrames_ne_of_not_clean (f : Frame) (h : ¬ f.clean) :
    readFrames maxTok (writeFrames [f]) ≠ ([f], true) :=
  fun e => h (readFrames_writeFrames_inv [f] e f (by simp))

/-- The length clause (not reachable by `decide`): a component of 64 MiB or more is never read back. -/
theorem framing_fail_too_long (f : Frame) (h : maxTok ≤ f.db.length ∨ maxTok ≤ f.rp.length ∨ maxTok ≤ f.line.length) :
    readFrames maxTok (writeFrames [f]) ≠ ([f], true) := by
  apply readFrames_writeFrames_ne_of_not_clean
  rintro ⟨⟨_, _, h1⟩, ⟨_, _, h2⟩, ⟨_, _, h3⟩⟩
  omega

/-! ## Every clause of `Frame.clean` is needed (witnesses by evaluation of the reader since c988361) -/

/-- A line feed in the database name (`a\nb`). -/
theorem framing_fail_nl_in_db :
    readFrames maxTok (writeFrames [⟨[97, 10, 98], [114], [109]⟩]) ≠ ([⟨[97, 10, 98], [114], [109]⟩], true) := by
  decide

/-- A line feed in the retention policy name. -/
theorem framing_fail_nl_in_rp :
    readFrames maxTok (writeFrames [⟨[100], [114, 10, 120], [109]⟩]) ≠ ([⟨[100], [114, 10, 120], [109]⟩], true) := by
  decide

/-- A trailing carriage return on the database name (dropped by the Scanner). -/
theorem framing_fail_cr_db :
    readFrames maxTok (writeFrames [⟨[100, 13], [114], [109]⟩]) ≠ ([⟨[100, 13], [114], [109]⟩], true) := by
  decide

/-- A trailing carriage return on the retention policy name. -/
theorem framing_fail_cr_rp :
    readFrames maxTok (writeFrames [⟨[100], [114, 13], [109]⟩]) ≠ ([⟨[100], [114, 13], [109]⟩], true) := by
  decide

/-- An unquoted line feed in the line — here in a tag value: `m,k=a\nb v=1 5`. -/
theorem framing_fail_nl_in_tag :
    readFrames maxTok (writeFrames [⟨[100], [114], [109, 44, 107, 61, 97, 10, 98, 32, 118, 61, 49, 32, 53]⟩]) ≠
      ([⟨[100], [114], [109, 44, 107, 61, 97, 10, 98, 32, 118, 61, 49, 32, 53]⟩], true) := by
  decide

/-- A line ending in a lone backslash (`m\`): the backslash swallows the terminating line feed. -/
theorem framing_fail_trailing_backslash :
    readFrames maxTok (writeFrames [⟨[100], [114], [109, 92]⟩]) ≠ ([⟨[100], [114], [109, 92]⟩], true) := by
  decide

/-- A line ending inside an open quote (`m s="a`): the terminating line feed counts as part of the string. -/
theorem framing_fail_open_quote :
    readFrames maxTok (writeFrames [⟨[100], [114], [109, 32, 115, 61, 34, 97]⟩]) ≠
      ([⟨[100], [114], [109, 32, 115, 61, 34, 97]⟩], true) := by
  decide

/-- A line with a trailing carriage return. -/
theorem framing_fail_cr_line :
    readFrames maxTok (writeFrames [⟨[100], [114], [109, 13]⟩]) ≠ ([⟨[100], [114], [109, 13]⟩], true) := by
  decide

/-- What the reader actually returns in the two cases that are specific to the quote-aware search: the token runs
over the written line feed to the end of the input (no error is reported, the line is just wrong). -/
theorem framing_trailing_backslash_result :
    readFrames maxTok (writeFrames [⟨[100], [114], [109, 92]⟩]) = ([⟨[100], [114], [109, 92, 10]⟩], true) := by
  decide

theorem framing_open_quote_result :
    readFrames maxTok (writeFrames [⟨[100], [114], [109, 32, 115, 61, 34, 97]⟩]) =
      ([⟨[100], [114], [109, 32, 115, 61, 34, 97, 10]⟩], true) := by
  decide

/-- Each witness violates exactly the clause it is named after (and the positive case: a line feed INSIDE a quoted
field value is clean). -/
example : ¬ cleanComp [97, 10, 98] ∧ ¬ cleanComp [100, 13] ∧ cleanComp [100] ∧ cleanComp [114] := by decide
example : lpClosed [109, 44, 107, 61, 97, 10, 98, 32, 118, 61, 49, 32, 53] = false ∧ lpClosed [109, 92] = false ∧
    lpClosed [109, 32, 115, 61, 34, 97] = false ∧ lpClosed [109, 13] = true ∧
    cleanLine [109, 32, 115, 61, 34, 97, 10, 98, 34, 32, 49] := by decide

/-! ## Point level: on the parser's domain the finding's clause `SPoint.dirty` is EXACTLY "the frame is not clean"

`frame_clean_of_point` (Proofs/C18Line.lean) is the direction `dirty = false → clean`; here the converse: a line feed
in the measurement, a tag key or value, or a field key ends `scanLineProtocolLine`'s token early. -/

theorem lpf_nl (s : LPState) (t : Bytes) (hq : s.quoted = false) : lpFinal s (NL :: t) = none := by
  cases t with
  | nil => rw [lpf_one, if_neg NL_ne_BS, if_pos ⟨rfl, by simp [hq]⟩]
  | cons d r => rw [lpf_two, if_neg NL_ne_BS, if_pos ⟨rfl, by simp [hq]⟩]

/-- An escaped name with a line feed (which no escaping function protects), read outside quotes, ends the token. -/
theorem lpf_escBy_nl (E : UInt8 → Prop) [DecidablePred E] (st : LPState) (s t : Bytes) (hq : st.quoted = false)
    (hE : ¬ E NL) (hnl : NL ∈ s) (h : ∀ c ∈ s, ¬ E c → c ≠ NL → Inert st c) :
    lpFinal st (escBy E s ++ t) = none := by
  induction s with
  | nil => simp at hnl
  | cons c r ih =>
    have e : escBy E (c :: r) ++ t = (if E c then [BS, c] else [c]) ++ (escBy E r ++ t) := by simp [escBy]
    have tail : c ≠ NL → NL ∈ r := by
      intro hne
      rcases List.mem_cons.mp hnl with h' | h'
      · exact absurd h'.symm hne
      · exact h'
    rw [e]
    by_cases hc : E c
    · have hne : c ≠ NL := fun e' => hE (e' ▸ hc)
      simp only [if_pos hc, List.cons_append, List.nil_append, lpf_pair]
      exact ih (tail hne) (fun x hx => h x (by simp [hx]))
    · simp only [if_neg hc, List.cons_append, List.nil_append]
      by_cases hn : c = NL
      · subst hn; exact lpf_nl st _ hq
      · rw [lpf_inert st c _ (h c (by simp) hc hn)]
        exact ih (tail hn) (fun x hx => h x (by simp [hx]))

theorem lpf_escMeas_nl (s t : Bytes) (hb : BS ∉ s) (hn : NL ∈ s) : lpFinal {} (escMeas s ++ t) = none := by
  rw [escMeas_eq]
  refine lpf_escBy_nl _ _ _ _ rfl (by decide) hn ?_
  intro c hc hE hnl
  exact inert_key c (fun e => hb (e ▸ hc)) hnl (fun e => hE (by simp [e]))

theorem lpf_escTag_nl (s t : Bytes) (hb : BS ∉ s) (hn : NL ∈ s) : lpFinal {} (escTag s ++ t) = none := by
  rw [escTag_eq]
  refine lpf_escBy_nl _ _ _ _ rfl (by decide) hn ?_
  intro c hc hE hnl
  exact inert_key c (fun e => hb (e ▸ hc)) hnl (fun e => hE (by simp [e]))

theorem lpf_escKey_nl (e k : Nat) (s t : Bytes) (hb : BS ∉ s) (hn : NL ∈ s) :
    lpFinal ⟨false, true, e, k⟩ (escKey s ++ t) = none := by
  rw [escKey_eq]
  refine lpf_escBy_nl _ _ _ _ rfl (by decide) hn ?_
  intro c hc hE hnl
  exact inert_field _ _ c (fun e' => hb (e' ▸ hc)) hnl (fun e' => hE (by simp [e']))
    (fun e' => hE (by simp [e'])) (fun e' => hE (by simp [e']))

theorem lpf_tags_nl (tags : Tags) (t : Bytes) (hb : ∀ kv ∈ tags, BS ∉ kv.1 ∧ BS ∉ kv.2)
    (h : ∃ kv ∈ tags, NL ∈ kv.1 ∨ NL ∈ kv.2) :
    lpFinal {} ((tags.map tagChunk).flatMap (fun y => COMMA :: y) ++ t) = none := by
  induction tags with
  | nil => obtain ⟨_, hkv, _⟩ := h; simp at hkv
  | cons kv r ih =>
    obtain ⟨h1, h2⟩ := hb kv (by simp)
    simp only [List.map_cons, List.flatMap_cons, List.cons_append, List.append_assoc, tagChunk]
    rw [lpf_inert {} COMMA _ (inert_key COMMA (by decide) (by decide) (by decide))]
    by_cases n1 : NL ∈ kv.1
    · exact lpf_escTag_nl _ _ h1 n1
    · rw [lpf_escTag_key _ _ h1 n1, lpf_inert {} EQ _ (inert_key EQ (by decide) (by decide) (by decide))]
      by_cases n2 : NL ∈ kv.2
      · exact lpf_escTag_nl _ _ h2 n2
      · rw [lpf_escTag_key _ _ h2 n2]
        apply ih (fun x hx => hb x (by simp [hx]))
        obtain ⟨x, hx, hx'⟩ := h
        rcases List.mem_cons.mp hx with rfl | hx
        · rcases hx' with a | a
          · exact absurd a n1
          · exact absurd a n2
        · exact ⟨x, hx, hx'⟩

theorem lpf_fields_nl (F : FloatCodec) (fs : Fields)
    (hg : ∀ kv ∈ fs, BS ∉ kv.1 ∧ ValOK F kv.2 ∧ (∀ b, kv.2 = .float b → NL ∉ F.fmt b))
    (h : ∃ kv ∈ fs, NL ∈ kv.1) :
    ∀ (e : Nat) (t : Bytes), lpFinal ⟨false, true, e, e⟩ (joinWith COMMA (fs.map (fieldChunk F)) ++ t) = none := by
  induction fs with
  | nil => obtain ⟨_, hkv, _⟩ := h; simp at hkv
  | cons kv r ih =>
    intro e t
    obtain ⟨h1, h3, h4⟩ := hg kv (by simp)
    by_cases n1 : NL ∈ kv.1
    · have : ∃ u, joinWith COMMA ((kv :: r).map (fieldChunk F)) ++ t = escKey kv.1 ++ u := by
        cases r with
        | nil => exact ⟨_, by simp only [List.map_cons, List.map_nil, joinWith, fieldChunk, List.append_assoc]; rfl⟩
        | cons kv' r' => exact ⟨_, by simp only [List.map_cons, joinWith, fieldChunk, List.append_assoc]; rfl⟩
      obtain ⟨u, hu⟩ := this
      rw [hu]
      exact lpf_escKey_nl _ _ _ _ h1 n1
    · have hr : ∃ x ∈ r, NL ∈ x.1 := by
        obtain ⟨x, hx, hx'⟩ := h
        rcases List.mem_cons.mp hx with rfl | hx
        · exact absurd hx' n1
        · exact ⟨x, hx, hx'⟩
      cases r with
      | nil => obtain ⟨_, hkv, _⟩ := hr; simp at hkv
      | cons kv' r' =>
        have ih' := ih (fun x hx => hg x (by simp [hx])) hr (e + 1) t
        simp only [List.map_cons, joinWith, List.append_assoc, List.cons_append] at ih' ⊢
        rw [lpf_fieldChunk F kv e _ h1 n1 h3 h4, lpf_cons _ COMMA _ (by decide) (by simp; decide)]
        have d1 : COMMA ≠ NL := by decide
        have d2 : COMMA ≠ EQ := by decide
        have d4 : COMMA ≠ SP := by decide
        have hs : lpStep ⟨false, true, e + 1, e⟩ COMMA = ⟨false, true, e + 1, e + 1⟩ := by simp [lpStep, d1, d2, d4]
        rw [hs]
        exact ih'

/-- A line feed in the measurement, a tag key or value, or a field key: the written line is NOT one token of
`scanLineProtocolLine`. -/
theorem lpClosed_lineOf_false (F : FloatCodec) (mult : Int) (p : SPoint) (hd : LPDomain F p) (hF : FloatTextClean F p)
    (h : NL ∈ p.name ∨ (∃ kv ∈ p.tags, NL ∈ kv.1 ∨ NL ∈ kv.2) ∨ ∃ kv ∈ p.fields, NL ∈ kv.1) :
    lpClosed (lineOf F mult p) = false := by
  have hline : lineOf F mult p =
      escMeas p.name ++ ((p.tags.map tagChunk).flatMap (fun y => COMMA :: y) ++
        SP :: (joinWith COMMA (p.fields.map (fieldChunk F)) ++ (SP :: intDigits (p.time.tdiv mult) ++ []))) := by
    have hK := key_eq p.name p.tags hd.name_bs (fun kv hkv => (hd.tags kv hkv).2.2.1)
    rw [joinWith_flat] at hK
    simp only [lineOf, hK, fieldBytes, List.append_assoc, List.append_nil, List.cons_append]
    rfl
  have hst : lpStep {} SP = ⟨false, true, 0, 0⟩ := by simp [lpStep]
  have hnone : lpFinal {} (lineOf F mult p) = none := by
    rw [hline]
    by_cases n0 : NL ∈ p.name
    · exact lpf_escMeas_nl _ _ hd.name_bs n0
    · rw [lpf_escMeas_key _ _ hd.name_bs n0]
      by_cases n1 : ∃ kv ∈ p.tags, NL ∈ kv.1 ∨ NL ∈ kv.2
      · exact lpf_tags_nl _ _ (fun kv hkv => ⟨(hd.tags kv hkv).2.1, (hd.tags kv hkv).2.2.2⟩) n1
      · have n2 : ∃ kv ∈ p.fields, NL ∈ kv.1 := by
          rcases h with a | a | a
          · exact absurd a n0
          · exact absurd a n1
          · exact a
        have ht : ∀ kv ∈ p.tags, NL ∉ kv.1 ∧ NL ∉ kv.2 := by
          intro kv hkv
          exact ⟨fun a => n1 ⟨kv, hkv, Or.inl a⟩, fun a => n1 ⟨kv, hkv, Or.inr a⟩⟩
        rw [lpf_tags _ _ (fun kv hkv => ⟨(hd.tags kv hkv).2.1, (hd.tags kv hkv).2.2.2, (ht kv hkv).1, (ht kv hkv).2⟩),
            lpf_cons _ SP _ (by decide) (by simp; decide), hst]
        exact lpf_fields_nl F p.fields
          (fun kv hkv => ⟨(hd.fkeys kv hkv).2, hd.vals kv hkv, fun b hb => hF kv hkv b hb⟩) n2 0 _
  unfold lpClosed
  rw [hnone]

theorem hasNL_of_not_mem (s : Bytes) (h : NL ∉ s) : hasNL s = false := by
  simp [hasNL, h]

/-- **Converse of `frame_clean_of_point`**: on the parser's domain a point with a clean frame is not in the clause of
finding `stream-newline-framing`. -/
theorem point_not_dirty_of_frame_clean (F : FloatCodec) (mult : Int) (p : SPoint) (hdom : LPDomain F p)
    (hF : FloatTextClean F p) (hc : (frameOf F mult p).clean) : p.dirty = false := by
  obtain ⟨⟨d1, d2, _⟩, ⟨r1, r2, _⟩, ⟨l1, _, _⟩⟩ := hc
  have cr : ∀ s : Bytes, s.getLast? ≠ some CR → endsCR s = false := by
    intro s h; simp [endsCR, h]
  have hl : ¬ (NL ∈ p.name ∨ (∃ kv ∈ p.tags, NL ∈ kv.1 ∨ NL ∈ kv.2) ∨ ∃ kv ∈ p.fields, NL ∈ kv.1) := by
    intro h
    have := lpClosed_lineOf_false F mult p hdom hF h
    have l1' : lpClosed (lineOf F mult p) = true := l1
    rw [this] at l1'
    exact Bool.noConfusion l1'
  have htags : p.tags.any (fun kv => hasNL kv.1 || hasNL kv.2) = false := by
    apply List.any_eq_false.mpr
    intro kv hkv
    have a : NL ∉ kv.1 := fun a => hl (Or.inr (Or.inl ⟨kv, hkv, Or.inl a⟩))
    have b : NL ∉ kv.2 := fun b => hl (Or.inr (Or.inl ⟨kv, hkv, Or.inr b⟩))
    simp [hasNL_of_not_mem _ a, hasNL_of_not_mem _ b]
  have hfields : p.fields.any (fun kv => hasNL kv.1) = false := by
    apply List.any_eq_false.mpr
    intro kv hkv
    have a : NL ∉ kv.1 := fun a => hl (Or.inr (Or.inr ⟨kv, hkv, a⟩))
    simp [hasNL_of_not_mem _ a]
  have hname : hasNL p.name = false := hasNL_of_not_mem _ (fun a => hl (Or.inl a))
  have e1 : hasNL p.db = false := hasNL_of_not_mem _ d1
  have e2 : hasNL p.rp = false := hasNL_of_not_mem _ r1
  have e3 : endsCR p.db = false := cr _ d2
  have e4 : endsCR p.rp = false := cr _ r2
  simp only [SPoint.dirty, e1, e2, e3, e4, hname, htags, hfields, Bool.or_self]

/-- **On the parser's domain (float texts without line feed, components below the Scanner limit) the frame of a point
is clean exactly when the clause `SPoint.dirty` of finding `stream-newline-framing` does not apply.** -/
theorem frame_clean_iff_not_dirty (F : FloatCodec) (mult : Int) (p : SPoint) (hdom : LPDomain F p)
    (hF : FloatTextClean F p) (hsz : FitsScanner F mult p) : (frameOf F mult p).clean ↔ p.dirty = false :=
  ⟨point_not_dirty_of_frame_clean F mult p hdom hF, fun hd => frame_clean_of_point F mult p hdom hF hd hsz⟩

/-- Record → framing layer, at the level of points of the domain: the framing layer returns the written frames
exactly when no point is in the finding's clause. -/
theorem readFrames_record_iff (F : FloatCodec) (mult : Int) (ps : List SPoint)
    (hdom : ∀ p ∈ ps, LPDomain F p ∧ FloatTextClean F p ∧ FitsScanner F mult p) :
    readFrames maxTok (record F mult ps) = (ps.map (frameOf F mult), true) ↔ ∀ p ∈ ps, p.dirty = false := by
  unfold record
  rw [readFrames_writeFrames_iff]
  constructor
  · intro h p hp
    obtain ⟨a, b, c⟩ := hdom p hp
    exact (frame_clean_iff_not_dirty F mult p a b c).mp (h _ (List.mem_map.mpr ⟨p, hp, rfl⟩))
  · intro h f hf
    obtain ⟨p, hp, rfl⟩ := List.mem_map.mp hf
    obtain ⟨a, b, c⟩ := hdom p hp
    exact (frame_clean_iff_not_dirty F mult p a b c).mpr (h p hp)

/-- The hypothesis "no backslash in a name" (`LPDomain.name_bs`) is needed for the converse: in the measurement
`m\<LF>x` the backslash protects the line feed from `scanLineProtocolLine`, so the frame IS clean (the framing layer
returns it) although the point is in the finding's clause. -/
theorem frame_clean_but_dirty_with_backslash :
    ∃ p : SPoint, (frameOf ⟨fun _ => [], fun _ => none⟩ 1 p).clean ∧ p.dirty = true :=
  ⟨⟨[100], [114], [109, 92, 10, 120], [], [([118], .int 1)], 5⟩, by decide, by decide⟩

end Kap.C18
