/-
C18 — the line-protocol law for the MODEL's writer and parser: `parseLine (lineOf p) = p` on an explicit domain
(`LPDomain`: non-empty backslash-free names, tag values non-empty, measurement not starting with TAB/NUL/'#', field
values in `ValOK` — int64 range, floats with `FloatLaw` and `FloatPlain` —, tags and fields sorted by key).
The core is the split of a whole line at unescaped, unquoted separators (`splitUnesc`, `splitAllUnesc`).
-/
import Kap.Proofs.C18Frame
namespace Kap.C18
open List

def scanOK (stop : UInt8) (q : Bool) : Bytes → Bool → Option Bool
  | [], inq => some inq
  | [c], inq =>
    if c = BS then none else if q ∧ c = DQ then some (!inq) else if c = stop ∧ !inq then none else some inq
  | c :: d :: rest, inq =>
    if c = BS then scanOK stop q rest inq
    else if q ∧ c = DQ then scanOK stop q (d :: rest) (!inq)
    else if c = stop ∧ !inq then none
    else scanOK stop q (d :: rest) inq

/-- How `splitUnesc` / `scanOK` treat the byte `c` in quote state `inq`. -/
inductive Cls where | bs | dq | stop | plain
deriving DecidableEq

def cls (stop : UInt8) (q : Bool) (c : UInt8) (inq : Bool) : Cls :=
  if c = BS then .bs else if q ∧ c = DQ then .dq else if c = stop ∧ !inq then .stop else .plain

variable (stop : UInt8) (q : Bool)

theorem scanOK_two (c d : UInt8) (r : Bytes) (inq : Bool) :
    scanOK stop q (c :: d :: r) inq =
      match cls stop q c inq with
      | .bs => scanOK stop q r inq
      | .dq => scanOK stop q (d :: r) (!inq)
      | .stop => none
      | .plain => scanOK stop q (d :: r) inq := by
  unfold cls
  by_cases h1 : c = BS
  · simp only [scanOK, if_pos h1]
  · by_cases h2 : q = true ∧ c = DQ
    · simp only [scanOK, if_neg h1, if_pos h2]
    · by_cases h3 : c = stop ∧ (!inq) = true
      · simp only [scanOK, if_neg h1, if_neg h2, if_pos h3]
      · simp only [scanOK, if_neg h1, if_neg h2, if_neg h3]

theorem scanOK_one (c : UInt8) (inq : Bool) :
    scanOK stop q [c] inq =
      match cls stop q c inq with
      | .bs => none
      | .dq => some (!inq)
      | .stop => none
      | .plain => some inq := by
  unfold cls
  by_cases h1 : c = BS
  · simp only [scanOK, if_pos h1]
  · by_cases h2 : q = true ∧ c = DQ
    · simp only [scanOK, if_neg h1, if_pos h2]
    · by_cases h3 : c = stop ∧ (!inq) = true
      · simp only [scanOK, if_neg h1, if_neg h2, if_pos h3]
      · simp only [scanOK, if_neg h1, if_neg h2, if_neg h3]

theorem split_two (c d : UInt8) (r : Bytes) (inq : Bool) :
    splitUnesc stop q (c :: d :: r) inq =
      match cls stop q c inq with
      | .bs => (c :: d :: (splitUnesc stop q r inq).1, (splitUnesc stop q r inq).2)
      | .dq => (c :: (splitUnesc stop q (d :: r) (!inq)).1, (splitUnesc stop q (d :: r) (!inq)).2)
      | .stop => ([], some (d :: r))
      | .plain => (c :: (splitUnesc stop q (d :: r) inq).1, (splitUnesc stop q (d :: r) inq).2) := by
  unfold cls
  by_cases h1 : c = BS
  · simp only [splitUnesc, if_pos h1]
  · by_cases h2 : q = true ∧ c = DQ
    · simp only [splitUnesc, if_neg h1, if_pos h2]
    · by_cases h3 : c = stop ∧ (!inq) = true
      · simp only [splitUnesc, if_neg h1, if_neg h2, if_pos h3]
      · simp only [splitUnesc, if_neg h1, if_neg h2, if_neg h3]

theorem split_one (c : UInt8) (inq : Bool) :
    splitUnesc stop q [c] inq = if c = stop ∧ (!inq) = true then ([], some []) else ([c], none) := by
  simp [splitUnesc]


theorem cls_stop_self (hs : stop ≠ BS) (hq : ¬ (q = true ∧ stop = DQ)) : cls stop q stop false = .stop := by
  unfold cls
  simp only [if_neg hs, if_neg hq]
  simp

theorem not_stop_of_cls (c : UInt8) (inq : Bool) (hq : ¬ (q = true ∧ stop = DQ))
    (h : cls stop q c inq = .dq ∨ cls stop q c inq = .plain) : ¬ (c = stop ∧ (!inq) = true) := by
  intro hst
  unfold cls at h
  by_cases h1 : c = BS
  · simp [if_pos h1] at h
  · by_cases h2 : q = true ∧ c = DQ
    · exact hq ⟨h2.1, hst.1 ▸ h2.2⟩
    · simp only [if_neg h1, if_neg h2, if_pos hst] at h
      rcases h with h | h <;> exact Cls.noConfusion h

theorem split_at (hs : stop ≠ BS) (hq : ¬ (q = true ∧ stop = DQ)) :
    ∀ (n : Nat) (s : Bytes) (inq : Bool) (t : Bytes), s.length ≤ n → scanOK stop q s inq = some false →
      splitUnesc stop q (s ++ stop :: t) inq = (s, some t) := by
  intro n
  induction n with
  | zero =>
    intro s inq t hl h
    cases s with
    | cons _ _ => simp at hl
    | nil =>
      simp only [scanOK, Option.some.injEq] at h
      subst h
      cases t with
      | nil => simp [split_one]
      | cons d r => simp only [List.nil_append, split_two, cls_stop_self stop q hs hq]
  | succ n ih =>
    intro s inq t hl h
    rcases s with _ | ⟨c, _ | ⟨d, r⟩⟩
    · exact ih [] inq t (by simp) h
    · rw [scanOK_one] at h
      show splitUnesc stop q (c :: stop :: t) inq = _
      rw [split_two]
      cases hcl : cls stop q c inq <;> simp only [hcl] at h ⊢
      · cases h
      · have := ih [] (!inq) t (by simp) (by simpa [scanOK] using h)
        simp only [List.nil_append] at this
        rw [this]
      · cases h
      · have := ih [] inq t (by simp) (by simpa [scanOK] using h)
        simp only [List.nil_append] at this
        rw [this]
    · rw [scanOK_two] at h
      show splitUnesc stop q (c :: d :: (r ++ stop :: t)) inq = _
      rw [split_two]
      cases hcl : cls stop q c inq <;> simp only [hcl] at h ⊢
      · rw [ih r inq t (by simp at hl; omega) h]
      · have := ih (d :: r) (!inq) t (by simp at hl ⊢; omega) h
        simp only [List.cons_append] at this
        rw [this]
      · cases h
      · have := ih (d :: r) inq t (by simp at hl ⊢; omega) h
        simp only [List.cons_append] at this
        rw [this]

theorem no_split (hq : ¬ (q = true ∧ stop = DQ)) :
    ∀ (n : Nat) (s : Bytes) (inq i' : Bool), s.length ≤ n → scanOK stop q s inq = some i' →
      splitUnesc stop q s inq = (s, none) := by
  intro n
  induction n with
  | zero =>
    intro s inq i' hl h
    cases s with
    | cons _ _ => simp at hl
    | nil => simp [splitUnesc]
  | succ n ih =>
    intro s inq i' hl h
    rcases s with _ | ⟨c, _ | ⟨d, r⟩⟩
    · simp [splitUnesc]
    · rw [scanOK_one] at h
      rw [split_one]
      cases hcl : cls stop q c inq <;> simp only [hcl] at h
      · cases h
      · rw [if_neg (not_stop_of_cls stop q c inq hq (Or.inl hcl))]
      · cases h
      · rw [if_neg (not_stop_of_cls stop q c inq hq (Or.inr hcl))]
    · rw [scanOK_two] at h
      rw [split_two]
      cases hcl : cls stop q c inq <;> simp only [hcl] at h ⊢
      · rw [ih r inq i' (by simp at hl; omega) h]
      · rw [ih (d :: r) (!inq) i' (by simp at hl ⊢; omega) h]
      · cases h
      · rw [ih (d :: r) inq i' (by simp at hl ⊢; omega) h]

theorem scan_append :
    ∀ (n : Nat) (a b : Bytes) (inq i : Bool), a.length ≤ n → scanOK stop q a inq = some i →
      scanOK stop q (a ++ b) inq = scanOK stop q b i := by
  intro n
  induction n with
  | zero =>
    intro a b inq i hl h
    cases a with
    | cons _ _ => simp at hl
    | nil => simp only [scanOK, Option.some.injEq] at h; subst h; rfl
  | succ n ih =>
    intro a b inq i hl h
    rcases a with _ | ⟨c, _ | ⟨d, r⟩⟩
    · simp only [scanOK, Option.some.injEq] at h; subst h; rfl
    · rw [scanOK_one] at h
      cases b with
      | nil =>
        simp only [List.append_nil, scanOK_one]
        cases hcl : cls stop q c inq <;> simp only [hcl] at h ⊢
        · cases h
        · simp only [scanOK]; exact h
        · cases h
        · simp only [scanOK]; exact h
      | cons d r =>
        show scanOK stop q (c :: d :: r) inq = _
        rw [scanOK_two]
        cases hcl : cls stop q c inq <;> simp only [hcl] at h ⊢
        · cases h
        · rw [Option.some.inj h]
        · cases h
        · rw [Option.some.inj h]
    · rw [scanOK_two] at h
      show scanOK stop q (c :: d :: (r ++ b)) inq = _
      rw [scanOK_two]
      cases hcl : cls stop q c inq <;> simp only [hcl] at h ⊢
      · exact ih r b inq i (by simp at hl; omega) h
      · exact ih (d :: r) b (!inq) i (by simp at hl ⊢; omega) h
      · cases h
      · exact ih (d :: r) b inq i (by simp at hl ⊢; omega) h


/-! ## Pieces of the writer's output -/

theorem cls_plain (c : UInt8) (inq : Bool) (h1 : c ≠ BS) (h2 : ¬ (q = true ∧ c = DQ)) (h3 : ¬ (c = stop ∧ (!inq) = true)) :
    cls stop q c inq = .plain := by
  unfold cls; simp only [if_neg h1, if_neg h2, if_neg h3]

theorem cls_bs (inq : Bool) : cls stop q BS inq = .bs := by unfold cls; simp

theorem cls_dq (inq : Bool) : cls stop true DQ inq = .dq := by
  unfold cls
  have : ¬ DQ = BS := by decide
  simp only [if_neg this]; simp

theorem scan_cons_plain (c : UInt8) (s : Bytes) (inq : Bool) (h : cls stop q c inq = .plain) :
    scanOK stop q (c :: s) inq = scanOK stop q s inq := by
  cases s with
  | nil => rw [scanOK_one]; simp only [h, scanOK]
  | cons d r => rw [scanOK_two]; simp only [h]

theorem scan_cons_dq (c : UInt8) (s : Bytes) (inq : Bool) (h : cls stop q c inq = .dq) :
    scanOK stop q (c :: s) inq = scanOK stop q s (!inq) := by
  cases s with
  | nil => rw [scanOK_one]; simp only [h, scanOK]
  | cons d r => rw [scanOK_two]; simp only [h]

theorem scan_pair (y : UInt8) (s : Bytes) (inq : Bool) : scanOK stop q (BS :: y :: s) inq = scanOK stop q s inq := by
  rw [scanOK_two]; simp only [cls_bs]

/-- Escaping by a backslash in front of the bytes of a set. -/
def escBy (E : UInt8 → Prop) [DecidablePred E] (s : Bytes) : Bytes :=
  s.flatMap (fun c => if E c then [BS, c] else [c])

theorem scan_escBy (E : UInt8 → Prop) [DecidablePred E] (s t : Bytes) (inq : Bool)
    (h : ∀ c ∈ s, ¬ E c → cls stop q c inq = .plain) :
    scanOK stop q (escBy E s ++ t) inq = scanOK stop q t inq := by
  induction s with
  | nil => simp [escBy]
  | cons c r ih =>
    have ih' := ih (fun x hx => h x (by simp [hx]))
    have e : escBy E (c :: r) ++ t = (if E c then [BS, c] else [c]) ++ (escBy E r ++ t) := by
      simp [escBy]
    rw [e]
    by_cases hc : E c
    · simp only [if_pos hc, List.cons_append, List.nil_append, scan_pair, ih']
    · simp only [if_neg hc, List.cons_append, List.nil_append]
      rw [scan_cons_plain stop q c _ inq (h c (by simp) hc), ih']

theorem escTag_eq (s : Bytes) : escTag s = escBy (fun c => c = COMMA ∨ c = SP ∨ c = EQ) s := by
  induction s with
  | nil => simp [escTag, escBy, replaceByte]
  | cons c r ih => rw [escTag_cons, ih]; simp [escBy]

theorem escMeas_eq (s : Bytes) : escMeas s = escBy (fun c => c = COMMA ∨ c = SP) s := by
  induction s with
  | nil => simp [escMeas, escBy, replaceByte]
  | cons c r ih => rw [escMeas_cons, ih]; simp [escBy]

theorem escKey_eq (s : Bytes) : escKey s = escBy (fun c => c = COMMA ∨ c = DQ ∨ c = SP ∨ c = EQ) s := rfl

theorem escStr_eq (s : Bytes) : escStr s = escBy (fun c => c = DQ ∨ c = BS) s := rfl


theorem scan_plain_block (s t : Bytes) (inq : Bool) (h : ∀ c ∈ s, cls stop q c inq = .plain) :
    scanOK stop q (s ++ t) inq = scanOK stop q t inq := by
  induction s with
  | nil => rfl
  | cons c r ih =>
    rw [List.cons_append, scan_cons_plain stop q c _ inq (h c (by simp)), ih (fun x hx => h x (by simp [hx]))]

/-- A stop byte of the name sections. -/
def IsSep (stop : UInt8) : Prop := stop = COMMA ∨ stop = SP ∨ stop = EQ

theorem scan_escTag (s t : Bytes) (inq : Bool) (hs : IsSep stop) (hb : BS ∉ s) :
    scanOK stop false (escTag s ++ t) inq = scanOK stop false t inq := by
  rw [escTag_eq]
  apply scan_escBy
  intro c hc hE
  apply cls_plain
  · intro e; exact hb (e ▸ hc)
  · simp
  · intro ⟨e, _⟩; apply hE; rcases hs with h | h | h <;> simp [e, h]

theorem scan_escMeas (s t : Bytes) (inq : Bool) (hs : stop = COMMA ∨ stop = SP) (hb : BS ∉ s) :
    scanOK stop false (escMeas s ++ t) inq = scanOK stop false t inq := by
  rw [escMeas_eq]
  apply scan_escBy
  intro c hc hE
  apply cls_plain
  · intro e; exact hb (e ▸ hc)
  · simp
  · intro ⟨e, _⟩; apply hE; rcases hs with h | h <;> simp [e, h]

theorem scan_escKey (s t : Bytes) (inq : Bool) (hs : IsSep stop) (hb : BS ∉ s) :
    scanOK stop q (escKey s ++ t) inq = scanOK stop q t inq := by
  rw [escKey_eq]
  apply scan_escBy
  intro c hc hE
  apply cls_plain
  · intro e; exact hb (e ▸ hc)
  · intro ⟨_, e⟩; apply hE; simp [e]
  · intro ⟨e, _⟩; apply hE; rcases hs with h | h | h <;> simp [e, h]

/-- Inside a quoted string value nothing splits. -/
theorem scan_escStr (s t : Bytes) : scanOK stop true (escStr s ++ t) true = scanOK stop true t true := by
  rw [escStr_eq]
  apply scan_escBy
  intro c _ hE
  apply cls_plain
  · intro e; apply hE; simp [e]
  · intro ⟨_, e⟩; apply hE; simp [e]
  · simp

/-- The text of a float has only "plain" bytes (digits, '.', '-', 'e', '+'). -/
def FloatPlain (F : FloatCodec) (b : Nat) : Prop :=
  ∀ x ∈ F.fmt b, x ≠ BS ∧ x ≠ DQ ∧ x ≠ COMMA ∧ x ≠ SP ∧ x ≠ EQ

theorem digit_plain : ∀ k, k < 10 →
    UInt8.ofNat (48 + k) ≠ BS ∧ UInt8.ofNat (48 + k) ≠ DQ ∧ UInt8.ofNat (48 + k) ≠ COMMA ∧
    UInt8.ofNat (48 + k) ≠ SP ∧ UInt8.ofNat (48 + k) ≠ EQ := by decide

theorem intDigits_plain (v : Int) : ∀ x ∈ intDigits v, x ≠ BS ∧ x ≠ DQ ∧ x ≠ COMMA ∧ x ≠ SP ∧ x ≠ EQ := by
  intro x hx
  unfold intDigits at hx
  have hd : ∀ y ∈ natDigits v.natAbs, y ≠ BS ∧ y ≠ DQ ∧ y ≠ COMMA ∧ y ≠ SP ∧ y ≠ EQ := by
    intro y hy
    obtain ⟨k, hk, rfl⟩ := natDigitsAux_digits _ _ y hy
    exact digit_plain k hk
  by_cases hv : v < 0
  · rw [if_pos hv] at hx
    rcases List.mem_cons.mp hx with h | h
    · subst h; decide
    · exact hd x h
  · rw [if_neg hv] at hx; exact hd x hx

/-- What the domain asks of a field value. -/
def ValOK (F : FloatCodec) : FV → Prop
  | .float b => FloatLaw F b ∧ FloatPlain F b
  | .int i => -(2:Int)^63 ≤ i ∧ i < (2:Int)^63
  | _ => True

theorem plain5 (c : UInt8) (hs : stop = COMMA ∨ stop = SP)
    (h : c ≠ BS ∧ c ≠ DQ ∧ c ≠ COMMA ∧ c ≠ SP ∧ c ≠ EQ) : cls stop true c false = .plain := by
  apply cls_plain
  · exact h.1
  · intro ⟨_, e⟩; exact h.2.1 e
  · intro ⟨e, _⟩; rcases hs with h' | h' <;> simp [h'] at e <;> simp [e] at h

theorem scan_value (F : FloatCodec) (v : FV) (t : Bytes) (hs : stop = COMMA ∨ stop = SP) (hv : ValOK F v) :
    scanOK stop true (renderFV F v ++ t) false = scanOK stop true t false := by
  cases v with
  | float b =>
    apply scan_plain_block
    intro c hc
    exact plain5 stop c hs (hv.2 c hc)
  | int i =>
    apply scan_plain_block
    intro c hc
    unfold renderFV at hc
    rcases List.mem_append.mp hc with h | h
    · exact plain5 stop c hs (intDigits_plain i c h)
    · have := List.mem_singleton.mp h; subst this; exact plain5 stop _ hs (by decide)
  | str s =>
    show scanOK stop true (DQ :: (escStr s ++ [DQ]) ++ t) false = _
    rw [List.cons_append, scan_cons_dq stop true DQ _ false (cls_dq stop false), List.append_assoc]
    show scanOK stop true (escStr s ++ ([DQ] ++ t)) true = _
    rw [scan_escStr]
    show scanOK stop true (DQ :: t) true = _
    rw [scan_cons_dq stop true DQ _ true (cls_dq stop true)]
    rfl
  | bool b =>
    apply scan_plain_block
    intro c hc
    cases b
    · have hc' : c ∈ ([102, 97, 108, 115, 101] : Bytes) := hc
      apply plain5 stop c hs
      clear hc
      revert c; decide
    · have hc' : c ∈ ([116, 114, 117, 101] : Bytes) := hc
      apply plain5 stop c hs
      clear hc
      revert c; decide


/-! ## Chunks, joins and `splitAllUnesc` -/

def tagChunk (kv : Bytes × Bytes) : Bytes := escTag kv.1 ++ EQ :: escTag kv.2
def fieldChunk (F : FloatCodec) (kv : Bytes × FV) : Bytes := escKey kv.1 ++ EQ :: renderFV F kv.2

theorem scan_tagChunk (kv : Bytes × Bytes) (t : Bytes) (inq : Bool) (hs : stop = COMMA ∨ stop = SP)
    (h1 : BS ∉ kv.1) (h2 : BS ∉ kv.2) :
    scanOK stop false (tagChunk kv ++ t) inq = scanOK stop false t inq := by
  have hsep : IsSep stop := by rcases hs with h | h <;> simp [IsSep, h]
  unfold tagChunk
  rw [List.append_assoc, scan_escTag stop _ _ inq hsep h1, List.cons_append,
      scan_cons_plain stop false EQ _ inq, scan_escTag stop _ _ inq hsep h2]
  apply cls_plain
  · decide
  · simp
  · intro ⟨e, _⟩; rcases hs with h | h <;> rw [h] at e <;> revert e <;> decide

theorem scan_fieldChunk (F : FloatCodec) (kv : Bytes × FV) (t : Bytes) (hs : stop = COMMA ∨ stop = SP)
    (h1 : BS ∉ kv.1) (h2 : ValOK F kv.2) :
    scanOK stop true (fieldChunk F kv ++ t) false = scanOK stop true t false := by
  have hsep : IsSep stop := by rcases hs with h | h <;> simp [IsSep, h]
  unfold fieldChunk
  rw [List.append_assoc, scan_escKey stop true _ _ false hsep h1, List.cons_append,
      scan_cons_plain stop true EQ _ false, scan_value stop F kv.2 t hs h2]
  apply cls_plain
  · decide
  · intro ⟨_, e⟩; revert e; decide
  · intro ⟨e, _⟩; rcases hs with h | h <;> rw [h] at e <;> revert e <;> decide

theorem scan_join (sep : UInt8) (chunks : List Bytes) (t : Bytes)
    (hc : ∀ c ∈ chunks, ∀ t', scanOK stop q (c ++ t') false = scanOK stop q t' false)
    (hsep : cls stop q sep false = .plain) :
    scanOK stop q (joinWith sep chunks ++ t) false = scanOK stop q t false := by
  induction chunks with
  | nil => simp [joinWith]
  | cons x r ih =>
    cases r with
    | nil => simp only [joinWith]; exact hc x (by simp) t
    | cons y r' =>
      have ih' := ih (fun c hcm => hc c (by simp [hcm]))
      simp only [joinWith, List.append_assoc, List.cons_append]
      rw [hc x (by simp), scan_cons_plain stop q sep _ false hsep]
      exact ih'

theorem splitAll_join (hs : stop ≠ BS) (hq : ¬ (q = true ∧ stop = DQ)) (chunks : List Bytes) (hne : chunks ≠ [])
    (hc : ∀ c ∈ chunks, scanOK stop q c false = some false) :
    ∀ fuel, chunks.length ≤ fuel + 1 → splitAllUnesc stop q fuel (joinWith stop chunks) = chunks := by
  induction chunks with
  | nil => exact absurd rfl hne
  | cons x r ih =>
    intro fuel hf
    cases r with
    | nil =>
      simp only [joinWith]
      have hns := no_split stop q hq x.length x false false (Nat.le_refl _) (hc x (by simp))
      cases fuel with
      | zero => simp [splitAllUnesc]
      | succ k => simp [splitAllUnesc, hns]
    | cons y r' =>
      cases fuel with
      | zero => simp at hf
      | succ k =>
        have hsa := split_at stop q hs hq x.length x false (joinWith stop (y :: r')) (Nat.le_refl _) (hc x (by simp))
        have ih' := ih (by simp) (fun c hcm => hc c (by simp [hcm])) k (by simp at hf ⊢; omega)
        simp only [joinWith, splitAllUnesc, hsa, ih']

theorem joinWith_length (sep : UInt8) (l : List Bytes) : l.length ≤ (joinWith sep l).length + 1 := by
  induction l with
  | nil => simp
  | cons x r ih =>
    cases r with
    | nil => simp
    | cons y r' =>
      simp only [joinWith, List.length_append, List.length_cons] at ih ⊢
      omega

theorem joinWith_flat (x : Bytes) (l : List Bytes) :
    joinWith COMMA (x :: l) = x ++ l.flatMap (fun y => COMMA :: y) := by
  induction l generalizing x with
  | nil => simp [joinWith]
  | cons y r ih => simp only [joinWith, ih y, List.flatMap_cons, List.cons_append]


/-! ## The domain and the law -/

/-- The domain on which the model's parser inverts the model's writer. -/
structure LPDomain (F : FloatCodec) (p : SPoint) : Prop where
  name_ne : p.name ≠ []
  name_bs : BS ∉ p.name
  name_head : ∀ c, p.name.head? = some c → c ≠ TAB ∧ c ≠ 0 ∧ c ≠ HASH
  tags : ∀ kv ∈ p.tags, kv.1 ≠ [] ∧ BS ∉ kv.1 ∧ kv.2 ≠ [] ∧ BS ∉ kv.2
  fields_ne : p.fields ≠ []
  fkeys : ∀ kv ∈ p.fields, kv.1 ≠ [] ∧ BS ∉ kv.1
  /-- the field section must not begin with whitespace the parser skips (finding `stream-whitespace-fieldkey`) -/
  fkey_head : ∀ kv, p.fields.head? = some kv → ∀ c, kv.1.head? = some c → c ≠ TAB ∧ c ≠ 0
  vals : ∀ kv ∈ p.fields, ValOK F kv.2
  tagsSorted : sortKV p.tags = p.tags
  fieldsSorted : sortKV p.fields = p.fields

theorem mapM_map_some {α β} (f : β → Option α) (g : α → β) (l : List α) (h : ∀ x ∈ l, f (g x) = some x) :
    (l.map g).mapM f = some l := by
  induction l with
  | nil => simp
  | cons a r ih =>
    simp [List.mapM_cons, h a (by simp), ih (fun x hx => h x (by simp [hx]))]

theorem escBy_ne_nil (E : UInt8 → Prop) [DecidablePred E] (s : Bytes) (h : s ≠ []) : escBy E s ≠ [] := by
  cases s with
  | nil => exact absurd rfl h
  | cons c r => simp only [escBy, List.flatMap_cons]; by_cases hc : E c <;> simp [hc]

theorem unescMeas_id (s : Bytes) (h : BS ∉ s) : unescMeas s = s := by
  unfold unescMeas; rw [rp_noBS _ _ _ h, rp_noBS _ _ _ h]

theorem key_eq (name : Bytes) (tags : Tags) (hn : BS ∉ name) (ht : ∀ kv ∈ tags, kv.2 ≠ []) :
    keyBytes name tags = joinWith COMMA (escMeas name :: tags.map tagChunk) := by
  unfold keyBytes
  rw [unescMeas_id name hn, joinWith_flat]
  congr 1
  induction tags with
  | nil => rfl
  | cons kv r ih =>
    have hv : kv.2.isEmpty = false := by
      cases h : kv.2 with
      | nil => exact absurd h (ht kv (by simp))
      | cons _ _ => rfl
    simp only [List.flatMap_cons, List.map_cons, hv, ih (fun x hx => ht x (by simp [hx])), tagChunk]
    simp

theorem parse_tagChunk (kv : Bytes × Bytes) (h : kv.1 ≠ [] ∧ BS ∉ kv.1 ∧ kv.2 ≠ [] ∧ BS ∉ kv.2) :
    parseKV EQ false unescTag (fun v => if v.isEmpty then none else some (unescTag v)) (tagChunk kv) = some kv := by
  obtain ⟨h1, h2, h3, h4⟩ := h
  have hs : scanOK EQ false (escTag kv.1) false = some false := by
    have := scan_escTag EQ kv.1 [] false (by simp [IsSep]) h2
    simpa [scanOK] using this
  have hsplit := split_at EQ false (by decide) (by simp) _ (escTag kv.1) false (escTag kv.2) (Nat.le_refl _) hs
  have hk : (escTag kv.1).isEmpty = false := by
    have := escBy_ne_nil (fun c => c = COMMA ∨ c = SP ∨ c = EQ) kv.1 h1
    rw [← escTag_eq] at this
    cases h : escTag kv.1 with
    | nil => exact absurd h this
    | cons _ _ => rfl
  have hv : (escTag kv.2).isEmpty = false := by
    have := escBy_ne_nil (fun c => c = COMMA ∨ c = SP ∨ c = EQ) kv.2 h3
    rw [← escTag_eq] at this
    cases h : escTag kv.2 with
    | nil => exact absurd h this
    | cons _ _ => rfl
  unfold parseKV tagChunk
  rw [hsplit]
  simp [hk, hv, unescTag_escTag _ h2, unescTag_escTag _ h4]

theorem parseFV_render (F : FloatCodec) (v : FV) (h : ValOK F v) : parseFV F (renderFV F v) = some v := by
  cases v with
  | float b => exact parseFV_render_float F b h.1
  | int i => exact parseFV_render_int F i h
  | str s => exact parseFV_render_str F s
  | bool b => exact parseFV_render_bool F b

theorem parse_fieldChunk (F : FloatCodec) (kv : Bytes × FV) (h : kv.1 ≠ [] ∧ BS ∉ kv.1) (hv : ValOK F kv.2) :
    parseKV EQ false unescKey (parseFV F) (fieldChunk F kv) = some kv := by
  obtain ⟨h1, h2⟩ := h
  have hs : scanOK EQ false (escKey kv.1) false = some false := by
    have := scan_escKey EQ false kv.1 [] false (by simp [IsSep]) h2
    simpa [scanOK] using this
  have hsplit := split_at EQ false (by decide) (by simp) _ (escKey kv.1) false (renderFV F kv.2) (Nat.le_refl _) hs
  have hk : (escKey kv.1).isEmpty = false := by
    have := escBy_ne_nil (fun c => c = COMMA ∨ c = DQ ∨ c = SP ∨ c = EQ) kv.1 h1
    rw [← escKey_eq] at this
    cases h : escKey kv.1 with
    | nil => exact absurd h this
    | cons _ _ => rfl
  unfold parseKV fieldChunk
  rw [hsplit]
  simp [hk, parseFV_render F kv.2 hv, unescKey_escKey _ h2]


theorem dropWhile_head {α} (p : α → Bool) (h : α) (t : List α) (hp : p h = false) :
    (h :: t).dropWhile p = h :: t := by simp [List.dropWhile, hp]

theorem escBy_head (E : UInt8 → Prop) [DecidablePred E] (c : UInt8) (r : Bytes) :
    ∃ tl, escBy E (c :: r) = (if E c then BS else c) :: tl := by
  by_cases hc : E c
  · exact ⟨c :: escBy E r, by simp [escBy, hc]⟩
  · exact ⟨escBy E r, by simp [escBy, hc]⟩

/-- **The line-protocol law for the model's writer and parser**: on the domain, parsing the line written for a point
gives the point back (time truncated to the precision). -/
theorem parseLine_lineOf (F : FloatCodec) (mult : Int) (p : SPoint) (hd : LPDomain F p) :
    parseLine F mult (lineOf F mult p) = .point p.name p.tags p.fields (p.time.tdiv mult * mult) := by
  -- the three sections
  let K := keyBytes p.name p.tags
  let FL := fieldBytes F p.fields
  let T := intDigits (p.time.tdiv mult)
  have hK : K = joinWith COMMA (escMeas p.name :: p.tags.map tagChunk) :=
    key_eq p.name p.tags hd.name_bs (fun kv hkv => (hd.tags kv hkv).2.2.1)
  have hFL : FL = joinWith COMMA (p.fields.map (fieldChunk F)) := rfl
  have hline : lineOf F mult p = K ++ SP :: (FL ++ SP :: T) := by
    simp [lineOf, K, FL, T, List.append_assoc]
  -- scans
  have scanK : ∀ t, scanOK SP false (K ++ t) false = scanOK SP false t false := by
    intro t
    rw [hK]
    apply scan_join
    · intro c hc t'
      rcases List.mem_cons.mp hc with h | h
      · rw [h]; exact scan_escMeas SP _ _ false (Or.inr rfl) hd.name_bs
      · obtain ⟨kv, hkv, rfl⟩ := List.mem_map.mp h
        exact scan_tagChunk SP kv t' false (Or.inr rfl) (hd.tags kv hkv).2.1 (hd.tags kv hkv).2.2.2
    · apply cls_plain <;> simp <;> decide
  have chunkF : ∀ stop, (stop = COMMA ∨ stop = SP) → ∀ c ∈ p.fields.map (fieldChunk F), ∀ t',
      scanOK stop true (c ++ t') false = scanOK stop true t' false := by
    intro stop hs c hc t'
    obtain ⟨kv, hkv, rfl⟩ := List.mem_map.mp hc
    exact scan_fieldChunk stop F kv t' hs (hd.fkeys kv hkv).2 (hd.vals kv hkv)
  have scanFL : scanOK SP true FL false = some false := by
    have := scan_join SP true COMMA (p.fields.map (fieldChunk F)) [] (chunkF SP (Or.inr rfl))
      (by apply cls_plain <;> simp <;> decide)
    simpa [hFL, scanOK] using this
  -- heads
  obtain ⟨n0, nr, hname⟩ : ∃ c r, p.name = c :: r := by
    cases h : p.name with
    | nil => exact absurd h hd.name_ne
    | cons c r => exact ⟨c, r, rfl⟩
  obtain ⟨ktl, hKhead⟩ : ∃ tl, K = (if n0 = COMMA ∨ n0 = SP then BS else n0) :: tl := by
    obtain ⟨tl, htl⟩ := escBy_head (fun c => c = COMMA ∨ c = SP) n0 nr
    refine ⟨tl ++ (p.tags.map tagChunk).flatMap (fun y => COMMA :: y), ?_⟩
    rw [hK, joinWith_flat, hname, escMeas_eq, htl]; rfl
  have hh0 : ∀ c, p.name.head? = some c → c ≠ TAB ∧ c ≠ 0 ∧ c ≠ HASH := hd.name_head
  have hn0 := hh0 n0 (by rw [hname]; rfl)
  generalize hh : (if n0 = COMMA ∨ n0 = SP then BS else n0) = h0 at hKhead
  have h0ok : h0 ≠ SP ∧ h0 ≠ TAB ∧ h0 ≠ 0 ∧ h0 ≠ HASH := by
    by_cases hc : n0 = COMMA ∨ n0 = SP
    · rw [if_pos hc] at hh; subst hh; decide
    · rw [if_neg hc] at hh; subst hh
      exact ⟨fun e => hc (Or.inr e), hn0.1, hn0.2.1, hn0.2.2⟩
  have hL : lineOf F mult p = h0 :: (ktl ++ SP :: (FL ++ SP :: T)) := by rw [hline, hKhead]; rfl
  have hskip : skipWS (h0 :: (ktl ++ SP :: (FL ++ SP :: T))) = h0 :: (ktl ++ SP :: (FL ++ SP :: T)) := by
    simp [skipWS, h0ok.1, h0ok.2.1, h0ok.2.2.1]
  have hsplit1 : splitUnesc SP false (h0 :: (ktl ++ SP :: (FL ++ SP :: T))) false = (K, some (FL ++ SP :: T)) := by
    have := split_at SP false (by decide) (by simp) _ K false (FL ++ SP :: T) (Nat.le_refl _)
      (by simpa [scanOK] using scanK [])
    rw [show h0 :: (ktl ++ SP :: (FL ++ SP :: T)) = K ++ SP :: (FL ++ SP :: T) from by rw [hKhead]; rfl]
    exact this
  -- the field section starts with a byte that is not a space
  obtain ⟨kv0, fr, hfields⟩ : ∃ kv r, p.fields = kv :: r := by
    cases h : p.fields with
    | nil => exact absurd h hd.fields_ne
    | cons kv r => exact ⟨kv, r, rfl⟩
  obtain ⟨f0, ftl, hFLhead, hf0⟩ : ∃ c tl, FL = c :: tl ∧ c ≠ SP ∧ c ≠ TAB ∧ c ≠ 0 := by
    have hk0 := (hd.fkeys kv0 (by rw [hfields]; simp)).1
    obtain ⟨c, r, hk⟩ : ∃ c r, kv0.1 = c :: r := by
      cases h : kv0.1 with
      | nil => exact absurd h hk0
      | cons c r => exact ⟨c, r, rfl⟩
    obtain ⟨tl, htl⟩ := escBy_head (fun c => c = COMMA ∨ c = DQ ∨ c = SP ∨ c = EQ) c r
    refine ⟨(if c = COMMA ∨ c = DQ ∨ c = SP ∨ c = EQ then BS else c), tl ++ EQ :: renderFV F kv0.2 ++ (fr.map (fieldChunk F)).flatMap (fun y => COMMA :: y), ?_, ?_⟩
    · rw [hFL, hfields, List.map_cons, joinWith_flat, fieldChunk, hk, escKey_eq, htl]; simp
    · have hh := hd.fkey_head kv0 (by rw [hfields]; rfl) c (by rw [hk]; rfl)
      by_cases hc : c = COMMA ∨ c = DQ ∨ c = SP ∨ c = EQ
      · rw [if_pos hc]; decide
      · rw [if_neg hc]; exact ⟨fun e => hc (Or.inr (Or.inr (Or.inl e))), hh.1, hh.2⟩
  have hdrop1 : skipWS (FL ++ SP :: T) = FL ++ SP :: T := by
    rw [hFLhead]; simp [skipWS, hf0.1, hf0.2.1, hf0.2.2]
  have hsplit2 : splitUnesc SP true (FL ++ SP :: T) false = (FL, some T) :=
    split_at SP true (by decide) (by decide) _ FL false T (Nat.le_refl _) scanFL
  -- the timestamp
  have hT1 : T.dropWhile (fun x => decide (x = SP)) = T := by
    obtain ⟨d, r, hd', hne⟩ : ∃ d r, T = d :: r ∧ d ≠ SP := by
      obtain ⟨d, r, h1, _⟩ := intDigits_head (p.time.tdiv mult)
      refine ⟨d, r, h1, ?_⟩
      have hm : d ∈ intDigits (p.time.tdiv mult) := by rw [h1]; simp
      exact (intDigits_plain _ d hm).2.2.2.1
    rw [hd']; exact dropWhile_head _ _ _ (by simp [hne])
  have hT2 : (T.reverse.dropWhile (fun x => decide (x = SP))).reverse = T := by
    obtain ⟨x, hx, hdg⟩ := intDigits_last (p.time.tdiv mult)
    have hxm : x ∈ T := List.mem_of_getLast? hx
    have hxs : x ≠ SP := (intDigits_plain _ x hxm).2.2.2.1
    cases hr : T.reverse with
    | nil => simp [hr]; exact (List.reverse_eq_nil_iff.mp hr)
    | cons y r =>
      have hy : y = x := by
        have : T.getLast? = some y := by rw [← List.reverse_reverse T, hr]; simp
        rw [hx] at this; exact (Option.some.inj this).symm
      rw [dropWhile_head _ _ _ (by simp [hy, hxs]), ← hr, List.reverse_reverse]
  have hT3 : Kap.C18.parseInt? T = some (p.time.tdiv mult) := parseInt?_intDigits _
  -- splitting the key and the fields at commas
  have hpartsK : splitAllUnesc COMMA false K.length K = escMeas p.name :: p.tags.map tagChunk := by
    have hlen := joinWith_length COMMA (escMeas p.name :: p.tags.map tagChunk)
    rw [← hK] at hlen
    have := splitAll_join COMMA false (by decide) (by simp) (escMeas p.name :: p.tags.map tagChunk) (by simp)
      (by
        intro c hc
        rcases List.mem_cons.mp hc with h | h
        · rw [h]
          have := scan_escMeas COMMA p.name [] false (Or.inl rfl) hd.name_bs
          simpa [scanOK] using this
        · obtain ⟨kv, hkv, rfl⟩ := List.mem_map.mp h
          have := scan_tagChunk COMMA kv [] false (Or.inl rfl) (hd.tags kv hkv).2.1 (hd.tags kv hkv).2.2.2
          simpa [scanOK] using this) K.length hlen
    rw [← hK] at this; exact this
  have hpartsF : splitAllUnesc COMMA true FL.length FL = p.fields.map (fieldChunk F) := by
    have hlen := joinWith_length COMMA (p.fields.map (fieldChunk F))
    rw [← hFL] at hlen
    have := splitAll_join COMMA true (by decide) (by decide) (p.fields.map (fieldChunk F))
      (by rw [hfields]; simp)
      (by
        intro c hc
        have := chunkF COMMA (Or.inl rfl) c hc []
        simpa [scanOK] using this) FL.length hlen
    rw [← hFL] at this; exact this
  have hm : (escMeas p.name).isEmpty = false := by
    have := escBy_ne_nil (fun c => c = COMMA ∨ c = SP) p.name hd.name_ne
    rw [← escMeas_eq] at this
    cases h : escMeas p.name with
    | nil => exact absurd h this
    | cons _ _ => rfl
  have htags : (p.tags.map tagChunk).mapM
      (parseKV EQ false unescTag (fun v => if v.isEmpty then none else some (unescTag v))) = some p.tags :=
    mapM_map_some _ _ _ (fun kv hkv => parse_tagChunk kv (hd.tags kv hkv))
  have hflds : (p.fields.map (fieldChunk F)).mapM (parseKV EQ false unescKey (parseFV F)) = some p.fields :=
    mapM_map_some _ _ _ (fun kv hkv => parse_fieldChunk F kv (hd.fkeys kv hkv) (hd.vals kv hkv))
  have hfe : p.fields.isEmpty = false := by rw [hfields]; rfl
  have hun : unescMeas (escMeas p.name) = p.name := by
    have := unescMeas_escMeas p.name hd.name_bs
    rwa [unescMeas_id p.name hd.name_bs] at this
  rw [hL]
  unfold parseLine
  simp only [hskip, hsplit1, hdrop1, hsplit2, Option.getD_some, hT1, hT2, hT3, hpartsK, hpartsF, hm, htags, hflds,
    hfe, hun, hd.tagsSorted, hd.fieldsSorted, h0ok.2.2.2, if_false, Bool.false_eq_true]

end Kap.C18
namespace Kap.C18
open List

/-! ## The writer's line is one token for `scanLineProtocolLine` -/

theorem lpf_one (s : LPState) (c : UInt8) :
    lpFinal s [c] = if c = BS then none else if c = NL ∧ (!s.quoted) = true then none else some (lpStep s c) := by
  simp [lpFinal]

theorem lpf_two (s : LPState) (c d : UInt8) (r : Bytes) :
    lpFinal s (c :: d :: r) =
      if c = BS then lpFinal s r else if c = NL ∧ (!s.quoted) = true then none else lpFinal (lpStep s c) (d :: r) := by
  simp [lpFinal]

theorem lpf_cons (s : LPState) (c : UInt8) (t : Bytes) (h1 : c ≠ BS) (h2 : ¬ (c = NL ∧ (!s.quoted) = true)) :
    lpFinal s (c :: t) = lpFinal (lpStep s c) t := by
  cases t with
  | nil => rw [lpf_one, if_neg h1, if_neg h2]; rfl
  | cons d r => rw [lpf_two, if_neg h1, if_neg h2]

theorem lpf_pair (s : LPState) (y : UInt8) (t : Bytes) : lpFinal s (BS :: y :: t) = lpFinal s t := by
  rw [lpf_two, if_pos rfl]

/-- A byte that `scanLineProtocolLine` passes over without changing its state. -/
def Inert (s : LPState) (c : UInt8) : Prop := c ≠ BS ∧ ¬ (c = NL ∧ (!s.quoted) = true) ∧ lpStep s c = s

theorem lpf_inert (s : LPState) (c : UInt8) (t : Bytes) (h : Inert s c) : lpFinal s (c :: t) = lpFinal s t := by
  rw [lpf_cons s c t h.1 h.2.1, h.2.2]

theorem lpf_escBy (E : UInt8 → Prop) [DecidablePred E] (st : LPState) (s t : Bytes)
    (h : ∀ c ∈ s, ¬ E c → Inert st c) : lpFinal st (escBy E s ++ t) = lpFinal st t := by
  induction s with
  | nil => simp [escBy]
  | cons c r ih =>
    have ih' := ih (fun x hx => h x (by simp [hx]))
    have e : escBy E (c :: r) ++ t = (if E c then [BS, c] else [c]) ++ (escBy E r ++ t) := by simp [escBy]
    rw [e]
    by_cases hc : E c
    · simp only [if_pos hc, List.cons_append, List.nil_append, lpf_pair, ih']
    · simp only [if_neg hc, List.cons_append, List.nil_append]
      rw [lpf_inert st c _ (h c (by simp) hc), ih']

theorem lpf_block (st : LPState) (s t : Bytes) (h : ∀ c ∈ s, Inert st c) : lpFinal st (s ++ t) = lpFinal st t := by
  induction s with
  | nil => rfl
  | cons c r ih => rw [List.cons_append, lpf_inert st c _ (h c (by simp)), ih (fun x hx => h x (by simp [hx]))]

/-- In the key section (before the first unescaped space) everything but a backslash, a space and a line feed is inert. -/
theorem inert_key (c : UInt8) (h1 : c ≠ BS) (h2 : c ≠ NL) (h3 : c ≠ SP) : Inert {} c := by
  refine ⟨h1, fun h => h2 h.1, ?_⟩
  simp [lpStep, h3]

/-- In the field section, outside quotes. -/
theorem inert_field (e k : Nat) (c : UInt8) (h1 : c ≠ BS) (h2 : c ≠ NL) (h4 : c ≠ EQ) (h5 : c ≠ COMMA) (h6 : c ≠ DQ) :
    Inert ⟨false, true, e, k⟩ c := by
  refine ⟨h1, fun h => h2 h.1, ?_⟩
  simp [lpStep, h2, h4, h5, h6]

/-- Inside a quoted value: everything but a backslash and a quote. -/
theorem inert_quoted (e k : Nat) (c : UInt8) (h1 : c ≠ BS) (h6 : c ≠ DQ) : Inert ⟨true, true, e, k⟩ c := by
  refine ⟨h1, by simp, ?_⟩
  by_cases hn : c = NL
  · simp [lpStep, hn]
  · simp [lpStep, hn, h6]


theorem lpf_escTag_key (s t : Bytes) (hb : BS ∉ s) (hn : NL ∉ s) : lpFinal {} (escTag s ++ t) = lpFinal {} t := by
  rw [escTag_eq]
  apply lpf_escBy
  intro c hc hE
  exact inert_key c (fun e => hb (e ▸ hc)) (fun e => hn (e ▸ hc)) (fun e => hE (by simp [e]))

theorem lpf_escMeas_key (s t : Bytes) (hb : BS ∉ s) (hn : NL ∉ s) : lpFinal {} (escMeas s ++ t) = lpFinal {} t := by
  rw [escMeas_eq]
  apply lpf_escBy
  intro c hc hE
  exact inert_key c (fun e => hb (e ▸ hc)) (fun e => hn (e ▸ hc)) (fun e => hE (by simp [e]))

theorem lpf_tags (tags : Tags) (t : Bytes)
    (h : ∀ kv ∈ tags, BS ∉ kv.1 ∧ BS ∉ kv.2 ∧ NL ∉ kv.1 ∧ NL ∉ kv.2) :
    lpFinal {} ((tags.map tagChunk).flatMap (fun y => COMMA :: y) ++ t) = lpFinal {} t := by
  induction tags with
  | nil => rfl
  | cons kv r ih =>
    obtain ⟨h1, h2, h3, h4⟩ := h kv (by simp)
    simp only [List.map_cons, List.flatMap_cons, List.cons_append, List.append_assoc, tagChunk]
    rw [lpf_inert {} COMMA _ (inert_key COMMA (by decide) (by decide) (by decide)), lpf_escTag_key _ _ h1 h3,
        lpf_inert {} EQ _ (inert_key EQ (by decide) (by decide) (by decide)), lpf_escTag_key _ _ h2 h4]
    exact ih (fun x hx => h x (by simp [hx]))

theorem lpf_value (F : FloatCodec) (v : FV) (e : Nat) (t : Bytes) (hv : ValOK F v)
    (hnl : ∀ b, v = .float b → NL ∉ F.fmt b) :
    lpFinal ⟨false, true, e + 1, e⟩ (renderFV F v ++ t) = lpFinal ⟨false, true, e + 1, e⟩ t := by
  have plain : ∀ s : Bytes, (∀ x ∈ s, (x ≠ BS ∧ x ≠ DQ ∧ x ≠ COMMA ∧ x ≠ SP ∧ x ≠ EQ) ∧ x ≠ NL) →
      lpFinal ⟨false, true, e + 1, e⟩ (s ++ t) = lpFinal ⟨false, true, e + 1, e⟩ t := by
    intro s hs
    apply lpf_block
    intro c hc
    obtain ⟨⟨a1, a2, a3, _, a5⟩, a6⟩ := hs c hc
    exact inert_field _ _ c a1 a6 a5 a3 a2
  cases v with
  | float b => exact plain _ (fun x hx => ⟨hv.2 x hx, fun e' => hnl b rfl (e' ▸ hx)⟩)
  | int i =>
    apply plain
    intro x hx
    unfold renderFV at hx
    rcases List.mem_append.mp hx with h | h
    · exact ⟨intDigits_plain i x h, fun e' => nl_intDigits i (e' ▸ h)⟩
    · have := List.mem_singleton.mp h; subst this; decide
  | str s =>
    show lpFinal _ (DQ :: (escStr s ++ [DQ]) ++ t) = _
    rw [List.cons_append, lpf_cons _ DQ _ (by decide) (by simp; decide)]
    have d1 : DQ ≠ NL := by decide
    have d2 : DQ ≠ EQ := by decide
    have d3 : DQ ≠ COMMA := by decide
    have d4 : DQ ≠ SP := by decide
    have h1 : lpStep ⟨false, true, e + 1, e⟩ DQ = ⟨true, true, e + 1, e⟩ := by
      simp [lpStep, d1, d2, d3, d4]
    rw [h1, List.append_assoc, escStr_eq, lpf_escBy]
    · show lpFinal _ (DQ :: t) = _
      rw [lpf_cons _ DQ _ (by decide) (by simp)]
      have h2 : lpStep ⟨true, true, e + 1, e⟩ DQ = ⟨false, true, e + 1, e⟩ := by
        simp [lpStep, d1, d2, d3, d4]
      rw [h2]
    · intro c _ hE
      exact inert_quoted _ _ c (fun e' => hE (by simp [e'])) (fun e' => hE (by simp [e']))
  | bool b =>
    apply plain
    intro x hx
    cases b
    · have hx' : x ∈ ([102, 97, 108, 115, 101] : Bytes) := hx
      clear hx; revert x; decide
    · have hx' : x ∈ ([116, 114, 117, 101] : Bytes) := hx
      clear hx; revert x; decide


theorem lpf_fieldChunk (F : FloatCodec) (kv : Bytes × FV) (e : Nat) (t : Bytes)
    (hb : BS ∉ kv.1) (hn : NL ∉ kv.1) (hv : ValOK F kv.2) (hnl : ∀ b, kv.2 = .float b → NL ∉ F.fmt b) :
    lpFinal ⟨false, true, e, e⟩ (fieldChunk F kv ++ t) = lpFinal ⟨false, true, e + 1, e⟩ t := by
  unfold fieldChunk
  rw [List.append_assoc, escKey_eq, lpf_escBy]
  · rw [List.cons_append, lpf_cons _ EQ _ (by decide) (by simp; decide)]
    have d1 : EQ ≠ NL := by decide
    have d4 : EQ ≠ SP := by decide
    have h1 : lpStep ⟨false, true, e, e⟩ EQ = ⟨false, true, e + 1, e⟩ := by simp [lpStep, d1, d4]
    rw [h1]
    exact lpf_value F kv.2 e t hv hnl
  · intro c hc hE
    exact inert_field _ _ c (fun e' => hb (e' ▸ hc)) (fun e' => hn (e' ▸ hc)) (fun e' => hE (by simp [e']))
      (fun e' => hE (by simp [e'])) (fun e' => hE (by simp [e']))

theorem lpf_fields (F : FloatCodec) (fs : Fields) (hne : fs ≠ [])
    (h : ∀ kv ∈ fs, BS ∉ kv.1 ∧ NL ∉ kv.1 ∧ ValOK F kv.2 ∧ (∀ b, kv.2 = .float b → NL ∉ F.fmt b)) :
    ∀ (e : Nat) (t : Bytes), ∃ e', lpFinal ⟨false, true, e, e⟩ (joinWith COMMA (fs.map (fieldChunk F)) ++ t) =
      lpFinal ⟨false, true, e' + 1, e'⟩ t := by
  induction fs with
  | nil => exact absurd rfl hne
  | cons kv r ih =>
    intro e t
    obtain ⟨h1, h2, h3, h4⟩ := h kv (by simp)
    cases r with
    | nil =>
      exact ⟨e, by simp only [List.map_cons, List.map_nil, joinWith]; exact lpf_fieldChunk F kv e t h1 h2 h3 h4⟩
    | cons kv' r' =>
      obtain ⟨e', he'⟩ := ih (by simp) (fun x hx => h x (by simp [hx])) (e + 1) t
      refine ⟨e', ?_⟩
      simp only [List.map_cons, joinWith, List.append_assoc, List.cons_append] at he' ⊢
      rw [lpf_fieldChunk F kv e _ h1 h2 h3 h4, lpf_cons _ COMMA _ (by decide) (by simp; decide)]
      have d1 : COMMA ≠ NL := by decide
      have d2 : COMMA ≠ EQ := by decide
      have d4 : COMMA ≠ SP := by decide
      have hs : lpStep ⟨false, true, e + 1, e⟩ COMMA = ⟨false, true, e + 1, e + 1⟩ := by simp [lpStep, d1, d2, d4]
      rw [hs]
      exact he'

/-- What the point must satisfy beyond `LPDomain` so that its line is one token: no line feed in a NAME
(string field values may contain any), float texts without line feed. -/
structure LineDomain (F : FloatCodec) (p : SPoint) : Prop where
  dom : LPDomain F p
  nameNL : NL ∉ p.name
  tagsNL : ∀ kv ∈ p.tags, NL ∉ kv.1 ∧ NL ∉ kv.2
  fkeysNL : ∀ kv ∈ p.fields, NL ∉ kv.1
  floatNL : FloatTextClean F p

/-- **The line that the writer produces for a point of the domain is exactly one token of
`scanLineProtocolLine`**, whatever line feeds, quotes, commas … its string field values contain. -/
theorem lpClosed_lineOf (F : FloatCodec) (mult : Int) (p : SPoint) (h : LineDomain F p) :
    lpClosed (lineOf F mult p) = true := by
  have hd := h.dom
  have hline : lineOf F mult p =
      escMeas p.name ++ ((p.tags.map tagChunk).flatMap (fun y => COMMA :: y) ++
        SP :: (joinWith COMMA (p.fields.map (fieldChunk F)) ++ (SP :: intDigits (p.time.tdiv mult) ++ []))) := by
    have hK := key_eq p.name p.tags hd.name_bs (fun kv hkv => (hd.tags kv hkv).2.2.1)
    rw [joinWith_flat] at hK
    simp only [lineOf, hK, fieldBytes, fieldChunk, List.append_assoc, List.append_nil, List.cons_append]
    rfl
  obtain ⟨e', he'⟩ := lpf_fields F p.fields hd.fields_ne
    (fun kv hkv => ⟨(hd.fkeys kv hkv).2, h.fkeysNL kv hkv, hd.vals kv hkv, fun b hb => h.floatNL kv hkv b hb⟩) 0
    (SP :: intDigits (p.time.tdiv mult) ++ [])
  have hst : lpStep {} SP = ⟨false, true, 0, 0⟩ := by simp [lpStep]
  have htail : lpFinal ⟨false, true, e' + 1, e'⟩ (SP :: intDigits (p.time.tdiv mult) ++ []) =
      some ⟨false, true, e' + 1, e'⟩ := by
    rw [lpf_block _ _ [] ?_]
    · rfl
    · intro c hc
      rcases List.mem_cons.mp hc with hc | hc
      · subst hc; exact inert_field _ _ SP (by decide) (by decide) (by decide) (by decide) (by decide)
      · obtain ⟨a1, a2, a3, _, a5⟩ := intDigits_plain _ c hc
        exact inert_field _ _ c a1 (fun e'' => nl_intDigits _ (e'' ▸ hc)) a5 a3 a2
  unfold lpClosed
  rw [hline, lpf_escMeas_key _ _ hd.name_bs h.nameNL,
      lpf_tags _ _ (fun kv hkv => ⟨(hd.tags kv hkv).2.1, (hd.tags kv hkv).2.2.2, (h.tagsNL kv hkv).1, (h.tagsNL kv hkv).2⟩),
      lpf_cons _ SP _ (by decide) (by simp; decide), hst, he', htail]
  rfl

end Kap.C18

namespace Kap.C18
open List

/-- A point of the domain to which the clause of finding `stream-newline-framing` does not apply (no line feed in a
name, no carriage return at the end of db/rp) and whose lines fit the Scanner has a clean frame — its string field
values may contain line feeds. -/
theorem frame_clean_of_point (F : FloatCodec) (mult : Int) (p : SPoint) (hdom : LPDomain F p)
    (hF : FloatTextClean F p) (hd : p.dirty = false) (hsz : FitsScanner F mult p) : (frameOf F mult p).clean := by
  have hd' := hd
  simp only [SPoint.dirty, Bool.or_eq_false_iff] at hd'
  obtain ⟨⟨⟨⟨⟨⟨hdb, hrp⟩, hcdb⟩, hcrp⟩, hname⟩, htags⟩, hfields⟩ := hd'
  have cr : ∀ s : Bytes, endsCR s = false → s.getLast? ≠ some CR := by
    intro s h e; simp [endsCR, e] at h
  have hline : LineDomain F p := {
    dom := hdom
    nameNL := hasNL_false _ hname
    tagsNL := by
      intro kv hkv
      have := List.any_eq_false.mp htags kv hkv
      simp only [Bool.or_eq_true, not_or, Bool.not_eq_true] at this
      exact ⟨hasNL_false _ this.1, hasNL_false _ this.2⟩
    fkeysNL := by
      intro kv hkv
      have := List.any_eq_false.mp hfields kv hkv
      simp only [Bool.not_eq_true] at this
      exact hasNL_false _ this
    floatNL := hF }
  exact ⟨⟨hasNL_false _ hdb, cr _ hcdb, hsz.1⟩, ⟨hasNL_false _ hrp, cr _ hcrp, hsz.2.1⟩,
         ⟨lpClosed_lineOf F mult p hline, line_last_not_CR F mult p, hsz.2.2⟩⟩

end Kap.C18
