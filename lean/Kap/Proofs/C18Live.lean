/-
C18 — live replays (`ReplayStreamFromChan` / `ReplayBatchFromChan` fed from a channel, services/replay `replay-live`):
the deliveries satisfy the property's spec for EVERY input — nothing is recorded, so no deviation clause applies —
including batches without points, which reach `replayBatchFromChan` only on this path.
-/
import Kap.Proofs.C18FrameIff
namespace Kap.C18
open List

/-- Pointwise relation of two lists of the same length (core Lean has no `List.Forall₂`). -/
inductive Forall₂ {α β} (R : α → β → Prop) : List α → List β → Prop
  | nil : Forall₂ R [] []
  | cons {a b l1 l2} : R a b → Forall₂ R l1 l2 → Forall₂ R (a :: l1) (b :: l2)

theorem Forall₂.length_eq {α β} {R : α → β → Prop} {l1 : List α} {l2 : List β} (h : Forall₂ R l1 l2) :
    l1.length = l2.length := by
  induction h with
  | nil => rfl
  | cons _ _ ih => simp [ih]

/-- What the collector saw, from the model's result of a live batch replay. -/
def lObs (r : Replayed LOut) : LObs :=
  ⟨r.status, r.closes, r.closedAt, r.items.map (fun o => (o.b, o.hasT)), groupsOf (r.items.map (·.b))⟩

/-- Group and dimensions of every batch put on the channel. -/
def groupsOfL (bs : List LBatch) : List (Bytes × List Bytes) := groupsOf (bs.map (·.b))

/-- What one delivered batch has to do with the batch put on the channel, for a replay offset `d`. -/
structure LiveRel (rec : Bool) (d : Int) (lb : LBatch) (o : LOut) : Prop where
  name : o.b.name = lb.b.name
  byName : o.b.byName = lb.b.byName
  tags : o.b.tags = lb.b.tags
  len : o.b.points.length = lb.b.points.length
  ptags : o.b.points.map (·.tags) = lb.b.points.map (·.tags)
  pfields : o.b.points.map (·.fields) = lb.b.points.map (·.fields)
  hasT : lb.hasT = true → o.hasT = true
  times : liveOutTimes lb o.b = lb.times.map (fun t => if rec then t else t + d)

theorem wfTmax_nil (b : Batch) (h : b.points = []) : b.wfTmax = true := by simp [Batch.wfTmax, h]

/-- One step of the loop on a batch WITH points, once the offset is known: `replayOne` when the batch has a time. -/
theorem liveRel_points (rec : Bool) (d : Int) (lb : LBatch) (hne : lb.b.points ≠ []) :
    LiveRel rec d lb
      ⟨{ lb.b with
          points := if rec then lb.b.points else lb.b.points.map (fun p => { p with time := p.time + d }),
          tmax := if lb.hasT then
              (if (if rec then lb.b.tmax else lb.b.tmax + d) <
                    lastTime (if rec then lb.b.points else lb.b.points.map (fun p => { p with time := p.time + d }))
               then lastTime (if rec then lb.b.points else lb.b.points.map (fun p => { p with time := p.time + d }))
               else (if rec then lb.b.tmax else lb.b.tmax + d))
            else lastTime (if rec then lb.b.points else lb.b.points.map (fun p => { p with time := p.time + d })) },
       true,
       some (if rec then lastTime lb.b.points + d
             else lastTime (if rec then lb.b.points else lb.b.points.map (fun p => { p with time := p.time + d })))⟩ := by
  refine ⟨rfl, rfl, rfl, ?_, ?_, ?_, fun _ => rfl, ?_⟩
  · cases rec <;> simp
  · cases rec <;> simp [List.map_map, Function.comp_def]
  · cases rec <;> simp [List.map_map, Function.comp_def]
  · by_cases hT : lb.hasT = true
    · have h1 := replayOne_times rec d lb.b hne
      unfold batchTimes at h1
      simp only [liveOutTimes, LBatch.times, hT, Bool.true_and, if_true]
      simp only [replayOne] at h1
      exact h1
    · have hT' : lb.hasT = false := by simpa using hT
      cases rec <;> simp [liveOutTimes, LBatch.times, hT', List.map_map, Function.comp_def]

/-- **The loop of `replayBatchFromChan` (since the `fix:` commit), all at once**: there is ONE offset `d` — the one
already fixed by an earlier item, if any — such that every delivered batch is related to the batch put on the channel
by `LiveRel … d`. -/
theorem replayLiveGo_rel (zero : Int) (rec : Bool) : ∀ (bs : List LBatch) (diff? prev : Option Int),
    ∃ d, (∀ d', diff? = some d' → d = d') ∧ Forall₂ (LiveRel rec d) bs (replayLiveGo true zero rec diff? prev bs) := by
  intro bs
  induction bs with
  | nil => intro diff? prev; exact ⟨diff?.getD 0, by intro d' h; simp [h], by simp [replayLiveGo]; exact Forall₂.nil⟩
  | cons lb rest ih =>
    intro diff? prev
    by_cases he : lb.b.points.isEmpty = true
    · have hnil : lb.b.points = [] := by simpa using he
      by_cases hT : lb.hasT = true
      · -- an empty batch that carries a time: shifted, anchors the offset when it is the first timestamp
        let d := diff?.getD (zero - lb.b.tmax)
        obtain ⟨d1, hd, hrest⟩ := ih (some d) (some (if rec then lb.b.tmax else lb.b.tmax + d))
        have hd1 : d1 = d := hd d rfl
        subst hd1
        refine ⟨d, ?_, ?_⟩
        · intro d' h; subst h; rfl
        · have hstep : replayLiveGo true zero rec diff? prev (lb :: rest) =
              ⟨{ lb.b with tmax := if rec then lb.b.tmax else lb.b.tmax + d }, true, none⟩ ::
                replayLiveGo true zero rec (some d) (some (if rec then lb.b.tmax else lb.b.tmax + d)) rest := by
            cases rec <;> simp [replayLiveGo, he, hT, d]
          rw [hstep]
          refine Forall₂.cons ⟨rfl, rfl, rfl, rfl, rfl, rfl, fun _ => rfl, ?_⟩ hrest
          cases rec <;> simp [liveOutTimes, LBatch.times, hT, wfTmax_nil lb.b hnil, hnil]
      · -- an empty batch without a time: no timestamp at all
        have hT' : lb.hasT = false := by simpa using hT
        obtain ⟨d, hd, hrest⟩ := ih diff? prev
        refine ⟨d, hd, ?_⟩
        have hstep : replayLiveGo true zero rec diff? prev (lb :: rest) =
            ⟨{ lb.b with tmax := prev.getD 0 }, prev.isSome, none⟩ :: replayLiveGo true zero rec diff? prev rest := by
          simp [replayLiveGo, he, hT']
        rw [hstep]
        refine Forall₂.cons ⟨rfl, rfl, rfl, rfl, rfl, rfl, fun h => by simp [hT'] at h, ?_⟩ hrest
        simp [liveOutTimes, LBatch.times, hT', hnil]
    · have hne : lb.b.points ≠ [] := by simpa using he
      have he' : lb.b.points.isEmpty = false := by simpa using he
      let d := diff?.getD (zero - lb.b.firstTime)
      let pts := if rec then lb.b.points else lb.b.points.map (fun p => { p with time := p.time + d })
      let tm := if lb.hasT then
                  (if (if rec then lb.b.tmax else lb.b.tmax + d) < lastTime pts then lastTime pts
                   else (if rec then lb.b.tmax else lb.b.tmax + d))
                else lastTime pts
      have hstep : replayLiveGo true zero rec diff? prev (lb :: rest) =
          ⟨{ lb.b with points := pts, tmax := tm }, true, some (if rec then lastTime lb.b.points + d else lastTime pts)⟩ ::
            replayLiveGo true zero rec (some d) (some tm) rest := by
        simp only [replayLiveGo, he', Bool.false_eq_true, if_false, d, pts, tm]
      obtain ⟨d1, hd, hrest⟩ := ih (some d) (some tm)
      have hd1 : d1 = d := hd d rfl
      subst hd1
      refine ⟨d, ?_, ?_⟩
      · intro d' h; subst h; rfl
      · rw [hstep]
        exact Forall₂.cons (liveRel_points rec d lb hne) hrest

theorem all_zip_of_forall2 {α β γ δ} (R : α → β → Prop) (f : α → γ) (g : β → δ) (P : γ × δ → Bool)
    (hP : ∀ a b, R a b → P (f a, g b) = true) {l1 : List α} {l2 : List β} (h : Forall₂ R l1 l2) :
    ((l1.map f).zip (l2.map g)).all P = true := by
  induction h with
  | nil => simp
  | cons hab _ ih =>
    simp only [List.map_cons, List.zip_cons_cons, List.all_cons, Bool.and_eq_true]
    exact ⟨hP _ _ hab, ih⟩

theorem groups_of_rel (rec : Bool) (d : Int) {bs : List LBatch} {outs : List LOut} (h : Forall₂ (LiveRel rec d) bs outs) :
    groupsOf (outs.map (·.b)) = groupsOf (bs.map (·.b)) := by
  induction h with
  | nil => rfl
  | cons hab _ ih =>
    simp only [groupsOf, List.map_cons, List.map_map] at ih ⊢
    rw [ih, hab.name, hab.byName, hab.tags]

theorem times_of_rel (rec : Bool) (d : Int) {bs : List LBatch} {outs : List LOut} (h : Forall₂ (LiveRel rec d) bs outs) :
    (bs.zip (outs.map (·.b))).flatMap (fun pq => liveOutTimes pq.1 pq.2) =
      (bs.flatMap LBatch.times).map (fun t => if rec then t else t + d) := by
  induction h with
  | nil => rfl
  | cons hab _ ih =>
    simp only [List.map_cons, List.zip_cons_cons, List.flatMap_cons, List.map_append, ih, hab.times]

/-- The property's executable spec holds between what is put on the channel and any deliveries related to it by
`LiveRel` with one offset. -/
theorem specBatchLive_of_rel (rec : Bool) (d : Int) (bs : List LBatch) (outs : List LOut)
    (h : Forall₂ (LiveRel rec d) bs outs) :
    specBatchLive rec bs (groupsOfL bs) (lObs ⟨.ok, outs, 1, outs.length⟩) = none := by
  have hlen : outs.length = bs.length := h.length_eq.symm
  have hmap : (outs.map (fun o => (o.b, o.hasT))).map (·.1) = outs.map (·.b) := by
    simp [List.map_map, Function.comp_def]
  have c1 := all_zip_of_forall2 (LiveRel rec d) (·.b) (·.b)
    (fun pq : Batch × Batch => pq.1.name == pq.2.name && pq.1.byName == pq.2.byName && pq.1.tags == pq.2.tags)
    (by intro a b r; simp [r.name, r.byName, r.tags]) h
  have c2 := all_zip_of_forall2 (LiveRel rec d) (·.b) (·.b)
    (fun pq : Batch × Batch => pq.1.points.length == pq.2.points.length) (by intro a b r; simp [r.len]) h
  have c3 := all_zip_of_forall2 (LiveRel rec d) (·.b) (·.b)
    (fun pq : Batch × Batch => pq.1.points.map (·.tags) == pq.2.points.map (·.tags)) (by intro a b r; simp [r.ptags]) h
  have c4 := all_zip_of_forall2 (LiveRel rec d) (·.b) (·.b)
    (fun pq : Batch × Batch => pq.1.points.map (·.fields) == pq.2.points.map (·.fields)) (by intro a b r; simp [r.pfields]) h
  have c5 := all_zip_of_forall2 (LiveRel rec d) id (fun o => (o.b, o.hasT))
    (fun pq : LBatch × (Batch × Bool) => !pq.1.hasT || pq.2.2)
    (by intro a b r; cases ha : a.hasT <;> simp [id, r.hasT, ha]) h
  simp only [List.map_id] at c5
  have c6 : timesOK rec (bs.flatMap LBatch.times) ((bs.zip (outs.map (·.b))).flatMap (fun pq => liveOutTimes pq.1 pq.2)) = true := by
    rw [times_of_rel rec d h]; exact timesOK_shift' rec d _
  simp only [specBatchLive, lObs, groupsOfL, hmap, List.length_map, hlen, groups_of_rel rec d h, c1, c2, c3, c4, c5, c6]
  simp

/-- **Live batch replay is faithful — every list of batches a channel can carry**, incl. batches without points
(with or without a batch time), int fields, tagless points; both clock modes, every clock zero. -/
theorem liveBatchReplay_spec (zero : Int) (rec : Bool) (bs : List LBatch) :
    specBatchLive rec bs (groupsOfL bs) (lObs (liveBatchReplay true zero rec bs)) = none := by
  obtain ⟨d, _, h⟩ := replayLiveGo_rel zero rec bs none none
  exact specBatchLive_of_rel rec d bs _ h

/-- **Live stream replay is faithful — EVERY list of points** (any bytes in any name: line feeds, backslashes, `#`):
nothing is written or parsed between the query and the task. -/
theorem liveStreamReplay_spec (zero : Int) (rec : Bool) (ps : List SPoint) (G : List (Bytes × Bool × List Bytes)) :
    specStream rec ps G (sObs (liveStreamReplay zero rec ps) G) = none :=
  specStream_replay zero rec ps G

end Kap.C18
