/-
C18 — the recording writer against a sink that fails after `k` bytes: what the sink holds is a prefix of the recording.
-/
import Kap.Model.C18
namespace Kap.C18

theorem take_append_of_le' {a b : Bytes} {r : Nat} (h : r ≤ a.length) : (a ++ b).take r = a.take r := by
  rw [List.take_append]; simp [Nat.sub_eq_zero_of_le h]

/-- A bounded sink takes what fits: one uniform description of both branches of `Sink.write`. -/
theorem Sink.write_some (out : Bytes) (r : Nat) (b : Bytes) :
    (Sink.write ⟨out, some r⟩ b) = (⟨out ++ b.take r, some (r - b.length)⟩, min b.length r) := by
  unfold Sink.write
  by_cases h : b.length ≤ r
  · simp [h, List.take_of_length_le h, Nat.min_eq_left h]
  · have h' : r < b.length := Nat.lt_of_not_le h
    simp [h, Nat.sub_eq_zero_of_le (Nat.le_of_lt h'), Nat.min_eq_right (Nat.le_of_lt h')]

/-- `WritePointForRecording` against a bounded sink: the sink gets the first `r` bytes of the record, whether or not the
writer stopped at an error in between (once a write was short the room is 0 and nothing else would have fitted). -/
theorem writePoint_some (out : Bytes) (r : Nat) (f : Frame) :
    (writePoint ⟨out, some r⟩ f).1 = ⟨out ++ f.bytes.take r, some (r - f.bytes.length)⟩ := by
  have hb : f.bytes = (f.db ++ NL :: f.rp ++ [NL]) ++ (f.line ++ [NL]) := by simp [Frame.bytes]
  generalize hc : (f.db ++ NL :: f.rp ++ [NL]) = c1 at hb
  unfold writePoint
  simp only [hc, Sink.write_some]
  by_cases h1 : c1.length ≤ r
  · simp only [Nat.min_eq_left h1, Nat.lt_irrefl, ↓reduceIte, List.take_of_length_le h1]
    by_cases h2 : f.line.length ≤ r - c1.length
    · simp only [Nat.min_eq_left h2, Nat.lt_irrefl, ↓reduceIte, List.take_of_length_le h2]
      rw [hb, List.take_append, List.take_of_length_le h1, List.take_append, List.take_of_length_le h2]
      simp only [List.length_append, List.length_cons, List.length_nil, List.append_assoc]
      congr 2; omega
    · have h2' : r - c1.length < f.line.length := Nat.lt_of_not_le h2
      simp only [Nat.min_eq_right (Nat.le_of_lt h2'), h2', ↓reduceIte]
      rw [hb, List.take_append, List.take_of_length_le h1, take_append_of_le' (Nat.le_of_lt h2')]
      simp only [List.length_append, List.length_cons, List.length_nil, List.append_assoc]
      congr 2; omega
  · have h1' : r < c1.length := Nat.lt_of_not_le h1
    simp only [Nat.min_eq_right (Nat.le_of_lt h1'), h1', ↓reduceIte]
    rw [hb, take_append_of_le' (Nat.le_of_lt h1')]
    simp only [List.length_append]
    congr 2; omega

/-- `doRecordStream` (errors ignored) against a sink with room for `r` more bytes: the sink ends up with the first `r`
bytes of the recording. -/
theorem recordInto_some : ∀ (fs : List Frame) (out : Bytes) (r : Nat),
    (recordInto ⟨out, some r⟩ fs).out = out ++ (writeFrames fs).take r
  | [], out, r => by simp [recordInto, writeFrames]
  | f :: fs, out, r => by
    have ih := recordInto_some fs (out ++ f.bytes.take r) (r - f.bytes.length)
    unfold recordInto at ih ⊢
    simp only [List.foldl_cons, writePoint_some]
    rw [ih]
    simp only [writeFrames, List.flatMap_cons, List.take_append, List.append_assoc]

end Kap.C18
