/-
C19 — helper lemmas for the echo-identity theorems: typed maps, the assembly automaton, interleavings.
Core Lean only.
-/
import Kap.Spec.C19
namespace Kap.C19

def keys {α : Type} (m : GoMap α) : List Str := m.map (·.1)

/-! ### Go map assignment on fresh keys -/

theorem mapSet_fresh {α : Type} (m : GoMap α) (k : Str) (v : α) (h : k ∉ keys m) : mapSet m k v = m ++ [(k, v)] := by
  have : m.any (fun e => e.1 == k) = false := by
    rw [List.any_eq_false]
    intro e he hk
    exact h (by simp only [keys, List.mem_map]; exact ⟨e, he, by simpa using hk⟩)
  simp [mapSet, this]

theorem foldl_mapSet_fresh {β : Type} (wrap : β → FV) : ∀ (l : GoMap β) (m : Fields),
    (keys (m ++ l.map (fun e => (e.1, wrap e.2)))).Nodup →
    l.foldl (fun m e => mapSet m e.1 (wrap e.2)) m = m ++ l.map (fun e => (e.1, wrap e.2))
  | [], m, _ => by simp
  | e :: l, m, h => by
    have hk : e.1 ∉ keys m := by
      simp only [keys, List.map_append, List.map_cons, List.nodup_append, List.nodup_cons] at h
      intro hmem
      exact h.2.2 e.1 (by simpa [keys] using hmem) e.1 (by simp) rfl
    simp only [List.foldl_cons, mapSet_fresh m e.1 (wrap e.2) hk]
    rw [foldl_mapSet_fresh wrap l (m ++ [(e.1, wrap e.2)]) (by simpa [List.append_assoc] using h)]
    simp [List.append_assoc]

/-! ### typed maps: split and merge -/

/-- The four typed maps, merged back in the order of `typeMapsToFields`. -/
def rebuilt (f : Fields) : Fields :=
  (strsOf f).map (fun e => (e.1, FV.str e.2)) ++ ((intsOf f).map (fun e => (e.1, FV.int e.2)) ++
    ((floatsOf f).map (fun e => (e.1, FV.float e.2)) ++ (boolsOf f).map (fun e => (e.1, FV.bool e.2))))

theorem perm4 {α : Type} (a : α) (S I F B l : List α) (h : (S ++ (I ++ (F ++ B))).Perm l) :
    (S ++ (a :: (I ++ (F ++ B)))).Perm (a :: l) ∧ (S ++ (I ++ (a :: (F ++ B)))).Perm (a :: l) ∧
    (S ++ (I ++ (F ++ (a :: B)))).Perm (a :: l) := by
  refine ⟨List.perm_middle.trans (List.Perm.cons _ h), ?_, ?_⟩
  · have := (List.perm_middle (a := a) (l₁ := S ++ I) (l₂ := F ++ B)).trans (List.Perm.cons _ (by simpa [List.append_assoc] using h))
    simpa [List.append_assoc] using this
  · have := (List.perm_middle (a := a) (l₁ := S ++ (I ++ F)) (l₂ := B)).trans (List.Perm.cons _ (by simpa [List.append_assoc] using h))
    simpa [List.append_assoc] using this

theorem rebuilt_perm : ∀ (f : Fields), (rebuilt f).Perm f
  | [] => by simp [rebuilt, strsOf, intsOf, floatsOf, boolsOf]
  | (k, v) :: f => by
    have ih := rebuilt_perm f
    unfold rebuilt at ih ⊢
    cases v with
    | str s =>
      simp only [strsOf, intsOf, floatsOf, boolsOf, List.filterMap_cons, List.map_cons, List.cons_append] at ih ⊢
      exact List.Perm.cons _ ih
    | int i =>
      simp only [strsOf, intsOf, floatsOf, boolsOf, List.filterMap_cons, List.map_cons, List.cons_append] at ih ⊢
      exact (perm4 _ _ _ _ _ _ ih).1
    | float x =>
      simp only [strsOf, intsOf, floatsOf, boolsOf, List.filterMap_cons, List.map_cons, List.cons_append] at ih ⊢
      exact (perm4 _ _ _ _ _ _ ih).2.1
    | bool b =>
      simp only [strsOf, intsOf, floatsOf, boolsOf, List.filterMap_cons, List.map_cons, List.cons_append] at ih ⊢
      exact (perm4 _ _ _ _ _ _ ih).2.2

/-- What comes back for the fields `f` that were sent. -/
def rtFields (f : Fields) : Fields := typeMapsToFields (strsOf f) (floatsOf f) (intsOf f) (boolsOf f)

theorem rtFields_eq_rebuilt (f : Fields) (hnd : (keys f).Nodup) : rtFields f = rebuilt f := by
  have hk : (keys (rebuilt f)).Nodup :=
    (List.Perm.map (fun e : Str × FV => e.1) (rebuilt_perm f)).nodup_iff.mpr hnd
  unfold rebuilt at hk ⊢
  have sub {a b : List Str} : (a ++ b).Nodup → a.Nodup := fun h => (List.nodup_append.mp h).1
  simp only [keys, List.map_append] at hk
  have e1 := foldl_mapSet_fresh FV.str (strsOf f) [] (by
    simp only [keys, List.nil_append]; exact sub hk)
  have e2 := foldl_mapSet_fresh FV.int (intsOf f) ([] ++ (strsOf f).map (fun e => (e.1, FV.str e.2))) (by
    simp only [keys, List.nil_append, List.map_append]
    rw [← List.append_assoc] at hk; exact sub hk)
  have e3 := foldl_mapSet_fresh FV.float (floatsOf f)
    ([] ++ (strsOf f).map (fun e => (e.1, FV.str e.2)) ++ (intsOf f).map (fun e => (e.1, FV.int e.2))) (by
    simp only [keys, List.nil_append, List.map_append]
    rw [← List.append_assoc, ← List.append_assoc] at hk; exact sub hk)
  have e4 := foldl_mapSet_fresh FV.bool (boolsOf f)
    ([] ++ (strsOf f).map (fun e => (e.1, FV.str e.2)) ++ (intsOf f).map (fun e => (e.1, FV.int e.2)) ++
      (floatsOf f).map (fun e => (e.1, FV.float e.2))) (by
    simp only [keys, List.nil_append, List.map_append]
    rw [← List.append_assoc, ← List.append_assoc] at hk; exact hk)
  simp only [rtFields, typeMapsToFields]
  rw [e1, e2, e3, e4]
  simp [List.append_assoc]

theorem rtFields_perm (f : Fields) (hnd : (keys f).Nodup) : (rtFields f).Perm f := by
  rw [rtFields_eq_rebuilt f hnd]; exact rebuilt_perm f

/-! ### the spec's map comparison -/

theorem sameMap_of_perm {α : Type} [DecidableEq α] {a b : GoMap α} (h : a.Perm b) : sameMap a b = true := by
  simp only [sameMap, Bool.and_eq_true, beq_iff_eq, List.all_eq_true, List.contains_iff_mem]
  exact ⟨⟨h.length_eq, fun e he => h.mem_iff.mp he⟩, fun e he => h.mem_iff.mpr he⟩

theorem sameMap_refl {α : Type} [DecidableEq α] (a : GoMap α) : sameMap a a = true := sameMap_of_perm (List.Perm.refl a)

/-! ### well-formed inputs, what is expected back -/

/-- A point as `edge.NewPointMessage` and its setters keep it (the group ID is derived), with Go-map fields. -/
def Point.WF (p : Point) : Prop := (keys p.fields).Nodup ∧ p.group = toGroupID p.name p.tags p.byName p.dims
def BP.WF (bp : BP) : Prop := (keys bp.fields).Nodup
/-- A batch header as `edge.NewBeginBatchMessage` / `SetTags` keep it: dimensions = sorted tag keys. -/
def Begin.WF (b : Begin) : Prop := b.dims = sortedKeys b.tags ∧ b.group = toGroupID b.name b.tags b.byName b.dims

instance : DecidablePred BP.WF := fun bp => inferInstanceAs (Decidable ((keys bp.fields).Nodup))

/-- One unit of input: a stream point, or a batch sent buffered or as begin / points / end. -/
inductive Item where
  | pt (p : Point)
  | batch (buffered : Bool) (b : Begin) (pts : List BP)
deriving Repr, Inhabited

def Item.WF : Item → Prop
  | .pt p => p.WF
  | .batch _ b pts => b.WF ∧ ∀ bp ∈ pts, bp.WF

def Item.msgs : Item → List EdgeMsg
  | .pt p => [.point p]
  | .batch true b pts => [.buffered b pts]
  | .batch false b pts => .begin b :: (pts.map .bp ++ [.endB])

def Item.data : Item → Data
  | .pt p => .point p
  | .batch _ b pts => .batch b pts

def Item.reqs : Item → List Request
  | .pt p => [writePoint p]
  | .batch _ b pts => writeBegin b :: (pts.map (writeBatchPoint b.group) ++ [writeEnd b])

def rtBP (bp : BP) : BP := { bp with fields := rtFields bp.fields }
def rtPoint (p : Point) : Point := newPoint p.name p.db p.rp p.byName p.dims (rtFields p.fields) p.tags p.time

/-- What the model hands out for an item. -/
def Item.out : Item → EdgeMsg
  | .pt p => .point (rtPoint p)
  | .batch _ b pts => .buffered (newBegin b.name b.tags b.byName b.tmax pts.length) (pts.map rtBP)

def edgeData : EdgeMsg → Option Data
  | .point p => some (.point p)
  | .buffered b pts => some (.batch b pts)
  | _ => none

theorem samePoint_rt (p : Point) (h : p.WF) : samePoint p (rtPoint p) = true := by
  have hf := sameMap_of_perm (rtFields_perm p.fields h.1).symm
  simp [samePoint, rtPoint, newPoint, sameMap_refl, hf, ← h.2]

theorem sameBP_rt (bp : BP) (h : bp.WF) : sameBP bp (rtBP bp) = true := by
  have hf := sameMap_of_perm (rtFields_perm bp.fields h).symm
  simp [sameBP, rtBP, sameMap_refl, hf]

theorem sameBPs_rt : ∀ (pts : List BP), (∀ bp ∈ pts, bp.WF) → ((pts.zip (pts.map rtBP)).all (fun p => sameBP p.1 p.2)) = true
  | [], _ => by simp
  | bp :: pts, h => by
    simp only [List.map_cons, List.zip_cons_cons, List.all_cons, Bool.and_eq_true]
    exact ⟨sameBP_rt bp (h bp (by simp)), sameBPs_rt pts (fun q hq => h q (by simp [hq]))⟩

theorem sameData_out (it : Item) (h : it.WF) : (edgeData it.out).map (sameData it.data) = some true := by
  cases it with
  | pt p => simp [Item.out, edgeData, Item.data, sameData, samePoint_rt p h]
  | batch bf b pts =>
    obtain ⟨⟨hd, hg⟩, hp⟩ := h
    simp only [Item.out, edgeData, Item.data, sameData, Option.map_some, Option.some.injEq]
    simp [sameBatch, newBegin, sameMap_refl, sameBPs_rt pts hp, ← hd, ← hg]

/-! ### the recorded deviations -/

/-- Well-formedness WITHOUT the batch-header clause (what `echo_identity_up_to_dims` needs). -/
def Item.WF0 : Item → Prop
  | .pt p => p.WF
  | .batch _ _ pts => ∀ bp ∈ pts, bp.WF

theorem Item.WF.wf0 {it : Item} (h : it.WF) : it.WF0 := by
  cases it with
  | pt p => exact h
  | batch bf b pts => exact h.2

theorem sameData_out_dev (it : Item) (h : it.WF0) : (edgeData it.out).map (sameData (devDimsOut it.data)) = some true := by
  cases it with
  | pt p => simp [Item.out, edgeData, Item.data, devDimsOut, sameData, samePoint_rt p h]
  | batch bf b pts =>
    simp only [Item.out, edgeData, Item.data, devDimsOut, sameData, Option.map_some, Option.some.injEq]
    simp [sameBatch, newBegin, sameMap_refl, sameBPs_rt pts h]

theorem echoIdentityUpToDims_items : ∀ (items : List Item), (∀ it ∈ items, it.WF0) →
    echoIdentityUpToDims (items.map Item.data) ((items.map Item.out).filterMap edgeData) = true
  | [], _ => by simp [echoIdentityUpToDims, echoIdentity]
  | it :: items, h => by
    have ih := echoIdentityUpToDims_items items (fun i hi => h i (by simp [hi]))
    have h1 := sameData_out_dev it (h it (by simp))
    cases ho : edgeData it.out with
    | none => simp [ho] at h1
    | some d =>
      simp only [ho, Option.map_some, Option.some.injEq] at h1
      simp only [echoIdentityUpToDims, echoIdentity, Bool.and_eq_true, beq_iff_eq] at ih ⊢
      simp only [List.map_cons, List.filterMap_cons, ho, List.length_cons, List.zip_cons_cons, List.all_cons, Bool.and_eq_true]
      exact ⟨by omega, h1, ih.2⟩

theorem devDimsOut_of_wf (it : Item) (h : it.WF) : devDimsOut it.data = it.data := by
  cases it with
  | pt p => rfl
  | batch bf b pts =>
    obtain ⟨⟨hd, hg⟩, _⟩ := h
    simp only [Item.data, devDimsOut]
    cases b
    simp_all

/-! ### strings on the wire come from the message -/

theorem mem_fieldStrings_key {f : Fields} {k : Str} {v : FV} (h : (k, v) ∈ f) : k ∈ fieldStrings f := by
  simp only [fieldStrings, List.mem_flatMap]
  exact ⟨(k, v), h, by cases v <;> simp⟩

theorem mem_fieldStrings_str {f : Fields} {k s : Str} (h : (k, FV.str s) ∈ f) : s ∈ fieldStrings f := by
  simp only [fieldStrings, List.mem_flatMap]
  exact ⟨(k, .str s), h, by simp⟩

theorem typed_strings_sub (f : Fields) (s : Str)
    (h : s ∈ mapStrings (floatsOf f) ++ mapStrings (intsOf f) ++ (strsOf f).flatMap (fun e => [e.1, e.2]) ++ mapStrings (boolsOf f)) :
    s ∈ fieldStrings f := by
  simp only [List.mem_append, mapStrings, List.mem_map, List.mem_flatMap, floatsOf, intsOf, strsOf, boolsOf, List.mem_filterMap] at h
  rcases h with ((⟨e, ⟨⟨k, v⟩, hm, he⟩, rfl⟩ | ⟨e, ⟨⟨k, v⟩, hm, he⟩, rfl⟩) | ⟨e, ⟨⟨k, v⟩, hm, he⟩, hs⟩) | ⟨e, ⟨⟨k, v⟩, hm, he⟩, rfl⟩
  all_goals cases v <;> simp at he
  · obtain ⟨rfl⟩ := he; exact mem_fieldStrings_key hm
  · obtain ⟨rfl⟩ := he; exact mem_fieldStrings_key hm
  · obtain ⟨rfl⟩ := he
    simp at hs
    rcases hs with rfl | rfl
    · exact mem_fieldStrings_key hm
    · exact mem_fieldStrings_str hm
  · obtain ⟨rfl⟩ := he; exact mem_fieldStrings_key hm

theorem mem_strings_batch_head {b : Begin} {pts : List BP} {s : Str} (h : s ∈ [b.name, b.group] ++ tagStrings b.tags) :
    s ∈ (Data.batch b pts).strings := by
  simp only [Data.strings, List.append_assoc, List.mem_append] at h ⊢
  rcases h with h | h
  · exact Or.inl h
  · exact Or.inr (Or.inl h)

theorem mem_strings_batch_bp {b : Begin} {pts : List BP} {bp : BP} {s : Str} (hbp : bp ∈ pts)
    (h : s ∈ tagStrings bp.tags ++ fieldStrings bp.fields) : s ∈ (Data.batch b pts).strings := by
  simp only [Data.strings, List.append_assoc, List.mem_append]
  exact Or.inr (Or.inr (List.mem_flatMap.mpr ⟨bp, hbp, h⟩))

/-- Every string of every request written for an item is empty or a string of the item. -/
theorem reqs_strings_sub (it : Item) : ∀ r ∈ it.reqs, ∀ s ∈ r.strings, s = [] ∨ s ∈ it.data.strings := by
  intro r hr s hs
  cases it with
  | pt p =>
    right
    simp only [Item.reqs, List.mem_singleton] at hr
    subst hr
    simp only [writePoint, Request.strings, PBPoint.strings, List.append_assoc, List.mem_append] at hs
    simp only [Item.data, Data.strings, tagStrings, List.append_assoc, List.mem_append]
    rcases hs with h | h | h | h
    · exact Or.inl h
    · exact Or.inr (Or.inl h)
    · exact Or.inr (Or.inr (Or.inl h))
    · refine Or.inr (Or.inr (Or.inr (typed_strings_sub p.fields s ?_)))
      simpa only [List.append_assoc, List.mem_append] using h
  | batch bf b pts =>
    simp only [Item.reqs, List.mem_cons, List.mem_append, List.mem_map, List.not_mem_nil, or_false] at hr
    simp only [Item.data]
    rcases hr with rfl | ⟨bp, hbp, rfl⟩ | rfl
    · exact Or.inr (mem_strings_batch_head (by simpa [writeBegin, Request.strings, tagStrings] using hs))
    · simp only [writeBatchPoint, Request.strings, PBPoint.strings, List.append_assoc, List.mem_append] at hs
      rcases hs with h | h | h | h
      · simp only [List.mem_cons, List.not_mem_nil, or_false] at h
        rcases h with rfl | rfl | rfl | rfl
        · exact Or.inl rfl
        · exact Or.inl rfl
        · exact Or.inl rfl
        · exact Or.inr (mem_strings_batch_head (by simp))
      · simp at h
      · exact Or.inr (mem_strings_batch_bp hbp (List.mem_append.mpr (Or.inl h)))
      · refine Or.inr (mem_strings_batch_bp hbp (List.mem_append.mpr (Or.inr (typed_strings_sub bp.fields s ?_))))
        simpa only [List.append_assoc, List.mem_append] using h
    · exact Or.inr (mem_strings_batch_head (by simpa [writeEnd, Request.strings, tagStrings] using hs))

theorem marshalOK_of_valid (it : Item) (h : devUtf8 it.data = false) : ∀ r ∈ it.reqs, marshalOK r = true := by
  intro r hr
  simp only [marshalOK, List.all_eq_true]
  intro s hs
  rcases reqs_strings_sub it r hr s hs with rfl | hmem
  · rfl
  · simp only [devUtf8, List.any_eq_false] at h
    simpa using h s hmem

/-! ### the writing side -/

theorem serverWriteAll_append : ∀ (xs ys : List EdgeMsg) (st : Option Begin),
    serverWriteAll st (xs ++ ys) =
      match serverWriteAll st xs with
      | none => none
      | some (st', rs) =>
        match serverWriteAll st' ys with
        | none => none
        | some (st'', rs') => some (st'', rs ++ rs')
  | [], ys, st => by
    simp only [List.nil_append, serverWriteAll]
    cases serverWriteAll st ys with
    | none => rfl
    | some r => simp
  | x :: xs, ys, st => by
    simp only [List.cons_append, serverWriteAll]
    cases serverWrite st x with
    | none => rfl
    | some r =>
      obtain ⟨st', rs⟩ := r
      simp only [serverWriteAll_append xs ys st']
      cases serverWriteAll st' xs with
      | none => rfl
      | some r2 =>
        obtain ⟨st2, rs2⟩ := r2
        simp only
        cases serverWriteAll st2 ys with
        | none => rfl
        | some r3 => simp [List.append_assoc]

theorem serverWriteAll_bps (b : Begin) : ∀ (pts : List BP),
    serverWriteAll (some b) (pts.map .bp) = some (some b, pts.map (writeBatchPoint b.group))
  | [] => rfl
  | bp :: pts => by simp [serverWriteAll, serverWrite, serverWriteAll_bps b pts]

theorem serverWriteAll_item (st : Option Begin) (it : Item) :
    ∃ st', serverWriteAll st it.msgs = some (st', it.reqs) := by
  cases it with
  | pt p => exact ⟨st, by simp [Item.msgs, Item.reqs, serverWriteAll, serverWrite]⟩
  | batch bf b pts =>
    cases bf with
    | true => exact ⟨st, by simp [Item.msgs, Item.reqs, serverWriteAll, serverWrite]⟩
    | false =>
      refine ⟨some b, ?_⟩
      simp only [Item.msgs, Item.reqs, serverWriteAll, serverWrite]
      rw [serverWriteAll_append, serverWriteAll_bps]
      simp [serverWriteAll, serverWrite]

theorem serverWriteAll_items : ∀ (items : List Item) (st : Option Begin),
    ∃ st', serverWriteAll st (items.flatMap Item.msgs) = some (st', items.flatMap Item.reqs)
  | [], st => ⟨st, rfl⟩
  | it :: items, st => by
    obtain ⟨st1, h1⟩ := serverWriteAll_item st it
    obtain ⟨st2, h2⟩ := serverWriteAll_items items st1
    exact ⟨st2, by simp [List.flatMap_cons, serverWriteAll_append, h1, h2]⟩

/-! ### the peer -/

def Request.isData : Request → Bool
  | .begin _ | .point _ | .endB _ => true
  | _ => false

def echoOf : Request → List Response
  | .begin b => [.begin b]
  | .point p => [.point p]
  | .endB e => [.endB e]
  | _ => []

/-- Management responses (never an `ErrorResponse`): they leave the assembly state alone. -/
def Response.isCtl : Response → Bool
  | .info _ _ | .init _ | .keepalive _ | .snapshot _ | .restore _ => true
  | _ => false

theorem agentRun_echoed : ∀ (h : Peer) (reqs : List Request), (agentRun h reqs).2.2 = reqs.flatMap echoOf
  | _, [] => rfl
  | h, r :: rs => by
    cases r <;> simp [agentRun, agentStep, echoOf, agentRun_echoed _ rs]

theorem agentRun_direct_ctl : ∀ (h : Peer) (reqs : List Request), ∀ r ∈ (agentRun h reqs).2.1, r.isCtl = true
  | _, [], r, hr => by simp [agentRun] at hr
  | h, q :: qs, r, hr => by
    cases q <;> simp only [agentRun, agentStep, List.cons_append, List.nil_append, List.mem_cons] at hr <;>
      first
      | exact agentRun_direct_ctl _ qs r hr
      | (rcases hr with rfl | hr
         · rfl
         · exact agentRun_direct_ctl _ qs r hr)

theorem agentStep_data (h : Peer) (r : Request) (hr : r.isData = true) : agentStep h r = (h, [], echoOf r) := by
  cases r <;> simp_all [Request.isData, agentStep, echoOf]

theorem agentStep_ctl (h : Peer) (r : Request) (hr : r.isData = false) : (agentStep h r).2.2 = [] ∧ echoOf r = [] := by
  cases r <;> simp_all [Request.isData, agentStep, echoOf]

/-- Data requests do not touch the peer's management state: the management responses of an interleaved request
stream are those of its management requests alone. -/
theorem agentRun_direct_interleave {ds cs rs : List Request} (hi : Interleave ds cs rs)
    (hd : ∀ r ∈ ds, r.isData = true) : ∀ (h : Peer), (agentRun h rs).2.1 = (agentRun h cs).2.1 ∧ (agentRun h rs).1 = (agentRun h cs).1 := by
  induction hi with
  | nil => intro h; exact ⟨rfl, rfl⟩
  | @left x xs ys zs _ ih =>
    intro h
    have hx := agentStep_data h x (hd x (by simp))
    have := ih (fun r hr => hd r (by simp [hr])) h
    simp only [agentRun, hx, List.nil_append]
    exact this
  | @right y xs ys zs _ ih =>
    intro h
    have := ih hd (agentStep h y).1
    simp only [agentRun]
    exact ⟨by rw [this.1], this.2⟩

theorem flatMap_echo_interleave {ds cs rs : List Request} (hi : Interleave ds cs rs)
    (hc : ∀ r ∈ cs, r.isData = false) : rs.flatMap echoOf = ds.flatMap echoOf := by
  induction hi with
  | nil => rfl
  | left _ ih => simp [List.flatMap_cons, ih hc]
  | @right y xs ys zs _ ih =>
    have := (agentStep_ctl {} y (hc y (by simp))).2
    simp [List.flatMap_cons, this, ih (fun r hr => hc r (by simp [hr]))]

/-! ### the reading side -/

theorem handleAll_append : ∀ (xs ys : List Response) (st : RState),
    handleAll st (xs ++ ys) =
      match handleAll st xs with
      | none => none
      | some (st', os) =>
        match handleAll st' ys with
        | none => none
        | some (st'', os') => some (st'', os ++ os')
  | [], ys, st => by
    simp only [List.nil_append, handleAll]
    cases handleAll st ys with
    | none => rfl
    | some r => simp
  | x :: xs, ys, st => by
    simp only [List.cons_append, handleAll]
    cases handleResponse st x with
    | none => rfl
    | some r =>
      obtain ⟨st', o⟩ := r
      simp only [handleAll_append xs ys st']
      cases handleAll st' xs with
      | none => rfl
      | some r2 =>
        obtain ⟨st2, os2⟩ := r2
        simp only
        cases handleAll st2 ys with
        | none => rfl
        | some r3 => simp [List.append_assoc]

/-- The control outputs a management response produces. -/
def ctlOutOf : Response → List Out
  | .info w p => [.info w p]
  | .init ok => [.init ok]
  | .snapshot b => [.snapshot b]
  | .restore ok => [.restore ok]
  | _ => []

def ctlOuts (os : List Out) : List Out := os.filter (fun o => match o with | .msg _ => false | _ => true)

theorem handleResponse_ctl (st : RState) (r : Response) (hr : r.isCtl = true) :
    handleResponse st r = some (st, ctlOutOf r) := by
  cases r <;> simp_all [Response.isCtl, handleResponse, ctlOutOf]

theorem ctlOutOf_ctl (r : Response) : ctlOuts (ctlOutOf r) = ctlOutOf r ∧ dataOuts (ctlOutOf r) = [] := by
  cases r <;> simp [ctlOutOf, ctlOuts, dataOuts]

theorem dataOuts_append (a b : List Out) : dataOuts (a ++ b) = dataOuts a ++ dataOuts b := by simp [dataOuts]
theorem ctlOuts_append (a b : List Out) : ctlOuts (a ++ b) = ctlOuts a ++ ctlOuts b := by simp [ctlOuts]

/-- Management responses interleaved anywhere into a response stream change neither the assembly state nor the
data handed out; they come out in their own order. -/
theorem handleAll_interleave {xs ys zs : List Response} (hi : Interleave xs ys zs)
    (hy : ∀ r ∈ ys, r.isCtl = true) : ∀ (st st' : RState) (os : List Out),
    handleAll st xs = some (st', os) → ctlOuts os = [] →
    ∃ os', handleAll st zs = some (st', os') ∧ dataOuts os' = dataOuts os ∧ ctlOuts os' = ys.flatMap ctlOutOf := by
  induction hi with
  | nil =>
    intro st st' os h hc
    exact ⟨os, h, rfl, by simpa using hc⟩
  | @left x xs ys zs _ ih =>
    intro st st' os h hc
    simp only [handleAll] at h ⊢
    cases hx : handleResponse st x with
    | none => simp [hx] at h
    | some r =>
      obtain ⟨st1, o1⟩ := r
      simp only [hx] at h
      cases hxs : handleAll st1 xs with
      | none => simp [hxs] at h
      | some r2 =>
        obtain ⟨st2, os2⟩ := r2
        simp only [hxs, Option.some.injEq, Prod.mk.injEq] at h
        obtain ⟨rfl, rfl⟩ := h
        rw [ctlOuts_append] at hc
        have hc1 : ctlOuts o1 = [] := (List.append_eq_nil_iff.mp hc).1
        obtain ⟨os', h', hd', hc'⟩ := ih hy st1 st2 os2 hxs (List.append_eq_nil_iff.mp hc).2
        exact ⟨o1 ++ os', by simp [h'], by simp [dataOuts_append, hd'], by simp [ctlOuts_append, hc1, hc']⟩
  | @right y xs ys zs _ ih =>
    intro st st' os h hc
    have hyc := handleResponse_ctl st y (hy y (by simp))
    obtain ⟨os', h', hd', hc'⟩ := ih (fun r hr => hy r (by simp [hr])) st st' os h hc
    refine ⟨ctlOutOf y ++ os', by simp [handleAll, hyc, h'], ?_, ?_⟩
    · simp [dataOuts_append, (ctlOutOf_ctl y).2, hd']
    · simp [ctlOuts_append, (ctlOutOf_ctl y).1, hc', List.flatMap_cons]

/-! ### echoed data through the assembly automaton -/

def pbOfBP (group : Str) (bp : BP) : PBPoint :=
  { time := bp.time, group := group, tags := bp.tags, fDouble := floatsOf bp.fields, fInt := intsOf bp.fields,
    fString := strsOf bp.fields, fBool := boolsOf bp.fields }

theorem handleAll_bps (pb : PBBegin) (g : Str) : ∀ (pts : List BP) (acc : List BP),
    handleAll { begin := some pb, points := some acc } (pts.map (fun bp => Response.point (pbOfBP g bp))) =
      some ({ begin := some pb, points := some (acc ++ pts.map rtBP) }, [])
  | [], acc => by simp [handleAll]
  | bp :: pts, acc => by
    simp only [List.map_cons, handleAll, handleResponse]
    rw [handleAll_bps pb g pts]
    simp [pbFields, pbOfBP, rtBP, rtFields, List.append_assoc]

theorem echo_item (it : Item) :
    handleAll {} (it.reqs.flatMap echoOf) = some ({}, [.msg it.out]) := by
  cases it with
  | pt p =>
    simp [Item.reqs, echoOf, writePoint, handleAll, handleResponse, Item.out, rtPoint, pbFields, rtFields]
  | batch bf b pts =>
    have hpts : (pts.map (writeBatchPoint b.group)).flatMap echoOf = pts.map (fun bp => Response.point (pbOfBP b.group bp)) := by
      induction pts with
      | nil => rfl
      | cons bp pts ih => simp [List.flatMap_cons, writeBatchPoint, echoOf, pbOfBP, ih]
    simp only [Item.reqs, List.flatMap_cons, List.flatMap_append, writeBegin, echoOf, List.flatMap_nil, List.append_nil,
      List.cons_append, List.nil_append, hpts, handleAll, handleResponse]
    rw [handleAll_append, handleAll_bps]
    simp [handleAll, handleResponse, writeEnd, Item.out]

theorem echo_items : ∀ (items : List Item),
    handleAll {} ((items.flatMap Item.reqs).flatMap echoOf) = some ({}, items.map (fun it => Out.msg it.out))
  | [] => rfl
  | it :: items => by
    simp only [List.flatMap_cons, List.flatMap_append, handleAll_append, echo_item it, echo_items items]
    simp

theorem item_reqs_data (it : Item) : ∀ r ∈ it.reqs, r.isData = true := by
  intro r hr
  cases it with
  | pt p => simp [Item.reqs, writePoint] at hr; subst hr; rfl
  | batch bf b pts =>
    simp only [Item.reqs, List.mem_cons, List.mem_append, List.mem_map, List.not_mem_nil, or_false] at hr
    rcases hr with rfl | ⟨bp, _, rfl⟩ | rfl <;> rfl

theorem echoIdentity_items : ∀ (items : List Item), (∀ it ∈ items, it.WF) →
    echoIdentity (items.map Item.data) ((items.map Item.out).filterMap edgeData) = true
  | [], _ => by simp [echoIdentity]
  | it :: items, h => by
    have ih := echoIdentity_items items (fun i hi => h i (by simp [hi]))
    have h1 := sameData_out it (h it (by simp))
    cases ho : edgeData it.out with
    | none => simp [ho] at h1
    | some d =>
      simp only [ho, Option.map_some, Option.some.injEq] at h1
      simp only [echoIdentity, Bool.and_eq_true, beq_iff_eq] at ih ⊢
      simp only [List.map_cons, List.filterMap_cons, ho, List.length_cons, List.zip_cons_cons, List.all_cons, Bool.and_eq_true]
      exact ⟨by omega, h1, ih.2⟩

/-! ### outputs of a run; snapshot / restore bookkeeping -/

theorem dataOuts_msgs (items : List Item) : dataOuts (items.map (fun it => Out.msg it.out)) = items.map Item.out := by
  induction items with
  | nil => rfl
  | cons it items ih => simpa [dataOuts] using ih

theorem ctlOuts_msgs (items : List Item) : ctlOuts (items.map (fun it => Out.msg it.out)) = [] := by
  induction items with
  | nil => rfl
  | cons it items ih => simpa [ctlOuts] using ih

def snapOf : Out → Option (List Nat)
  | .snapshot b => some b
  | _ => none

def isSnapshotReq : Request → Bool
  | .snapshot => true
  | _ => false

def lastRestore : List Request → List Nat → List Nat
  | [], cur => cur
  | .restore b :: rs, _ => lastRestore rs b
  | _ :: rs, cur => lastRestore rs cur

theorem agentRun_ctl_snap : ∀ (ctl : List Request) (h : Peer),
    ((agentRun h ctl).2.1.flatMap ctlOutOf).filterMap snapOf = (ctl.filter isSnapshotReq).map (fun _ => h.snap) ∧
    (agentRun h ctl).1.restored = lastRestore ctl h.restored ∧ (agentRun h ctl).1.snap = h.snap
  | [], h => ⟨rfl, rfl, rfl⟩
  | r :: rs, h => by
    cases r with
    | restore b =>
      have ih := agentRun_ctl_snap rs { h with restored := b }
      simp only [agentRun, agentStep, List.cons_append, List.nil_append, List.flatMap_cons, ctlOutOf, List.filterMap_cons, snapOf,
        List.filter_cons, isSnapshotReq, lastRestore]
      exact ⟨by simpa using ih.1, ih.2.1, ih.2.2⟩
    | snapshot =>
      have ih := agentRun_ctl_snap rs h
      simp only [agentRun, agentStep, List.cons_append, List.nil_append, List.flatMap_cons, ctlOutOf, List.filterMap_cons, snapOf,
        List.filter_cons, isSnapshotReq, lastRestore, List.map_cons]
      exact ⟨by simpa using ih.1, ih.2.1, ih.2.2⟩
    | _ =>
      have ih := agentRun_ctl_snap rs h
      simp only [agentRun, agentStep, List.cons_append, List.nil_append, List.flatMap_cons, ctlOutOf, List.filterMap_cons, snapOf,
        List.filter_cons, isSnapshotReq, lastRestore]
      exact ⟨by simpa using ih.1, ih.2.1, ih.2.2⟩

theorem filterMap_snapOf_ctlOuts : ∀ (os : List Out), os.filterMap snapOf = (ctlOuts os).filterMap snapOf
  | [] => rfl
  | o :: os => by
    have ih := filterMap_snapOf_ctlOuts os
    cases o <;> simp [ctlOuts, List.filterMap_cons, snapOf] at ih ⊢ <;> exact ih

/-- Core of the echo theorems: under every schedule the data handed out is `Item.out` of every item, in order. -/
theorem echo_core (items : List Item)
    (ctl : List Request) (hctl : ∀ r ∈ ctl, r.isData = false)
    (reqs : List Request) (hreqs : Interleave (items.flatMap Item.reqs) ctl reqs)
    (h : Peer) (resps : List Response)
    (hresps : Interleave (agentRun h reqs).2.2 (agentRun h reqs).2.1 resps) :
    ∃ outs, handleAll {} resps = some ({}, outs) ∧ dataOuts outs = items.map Item.out ∧
      ctlOuts outs = (agentRun h ctl).2.1.flatMap ctlOutOf ∧ (agentRun h reqs).1 = (agentRun h ctl).1 := by
  have hdata : ∀ r ∈ items.flatMap Item.reqs, r.isData = true := by
    intro r hr
    obtain ⟨it, _, hit⟩ := List.mem_flatMap.mp hr
    exact item_reqs_data it r hit
  have hech : (agentRun h reqs).2.2 = (items.flatMap Item.reqs).flatMap echoOf := by
    rw [agentRun_echoed, flatMap_echo_interleave hreqs hctl]
  rw [hech] at hresps
  obtain ⟨outs, h1, h2, h3⟩ := handleAll_interleave hresps (agentRun_direct_ctl h reqs) {} {} _ (echo_items items) (ctlOuts_msgs items)
  refine ⟨outs, h1, ?_, ?_, (agentRun_direct_interleave hreqs hdata h).2⟩
  · rw [h2, dataOuts_msgs]
  · rw [h3, (agentRun_direct_interleave hreqs hdata h).1]

end Kap.C19
