/-
C19 — helper lemmas for the framing theorems (uvarint round trip, chunk-independent reading).
Core Lean only.
-/
import Kap.Spec.C19
namespace Kap.C19

/-! ### putUvarint -/

theorem putUvarint_lt {x : Nat} (h : x < 128) : putUvarint x = [x] := by
  rw [putUvarint]; simp [h]

theorem putUvarint_ge {x : Nat} (h : ¬ x < 128) : putUvarint x = (x % 128 + 128) :: putUvarint (x / 128) := by
  rw [putUvarint]; simp [h]

theorem putUvarint_ne_nil (x : Nat) : putUvarint x ≠ [] := by
  by_cases h : x < 128
  · rw [putUvarint_lt h]; simp
  · rw [putUvarint_ge h]; simp

theorem putUvarint_length_pos (x : Nat) : 0 < (putUvarint x).length :=
  List.length_pos_iff.mpr (putUvarint_ne_nil x)

theorem putUvarint_length_le : ∀ (k n : Nat), n < 128 ^ (k + 1) → (putUvarint n).length ≤ k + 1
  | 0, n, h => by rw [putUvarint_lt (by simpa using h)]; simp
  | k + 1, n, h => by
    by_cases hlt : n < 128
    · rw [putUvarint_lt hlt]; simp
    · rw [putUvarint_ge hlt]
      have : n / 128 < 128 ^ (k + 1) := by
        rw [Nat.pow_succ] at h
        exact (Nat.div_lt_iff_lt_mul (by decide)).mpr h
      have := putUvarint_length_le k (n / 128) this
      simp; omega

theorem writeMessage_frame_of_lt (data : List Nat) (h : data.length < 2 ^ 35) : writeMessage data = some (frame data) := by
  have : (putUvarint data.length).length ≤ 5 := putUvarint_length_le 4 data.length (by simpa using h)
  simp [writeMessage, frame, this]

/-! ### readByte -/

theorem readByte_flatten : ∀ (cs : Chunks) (b : Nat) (rest : List Nat), cs.flatten = b :: rest →
    ∃ cs', readByte cs = some (b, cs') ∧ cs'.flatten = rest
  | [], b, rest, h => by simp at h
  | [] :: cs, b, rest, h => by
    have := readByte_flatten cs b rest (by simpa using h)
    simpa [readByte] using this
  | (x :: c) :: cs, b, rest, h => by
    simp only [List.flatten_cons, List.cons_append, List.cons.injEq] at h
    exact ⟨c :: cs, by simp [readByte, h.1], by simpa using h.2⟩

theorem readByte_nil_of_flatten_nil : ∀ (cs : Chunks), cs.flatten = [] → readByte cs = none
  | [], _ => rfl
  | [] :: cs, h => by simpa [readByte] using readByte_nil_of_flatten_nil cs (by simpa using h)
  | (x :: c) :: cs, h => by simp at h

/-! ### readUvarint ∘ putUvarint -/

theorem pow_split {i : Nat} (hi : i ≤ 8) : 2 ^ (64 - 7 * i) = 2 ^ (64 - 7 * (i + 1)) * 128 := by
  have : 64 - 7 * i = (64 - 7 * (i + 1)) + 7 := by omega
  rw [this, Nat.pow_add]

/-- The loop of `ReadUvarint`, started at byte index `i` with accumulator `x` and shift `s`, decodes the bytes of
`putUvarint m` to `x + m·2^s`, provided `m` fits the remaining `64 - 7i` bits. -/
theorem readUvarintLoop_put : ∀ (m i x s fuel : Nat) (cs : Chunks) (rest : List Nat),
    cs.flatten = putUvarint m ++ rest → m < 2 ^ (64 - 7 * i) → i ≤ 9 → fuel + i = 10 →
    ∃ cs', readUvarintLoop fuel i x s cs = .ok (x + m * 2 ^ s, cs') ∧ cs'.flatten = rest := by
  intro m
  induction m using Nat.strongRecOn with
  | _ m ih =>
    intro i x s fuel cs rest hfl hm hi hfuel
    obtain ⟨fuel', rfl⟩ : ∃ f, fuel = f + 1 := ⟨fuel - 1, by omega⟩
    by_cases hlt : m < 128
    · rw [putUvarint_lt hlt] at hfl
      obtain ⟨cs', hrb, hfl'⟩ := readByte_flatten cs m rest (by simpa using hfl)
      refine ⟨cs', ?_, hfl'⟩
      have h9 : ¬ (i = 9 ∧ m > 1) := by
        rintro ⟨rfl, h1⟩
        have : m < 2 := by simpa using hm
        omega
      simp [readUvarintLoop, hrb, hlt, h9]
    · rw [putUvarint_ge hlt] at hfl
      obtain ⟨cs', hrb, hfl'⟩ := readByte_flatten cs (m % 128 + 128) (putUvarint (m / 128) ++ rest) (by simpa using hfl)
      have hi8 : i ≤ 8 := by
        rcases Nat.lt_or_ge i 9 with h | h
        · omega
        · have : i = 9 := by omega
          subst this
          have : m < 2 := by simpa using hm
          omega
      have hm' : m / 128 < 2 ^ (64 - 7 * (i + 1)) := by
        rw [pow_split hi8] at hm
        exact (Nat.div_lt_iff_lt_mul (by decide)).mpr hm
      obtain ⟨cs'', hrec, hfl''⟩ := ih (m / 128) (by omega) (i + 1) (x + (m % 128) * 2 ^ s) (s + 7) fuel' cs' rest hfl' hm' (by omega) (by omega)
      refine ⟨cs'', ?_, hfl''⟩
      have hb : ¬ (m % 128 + 128 < 128) := by omega
      have hmod : (m % 128 + 128) % 128 = m % 128 := by omega
      simp only [readUvarintLoop, hrb, hb, if_false, hmod]
      rw [hrec]
      have : x + m % 128 * 2 ^ s + m / 128 * 2 ^ (s + 7) = x + m * 2 ^ s := by
        have h1 : 2 ^ (s + 7) = 128 * 2 ^ s := by rw [Nat.pow_add]; simp [Nat.mul_comm]
        rw [h1, Nat.add_assoc, ← Nat.mul_assoc, ← Nat.add_mul]
        congr 2
        have := Nat.mod_add_div m 128
        omega
      rw [this]

theorem readUvarint_put (n : Nat) (hn : n < 2 ^ 64) (cs : Chunks) (rest : List Nat)
    (hfl : cs.flatten = putUvarint n ++ rest) :
    ∃ cs', readUvarint cs = .ok (n, cs') ∧ cs'.flatten = rest := by
  have := readUvarintLoop_put n 0 0 0 10 cs rest hfl (by simpa using hn) (by omega) (by omega)
  simpa [readUvarint] using this

/-! ### the body loop -/

/-- With `dataFirst` (the source as it is today) the body loop reads exactly the `need` bytes that are there,
whatever the chunking and whether or not the last read carries `io.EOF`. -/
theorem readBody_ok (ewd : Bool) : ∀ (cs : Chunks) (need : Nat) (acc : List (List Nat)) (p rest : List Nat),
    cs.flatten = p ++ rest → p.length = need →
    ∃ cs', readBodyWith true ewd cs need acc = .ok (acc.reverse.flatten ++ p, cs') ∧ cs'.flatten = rest
  | cs, 0, acc, p, rest, hfl, hp => by
    have : p = [] := List.eq_nil_of_length_eq_zero hp
    subst this
    exact ⟨cs, by simp [readBodyWith], by simpa using hfl⟩
  | [], need + 1, acc, p, rest, hfl, hp => by
    have : p = [] := by
      have := congrArg List.length hfl
      simp at this
      exact List.eq_nil_of_length_eq_zero (by omega)
    subst this
    simp at hp
  | c :: cs, need + 1, acc, p, rest, hfl, hp => by
    simp only [List.flatten_cons] at hfl
    by_cases hlt : need + 1 < c.length
    · -- the chunk holds more than is needed
      have hc : c = p ++ c.drop (need + 1) ∧ c.take (need + 1) = p := by
        have h1 : (c ++ cs.flatten).take (need + 1) = p := by rw [hfl]; simp [← hp]
        have h2 : c.take (need + 1) = p := by
          rw [List.take_append_of_le_length (by omega)] at h1; exact h1
        exact ⟨by rw [← h2]; simp, h2⟩
      refine ⟨c.drop (need + 1) :: cs, ?_, ?_⟩
      · simp [readBodyWith, hlt, hc.2]
      · have : c ++ cs.flatten = p ++ (c.drop (need + 1) ++ cs.flatten) := by
          rw [← List.append_assoc, ← hc.1]
        rw [this] at hfl
        simpa using List.append_cancel_left hfl
    · -- the whole chunk is copied
      have hle : c.length ≤ need + 1 := by omega
      have hsplit : p = c ++ p.drop c.length ∧ cs.flatten = p.drop c.length ++ rest := by
        have h1 : (c ++ cs.flatten).take c.length = (p ++ rest).take c.length := by rw [hfl]
        rw [List.take_left' rfl, List.take_append_of_le_length (by omega)] at h1
        have h2 : (c ++ cs.flatten).drop c.length = (p ++ rest).drop c.length := by rw [hfl]
        rw [List.drop_left' rfl, List.drop_append_of_le_length (by omega)] at h2
        refine ⟨?_, h2⟩
        calc p = p.take c.length ++ p.drop c.length := (List.take_append_drop _ _).symm
          _ = c ++ p.drop c.length := by rw [← h1]
      by_cases hE : (ewd && cs.isEmpty && decide (c.length > 0)) = true
      · -- last chunk, delivered together with io.EOF
        have hcs : cs = [] := by
          simp only [Bool.and_eq_true, List.isEmpty_iff, decide_eq_true_eq] at hE
          exact hE.1.2
        subst hcs
        simp only [List.flatten_nil, List.append_nil] at hfl
        have hlen : c.length = need + 1 + rest.length := by rw [hfl]; simp [hp]
        have hrest : rest = [] := List.eq_nil_of_length_eq_zero (by omega)
        subst hrest
        simp only [List.append_nil] at hfl
        refine ⟨[], ?_, rfl⟩
        have : need + 1 = c.length := by omega
        simp [readBodyWith, this, hfl]
      · have hp' : (p.drop c.length).length = need + 1 - c.length := by simp [hp]
        obtain ⟨cs', hrec, hfl'⟩ := readBody_ok ewd cs (need + 1 - c.length) (c :: acc) (p.drop c.length) rest hsplit.2 hp'
        refine ⟨cs', ?_, hfl'⟩
        simp only [readBodyWith, hlt, if_false, hE]
        rw [hrec]
        congr 2
        simp only [List.reverse_cons, List.flatten_append, List.flatten_cons, List.flatten_nil, List.append_nil, List.append_assoc]
        rw [← hsplit.1]
        simp

/-! ### one message, all messages -/

theorem readMessage_frame (ewd : Bool) (cs : Chunks) (p rest : List Nat) (hp : p.length < 2 ^ 64)
    (hfl : cs.flatten = frame p ++ rest) :
    ∃ cs', readMessageWith true ewd cs = .ok (p, cs') ∧ cs'.flatten = rest := by
  unfold frame at hfl
  rw [List.append_assoc] at hfl
  obtain ⟨cs1, h1, hfl1⟩ := readUvarint_put p.length hp cs (p ++ rest) hfl
  obtain ⟨cs2, h2, hfl2⟩ := readBody_ok ewd cs1 p.length [] p rest hfl1 rfl
  exact ⟨cs2, by simp [readMessageWith, h1, h2], hfl2⟩

theorem readMessage_end (df ewd : Bool) (cs : Chunks) (h : cs.flatten = []) :
    readMessageWith df ewd cs = .error .eof := by
  simp [readMessageWith, readUvarint, readUvarintLoop, readByte_nil_of_flatten_nil cs h]

theorem frames_length_ge (ps : List (List Nat)) : ps.length ≤ (ps.map frame).flatten.length := by
  induction ps with
  | nil => simp
  | cons p ps ih =>
    have := putUvarint_length_pos p.length
    simp [frame] at *
    omega

theorem readAllWith_frames (ewd : Bool) : ∀ (ps : List (List Nat)) (fuel : Nat) (cs : Chunks),
    (∀ p ∈ ps, p.length < 2 ^ 64) → cs.flatten = (ps.map frame).flatten → ps.length < fuel →
    ((readAllWith true ewd fuel cs).1.map (·.1) = ps ∧ (readAllWith true ewd fuel cs).2 = .eof)
  | [], fuel, cs, _, hfl, hf => by
    obtain ⟨f, rfl⟩ : ∃ f, fuel = f + 1 := ⟨fuel - 1, by simp at hf; omega⟩
    simp [readAllWith, readMessage_end true ewd cs (by simpa using hfl)]
  | p :: ps, fuel, cs, hlen, hfl, hf => by
    obtain ⟨f, rfl⟩ : ∃ f, fuel = f + 1 := ⟨fuel - 1, by simp at hf; omega⟩
    obtain ⟨cs', h1, hfl'⟩ := readMessage_frame ewd cs p ((ps.map frame).flatten) (hlen p (by simp)) (by simpa using hfl)
    have ih := readAllWith_frames ewd ps f cs' (fun q hq => hlen q (by simp [hq])) hfl' (by simp at hf; omega)
    simp only [readAllWith, h1]
    exact ⟨by simp [ih.1], ih.2⟩

end Kap.C19
