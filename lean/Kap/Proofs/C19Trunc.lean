/-
C19 — truncation safety of the read loop: a stream that ends early yields exactly its whole frames.
Core Lean only.
-/
import Kap.Proofs.C19Frame
namespace Kap.C19

/-- A varint cut short (at least one byte read, or not at byte 0) is `io.ErrUnexpectedEOF`. -/
theorem readUvarintLoop_partial : ∀ (m i x s fuel : Nat) (cs : Chunks) (T R : List Nat),
    putUvarint m = T ++ R → R ≠ [] → cs.flatten = T → (T ≠ [] ∨ i > 0) → fuel + i = 10 → i ≤ 9 →
    m < 2 ^ (64 - 7 * i) →
    readUvarintLoop fuel i x s cs = .error .unexpectedEOF := by
  intro m
  induction m using Nat.strongRecOn with
  | _ m ih =>
    intro i x s fuel cs T R hput hR hfl hne hfuel hi hm
    obtain ⟨fuel', rfl⟩ : ∃ f, fuel = f + 1 := ⟨fuel - 1, by omega⟩
    cases T with
    | nil =>
      have hi0 : i > 0 := by rcases hne with h | h; exact absurd rfl h; exact h
      simp [readUvarintLoop, readByte_nil_of_flatten_nil cs hfl, hi0]
    | cons b T' =>
      by_cases hlt : m < 128
      · rw [putUvarint_lt hlt] at hput
        simp only [List.cons_append, List.cons.injEq] at hput
        have : T' ++ R = [] := hput.2.symm
        exact absurd (List.append_eq_nil_iff.mp this).2 hR
      · rw [putUvarint_ge hlt] at hput
        simp only [List.cons_append, List.cons.injEq] at hput
        obtain ⟨hb, hrest⟩ := hput
        obtain ⟨cs', hrb, hfl'⟩ := readByte_flatten cs b T' hfl
        have hb128 : ¬ b < 128 := by omega
        simp only [readUvarintLoop, hrb, hb128, if_false]
        have hi8 : i ≤ 8 := by
          rcases Nat.lt_or_ge i 9 with h | h
          · omega
          · have : i = 9 := by omega
            subst this
            have : m < 2 := by simpa using hm
            omega
        have hm' : m / 128 < 2 ^ (64 - 7 * (i + 1)) := by
          rw [pow_split hi8] at hm
          exact (Nat.div_lt_iff_lt_mul (by decide)).mpr hm
        exact ih (m / 128) (by omega) (i + 1) _ (s + 7) fuel' cs' T' R hrest hR hfl' (Or.inr (by omega)) (by omega) (by omega) hm'

/-- Fewer bytes than needed: "unexpected EOF, expected … more bytes". -/
theorem readBody_short (ewd : Bool) : ∀ (cs : Chunks) (need : Nat) (acc : List (List Nat)),
    cs.flatten.length < need → readBodyWith true ewd cs need acc = .error .bodyEOF
  | cs, 0, acc, h => by omega
  | [], need + 1, acc, _ => by simp [readBodyWith]
  | c :: cs, need + 1, acc, h => by
    simp only [List.flatten_cons, List.length_append] at h
    have hlt : ¬ (need + 1 < c.length) := by omega
    by_cases hE : (ewd && cs.isEmpty && decide (c.length > 0)) = true
    · have : ¬ (need + 1 = c.length) := by omega
      simp [readBodyWith, hlt, hE, this]
    · obtain ⟨n', hn'⟩ : ∃ n', need + 1 - c.length = n' + 1 := ⟨need - c.length, by omega⟩
      simp only [readBodyWith, hlt, if_false, hE]
      exact readBody_short ewd cs (need + 1 - c.length) (c :: acc) (by omega)

/-- A frame cut short somewhere after its first byte is an error, and not the clean end of stream. -/
theorem readMessage_partial (ewd : Bool) (cs : Chunks) (p T R : List Nat) (hp : p.length < 2 ^ 64)
    (hsplit : frame p = T ++ R) (hR : R ≠ []) (hT : T ≠ []) (hfl : cs.flatten = T) :
    ∃ e, readMessageWith true ewd cs = .error e ∧ e ≠ .eof := by
  unfold frame at hsplit
  rcases List.append_eq_append_iff.mp hsplit with ⟨a, hT', hp'⟩ | ⟨a, hV, hR'⟩
  · -- the varint is complete, the body is short
    obtain ⟨cs1, h1, hfl1⟩ := readUvarint_put p.length hp cs a (by rw [hfl, hT'])
    have hshort : cs1.flatten.length < p.length := by
      rw [hfl1, hp']; simp; exact List.length_pos_iff.mpr hR
    exact ⟨.bodyEOF, by simp [readMessageWith, h1, readBody_short ewd cs1 p.length [] hshort], by decide⟩
  · by_cases ha : a = []
    · subst ha
      simp only [List.append_nil, List.nil_append] at hV hR'
      obtain ⟨cs1, h1, hfl1⟩ := readUvarint_put p.length hp cs [] (by rw [hfl, ← hV]; simp)
      have hshort : cs1.flatten.length < p.length := by
        rw [hfl1, ← hR']; simp; exact List.length_pos_iff.mpr hR
      exact ⟨.bodyEOF, by simp [readMessageWith, h1, readBody_short ewd cs1 p.length [] hshort], by decide⟩
    · have := readUvarintLoop_partial p.length 0 0 0 10 cs T a hV ha hfl (Or.inl hT) (by omega) (by omega) (by simpa using hp)
      exact ⟨.unexpectedEOF, by simp [readMessageWith, readUvarint, this], by decide⟩

theorem wholeFrames_go_acc : ∀ (ls : List Nat) (left k : Nat),
    wholeFrames.go ls left k = (k + (wholeFrames.go ls left 0).1, (wholeFrames.go ls left 0).2)
  | [], left, k => by simp [wholeFrames.go]
  | l :: ls, left, k => by
    simp only [wholeFrames.go]
    by_cases h0 : left = 0
    · simp [h0]
    · by_cases hl : l ≤ left
      · simp only [h0, if_false, hl, if_true]
        rw [wholeFrames_go_acc ls (left - l) (k + 1), wholeFrames_go_acc ls (left - l) (0 + 1)]
        simp; omega
      · simp [h0, hl]

theorem wholeFrames_zero (ls : List Nat) : wholeFrames ls 0 = (0, true) := by
  cases ls <;> simp [wholeFrames, wholeFrames.go]

theorem wholeFrames_cons_ge (l : Nat) (ls : List Nat) (left : Nat) (h0 : left ≠ 0) (hl : l ≤ left) :
    wholeFrames (l :: ls) left = (1 + (wholeFrames ls (left - l)).1, (wholeFrames ls (left - l)).2) := by
  unfold wholeFrames
  rw [wholeFrames.go]
  simp only [h0, if_false, hl, if_true]
  rw [wholeFrames_go_acc]

theorem wholeFrames_cons_lt (l : Nat) (ls : List Nat) (left : Nat) (h0 : left ≠ 0) (hl : ¬ l ≤ left) :
    wholeFrames (l :: ls) left = (0, false) := by
  unfold wholeFrames
  rw [wholeFrames.go]
  simp [h0, hl]

theorem frame_length_pos (p : List Nat) : 0 < (frame p).length := by
  have := putUvarint_length_pos p.length
  simp [frame]; omega

/-- The read loop over a stream that was cut anywhere: exactly the whole frames, clean end iff cut on a boundary. -/
theorem readAllWith_truncated (ewd : Bool) : ∀ (ps : List (List Nat)) (fuel : Nat) (cs : Chunks) (R : List Nat),
    (∀ p ∈ ps, p.length < 2 ^ 64) → cs.flatten ++ R = (ps.map frame).flatten → cs.flatten.length < fuel →
    (readAllWith true ewd fuel cs).1.map (·.1) =
        ps.take (wholeFrames (ps.map (fun p => (frame p).length)) cs.flatten.length).1 ∧
      ((readAllWith true ewd fuel cs).2 = .eof ↔
        (wholeFrames (ps.map (fun p => (frame p).length)) cs.flatten.length).2 = true)
  | [], fuel, cs, R, _, hfl, hf => by
    obtain ⟨f, rfl⟩ : ∃ f, fuel = f + 1 := ⟨fuel - 1, by omega⟩
    have h0 : cs.flatten = [] := (List.append_eq_nil_iff.mp (by simpa using hfl)).1
    simp [readAllWith, readMessage_end true ewd cs h0, h0, wholeFrames_zero]
  | p :: ps, fuel, cs, R, hlen, hfl, hf => by
    obtain ⟨f, rfl⟩ : ∃ f, fuel = f + 1 := ⟨fuel - 1, by omega⟩
    have hpl := hlen p (by simp)
    have hF := frame_length_pos p
    by_cases hT : cs.flatten = []
    · simp [readAllWith, readMessage_end true ewd cs hT, hT, wholeFrames_zero]
    · have hTlen : cs.flatten.length ≠ 0 := fun h => hT (List.eq_nil_of_length_eq_zero h)
      simp only [List.map_cons, List.flatten_cons] at hfl
      -- either a whole first frame (and more) was delivered, or a strict part of it
      have hcases : (∃ a, cs.flatten = frame p ++ a ∧ a ++ R = (ps.map frame).flatten) ∨
          (∃ a, a ≠ [] ∧ frame p = cs.flatten ++ a) := by
        rcases List.append_eq_append_iff.mp hfl with ⟨a, h1, h2⟩ | ⟨a, h1, h2⟩
        · by_cases ha : a = []
          · subst ha
            exact Or.inl ⟨[], by simpa using h1.symm, by simpa using h2⟩
          · exact Or.inr ⟨a, ha, h1⟩
        · exact Or.inl ⟨a, h1, h2.symm⟩
      rcases hcases with ⟨a, hTa, haR⟩ | ⟨a, ha, hFa⟩
      · obtain ⟨cs', h1, hfl'⟩ := readMessage_frame ewd cs p a hpl hTa
        have hlenT : cs.flatten.length = (frame p).length + a.length := by rw [hTa]; simp
        have ih := readAllWith_truncated ewd ps f cs' R (fun q hq => hlen q (by simp [hq])) (by rw [hfl']; exact haR)
          (by rw [hfl']; omega)
        rw [hfl'] at ih
        have hle : (frame p).length ≤ cs.flatten.length := by omega
        have hsub : cs.flatten.length - (frame p).length = a.length := by omega
        simp only [readAllWith, h1, List.map_cons]
        rw [wholeFrames_cons_ge _ _ _ hTlen hle, hsub]
        refine ⟨?_, ih.2⟩
        simp only [List.map_cons]
        rw [Nat.add_comm, List.take_succ_cons, ih.1]
      · obtain ⟨e, he, hne⟩ := readMessage_partial ewd cs p cs.flatten a hpl hFa ha hT rfl
        have hlt : ¬ ((frame p).length ≤ cs.flatten.length) := by
          have : (frame p).length = cs.flatten.length + a.length := by rw [hFa]; simp
          have := List.length_pos_iff.mpr ha
          omega
        simp only [readAllWith, he, List.map_cons]
        rw [wholeFrames_cons_lt _ _ _ hTlen hlt]
        simp [hne]

end Kap.C19
