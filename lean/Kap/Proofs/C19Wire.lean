/-
C19 — helper lemmas for the write side (one writer per stream).
-/
import Kap.Model.C19Wire
import Kap.Proofs.C19Frame
import Kap.Proofs.C19Trunc
namespace Kap.C19

theorem wireSingle_bytes (q : List (List Nat)) : wireBytes (wireSingle q) = (q.map frame).flatten := by
  induction q with
  | nil => rfl
  | cons p q ih =>
    unfold wireBytes wireSingle at *
    simp only [List.flatMap_cons, List.flatten_append, List.map_cons, List.flatten_cons, ih]
    simp [writesOf, frame]

/-- Filtering an interleaving by a predicate that holds on the left stream and fails on the right one gives the
left stream back. -/
theorem Interleave.filter_left {α : Type} (p : α → Bool) : ∀ {xs ys zs : List α}, Interleave xs ys zs →
    (∀ x ∈ xs, p x = true) → (∀ y ∈ ys, p y = false) → zs.filter p = xs
  | _, _, _, .nil, _, _ => rfl
  | _, _, _, @Interleave.left _ x xs _ _ h, hx, hy => by
    have hpx : p x = true := hx x (by simp)
    rw [List.filter_cons_of_pos hpx, Interleave.filter_left p h (fun a ha => hx a (by simp [ha])) hy]
  | _, _, _, @Interleave.right _ y _ ys _ h, hx, hy => by
    have hpy : p y = false := hy y (by simp)
    rw [List.filter_cons_of_neg (by simp [hpy]), Interleave.filter_left p h hx (fun a ha => hy a (by simp [ha]))]

theorem Interleave.mem {α : Type} {xs ys zs : List α} (h : Interleave xs ys zs) :
    ∀ z, z ∈ zs ↔ z ∈ xs ∨ z ∈ ys := by
  induction h with
  | nil => simp
  | left _ ih => intro z; simp [ih z, or_assoc]
  | right _ ih =>
    intro z; simp only [List.mem_cons, ih z]
    constructor
    · rintro (h | h | h) <;> simp [h]
    · rintro (h | h | h) <;> simp [h]

theorem Interleave.length {α : Type} {xs ys zs : List α} (h : Interleave xs ys zs) :
    zs.length = xs.length + ys.length := by
  induction h with
  | nil => rfl
  | left _ ih => simp [ih]; omega
  | right _ ih => simp [ih]; omega

end Kap.C19

namespace Kap.C19

/-- A stream cut before its end holds fewer whole frames than were written (every frame has at least one byte). -/
theorem wholeFrames_lt_of_cut_lt : ∀ (lens : List Nat) (cut : Nat), (∀ l ∈ lens, 0 < l) → cut < lens.sum →
    (wholeFrames lens cut).1 < lens.length
  | [], cut, _, h => by simp at h
  | l :: ls, cut, hpos, h => by
    by_cases h0 : cut = 0
    · subst h0; rw [wholeFrames_zero]; simp
    · by_cases hl : l ≤ cut
      · rw [wholeFrames_cons_ge l ls cut h0 hl]
        have ih := wholeFrames_lt_of_cut_lt ls (cut - l) (fun x hx => hpos x (by simp [hx]))
          (by simp only [List.sum_cons] at h; omega)
        simp only [List.length_cons]; omega
      · rw [wholeFrames_cons_lt l ls cut h0 hl]; simp

end Kap.C19
