/-
C20 — helper lemmas, part 1: the string glue (`split`/`join`) and `path.Clean` as modelled.
-/
import Kap.Spec.C20
namespace Kap.C20

/-! ### split / join -/

theorem split_cons_slash (cs : List Char) : split ('/' :: cs) = [] :: split cs := by
  rw [split]; simp

theorem split_cons_ne (c : Char) (cs : List Char) (h : c ≠ '/') :
    split (c :: cs) = pushChar c (split cs) := by
  rw [split]; simp [h]

theorem split_ne_nil (p : List Char) : split p ≠ [] := by
  cases p with
  | nil => simp [split]
  | cons c cs =>
    by_cases h : c = '/'
    · subst h; simp [split_cons_slash]
    · rw [split_cons_ne _ _ h]; cases split cs <;> simp [pushChar]

theorem join_pushChar (c : Char) (l : List Seg) (h : l ≠ []) : join (pushChar c l) = c :: join l := by
  match l, h with
  | [s], _ => simp [pushChar, join]
  | s :: t :: ts, _ => simp [pushChar, join]

theorem join_split (p : List Char) : join (split p) = p := by
  induction p with
  | nil => simp [split, join]
  | cons c cs ih =>
    by_cases h : c = '/'
    · subst h
      rw [split_cons_slash]
      cases hs : split cs with
      | nil => exact absurd hs (split_ne_nil cs)
      | cons s ss => rw [hs] at ih; simp [join, ih]
    · rw [split_cons_ne _ _ h, join_pushChar _ _ (split_ne_nil cs), ih]

/-- A segment produced by `split` never contains '/'. -/
theorem split_noslash (p : List Char) : ∀ s ∈ split p, '/' ∉ s := by
  induction p with
  | nil => simp [split]
  | cons c cs ih =>
    by_cases hc : c = '/'
    · subst hc
      rw [split_cons_slash]
      intro s hs
      simp at hs
      rcases hs with rfl | hs
      · simp
      · exact ih s hs
    · rw [split_cons_ne _ _ hc]
      cases hsp : split cs with
      | nil => exact absurd hsp (split_ne_nil cs)
      | cons t ts =>
        rw [hsp] at ih
        intro s hs
        simp [pushChar] at hs
        rcases hs with rfl | hs
        · have := ih t (by simp)
          simp [this]; exact fun h => hc h.symm
        · exact ih s (by simp [hs])

theorem split_noslash_seg (s : Seg) (h : '/' ∉ s) : split s = [s] := by
  induction s with
  | nil => simp [split]
  | cons c cs ih =>
    have hc : c ≠ '/' := fun e => h (by simp [e])
    have hcs : '/' ∉ cs := fun e => h (by simp [e])
    rw [split_cons_ne _ _ hc, ih hcs]; rfl

theorem split_append_slash (s : Seg) (h : '/' ∉ s) (rest : List Char) :
    split (s ++ '/' :: rest) = s :: split rest := by
  induction s with
  | nil => simp [split_cons_slash]
  | cons c cs ih =>
    have hc : c ≠ '/' := fun e => h (by simp [e])
    have hcs : '/' ∉ cs := fun e => h (by simp [e])
    show split (c :: (cs ++ '/' :: rest)) = _
    rw [split_cons_ne _ _ hc, ih hcs]; rfl

/-- `split` undoes `join` on slash-free segments. -/
theorem split_join (segs : List Seg) (hne : segs ≠ []) (h : ∀ s ∈ segs, '/' ∉ s) : split (join segs) = segs := by
  induction segs with
  | nil => exact absurd rfl hne
  | cons s ss ih =>
    cases ss with
    | nil => simpa [join] using split_noslash_seg s (h s (by simp))
    | cons t ts =>
      simp only [join]
      rw [split_append_slash s (h s (by simp))]
      rw [ih (by simp) (fun x hx => h x (by simp [hx]))]


/-! ### the segment machine -/

/-- A real path element: not "", "." or "..". -/
def Real (s : Seg) : Prop := s ≠ [] ∧ s ≠ dot ∧ s ≠ dotdot

instance (s : Seg) : Decidable (Real s) := by unfold Real; exact inferInstance

/-- A normal list of elements: real names without '/'. `'/' :: join segs` is then a clean rooted path. -/
def NormalSegs (segs : List Seg) : Prop := ∀ s ∈ segs, Real s ∧ '/' ∉ s

theorem cleanStep_real (r : Bool) (st : CS) (s : Seg) (h : Real s) :
    cleanStep r st s = { st with stack := s :: st.stack } := by
  unfold cleanStep
  simp [h.1, h.2.1, h.2.2]

theorem cleanStep_skip (r : Bool) (st : CS) (s : Seg) (h : s = [] ∨ s = dot) : cleanStep r st s = st := by
  unfold cleanStep; simp [h]

theorem dotdot_ne : dotdot ≠ [] ∧ dotdot ≠ dot := by decide

theorem cleanStep_dotdot (r : Bool) (st : CS) :
    cleanStep r st dotdot = popStep r st := by
  unfold cleanStep
  simp [dotdot_ne.1, dotdot_ne.2]

theorem foldl_clean_real (r : Bool) (segs : List Seg) (h : ∀ s ∈ segs, Real s) (st : CS) :
    segs.foldl (cleanStep r) st = { st with stack := segs.reverse ++ st.stack } := by
  induction segs generalizing st with
  | nil => simp
  | cons s ss ih =>
    simp only [List.foldl_cons]
    rw [cleanStep_real r st s (h s (by simp)), ih (fun x hx => h x (by simp [hx]))]
    simp

theorem foldl_clean_ups (n : Nat) (st : CS) (h : st.stack = []) :
    (List.replicate n dotdot).foldl (cleanStep false) st = { st with ups := st.ups + n } := by
  induction n generalizing st with
  | zero => simp
  | succ k ih =>
    simp only [List.replicate_succ, List.foldl_cons]
    rw [cleanStep_dotdot]
    have : popStep false st = { st with ups := st.ups + 1 } := by simp [popStep, h]
    rw [this, ih { st with ups := st.ups + 1 } h]
    simp; omega

/-- Invariant of the machine: everything on the stack is a real element taken from the input; a rooted
path never keeps a "..". -/
structure CSInv (r : Bool) (segs : List Seg) (st : CS) : Prop where
  real : ∀ s ∈ st.stack, Real s
  mem : ∀ s ∈ st.stack, s ∈ segs
  ups : r = true → st.ups = 0

theorem cleanStep_inv (r : Bool) (segs : List Seg) (st : CS) (s : Seg) (hs : s ∈ segs) (h : CSInv r segs st) :
    CSInv r segs (cleanStep r st s) := by
  by_cases h1 : s = [] ∨ s = dot
  · rw [cleanStep_skip r st s h1]; exact h
  · by_cases h2 : s = dotdot
    · subst h2
      rw [cleanStep_dotdot]
      cases hst : st.stack with
      | nil =>
        cases r with
        | true => simpa [popStep, hst] using h
        | false =>
          simp only [popStep, hst]
          exact ⟨by simp, by simp, by simp⟩
      | cons t ts =>
        simp only [popStep, hst]
        exact ⟨fun x hx => h.real x (by simp [hst, hx]), fun x hx => h.mem x (by simp [hst, hx]), h.ups⟩
    · have hr : Real s := ⟨fun e => h1 (Or.inl e), fun e => h1 (Or.inr e), h2⟩
      rw [cleanStep_real r st s hr]
      refine ⟨?_, ?_, h.ups⟩
      · intro x hx; simp at hx; rcases hx with rfl | hx
        · exact hr
        · exact h.real x hx
      · intro x hx; simp at hx; rcases hx with rfl | hx
        · exact hs
        · exact h.mem x hx

theorem foldl_clean_inv (r : Bool) (all segs : List Seg) (hsub : ∀ s ∈ segs, s ∈ all) (st : CS) (h : CSInv r all st) :
    CSInv r all (segs.foldl (cleanStep r) st) := by
  induction segs generalizing st with
  | nil => simpa using h
  | cons s ss ih =>
    simp only [List.foldl_cons]
    exact ih (fun x hx => hsub x (by simp [hx])) _ (cleanStep_inv r all st s (hsub s (by simp)) h)

theorem cleanSegs_inv (r : Bool) (segs : List Seg) : CSInv r segs (segs.foldl (cleanStep r) {}) :=
  foldl_clean_inv r segs segs (fun _ h => h) {} ⟨by simp, by simp, by simp⟩

/-- Rooted: the output of the machine is a normal element list when the input came from `split`. -/
theorem cleanSegs_rooted_normal (segs : List Seg) (hns : ∀ s ∈ segs, '/' ∉ s) :
    NormalSegs (cleanSegs true segs) := by
  have inv := cleanSegs_inv true segs
  unfold cleanSegs
  simp only [inv.ups rfl, List.replicate_zero, List.nil_append]
  intro s hs
  simp at hs
  exact ⟨inv.real s hs, hns s (inv.mem s hs)⟩

/-- The machine leaves a canonical list unchanged (`ups` leading ".." only when not rooted). -/
theorem cleanSegs_canonical (r : Bool) (n : Nat) (reals : List Seg) (hr : ∀ s ∈ reals, Real s) (hn : r = true → n = 0) :
    cleanSegs r (List.replicate n dotdot ++ reals) = List.replicate n dotdot ++ reals := by
  unfold cleanSegs
  rw [List.foldl_append]
  cases r with
  | true =>
    simp [hn rfl, foldl_clean_real true reals hr]
  | false =>
    rw [foldl_clean_ups n {} rfl, foldl_clean_real false reals hr]
    simp

theorem cleanSegs_normal (r : Bool) (segs : List Seg) (h : NormalSegs segs) : cleanSegs r segs = segs := by
  have := cleanSegs_canonical r 0 segs (fun s hs => (h s hs).1) (fun _ => rfl)
  simpa using this


/-! ### `clean` on strings -/

theorem isAbs_cons (c : Char) (cs : List Char) : isAbs (c :: cs) = decide (c = '/') := by
  by_cases h : c = '/'
  · subst h; simp [isAbs]
  · unfold isAbs
    split
    · rename_i heq; injection heq with h1 _; exact absurd h1 h
    · simp [h]

theorem isAbs_iff (p : Path) : isAbs p = true ↔ ∃ cs, p = '/' :: cs := by
  cases p with
  | nil => simp [isAbs]
  | cons c cs => rw [isAbs_cons]; simp

theorem clean_rooted (cs : List Char) : clean ('/' :: cs) = '/' :: join (cleanSegs true (split ('/' :: cs))) := by
  unfold clean
  simp [isAbs]

/-- Cleaning the canonical spelling of a normal element list gives it back. -/
theorem clean_canonical (segs : List Seg) (h : NormalSegs segs) : clean ('/' :: join segs) = '/' :: join segs := by
  rw [clean_rooted, split_cons_slash]
  cases segs with
  | nil => simp [join, split, cleanSegs, cleanStep]
  | cons s ss =>
    rw [split_join (s :: ss) (by simp) (fun x hx => (h x hx).2)]
    have : cleanSegs true ([] :: s :: ss) = cleanSegs true (s :: ss) := by
      unfold cleanSegs; simp [List.foldl_cons, cleanStep_skip]
    rw [this, cleanSegs_normal true _ h]

theorem join_cons_cons (c : Char) (cs : List Char) (rest : List Seg) : ∃ t, join ((c :: cs) :: rest) = c :: t := by
  cases rest with
  | nil => exact ⟨cs, by simp [join]⟩
  | cons r rs => exact ⟨cs ++ '/' :: join (r :: rs), by simp [join]⟩

/-- The output list of the machine on a relative path: leading ".." then real elements, all slash-free. -/
theorem cleanSegs_relative_form (segs : List Seg) (hns : ∀ s ∈ segs, '/' ∉ s) :
    ∃ n reals, cleanSegs false segs = List.replicate n dotdot ++ reals ∧ (∀ s ∈ reals, Real s) ∧ (∀ s ∈ reals, '/' ∉ s) := by
  have inv := cleanSegs_inv false segs
  refine ⟨_, _, rfl, ?_, ?_⟩
  · intro s hs; simp at hs; exact inv.real s hs
  · intro s hs; simp at hs; exact hns s (inv.mem s hs)

theorem clean_relative_canonical (n : Nat) (reals : List Seg) (hr : ∀ s ∈ reals, Real s) (hns : ∀ s ∈ reals, '/' ∉ s)
    (hne : List.replicate n dotdot ++ reals ≠ []) :
    clean (join (List.replicate n dotdot ++ reals)) = join (List.replicate n dotdot ++ reals) := by
  have hall : ∀ s ∈ List.replicate n dotdot ++ reals, '/' ∉ s ∧ s ≠ [] := by
    intro s hs
    simp at hs
    rcases hs with ⟨_, rfl⟩ | hs
    · exact ⟨by decide, by decide⟩
    · exact ⟨hns s hs, (hr s hs).1⟩
  generalize hout : List.replicate n dotdot ++ reals = out at *
  obtain ⟨c, cs, rest, rfl, hc⟩ : ∃ c cs rest, out = (c :: cs) :: rest ∧ c ≠ '/' := by
    cases out with
    | nil => exact absurd rfl hne
    | cons s rest =>
      have := hall s (by simp)
      cases s with
      | nil => exact absurd rfl this.2
      | cons c cs => exact ⟨c, cs, rest, rfl, fun e => this.1 (by simp [e])⟩
  obtain ⟨t, ht⟩ := join_cons_cons c cs rest
  have hsj := split_join ((c :: cs) :: rest) (by simp) (fun s hs => (hall s hs).1)
  have hcl : cleanSegs false ((c :: cs) :: rest) = (c :: cs) :: rest := by
    rw [← hout]; exact cleanSegs_canonical false n reals hr (by simp)
  unfold clean
  rw [hsj, ht]
  simp [isAbs_cons, hc, hcl, ht]

theorem clean_dot : clean dot = dot := by decide

/-- **`path.Clean` is idempotent** (as modelled), for every string. -/
theorem clean_idempotent' (p : Path) : clean (clean p) = clean p := by
  cases p with
  | nil =>
    have : clean [] = dot := by decide
    rw [this, clean_dot]
  | cons c cs =>
    by_cases hc : c = '/'
    · subst hc
      rw [clean_rooted]
      exact clean_canonical _ (cleanSegs_rooted_normal _ (split_noslash _))
    · obtain ⟨n, reals, hform, hr, hns⟩ := cleanSegs_relative_form (split (c :: cs)) (split_noslash _)
      have hcl : clean (c :: cs) = if cleanSegs false (split (c :: cs)) = [] then dot else join (cleanSegs false (split (c :: cs))) := by
        unfold clean; simp [isAbs_cons, hc]
      rw [hcl]
      split
      · exact clean_dot
      · rename_i hne
        rw [hform] at hne ⊢
        exact clean_relative_canonical n reals hr hns hne

/-- A relative path stays relative, a rooted path stays rooted. -/
theorem isAbs_clean (p : Path) : isAbs (clean p) = isAbs p := by
  cases p with
  | nil => decide
  | cons c cs =>
    by_cases hc : c = '/'
    · subst hc; rw [clean_rooted]; simp [isAbs]
    · obtain ⟨n, reals, hform, hr, hns⟩ := cleanSegs_relative_form (split (c :: cs)) (split_noslash _)
      have hcl : clean (c :: cs) = if cleanSegs false (split (c :: cs)) = [] then dot else join (cleanSegs false (split (c :: cs))) := by
        unfold clean; simp [isAbs_cons, hc]
      rw [hcl, isAbs_cons]
      simp only [hc, decide_false]
      split
      · decide
      · rename_i hne
        rw [hform] at hne ⊢
        cases hout : List.replicate n dotdot ++ reals with
        | nil => exact absurd hout hne
        | cons s rest =>
          have hs : '/' ∉ s ∧ s ≠ [] := by
            have hm : s ∈ List.replicate n dotdot ++ reals := by rw [hout]; simp
            simp at hm
            rcases hm with ⟨_, rfl⟩ | hm
            · exact ⟨by decide, by decide⟩
            · exact ⟨hns s hm, (hr s hm).1⟩
          cases s with
          | nil => exact absurd rfl hs.2
          | cons d ds =>
            obtain ⟨t, ht⟩ := join_cons_cons d ds rest
            rw [ht, isAbs_cons]
            have : d ≠ '/' := fun e => hs.1 (by simp [e])
            simp [this]

end Kap.C20
