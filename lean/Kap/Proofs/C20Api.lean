/-
C20 — helper lemmas, part 7: the API resource of a URL path the mux lets through.

`cleanPath` of mux.go redirects every URL path that is not its own cleaned form, so a path that reaches a route
has no ".." element. `APIResource(TrimPrefix(path, BasePath))` joins "/api" with what follows "/kapacitor/v1" —
the only element that is NOT an element of the URL path is the first one (the rest of the element that starts
with "v1"), so the resource stays below "/api" unless that first element is "..": exactly the URL paths
"/kapacitor/v1.." and "/kapacitor/v1../…". No route NewHandler installs (except the "/" catch-all = 404) and no
route `AddRoute`/`AddPreviewRoute` can produce matches those.
-/
import Kap.Proofs.C20Bounds
namespace Kap.C20
open Kap.C20.Spec

/-! ### a path the mux does not redirect has no ".." element -/

theorem join_snoc_nil (n : List Seg) (hne : n ≠ []) : join (n ++ [[]]) = join n ++ ['/'] := by
  induction n with
  | nil => exact absurd rfl hne
  | cons s ss ih =>
    cases ss with
    | nil => simp [join]
    | cons t ts =>
      have := ih (by simp)
      simp only [List.cons_append, join] at this ⊢
      rw [this]; simp

theorem muxClean_rooted (p : Path) (h : muxCleanPath p = p) : ∃ cs, p = '/' :: cs := by
  cases p with
  | nil => simp [muxCleanPath] at h
  | cons c cs =>
    by_cases hc : c = '/'
    · exact ⟨cs, by rw [hc]⟩
    · exfalso
      unfold muxCleanPath at h
      simp only [isAbs_cons, hc, decide_false, Bool.false_eq_true, if_false, reduceCtorEq] at h
      rw [clean_rooted] at h
      split at h
      · simp only [List.cons_append, List.cons.injEq] at h; exact hc h.1.symm
      · simp only [List.cons.injEq] at h; exact hc h.1.symm

/-- Every element of a URL path that `cleanPath` leaves alone is "" or a real name (never "." or ".."). -/
theorem muxClean_segs (cs : List Char) (h : muxCleanPath ('/' :: cs) = '/' :: cs) :
    ∀ s ∈ split ('/' :: cs), s = [] ∨ Real s := by
  have hn : NormalSegs (cleanSegs true (split ('/' :: cs))) := cleanSegs_rooted_normal _ (split_noslash _)
  have hcl : clean ('/' :: cs) = '/' :: join (cleanSegs true (split ('/' :: cs))) := clean_rooted cs
  generalize cleanSegs true (split ('/' :: cs)) = n at hn hcl
  unfold muxCleanPath at h
  simp only [reduceCtorEq, if_false, isAbs, if_true] at h
  rw [hcl] at h
  have hns : ∀ s ∈ n, '/' ∉ s := fun s hs => (hn s hs).2
  split at h
  · rename_i hcond
    have hne : n ≠ [] := by
      intro e; subst e; exact hcond.2 (by simp [join])
    have e : '/' :: cs = '/' :: join (n ++ [[]]) := by
      rw [join_snoc_nil n hne, ← h]; simp
    rw [e, split_cons_slash, split_join (n ++ [[]]) (by simp) (by
      intro s hs; simp at hs; rcases hs with hs | rfl
      · exact hns s hs
      · simp)]
    intro s hs
    simp at hs
    rcases hs with rfl | hs | rfl
    · exact Or.inl rfl
    · exact Or.inr (hn s hs).1
    · exact Or.inl rfl
  · rw [← h, split_cons_slash]
    by_cases hne : n = []
    · subst hne
      intro s hs
      simp [join, split] at hs
      exact Or.inl hs
    · rw [split_join n hne hns]
      intro s hs
      simp at hs
      rcases hs with rfl | hs
      · exact Or.inl rfl
      · exact Or.inr (hn s hs).1

theorem real_ne_dotdot (s : Seg) (h : s = [] ∨ Real s) : s ≠ dotdot := by
  rcases h with rfl | h
  · decide
  · exact h.2.2

/-! ### the elements behind BasePath -/

theorem split_base_append (t : List Char) :
    split (Gen.basePath ++ t) = [] :: ['k', 'a', 'p', 'a', 'c', 'i', 't', 'o', 'r'] :: pushChar 'v' (pushChar '1' (split t)) := by
  show split ('/' :: (['k', 'a', 'p', 'a', 'c', 'i', 't', 'o', 'r'] ++ '/' :: 'v' :: '1' :: t)) = _
  rw [split_cons_slash, split_append_slash _ (by decide), split_cons_ne _ _ (by decide), split_cons_ne _ _ (by decide)]

/-- All elements of `t` but the first are elements of `BasePath ++ t`. -/
theorem tail_segs_of_base (t : List Char) : ∀ s ∈ (split t).tail, s ∈ split (Gen.basePath ++ t) := by
  rw [split_base_append]
  cases hs : split t with
  | nil => simp
  | cons s0 rest =>
    intro s h
    simp only [List.tail_cons] at h
    simp [pushChar, h]

theorem trimPrefix_base (p : Path) :
    (Gen.basePath.isPrefixOf p = true ∧ p = Gen.basePath ++ trimPrefix p Gen.basePath) ∨
    (Gen.basePath.isPrefixOf p = false ∧ trimPrefix p Gen.basePath = p) := by
  unfold trimPrefix
  cases h : Gen.basePath.isPrefixOf p with
  | false => right; simp
  | true =>
    left
    obtain ⟨t, rfl⟩ := List.isPrefixOf_iff_prefix.mp h
    simp

/-! ### without a ".." nothing below "/api" is ever popped -/

theorem foldl_clean_keeps (segs : List Seg) (h : ∀ s ∈ segs, s ≠ dotdot) (st : CS) :
    ∃ ys, (segs.foldl (cleanStep true) st).stack = ys ++ st.stack := by
  induction segs generalizing st with
  | nil => exact ⟨[], by simp⟩
  | cons s ss ih =>
    obtain ⟨ys, hys⟩ := ih (fun x hx => h x (by simp [hx])) (cleanStep true st s)
    simp only [List.foldl_cons]
    rw [hys, cleanStep_true_stack]
    have hs : s ≠ dotdot := h s (by simp)
    by_cases h1 : s = [] ∨ s = dot
    · exact ⟨ys, by simp [h1]⟩
    · exact ⟨ys ++ [s], by simp [h1, hs]⟩

theorem apiSlash_eq : "/api/".toList = '/' :: (['a', 'p', 'i'] ++ '/' :: []) := by decide

theorem api_node_of_nodotdot (t : List Char) (h : ∀ s ∈ split t, s ≠ dotdot) :
    ∃ names, nodeOf ("/api/".toList ++ t) = some ("api".toList :: names) := by
  have e : "/api/".toList ++ t = '/' :: (['a', 'p', 'i'] ++ '/' :: t) := by rw [apiSlash_eq]; simp
  rw [e, nodeOf_abs, split_cons_slash, split_append_slash _ (by decide), cleanSegs_true_eq]
  simp only [List.foldl_cons]
  rw [cleanStep_skip true _ [] (Or.inl rfl), cleanStep_real true _ _ (by decide)]
  obtain ⟨ys, hys⟩ := foldl_clean_keeps (split t) h { ups := 0, stack := [['a', 'p', 'i']] }
  rw [hys]
  refine ⟨ys.reverse, ?_⟩
  have : "api".toList = ['a', 'p', 'i'] := by decide
  rw [this]; simp

theorem apiNodeOf_eq (p : Path) : apiNodeOf p = "/api/".toList ++ trimPrefix p Gen.basePath := by
  unfold apiNodeOf trimPrefix
  rw [base_eq]
  have e2 : "/kapacitor/v1".toList.length = 13 := by decide
  rw [e2]

/-- **The resource of a URL path the mux lets through is below "/api"**, unless the element that follows
"/kapacitor/v1" (glued to it) is "..". -/
theorem clean_url_below_api (p : Path) (hc : muxCleanPath p = p)
    (hfirst : (split (trimPrefix p Gen.basePath)).head? ≠ some dotdot) :
    ∃ names, nodeOf (apiResource (trimPrefix p Gen.basePath)) = some ("api".toList :: names) := by
  rw [apiResource_node, apiNodeOf_eq]
  apply api_node_of_nodotdot
  obtain ⟨cs, rfl⟩ := muxClean_rooted p hc
  have hsegs := muxClean_segs cs hc
  have key : ∀ s ∈ (split (trimPrefix ('/' :: cs) Gen.basePath)).tail, s ≠ dotdot := by
    rcases trimPrefix_base ('/' :: cs) with ⟨_, hp⟩ | ⟨_, hp⟩
    · intro s hs
      have := tail_segs_of_base _ s hs
      rw [← hp] at this
      exact real_ne_dotdot s (hsegs s this)
    · rw [hp]
      intro s hs
      exact real_ne_dotdot s (hsegs s (List.mem_of_mem_tail hs))
  intro s hs
  cases hsp : split (trimPrefix ('/' :: cs) Gen.basePath) with
  | nil => rw [hsp] at hs; cases hs
  | cons s0 rest =>
    rw [hsp] at hs hfirst key
    simp only [List.mem_cons] at hs
    rcases hs with rfl | hs
    · intro e; exact hfirst (by simp [e])
    · exact key s (by simpa using hs)

/-- … and the exceptions are exactly the URL paths "/kapacitor/v1.." and "/kapacitor/v1../…". -/
theorem clean_url_escape_shape (p : Path) (hc : muxCleanPath p = p)
    (hesc : ¬ ∃ names, nodeOf (apiResource (trimPrefix p Gen.basePath)) = some ("api".toList :: names)) :
    p = Gen.basePath ++ dotdot ∨ (Gen.basePath ++ dotdot ++ ['/']).isPrefixOf p = true := by
  have hfirst : (split (trimPrefix p Gen.basePath)).head? = some dotdot := by
    by_cases h : (split (trimPrefix p Gen.basePath)).head? = some dotdot
    · exact h
    · exact absurd (clean_url_below_api p hc h) hesc
  rcases trimPrefix_base p with ⟨_, hp⟩ | ⟨_, hp⟩
  · have hj := join_split (trimPrefix p Gen.basePath)
    cases hsp : split (trimPrefix p Gen.basePath) with
    | nil => rw [hsp] at hfirst; cases hfirst
    | cons s0 rest =>
      rw [hsp] at hfirst hj
      simp only [List.head?_cons, Option.some.injEq] at hfirst
      subst hfirst
      cases rest with
      | nil =>
        left
        rw [hp, ← hj]; simp [join]
      | cons r rs =>
        right
        rw [hp, ← hj]
        simp only [join]
        apply List.isPrefixOf_iff_prefix.mpr
        exact ⟨join (r :: rs), by simp⟩
  · -- no BasePath in front: the first element of a rooted path is ""
    obtain ⟨cs, rfl⟩ := muxClean_rooted p hc
    rw [hp, split_cons_slash] at hfirst
    simp at hfirst
    exact absurd hfirst.symm (by decide)

/-! ### the route patterns -/

/-- The first element behind "/kapacitor/v1" is not "..". -/
def FirstOK (p : Path) : Prop := (split (trimPrefix p Gen.basePath)).head? ≠ some dotdot

theorem firstOK_base_slash (p : Path) (h : (base ++ ['/']).isPrefixOf p = true) : FirstOK p := by
  obtain ⟨t, rfl⟩ := List.isPrefixOf_iff_prefix.mp h
  have e : base ++ ['/'] ++ t = Gen.basePath ++ ('/' :: t) := by simp [base]
  unfold FirstOK
  rw [e]
  have : trimPrefix (Gen.basePath ++ '/' :: t) Gen.basePath = '/' :: t := by
    unfold trimPrefix; simp
  rw [this, split_cons_slash]
  simp; decide

theorem preview_eq : preview = Gen.basePath ++ ['p', 'r', 'e', 'v', 'i', 'e', 'w'] := by decide

theorem firstOK_preview_slash (p : Path) (h : (preview ++ ['/']).isPrefixOf p = true) : FirstOK p := by
  obtain ⟨t, rfl⟩ := List.isPrefixOf_iff_prefix.mp h
  have e : preview ++ ['/'] ++ t = Gen.basePath ++ (['p', 'r', 'e', 'v', 'i', 'e', 'w'] ++ '/' :: t) := by
    rw [preview_eq]; simp
  unfold FirstOK
  rw [e]
  have : trimPrefix (Gen.basePath ++ (['p', 'r', 'e', 'v', 'i', 'e', 'w'] ++ '/' :: t)) Gen.basePath =
      ['p', 'r', 'e', 'v', 'i', 'e', 'w'] ++ '/' :: t := by
    unfold trimPrefix; simp
  rw [this, split_append_slash _ (by decide)]
  simp; decide

theorem firstOK_consts : FirstOK base ∧ FirstOK preview ∧ FirstOK "/write".toList := by
  unfold FirstOK; decide

/-- Every route of NewHandler other than the "/" catch-all lies below "/kapacitor/v1/", below
"/kapacitor/v1preview/", or is the exact pattern "/write" (read off the regenerated route table). -/
theorem builtin_pattern_shapes : ∀ r ∈ builtinRoutes, r.kind ≠ .notFound →
    (base ++ ['/']).isPrefixOf r.pattern = true ∨ (preview ++ ['/']).isPrefixOf r.pattern = true ∨
    r.pattern = "/write".toList := by decide

theorem pathMatch_exact (pat p : Path) (c : Char) (hl : pat.getLast? = some c) (hc : c ≠ '/')
    (h : pathMatch pat p = true) : p = pat := by
  unfold pathMatch at h
  rw [hl] at h
  split at h
  · rename_i heq; cases heq
  · rename_i heq; injection heq with heq; exact absurd heq hc
  · exact (by simpa using h : pat = p).symm

theorem builtin_match_firstOK (r : Route) (hr : r ∈ builtinRoutes) (hk : r.kind ≠ .notFound) (p : Path)
    (hm : pathMatch r.pattern p = true) : FirstOK p := by
  rcases builtin_pattern_shapes r hr hk with h | h | h
  · exact firstOK_base_slash p (pathMatch_prefix _ _ _ hm h)
  · exact firstOK_preview_slash p (pathMatch_prefix _ _ _ hm h)
  · rw [h] at hm
    rw [pathMatch_exact _ p 'e' (by decide) (by decide) hm]
    exact firstOK_consts.2.2

/-- The patterns `AddRoute` / `AddPreviewRoute` can register: BasePath or BasePreviewPath followed by nothing
or by something that begins with '/'. -/
theorem viaAddRoute_cases (pat : Path) (h : viaAddRoute pat = true) :
    pat = base ∨ (base ++ ['/']).isPrefixOf pat = true ∨ pat = preview ∨ (preview ++ ['/']).isPrefixOf pat = true := by
  have aux : ∀ pre : Path, pre.isPrefixOf pat = true → (addRoutePattern pre (pat.drop pre.length)).isSome = true →
      pat = pre ∨ (pre ++ ['/']).isPrefixOf pat = true := by
    intro pre hp hs
    obtain ⟨t, rfl⟩ := List.isPrefixOf_iff_prefix.mp hp
    simp only [List.drop_left] at hs
    unfold addRoutePattern at hs
    cases t with
    | nil => left; simp
    | cons c cs =>
      right
      by_cases hc : c = '/'
      · subst hc
        exact List.isPrefixOf_iff_prefix.mpr ⟨cs, by simp⟩
      · simp [hc] at hs
  unfold viaAddRoute at h
  simp only [List.any_cons, List.any_nil, Bool.or_false, Bool.or_eq_true, Bool.and_eq_true] at h
  rcases h with ⟨h1, h2⟩ | ⟨h1, h2⟩
  · rcases aux base h1 h2 with h | h
    · exact Or.inl h
    · exact Or.inr (Or.inl h)
  · rcases aux preview h1 h2 with h | h
    · exact Or.inr (Or.inr (Or.inl h))
    · exact Or.inr (Or.inr (Or.inr h))

theorem added_match_firstOK (pat p : Path) (h : viaAddRoute pat = true) (hm : pathMatch pat p = true) : FirstOK p := by
  rcases viaAddRoute_cases pat h with h | h | h | h
  · subst h
    rw [pathMatch_exact _ p '1' (by decide) (by decide) hm]
    exact firstOK_consts.1
  · exact firstOK_base_slash p (pathMatch_prefix _ _ _ hm h)
  · subst h
    rw [pathMatch_exact _ p 'w' (by decide) (by decide) hm]
    exact firstOK_consts.2.1
  · exact firstOK_preview_slash p (pathMatch_prefix _ _ _ hm h)

theorem prefix_conflict (a b p : Path) (ha : a.isPrefixOf p = true) (hb : b.isPrefixOf p = true) :
    a.isPrefixOf b = true ∨ b.isPrefixOf a = true := by
  rcases List.prefix_or_prefix_of_prefix (List.isPrefixOf_iff_prefix.mp ha) (List.isPrefixOf_iff_prefix.mp hb) with h | h
  · exact Or.inl (List.isPrefixOf_iff_prefix.mpr h)
  · exact Or.inr (List.isPrefixOf_iff_prefix.mpr h)

/-- The URL paths whose resource leaves "/api" ("/kapacitor/v1.." and below) reach, among the routes of
NewHandler, only the 404 catch-all. -/
theorem escaping_url_only_catch_all (r : Route) (hr : r ∈ builtinRoutes) (p : Path)
    (hp : (Gen.basePath ++ dotdot).isPrefixOf p = true) (hm : pathMatch r.pattern p = true) : r.kind = .notFound := by
  by_cases hk : r.kind = .notFound
  · exact hk
  · exfalso
    rcases builtin_pattern_shapes r hr hk with h | h | h
    · have := prefix_conflict _ _ p (pathMatch_prefix _ _ _ hm h) hp
      revert this; decide
    · have := prefix_conflict _ _ p (pathMatch_prefix _ _ _ hm h) hp
      revert this; decide
    · rw [h] at hm
      rw [pathMatch_exact _ p 'e' (by decide) (by decide) hm] at hp
      revert hp; decide

end Kap.C20
