/-
C20 — helper lemmas, part 3: the table built by `NewUser` against the spec's `grantAt`, the exact
characterisation of `AuthorizeAction`, and the privilege masks.
-/
import Kap.Proofs.C20Walk
namespace Kap.C20
open Kap.C20.Spec

/-! ### the table -/

theorem foldl_or_acc (ps : List Nat) (acc : Nat) : ps.foldl (· ||| ·) acc = acc ||| orMask ps := by
  unfold orMask
  induction ps generalizing acc with
  | nil => simp
  | cons p ps ih =>
    simp only [List.foldl_cons]
    rw [ih (acc ||| p), ih (0 ||| p)]
    simp [Nat.or_assoc]

theorem orMask_append (a b : List Nat) : orMask (a ++ b) = orMask a ||| orMask b := by
  unfold orMask
  rw [List.foldl_append, foldl_or_acc b]
  rfl

theorem lookup_mapOr (m : List (Path × Nat)) (k k' : Path) (v : Nat) :
    lookup (mapOr m k v) k' = if k = k' then some ((lookup m k').getD 0 ||| v) else lookup m k' := by
  induction m with
  | nil =>
    by_cases h : k = k'
    · simp [mapOr, lookup, h]
    · simp [mapOr, lookup, h]
  | cons e rest ih =>
    unfold mapOr
    by_cases he : e.1 = k
    · rw [if_pos he]
      by_cases h : k = k'
      · have : e.1 = k' := he.trans h
        simp [lookup, this, h]
      · have : ¬ e.1 = k' := fun x => h (he.symm.trans x)
        simp [lookup, this, h]
    · rw [if_neg he]
      by_cases hk : e.1 = k'
      · have : ¬ k = k' := fun x => he (hk.trans x.symm)
        simp [lookup, hk, this]
      · have e1 : lookup (e :: mapOr rest k v) k' = lookup (mapOr rest k v) k' := by simp [lookup, hk]
        have e2 : lookup (e :: rest) k' = lookup rest k' := by simp [lookup, hk]
        rw [e1, e2, ih]

/-- One step of the `range` loop of `NewUser`, seen from key `k`. -/
def accStep (k : Path) (acc : Option Nat) (g : Path × List Nat) : Option Nat :=
  if clean g.1 = k then some (acc.getD 0 ||| orMask g.2) else acc

theorem lookup_foldl (grants : List (Path × List Nat)) (m : List (Path × Nat)) (k : Path) :
    lookup (grants.foldl (fun m g => mapOr m (clean g.1) (orMask g.2)) m) k = grants.foldl (accStep k) (lookup m k) := by
  induction grants generalizing m with
  | nil => simp
  | cons g gs ih =>
    simp only [List.foldl_cons]
    rw [ih, lookup_mapOr]
    rfl

theorem accStep_foldl (grants : List (Path × List Nat)) (k : Path) (acc : Option Nat) :
    grants.foldl (accStep k) acc =
      if (grants.filter (fun g => clean g.1 = k)).isEmpty then acc
      else some (acc.getD 0 ||| orMask ((grants.filter (fun g => clean g.1 = k)).flatMap (fun g => g.2))) := by
  induction grants generalizing acc with
  | nil => simp
  | cons g gs ih =>
    simp only [List.foldl_cons]
    rw [ih]
    unfold accStep
    by_cases h : clean g.1 = k
    · simp only [h, if_true, List.filter_cons, decide_true, List.isEmpty_cons, Bool.false_eq_true, if_false,
        List.flatMap_cons, Option.getD_some]
      rw [orMask_append]
      split
      · rename_i he
        have : List.filter (fun g => decide (clean g.1 = k)) gs = [] := by simpa using he
        simp [this, orMask]
      · simp [Nat.or_assoc]
    · rw [List.filter_cons_of_neg (by simpa using h)]
      simp [h]

/-- Looking a canonical path up in the user's table = the spec's `grantAt`, OR-ed into a mask. -/
theorem lookup_newUser (admin : Bool) (grants : List (Path × List Nat)) (a : Node) (ha : NormalSegs a) :
    lookup (newUser admin grants).privs ('/' :: join a) = (grantAt grants a).map orMask := by
  unfold newUser
  simp only
  rw [lookup_foldl, accStep_foldl]
  have hf : grants.filter (fun g => decide (clean g.1 = '/' :: join a)) =
      grants.filter (fun g => decide (nodeOf g.1 = some a)) := by
    apply List.filter_congr
    intro g _
    have := clean_eq_canonical_iff g.1 a ha
    by_cases h : nodeOf g.1 = some a
    · simp [h, this.mpr h]
    · have h' : ¬ clean g.1 = '/' :: join a := fun e => h (this.mp e)
      simp [h, h']
  rw [hf]
  unfold grantAt
  simp only [lookup, List.find?_nil, Option.getD_none, Nat.zero_or]
  split <;> simp

theorem findSome_nearest (admin : Bool) (grants : List (Path × List Nat)) (l : List Node) (hl : ∀ a ∈ l, NormalSegs a) :
    l.findSome? (fun a => lookup (newUser admin grants).privs ('/' :: join a)) =
      (l.findSome? (fun a => match grantAt grants a with | some ps => some (a, ps) | none => none)).map
        (fun x => orMask x.2) := by
  induction l with
  | nil => simp
  | cons a as ih =>
    simp only [List.findSome?_cons]
    rw [lookup_newUser admin grants a (hl a (by simp))]
    cases grantAt grants a with
    | some ps => simp
    | none => simpa using ih (fun x hx => hl x (by simp [hx]))

/-- The decision as a function of the nearest grant only. -/
def nearestDecision (a : Account) (resource : Path) (want : Nat) : Decision :=
  if want = noPriv ∨ a.admin = true then .allow
  else match nodeOf resource with
    | none => .invalid
    | some n =>
      match nearestGrant a.grants n with
      | some (_, ps) => if authorized (orMask ps) want then .allow else .deny
      | none => .deny

theorem walkSpec_newUser (a : Account) (want : Nat) (n : Node) (hn : NormalSegs n) :
    walkSpec a.user.privs want n =
      match nearestGrant a.grants n with
      | some (_, ps) => if authorized (orMask ps) want then .allow else .deny
      | none => .deny := by
  unfold walkSpec Account.user nearestGrant
  rw [findSome_nearest a.admin a.grants _ (ancestors_normal n hn)]
  cases (ancestors n).findSome? (fun a_1 => match grantAt a.grants a_1 with | some ps => some (a_1, ps) | none => none) with
  | none => simp
  | some x => simp

theorem walkSpec_empty (want : Nat) (n : Node) : walkSpec [] want n = .deny := by
  unfold walkSpec
  have : (ancestors n).findSome? (fun a => lookup [] ('/' :: join a)) = none := by
    rw [List.findSome?_eq_none_iff]; intro x _; simp [lookup]
  rw [this]

/-- **`AuthorizeAction` is exactly "the nearest grant decides"** — for every account, resource and privilege. -/
theorem authorizeAction_eq_nearest (a : Account) (resource : Path) (want : Nat) :
    authorizeAction a.user resource want = nearestDecision a resource want := by
  unfold authorizeAction nearestDecision
  have hadm : a.user.admin = a.admin := rfl
  rw [hadm]
  by_cases h0 : want = noPriv ∨ a.admin = true
  · simp [h0]
  · rw [if_neg h0, if_neg h0]
    cases hp : isAbs resource with
    | false => simp [nodeOf_rel resource hp]
    | true =>
      obtain ⟨cs, rfl⟩ := (isAbs_iff resource).mp hp
      obtain ⟨hn, hc⟩ := nodeOf_normal _ _ (nodeOf_abs cs)
      rw [nodeOf_abs]
      simp only [Bool.not_true, Bool.false_eq_true, if_false]
      rw [← walkSpec_newUser a want _ hn]
      split
      · rw [hc]
        apply walk_canonical _ _ _ hn
        have := join_length_ge _ (fun s hs => (hn s hs).1.1)
        simp; omega
      · rename_i hlen
        have : a.user.privs = [] := by
          cases hpv : a.user.privs with
          | nil => rfl
          | cons x xs => rw [hpv] at hlen; simp at hlen
        rw [this, walkSpec_empty]

/-- For EVERY user table: a rooted resource, no early allow ⇒ the loop's answer is `walkSpec` on the node. -/
theorem authorizeAction_walkSpec (u : User) (cs : List Char) (want : Nat) (h0 : ¬ (want = noPriv ∨ u.admin = true)) :
    authorizeAction u ('/' :: cs) want = walkSpec u.privs want (cleanSegs true (split ('/' :: cs))) := by
  unfold authorizeAction
  rw [if_neg h0]
  obtain ⟨hn, hc⟩ := nodeOf_normal _ _ (nodeOf_abs cs)
  simp only [isAbs, Bool.not_true, Bool.false_eq_true, if_false]
  split
  · rw [hc]
    apply walk_canonical _ _ _ hn
    have := join_length_ge _ (fun s hs => (hn s hs).1.1)
    simp; omega
  · rename_i hlen
    have : u.privs = [] := by
      cases hpv : u.privs with
      | nil => rfl
      | cons x xs => rw [hpv] at hlen; simp at hlen
    rw [this, walkSpec_empty]

/-! ### privilege masks -/

theorem foldl_or_and (ps : List Nat) (acc w : Nat) :
    (ps.foldl (· ||| ·) acc) &&& w = 0 ↔ acc &&& w = 0 ∧ ∀ p ∈ ps, p &&& w = 0 := by
  induction ps generalizing acc with
  | nil => simp
  | cons p ps ih =>
    simp only [List.foldl_cons]
    rw [ih, Nat.and_or_distrib_right, Nat.or_eq_zero_iff]
    simp [and_assoc]

theorem orMask_and (ps : List Nat) (w : Nat) : orMask ps &&& w = 0 ↔ ∀ p ∈ ps, p &&& w = 0 := by
  unfold orMask
  rw [foldl_or_and]
  simp

theorem orMask_and_ne (ps : List Nat) (w : Nat) : orMask ps &&& w ≠ 0 ↔ ∃ p ∈ ps, p &&& w ≠ 0 := by
  rw [ne_eq, orMask_and]; simp

theorem validPriv_cases (p : Nat) (h : validPriv p = true) : p = 1 ∨ p = 2 ∨ p = 4 ∨ p = 8 ∨ p = 16 := by
  unfold validPriv pNone pRead pWrite pDelete pAll at h
  simp at h
  omega

theorem valid_and (p w : Nat) (hp : validPriv p = true) (hw : validPriv w = true) : p &&& w ≠ 0 ↔ p = w := by
  rcases validPriv_cases p hp with rfl | rfl | rfl | rfl | rfl <;>
  rcases validPriv_cases w hw with rfl | rfl | rfl | rfl | rfl <;> decide

theorem allPriv_eq : allPriv = 16 := by decide
theorem noPriv_eq : noPriv = 1 := by decide

/-- **The mask test is the statement's "listed"**: on privilege lists and wanted privileges from the five
declared ones, `p&want != 0 || p&all != 0` holds iff the list contains the wanted privilege or `all`. -/
theorem authorized_eq_listed (ps : List Nat) (want : Nat) (hps : ps.all validPriv = true) (hw : validPriv want = true) :
    authorized (orMask ps) want = listed ps want := by
  have hv : ∀ p ∈ ps, validPriv p = true := by simpa using hps
  have h1 : (orMask ps &&& want ≠ 0) ↔ want ∈ ps := by
    rw [orMask_and_ne]
    constructor
    · rintro ⟨p, hp, hne⟩
      have := (valid_and p want (hv p hp) hw).mp hne
      subst this; exact hp
    · intro h
      exact ⟨want, h, (valid_and want want hw hw).mpr rfl⟩
  have h2 : (orMask ps &&& 16 ≠ 0) ↔ 16 ∈ ps := by
    rw [orMask_and_ne]
    constructor
    · rintro ⟨p, hp, hne⟩
      have := (valid_and p 16 (hv p hp) (by decide)).mp hne
      subst this; exact hp
    · intro h
      exact ⟨16, h, by decide⟩
  have ha : authorized (orMask ps) want = true ↔ (want ∈ ps ∨ 16 ∈ ps) := by
    unfold authorized
    rw [allPriv_eq]
    simp only [Bool.or_eq_true, bne_iff_ne]
    exact or_congr h1 h2
  have hl : listed ps want = true ↔ (want ∈ ps ∨ 16 ∈ ps) := by
    unfold listed
    simp [pAll]
  rw [Bool.eq_iff_iff, ha, hl]

end Kap.C20
