/-
C20 — helper lemmas, part 3: the table built by `NewUser` against the spec's `grantAt`, the exact
characterisation of `AuthorizeAction`, and the privilege masks.
-/
import Kap.Proofs.C20Walk
namespace Kap.C20
open Kap.C20.Spec

/-! ### the table -/

def entryOf (g : Path × List Nat) : Path × Nat := (clean g.1, orMask g.2)

theorem foldl_cons_entries (grants : List (Path × List Nat)) (acc : List (Path × Nat)) :
    grants.foldl (fun m g => (clean g.1, orMask g.2) :: m) acc = (grants.map entryOf).reverse ++ acc := by
  induction grants generalizing acc with
  | nil => simp
  | cons g gs ih => simp [ih, entryOf]

theorem newUser_privs (admin : Bool) (grants : List (Path × List Nat)) :
    (newUser admin grants).privs = (grants.reverse.map entryOf) := by
  unfold newUser
  simp only [foldl_cons_entries, List.append_nil, List.map_reverse]

theorem lookup_entries (l : List (Path × List Nat)) (a : Node) (ha : NormalSegs a) :
    lookup (l.map entryOf) ('/' :: join a) =
      (match l.find? (fun g => nodeOf g.1 = some a) with | some g => some (orMask g.2) | none => none) := by
  induction l with
  | nil => simp [lookup]
  | cons g gs ih =>
    unfold lookup at ih ⊢
    simp only [List.map_cons, List.find?_cons]
    by_cases h : nodeOf g.1 = some a
    · have : clean g.1 = '/' :: join a := (clean_eq_canonical_iff g.1 a ha).mpr h
      simp [entryOf, this, h]
    · have : clean g.1 ≠ '/' :: join a := fun e => h ((clean_eq_canonical_iff g.1 a ha).mp e)
      simp only [entryOf, this, h, decide_false]
      exact ih

/-- Looking a canonical path up in the user's table = the spec's `grantAt`, OR-ed into a mask. -/
theorem lookup_newUser (admin : Bool) (grants : List (Path × List Nat)) (a : Node) (ha : NormalSegs a) :
    lookup (newUser admin grants).privs ('/' :: join a) = (grantAt grants a).map orMask := by
  rw [newUser_privs, lookup_entries _ a ha]
  unfold grantAt
  cases grants.reverse.find? (fun g => nodeOf g.1 = some a) <;> simp

theorem findSome_nearest (admin : Bool) (grants : List (Path × List Nat)) (l : List Node) (hl : ∀ a ∈ l, NormalSegs a) :
    l.findSome? (fun a => lookup (newUser admin grants).privs ('/' :: join a)) =
      (l.findSome? (fun a => match grantAt grants a with | some ps => some (a, ps) | none => none)).map
        (fun x => orMask x.2) := by
  induction l with
  | nil => simp
  | cons a as ih =>
    simp only [List.findSome?_cons]
    rw [lookup_newUser admin grants a (hl a (by simp))]
    cases grantAt grants a with
    | some ps => simp
    | none => simpa using ih (fun x hx => hl x (by simp [hx]))

/-- The decision as a function of the nearest grant only. -/
def nearestDecision (a : Account) (resource : Path) (want : Nat) : Decision :=
  if want = noPriv ∨ a.admin = true then .allow
  else match nodeOf resource with
    | none => .invalid
    | some n =>
      match nearestGrant a.grants n with
      | some (_, ps) => if authorized (orMask ps) want then .allow else .deny
      | none => .deny

theorem walkSpec_newUser (a : Account) (want : Nat) (n : Node) (hn : NormalSegs n) :
    walkSpec a.user.privs want n =
      match nearestGrant a.grants n with
      | some (_, ps) => if authorized (orMask ps) want then .allow else .deny
      | none => .deny := by
  unfold walkSpec Account.user nearestGrant
  rw [findSome_nearest a.admin a.grants _ (ancestors_normal n hn)]
  cases (ancestors n).findSome? (fun a_1 => match grantAt a.grants a_1 with | some ps => some (a_1, ps) | none => none) with
  | none => simp
  | some x => simp

theorem walkSpec_empty (want : Nat) (n : Node) : walkSpec [] want n = .deny := by
  unfold walkSpec
  have : (ancestors n).findSome? (fun a => lookup [] ('/' :: join a)) = none := by
    rw [List.findSome?_eq_none_iff]; intro x _; simp [lookup]
  rw [this]

/-- **`AuthorizeAction` is exactly "the nearest grant decides"** — for every account, resource and privilege. -/
theorem authorizeAction_eq_nearest (a : Account) (resource : Path) (want : Nat) :
    authorizeAction a.user resource want = nearestDecision a resource want := by
  unfold authorizeAction nearestDecision
  have hadm : a.user.admin = a.admin := rfl
  rw [hadm]
  by_cases h0 : want = noPriv ∨ a.admin = true
  · simp [h0]
  · rw [if_neg h0, if_neg h0]
    cases hp : isAbs resource with
    | false => simp [nodeOf_rel resource hp]
    | true =>
      obtain ⟨cs, rfl⟩ := (isAbs_iff resource).mp hp
      obtain ⟨hn, hc⟩ := nodeOf_normal _ _ (nodeOf_abs cs)
      rw [nodeOf_abs]
      simp only [Bool.not_true, Bool.false_eq_true, if_false]
      rw [← walkSpec_newUser a want _ hn]
      split
      · rw [hc]
        apply walk_canonical _ _ _ hn
        have := join_length_ge _ (fun s hs => (hn s hs).1.1)
        simp; omega
      · rename_i hlen
        have : a.user.privs = [] := by
          cases hpv : a.user.privs with
          | nil => rfl
          | cons x xs => rw [hpv] at hlen; simp at hlen
        rw [this, walkSpec_empty]

/-! ### privilege masks -/

theorem foldl_or_and (ps : List Nat) (acc w : Nat) :
    (ps.foldl (· ||| ·) acc) &&& w = 0 ↔ acc &&& w = 0 ∧ ∀ p ∈ ps, p &&& w = 0 := by
  induction ps generalizing acc with
  | nil => simp
  | cons p ps ih =>
    simp only [List.foldl_cons]
    rw [ih, Nat.and_or_distrib_right, Nat.or_eq_zero_iff]
    simp [and_assoc]

theorem orMask_and (ps : List Nat) (w : Nat) : orMask ps &&& w = 0 ↔ ∀ p ∈ ps, p &&& w = 0 := by
  unfold orMask
  rw [foldl_or_and]
  simp

theorem orMask_and_ne (ps : List Nat) (w : Nat) : orMask ps &&& w ≠ 0 ↔ ∃ p ∈ ps, p &&& w ≠ 0 := by
  rw [ne_eq, orMask_and]; simp

theorem validPriv_cases (p : Nat) (h : validPriv p = true) : p = 1 ∨ p = 2 ∨ p = 4 ∨ p = 8 ∨ p = 16 := by
  unfold validPriv pNone pRead pWrite pDelete pAll at h
  simp at h
  omega

theorem valid_and (p w : Nat) (hp : validPriv p = true) (hw : validPriv w = true) : p &&& w ≠ 0 ↔ p = w := by
  rcases validPriv_cases p hp with rfl | rfl | rfl | rfl | rfl <;>
  rcases validPriv_cases w hw with rfl | rfl | rfl | rfl | rfl <;> decide

theorem orMask_all (ps : List Nat) (hne : ps ≠ []) (h : ∀ p ∈ ps, p = 16) : orMask ps = 16 := by
  unfold orMask
  cases ps with
  | nil => exact absurd rfl hne
  | cons p ps =>
    have hp : p = 16 := h p (by simp)
    subst hp
    simp only [List.foldl_cons]
    have : ∀ (l : List Nat), (∀ q ∈ l, q = 16) → l.foldl (· ||| ·) 16 = 16 := by
      intro l
      induction l with
      | nil => simp
      | cons q qs ih =>
        intro hq
        have : q = 16 := hq q (by simp)
        subst this
        simpa using ih (fun x hx => hq x (by simp [hx]))
    exact this ps (fun q hq => h q (by simp [hq]))

theorem allPriv_eq : allPriv = 16 := by decide
theorem noPriv_eq : noPriv = 1 := by decide

/-- Upper bound: the mask test succeeds only if the wanted privilege, or `all`, is in the list. -/
theorem authorized_listed (ps : List Nat) (want : Nat) (hps : ps.all validPriv = true) (hw : validPriv want = true)
    (h : authorized (orMask ps) want = true) : listed ps want = true := by
  unfold authorized at h
  unfold listed
  simp only [Bool.or_eq_true, bne_iff_ne, ne_eq, beq_iff_eq] at h
  simp only [Bool.or_eq_true, List.contains_iff_mem]
  have hv : ∀ p ∈ ps, validPriv p = true := by simpa using hps
  rcases h with h | h
  · left
    obtain ⟨p, hp, hne⟩ := (orMask_and_ne ps want).mp h
    have := (valid_and p want (hv p hp) hw).mp hne
    subst this; exact hp
  · right
    rw [allPriv_eq] at h
    have hne : orMask ps &&& 16 ≠ 0 := by rw [h]; decide
    obtain ⟨p, hp, hne⟩ := (orMask_and_ne ps 16).mp hne
    have := (valid_and p 16 (hv p hp) (by decide)).mp hne
    subst this; exact hp

/-- Lower bound: a listed privilege, or a list that is just `all`, passes the mask test. -/
theorem surely_authorized (ps : List Nat) (want : Nat) (hw : validPriv want = true)
    (h : surelyListed ps want = true) : authorized (orMask ps) want = true := by
  unfold surelyListed at h
  unfold authorized
  simp only [Bool.or_eq_true, List.contains_iff_mem, Bool.and_eq_true, Bool.not_eq_true', List.all_eq_true,
    beq_iff_eq] at h
  simp only [Bool.or_eq_true, bne_iff_ne, ne_eq, beq_iff_eq]
  rcases h with h | ⟨hne, hall⟩
  · left
    rw [orMask_and]
    intro hz
    have := hz want h
    have hww : want &&& want = want := Nat.and_self want
    rw [hww] at this
    subst this
    exact absurd hw (by decide)
  · right
    rw [allPriv_eq]
    exact orMask_all ps (by intro e; subst e; simp at hne) (fun p hp => by simpa [pAll] using hall p hp)

end Kap.C20
