/-
C20 — helper lemmas, part 6: the model's decision against the spec's bounds; API resources.
-/
import Kap.Proofs.C20Http
namespace Kap.C20
open Kap.C20.Spec

theorem pNone_eq : pNone = noPriv := by decide

theorem nodeOf_canonical (n : Node) (h : NormalSegs n) : nodeOf ('/' :: join n) = some n :=
  (clean_eq_canonical_iff _ n h).mp (clean_canonical n h)

/-- Cleaning does not change the node a path denotes. -/
theorem nodeOf_clean (p : Path) : nodeOf (clean p) = nodeOf p := by
  cases hp : isAbs p with
  | false =>
    rw [nodeOf_rel p hp, nodeOf_rel (clean p) (by rw [isAbs_clean, hp])]
  | true =>
    obtain ⟨cs, rfl⟩ := (isAbs_iff p).mp hp
    obtain ⟨hn, hc⟩ := nodeOf_normal _ _ (nodeOf_abs cs)
    rw [hc, nodeOf_canonical _ hn, nodeOf_abs]

def grantsValid (grants : List (Path × List Nat)) : Prop := ∀ g ∈ grants, g.2.all validPriv = true

theorem grantAt_valid (grants : List (Path × List Nat)) (hv : grantsValid grants) (n : Node) (ps : List Nat)
    (h : grantAt grants n = some ps) : ps.all validPriv = true := by
  unfold grantAt at h
  simp only at h
  split at h
  · cases h
  · injection h with h
    subst h
    rw [List.all_eq_true]
    intro p hp
    rw [List.mem_flatMap] at hp
    obtain ⟨g, hg, hpg⟩ := hp
    have := hv g (List.mem_filter.mp hg).1
    rw [List.all_eq_true] at this
    exact this p hpg

theorem nearestGrant_mem (grants : List (Path × List Nat)) (n a : Node) (ps : List Nat)
    (h : nearestGrant grants n = some (a, ps)) : a ∈ ancestors n ∧ grantAt grants a = some ps := by
  unfold nearestGrant at h
  obtain ⟨x, hx, hf⟩ := List.exists_of_findSome?_eq_some h
  split at hf
  · rename_i ps' hg
    injection hf with hf
    injection hf with h1 h2
    subst h1; subst h2
    exact ⟨hx, hg⟩
  · cases hf

/-- **The code's decision IS the reference decision** (on tables and privileges from the five declared ones). -/
theorem allow_iff_mayAllow (a : Account) (res : Path) (want : Nat) (hv : grantsValid a.grants) (hw : validPriv want = true) :
    authorizeAction a.user res want = .allow ↔ mayAllow a res want = true := by
  rw [authorizeAction_eq_nearest]
  unfold nearestDecision mayAllow
  by_cases h0 : want = noPriv ∨ a.admin = true
  · rw [if_pos h0]
    rcases h0 with h0 | h0
    · simp [h0, pNone_eq]
    · simp [h0]
  · rw [if_neg h0]
    have h1 : (want == pNone) = false := by
      rw [pNone_eq]; simp; exact fun e => h0 (Or.inl e)
    have h2 : a.admin = false := by
      cases ha : a.admin with
      | true => exact absurd (Or.inr ha) h0
      | false => rfl
    simp only [h1, h2, Bool.false_or]
    cases hn : nodeOf res with
    | none => simp
    | some n =>
      simp only
      cases hg : nearestGrant a.grants n with
      | none => simp
      | some x =>
        obtain ⟨anc, ps⟩ := x
        simp only
        obtain ⟨_, hga⟩ := nearestGrant_mem _ _ _ _ hg
        rw [authorized_eq_listed ps want (grantAt_valid _ hv _ _ hga) hw]
        cases listed ps want <;> simp

theorem allow_mayAllow (a : Account) (res : Path) (want : Nat) (hv : grantsValid a.grants) (hw : validPriv want = true)
    (h : authorizeAction a.user res want = .allow) : mayAllow a res want = true :=
  (allow_iff_mayAllow a res want hv hw).mp h

/-! ### the order in which `NewUser` visits the Go map does not matter -/

theorem orMask_perm (a b : List Nat) (h : a.Perm b) : orMask a = orMask b := by
  unfold orMask
  apply List.Perm.foldl_eq' h
  intro x _ y _ z
  rw [Nat.or_assoc, Nat.or_comm x y, ← Nat.or_assoc]

theorem grantAt_perm (g₁ g₂ : List (Path × List Nat)) (h : g₁.Perm g₂) (n : Node) :
    (grantAt g₁ n).map orMask = (grantAt g₂ n).map orMask := by
  unfold grantAt
  simp only
  have hf := List.Perm.filter (fun g => decide (nodeOf g.1 = some n)) h
  rw [List.Perm.isEmpty_eq hf]
  split
  · rfl
  · simp only [Option.map_some]
    rw [orMask_perm _ _ (List.Perm.flatMap_right (fun g => g.2) hf)]

theorem lookup_perm (admin : Bool) (g₁ g₂ : List (Path × List Nat)) (h : g₁.Perm g₂) (a : Node) (ha : NormalSegs a) :
    lookup (newUser admin g₁).privs ('/' :: join a) = lookup (newUser admin g₂).privs ('/' :: join a) := by
  rw [lookup_newUser admin g₁ a ha, lookup_newUser admin g₂ a ha, grantAt_perm g₁ g₂ h a]

theorem walkSpec_perm (admin : Bool) (g₁ g₂ : List (Path × List Nat)) (h : g₁.Perm g₂) (want : Nat) (n : Node)
    (hn : NormalSegs n) :
    walkSpec (newUser admin g₁).privs want n = walkSpec (newUser admin g₂).privs want n := by
  unfold walkSpec
  have : ∀ (l : List Node), (∀ a ∈ l, NormalSegs a) →
      l.findSome? (fun a => lookup (newUser admin g₁).privs ('/' :: join a)) =
      l.findSome? (fun a => lookup (newUser admin g₂).privs ('/' :: join a)) := by
    intro l hl
    induction l with
    | nil => rfl
    | cons a as ih =>
      simp only [List.findSome?_cons]
      rw [lookup_perm admin g₁ g₂ h a (hl a (by simp)), ih (fun x hx => hl x (by simp [hx]))]
  rw [this _ (ancestors_normal n hn)]

/-- **The order in which `NewUser` visits the map is irrelevant** (after fix 06df506): permuted grant lists
give the same decision on every resource and privilege. -/
theorem authorize_perm (admin : Bool) (g₁ g₂ : List (Path × List Nat)) (h : g₁.Perm g₂) (res : Path) (want : Nat) :
    authorizeAction (newUser admin g₁) res want = authorizeAction (newUser admin g₂) res want := by
  by_cases h0 : want = noPriv ∨ admin = true
  · unfold authorizeAction
    have a1 : (newUser admin g₁).admin = admin := rfl
    have a2 : (newUser admin g₂).admin = admin := rfl
    rw [a1, a2, if_pos h0, if_pos h0]
  · cases hp : isAbs res with
    | false =>
      unfold authorizeAction
      have a1 : (newUser admin g₁).admin = admin := rfl
      have a2 : (newUser admin g₂).admin = admin := rfl
      rw [a1, a2, if_neg h0, if_neg h0]
      simp [hp]
    | true =>
      obtain ⟨cs, rfl⟩ := (isAbs_iff res).mp hp
      rw [authorizeAction_walkSpec (newUser admin g₁) cs want h0, authorizeAction_walkSpec (newUser admin g₂) cs want h0]
      exact walkSpec_perm admin g₁ g₂ h want _ (nodeOf_normal _ _ (nodeOf_abs cs)).1

theorem mayAllow_congr (a : Account) (r1 r2 : Path) (want : Nat) (h : nodeOf r1 = nodeOf r2) :
    mayAllow a r1 want = mayAllow a r2 want := by
  unfold mayAllow; rw [h]

/-! ### API resources -/

theorem base_eq : Gen.basePath = "/kapacitor/v1".toList := by decide
theorem apiRoot_eq : Gen.apiRootResource = "/api".toList := by decide

theorem apiResource_node (p : Path) :
    nodeOf (apiResource (trimPrefix p Gen.basePath)) = nodeOf (apiNodeOf p) := by
  unfold apiResource pathJoin2
  have h1 : ¬ (Gen.apiRootResource = [] ∧ trimPrefix p Gen.basePath = []) := by
    intro h; exact absurd h.1 (by decide)
  have h2 : ¬ Gen.apiRootResource = [] := by decide
  rw [if_neg h1, if_neg h2, nodeOf_clean]
  unfold apiNodeOf trimPrefix
  rw [base_eq, apiRoot_eq]
  have e1 : "/api/".toList = "/api".toList ++ ['/'] := by decide
  have e2 : "/kapacitor/v1".toList.length = 13 := by decide
  rw [e1, e2]
  split <;> simp

/-- The model's method table (regenerated from the source) is the statement's table. -/
def tableOK (m : List Char) : Bool :=
  match requiredPrivilege m, requiredFor m with
  | .priv p, some q => p == q
  | _, _ => false

theorem method_table_ok : allowedMethods.all tableOK = true := by decide

theorem requiredPrivilege_spec (m : List Char) (hm : allowedMethods.contains m = true) :
    ∃ p, requiredPrivilege m = .priv p ∧ requiredFor m = some p ∧ validPriv p = true := by
  have h := method_table_ok
  rw [List.all_eq_true] at h
  have hm' : m ∈ allowedMethods := by simpa using hm
  have ht := h m hm'
  unfold tableOK at ht
  have hvalid : allowedMethods.all (fun m => match requiredFor m with | some q => validPriv q | none => false) = true := by decide
  rw [List.all_eq_true] at hvalid
  have hv := hvalid m hm'
  cases hr : requiredPrivilege m with
  | priv p =>
    cases hq : requiredFor m with
    | none => rw [hr, hq] at ht; cases ht
    | some q =>
      rw [hr, hq] at ht
      rw [hq] at hv
      simp only [beq_iff_eq] at ht
      subst ht
      exact ⟨p, rfl, rfl, hv⟩
  | unknownMethod => rw [hr] at ht; simp at ht
  | unrecognised => rw [hr] at ht; simp at ht

end Kap.C20
