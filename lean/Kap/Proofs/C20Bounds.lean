/-
C20 — helper lemmas, part 6: the model's decision against the spec's bounds; API resources.
-/
import Kap.Proofs.C20Http
namespace Kap.C20
open Kap.C20.Spec

theorem pNone_eq : pNone = noPriv := by decide

theorem nodeOf_canonical (n : Node) (h : NormalSegs n) : nodeOf ('/' :: join n) = some n :=
  (clean_eq_canonical_iff _ n h).mp (clean_canonical n h)

/-- Cleaning does not change the node a path denotes. -/
theorem nodeOf_clean (p : Path) : nodeOf (clean p) = nodeOf p := by
  cases hp : isAbs p with
  | false =>
    rw [nodeOf_rel p hp, nodeOf_rel (clean p) (by rw [isAbs_clean, hp])]
  | true =>
    obtain ⟨cs, rfl⟩ := (isAbs_iff p).mp hp
    obtain ⟨hn, hc⟩ := nodeOf_normal _ _ (nodeOf_abs cs)
    rw [hc, nodeOf_canonical _ hn, nodeOf_abs]

def grantsValid (grants : List (Path × List Nat)) : Prop := ∀ g ∈ grants, g.2.all validPriv = true

theorem grantAt_mem (grants : List (Path × List Nat)) (n : Node) (ps : List Nat) (h : grantAt grants n = some ps) :
    ∃ g ∈ grants, g.2 = ps := by
  unfold grantAt at h
  split at h
  · rename_i g hg
    injection h with h
    exact ⟨g, by simpa using List.mem_of_find?_eq_some hg, h⟩
  · cases h

theorem nearestGrant_mem (grants : List (Path × List Nat)) (n a : Node) (ps : List Nat)
    (h : nearestGrant grants n = some (a, ps)) : a ∈ ancestors n ∧ grantAt grants a = some ps := by
  unfold nearestGrant at h
  obtain ⟨x, hx, hf⟩ := List.exists_of_findSome?_eq_some h
  split at hf
  · rename_i ps' hg
    injection hf with hf
    injection hf with h1 h2
    subst h1; subst h2
    exact ⟨hx, hg⟩
  · cases hf

/-- Upper bound ("only if"): an allowed action is one the statement permits. -/
theorem allow_mayAllow (a : Account) (res : Path) (want : Nat) (hv : grantsValid a.grants) (hw : validPriv want = true)
    (h : authorizeAction a.user res want = .allow) : mayAllow a res want = true := by
  rw [authorizeAction_eq_nearest] at h
  unfold nearestDecision at h
  unfold mayAllow
  by_cases h0 : want = noPriv ∨ a.admin = true
  · rcases h0 with h0 | h0
    · simp [h0, pNone_eq]
    · simp [h0]
  · rw [if_neg h0] at h
    cases hn : nodeOf res with
    | none => rw [hn] at h; cases h
    | some n =>
      rw [hn] at h
      simp only at h ⊢
      cases hg : nearestGrant a.grants n with
      | none => rw [hg] at h; cases h
      | some x =>
        obtain ⟨anc, ps⟩ := x
        rw [hg] at h
        simp only at h ⊢
        obtain ⟨_, hga⟩ := nearestGrant_mem _ _ _ _ hg
        obtain ⟨g, hgm, rfl⟩ := grantAt_mem _ _ _ hga
        split at h
        · rename_i hauth
          simp [authorized_listed g.2 want (hv g hgm) hw hauth]
        · cases h

/-- Lower bound: what the statement surely grants is allowed. -/
theorem mustAllow_allow (a : Account) (res : Path) (want : Nat) (hw : validPriv want = true)
    (h : mustAllow a res want = true) : authorizeAction a.user res want = .allow := by
  rw [authorizeAction_eq_nearest]
  unfold nearestDecision
  unfold mustAllow at h
  by_cases h0 : want = noPriv ∨ a.admin = true
  · rw [if_pos h0]
  · rw [if_neg h0]
    have h1 : (want == pNone) = false := by
      rw [pNone_eq]; simp; exact fun e => h0 (Or.inl e)
    have h2 : a.admin = false := by
      cases ha : a.admin with
      | true => exact absurd (Or.inr ha) h0
      | false => rfl
    simp only [h1, h2, Bool.false_or] at h
    cases hn : nodeOf res with
    | none => rw [hn] at h; cases h
    | some n =>
      rw [hn] at h
      simp only at h ⊢
      cases hg : nearestGrant a.grants n with
      | none => rw [hg] at h; cases h
      | some x =>
        obtain ⟨anc, ps⟩ := x
        rw [hg] at h
        simp only at h ⊢
        rw [if_pos (surely_authorized ps want hw h)]

theorem mayAllow_congr (a : Account) (r1 r2 : Path) (want : Nat) (h : nodeOf r1 = nodeOf r2) :
    mayAllow a r1 want = mayAllow a r2 want := by
  unfold mayAllow; rw [h]

/-! ### API resources -/

theorem base_eq : Gen.basePath = "/kapacitor/v1".toList := by decide
theorem apiRoot_eq : Gen.apiRootResource = "/api".toList := by decide

theorem apiResource_node (p : Path) :
    nodeOf (apiResource (trimPrefix p Gen.basePath)) = nodeOf (apiNodeOf p) := by
  unfold apiResource pathJoin2
  have h1 : ¬ (Gen.apiRootResource = [] ∧ trimPrefix p Gen.basePath = []) := by
    intro h; exact absurd h.1 (by decide)
  have h2 : ¬ Gen.apiRootResource = [] := by decide
  rw [if_neg h1, if_neg h2, nodeOf_clean]
  unfold apiNodeOf trimPrefix
  rw [base_eq, apiRoot_eq]
  have e1 : "/api/".toList = "/api".toList ++ ['/'] := by decide
  have e2 : "/kapacitor/v1".toList.length = 13 := by decide
  rw [e1, e2]
  split <;> simp

/-- The model's method table (regenerated from the source) is the statement's table. -/
def tableOK (m : List Char) : Bool :=
  match requiredPrivilege m, requiredFor m with
  | .priv p, some q => p == q
  | _, _ => false

theorem method_table_ok : allowedMethods.all tableOK = true := by decide

theorem requiredPrivilege_spec (m : List Char) (hm : allowedMethods.contains m = true) :
    ∃ p, requiredPrivilege m = .priv p ∧ requiredFor m = some p ∧ validPriv p = true := by
  have h := method_table_ok
  rw [List.all_eq_true] at h
  have hm' : m ∈ allowedMethods := by simpa using hm
  have ht := h m hm'
  unfold tableOK at ht
  have hvalid : allowedMethods.all (fun m => match requiredFor m with | some q => validPriv q | none => false) = true := by decide
  rw [List.all_eq_true] at hvalid
  have hv := hvalid m hm'
  cases hr : requiredPrivilege m with
  | priv p =>
    cases hq : requiredFor m with
    | none => rw [hr, hq] at ht; cases ht
    | some q =>
      rw [hr, hq] at ht
      rw [hq] at hv
      simp only [beq_iff_eq] at ht
      subst ht
      exact ⟨p, rfl, rfl, hv⟩
  | unknownMethod => rw [hr] at ht; simp at ht
  | unrecognised => rw [hr] at ht; simp at ht

end Kap.C20
