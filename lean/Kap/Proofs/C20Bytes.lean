/-
C20 — helper lemmas, part 8: the generic (any character type) model of Kap/Model/C20Bytes.lean commutes with every
injective map `f : α → Char` that keeps '/' and '.', function by function; hence the byte instance `B.*` IS the
`List Char` model read through the Latin-1 embedding `B.emb`.
-/
import Kap.Model.C20Bytes
import Kap.Proofs.C20Db
set_option linter.unusedSectionVars false
namespace Kap.C20.G

variable {α : Type} [DecidableEq α]

/-- An embedding of the alphabet into `Char` that keeps the two characters the algorithms look at. -/
structure Emb (sl dt : α) (f : α → Char) : Prop where
  inj : ∀ a b, f a = f b → a = b
  sl : f sl = '/'
  dt : f dt = '.'

variable {sl dt : α} {f : α → Char}

theorem Emb.eq_sl (E : Emb sl dt f) (c : α) : f c = '/' ↔ c = sl :=
  ⟨fun h => E.inj _ _ (h.trans E.sl.symm), fun h => h ▸ E.sl⟩

theorem Emb.map_inj (E : Emb sl dt f) (s t : List α) : s.map f = t.map f ↔ s = t := List.map_inj_right E.inj

theorem Emb.map_eq_dot (E : Emb sl dt f) (s : List α) : s.map f = C20.dot ↔ s = [dt] := by
  have : C20.dot = [dt].map f := by simp [C20.dot, E.dt]
  rw [this, E.map_inj]

theorem Emb.map_eq_dotdot (E : Emb sl dt f) (s : List α) : s.map f = C20.dotdot ↔ s = [dt, dt] := by
  have : C20.dotdot = [dt, dt].map f := by simp [C20.dotdot, E.dt]
  rw [this, E.map_inj]

theorem Emb.map_eq_slash (E : Emb sl dt f) (s : List α) : s.map f = ['/'] ↔ s = [sl] := by
  have : ['/'] = [sl].map f := by simp [E.sl]
  rw [this, E.map_inj]

/-! ### split / join -/

theorem map_pushChar (c : α) (l : List (List α)) :
    (pushChar c l).map (List.map f) = C20.pushChar (f c) (l.map (List.map f)) := by
  cases l <;> simp [pushChar, C20.pushChar]

theorem map_split (E : Emb sl dt f) (p : List α) : (split sl p).map (List.map f) = C20.split (p.map f) := by
  induction p with
  | nil => simp [split, C20.split]
  | cons c cs ih =>
    by_cases h : c = sl
    · subst h
      rw [List.map_cons, E.sl, split_cons_slash, ← ih]
      simp [split]
    · have hc : f c ≠ '/' := fun e => h ((E.eq_sl c).mp e)
      rw [List.map_cons, split_cons_ne _ _ hc, ← ih, ← map_pushChar]
      simp [split, h]

theorem map_join (E : Emb sl dt f) (l : List (List α)) : (join sl l).map f = C20.join (l.map (List.map f)) := by
  induction l with
  | nil => simp [join, C20.join]
  | cons s ss ih =>
    cases ss with
    | nil => simp [join, C20.join]
    | cons t ts =>
      simp only [List.map_cons] at ih
      simp only [join, C20.join, List.map_cons, List.map_append, E.sl, ih]

/-! ### the segment machine -/

def csMap (f : α → Char) (st : CS α) : C20.CS := { ups := st.ups, stack := st.stack.map (List.map f) }

theorem map_popStep (r : Bool) (st : CS α) : csMap f (popStep r st) = C20.popStep r (csMap f st) := by
  unfold popStep C20.popStep csMap
  cases h : st.stack <;> cases r <;> simp [h]

theorem map_cleanStep (E : Emb sl dt f) (r : Bool) (st : CS α) (s : List α) :
    csMap f (cleanStep dt r st s) = C20.cleanStep r (csMap f st) (s.map f) := by
  unfold cleanStep C20.cleanStep
  simp only [List.map_eq_nil_iff, E.map_eq_dot, E.map_eq_dotdot]
  by_cases h1 : s = [] ∨ s = [dt]
  · simp only [h1, if_true]
  · simp only [h1, if_false]
    by_cases h2 : s = [dt, dt]
    · simp only [h2, if_true]; exact map_popStep r st
    · simp only [h2, if_false]; simp [csMap]

theorem map_foldl (E : Emb sl dt f) (r : Bool) (segs : List (List α)) (st : CS α) :
    csMap f (segs.foldl (cleanStep dt r) st) = (segs.map (List.map f)).foldl (C20.cleanStep r) (csMap f st) := by
  induction segs generalizing st with
  | nil => simp
  | cons s ss ih => simp only [List.foldl_cons, List.map_cons]; rw [ih, map_cleanStep E]

theorem map_cleanSegs (E : Emb sl dt f) (r : Bool) (segs : List (List α)) :
    (cleanSegs dt r segs).map (List.map f) = C20.cleanSegs r (segs.map (List.map f)) := by
  unfold cleanSegs C20.cleanSegs
  have h := map_foldl E r segs {}
  have h0 : csMap f ({} : CS α) = {} := by simp [csMap]
  rw [h0] at h
  simp only []
  rw [← h]
  simp [csMap, C20.dotdot, E.dt]

/-! ### `path.Clean`, `path.Dir`, `path.Join` -/

theorem map_isAbs (E : Emb sl dt f) (p : List α) : C20.isAbs (p.map f) = isAbs sl p := by
  cases p with
  | nil => simp [isAbs, C20.isAbs]
  | cons c cs => rw [List.map_cons, isAbs_cons]; simp [isAbs, E.eq_sl]

theorem map_clean (E : Emb sl dt f) (p : List α) : (clean sl dt p).map f = C20.clean (p.map f) := by
  unfold clean C20.clean
  simp only [List.map_eq_nil_iff, map_isAbs E, ← map_split E, ← map_cleanSegs E]
  by_cases hp : p = []
  · simp [hp, C20.dot, E.dt]
  · simp only [hp, if_false]
    cases ha : isAbs sl p with
    | true => simp [map_join E, E.sl]
    | false =>
      simp only [Bool.false_eq_true, if_false]
      by_cases ho : cleanSegs dt false (split sl p) = []
      · simp [ho, C20.dot, E.dt]
      · simp [ho, map_join E]

theorem map_dirPrefix (E : Emb sl dt f) (p : List α) : (dirPrefix sl p).map f = C20.dirPrefix (p.map f) := by
  unfold dirPrefix C20.dirPrefix
  rw [map_join E, ← map_split E]
  simp [List.map_dropLast]

theorem map_dir (E : Emb sl dt f) (p : List α) : (dir sl dt p).map f = C20.dir (p.map f) := by
  unfold dir C20.dir
  rw [map_clean E, map_dirPrefix E]

theorem map_pathJoin2 (E : Emb sl dt f) (a b : List α) :
    (pathJoin2 sl dt a b).map f = C20.pathJoin2 (a.map f) (b.map f) := by
  unfold pathJoin2 C20.pathJoin2
  simp only [List.map_eq_nil_iff]
  by_cases h1 : a = [] ∧ b = []
  · simp [h1]
  · simp only [h1, if_false]
    by_cases h2 : a = []
    · simp only [h2, if_true]; exact map_clean E b
    · simp only [h2, if_false]; rw [map_clean E]; simp [E.sl]

theorem map_apiResource (E : Emb sl dt f) (root : List α) (h : root.map f = Gen.apiRootResource) (p : List α) :
    (apiResource sl dt root p).map f = C20.apiResource (p.map f) := by
  unfold apiResource C20.apiResource
  rw [map_pathJoin2 E, h]

theorem map_dbReplace (E : Emb sl dt f) (us : α) (hus : f us = '_') (db : List α) :
    (dbReplace sl us db).map f = C20.dbReplace (db.map f) := by
  rw [dbReplace_eq]
  unfold dbReplace under
  simp only [List.map_map]
  apply List.map_congr_left
  intro c _
  by_cases h : c = sl
  · simp [h, E.sl, hus]
  · have : f c ≠ '/' := fun e => h ((E.eq_sl c).mp e)
    simp [h, this]

theorem map_databaseResource (E : Emb sl dt f) (us : α) (hus : f us = '_') (root sc sd : List α)
    (hr : root.map f = Gen.databaseRootResource) (hc : sc.map f = Gen.cleanSuffix) (hd : sd.map f = Gen.dirtySuffix)
    (db : List α) :
    (databaseResource sl dt us root sc sd db).map f = C20.databaseResource (db.map f) := by
  unfold databaseResource C20.databaseResource
  simp only [List.map_eq_nil_iff]
  by_cases h : db = []
  · simp [h, hr]
  · simp only [h, if_false]
    have hcond : (List.map f (dbReplace sl us db) = List.map f db) ↔ (dbReplace sl us db = db) := E.map_inj _ _
    rw [map_pathJoin2 E, hr, ← map_dbReplace E us hus]
    by_cases h2 : dbReplace sl us db = db
    · simp [h2, hc]
    · have h2' : ¬ (List.map f (dbReplace sl us db) = List.map f db) := fun c => h2 (hcond.mp c)
      simp [h2, h2', hd]

theorem map_trimPrefix (E : Emb sl dt f) (s pre : List α) :
    (trimPrefix s pre).map f = C20.trimPrefix (s.map f) (pre.map f) := by
  unfold trimPrefix C20.trimPrefix
  have : (pre.map f).isPrefixOf (s.map f) = pre.isPrefixOf s := by
    induction pre generalizing s with
    | nil => simp
    | cons a as ih =>
      cases s with
      | nil => simp
      | cons b bs =>
        rw [List.map_cons, List.map_cons, List.isPrefixOf_cons_cons, List.isPrefixOf_cons_cons, ih]
        have : (f a == f b) = (a == b) := by
          by_cases hab : a = b
          · simp [hab]
          · have hfab : f a ≠ f b := fun e => hab (E.inj _ _ e)
            rw [beq_eq_false_iff_ne.mpr hfab, beq_eq_false_iff_ne.mpr hab]
        rw [this]
  rw [this]
  split <;> simp [List.map_drop]

theorem map_muxCleanPath (E : Emb sl dt f) (p : List α) :
    (muxCleanPath sl dt p).map f = C20.muxCleanPath (p.map f) := by
  unfold muxCleanPath C20.muxCleanPath
  simp only [List.map_eq_nil_iff, map_isAbs E]
  by_cases hp : p = []
  · simp [hp, E.sl]
  · simp only [hp, if_false]
    have hq : ∀ q : List α, (q.map f).getLast? = some '/' ↔ q.getLast? = some sl := by
      intro q
      rw [List.getLast?_map]
      cases q.getLast? with
      | none => simp
      | some c => simp [E.eq_sl]
    cases ha : isAbs sl p with
    | true =>
      simp only [if_true, hq, ← map_clean E, ne_eq, E.map_eq_slash]
      split <;> simp [E.sl]
    | false =>
      simp only [Bool.false_eq_true, if_false]
      have e : '/' :: p.map f = (sl :: p).map f := by simp [E.sl]
      rw [e]
      simp only [hq, ← map_clean E, ne_eq, E.map_eq_slash]
      split <;> simp [E.sl]

/-! ### the user table and the loop -/

def tmap (f : α → Char) (m : List (List α × Nat)) : List (Path × Nat) := m.map (fun e => (e.1.map f, e.2))

def gmap (f : α → Char) (g : List (List α × List Nat)) : List (Path × List Nat) := g.map (fun e => (e.1.map f, e.2))

def umap (f : α → Char) (u : User α) : C20.User := { admin := u.admin, privs := tmap f u.privs }

theorem map_lookup (E : Emb sl dt f) (m : List (List α × Nat)) (k : List α) :
    C20.lookup (tmap f m) (k.map f) = lookup m k := by
  unfold lookup C20.lookup tmap
  induction m with
  | nil => simp
  | cons e rest ih =>
    simp only [List.map_cons, List.find?_cons]
    by_cases h : e.1 = k
    · simp [h]
    · have : ¬ e.1.map f = k.map f := fun c => h ((E.map_inj _ _).mp c)
      simp only [this, h, decide_false]
      exact ih

theorem map_mapOr (E : Emb sl dt f) (m : List (List α × Nat)) (k : List α) (v : Nat) :
    tmap f (mapOr m k v) = C20.mapOr (tmap f m) (k.map f) v := by
  induction m with
  | nil => simp [mapOr, C20.mapOr, tmap]
  | cons e rest ih =>
    unfold mapOr C20.mapOr
    by_cases h : e.1 = k
    · simp [tmap, h]
    · have : ¬ e.1.map f = k.map f := fun c => h ((E.map_inj _ _).mp c)
      simp only [tmap, List.map_cons, h, this, if_false] at ih ⊢
      rw [ih]

theorem map_newUser (E : Emb sl dt f) (admin : Bool) (grants : List (List α × List Nat)) :
    umap f (newUser sl dt admin grants) = C20.newUser admin (gmap f grants) := by
  unfold newUser C20.newUser umap
  simp only [C20.User.mk.injEq, true_and]
  have : ∀ (acc : List (List α × Nat)),
      tmap f (grants.foldl (fun m g => mapOr m (clean sl dt g.1) (orMask g.2)) acc) =
      (gmap f grants).foldl (fun m g => C20.mapOr m (C20.clean g.1) (orMask g.2)) (tmap f acc) := by
    induction grants with
    | nil => intro acc; simp [gmap]
    | cons g gs ih =>
      intro acc
      simp only [List.foldl_cons, gmap, List.map_cons]
      rw [ih, map_mapOr E, map_clean E]
      rfl
  have h := this []
  simpa [tmap] using h

theorem map_walk (E : Emb sl dt f) (privs : List (List α × Nat)) (want : Nat) (fuel : Nat) (r : List α) :
    C20.walk (tmap f privs) want fuel (r.map f) = walk sl dt privs want fuel r := by
  induction fuel generalizing r with
  | zero => simp [walk, C20.walk]
  | succ n ih =>
    unfold walk C20.walk
    rw [map_lookup E]
    cases lookup privs r with
    | some p => rfl
    | none =>
      simp only [E.map_eq_slash]
      by_cases h : r = [sl]
      · simp [h]
      · simp only [h, if_false]
        rw [← map_dir E, ih]

theorem map_authorizeAction (E : Emb sl dt f) (u : User α) (r : List α) (want : Nat) :
    C20.authorizeAction (umap f u) (r.map f) want = authorizeAction sl dt u r want := by
  unfold authorizeAction C20.authorizeAction
  simp only [map_isAbs E, ← map_clean E, List.length_map]
  simp only [umap, tmap, List.length_map]
  exact (by
    split
    · rfl
    · split
      · rfl
      · split
        · exact map_walk E u.privs want _ _
        · rfl)

end Kap.C20.G

/-! ### the byte instance -/
namespace Kap.C20.B
open Kap.C20.G

theorem emb_toNat (b : UInt8) : (emb b).toNat = b.toNat := by
  unfold emb
  have h : b.toNat < 256 := b.toNat_lt
  rw [Char.ofNat, dif_pos (Or.inl (by omega))]
  simp [Char.ofNatAux, Char.toNat]

theorem emb_inj (a b : UInt8) (h : emb a = emb b) : a = b := by
  have := congrArg Char.toNat h
  rw [emb_toNat, emb_toNat] at this
  exact UInt8.toNat_inj.mp this

/-- Latin-1 is an embedding that keeps '/' and '.'. -/
theorem latin1 : Emb sl dt emb := ⟨emb_inj, by decide, by decide⟩

theorem embL_inj (p q : Bytes) : embL p = embL q ↔ p = q := latin1.map_inj p q

theorem consts_ascii :
    embL (ofAscii Gen.apiRootResource) = Gen.apiRootResource ∧
    embL (ofAscii Gen.databaseRootResource) = Gen.databaseRootResource ∧
    embL (ofAscii Gen.cleanSuffix) = Gen.cleanSuffix ∧ embL (ofAscii Gen.dirtySuffix) = Gen.dirtySuffix ∧
    embL (ofAscii Gen.basePath) = Gen.basePath ∧ emb us = '_' := by decide

end Kap.C20.B
